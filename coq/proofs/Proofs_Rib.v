From Coq Require Import ZArith Bool List Lia.
From ExaV Require Import lib.Amap model.Model_Rib.
Import ListNotations.
Open Scope Z_scope.

Local Notation zget := (aget Z.eqb).
Local Notation zset := (aset Z.eqb).
Local Notation zpop := (apop Z.eqb).
Local Notation zspec := Z.eqb_spec.

(* ================================================================ 1. effect of updates on one key *)

Definition step_eff (k : Z) (u : upd) (cur : option (Z * Z)) : option (Z * Z) :=
  match u with
  | URef x | UAnn x => if ridx x =? k then Some (rval x) else cur
  | UWd i => if i =? k then None else cur
  | _ => cur
  end.

Definition E (k : Z) (l : list upd) (cur : option (Z * Z)) : option (Z * Z) :=
  fold_left (fun c u => step_eff k u c) l cur.

Lemma aget_tdel_same : forall k (t : table), zget k (tdel k t) = None.
Proof.
  induction t as [|[k' v] t IH]; simpl; [reflexivity|].
  destruct (zspec k' k) as [->|N]; simpl; [exact IH|].
  destruct (zspec k k'); [congruence|exact IH].
Qed.

Lemma aget_tdel_other : forall k k' (t : table), k <> k' -> zget k (tdel k' t) = zget k t.
Proof.
  intros k k' t N. induction t as [|[k2 v] t IH]; simpl; [reflexivity|].
  destruct (zspec k2 k') as [->|N2]; simpl.
  - destruct (zspec k k'); [contradiction|exact IH].
  - destruct (k =? k2); [reflexivity|exact IH].
Qed.

Lemma aget_papply : forall k t u, zget k (papply t u) = step_eff k u (zget k t).
Proof.
  intros k t u. destruct u as [f|f|x|i|x]; simpl; try reflexivity.
  - destruct (zspec (ridx x) k) as [<-|N].
    + apply aget_aset_same. exact zspec.
    + apply aget_aset_other; [exact zspec|congruence].
  - destruct (zspec i k) as [->|N]; [apply aget_tdel_same|apply aget_tdel_other; congruence].
  - destruct (zspec (ridx x) k) as [<-|N].
    + apply aget_aset_same. exact zspec.
    + apply aget_aset_other; [exact zspec|congruence].
Qed.

Lemma eff_fold : forall k l t, zget k (fold_left papply l t) = E k l (zget k t).
Proof.
  intros k l. induction l as [|u l IH]; intros t; simpl; [reflexivity|].
  rewrite IH, aget_papply. reflexivity.
Qed.

Lemma E_app : forall k l1 l2 c, E k (l1 ++ l2) c = E k l2 (E k l1 c).
Proof. intros. unfold E. apply fold_left_app. Qed.

Lemma E_refstart : forall k fs c, E k (map URefStart fs) c = c.
Proof. induction fs; simpl; auto. Qed.
Lemma E_refend : forall k fs c, E k (map URefEnd fs) c = c.
Proof. induction fs; simpl; auto. Qed.

(* every list of updates acts on one key either as a constant or as the identity *)
Lemma E_const_or_id : forall k l, (forall c1 c2, E k l c1 = E k l c2) \/ (forall c, E k l c = c).
Proof.
  intros k l. induction l as [|u l IH]; [right; reflexivity|].
  assert (H : (forall c1 c2, step_eff k u c1 = step_eff k u c2) \/ (forall c, step_eff k u c = c)).
  { destruct u as [f|f|x|i|x]; simpl; try (right; reflexivity).
    - destruct (ridx x =? k); [left|right]; reflexivity.
    - destruct (i =? k); [left|right]; reflexivity.
    - destruct (ridx x =? k); [left|right]; reflexivity. }
  destruct IH as [IH|IH].
  - left. intros c1 c2. simpl. apply IH.
  - destruct H as [H|H].
    + left. intros c1 c2. simpl. rewrite !IH. apply H.
    + right. intros c. simpl. rewrite IH. apply H.
Qed.

(* last route with index k *)
Definition lastk (k : Z) (l : list route) : option route :=
  fold_left (fun acc x => if ridx x =? k then Some x else acc) l None.

Lemma lastk_gen : forall k l acc,
  fold_left (fun acc x => if ridx x =? k then Some x else acc) l acc =
  match lastk k l with Some x => Some x | None => acc end.
Proof.
  intros k l. unfold lastk. induction l as [|x l IH]; intros acc; simpl; [reflexivity|].
  rewrite IH. rewrite (IH (if ridx x =? k then Some x else None)).
  destruct (fold_left _ l None); [reflexivity|]. destruct (ridx x =? k); reflexivity.
Qed.

Lemma lastk_app : forall k l1 l2,
  lastk k (l1 ++ l2) = match lastk k l2 with Some x => Some x | None => lastk k l1 end.
Proof. intros. unfold lastk at 1. rewrite fold_left_app. apply lastk_gen. Qed.

Lemma lastk_cons : forall k x l,
  lastk k (x :: l) = match lastk k l with Some y => Some y | None => if ridx x =? k then Some x else None end.
Proof. intros. change (x :: l) with ([x] ++ l). rewrite lastk_app. reflexivity. Qed.

Lemma lastk_some : forall k l x, lastk k l = Some x -> In x l /\ ridx x = k.
Proof.
  induction l as [|y l IH]; intros x H; [discriminate|].
  rewrite lastk_cons in H. destruct (lastk k l) eqn:L.
  - injection H as <-. destruct (IH _ eq_refl). split; [now right|assumption].
  - destruct (zspec (ridx y) k); [|discriminate]. injection H as <-. split; [now left|assumption].
Qed.

Lemma lastk_none : forall k l, lastk k l = None <-> (forall x, In x l -> ridx x <> k).
Proof.
  induction l as [|y l IH]; [split; [intros _ x []|reflexivity]|].
  rewrite lastk_cons. split.
  - intros H x [<-|I].
    + destruct (lastk k l); [discriminate|]. destruct (zspec (ridx y) k); [discriminate|assumption].
    + destruct (lastk k l) eqn:L; [discriminate|]. now apply IH.
  - intros H. assert (L : lastk k l = None) by (apply IH; intros; apply H; now right).
    rewrite L. destruct (zspec (ridx y) k) as [e|]; [|reflexivity]. exfalso. now apply (H y (or_introl eq_refl)).
Qed.

Lemma E_ann : forall k l c,
  E k (map UAnn l) c = match lastk k l with Some x => Some (rval x) | None => c end.
Proof.
  intros k l. induction l as [|x l IH]; intros c; [reflexivity|].
  simpl. rewrite IH, lastk_cons. destruct (lastk k l); [reflexivity|].
  destruct (ridx x =? k); reflexivity.
Qed.

Lemma E_ref : forall k l c,
  E k (map URef l) c = match lastk k l with Some x => Some (rval x) | None => c end.
Proof.
  intros k l. induction l as [|x l IH]; intros c; [reflexivity|].
  simpl. rewrite IH, lastk_cons. destruct (lastk k l); [reflexivity|].
  destruct (ridx x =? k); reflexivity.
Qed.

Lemma E_wd : forall k l c,
  E k (map UWd l) c = if existsb (Z.eqb k) l then None else c.
Proof.
  intros k l. induction l as [|i l IH]; intros c; [reflexivity|].
  simpl. rewrite IH. rewrite (Z.eqb_sym k i).
  destruct (i =? k); simpl; [destruct (existsb _ l); reflexivity|reflexivity].
Qed.

(* ================================================================ 2. the announce queue *)

Definition keys_ok (b : amap Z route) : Prop := forall i x, In (i, x) b -> ridx x = i.
Definition bucket_ok (a : Z) (b : amap Z route) : Prop :=
  awf b /\ forall i x, In (i, x) b -> ridx x = i /\ rattr x = a.
Definition Minv (M : amap Z (amap Z route)) : Prop :=
  awf M /\ forall a b, In (a, b) M -> bucket_ok a b.

Lemma bucket_keys_ok : forall a b, bucket_ok a b -> keys_ok b.
Proof. intros a b [_ H] i x I. now destruct (H i x I). Qed.

Lemma in_apop {V} : forall (e : Z * V) k m, In e (zpop k m) -> In e m.
Proof.
  intros e k m. induction m as [|[k' v'] m IH]; simpl; [tauto|].
  destruct (k =? k'); simpl; intuition.
Qed.

Lemma in_aset {V} : forall j (y : V) k v m, In (j, y) (zset k v m) -> (j = k /\ y = v) \/ In (j, y) m.
Proof.
  intros j y k v m. induction m as [|[k' v'] m IH]; simpl.
  - intros [H|[]]. left. split; congruence.
  - destruct (zspec k k') as [->|N]; simpl.
    + intros [H|H]; [left; split; congruence|right; now right].
    + intros [H|H]; [right; now left|]. destruct (IH H); [now left|right; now right].
Qed.

Lemma keys_ok_tail : forall j y b, keys_ok ((j, y) :: b) -> keys_ok b.
Proof. intros j y b H i x I. apply H. now right. Qed.

Lemma lastk_apop_other : forall k i b, keys_ok b -> k <> i ->
  lastk k (avalues (zpop i b)) = lastk k (avalues b).
Proof.
  intros k i b. induction b as [|[j y] b IH]; intros K N; [reflexivity|].
  simpl. destruct (zspec i j) as [->|Nij].
  - simpl. rewrite lastk_cons. assert (ridx y = j) by (apply K; now left).
    destruct (zspec (ridx y) k); [congruence|]. destruct (lastk k (avalues b)); reflexivity.
  - simpl. rewrite !lastk_cons. rewrite IH; [reflexivity|eapply keys_ok_tail; eassumption|assumption].
Qed.

Lemma lastk_no_key : forall i b, keys_ok b -> ~ In i (akeys b) -> lastk i (avalues b) = None.
Proof.
  intros i b K N. apply lastk_none. intros x I. unfold avalues in I. apply in_map_iff in I.
  destruct I as [[j y] [<- I]]. simpl. rewrite (K j y I). intros E. apply N. rewrite <- E.
  unfold akeys. apply (in_map fst _ _ I).
Qed.

Lemma lastk_apop_same : forall i b, awf b -> keys_ok b -> lastk i (avalues (zpop i b)) = None.
Proof.
  intros i b W K. apply lastk_no_key.
  - intros j x I. apply K. eapply in_apop; eassumption.
  - intros C. apply amem_true with (eqb := Z.eqb) in C; [|exact zspec].
    unfold amem in C. rewrite aget_apop_same in C; [discriminate|exact zspec|exact W].
Qed.

Lemma lastk_aset_other : forall k i x b, keys_ok b -> ridx x = i -> k <> i ->
  lastk k (avalues (zset i x b)) = lastk k (avalues b).
Proof.
  intros k i x b. induction b as [|[j y] b IH]; intros K R N.
  - simpl. unfold lastk. simpl. destruct (zspec (ridx x) k); [congruence|reflexivity].
  - simpl. destruct (zspec i j) as [->|Nij]; simpl.
    + rewrite !lastk_cons. assert (ridx y = j) by (apply K; now left).
      destruct (zspec (ridx x) k); [congruence|]. destruct (zspec (ridx y) k); [congruence|]. reflexivity.
    + rewrite !lastk_cons. rewrite IH; [reflexivity|eapply keys_ok_tail; eassumption|assumption|assumption].
Qed.

Lemma lastk_aset_same : forall i x b, awf b -> keys_ok b -> ridx x = i ->
  lastk i (avalues (zset i x b)) = Some x.
Proof.
  intros i x b. induction b as [|[j y] b IH]; intros W K R.
  - simpl. unfold lastk. simpl. rewrite R, Z.eqb_refl. reflexivity.
  - inversion W as [|? ? Hn Hw]; subst. simpl. destruct (zspec (ridx x) j) as [e|Nij]; simpl.
    + rewrite lastk_cons. rewrite lastk_no_key; [now rewrite Z.eqb_refl| eapply keys_ok_tail; eassumption|now rewrite e].
    + rewrite lastk_cons. rewrite IH; [reflexivity|assumption|eapply keys_ok_tail; eassumption|reflexivity].
Qed.

Lemma ann_list_app : forall M1 M2, ann_list (M1 ++ M2) = ann_list M1 ++ ann_list M2.
Proof. intros. unfold ann_list. apply flat_map_app. Qed.

Lemma aget_split {V} : forall a (b : V) M, zget a M = Some b ->
  exists Mb Ma, M = Mb ++ (a, b) :: Ma /\ ~ In a (akeys Mb).
Proof.
  intros a b M. induction M as [|[a' b'] M IH]; simpl; [discriminate|].
  destruct (zspec a a') as [->|N].
  - intros H. injection H as ->. exists [], M. split; [reflexivity|intros []].
  - intros H. destruct (IH H) as [Mb [Ma [-> Hn]]]. exists ((a', b') :: Mb), Ma. split; [reflexivity|].
    simpl. intros [C|C]; [congruence|contradiction].
Qed.

Lemma aset_split {V} : forall a (b b' : V) Mb Ma, ~ In a (akeys Mb) ->
  zset a b' (Mb ++ (a, b) :: Ma) = Mb ++ (a, b') :: Ma.
Proof.
  intros a b b' Mb Ma. induction Mb as [|[a2 b2] Mb IH]; simpl; intros Hn.
  - now rewrite Z.eqb_refl.
  - destruct (zspec a a2) as [->|N]; [exfalso; apply Hn; now left|].
    f_equal. apply IH. intros C. apply Hn. now right.
Qed.

Lemma aset_new {V} : forall a (b' : V) M, zget a M = None -> zset a b' M = M ++ [(a, b')].
Proof.
  intros a b' M. induction M as [|[a2 b2] M IH]; simpl; [reflexivity|].
  destruct (zspec a a2); [discriminate|]. intros H. now rewrite IH.
Qed.

(* ---- purge *)

Lemma purge_keys : forall i keep M, akeys (purge i keep M) = akeys M.
Proof.
  intros. unfold purge, akeys. rewrite map_map. apply map_ext. intros [a b]. simpl.
  destruct keep as [a0|]; [destruct (a =? a0)|]; reflexivity.
Qed.

Lemma purge_in : forall i keep M a b, In (a, b) (purge i keep M) ->
  exists b0, In (a, b0) M /\ (b = b0 \/ b = zpop i b0).
Proof.
  intros i keep M a b H. unfold purge in H. apply in_map_iff in H. destruct H as [[a0 b0] [E I]].
  destruct keep as [a1|]; simpl in E.
  - destruct (a0 =? a1); injection E as <- <-; exists b0; auto.
  - injection E as <- <-. exists b0. auto.
Qed.

Lemma bucket_ok_apop : forall a i b, bucket_ok a b -> bucket_ok a (zpop i b).
Proof.
  intros a i b [W K]. split; [apply awf_apop; [exact zspec|assumption]|].
  intros j x I. apply K. eapply in_apop; eassumption.
Qed.

Lemma Minv_purge : forall i keep M, Minv M -> Minv (purge i keep M).
Proof.
  intros i keep M [W B]. split.
  - unfold awf. rewrite purge_keys. exact W.
  - intros a b I. destruct (purge_in _ _ _ _ _ I) as [b0 [I0 [->| ->]]]; [now apply B|].
    apply bucket_ok_apop. now apply B.
Qed.

Lemma lastk_purge_other : forall k i keep M, (forall a b, In (a, b) M -> keys_ok b) -> k <> i ->
  lastk k (ann_list (purge i keep M)) = lastk k (ann_list M).
Proof.
  intros k i keep M. induction M as [|[a b] M IH]; intros K N; [reflexivity|].
  change ((a, b) :: M) with ([(a, b)] ++ M). unfold purge. rewrite map_app. fold (purge i keep M).
  rewrite !ann_list_app, !lastk_app. rewrite IH; [|intros; eapply K; right; eassumption|assumption].
  destruct (lastk k (ann_list M)); [reflexivity|].
  simpl. rewrite !app_nil_r.
  assert (Kb : keys_ok b) by (eapply K; now left).
  destruct keep as [a0|]; simpl; [destruct (a =? a0); simpl|]; try reflexivity;
    now apply lastk_apop_other.
Qed.

Lemma lastk_purge_all : forall i M, Minv M -> lastk i (ann_list (purge i None M)) = None.
Proof.
  intros i M [_ B]. induction M as [|[a b] M IH]; [reflexivity|].
  change ((a, b) :: M) with ([(a, b)] ++ M). unfold purge. rewrite map_app. fold (purge i None M).
  rewrite ann_list_app, lastk_app. rewrite IH; [|intros; apply B; now right].
  simpl. rewrite app_nil_r. destruct (B a b (or_introl eq_refl)) as [W K].
  apply lastk_apop_same; [exact W|]. intros j x I. now destruct (K j x I).
Qed.

Lemma purge_keep_other : forall i a0 M a b, Minv M -> In (a, b) (purge i (Some a0) M) -> a <> a0 ->
  lastk i (avalues b) = None.
Proof.
  intros i a0 M a b [_ B] I N. unfold purge in I. apply in_map_iff in I.
  destruct I as [[a1 b1] [E I]]. simpl in E. destruct (zspec a1 a0) as [->|N1].
  - injection E as <- <-. contradiction.
  - injection E as <- <-. destruct (B a1 b1 I) as [W K].
    apply lastk_apop_same; [exact W|]. intros j x J. now destruct (K j x J).
Qed.

Lemma purge_keep_get : forall i a0 M, zget a0 (purge i (Some a0) M) = zget a0 M.
Proof.
  intros i a0 M. induction M as [|[a b] M IH]; [reflexivity|].
  simpl. destruct (zspec a a0) as [->|N]; simpl.
  - now rewrite Z.eqb_refl.
  - destruct (zspec a0 a); [congruence|exact IH].
Qed.

Lemma lastk_list_none : forall i M, (forall a b, In (a, b) M -> lastk i (avalues b) = None) ->
  lastk i (ann_list M) = None.
Proof.
  intros i M. induction M as [|[a b] M IH]; intros H; [reflexivity|].
  change ((a, b) :: M) with ([(a, b)] ++ M). rewrite ann_list_app, lastk_app.
  rewrite IH; [|intros; eapply H; right; eassumption].
  simpl. rewrite app_nil_r. eapply H. now left.
Qed.

(* ---- bucket_set *)

Lemma get_bucket_ok : forall a M, Minv M -> bucket_ok a (get_bucket a M).
Proof.
  intros a M [W B]. unfold get_bucket. destruct (zget a M) as [b|] eqn:G.
  - apply B. apply in_aget with (eqb := Z.eqb); [exact zspec|exact W|exact G].
  - split; [constructor|intros i x []].
Qed.

Lemma Minv_bucket_set : forall x M, Minv M -> Minv (bucket_set x M).
Proof.
  intros x M MI. pose proof (get_bucket_ok (rattr x) M MI) as [Wb Kb]. destruct MI as [W B].
  unfold bucket_set. split; [apply awf_aset; [exact zspec|assumption]|].
  intros a b I. apply in_aset in I. destruct I as [[-> ->]|I]; [|now apply B].
  split; [apply awf_aset; [exact zspec|assumption]|]. intros j y J. apply in_aset in J.
  destruct J as [[-> ->]|J]; [split; reflexivity|now apply Kb].
Qed.

Lemma lastk_bucket_set_other : forall k x M, Minv M -> k <> ridx x ->
  lastk k (ann_list (bucket_set x M)) = lastk k (ann_list M).
Proof.
  intros k x M MI N. pose proof (get_bucket_ok (rattr x) M MI) as BO.
  unfold bucket_set, get_bucket in *. destruct (zget (rattr x) M) as [b|] eqn:G.
  - destruct (aget_split _ _ _ G) as [Mb [Ma [-> Hn]]]. rewrite aset_split by exact Hn.
    rewrite !ann_list_app. change ((rattr x, ?b) :: Ma) with ([(rattr x, b)] ++ Ma).
    rewrite !ann_list_app, !lastk_app. simpl. rewrite !app_nil_r.
    rewrite lastk_aset_other; [reflexivity|eapply bucket_keys_ok; eassumption|reflexivity|assumption].
  - rewrite aset_new by exact G. rewrite ann_list_app, lastk_app. simpl.
    unfold lastk at 1. simpl. destruct (zspec (ridx x) k); [congruence|reflexivity].
Qed.

(* the new entry is the last one for its index provided nothing for it is queued after its bucket *)
Lemma lastk_bucket_set_same : forall x M, Minv M ->
  (forall Mb b Ma, M = Mb ++ (rattr x, b) :: Ma -> lastk (ridx x) (ann_list Ma) = None) ->
  lastk (ridx x) (ann_list (bucket_set x M)) = Some x.
Proof.
  intros x M MI H. pose proof (get_bucket_ok (rattr x) M MI) as [Wb Kb].
  unfold bucket_set, get_bucket in *. destruct (zget (rattr x) M) as [b|] eqn:G.
  - destruct (aget_split _ _ _ G) as [Mb [Ma [E Hn]]]. specialize (H Mb b Ma E). subst M.
    rewrite aset_split by exact Hn.
    rewrite ann_list_app. change ((rattr x, ?b) :: Ma) with ([(rattr x, b)] ++ Ma).
    rewrite ann_list_app, !lastk_app. rewrite H. simpl. rewrite app_nil_r.
    rewrite lastk_aset_same; [reflexivity|exact Wb| |reflexivity].
    intros j y J. now destruct (Kb j y J).
  - rewrite aset_new by exact G. rewrite ann_list_app, lastk_app. simpl.
    unfold lastk at 1. simpl. now rewrite Z.eqb_refl.
Qed.

(* ================================================================ 3. queue invariant *)

Definition Qinv (N : amap Z route) (M : amap Z (amap Z route)) : Prop :=
  Minv M /\ awf N /\ forall k, lastk k (ann_list M) = zget k N.

Lemma Qinv_empty : Qinv [] [].
Proof. split; [split; [constructor|intros a b []]|split; [constructor|reflexivity]]. Qed.

Lemma awf_split_later {V} : forall (Mb : amap Z V) a b Ma a2 b2,
  awf (Mb ++ (a, b) :: Ma) -> In (a2, b2) Ma -> a2 <> a.
Proof.
  intros Mb a b Ma a2 b2 W I. unfold awf, akeys in W. rewrite map_app in W. simpl in W.
  apply NoDup_remove_2 in W. intros ->. apply W. apply in_or_app. right.
  change a with (fst (a, b2)). now apply in_map.
Qed.

Lemma in_ann_list : forall q M, In q (ann_list M) -> exists a b j, In (a, b) M /\ In (j, q) b.
Proof.
  intros q M I. unfold ann_list in I. apply in_flat_map in I. destruct I as [[a b] [I J]].
  simpl in J. unfold avalues in J. apply in_map_iff in J. destruct J as [[j y] [E J]]. simpl in E. subst y.
  exists a, b, j. split; assumption.
Qed.

Definition upd_attr (N : amap Z route) (M : amap Z (amap Z route)) (x : route) :=
  bucket_set x
    (match zget (ridx x) N with
     | Some p => if amem Z.eqb (rattr x) M && negb (rattr p =? rattr x)
                 then purge (ridx x) (Some (rattr x)) M else M
     | None => M
     end).

Lemma Qinv_update : forall N M x, Qinv N M -> Qinv (zset (ridx x) x N) (upd_attr N M x).
Proof.
  intros N M x [MI [WN P]]. unfold upd_attr.
  set (na := match zget (ridx x) N with
             | Some p => if amem Z.eqb (rattr x) M && negb (rattr p =? rattr x)
                         then purge (ridx x) (Some (rattr x)) M else M
             | None => M end).
  assert (MIna : Minv na).
  { unfold na. destruct (zget (ridx x) N); [|exact MI].
    destruct (_ && _); [now apply Minv_purge|exact MI]. }
  assert (Pna : forall k, k <> ridx x -> lastk k (ann_list na) = lastk k (ann_list M)).
  { intros k Nk. unfold na. destruct (zget (ridx x) N); [|reflexivity].
    destruct (_ && _); [|reflexivity]. apply lastk_purge_other; [|exact Nk].
    intros a b I. eapply bucket_keys_ok. destruct MI as [_ B]. eapply B; eassumption. }
  split; [now apply Minv_bucket_set|]. split; [apply awf_aset; [exact zspec|assumption]|].
  intros k. destruct (zspec k (ridx x)) as [->|Nk].
  2:{ rewrite lastk_bucket_set_other by assumption. rewrite Pna by assumption.
      rewrite aget_aset_other; [apply P|exact zspec|assumption]. }
  rewrite aget_aset_same by exact zspec.
  apply lastk_bucket_set_same; [exact MIna|].
  intros Mb b Ma E.
  unfold na in E. destruct (zget (ridx x) N) as [p|] eqn:G.
  - destruct (amem Z.eqb (rattr x) M && negb (rattr p =? rattr x)) eqn:C.
    + (* purged: nothing for this index outside its bucket *)
      apply lastk_list_none. intros a2 b2 I2.
      assert (W : awf (purge (ridx x) (Some (rattr x)) M)) by (apply Minv_purge; exact MI).
      rewrite E in W. pose proof (awf_split_later _ _ _ _ _ _ W I2) as Na.
      eapply purge_keep_other; [exact MI| |exact Na].
      rewrite E. apply in_or_app. right. now right.
    + (* same attribute set as the queued one: the queued one is the last, it sits in this bucket *)
      apply andb_false_iff in C. destruct C as [C|C].
      * exfalso. subst M. unfold amem in C.
        assert (In (rattr x) (akeys (Mb ++ (rattr x, b) :: Ma))).
        { unfold akeys. rewrite map_app. apply in_or_app. right. now left. }
        apply amem_true with (eqb := Z.eqb) in H; [|exact zspec]. unfold amem in H.
        destruct (zget (rattr x) (Mb ++ (rattr x, b) :: Ma)); discriminate.
      * apply negb_false_iff in C. apply Z.eqb_eq in C.
        destruct (lastk (ridx x) (ann_list Ma)) as [q|] eqn:L; [|reflexivity]. exfalso.
        pose proof (P (ridx x)) as Pk. rewrite G in Pk. subst M.
        rewrite ann_list_app in Pk. change ((rattr x, b) :: Ma) with ([(rattr x, b)] ++ Ma) in Pk.
        rewrite ann_list_app, !lastk_app, L in Pk. injection Pk as ->.
        apply lastk_some in L. destruct L as [Iq _].
        destruct (in_ann_list _ _ Iq) as [a2 [b2 [j [I2 J]]]].
        destruct MI as [W B].
        assert (Na : a2 <> rattr x) by (eapply awf_split_later; eassumption).
        assert (Bq : bucket_ok a2 b2).
        { apply B. apply in_or_app. right. now right. }
        destruct Bq as [_ Kq]. destruct (Kq j p J) as [_ Ra]. congruence.
  - (* nothing queued for this index *)
    apply lastk_none. intros y Iy. pose proof (P (ridx x)) as Pk. rewrite G in Pk.
    rewrite lastk_none in Pk. apply Pk. subst M. rewrite ann_list_app. apply in_or_app. right.
    change ((rattr x, b) :: Ma) with ([(rattr x, b)] ++ Ma). rewrite ann_list_app. apply in_or_app. now right.
Qed.

Definition del_queue (N : amap Z route) (M : amap Z (amap Z route)) (i : Z) :=
  match zget i N with
  | Some _ => (zpop i N, purge i None M)
  | None => (N, M)
  end.

Lemma Qinv_del : forall N M i, Qinv N M -> Qinv (fst (del_queue N M i)) (snd (del_queue N M i)).
Proof.
  intros N M i [MI [WN P]]. unfold del_queue. destruct (zget i N) as [p|] eqn:G; simpl.
  2:{ split; [exact MI|split; [exact WN|exact P]]. }
  split; [now apply Minv_purge|]. split; [apply awf_apop; [exact zspec|assumption]|].
  intros k. destruct (zspec k i) as [->|Nk].
  - rewrite lastk_purge_all by exact MI. rewrite aget_apop_same; [reflexivity|exact zspec|exact WN].
  - rewrite lastk_purge_other; [|intros a b I; eapply bucket_keys_ok; destruct MI as [_ B]; eapply B; eassumption|exact Nk].
    rewrite aget_apop_other; [apply P|exact zspec|exact Nk].
Qed.

Lemma del_queue_get_same : forall N M i, awf N -> zget i (fst (del_queue N M i)) = None.
Proof.
  intros N M i W. unfold del_queue. destruct (zget i N) eqn:G; simpl; [|exact G].
  apply aget_apop_same; [exact zspec|exact W].
Qed.

Lemma del_queue_get_other : forall N M i k, k <> i -> zget k (fst (del_queue N M i)) = zget k N.
Proof.
  intros N M i k Nk. unfold del_queue. destruct (zget i N); simpl; [|reflexivity].
  apply aget_apop_other; [exact zspec|exact Nk].
Qed.

(* ================================================================ 4. system invariant *)

Definition view (s : sys) (k : Z) : option (Z * Z) :=
  E k (pending_list (r s)) (E k (gen (r s)) (zget k (peer s))).

Definition sk (s : sys) (k : Z) : option (Z * Z) := option_map rval (zget k (seen (r s))).

Record Inv (s : sys) : Prop := {
  i_cache : cache_on (r s) = true;
  i_q : Qinv (new_nlri (r s)) (new_attr (r s));
  i_wseen : awf (seen (r s));
  i_kseen : forall i x, In (i, x) (seen (r s)) -> ridx x = i;
  i_int : forall k, zget k (intended s) = sk s k;
  (* established: what the peer will hold once everything queued is sent = the reported table (and
     before the first generator of the session nothing was sent); down: nothing is in flight and
     whatever is queued can only restore the reported value *)
  i_view : if up s then (forall k, view s k = sk s k) /\ (fresh s = true -> gen (r s) = [] /\ peer s = [])
           else gen (r s) = [] /\ peer s = [] /\ forall k, view s k = None \/ view s k = sk s k;
  (* a pending withdraw whose route was not announced again: the route is not reported, and no
     flush re-announcement is pending for it *)
  i_wd_seen : forall k, In k (akeys (pend_w (r s))) -> zget k (new_nlri (r s)) = None -> zget k (seen (r s)) = None;
  i_wd_ref : forall k, In k (akeys (pend_w (r s))) -> zget k (new_nlri (r s)) = None -> lastk k (refresh_routes (r s)) = None
}.

Lemma existsb_in : forall k l, existsb (Z.eqb k) l = true <-> In k l.
Proof.
  intros k l. rewrite existsb_exists. split.
  - intros [x [I e]]. apply Z.eqb_eq in e. now subst.
  - intros I. exists k. split; [assumption|apply Z.eqb_refl].
Qed.

Lemma bool_ext : forall a b : bool, (a = true <-> b = true) -> a = b.
Proof. intros [|] [|] H; try reflexivity; [symmetry|]; apply H; reflexivity. Qed.

(* the queued part seen from one key *)
Lemma pending_eq : forall s k c, Qinv (new_nlri s) (new_attr s) ->
  E k (pending_list s) c =
  match zget k (new_nlri s) with
  | Some y => Some (rval y)
  | None => E k (map UWd (akeys (pend_w s))) (E k (map URef (refresh_routes s)) c)
  end.
Proof.
  intros s k c [_ [_ P]]. unfold pending_list, ann_part. rewrite !E_app, E_ann, P. reflexivity.
Qed.

Lemma view_eq : forall s k, Qinv (new_nlri (r s)) (new_attr (r s)) ->
  view s k =
  match zget k (new_nlri (r s)) with
  | Some y => Some (rval y)
  | None => E k (map UWd (akeys (pend_w (r s)))) (E k (map URef (refresh_routes (r s))) (E k (gen (r s)) (zget k (peer s))))
  end.
Proof. intros. unfold view. now apply pending_eq. Qed.

Lemma Inv0 : Inv (sys0 true).
Proof.
  constructor; simpl; try reflexivity.
  - apply Qinv_empty.
  - constructor.
  - intros i x [].
  - split; [reflexivity|]. intros _. split; reflexivity.
Qed.

(* ---- announce *)

Lemma update_rib_fields : forall s x, cache_on s = true ->
  new_nlri (update_rib s x) = zset (ridx x) x (new_nlri s) /\
  new_attr (update_rib s x) = upd_attr (new_nlri s) (new_attr s) x /\
  seen (update_rib s x) = zset (ridx x) x (seen s) /\
  pend_w (update_rib s x) = pend_w s /\ refresh_routes (update_rib s x) = refresh_routes s /\
  gen (update_rib s x) = gen s /\ cache_on (update_rib s x) = true.
Proof. intros s x C. unfold update_rib, upd_attr. simpl. rewrite C. repeat split. Qed.

Lemma in_cache_val : forall s x, in_cache s x = true ->
  exists c, zget (ridx x) (seen s) = Some c /\ rval c = rval x.
Proof.
  intros s x H. unfold in_cache in H. apply andb_prop in H. destruct H as [_ H].
  destruct (zget (ridx x) (seen s)) as [c|]; [|discriminate]. exists c. split; [reflexivity|].
  apply andb_prop in H. destruct H as [A B]. apply Z.eqb_eq in A, B. unfold rval. congruence.
Qed.


(* transfer of the mode-dependent clause when in-flight data and mode are untouched *)
Lemma view_transfer : forall s s',
  up s' = up s -> fresh s' = fresh s -> gen (r s') = gen (r s) -> peer s' = peer s ->
  (forall k, (view s' k = view s k /\ sk s' k = sk s k) \/ view s' k = sk s' k) ->
  (if up s then (forall k, view s k = sk s k) /\ (fresh s = true -> gen (r s) = [] /\ peer s = [])
   else gen (r s) = [] /\ peer s = [] /\ forall k, view s k = None \/ view s k = sk s k) ->
  (if up s' then (forall k, view s' k = sk s' k) /\ (fresh s' = true -> gen (r s') = [] /\ peer s' = [])
   else gen (r s') = [] /\ peer s' = [] /\ forall k, view s' k = None \/ view s' k = sk s' k).
Proof.
  intros s s' U F G P H V. rewrite U, F, G, P. destruct (up s).
  - destruct V as [V Fr]. split; [|exact Fr]. intros k. destruct (H k) as [[A B]|A]; [|exact A].
    rewrite A, B. apply V.
  - destruct V as [G0 [P0 V]]. split; [exact G0|]. split; [exact P0|].
    intros k. destruct (H k) as [[A B]|A]; [|now right]. rewrite A, B. apply V.
Qed.

Lemma Inv_update : forall s x,
  Inv s ->
  Inv {| r := update_rib (r s) x; peer := peer s;
         intended := zset (ridx x) (rval x) (intended s); up := up s; fresh := fresh s |}.
Proof.
  intros s x I. destruct I as [C Q WS KS INT V GG FF].
  destruct (update_rib_fields (r s) x C) as [FN [FM [FS [FP [FR [FG FC]]]]]].
  set (s' := {| r := update_rib (r s) x; peer := peer s;
                intended := zset (ridx x) (rval x) (intended s); up := up s; fresh := fresh s |}).
  assert (Q' : Qinv (new_nlri (r s')) (new_attr (r s'))).
  { unfold s'. cbn [r]. rewrite FN, FM. now apply Qinv_update. }
  assert (SK : forall k, sk s' k = if k =? ridx x then Some (rval x) else sk s k).
  { intros k. unfold sk, s'. cbn [r]. rewrite FS. destruct (zspec k (ridx x)) as [->|N].
    - rewrite aget_aset_same by exact zspec. reflexivity.
    - rewrite aget_aset_other; [reflexivity|exact zspec|exact N]. }
  assert (VW : forall k, view s' k = if k =? ridx x then Some (rval x) else view s k).
  { intros k. rewrite view_eq by exact Q'. rewrite (view_eq s k Q). unfold s'. cbn [r peer]. rewrite FN, FP, FR, FG.
    destruct (zspec k (ridx x)) as [->|N].
    - rewrite aget_aset_same by exact zspec. reflexivity.
    - rewrite aget_aset_other; [reflexivity|exact zspec|exact N]. }
  constructor.
  - exact FC.
  - exact Q'.
  - unfold s'. cbn [r]. rewrite FS. apply awf_aset; [exact zspec|exact WS].
  - unfold s'. cbn [r]. rewrite FS. intros i y J. apply in_aset in J. destruct J as [[-> ->]|J]; [reflexivity|now apply KS].
  - intros k. rewrite SK. unfold s'. cbn [intended]. destruct (zspec k (ridx x)) as [->|N].
    + apply aget_aset_same. exact zspec.
    + rewrite aget_aset_other; [apply INT|exact zspec|exact N].
  - refine (view_transfer s s' eq_refl eq_refl FG eq_refl _ V).
    intros k. rewrite VW, SK. destruct (k =? ridx x); [now right|left; split; reflexivity].
  - unfold s'. cbn [r]. rewrite FP, FN, FS. intros k Ik Nk. destruct (zspec k (ridx x)) as [->|N].
    + rewrite aget_aset_same in Nk by exact zspec. discriminate.
    + rewrite aget_aset_other in Nk; [|exact zspec|exact N].
      rewrite aget_aset_other; [now apply GG|exact zspec|exact N].
  - unfold s'. cbn [r]. rewrite FP, FN, FR. intros k Ik Nk. destruct (zspec k (ridx x)) as [->|N].
    + rewrite aget_aset_same in Nk by exact zspec. discriminate.
    + rewrite aget_aset_other in Nk; [|exact zspec|exact N]. now apply FF.
Qed.

Lemma Inv_ann : forall s x force, Inv s ->
  Inv {| r := add_to_rib (r s) x force; peer := peer s;
         intended := zset (ridx x) (rval x) (intended s); up := up s; fresh := fresh s |}.
Proof.
  intros s x force I. unfold add_to_rib. destruct (negb force && in_cache (r s) x) eqn:B.
  2:{ now apply Inv_update. }
  apply andb_prop in B. destruct B as [_ B]. destruct (in_cache_val _ _ B) as [c [G Rc]].
  destruct I as [C Q WS KS INT V GG FF].
  assert (SKx : sk s (ridx x) = Some (rval x)) by (unfold sk; rewrite G; simpl; now rewrite Rc).
  constructor; cbn [r peer intended up fresh]; try assumption.
  intros k. change (sk _ k) with (sk s k). destruct (zspec k (ridx x)) as [->|N].
  - rewrite aget_aset_same by exact zspec. now rewrite SKx.
  - rewrite aget_aset_other; [apply INT|exact zspec|exact N].
Qed.

(* ---- withdraw *)

Lemma lastk_filter_other : forall k i l, k <> i ->
  lastk k (filter (fun c => negb (ridx c =? i)) l) = lastk k l.
Proof.
  intros k i l N. induction l as [|y l IH]; [reflexivity|].
  simpl. destruct (zspec (ridx y) i) as [e|Ni]; simpl.
  - rewrite lastk_cons, IH. destruct (zspec (ridx y) k); [congruence|]. destruct (lastk k l); reflexivity.
  - rewrite !lastk_cons, IH. reflexivity.
Qed.

Lemma lastk_filter_same : forall i l, lastk i (filter (fun c => negb (ridx c =? i)) l) = None.
Proof.
  intros i l. apply lastk_none. intros y J. apply filter_In in J. destruct J as [_ J].
  apply negb_true_iff in J. now apply Z.eqb_neq in J.
Qed.

Lemma del_fields : forall s x, cache_on s = true ->
  new_nlri (del_from_rib s x) = fst (del_queue (new_nlri s) (new_attr s) (ridx x)) /\
  new_attr (del_from_rib s x) = snd (del_queue (new_nlri s) (new_attr s) (ridx x)) /\
  seen (del_from_rib s x) = zpop (ridx x) (seen s) /\
  pend_w (del_from_rib s x) = zset (ridx x) tt (pend_w s) /\
  refresh_routes (del_from_rib s x) = filter (fun c => negb (ridx c =? ridx x)) (refresh_routes s) /\
  gen (del_from_rib s x) = gen s /\ cache_on (del_from_rib s x) = true.
Proof.
  intros s x C. unfold del_from_rib, del_queue.
  destruct (zget (ridx x) (new_nlri s)); simpl; rewrite C; repeat split.
Qed.

Lemma Inv_wd : forall s x, Inv s ->
  Inv {| r := del_from_rib (r s) x; peer := peer s; intended := tdel (ridx x) (intended s);
         up := up s; fresh := fresh s |}.
Proof.
  intros s x I. destruct I as [C Q WS KS INT V GG FF].
  destruct (del_fields (r s) x C) as [FN [FM [FS [FP [FR [FG FC]]]]]].
  set (s' := {| r := del_from_rib (r s) x; peer := peer s; intended := tdel (ridx x) (intended s);
                up := up s; fresh := fresh s |}).
  assert (Q' : Qinv (new_nlri (r s')) (new_attr (r s'))).
  { unfold s'. cbn [r]. rewrite FN, FM. now apply Qinv_del. }
  assert (WN : awf (new_nlri (r s))) by (destruct Q as [_ [WN _]]; exact WN).
  assert (SK : forall k, sk s' k = if k =? ridx x then None else sk s k).
  { intros k. unfold sk, s'. cbn [r]. rewrite FS. destruct (zspec k (ridx x)) as [->|N].
    - rewrite aget_apop_same; [reflexivity|exact zspec|exact WS].
    - rewrite aget_apop_other; [reflexivity|exact zspec|exact N]. }
  assert (KEYS : forall k, k <> ridx x ->
            existsb (Z.eqb k) (akeys (zset (ridx x) tt (pend_w (r s)))) = existsb (Z.eqb k) (akeys (pend_w (r s)))).
  { intros k N. apply bool_ext. rewrite !existsb_in. rewrite in_keys_aset by exact zspec. intuition. }
  assert (VW : forall k, view s' k = if k =? ridx x then None else view s k).
  { intros k. rewrite view_eq by exact Q'. rewrite (view_eq s k Q). unfold s'. cbn [r peer].
    rewrite FN, FP, FR, FG.
    destruct (zspec k (ridx x)) as [->|N].
    - rewrite del_queue_get_same by exact WN. rewrite E_wd.
      assert (existsb (Z.eqb (ridx x)) (akeys (zset (ridx x) tt (pend_w (r s)))) = true) as ->; [|reflexivity].
      apply existsb_in. apply in_keys_aset; [exact zspec|now left].
    - rewrite del_queue_get_other by exact N. rewrite !E_wd, !E_ref, KEYS by exact N.
      rewrite lastk_filter_other by exact N. reflexivity. }
  constructor.
  - exact FC.
  - exact Q'.
  - unfold s'. cbn [r]. rewrite FS. apply awf_apop; [exact zspec|exact WS].
  - unfold s'. cbn [r]. rewrite FS. intros i y J. apply KS. eapply in_apop; eassumption.
  - intros k. rewrite SK. unfold s'. cbn [intended]. destruct (zspec k (ridx x)) as [->|N].
    + apply aget_tdel_same.
    + rewrite aget_tdel_other by exact N. apply INT.
  - refine (view_transfer s s' eq_refl eq_refl FG eq_refl _ V).
    intros k. rewrite VW, SK. destruct (k =? ridx x); [now right|left; split; reflexivity].
  - unfold s'. cbn [r]. rewrite FP, FN, FS. intros k Ik Nk. destruct (zspec k (ridx x)) as [->|N].
    + apply aget_apop_same; [exact zspec|exact WS].
    + rewrite del_queue_get_other in Nk by exact N. rewrite aget_apop_other; [|exact zspec|exact N].
      apply GG; [|exact Nk]. apply in_keys_aset in Ik; [|exact zspec]. destruct Ik; [contradiction|assumption].
  - unfold s'. cbn [r]. rewrite FP, FN, FR. intros k Ik Nk. destruct (zspec k (ridx x)) as [->|N].
    + apply lastk_filter_same.
    + rewrite del_queue_get_other in Nk by exact N. rewrite lastk_filter_other by exact N.
      apply FF; [|exact Nk]. apply in_keys_aset in Ik; [|exact zspec]. destruct Ik; [contradiction|assumption].
Qed.

(* ---- flush (resend) *)

Lemma cached_seen : forall s fams k c, awf (seen s) -> (forall i x, In (i, x) (seen s) -> ridx x = i) ->
  lastk k (cached s fams) = Some c -> zget k (seen s) = Some c.
Proof.
  intros s fams k c W K L. apply lastk_some in L. destruct L as [I R].
  unfold cached in I. apply filter_In in I. destruct I as [I _].
  unfold avalues in I. apply in_map_iff in I. destruct I as [[j y] [e I]]. simpl in e. subst y.
  assert (j = k) by (rewrite <- (K j c I); exact R). subst j.
  apply in_aget with (eqb := Z.eqb); [exact zspec|exact W|exact I].
Qed.

Lemma Inv_resend : forall s e fams, Inv s ->
  Inv {| r := resend (r s) e fams; peer := peer s; intended := intended s; up := up s; fresh := fresh s |}.
Proof.
  intros s e fams I. destruct I as [C Q WS KS INT V GG FF].
  set (s' := {| r := resend (r s) e fams; peer := peer s; intended := intended s; up := up s; fresh := fresh s |}).
  assert (VW : forall k, view s' k = view s k \/
                         (exists c, lastk k (cached (r s) fams) = Some c /\ view s' k = Some (rval c))).
  { intros k.
    set (T := map UWd (akeys (pend_w (r s))) ++ ann_part (new_attr (r s))).
    set (c0 := E k (map URef (refresh_routes (r s))) (E k (gen (r s)) (zget k (peer s)))).
    assert (A : view s k = E k T c0).
    { unfold view, pending_list. rewrite E_app. reflexivity. }
    assert (B : view s' k = E k T (E k (map URef (cached (r s) fams)) c0)).
    { unfold view, s'. cbn [r peer]. unfold pending_list, resend. cbn [refresh_routes pend_w new_attr gen].
      rewrite map_app, <- app_assoc, !E_app. fold T. rewrite <- E_app. reflexivity. }
    rewrite A, B.
    destruct (E_const_or_id k T) as [Hc|Hi].
    - left. apply Hc.
    - rewrite !Hi. rewrite E_ref. destruct (lastk k (cached (r s) fams)) as [c|] eqn:L.
      + right. exists c. split; reflexivity.
      + left. reflexivity. }
  assert (SK : forall k, sk s' k = sk s k) by reflexivity.
  constructor; try assumption.
  - refine (view_transfer s s' eq_refl eq_refl eq_refl eq_refl _ V).
    intros k. destruct (VW k) as [A|[c [L A]]]; [left; split; [exact A|reflexivity]|right].
    rewrite A, SK. unfold sk. rewrite (cached_seen _ _ _ _ WS KS L). reflexivity.
  - unfold s'. cbn [r resend pend_w new_nlri refresh_routes]. intros k Ik Nk.
    rewrite lastk_app. rewrite (FF k Ik Nk).
    destruct (lastk k (cached (r s) fams)) as [c|] eqn:L; [|reflexivity].
    pose proof (cached_seen _ _ _ _ WS KS L) as X. rewrite (GG k Ik Nk) in X. discriminate.
Qed.

(* ---- clear (withdraw all) = a sequence of withdraws *)

Lemma wdall_as_fold : forall l s,
  {| r := fold_left del_from_rib l (r s); peer := peer s;
     intended := fold_left (fun t x => tdel (ridx x) t) l (intended s); up := up s; fresh := fresh s |}
  = fold_left (fun s x => {| r := del_from_rib (r s) x; peer := peer s;
                             intended := tdel (ridx x) (intended s); up := up s; fresh := fresh s |}) l s.
Proof.
  induction l as [|x l IH]; intros s; simpl; [destruct s; reflexivity|].
  rewrite <- IH. reflexivity.
Qed.

Lemma Inv_wdall : forall s fams, Inv s ->
  Inv {| r := withdraw_all (r s) fams; peer := peer s;
         intended := remove_fams (intended s) (cached (r s) fams); up := up s; fresh := fresh s |}.
Proof.
  intros s fams I. unfold withdraw_all, remove_fams. rewrite wdall_as_fold.
  generalize (cached (r s) fams). intros l. revert s I.
  induction l as [|x l IH]; intros s I; simpl; [exact I|]. apply IH. now apply Inv_wd.
Qed.

(* ---- generator *)

Lemma drop_wd_app : forall a b, drop_wd (a ++ b) = drop_wd a ++ drop_wd b.
Proof. intros. unfold drop_wd. apply filter_app. Qed.
Lemma drop_wd_wd : forall l, drop_wd (map UWd l) = [].
Proof. induction l; simpl; auto. Qed.
Lemma drop_wd_ref : forall l, drop_wd (map URef l) = map URef l.
Proof. induction l as [|x l IH]; simpl; [reflexivity|]. unfold drop_wd in *. now rewrite IH. Qed.
Lemma drop_wd_ann : forall l, drop_wd (map UAnn l) = map UAnn l.
Proof. induction l as [|x l IH]; simpl; [reflexivity|]. unfold drop_wd in *. now rewrite IH. Qed.
Lemma drop_wd_rs : forall l, drop_wd (map URefStart l) = map URefStart l.
Proof. induction l as [|x l IH]; simpl; [reflexivity|]. unfold drop_wd in *. now rewrite IH. Qed.
Lemma drop_wd_re : forall l, drop_wd (map URefEnd l) = map URefEnd l.
Proof. induction l as [|x l IH]; simpl; [reflexivity|]. unfold drop_wd in *. now rewrite IH. Qed.

Lemma Inv_start : forall s, Inv s -> up s = true -> gen (r s) = [] -> fresh s = false ->
  Inv {| r := start (r s); peer := peer s; intended := intended s; up := true; fresh := false |}.
Proof.
  intros s I U G Fs. destruct I as [C Q WS KS INT V GG FF]. rewrite U in V. destruct V as [V _].
  constructor; cbn [r peer intended up fresh start cache_on new_nlri new_attr seen pend_w refresh_routes]; try assumption.
  - apply Qinv_empty.
  - split; [|discriminate]. intros k. unfold view, sk. cbn [r peer start pending_list refresh_routes pend_w new_attr gen seen].
    simpl. rewrite !E_app, E_refstart, E_refend, <- !E_app.
    specialize (V k). unfold view, sk, pending_list in V. rewrite G in V. simpl in V. exact V.
  - intros k [].
  - intros k [].
Qed.

(* the first generator of a session leaves the withdraws out: nothing was sent yet, and a route with a
   pending withdraw has no flush re-announcement pending *)
Lemma Inv_start_fresh : forall s, Inv s -> up s = true -> gen (r s) = [] -> fresh s = true ->
  Inv {| r := set_gen (start (r s)) (drop_wd (gen (start (r s)))); peer := peer s; intended := intended s;
         up := true; fresh := false |}.
Proof.
  intros s I U G Fs. destruct I as [C Q WS KS INT V GG FF]. rewrite U in V. destruct V as [V Fr].
  destruct (Fr Fs) as [_ Pe].
  constructor; cbn [r peer intended up fresh set_gen start cache_on new_nlri new_attr seen pend_w refresh_routes]; try assumption.
  - apply Qinv_empty.
  - split; [|discriminate]. intros k. unfold view, sk.
    cbn [r peer set_gen start pending_list refresh_routes pend_w new_attr gen seen]. simpl.
    unfold ann_part. rewrite !drop_wd_app, drop_wd_rs, drop_wd_ref, drop_wd_re, drop_wd_wd, drop_wd_ann. simpl.
    rewrite !E_app, E_refstart, E_refend.
    specialize (V k). rewrite (view_eq s k Q) in V. rewrite G, Pe in V. simpl in V.
    destruct Q as [_ [_ P]]. rewrite E_ann, P. rewrite Pe. simpl.
    destruct (zget k (new_nlri (r s))) as [y|] eqn:Nk; [exact V|].
    rewrite E_wd in V. destruct (existsb (Z.eqb k) (akeys (pend_w (r s)))) eqn:Ek; [|exact V].
    apply existsb_in in Ek. rewrite E_ref, (FF k Ek Nk). exact V.
  - intros k [].
  - intros k [].
Qed.

Lemma Inv_emit : forall s u g, Inv s -> up s = true -> gen (r s) = u :: g ->
  Inv {| r := set_gen (r s) g; peer := papply (peer s) u; intended := intended s; up := true; fresh := fresh s |}.
Proof.
  intros s u g I U G. destruct I as [C Q WS KS INT V GG FF]. rewrite U in V. destruct V as [V Fr].
  constructor; cbn [r peer intended up fresh set_gen cache_on new_nlri new_attr seen pend_w refresh_routes]; try assumption.
  split.
  - intros k. specialize (V k). unfold view, sk in *. cbn [r peer set_gen gen seen].
    change (pending_list (set_gen (r s) g)) with (pending_list (r s)).
    rewrite aget_papply. rewrite G in V. exact V.
  - intros Fs. destruct (Fr Fs) as [G0 _]. rewrite G in G0. discriminate.
Qed.

(* ---- session loss and re-establishment *)

Lemma Inv_drop : forall s, Inv s ->
  Inv {| r := reset_rib (r s); peer := []; intended := intended s; up := false; fresh := false |}.
Proof.
  intros s I. destruct I as [C Q WS KS INT V GG FF].
  constructor; cbn [r peer intended up fresh reset_rib cache_on new_nlri new_attr seen gen pend_w refresh_routes]; try assumption.
  - apply Qinv_empty.
  - split; [reflexivity|]. split; [reflexivity|]. intros k. left. reflexivity.
  - intros k [].
  - intros k [].
Qed.

Lemma aset_same_noop {V} : forall k (v : V) m, zget k m = Some v -> zset k v m = m.
Proof.
  intros k v m. induction m as [|[j y] m IH]; simpl; [discriminate|].
  destruct (zspec k j) as [->|N]; intros H; [injection H as ->; reflexivity|now rewrite IH].
Qed.

Lemma classic_in : forall (l : list route) k,
  (exists c, In c l /\ ridx c = k) \/ ~ (exists c, In c l /\ ridx c = k).
Proof.
  induction l as [|y l IH]; intros k.
  - right. intros [c [[] _]].
  - destruct (zspec (ridx y) k) as [e|N].
    + left. exists y. split; [now left|exact e].
    + destruct (IH k) as [[c [I R]]|H].
      * left. exists c. split; [now right|exact R].
      * right. intros [c [[<-|I] R]]; [contradiction|]. apply H. exists c. split; assumption.
Qed.

Lemma requeue_fold : forall l s, Inv s -> up s = false ->
  (forall c, In c l -> zget (ridx c) (seen (r s)) = Some c) ->
  let s' := fold_left (fun acc c => {| r := add_to_rib (r acc) c true; peer := peer acc;
                                       intended := intended acc; up := false; fresh := false |}) l s in
  Inv s' /\ seen (r s') = seen (r s) /\ peer s' = peer s /\ intended s' = intended s /\ up s' = false /\
  gen (r s') = gen (r s) /\
  (forall k, (exists c, In c l /\ ridx c = k) -> view s' k = sk s k) /\
  (forall k, ~ (exists c, In c l /\ ridx c = k) -> view s' k = view s k).
Proof.
  induction l as [|c l IH]; intros s I U H; cbn zeta.
  - simpl. split; [exact I|]. split; [reflexivity|]. split; [reflexivity|]. split; [reflexivity|].
    split; [exact U|]. split; [reflexivity|]. split; [intros k [c [[] _]]|reflexivity].
  - simpl.
    set (s1 := {| r := add_to_rib (r s) c true; peer := peer s; intended := intended s; up := false; fresh := false |}).
    assert (Gc : zget (ridx c) (seen (r s)) = Some c) by (apply H; now left).
    pose proof (Inv_ann s c true I) as I1. simpl in I1.
    destruct I as [C Q WS KS INT V GG FF]. rewrite U in V.
    destruct (update_rib_fields (r s) c C) as [FN [FM [FS [FP [FR [FG FC]]]]]].
    assert (S1 : seen (r s1) = seen (r s)).
    { unfold s1. cbn [r]. unfold add_to_rib. cbn [negb andb]. rewrite FS. now apply aset_same_noop. }
    assert (I1' : Inv s1).
    { destruct I1 as [C1 Q1 WS1 KS1 INT1 V1 GG1 FF1]. unfold s1.
      constructor; cbn [r peer intended up fresh] in *; try assumption.
      - intros k. specialize (INT1 k). unfold sk in *. cbn [r] in *.
        rewrite <- INT1. destruct (zspec k (ridx c)) as [->|N].
        + rewrite aget_aset_same by exact zspec. rewrite INT. unfold sk. now rewrite Gc.
        + rewrite aget_aset_other; [reflexivity|exact zspec|exact N].
      - rewrite U in V1. exact V1. }
    assert (U1 : up s1 = false) by reflexivity.
    assert (H1 : forall c0, In c0 l -> zget (ridx c0) (seen (r s1)) = Some c0).
    { intros c0 J. rewrite S1. apply H. now right. }
    destruct (IH s1 I1' U1 H1) as [IF [SF [PF [NF [UF [GF [VA VB]]]]]]].
    assert (V1 : forall k, view s1 k = if k =? ridx c then Some (rval c) else view s k).
    { intros k. destruct I1' as [_ Q1 _ _ _ _ _ _].
      rewrite view_eq by exact Q1. rewrite (view_eq s k Q). unfold s1. cbn [r peer]. unfold add_to_rib. cbn [negb andb].
      rewrite FN, FP, FR, FG. destruct (zspec k (ridx c)) as [->|N].
      - rewrite aget_aset_same by exact zspec. reflexivity.
      - rewrite aget_aset_other; [reflexivity|exact zspec|exact N]. }
    assert (SK1 : forall k, sk s1 k = sk s k) by (intros k; unfold sk; now rewrite S1).
    assert (G1 : gen (r s1) = gen (r s)).
    { unfold s1. cbn [r]. unfold add_to_rib. cbn [negb andb]. exact FG. }
    split; [exact IF|]. split; [now rewrite SF|]. split; [exact PF|]. split; [exact NF|]. split; [exact UF|].
    split; [now rewrite GF|].
    split.
    + intros k [c0 [[<-|J] R]].
      * destruct (classic_in l k) as [Hin|Hnot].
        -- rewrite VA by exact Hin. apply SK1.
        -- rewrite VB by exact Hnot. rewrite V1, <- R, Z.eqb_refl. unfold sk. now rewrite Gc.
      * rewrite VA; [apply SK1|]. exists c0. split; assumption.
    + intros k Hn. rewrite VB.
      * rewrite V1. destruct (zspec k (ridx c)) as [e|N]; [|reflexivity].
        exfalso. apply Hn. exists c. split; [now left|now symmetry].
      * intros [c0 [J R]]. apply Hn. exists c0. split; [now right|assumption].
Qed.

Lemma requeue_r : forall l s,
  r (fold_left (fun acc c => {| r := add_to_rib (r acc) c true; peer := peer acc;
                               intended := intended acc; up := false; fresh := false |}) l s)
  = fold_left (fun acc c => add_to_rib acc c true) l (r s).
Proof. induction l as [|c l IH]; intros s; simpl; [reflexivity|]. now rewrite IH. Qed.

Lemma Inv_establish : forall s, Inv s -> up s = false ->
  Inv {| r := requeue_all (r s); peer := peer s; intended := intended s; up := true; fresh := true |}.
Proof.
  intros s I U. pose proof I as I0. destruct I0 as [C Q WS KS INT V GG FF]. rewrite U in V. destruct V as [G [Pe V]].
  set (l := avalues (seen (r s))).
  assert (H : forall c, In c l -> zget (ridx c) (seen (r s)) = Some c).
  { intros c J. unfold l, avalues in J. apply in_map_iff in J. destruct J as [[j y] [e J]]. simpl in e. subst y.
    rewrite (KS j c J). apply in_aget with (eqb := Z.eqb); [exact zspec|exact WS|exact J]. }
  destruct (requeue_fold l s I U H) as [IF [SF [PF [NF [UF [GF [VA VB]]]]]]].
  set (sf := fold_left (fun acc c => {| r := add_to_rib (r acc) c true; peer := peer acc;
                                        intended := intended acc; up := false; fresh := false |}) l s) in *.
  assert (RF : requeue_all (r s) = r sf) by (unfold sf, requeue_all; now rewrite requeue_r).
  rewrite RF, <- PF, <- NF. destruct IF as [C' Q' WS' KS' INT' V' GG' FF'].
  constructor; cbn [r peer intended up fresh]; try assumption.
  split.
  2:{ intros _. split; [now rewrite GF|now rewrite PF]. }
  intros k. change (view {| r := r sf; peer := peer sf; intended := intended sf; up := true; fresh := true |} k) with (view sf k).
  change (sk {| r := r sf; peer := peer sf; intended := intended sf; up := true; fresh := true |} k) with (sk sf k).
  assert (SKF : sk sf k = sk s k) by (unfold sk; now rewrite SF). rewrite SKF.
  destruct (classic_in l k) as [Hin|Hnot].
  - now apply VA.
  - rewrite VB by exact Hnot.
    assert (Z0 : sk s k = None).
    { unfold sk. destruct (zget k (seen (r s))) as [c|] eqn:Gk; [|reflexivity]. exfalso. apply Hnot.
      exists c. apply in_aget with (eqb := Z.eqb) in Gk; [|exact zspec|exact WS]. split.
      - unfold l, avalues. change c with (snd (k, c)). now apply in_map.
      - now apply KS. }
    rewrite Z0. destruct (V k) as [e|e]; [exact e|]. now rewrite e.
Qed.

Theorem step_inv : forall s o, Inv s -> Inv (step s o).
Proof.
  intros s o I. destruct o as [x|x|x|e fams|fams| | | |]; cbn [step].
  - now apply Inv_ann.
  - now apply Inv_ann.
  - now apply Inv_wd.
  - now apply Inv_resend.
  - now apply Inv_wdall.
  - destruct (up s) eqn:U; cbn [andb]; [|exact I]. destruct (pending (r s)); [|exact I].
    destruct (gen (r s)) eqn:G; [|exact I].
    destruct (fresh s) eqn:Fs; [now apply Inv_start_fresh|now apply Inv_start].
  - destruct (up s) eqn:U; [|exact I]. destruct (gen (r s)) as [|u g] eqn:G; [exact I|now apply Inv_emit].
  - now apply Inv_drop.
  - destruct (up s) eqn:U; [exact I|now apply Inv_establish].
Qed.

Theorem run_inv : forall ops s, Inv s -> Inv (run ops s).
Proof.
  induction ops as [|o ops IH]; intros s I; [exact I|]. simpl. apply IH. now apply step_inv.
Qed.

(* ================================================================ 5. convergence *)

Theorem drained_converged : forall s, Inv s -> up s = true -> drained (r s) ->
  forall k, zget k (peer s) = sk s k /\ zget k (intended s) = sk s k.
Proof.
  intros s I U [Hg [Hn [Hp Hr]]] k. destruct I as [C Q WS KS INT V GG FF]. rewrite U in V. destruct V as [V _].
  split; [|apply INT]. rewrite <- (V k). rewrite (view_eq s k Q). rewrite Hn, Hp, Hr, Hg. reflexivity.
Qed.

Theorem converges : forall ops,
  let s := run ops (sys0 true) in
  up s = true -> drained (r s) ->
  forall k, zget k (peer s) = option_map rval (zget k (seen (r s)))
         /\ zget k (intended s) = option_map rval (zget k (seen (r s))).
Proof. intros ops s U D k. apply drained_converged; [apply run_inv, Inv0|exact U|exact D]. Qed.

(* what the operator asked last for a prefix is what the intention says *)
Lemma intended_after_ann : forall s x (f : bool),
  zget (ridx x) (intended (step s (if f then AnnForce x else Ann x))) = Some (rval x).
Proof. intros s x [|]; cbn [step intended]; apply aget_aset_same; exact zspec. Qed.

Lemma intended_after_wd : forall s x, zget (ridx x) (intended (step s (Wd x))) = None.
Proof. intros. cbn [step intended]. apply aget_tdel_same. Qed.

(* operations that do not name index k leave the intention for k alone *)
Definition touches (k : Z) (o : op) : bool :=
  match o with
  | Ann x | AnnForce x | Wd x => ridx x =? k
  | WdAll _ => true
  | _ => false
  end.

Lemma intended_untouched : forall s o k, touches k o = false -> zget k (intended (step s o)) = zget k (intended s).
Proof.
  intros s o k T. destruct o as [x|x|x|e fams|fams| | | |]; cbn [step intended touches] in *; try discriminate; try reflexivity.
  - apply aget_aset_other; [exact zspec|]. apply Z.eqb_neq in T. congruence.
  - apply aget_aset_other; [exact zspec|]. apply Z.eqb_neq in T. congruence.
  - apply aget_tdel_other. apply Z.eqb_neq in T. congruence.
  - destruct (up s && pending (r s)); [destruct (gen (r s)); [destruct (fresh s)|]|]; reflexivity.
  - destruct (up s); [destruct (gen (r s))|]; reflexivity.
  - destruct (up s); reflexivity.
Qed.

Lemma intended_untouched_run : forall ops s k, forallb (fun o => negb (touches k o)) ops = true ->
  zget k (intended (run ops s)) = zget k (intended s).
Proof.
  induction ops as [|o ops IH]; intros s k H; [reflexivity|]. simpl in *.
  apply andb_prop in H. destruct H as [H1 H2]. rewrite IH by exact H2.
  apply intended_untouched. now apply negb_true_iff.
Qed.

(* no stale announcement survives a later announce/withdraw of the same prefix, and no withdrawn
   route is resurrected: the peer holds exactly the value of the LAST operation on that prefix *)
Theorem last_operation_wins_announce : forall ops1 x (f : bool) ops2,
  let s := run (ops1 ++ (if f then AnnForce x else Ann x) :: ops2) (sys0 true) in
  forallb (fun o => negb (touches (ridx x) o)) ops2 = true ->
  up s = true -> drained (r s) -> zget (ridx x) (peer s) = Some (rval x).
Proof.
  intros ops1 x f ops2 s T U D.
  destruct (converges (ops1 ++ (if f then AnnForce x else Ann x) :: ops2) U D (ridx x)) as [A B].
  fold s in A, B. rewrite A, <- B. unfold s, run. rewrite fold_left_app. simpl.
  fold (run ops2). rewrite intended_untouched_run by exact T. apply intended_after_ann.
Qed.

Theorem last_operation_wins_withdraw : forall ops1 x ops2,
  let s := run (ops1 ++ Wd x :: ops2) (sys0 true) in
  forallb (fun o => negb (touches (ridx x) o)) ops2 = true ->
  up s = true -> drained (r s) -> zget (ridx x) (peer s) = None.
Proof.
  intros ops1 x ops2 s T U D.
  destruct (converges (ops1 ++ Wd x :: ops2) U D (ridx x)) as [A B].
  fold s in A, B. rewrite A, <- B. unfold s, run. rewrite fold_left_app. simpl.
  fold (run ops2). rewrite intended_untouched_run by exact T. apply intended_after_wd.
Qed.

(* ================================================================ 6. End-of-RIB *)

Lemma ebase_run : forall ops es, base (erun ops es) = run ops (base es).
Proof. induction ops as [|o ops IH]; intros es; [reflexivity|]. simpl. rewrite IH. reflexivity. Qed.

(* every recorded End-of-RIB state is a reachable established state with no live generator *)
Lemma eor_log_states : forall ops es,
  Inv (base es) ->
  (forall s, In s (eor_log es) -> Inv s /\ up s = true /\ gen (r s) = []) ->
  forall s, In s (eor_log (erun ops es)) -> Inv s /\ up s = true /\ gen (r s) = [].
Proof.
  induction ops as [|o ops IH]; intros es I H s Hs; [now apply H|].
  simpl in Hs. apply (IH (estep es o)); [cbn [estep base]; now apply step_inv| |exact Hs].
  intros s0 H0. unfold estep in H0. cbn [eor_log] in H0.
  set (b' := step (base es) o) in *.
  destruct (_ && _ && up b' && _) eqn:F; [|now apply H].
  apply in_app_or in H0. destruct H0 as [H0|[<-|[]]]; [now apply H|].
  apply andb_prop in F. destruct F as [F G]. apply andb_prop in F. destruct F as [_ U].
  split; [unfold b'; now apply step_inv|]. split; [exact U|].
  destruct (gen (r b')); [reflexivity|discriminate].
Qed.

(* when the markers go out, every index for which nothing is queued is at the peer with the reported value:
   the initial table (and everything queued before) has been sent *)
Theorem eor_after_table : forall ops s k,
  In s (eor_log (erun ops (esys0 true))) -> quiet (r s) k ->
  zget k (peer s) = option_map rval (zget k (seen (r s))).
Proof.
  intros ops s k Hs [Qn [Qw Qr]].
  destruct (eor_log_states ops (esys0 true) Inv0 (fun _ H => match H with end) s Hs) as [I [U G]].
  destruct I as [C Q WS KS INT V GG FF]. rewrite U in V. destruct V as [V _].
  specialize (V k). rewrite (view_eq s k Q) in V. rewrite Qn, G in V. cbn [E fold_left] in V.
  rewrite E_wd in V.
  assert (existsb (Z.eqb k) (akeys (pend_w (r s))) = false) as X.
  { destruct (existsb (Z.eqb k) (akeys (pend_w (r s)))) eqn:Ex; [|reflexivity].
    apply existsb_in in Ex. contradiction. }
  rewrite X, E_ref in V.
  assert (lastk k (refresh_routes (r s)) = None) as Y by (apply lastk_none; exact Qr).
  rewrite Y in V. exact V.
Qed.

(* at most one End-of-RIB batch per establishment: once sent, none until the next Establish *)
Lemma eor_due_after_fire : forall es o,
  length (eor_log (estep es o)) = S (length (eor_log es)) -> eor_due (estep es o) = false.
Proof.
  intros es o H. unfold estep in *. cbn [eor_log eor_due] in *.
  destruct (_ && is_send_op o && _ && _) eqn:F.
  - rewrite andb_false_r. reflexivity.
  - lia.
Qed.

Lemma eor_not_due_no_fire : forall es o, eor_due es = false -> o <> Establish ->
  eor_log (estep es o) = eor_log es /\ eor_due (estep es o) = false.
Proof.
  intros es o D N. unfold estep. cbn [eor_log eor_due].
  assert (X : (match o with Establish => if up (base es) then eor_due es else true | Drop => false | _ => eor_due es end) = false).
  { destruct o; try exact D; try reflexivity. contradiction. }
  rewrite X. cbn [andb]. split; reflexivity.
Qed.

Theorem eor_once_per_session : forall ops es, eor_due es = false ->
  forallb (fun o => match o with Establish => false | _ => true end) ops = true ->
  eor_log (erun ops es) = eor_log es.
Proof.
  induction ops as [|o ops IH]; intros es D H; [reflexivity|].
  simpl in H. apply andb_prop in H. destruct H as [H1 H2].
  assert (N : o <> Establish) by (intros ->; discriminate).
  destruct (eor_not_due_no_fire es o D N) as [L D']. simpl. rewrite IH by assumption. exact L.
Qed.
