(* C03 - the contracts Model_Robust asks of the value decoders, PROVED for the decoders that are modelled
   (Model_Open.parse_cap, Model_Update.unpack_value, the AIGP walk of Model_RobustInst). *)
From Coq Require Import ZArith Bool List Arith Lia.
From ExaV Require Import gen.Gen_ParseShape gen.Gen_AttrTable model.Model_Robust spec.Spec_Robust proofs.Proofs_Robust model.Model_RobustInst.
From ExaV Require model.Model_Open model.Model_Update.
Import ListNotations.
Open Scope Z_scope.

Module MO := ExaV.model.Model_Open.
Module MU := ExaV.model.Model_Update.

Local Opaque PARSE_IS_RECURSIVE OVERRUN_STOPS ADVISORY_ACCEPTS_BUFFER.

(* ------------------------------------------------------------------ capabilities *)

Definition res_n20 {A} (r : MO.res A) : Prop :=
  match r with MO.Ok _ => True | MO.Notify a b => a = 2 /\ b = 0 end.

Lemma parse_ap_n20 : forall n d, (length d <= n)%nat -> res_n20 (MO.parse_ap d).
Proof.
  induction n as [|n IH]; intros d Hl.
  - destruct d; [exact I | cbn [length] in Hl; lia].
  - destruct d as [|a1 [|a2 [|s [|sr rest]]]]; cbn [MO.parse_ap]; try exact I; try (split; reflexivity).
    assert (Hr : (length rest <= n)%nat) by (cbn [length] in Hl; lia).
    specialize (IH rest Hr). destruct (MO.parse_ap rest); [exact I | exact IH].
Qed.

Lemma parse_nh_n20 : forall n d, (length d <= n)%nat -> res_n20 (MO.parse_nh d).
Proof.
  induction n as [|n IH]; intros d Hl.
  - destruct d; [exact I | cbn [length] in Hl; lia].
  - destruct d as [|a1 [|a2 [|x [|s [|h1 [|h2 rest]]]]]]; cbn [MO.parse_nh]; try exact I; try (split; reflexivity).
    assert (Hr : (length rest <= n)%nat) by (cbn [length] in Hl; lia).
    specialize (IH rest Hr). destruct (MO.parse_nh rest); [exact I | exact IH].
Qed.

Lemma parse_pl_n20 : forall n d, (length d <= n)%nat -> res_n20 (MO.parse_pl d).
Proof.
  induction n as [|n IH]; intros d Hl.
  - destruct d; [exact I | cbn [length] in Hl; lia].
  - destruct d as [|a1 [|a2 [|s [|l1 [|l2 rest]]]]]; cbn [MO.parse_pl]; try exact I; try (split; reflexivity).
    assert (Hr : (length rest <= n)%nat) by (cbn [length] in Hl; lia).
    specialize (IH rest Hr). destruct (MO.parse_pl rest); [exact I | exact IH].
Qed.

Lemma parse_cap_n20 (c : Z) (d : bytes) : res_n20 (MO.parse_cap c d).
Proof.
  unfold MO.parse_cap, MO.n20. cbv zeta.
  repeat match goal with
         | |- context [if ?x then _ else _] => destruct x
         end;
  repeat match goal with
         | |- context [match MO.parse_ap ?x with _ => _ end] =>
             let H := fresh in pose proof (parse_ap_n20 (length x) x (le_n _)) as H; destruct (MO.parse_ap x)
         | |- context [match MO.parse_nh ?x with _ => _ end] =>
             let H := fresh in pose proof (parse_nh_n20 (length x) x (le_n _)) as H; destruct (MO.parse_nh x)
         | |- context [match MO.parse_pl ?x with _ => _ end] =>
             let H := fresh in pose proof (parse_pl_n20 (length x) x (le_n _)) as H; destruct (MO.parse_pl x)
         | |- context [match ?x with [] => _ | _ :: _ => _ end] => destruct x
         | |- context [if ?x then _ else _] => destruct x
         end;
  cbn [res_n20] in *; try exact I; try (split; reflexivity); try assumption.
Qed.

Lemma capv_open_contract : capv_contract capv_open.
Proof.
  intros c v. unfold capv_open. pose proof (parse_cap_n20 c v) as H.
  destruct (MO.parse_cap c v) as [x|a b]; [exact I|]. destruct H as [-> ->]. reflexivity.
Qed.

(* ------------------------------------------------------------------ AIGP: the TLV walk ends, in linear time *)

Lemma aigp_f_steps : forall fuel found d, (3 * snd (aigp_f fuel found d) <= length d + 3)%nat.
Proof.
  induction fuel as [|k IH]; intros found d.
  - destruct d; cbn [aigp_f snd]; lia.
  - destruct d as [|t [|h [|l rest]]]; cbn [aigp_f snd length]; try lia.
    set (n := h * 256 + l).
    destruct (n <? AIGP_TLV_HDR) eqn:E1; [cbn [snd]; lia|].
    destruct (len (t :: h :: l :: rest) <? n) eqn:E2; [cbn [snd]; lia|].
    destruct ((t =? AIGP_TLV_TYPE) && negb (n =? AIGP_TLV_LENGTH)); [cbn [snd]; lia|].
    cbn [snd]. specialize (IH (found || (t =? AIGP_TLV_TYPE)) (skipn (Z.to_nat n) (t :: h :: l :: rest))).
    rewrite skipn_length in IH. apply Z.ltb_ge in E1, E2. change AIGP_TLV_HDR with 3 in E1.
    unfold len in E2. cbn [length] in *. lia.
Qed.

Lemma aigp_walk_linear (d : bytes) : (snd (aigp_walk d) <= length d / 3 + 1)%nat.
Proof.
  unfold aigp_walk. pose proof (aigp_f_steps (length d) false d) as H.
  assert (snd (aigp_f (length d) false d) - 1 <= length d / 3)%nat by (apply Nat.div_le_lower_bound; lia).
  lia.
Qed.

(* fuel = length is enough: more fuel changes nothing (the out-of-fuel branch is never taken) *)
Lemma aigp_f_fuel : forall f1 f2 found d, (length d <= f1)%nat -> (length d <= f2)%nat ->
  aigp_f f1 found d = aigp_f f2 found d.
Proof.
  induction f1 as [|k IH]; intros f2 found d H1 H2.
  - destruct d; [destruct f2; reflexivity | cbn [length] in H1; lia].
  - destruct d as [|t [|h [|l rest]]].
    + destruct f2; reflexivity.
    + destruct f2; [cbn [length] in H2; lia | reflexivity].
    + destruct f2; [cbn [length] in H2; lia | reflexivity].
    + destruct f2 as [|k2]; [cbn [length] in H2; lia|].
      cbn [aigp_f]. set (n := h * 256 + l).
      destruct (n <? AIGP_TLV_HDR) eqn:E1; [reflexivity|].
      destruct (len (t :: h :: l :: rest) <? n) eqn:E2; [reflexivity|].
      destruct ((t =? AIGP_TLV_TYPE) && negb (n =? AIGP_TLV_LENGTH)); [reflexivity|].
      apply Z.ltb_ge in E1. change AIGP_TLV_HDR with 3 in E1.
      assert (Hs : (length (skipn (Z.to_nat n) (t :: h :: l :: rest)) <= length rest)%nat).
      { rewrite skipn_length. cbn [length]. lia. }
      cbn [length] in H1, H2.
      rewrite (IH k2 (found || (t =? AIGP_TLV_TYPE)) _); [reflexivity | lia | lia].
Qed.

(* an AIGP attribute made of the AIGP TLV any number of times (RFC 7311 3: only the first is used) is accepted *)
Definition aigp_tlv (m : bytes) : bytes := [1; 0; 11] ++ m.

Lemma aigp_repeated_ok : forall (ms : list bytes) fuel found,
  Forall (fun m => length m = 8%nat) ms -> (length (flat_map aigp_tlv ms) <= fuel)%nat ->
  fst (aigp_f fuel found (flat_map aigp_tlv ms)) = Some (found || negb (Nat.eqb (length ms) 0)).
Proof.
  induction ms as [|m ms IH]; intros fuel found Hall Hf.
  - cbn [flat_map]. destruct fuel; cbn [aigp_f fst length Nat.eqb negb]; now rewrite orb_false_r.
  - inversion Hall as [|? ? Hm Hall']; subst.
    cbn [flat_map] in *. rewrite app_length in Hf.
    assert (Hl : length (aigp_tlv m) = 11%nat) by (unfold aigp_tlv; rewrite app_length, Hm; reflexivity).
    destruct fuel as [|k]; [lia|].
    unfold aigp_tlv at 1. cbn [app aigp_f].
    change (0 * 256 + 11) with 11. change (11 <? AIGP_TLV_HDR) with false. cbv iota.
    replace (len (1 :: 0 :: 11 :: m ++ flat_map aigp_tlv ms) <? 11) with false.
    2: { symmetry. apply Z.ltb_ge. unfold len. cbn [length]. rewrite app_length, Hm. lia. }
    change ((1 =? AIGP_TLV_TYPE) && negb (11 =? AIGP_TLV_LENGTH)) with false. cbv iota. cbn [fst].
    replace (skipn (Z.to_nat 11) (1 :: 0 :: 11 :: m ++ flat_map aigp_tlv ms)) with (flat_map aigp_tlv ms).
    2: { change (1 :: 0 :: 11 :: m ++ flat_map aigp_tlv ms) with (aigp_tlv m ++ flat_map aigp_tlv ms).
         replace (Z.to_nat 11) with (length (aigp_tlv m)) by (rewrite Hl; reflexivity). now rewrite skipn_exact. }
    rewrite IH by (assumption || lia).
    change (1 =? AIGP_TLV_TYPE) with true. cbn [length Nat.eqb negb]. now rewrite !orb_true_r.
Qed.

(* ------------------------------------------------------------------ path attributes: Model_Update.unpack_value *)

(* the codes whose decoder signals a malformed value with ValueError / IndexError *)
Definition value_error_aids : list Z := [1; 3; 4; 5; 6; 7; 9; 10; 18].

Lemma value_error_aids_class (a : Z) : In a value_error_aids ->
  exists r, attr_row a = Some r /\ (r_taw r || r_discard r) = true.
Proof.
  unfold value_error_aids. intros H.
  repeat (destruct H as [<-|H]; [eexists; split; reflexivity|]). contradiction.
Qed.

Definition mu_ok (code : Z) (r : MU.vres) : Prop :=
  match r with
  | MU.VOk _ | MU.VPseudoDiscard => True
  | MU.VValueError => In code value_error_aids
  | MU.VNotify c s => rfc_defined c s = true
  | MU.VOther => False
  end.

Lemma dec_path_ok code fx a4 e4 v : mu_ok code (MU.dec_path fx a4 e4 v).
Proof. unfold MU.dec_path. destruct v; [exact I|]. destruct (MU.parse_segs _ _ _ _); [exact I | reflexivity]. Qed.

Lemma len_is_ok code v n : In code value_error_aids -> mu_ok code (MU.len_is v n).
Proof. intros H. unfold MU.len_is. destruct (_ =? _); [exact I | exact H]. Qed.

Lemma len_mult_notify_ok code v n : mu_ok code (MU.len_mult v n (MU.VNotify 3 1)).
Proof. unfold MU.len_mult. destruct (_ =? _); [exact I | reflexivity]. Qed.

Lemma len_mult_value_ok code v n : In code value_error_aids -> mu_ok code (MU.len_mult v n MU.VValueError).
Proof. intros H. unfold MU.len_mult. destruct (_ =? _); [exact I | exact H]. Qed.

Lemma dec_mp_reach_ok code s v : EXTNH_PER_FAMILY = true -> mu_ok code (MU.dec_mp_reach s v).
Proof.
  intros HX. unfold MU.dec_mp_reach. rewrite HX.
  repeat match goal with
         | |- context [if ?x then _ else _] => destruct x
         | |- context [match family_size ?a ?b with _ => _ end] => destruct (family_size a b) as [[? ?]|]
         end; first [exact I | reflexivity].
Qed.

Lemma dec_mp_unreach_ok code s v : mu_ok code (MU.dec_mp_unreach s v).
Proof. unfold MU.dec_mp_unreach. repeat match goal with |- context [if ?x then _ else _] => destruct x end; first [exact I | reflexivity]. Qed.

Definition modelled_aids : list Z := [1; 2; 3; 4; 5; 6; 7; 8; 9; 10; 14; 15; 16; 17; 18; 25; 32].

Lemma unpack_value_ok opq s code dl v : EXTNH_PER_FAMILY = true -> In code modelled_aids ->
  mu_ok code (MU.unpack_value true opq s code dl v).
Proof.
  intros HX Hin. unfold MU.unpack_value.
  destruct (code =? A_ORIGIN) eqn:E; [apply Z.eqb_eq in E; change A_ORIGIN with 1 in E; subst code|].
  { repeat match goal with |- context [if ?x then _ else _] => destruct x end; first [exact I | cbn; tauto]. }
  destruct (code =? A_AS_PATH) eqn:?; [apply dec_path_ok|].
  destruct (code =? A_NEXT_HOP) eqn:E3; [apply Z.eqb_eq in E3; change A_NEXT_HOP with 3 in E3; subst code|].
  { destruct (true && negb (dl =? 4)); [cbn; tauto|]. destruct v; [exact I|].
    destruct (_ || _); [exact I | cbn; tauto]. }
  destruct (code =? A_MED) eqn:E4; [apply Z.eqb_eq in E4; change A_MED with 4 in E4; subst code; apply len_is_ok; cbn; tauto|].
  destruct (code =? A_LOCAL_PREF) eqn:E5; [apply Z.eqb_eq in E5; change A_LOCAL_PREF with 5 in E5; subst code; apply len_is_ok; cbn; tauto|].
  destruct (code =? A_ATOMIC_AGGREGATE) eqn:E6; [apply Z.eqb_eq in E6; change A_ATOMIC_AGGREGATE with 6 in E6; subst code; apply len_is_ok; cbn; tauto|].
  destruct (code =? A_AGGREGATOR) eqn:E7; [apply Z.eqb_eq in E7; change A_AGGREGATOR with 7 in E7; subst code; apply len_is_ok; cbn; tauto|].
  destruct (code =? A_COMMUNITY) eqn:?; [apply len_mult_notify_ok|].
  destruct (code =? A_ORIGINATOR_ID) eqn:E9; [apply Z.eqb_eq in E9; change A_ORIGINATOR_ID with 9 in E9; subst code; apply len_is_ok; cbn; tauto|].
  destruct (code =? A_CLUSTER_LIST) eqn:E10; [apply Z.eqb_eq in E10; change A_CLUSTER_LIST with 10 in E10; subst code; apply len_mult_value_ok; cbn; tauto|].
  destruct (code =? A_MP_REACH_NLRI) eqn:?; [apply dec_mp_reach_ok; exact HX|].
  destruct (code =? A_MP_UNREACH_NLRI) eqn:?; [apply dec_mp_unreach_ok|].
  destruct (code =? A_EXTENDED_COMMUNITY) eqn:?; [apply len_mult_notify_ok|].
  destruct (code =? A_AS4_PATH) eqn:?; [apply dec_path_ok|].
  destruct (code =? A_AS4_AGGREGATOR) eqn:E18; [apply Z.eqb_eq in E18; change A_AS4_AGGREGATOR with 18 in E18; subst code; apply len_is_ok; cbn; tauto|].
  destruct (code =? A_IPV6_EXTENDED_COMMUNITY) eqn:?; [apply len_mult_notify_ok|].
  destruct (code =? A_LARGE_COMMUNITY) eqn:E32; [destruct (_ =? 0); [exact I | reflexivity]|].
  (* every modelled code was met above *)
  exfalso. unfold modelled_aids in Hin.
  repeat (destruct Hin as [<-|Hin]; [discriminate|]). contradiction.
Qed.

(* ------------------------------------------------------------------ the contract of the instantiated decoder *)

(* what is still assumed: the four opaque decoders return, refuse with a defined code, or raise ValueError /
   IndexError only where their class says what to do with it (TUNNEL_ENCAP, code 23, has no such class) *)
Definition opq_contract (opq : Z -> bytes -> vres) : Prop :=
  forall a v, In a opaque_aids ->
    match opq a v with
    | VOk | VDiscarded => True
    | VNotify c s => rfc_defined c s = true
    | VIndexValue => a <> 23
    | VOther _ => False
    end.

Lemma registered_split (a : Z) r : attr_row a = Some r ->
  a = A_AIGP \/ In a opaque_aids \/ In a modelled_aids.
Proof.
  unfold attr_row.
  repeat match goal with
         | |- context [if ?a =? ?k then _ else _] =>
             let E := fresh "E" in destruct (a =? k) eqn:E;
             [apply Z.eqb_eq in E; subst; intros _; cbn; tauto|]
         end.
  discriminate.
Qed.

Lemma vdec_full_contract opq s aigp_on : EXTNH_PER_FAMILY = true -> opq_contract opq ->
  vdec_contract (vdec_full opq s aigp_on).
Proof.
  intros HX Ho f a v r Hr. unfold vdec_full.
  destruct (a =? A_AIGP) eqn:Ea.
  { apply Z.eqb_eq in Ea. subst a. unfold vdec_aigp. destruct (negb aigp_on); [exact I|].
    destruct (fst (aigp_walk v)) as [[|]|]; first [exact I | (change (attr_row 26) with (attr_row A_AIGP) in Hr; vm_compute in Hr; inversion Hr; reflexivity)]. }
  destruct (mem a opaque_aids) eqn:Em.
  { assert (Hin : In a opaque_aids).
    { unfold mem in Em. apply existsb_exists in Em as (x & Hx & Ex). apply Z.eqb_eq in Ex. now subst. }
    pose proof (Ho a v Hin) as H. destruct (opq a v); try exact H.
    (* ValueError: the class of a (22 treat-as-withdraw, 29 and 40 discard) *)
    unfold opaque_aids in Hin.
    destruct Hin as [<-|[<-|[<-|[<-|[]]]]]; try (vm_compute in Hr; inversion Hr; reflexivity). contradiction. }
  destruct (registered_split a r Hr) as [->|[Hin|Hin]].
  { rewrite Z.eqb_refl in Ea. discriminate. }
  { exfalso. assert (mem a opaque_aids = true); [|congruence].
    unfold mem. apply existsb_exists. exists a. split; [exact Hin | apply Z.eqb_refl]. }
  pose proof (unpack_value_ok (fun _ _ => MU.VOther) s a (len v) v HX Hin) as H.
  destruct (MU.unpack_value true _ s a (len v) v); cbn [conv mu_ok] in *; try exact I; try exact H; try contradiction.
  destruct (value_error_aids_class a H) as (r' & Hr' & Hb). rewrite Hr in Hr'. inversion Hr'; subst. exact Hb.
Qed.

(* ------------------------------------------------------------------ every message type, decoders instantiated *)

Lemma message_defined_inst opq s aigp_on ap limit ty b :
  EXTNH_PER_FAMILY = true -> opq_contract opq -> enough_stack limit b ->
  ~ refresh_unknown_subtype ty b -> advisory_decodable ty b ->
  outcome_defined (dec_message (vdec_full opq s aigp_on) capv_open ap limit ty b).
Proof.
  intros HX Ho Hst Hr Ha. apply message_defined; try assumption.
  - apply vdec_full_contract; assumption.
  - exact capv_open_contract.
Qed.

Lemma open_defined_inst (b : bytes) : outcome_defined (dec_open capv_open b).
Proof.
  unfold dec_open. destruct (open_walk_facts capv_open capv_open_contract b) as [O1 _].
  destruct (o_out (open_walk capv_open b)); [exact I | exact O1].
Qed.

Lemma message_steps_inst vdec ap ty b : byte_list b ->
  (message_steps vdec capv_open ap ty b <= length b + 2)%nat.
Proof. intros Hb. apply message_steps_linear; [exact capv_open_contract | exact Hb]. Qed.
