(* C03 - lemmas about Model_Robust.  Every proof is generic in the two generated switches
   (PARSE_IS_RECURSIVE, OVERRUN_STOPS): they are made opaque here so that no proof can depend on
   the value they have in today's tree. *)
From Coq Require Import ZArith Bool List Arith Lia.
From ExaV Require Import lib.ListX gen.Gen_ParseShape model.Model_Robust spec.Spec_Robust.
Import ListNotations.
Open Scope Z_scope.

Local Opaque PARSE_IS_RECURSIVE OVERRUN_STOPS ADVISORY_ACCEPTS_BUFFER.

(* ------------------------------------------------------------------ small facts *)

Lemma len_nonneg (l : bytes) : 0 <= len l.
Proof. unfold len. lia. Qed.

Lemma len_app (a b : bytes) : len (a ++ b) = len a + len b.
Proof. unfold len. rewrite app_length. lia. Qed.

Lemma len_skipn (n : nat) (l : bytes) : len (skipn n l) = len l - Z.of_nat (Nat.min n (length l)).
Proof. unfold len. rewrite skipn_length. lia. Qed.

Lemma firstn_exact {A} (l r : list A) : firstn (length l) (l ++ r) = l.
Proof. induction l as [|x l IH]; cbn [length firstn app]; [now destruct r | now rewrite IH]. Qed.

Lemma skipn_exact {A} (l r : list A) : skipn (length l) (l ++ r) = r.
Proof. induction l as [|x l IH]; cbn [length skipn app]; [reflexivity | exact IH]. Qed.

Lemma nth_skipn_z {A} (k i : nat) (l : list A) (d : A) : nth i (skipn k l) d = nth (k + i) l d.
Proof.
  revert l; induction k as [|k IH]; intros l; [reflexivity|].
  destruct l as [|x l]; cbn [skipn Nat.add nth]; [now destruct i | apply IH].
Qed.

(* the Extended Length bit as the model tests it (flag & 0x10) and as the RFC words it (fourth high-order bit) *)
Lemma bit16_sweep :
  forallb (fun n => Bool.eqb (bit (Z.of_nat n) 16) (Z.odd (Z.of_nat n / 16))) (seq 0 256) = true.
Proof. vm_compute. reflexivity. Qed.

Lemma bit_ext (f : Z) : 0 <= f < 256 -> bit f F_EXT = ext_bit f.
Proof.
  intros H. change F_EXT with 16. unfold ext_bit.
  pose proof bit16_sweep as S. rewrite forallb_forall in S.
  specialize (S (Z.to_nat f)). rewrite Z2Nat.id in S by lia.
  apply eqb_prop, S, in_seq. lia.
Qed.

(* ------------------------------------------------------------------ the attribute walk: one step *)

Lemma hdr_shorter (data : bytes) f a l body :
  hdr data = Some (f, a, l, body) -> (length body + 3 <= length data)%nat.
Proof.
  destruct data as [|x0 [|x1 [|x2 rest]]]; cbn [hdr]; try discriminate.
  destruct (bit x0 F_EXT).
  - destruct rest as [|x3 rest']; [discriminate|]. intros E; inversion E; subst. cbn [length]. lia.
  - intros E; inversion E; subst. cbn [length]. lia.
Qed.

Lemma walk_f_nil vdec fuel seen taw : walk_f vdec fuel seen taw [] = stop (WOk seen taw).
Proof. destruct fuel; reflexivity. Qed.

Lemma walk_f_trunc vdec fuel seen taw data :
  data <> [] -> hdr data = None -> walk_f vdec fuel seen taw data = stop (WOk seen true).
Proof.
  intros Hne Hh. destruct data as [|x xs]; [congruence|].
  destruct fuel; cbn [walk_f]; rewrite Hh; reflexivity.
Qed.

Lemma walk_f_overrun vdec fuel seen taw data f a l body :
  hdr data = Some (f, a, l, body) -> OVERRUN_STOPS && (len (firstn (Z.to_nat l) body) <? l) = true ->
  walk_f vdec fuel seen taw data = stop (WOk seen true).
Proof.
  intros Hh Ho. destruct data as [|x xs]; [discriminate|].
  destruct fuel; cbn [walk_f]; rewrite Hh, Ho; reflexivity.
Qed.

Lemma walk_f_step vdec k seen taw data f a l body :
  hdr data = Some (f, a, l, body) -> OVERRUN_STOPS && (len (firstn (Z.to_nat l) body) <? l) = false ->
  walk_f vdec (S k) seen taw data =
  match act vdec seen taw f a l (firstn (Z.to_nat l) body) with
  | AStop o => stop o
  | ACont s t => bump (walk_f vdec k s t (skipn (Z.to_nat l) body))
  end.
Proof.
  intros Hh Ho. destruct data as [|x xs]; [discriminate|].
  cbn [walk_f]. rewrite Hh, Ho. reflexivity.
Qed.

Lemma walk_f_nofuel vdec seen taw data f a l body :
  hdr data = Some (f, a, l, body) -> OVERRUN_STOPS && (len (firstn (Z.to_nat l) body) <? l) = false ->
  walk_f vdec O seen taw data = stop (WPyError K_FUEL).
Proof.
  intros Hh Ho. destruct data as [|x xs]; [discriminate|].
  cbn [walk_f]. rewrite Hh, Ho. reflexivity.
Qed.

(* case analysis of one call of walk_f, shared by every induction below *)
Lemma walk_f_cases vdec fuel seen taw data :
  walk_f vdec fuel seen taw data = stop (WOk seen taw)
  \/ walk_f vdec fuel seen taw data = stop (WOk seen true)
  \/ (exists f a l body, hdr data = Some (f, a, l, body) /\
        ((fuel = O /\ walk_f vdec fuel seen taw data = stop (WPyError K_FUEL))
         \/ (exists k, fuel = S k /\
               ((exists o, act vdec seen taw f a l (firstn (Z.to_nat l) body) = AStop o /\
                           walk_f vdec fuel seen taw data = stop o)
                \/ (exists s t, act vdec seen taw f a l (firstn (Z.to_nat l) body) = ACont s t /\
                           walk_f vdec fuel seen taw data = bump (walk_f vdec k s t (skipn (Z.to_nat l) body))))))).
Proof.
  destruct data as [|x xs]; [left; apply walk_f_nil|].
  destruct (hdr (x :: xs)) as [[[[f a] l] body]|] eqn:Hh.
  2: { right; left. apply walk_f_trunc; [discriminate | exact Hh]. }
  destruct (OVERRUN_STOPS && (len (firstn (Z.to_nat l) body) <? l)) eqn:Ho.
  { right; left. eapply walk_f_overrun; eauto. }
  right; right. exists f, a, l, body. split; [reflexivity|].
  destruct fuel as [|k].
  - left. split; [reflexivity|]. eapply walk_f_nofuel; eauto.
  - right. exists k. split; [reflexivity|].
    rewrite (walk_f_step vdec k seen taw _ f a l body Hh Ho).
    destruct (act vdec seen taw f a l (firstn (Z.to_nat l) body)) as [o|s t] eqn:Ha.
    + left. exists o. split; reflexivity.
    + right. exists s, t. split; reflexivity.
Qed.

Ltac walk_cases vdec seen taw data :=
  match goal with
  | |- context [walk_f vdec ?fu seen taw data] =>
      destruct (walk_f_cases vdec fu seen taw data)
        as [E|[E|(f & a & l & body & Hh & [[E0 E]|(k' & Ek & [(o & Ha & E)|(s & t & Ha & E)])])]]
  end;
  try (exfalso; match goal with
                | H : O = S _ |- _ => discriminate H
                | H : S _ = O |- _ => discriminate H
                end).

(* ------------------------------------------------------------------ linear number of steps *)

Lemma walk_f_steps vdec : forall fuel seen taw data,
  (3 * w_steps (walk_f vdec fuel seen taw data) <= length data + 3)%nat.
Proof.
  induction fuel as [|k IH]; intros seen taw data;
    walk_cases vdec seen taw data;
    rewrite E; cbn [stop bump w_steps]; try lia.
  inversion Ek; subst k'.
  pose proof (hdr_shorter _ _ _ _ _ Hh) as Hs.
  specialize (IH s t (skipn (Z.to_nat l) body)).
  rewrite skipn_length in IH. lia.
Qed.

Lemma walk_steps_linear vdec (b : bytes) : (w_steps (walk vdec b) <= length b / 3 + 1)%nat.
Proof.
  unfold walk. pose proof (walk_f_steps vdec (length b) [] false b) as H.
  assert (w_steps (walk_f vdec (length b) [] false b) - 1 <= length b / 3)%nat.
  { apply Nat.div_le_lower_bound; lia. }
  lia.
Qed.

(* ------------------------------------------------------------------ depth *)

Lemma walk_f_depth_iter vdec : PARSE_IS_RECURSIVE = false ->
  forall fuel seen taw data, w_depth (walk_f vdec fuel seen taw data) = 1%nat.
Proof.
  intros Hflag. induction fuel as [|k IH]; intros seen taw data;
    walk_cases vdec seen taw data;
    rewrite E; cbn [stop bump w_depth]; try reflexivity.
  inversion Ek; subst k'. rewrite Hflag. apply IH.
Qed.

Lemma walk_f_depth_rec vdec : PARSE_IS_RECURSIVE = true ->
  forall fuel seen taw data,
  w_depth (walk_f vdec fuel seen taw data) = w_steps (walk_f vdec fuel seen taw data).
Proof.
  intros Hflag. induction fuel as [|k IH]; intros seen taw data;
    walk_cases vdec seen taw data;
    rewrite E; cbn [stop bump w_depth w_steps]; try reflexivity.
  inversion Ek; subst k'. rewrite Hflag. f_equal. apply IH.
Qed.

Lemma walk_depth_le_steps vdec fuel seen taw data :
  (w_depth (walk_f vdec fuel seen taw data) <= w_steps (walk_f vdec fuel seen taw data))%nat.
Proof.
  revert seen taw data. induction fuel as [|k IH]; intros seen taw data;
    walk_cases vdec seen taw data;
    rewrite E; cbn [stop bump w_depth w_steps]; try lia.
  inversion Ek; subst k'. specialize (IH s t (skipn (Z.to_nat l) body)).
  destruct PARSE_IS_RECURSIVE; lia.
Qed.

(* ------------------------------------------------------------------ outcomes of the walk *)

Definition wout_defined (o : wout) : Prop :=
  match o with
  | WOk _ _ => True
  | WRefused c s => rfc_defined c s = true
  | WPyError _ => False
  end.

(* what the walk needs from the value decoders: only Notify with defined codes; IndexError/ValueError only from
   classes marked TREAT_AS_WITHDRAW or DISCARD; nothing else *)
Definition vdec_contract (vdec : Z -> Z -> bytes -> vres) : Prop :=
  forall f a v r, attr_row a = Some r ->
    match vdec f a v with
    | VOk | VDiscarded => True
    | VNotify c s => rfc_defined c s = true
    | VIndexValue => (r_taw r || r_discard r) = true
    | VOther _ => False
    end.

Lemma act_defined vdec seen taw f a l v o :
  vdec_contract vdec -> act vdec seen taw f a l v = AStop o -> wout_defined o.
Proof.
  intros Hc. unfold act.
  destruct (attr_row a) as [r|] eqn:Hr.
  - destruct (mem a seen).
    + destruct (r_nodup r); intros E; inversion E; subst. reflexivity.
    + set (f' := if r_optional r then Z.land f MASK_PARTIAL else f).
      destruct (Z.lor f' F_EXT =? r_flag r); [|discriminate].
      destruct ((l =? 0) && negb (r_vzero r)); [discriminate|].
      pose proof (Hc f' a v r Hr) as Hv.
      destruct (vdec f' a v) as [| |c s| |k].
      * discriminate.
      * discriminate.
      * destruct (r_taw r); [discriminate|]. destruct (r_discard r); [discriminate|].
        intros E; inversion E; subst. exact Hv.
      * destruct (r_taw r); [discriminate|]. destruct (r_discard r); [discriminate|]. discriminate.
      * contradiction.
  - destruct (mem a seen); [discriminate|]. destruct (bit f F_TRANSITIVE); discriminate.
Qed.

Lemma walk_f_defined vdec : vdec_contract vdec ->
  forall fuel seen taw data, (length data <= fuel)%nat ->
  wout_defined (w_out (walk_f vdec fuel seen taw data)).
Proof.
  intros Hc. induction fuel as [|k IH]; intros seen taw data Hlen;
    walk_cases vdec seen taw data;
    rewrite E; cbn [stop bump w_out wout_defined]; try exact I.
  - pose proof (hdr_shorter _ _ _ _ _ Hh). lia.
  - eapply act_defined; eauto.
  - inversion Ek; subst k'. apply IH.
    pose proof (hdr_shorter _ _ _ _ _ Hh). rewrite skipn_length. lia.
Qed.

(* ------------------------------------------------------------------ unknown attributes are walked, never refused *)

Lemma hdr_enc (a : pattr) (rest : bytes) : wf_attr a ->
  hdr (enc_attr a ++ rest) = Some (pa_flags a, pa_code a, vlen a, pa_value a ++ rest).
Proof.
  intros [Hf Hl]. unfold enc_attr.
  destruct (ext_bit (pa_flags a)) eqn:E.
  - cbn [app hdr]. rewrite (bit_ext _ Hf), E.
    replace (vlen a / 256 * 256 + vlen a mod 256) with (vlen a); [reflexivity|].
    pose proof (Z.div_mod (vlen a) 256). lia.
  - cbn [app hdr]. rewrite (bit_ext _ Hf), E. reflexivity.
Qed.

Lemma enc_attr_head (a : pattr) : exists t, enc_attr a = pa_flags a :: pa_code a :: t.
Proof. unfold enc_attr. destruct (ext_bit (pa_flags a)); eexists; reflexivity. Qed.

Lemma enc_attr_length (a : pattr) : (3 <= length (enc_attr a))%nat.
Proof. unfold enc_attr. destruct (ext_bit (pa_flags a)); cbn [app length]; lia. Qed.

Lemma act_unknown vdec seen taw f a l v :
  attr_row a = None -> exists s, act vdec seen taw f a l v = ACont s taw.
Proof.
  intros Hr. unfold act. rewrite Hr.
  destruct (mem a seen); [eexists; reflexivity|].
  destruct (bit f F_TRANSITIVE); eexists; reflexivity.
Qed.

Definition unknown_attr (a : pattr) : Prop := wf_attr a /\ attr_row (pa_code a) = None.

Lemma walk_f_unknown vdec : forall l fuel seen taw,
  Forall unknown_attr l -> (length (enc_block l) <= fuel)%nat ->
  exists seen',
    w_out (walk_f vdec fuel seen taw (enc_block l)) = WOk seen' taw /\
    w_steps (walk_f vdec fuel seen taw (enc_block l)) = S (length l).
Proof.
  induction l as [|a l IH]; intros fuel seen taw Hall Hfuel.
  - cbn [enc_block flat_map]. rewrite walk_f_nil. exists seen. split; reflexivity.
  - inversion Hall as [|? ? [Hwf Hrow] Hall']; subst.
    cbn [enc_block flat_map] in *. fold (enc_block l) in *.
    rewrite app_length in Hfuel. pose proof (enc_attr_length a) as H3.
    destruct fuel as [|k]; [lia|].
    pose proof (hdr_enc a (enc_block l) Hwf) as Hh.
    assert (Ho : OVERRUN_STOPS && (len (firstn (Z.to_nat (vlen a)) (pa_value a ++ enc_block l)) <? vlen a) = false).
    { apply andb_false_intro2. apply Z.ltb_ge. unfold vlen. rewrite Nat2Z.id, firstn_exact. unfold len. lia. }
    rewrite (walk_f_step vdec k seen taw _ _ _ _ _ Hh Ho).
    unfold vlen. rewrite Nat2Z.id, firstn_exact, skipn_exact.
    destruct (act_unknown vdec seen taw (pa_flags a) (pa_code a) (Z.of_nat (length (pa_value a))) (pa_value a) Hrow) as [s Hs].
    rewrite Hs.
    destruct (IH k s taw Hall') as (seen' & Ho' & Hst); [lia|].
    exists seen'. cbn [bump w_out w_steps length]. rewrite Ho', Hst. split; reflexivity.
Qed.

(* the refutation family: n copies of the attribute (flags 0x80 optional non-transitive, code 254, no value) *)
Definition u254 : pattr := mkA 128 254 [].

Lemma u254_unknown : unknown_attr u254.
Proof.
  unfold unknown_attr, wf_attr, u254. cbn [pa_flags pa_code pa_value].
  split; [split; [lia | vm_compute; reflexivity] | reflexivity].
Qed.

Lemma u254_block_length (n : nat) : length (enc_block (repeat u254 n)) = (3 * n)%nat.
Proof. induction n as [|n IH]; [reflexivity|]. cbn [repeat enc_block flat_map]. fold (enc_block (repeat u254 n)).
  rewrite app_length, IH. change (length (enc_attr u254)) with 3%nat. lia. Qed.

Lemma u254_forall (n : nat) : Forall unknown_attr (repeat u254 n).
Proof. induction n; cbn [repeat]; constructor; [apply u254_unknown | assumption]. Qed.

Lemma walk_u254_depth vdec (n : nat) : PARSE_IS_RECURSIVE = true ->
  w_depth (walk vdec (enc_block (repeat u254 n))) = S n.
Proof.
  intros Hflag. unfold walk. rewrite (walk_f_depth_rec vdec Hflag).
  destruct (walk_f_unknown vdec (repeat u254 n) (length (enc_block (repeat u254 n))) [] false (u254_forall n) (le_n _))
    as (s & _ & Hst).
  rewrite Hst, repeat_length. reflexivity.
Qed.

(* ------------------------------------------------------------------ the UPDATE sections *)

Lemma split_decompose {A} (l : list A) (i j : nat) :
  l = firstn 2 l ++ firstn i (skipn 2 l) ++ firstn 2 (skipn (2 + i) l) ++ firstn j (skipn (2 + i + 2) l) ++ skipn (2 + i + 2 + j) l.
Proof.
  rewrite (skipn_add (2 + i + 2) j), (skipn_add (2 + i) 2), (skipn_add 2 i).
  now rewrite !firstn_skipn.
Qed.

Lemma byte_nth (b : bytes) (i : nat) : byte_list b -> 0 <= nth i b 0 < 256.
Proof.
  intros H. destruct (Nat.lt_ge_cases i (length b)) as [Hi|Hi].
  - unfold byte_list in H. rewrite Forall_forall in H. apply H, nth_In, Hi.
  - rewrite nth_overflow by exact Hi. lia.
Qed.

Lemma u16_rd16 (b : bytes) : u16 b 0 = rd16 b.
Proof. reflexivity. Qed.

Lemma u16_skip (b : bytes) (k : Z) : 0 <= k -> u16 b k = rd16 (skipn (Z.to_nat k) b).
Proof.
  intros Hk. unfold u16, rd16. rewrite !nth_skipn_z. rewrite Z2Nat.inj_add by lia.
  now rewrite Nat.add_0_r.
Qed.

Lemma u16_range (b : bytes) (k : Z) : byte_list b -> 0 <= u16 b k < 65536.
Proof. intros H. unfold u16. pose proof (byte_nth b (Z.to_nat k) H). pose proof (byte_nth b (Z.to_nat (k + 1)) H). lia. Qed.

Lemma split_spec (b : bytes) : byte_list b ->
  let lw := u16 b 0 in
  let la := u16 b (2 + lw) in
  (len b < 4 -> split b = SRefused 1 2) /\
  (4 <= len b -> (len b < 4 + lw \/ len b < 4 + lw + la) -> split b = SRefused 3 1) /\
  (4 + lw + la <= len b ->
     split b = SOk (firstn (Z.to_nat lw) (skipn 2 b))
                   (firstn (Z.to_nat la) (skipn (Z.to_nat (4 + lw)) b))
                   (skipn (Z.to_nat (4 + lw + la)) b)).
Proof.
  intros Hb lw la.
  pose proof (u16_range b 0 Hb) as Hlw. fold lw in Hlw.
  pose proof (u16_range b (2 + lw) Hb) as Hla. fold la in Hla.
  assert (Ela : rd16 (skipn (Z.to_nat (lw + UPD_WOFF)) b) = la).
  { unfold la. rewrite u16_skip by lia. change UPD_WOFF with 2. now rewrite (Z.add_comm lw 2). }
  unfold split. change UPD_HDR with 4. rewrite <- u16_rd16. fold lw. rewrite Ela.
  change UPD_WOFF with 2.
  split; [|split].
  - intros H. apply Z.ltb_lt in H. now rewrite H.
  - intros H4 H. destruct (len b <? 4) eqn:E1; [apply Z.ltb_lt in E1; lia|].
    destruct (len b <? 4 + lw) eqn:E2; [reflexivity|].
    apply Z.ltb_ge in E2.
    destruct (len b <? lw + 4 + la) eqn:E3; [reflexivity|]. apply Z.ltb_ge in E3. lia.
  - intros H.
    destruct (len b <? 4) eqn:E1; [apply Z.ltb_lt in E1; lia|].
    destruct (len b <? 4 + lw) eqn:E2; [apply Z.ltb_lt in E2; lia|].
    destruct (len b <? lw + 4 + la) eqn:E3; [apply Z.ltb_lt in E3; lia|].
    rewrite len_skipn.
    replace (2 + lw + 2 + la + (len b - Z.of_nat (Nat.min (Z.to_nat (lw + la + 4)) (length b))) =? len b) with true.
    2: { symmetry. apply Z.eqb_eq. unfold len in *. lia. }
    cbn [negb]. replace (lw + 4) with (4 + lw) by lia. replace (lw + la + 4) with (4 + lw + la) by lia.
    reflexivity.
Qed.

Lemma split_fit (b : bytes) : byte_list b ->
  (sections_fit b = true <-> exists w a r, split b = SOk w a r).
Proof.
  intros Hb. pose proof (split_spec b Hb) as (H1 & H2 & H3).
  pose proof (u16_range b 0 Hb) as Hlw. pose proof (u16_range b (2 + u16 b 0) Hb) as Hla.
  unfold sections_fit. fold (len b). split.
  - intros H. apply andb_prop in H as [H Hc]. apply andb_prop in H as [Ha Hb'].
    apply Z.leb_le in Ha, Hb', Hc. eexists _, _, _. apply H3. exact Hc.
  - intros (w & a & r & E).
    destruct (Z.lt_ge_cases (len b) 4) as [L|L]; [rewrite (H1 L) in E; discriminate|].
    destruct (Z.lt_ge_cases (len b) (4 + u16 b 0 + u16 b (2 + u16 b 0))) as [L2|L2].
    { rewrite (H2 L (or_intror L2)) in E. discriminate. }
    apply andb_true_intro; split; [apply andb_true_intro; split|]; apply Z.leb_le; lia.
Qed.

Lemma split_parts (b : bytes) w a r : byte_list b -> split b = SOk w a r ->
  len w = u16 b 0 /\ len a = u16 b (2 + u16 b 0) /\
  b = firstn 2 b ++ w ++ firstn 2 (skipn (Z.to_nat (2 + u16 b 0)) b) ++ a ++ r.
Proof.
  intros Hb E. pose proof (split_spec b Hb) as (H1 & H2 & H3).
  pose proof (u16_range b 0 Hb) as Hlw. pose proof (u16_range b (2 + u16 b 0) Hb) as Hla.
  set (lw := u16 b 0) in *. set (la := u16 b (2 + lw)) in *.
  destruct (Z.lt_ge_cases (len b) 4) as [L|L]; [rewrite (H1 L) in E; discriminate|].
  destruct (Z.lt_ge_cases (len b) (4 + lw + la)) as [L2|L2].
  { rewrite (H2 L (or_intror L2)) in E. discriminate. }
  rewrite (H3 L2) in E.
  assert (Ew : w = firstn (Z.to_nat lw) (skipn 2 b)) by congruence.
  assert (Ea : a = firstn (Z.to_nat la) (skipn (Z.to_nat (4 + lw)) b)) by congruence.
  assert (Er : r = skipn (Z.to_nat (4 + lw + la)) b) by congruence.
  rewrite Ew, Ea, Er. clear E Ew Ea Er.
  split; [|split].
  - unfold len in *. rewrite firstn_length, skipn_length. lia.
  - unfold len in *. rewrite firstn_length, skipn_length. lia.
  - pose proof (split_decompose b (Z.to_nat lw) (Z.to_nat la)) as D.
    replace (Z.to_nat (2 + lw)) with (2 + Z.to_nat lw)%nat by lia.
    replace (Z.to_nat (4 + lw)) with (2 + Z.to_nat lw + 2)%nat by lia.
    replace (Z.to_nat (4 + lw + la)) with (2 + Z.to_nat lw + 2 + Z.to_nat la)%nat by lia.
    exact D.
Qed.

Lemma split_refused (b : bytes) c s : split b = SRefused c s -> (c = 1 /\ s = 2) \/ (c = 3 /\ s = 1).
Proof.
  unfold split.
  repeat match goal with
         | |- context [if ?x then _ else _] => destruct x
         end; intros E; inversion E; auto.
Qed.

Lemma split_ok_lengths (b w a n : bytes) : split b = SOk w a n ->
  (length w <= length b /\ length a <= length b /\ length n <= length b)%nat.
Proof.
  unfold split.
  repeat match goal with
         | |- context [if ?x then _ else _] => destruct x
         end; intros E; try discriminate E.
  assert (Ew : w = firstn (Z.to_nat (rd16 b)) (skipn (Z.to_nat UPD_WOFF) b)) by congruence.
  assert (Ea : a = firstn (Z.to_nat (rd16 (skipn (Z.to_nat (rd16 b + UPD_WOFF)) b)))
                     (skipn (Z.to_nat (rd16 b + UPD_HDR)) b)) by congruence.
  assert (En : n = skipn (Z.to_nat (rd16 b + rd16 (skipn (Z.to_nat (rd16 b + UPD_WOFF)) b) + UPD_HDR)) b) by congruence.
  rewrite Ew, Ea, En. rewrite !firstn_length, !skipn_length. lia.
Qed.

(* the body that carries nothing but a block of attributes *)
Definition attr_only (blk : bytes) : bytes := [0; 0; len blk / 256; len blk mod 256] ++ blk.

Lemma split_attr_only (blk : bytes) : len blk < 65536 -> split (attr_only blk) = SOk [] blk [].
Proof.
  intros Hl. pose proof (len_nonneg blk) as H0.
  assert (Hn : len (attr_only blk) = 4 + len blk) by (unfold attr_only; rewrite len_app; reflexivity).
  assert (Hla : len blk / 256 * 256 + len blk mod 256 = len blk) by (pose proof (Z.div_mod (len blk) 256); lia).
  unfold split. change UPD_HDR with 4. change UPD_WOFF with 2.
  change (rd16 (attr_only blk)) with 0.
  change (rd16 (skipn (Z.to_nat (0 + 2)) (attr_only blk))) with (len blk / 256 * 256 + len blk mod 256).
  rewrite Hla, Hn.
  change (skipn (Z.to_nat 2) (attr_only blk)) with ([len blk / 256; len blk mod 256] ++ blk).
  change (firstn (Z.to_nat 0) ([len blk / 256; len blk mod 256] ++ blk)) with (@nil Z).
  change (skipn (Z.to_nat (0 + 4)) (attr_only blk)) with blk.
  replace (Z.to_nat (0 + len blk + 4)) with (4 + length blk)%nat by (unfold len; lia).
  change (skipn (4 + length blk) (attr_only blk)) with (skipn (length blk) blk).
  rewrite skipn_all.
  replace (firstn (Z.to_nat (len blk)) blk) with blk by (unfold len; now rewrite Nat2Z.id, firstn_all).
  destruct (4 + len blk <? 4) eqn:E1; [apply Z.ltb_lt in E1; lia|].
  destruct (4 + len blk <? 4 + 0) eqn:E2; [apply Z.ltb_lt in E2; lia|].
  destruct (4 + len blk <? 0 + 4 + len blk) eqn:E3; [apply Z.ltb_lt in E3; lia|].
  replace (2 + 0 + 2 + len blk + len [] =? 4 + len blk) with true; [reflexivity|].
  symmetry. apply Z.eqb_eq. unfold len. cbn [length]. lia.
Qed.

(* ------------------------------------------------------------------ the IPv4 NLRI walk *)

Definition nres_defined (r : nres) : Prop :=
  match r with NOk _ => True | NRefused c s => c = 3 /\ s = 10 end.

Lemma nlri_f_facts : forall fuel ap data, (length data <= fuel)%nat ->
  nres_defined (n_out (nlri_f fuel ap data)) /\ (n_steps (nlri_f fuel ap data) <= length data)%nat.
Proof.
  induction fuel as [|k IH]; intros ap data Hlen.
  - destruct data as [|x xs]; [cbn; split; [exact I|lia]|]. cbn [length] in Hlen. lia.
  - destruct data as [|x xs]; [cbn; split; [exact I|lia]|].
    cbn [nlri_f].
    destruct (ap && (len (x :: xs) <=? 4)); [cbn; split; [auto|lia]|].
    destruct (if ap then skipn 4 (x :: xs) else x :: xs) as [|mask d] eqn:Hd; [cbn; split; [auto|lia]|].
    assert (Hd' : (S (length d) <= length (x :: xs))%nat).
    { destruct ap.
      - change (S (length d)) with (length (mask :: d)). rewrite <- Hd, skipn_length. lia.
      - inversion Hd; subst. cbn [length]. lia. }
    destruct (mask >? 32); [cbn; split; [auto|lia]|].
    destruct ((len d =? 0) && negb (mask =? 0)); [cbn; split; [auto|lia]|].
    destruct (len d <? (mask + 7) / 8); [cbn; split; [auto|lia]|].
    specialize (IH ap (skipn (Z.to_nat ((mask + 7) / 8)) d)).
    rewrite skipn_length in IH. cbn [length] in *.
    destruct IH as [IH1 IH2]; [lia|].
    unfold ncons. cbn [n_out n_steps]. split; [|lia].
    destruct (n_out (nlri_f k ap (skipn (Z.to_nat ((mask + 7) / 8)) d))); [exact I | exact IH1].
Qed.

(* ------------------------------------------------------------------ OPEN *)

Definition capv_contract (capv : Z -> bytes -> option (Z * Z)) : Prop :=
  forall c v, match capv c v with None => True | Some (x, y) => rfc_defined x y = true end.

Definition ores_defined (r : ores) : Prop :=
  match r with OOk _ => True | ORefused c s => rfc_defined c s = true end.

Lemma kv1_shorter d k v rest : kv1 d = Some (k, v, rest) ->
  (length v + length rest + 2 <= length d)%nat.
Proof.
  destruct d as [|x0 [|x1 r]]; cbn [kv1]; try discriminate.
  destruct (len r <? x1); [discriminate|]. intros E.
  assert (Ev : v = firstn (Z.to_nat x1) r) by congruence.
  assert (Er : rest = skipn (Z.to_nat x1) r) by congruence.
  rewrite Ev, Er, firstn_length, skipn_length. cbn [length]. lia.
Qed.

Lemma kv2_shorter d k v rest : kv2 d = Some (k, v, rest) ->
  (length v + length rest + 3 <= length d)%nat.
Proof.
  destruct d as [|x0 [|x1 [|x2 r]]]; cbn [kv2]; try discriminate.
  destruct (len r <? x1 * 256 + x2); [discriminate|]. intros E.
  assert (Ev : v = firstn (Z.to_nat (x1 * 256 + x2)) r) by congruence.
  assert (Er : rest = skipn (Z.to_nat (x1 * 256 + x2)) r) by congruence.
  rewrite Ev, Er, firstn_length, skipn_length. cbn [length]. lia.
Qed.

Lemma caps_f_facts capv : capv_contract capv -> forall fuel v, (length v <= fuel)%nat ->
  ores_defined (o_out (caps_f capv fuel v)) /\ (o_steps (caps_f capv fuel v) <= length v)%nat.
Proof.
  intros Hc. induction fuel as [|k IH]; intros v Hlen.
  - destruct v as [|x xs]; [cbn; split; [exact I|lia]|]. cbn [length] in Hlen. lia.
  - destruct v as [|x xs]; [cbn; split; [exact I|lia]|].
    cbn [caps_f].
    destruct (kv1 (x :: xs)) as [[[code cv] rest]|] eqn:Hk; [|cbn; split; [reflexivity|lia]].
    pose proof (kv1_shorter _ _ _ _ Hk) as Hs.
    pose proof (Hc code cv) as Hv.
    destruct (capv code cv) as [[c s]|]; [cbn; split; [exact Hv|lia]|].
    destruct (IH rest) as [I1 I2]; [lia|].
    unfold ocons. cbn [o_out o_steps]. split; [|lia].
    destruct (o_out (caps_f capv k rest)); [exact I | exact I1].
Qed.

Lemma params_f_facts capv : capv_contract capv -> forall ext fuel d, (length d <= fuel)%nat ->
  ores_defined (o_out (params_f capv ext fuel d)) /\ (o_steps (params_f capv ext fuel d) <= length d)%nat.
Proof.
  intros Hc ext. induction fuel as [|k IH]; intros d Hlen.
  - destruct d as [|x xs]; [cbn; split; [exact I|lia]|]. cbn [length] in Hlen. lia.
  - destruct d as [|x xs]; [cbn; split; [exact I|lia]|].
    cbn [params_f].
    destruct (if ext then kv2 (x :: xs) else kv1 (x :: xs)) as [[[key v] rest]|] eqn:Hk; [|cbn; split; [reflexivity|lia]].
    assert (Hs : (length v + length rest + 2 <= length (x :: xs))%nat).
    { destruct ext; [pose proof (kv2_shorter _ _ _ _ Hk); lia | exact (kv1_shorter _ _ _ _ Hk)]. }
    destruct (key =? P_AUTH); [cbn; split; [reflexivity|lia]|].
    destruct (key =? P_CAPS); [|cbn; split; [reflexivity|lia]].
    destruct (caps_f_facts capv Hc (length v) v (le_n _)) as [C1 C2].
    destruct (IH rest) as [I1 I2]; [lia|].
    unfold oplus.
    destruct (o_out (caps_f capv (length v) v)) as [l|c s]; cbn [o_out o_steps].
    + split; [|lia]. destruct (o_out (params_f capv ext k rest)); [exact I | exact I1].
    + split; [exact C1|lia].
Qed.

Lemma open_walk_facts capv : capv_contract capv -> forall b,
  ores_defined (o_out (open_walk capv b)) /\ (o_steps (open_walk capv b) <= length b + 1)%nat.
Proof.
  intros Hc b. unfold open_walk.
  destruct (len b <? OPEN_MIN); [cbn; split; [reflexivity|lia]|].
  destruct (negb (nth 0 b 0 =? BGP_4)); [cbn; split; [reflexivity|lia]|].
  assert (Hsk : (length (skipn (Z.to_nat OPEN_FIXED) b) <= length b)%nat) by (rewrite skipn_length; lia).
  revert Hsk. generalize (skipn (Z.to_nat OPEN_FIXED) b) as d. intros d Hsk.
  unfold optparams. destruct d as [|ol t]; [cbn; split; [exact I|lia]|].
  destruct (ext_selected (ol :: t)).
  - destruct (len (ol :: t) <? rd16 (skipn 2 (ol :: t)) + 4); [cbn; split; [reflexivity|lia]|].
    set (p := firstn (Z.to_nat (rd16 (skipn 2 (ol :: t)))) (skipn 4 (ol :: t))).
    destruct (params_f_facts capv Hc true (length p) p (le_n _)) as [P1 P2].
    split; [exact P1|]. assert (length p <= length (ol :: t))%nat; [|lia].
    unfold p. rewrite firstn_length, skipn_length. lia.
  - destruct (len (ol :: t) <? ol + 1); [cbn; split; [reflexivity|lia]|].
    set (p := firstn (Z.to_nat ol) t).
    destruct (params_f_facts capv Hc false (length p) p (le_n _)) as [P1 P2].
    split; [exact P1|]. assert (length p <= length (ol :: t))%nat; [|lia].
    unfold p. rewrite firstn_length. cbn [length]. lia.
Qed.

(* ------------------------------------------------------------------ every message type *)

Definition outcome_defined (o : outcome) : Prop :=
  match o with
  | Decoded _ => True
  | Refused c s => rfc_defined c s = true
  | PyError _ => False
  end.

(* enough stack for the walk: it is a loop, or the body is short enough for the frames that are left *)
Definition enough_stack (limit : nat) (b : bytes) : Prop :=
  (PARSE_IS_RECURSIVE = false /\ (1 <= limit)%nat) \/ (length b / 3 + 1 <= limit)%nat.

Lemma update_defined vdec ap limit b :
  vdec_contract vdec -> enough_stack limit b -> outcome_defined (dec_update vdec ap limit b).
Proof.
  intros Hc Hst. unfold dec_update.
  destruct ((len b =? EOR4) && all_zero b); [exact I|].
  destruct ((len b =? EORP) && list_eqb (firstn (length EOR_PFX) b) EOR_PFX); [exact I|].
  destruct (split b) as [w a n|c s] eqn:Hs.
  2: { destruct (split_refused _ _ _ Hs) as [[-> ->]|[-> ->]]; reflexivity. }
  pose proof (split_ok_lengths _ _ _ _ Hs) as (Lw & La & Ln).
  destruct (Nat.ltb_spec limit (w_depth (walk vdec a))) as [Hd|Hd].
  { exfalso. destruct Hst as [[Hf H1]|Hsz].
    - unfold walk in Hd. rewrite (walk_f_depth_iter vdec Hf) in Hd. lia.
    - pose proof (walk_depth_le_steps vdec (length a) [] false a) as D1.
      pose proof (walk_steps_linear vdec a) as D2. unfold walk in *.
      assert (length a / 3 <= length b / 3)%nat by (apply Nat.div_le_mono; lia). lia. }
  pose proof (walk_f_defined vdec Hc (length a) [] false a (le_n _)) as Hw. fold (walk vdec a) in Hw.
  destruct (w_out (walk vdec a)) as [sn tw|c s|k]; cbn [wout_defined] in Hw; [|exact Hw|contradiction].
  destruct (nlri_f_facts (length w) ap w (le_n _)) as [N1 _]. fold (nlri_walk ap w) in N1.
  destruct (n_out (nlri_walk ap w)) as [cw|c s]; [|destruct N1 as [-> ->]; reflexivity].
  destruct (nlri_f_facts (length n) ap n (le_n _)) as [N2 _]. fold (nlri_walk ap n) in N2.
  destruct (n_out (nlri_walk ap n)) as [cn|c s]; [exact I|destruct N2 as [-> ->]; reflexivity].
Qed.

Definition refresh_unknown_subtype (ty : Z) (b : bytes) : Prop :=
  ty = 5 /\ len b = 4 /\ nth 2 b 0 <> 0 /\ nth 2 b 0 <> 1 /\ nth 2 b 0 <> 2.

(* an OPERATIONAL advisory (ADM / ASM) is decodable only when its constructor accepts the buffer slice it is handed *)
Definition advisory_decodable (ty : Z) (b : bytes) : Prop :=
  ADVISORY_ACCEPTS_BUFFER = true \/ ty <> 6 \/ op_category (rd16 b) <> 1.

Lemma message_defined vdec capv ap limit ty b :
  vdec_contract vdec -> capv_contract capv -> enough_stack limit b ->
  ~ refresh_unknown_subtype ty b -> advisory_decodable ty b ->
  outcome_defined (dec_message vdec capv ap limit ty b).
Proof.
  intros Hv Hc Hst Hrr Hadv. unfold dec_message.
  destruct (ty =? 1).
  { unfold dec_open. destruct (open_walk_facts capv Hc b) as [O1 _].
    destruct (o_out (open_walk capv b)); [exact I | exact O1]. }
  destruct (ty =? 2); [apply update_defined; assumption|].
  destruct (ty =? 3).
  { unfold dec_notification.
    repeat match goal with
           | |- context [if ?x then _ else _] => destruct x
           | |- context [match ?x with [] => _ | _ :: _ => _ end] => destruct x
           end; exact I. }
  destruct (ty =? 4); [unfold dec_keepalive; destruct b; [exact I | reflexivity]|].
  destruct (ty =? 5) eqn:E5.
  { unfold dec_refresh. destruct (len b =? 4) eqn:E4; cbn [negb]; [|reflexivity].
    destruct ((nth 2 b 0 =? 0) || (nth 2 b 0 =? 1) || (nth 2 b 0 =? 2)) eqn:Er; [exact I|].
    exfalso. apply Hrr. apply Z.eqb_eq in E5, E4.
    apply orb_false_elim in Er as [Er E2]. apply orb_false_elim in Er as [E0 E1].
    apply Z.eqb_neq in E0, E1, E2. repeat split; assumption. }
  destruct (ty =? 6) eqn:E6.
  { unfold dec_operational.
    destruct (len b <? 4); [reflexivity|].
    destruct (len b <? rd16 (skipn 2 b) + 4); [reflexivity|].
    match goal with |- context [if len b <? ?n then _ else _] => destruct (len b <? n) end; [reflexivity|].
    destruct ((op_category (rd16 b) =? 1) && negb ADVISORY_ACCEPTS_BUFFER) eqn:Ea; [|exact I].
    exfalso. apply andb_prop in Ea as [Ec Eb]. apply Z.eqb_eq in Ec, E6.
    destruct Hadv as [Ht|[Hn|Hn]]; [rewrite Ht in Eb; discriminate Eb | exact (Hn E6) | exact (Hn Ec)]. }
  reflexivity.
Qed.

Lemma advisory_crash vdec capv ap limit : ADVISORY_ACCEPTS_BUFFER = false ->
  dec_message vdec capv ap limit 6 [0; 1; 0; 3; 0; 1; 1] = PyError K_ATTRIBUTE.
Proof.
  intros H. unfold dec_message. change (6 =? 1) with false. change (6 =? 2) with false. change (6 =? 3) with false.
  change (6 =? 4) with false. change (6 =? 5) with false. change (6 =? 6) with true. cbv iota.
  unfold dec_operational.
  change (len [0; 1; 0; 3; 0; 1; 1] <? 4) with false. cbv iota.
  change (len [0; 1; 0; 3; 0; 1; 1] <? rd16 (skipn 2 [0; 1; 0; 3; 0; 1; 1]) + 4) with false. cbv iota.
  change (op_category (rd16 [0; 1; 0; 3; 0; 1; 1])) with 1. change (1 =? 1) with true. cbv iota.
  change (len [0; 1; 0; 3; 0; 1; 1] <? 7) with false. cbv iota.
  rewrite H. reflexivity.
Qed.

(* the two refutations of the unrestricted statement *)
Lemma refresh_subtype_refused vdec capv ap limit :
  dec_message vdec capv ap limit 5 [0; 1; 3; 1] = Refused 7 2 /\ rfc_defined 7 2 = false.
Proof. split; reflexivity. Qed.

Lemma recursion_crash vdec ap (limit : nat) : PARSE_IS_RECURSIVE = true ->
  (1 <= limit)%nat -> 3 * Z.of_nat limit < 65536 ->
  let blk := enc_block (repeat u254 limit) in
  dec_update vdec ap limit (attr_only blk) = PyError K_RECURSION.
Proof.
  intros Hflag H1 Hl blk.
  assert (Hlen : length blk = (3 * limit)%nat) by apply u254_block_length.
  unfold dec_update.
  assert (Hn : len (attr_only blk) = 4 + Z.of_nat (3 * limit)).
  { unfold attr_only. rewrite len_app. unfold len. rewrite Hlen. reflexivity. }
  replace ((len (attr_only blk) =? EOR4) && all_zero (attr_only blk)) with false.
  2: { symmetry. apply andb_false_intro1. apply Z.eqb_neq. change EOR4 with 4. lia. }
  replace ((len (attr_only blk) =? EORP) && list_eqb (firstn (length EOR_PFX) (attr_only blk)) EOR_PFX) with false.
  2: { symmetry. apply andb_false_intro1. apply Z.eqb_neq. change EORP with 11. lia. }
  rewrite split_attr_only by (unfold len; rewrite Hlen; lia).
  unfold blk. rewrite (walk_u254_depth vdec limit Hflag).
  destruct (Nat.ltb_spec limit (S limit)); [reflexivity|lia].
Qed.

(* a body made of any number of unknown attributes and nothing else is decoded when the stack allows it *)
Lemma unknown_attrs_decoded vdec ap limit (l : list pattr) :
  Forall unknown_attr l -> len (enc_block l) < 65536 -> l <> [] ->
  enough_stack limit (enc_block l) ->
  dec_update vdec ap limit (attr_only (enc_block l)) = Decoded 2.
Proof.
  intros Hall Hl Hne Hst. set (blk := enc_block l) in *.
  assert (H3 : (3 <= length blk)%nat).
  { unfold blk. destruct l as [|a l']; [congruence|]. cbn [enc_block flat_map]. rewrite app_length.
    pose proof (enc_attr_length a). lia. }
  unfold dec_update.
  assert (Hn : len (attr_only blk) = 4 + len blk) by (unfold attr_only; rewrite len_app; reflexivity).
  replace ((len (attr_only blk) =? EOR4) && all_zero (attr_only blk)) with false.
  2: { symmetry. apply andb_false_intro1. apply Z.eqb_neq. change EOR4 with 4. unfold len in *. lia. }
  destruct ((len (attr_only blk) =? EORP) && list_eqb (firstn (length EOR_PFX) (attr_only blk)) EOR_PFX) eqn:Eor.
  { (* 11 octets starting with the End-of-RIB prefix: the fourth octet of the body would be 7, but it is the low
       octet of the attribute length 7 only when the block has 7 octets, whose first attribute then starts with
       flags 0x90 and code 15: a registered code *)
    exfalso. apply andb_prop in Eor as [E1 E2]. apply Z.eqb_eq in E1. change EORP with 11 in E1.
    assert (Hb : length blk = 7%nat) by (unfold len in *; lia).
    destruct l as [|a l']; [congruence|]. inversion Hall as [|? ? [Hwf Hrow] _]; subst.
    destruct (enc_attr_head a) as [t Ht].
    unfold blk, attr_only in E2. cbn [enc_block flat_map] in E2. rewrite Ht in E2.
    change EOR_PFX with [0; 0; 0; 7; 144; 15; 0; 3] in E2.
    cbn [app firstn length list_eqb] in E2.
    repeat (apply andb_prop in E2 as [? E2]).
    match goal with H : (pa_code a =? 15) = true |- _ => apply Z.eqb_eq in H; rewrite H in Hrow; discriminate Hrow end. }
  rewrite split_attr_only by exact Hl.
  destruct (walk_f_unknown vdec l (length blk) [] false Hall (le_n _)) as (sn & Ho & Hs). fold blk in Ho, Hs.
  fold (walk vdec blk) in Ho, Hs.
  destruct (Nat.ltb_spec limit (w_depth (walk vdec blk))) as [Hd|Hd].
  { exfalso. destruct Hst as [[Hf H1]|Hsz].
    - unfold walk in Hd. rewrite (walk_f_depth_iter vdec Hf) in Hd. lia.
    - pose proof (walk_depth_le_steps vdec (length blk) [] false blk) as D1.
      pose proof (walk_steps_linear vdec blk) as D2. unfold walk in *. lia. }
  rewrite Ho. reflexivity.
Qed.

(* ------------------------------------------------------------------ number of steps of a whole message *)

Lemma update_steps_linear vdec ap b : byte_list b -> (update_steps vdec ap b <= length b + 2)%nat.
Proof.
  intros Hb. unfold update_steps. destruct (split b) as [w a n|c s] eqn:Hs; [|lia].
  pose proof (split_parts b w a n Hb Hs) as (_ & _ & D).
  assert (Hsum : (length w + length a + length n <= length b)%nat).
  { apply (f_equal (@length Z)) in D. rewrite !app_length in D. lia. }
  pose proof (walk_steps_linear vdec a) as W.
  assert (length a / 3 <= length a)%nat by (apply Nat.div_le_upper_bound; lia).
  destruct (nlri_f_facts (length w) ap w (le_n _)) as [_ N1]. fold (nlri_walk ap w) in N1.
  destruct (nlri_f_facts (length n) ap n (le_n _)) as [_ N2]. fold (nlri_walk ap n) in N2.
  lia.
Qed.

Lemma message_steps_linear vdec capv ap ty b :
  capv_contract capv -> byte_list b -> (message_steps vdec capv ap ty b <= length b + 2)%nat.
Proof.
  intros Hc Hb. unfold message_steps.
  destruct (ty =? 1); [destruct (open_walk_facts capv Hc b) as [_ O2]; lia|].
  destruct (ty =? 2); [apply update_steps_linear; exact Hb | lia].
Qed.

(* ------------------------------------------------------------------ statements as Prop_C03 words them *)

Lemma bounded_depth_partial : PARSE_IS_RECURSIVE = false ->
  forall vdec b, (w_depth (walk vdec b) <= 2)%nat.
Proof. intros Hf vdec b. unfold walk. rewrite (walk_f_depth_iter vdec Hf). lia. Qed.

Lemma bounded_depth_refuted : PARSE_IS_RECURSIVE = true ->
  forall vdec (n : nat), exists b,
    b = enc_block (repeat u254 n) /\ length b = (3 * n)%nat /\ w_depth (walk vdec b) = S n.
Proof.
  intros Hf vdec n. exists (enc_block (repeat u254 n)).
  split; [reflexivity|]. split; [apply u254_block_length | apply walk_u254_depth; exact Hf].
Qed.

Lemma depth_dichotomy :
  (PARSE_IS_RECURSIVE = false /\ forall vdec b, (w_depth (walk vdec b) <= 2)%nat)
  \/ (PARSE_IS_RECURSIVE = true /\
      forall vdec (n : nat), exists b, length b = (3 * n)%nat /\ w_depth (walk vdec b) = S n).
Proof.
  destruct (bool_dec PARSE_IS_RECURSIVE true) as [Ht|Hn].
  - right. split; [exact Ht|]. intros vdec n.
    destruct (bounded_depth_refuted Ht vdec n) as (b & _ & Hl & Hd). exists b. split; assumption.
  - left. apply not_true_is_false in Hn. split; [exact Hn | exact (bounded_depth_partial Hn)].
Qed.

Lemma unknown_attrs_walked vdec (l : list pattr) :
  Forall unknown_attr l ->
  exists seen, w_out (walk vdec (enc_block l)) = WOk seen false /\
               w_steps (walk vdec (enc_block l)) = S (length l).
Proof. intros H. exact (walk_f_unknown vdec l (length (enc_block l)) [] false H (le_n _)). Qed.

Lemma sections_exact (b : bytes) : byte_list b ->
  (sections_fit b = true ->
     exists w a r, split b = SOk w a r /\ len w = u16 b 0 /\ len a = u16 b (2 + u16 b 0) /\
       b = firstn 2 b ++ w ++ firstn 2 (skipn (Z.to_nat (2 + u16 b 0)) b) ++ a ++ r)
  /\ (sections_fit b = false ->
        (len b < 4 /\ split b = SRefused 1 2) \/ (4 <= len b /\ split b = SRefused 3 1)).
Proof.
  intros Hb. split.
  - intros Hf. apply (split_fit b Hb) in Hf. destruct Hf as (w & a & r & E).
    exists w, a, r. split; [exact E|]. exact (split_parts b w a r Hb E).
  - intros Hf. pose proof (split_spec b Hb) as (H1 & H2 & H3).
    pose proof (u16_range b 0 Hb) as Hlw. pose proof (u16_range b (2 + u16 b 0) Hb) as Hla.
    destruct (Z.lt_ge_cases (len b) 4) as [L|L]; [left; split; [exact L | exact (H1 L)]|].
    right. split; [exact L|]. apply H2; [exact L|].
    destruct (Z.lt_ge_cases (len b) (4 + u16 b 0 + u16 b (2 + u16 b 0))) as [L2|L2]; [right; exact L2|].
    exfalso. unfold sections_fit in Hf. fold (len b) in Hf.
    assert (E : (4 <=? len b) && (4 + u16 b 0 <=? len b) && (4 + u16 b 0 + u16 b (2 + u16 b 0) <=? len b) = true).
    { apply andb_true_intro; split; [apply andb_true_intro; split|]; apply Z.leb_le; lia. }
    rewrite E in Hf. discriminate Hf.
Qed.
