(* C15 - refinement: the modelled encoders of INET / Label / IPVPN produce exactly the RFC encoding
   (Spec_Nlri.rfc_encode) of the route the stored bytes stand for. *)
From Coq Require Import ZArith List Bool Lia Arith.
From ExaV Require Import lib.ListX gen.Gen_NlriRegistry model.Model_Nlri spec.Spec_Nlri proofs.Proofs_Nlri.
Import ListNotations.
Open Scope Z_scope.

(* ------------------------------------------------------------------ big-endian integers *)

(* the integer a byte string stands for (network order) *)
Fixpoint val (l : list Z) : Z :=
  match l with [] => 0 | b :: r => b * 256 ^ Z.of_nat (length r) + val r end.

Lemma pow256_pos k : 0 < 256 ^ Z.of_nat k.
Proof. apply Z.pow_pos_nonneg; lia. Qed.

Lemma pow256_succ k : 256 ^ Z.of_nat (S k) = 256 * 256 ^ Z.of_nat k.
Proof. rewrite Nat2Z.inj_succ, Z.pow_succ_r by lia. reflexivity. Qed.

Lemma val_bound l : wfb l -> 0 <= val l < 256 ^ Z.of_nat (length l).
Proof.
  induction l as [|b r IH]; intro H; cbn [val length].
  - cbn. lia.
  - inversion H as [|? ? Hb Hr]; subst. specialize (IH Hr). rewrite pow256_succ.
    unfold byte in Hb. pose proof (pow256_pos (length r)). nia.
Qed.

Lemma be_add k x y : be k (x * 256 ^ Z.of_nat k + y) = be k y.
Proof.
  revert x. induction k as [|k IH]; intro x; cbn [be]; [reflexivity|].
  f_equal.
  - rewrite pow256_succ.
    replace (x * (256 * 256 ^ Z.of_nat k) + y) with (y + (x * 256) * 256 ^ Z.of_nat k) by ring.
    rewrite Z.div_add by (pose proof (pow256_pos k); lia).
    rewrite Z.mod_add by lia. reflexivity.
  - rewrite pow256_succ.
    replace (x * (256 * 256 ^ Z.of_nat k) + y) with ((x * 256) * 256 ^ Z.of_nat k + y) by ring.
    apply IH.
Qed.

Lemma be_val l : wfb l -> be (length l) (val l) = l.
Proof.
  induction l as [|b r IH]; intro H; cbn [val length be]; [reflexivity|].
  inversion H as [|? ? Hb Hr]; subst. specialize (IH Hr). pose proof (val_bound r Hr) as Hv.
  pose proof (pow256_pos (length r)) as Hp. unfold byte in Hb.
  f_equal.
  - replace (b * 256 ^ Z.of_nat (length r) + val r) with (val r + b * 256 ^ Z.of_nat (length r)) by ring.
    rewrite Z.div_add by lia. rewrite Z.div_small by lia. rewrite Z.add_0_l. apply Z.mod_small. lia.
  - rewrite be_add. exact IH.
Qed.

Lemma be3_be24 v : be 3 v = be24 v.
Proof.
  unfold be24. cbn [be].
  change (256 ^ Z.of_nat 2) with 65536. change (256 ^ Z.of_nat 1) with 256. change (256 ^ Z.of_nat 0) with 1.
  rewrite Z.div_1_r. reflexivity.
Qed.

(* ------------------------------------------------------------------ the route the bytes stand for *)

(* label stack in the form Labels.make_labels writes: 20-bit label, TC 0, bottom-of-stack on the last word *)
Fixpoint canon (ls : list Z) : Prop :=
  match ls with
  | [] => True
  | l :: rest =>
    match rest with
    | [] => l = (l / 16) * 16 + 1
    | _ :: _ => l = (l / 16) * 16 /\ canon rest
    end
  end.

Definition abs (n : nlri) : rfc_route :=
  mkR (option_map val (n_pid n))
      (map (fun r => r / 16) (n_labels n))
      (match n_rd n with [] => None | _ :: _ => Some (val (n_rd n)) end)
      (n_mask n)
      (val (n_pfx n)).

Lemma rfc_labels_canon ls : canon ls -> rfc_labels (map (fun r => r / 16) ls) = lbl_bytes ls.
Proof.
  induction ls as [|l rest IH]; intro H; [reflexivity|].
  destruct rest as [|l2 rest'].
  - cbn [map rfc_labels lbl_bytes flat_map canon] in *. rewrite app_nil_r, be3_be24, <- H. reflexivity.
  - destruct H as [Hl Hrest]. specialize (IH Hrest).
    change (map (fun r => r / 16) (l :: l2 :: rest')) with (l / 16 :: map (fun r => r / 16) (l2 :: rest')).
    change (map (fun r => r / 16) (l2 :: rest')) with (l2 / 16 :: map (fun r => r / 16) rest') in *.
    cbn [rfc_labels]. cbn [rfc_labels] in IH. rewrite IH.
    unfold lbl_bytes. cbn [flat_map]. rewrite be3_be24, <- Hl. reflexivity.
Qed.

Lemma canon_make_labels vs : canon (make_labels vs).
Proof.
  unfold make_labels. destruct vs as [|v vs]; [exact I|].
  assert (G : forall (l : list Z) x, canon (map (fun v => v * 16) l ++ [x * 16 + 1])).
  { induction l as [|a l IH]; intro x.
    - cbn. rewrite Z.add_comm, Z.div_add by lia. rewrite (Z.div_small 1 16) by lia. lia.
    - cbn [map app]. specialize (IH x).
      destruct (map (fun v0 => v0 * 16) l ++ [x * 16 + 1]) eqn:E; [destruct l; discriminate|].
      cbn [canon]. split; [rewrite Z.div_mul by lia; reflexivity|]. exact IH. }
  apply G.
Qed.

Lemma canon_norm ls : canon ls -> norm_labels ls = ls.
Proof.
  intro H. destruct ls as [|l0 ls0]; [reflexivity|].
  unfold norm_labels.
  assert (G : forall ls, ls <> [] -> canon ls ->
              map (fun r => r / 16 * 16) (removelast ls) ++ [last ls 0 / 16 * 16 + 1] = ls).
  { induction ls as [|l rest IH]; intros Hne Hc; [congruence|].
    destruct rest as [|l2 rest'].
    - cbn in *. rewrite <- Hc. reflexivity.
    - destruct Hc as [Hl Hrest].
      change (removelast (l :: l2 :: rest')) with (l :: removelast (l2 :: rest')).
      change (last (l :: l2 :: rest') 0) with (last (l2 :: rest') 0).
      cbn [map app]. rewrite <- Hl. f_equal. apply IH; [discriminate|exact Hrest]. }
  apply G; [discriminate|exact H].
Qed.

(* ------------------------------------------------------------------ refinement *)

Definition sends (n : nlri) : bool := match n_pid n with Some _ => true | None => false end.

(* the bytes pack_nlri writes for a well-formed object, on a session whose ADD-PATH setting matches it,
   are the RFC 4271 / 7911 / 8277 / 4364 encoding of the route those bytes stand for *)
Theorem pack_is_rfc : forall w n,
  wf w n -> canon (n_labels n) ->
  wfb (pid_bytes (n_pid n)) -> wfb (n_rd n) -> wfb (n_pfx n) ->
  pack_nlri (sends n) n = rfc_encode (abs n).
Proof.
  intros w n [Hmask Hpfx Hpid Hrd Hlab] Hcanon Bpid Brd Bpfx.
  pose proof (mask_le_128 _ _ Hmask) as Hm128.
  unfold rfc_encode, abs, pack_nlri, sends, body, cmask.
  cbn [r_pid r_labels r_rd r_len r_addr].
  rewrite map_length, rfc_labels_canon by exact Hcanon.
  rewrite pack_ip_exact by exact Hpfx.
  assert (Epfx : be (Z.to_nat ((n_mask n + 7) / 8)) (val (n_pfx n)) = n_pfx n).
  { rewrite <- csize_range by exact Hm128. rewrite <- Hpfx. unfold zlen. rewrite Nat2Z.id. apply be_val. exact Bpfx. }
  rewrite Epfx.
  assert (Erd : (match (match n_rd n with [] => None | _ :: _ => Some (val (n_rd n)) end) with
                 | Some d => be 8 d | None => [] end) = n_rd n
                /\ (match (match n_rd n with [] => None | _ :: _ => Some (val (n_rd n)) end) with
                    | Some _ => 64 | None => 0 end) = 8 * zlen (n_rd n)).
  { destruct (n_rd n) as [|r0 rd'] eqn:E; [split; reflexivity|].
    destruct (rd_size_cases (n_afi n) (n_safi n)) as [R|R]; rewrite R in Hrd.
    - apply zlen_zero in Hrd. discriminate.
    - assert (L : length (r0 :: rd') = 8%nat) by (unfold zlen in Hrd; lia).
      split; [rewrite <- L; apply be_val; exact Brd|rewrite Hrd; reflexivity]. }
  destruct Erd as [Erd1 Erd2]. rewrite Erd1, Erd2.
  destruct (n_pid n) as [b|] eqn:Ep; cbn [option_map pid_bytes] in *.
  - assert (Eb : be 4 (val b) = b) by (rewrite <- Hpid; apply be_val; exact Bpid).
    rewrite Eb. cbn [app]. unfold zlen. tup.
  - cbn [app]. unfold zlen. tup.
Qed.
