(* C13 - lemmas about Model_JsonEvent (update message, neighbor / header envelope, event kinds). *)

From Coq Require Import ZArith List Bool Lia.
From ExaV Require Import model.Model_Json proofs.Proofs_Json.
From ExaV Require Import model.Model_JsonEvent.
Import ListNotations.
Open Scope Z_scope.

(* ------------------------------------------------------------------ grouping (dict.setdefault semantics) *)

Lemma NoDup_snoc : forall (A : Type) (l : list A) (k : A), NoDup l -> ~ In k l -> NoDup (l ++ [k]).
Proof.
  intros A l k H. induction H as [|x l Hx Hl IH]; intros Hk; cbn [app].
  - constructor; [intros [] | constructor].
  - constructor.
    + intros Hin. apply in_app_or in Hin. destruct Hin as [Hin | [-> | []]]; [contradiction |].
      apply Hk. left. reflexivity.
    + apply IH. intros Hin. apply Hk. right. exact Hin.
Qed.

Section Group.
  Context {V : Type}.

  Lemma group_add_keys : forall k (v : V) g,
    map fst (group_add k v g) = if existsb (list_eqb k) (map fst g) then map fst g else map fst g ++ [k].
  Proof.
    intros k v g. induction g as [|[k' vs] r IH]; cbn [group_add map fst existsb].
    - reflexivity.
    - destruct (list_eqb k k') eqn:E; cbn [orb map fst].
      + reflexivity.
      + rewrite IH. destruct (existsb (list_eqb k) (map fst r)); reflexivity.
  Qed.

  Lemma group_add_NoDup : forall k (v : V) g, NoDup (map fst g) -> NoDup (map fst (group_add k v g)).
  Proof.
    intros k v g H. rewrite group_add_keys.
    destruct (existsb (list_eqb k) (map fst g)) eqn:E; [exact H |].
    apply NoDup_snoc; [exact H |].
    intros Hin. assert (existsb (list_eqb k) (map fst g) = true) as T; [| congruence].
    apply existsb_exists. exists k. split; [exact Hin | apply list_eqb_eq; reflexivity].
  Qed.

  Lemma group_add_Forall : forall (Pk : list Z -> Prop) (Pv : V -> Prop) k v g,
    Pk k -> Pv v ->
    Forall (fun kv => Pk (fst kv) /\ Forall Pv (snd kv)) g ->
    Forall (fun kv => Pk (fst kv) /\ Forall Pv (snd kv)) (group_add k v g).
  Proof.
    intros Pk Pv k v g Hk Hv H. induction H as [|[k' vs] r [A B] Hr IH]; cbn [group_add].
    - constructor; [| constructor]. split; [exact Hk | constructor; [exact Hv | constructor]].
    - destruct (list_eqb k k').
      + constructor; [| exact Hr]. split; [exact A |]. apply Forall_app. split; [exact B | constructor; [exact Hv | constructor]].
      + constructor; [split; assumption | exact IH].
  Qed.

  Lemma group_inv : forall (Inv : list (list Z * list V) -> Prop) (P : list Z * V -> Prop),
    (forall g kv, Inv g -> P kv -> Inv (group_add (fst kv) (snd kv) g)) ->
    forall l g, Inv g -> Forall P l -> Inv (fold_left (fun g kv => group_add (fst kv) (snd kv) g) l g).
  Proof.
    intros Inv P Hstep l. induction l as [|kv l IH]; intros g Hg Hl; cbn [fold_left].
    - exact Hg.
    - inversion Hl; subst. apply IH; [apply Hstep; assumption | assumption].
  Qed.

  Lemma group_NoDup : forall (l : list (list Z * V)), NoDup (map fst (group l)).
  Proof.
    intros l. unfold group.
    apply (group_inv (fun g => NoDup (map fst g)) (fun _ => True)).
    - intros g kv Hg _. apply group_add_NoDup. exact Hg.
    - constructor.
    - apply Forall_forall. intros; exact I.
  Qed.

  Lemma group_Forall : forall (Pk : list Z -> Prop) (Pv : V -> Prop) (l : list (list Z * V)),
    Forall (fun kv => Pk (fst kv) /\ Pv (snd kv)) l ->
    Forall (fun kv => Pk (fst kv) /\ Forall Pv (snd kv)) (group l).
  Proof.
    intros Pk Pv l H. unfold group.
    apply (group_inv (fun g => Forall (fun kv => Pk (fst kv) /\ Forall Pv (snd kv)) g) (fun kv => Pk (fst kv) /\ Pv (snd kv))).
    - intros g kv Hg [A B]. apply group_add_Forall; assumption.
    - constructor.
    - exact H.
  Qed.
End Group.

(* ------------------------------------------------------------------ arrays *)

Lemma ws_only_run : forall (m : mode) stk s,
  (forall c, step (stk, m) c = if is_ws c then Some (stk, m) else step (stk, m) c) ->
  (forall c, is_ws c = true -> step (stk, m) c = Some (stk, m)) ->
  (forall c, In c s -> is_ws c = true) -> run (stk, m) s = Some (stk, m).
Proof.
  intros m stk s _ Hws. induction s as [|c s IH]; intros Hs; [reflexivity |].
  cbn [run]. rewrite (Hws c (Hs c (or_introl eq_refl))). apply IH. intros c' Hc'. apply Hs. right. exact Hc'.
Qed.

Lemma val_or_close : forall S s st, run (S, MVal) s = Some st ->
  run (S, MValOrClose) s = Some st \/ (forall c, In c s -> is_ws c = true).
Proof.
  intros S s. induction s as [|c s IH]; intros st H.
  - right. intros c [].
  - cbn [run] in *. cbn [step] in *. destruct (is_ws c) eqn:W.
    + destruct (IH st H) as [A | A]; [left; exact A |].
      right. intros c' [<- | Hin]; [exact W | apply A; exact Hin].
    + left. destruct (c =? 93) eqn:E; [| exact H].
      apply Z.eqb_eq in E. subst c. cbn in H. discriminate.
Qed.

Lemma run_elements : forall vs K v0, Forall (fun v => wf_json v = true) vs -> wf_json v0 = true ->
  exists q, is_after q = true /\ run (false :: K, MVal) (join [44; 32] (v0 :: vs)) = Some (false :: K, q).
Proof.
  induction vs as [|v1 vs IH]; intros K v0 Hall H0.
  - destruct (wf_json_run v0 H0) as [q [Hq Hr]]. exists q. split; [exact Hq | cbn [join]; apply Hr].
  - inversion Hall as [|? ? H1 Hrest]; subst.
    destruct (wf_json_run v0 H0) as [q0 [Hq0 Hr0]].
    cbn [join]. rewrite (run_app_some _ _ _ _ (Hr0 (false :: K))). cbn [app].
    rewrite (run_cons_some (false :: K, q0) 44 (false :: K, MVal))
      by (rewrite step_after by (auto; unfold delim; auto); reflexivity).
    rewrite (run_cons_some (false :: K, MVal) 32 (false :: K, MVal)) by reflexivity.
    apply IH; assumption.
Qed.

Lemma array_run : forall vs K, Forall (fun v => wf_json v = true) vs ->
  run (K, MVal) (arr_of vs) = Some (K, MAfter).
Proof.
  intros vs K Hall. unfold arr_of. cbn [app].
  rewrite (run_cons_some (K, MVal) 91 (false :: K, MValOrClose)) by reflexivity.
  rewrite (run_cons_some (false :: K, MValOrClose) 32 (false :: K, MValOrClose)) by reflexivity.
  destruct vs as [|v0 vs]; [reflexivity |].
  inversion Hall as [|? ? H0 Hrest]; subst.
  destruct (run_elements vs K v0 Hrest H0) as [q [Hq Hr]].
  set (body := join [44; 32] (v0 :: vs)) in *.
  destruct (val_or_close _ _ _ Hr) as [A | A].
  - rewrite (run_app_some _ _ _ _ A).
    rewrite (run_cons_some (false :: K, q) 32 (false :: K, MAfter))
      by (rewrite step_after by (auto; unfold delim; auto); reflexivity).
    reflexivity.
  - assert (Hw : run (false :: K, MVal) body = Some (false :: K, MVal)).
    { clear Hr. induction body as [|c b IHb]; [reflexivity |].
      cbn [run step]. rewrite (A c (or_introl eq_refl)). apply IHb. intros c' Hc'. apply A. right. exact Hc'. }
    rewrite Hw in Hr. inversion Hr; subst. discriminate.
Qed.

Lemma array_wf : forall vs, Forall (fun v => wf_json v = true) vs -> wf_json (arr_of vs) = true.
Proof. intros vs H. unfold wf_json. rewrite (array_run vs [] H). reflexivity. Qed.

Lemma array_single_line : forall vs, Forall (fun v => single_line v = true) vs -> single_line (arr_of vs) = true.
Proof.
  intros vs H. unfold arr_of. rewrite !single_line_app, (single_line_join [44; 32] vs eq_refl H). reflexivity.
Qed.

(* an object is a value *)
Lemma object_value_wf : forall ms, Forall (fun m => wf_member m = true) ms -> wf_json (braces (members_join ms)) = true.
Proof. intros ms H. exact (object_wf ms H). Qed.

Lemma braces_members : forall ms, braces (members_join ms) = obj_of_members ms.
Proof. reflexivity. Qed.

Lemma quoted_kv : forall k v, quoted k ++ [58; 32] ++ v = kv_pair k v.
Proof. intros k v. unfold quoted, kv_pair. rewrite <- !app_assoc. reflexivity. Qed.

Lemma quoted_kv_assoc : forall k v t, quoted k ++ [58; 32] ++ v ++ t = kv_pair k v ++ t.
Proof. intros k v t. unfold quoted, kv_pair. rewrite <- !app_assoc. reflexivity. Qed.

(* ------------------------------------------------------------------ s[:-2] *)

Lemma strip2_snoc2 : forall (x : list Z) a b, strip2 (x ++ [a; b]) = x.
Proof.
  intros x a b. unfold strip2. rewrite app_length. cbn [length].
  replace (length x + 2 - 2)%nat with (length x + 0)%nat by lia.
  rewrite firstn_app_2. cbn [firstn]. apply app_nil_r.
Qed.

Definition nh_member (g : list Z * list (list Z)) : list Z := kv_pair (fst g) (arr_of (snd g)).

Lemma nh_items_join : forall g gs,
  flat_map nh_item (g :: gs) = join [44; 32] (map nh_member (g :: gs)) ++ [44; 32].
Proof.
  intros g gs. revert g. induction gs as [|g' gs IH]; intros g.
  - cbn [flat_map map join]. unfold nh_item, nh_member. rewrite quoted_kv_assoc. rewrite app_nil_r. reflexivity.
  - change (flat_map nh_item (g :: g' :: gs)) with (nh_item g ++ flat_map nh_item (g' :: gs)).
    rewrite IH. cbn [map join]. unfold nh_item at 1, nh_member at 1. rewrite quoted_kv_assoc.
    rewrite <- !app_assoc. reflexivity.
Qed.

(* ------------------------------------------------------------------ fragments that are fine: well-formed and on one line *)

Definition frag_ok (v : list Z) : Prop := wf_json v = true /\ single_line v = true.
Definition member_ok (m : list Z) : Prop := wf_member m = true /\ single_line m = true.

Lemma kv_member_ok : forall k v, safe_key k = true -> frag_ok v -> member_ok (kv_pair k v).
Proof.
  intros k v Hk [Hv Hs]. split; [apply kv_pair_member; assumption | apply kv_pair_single_line; assumption].
Qed.

Lemma arr_ok : forall vs, Forall frag_ok vs -> frag_ok (arr_of vs).
Proof.
  intros vs H. split.
  - apply array_wf. eapply Forall_impl; [| exact H]. intros v [A _]. exact A.
  - apply array_single_line. eapply Forall_impl; [| exact H]. intros v [_ B]. exact B.
Qed.

Lemma obj_ok : forall ms, Forall member_ok ms -> frag_ok (obj_of_members ms).
Proof.
  intros ms H. split.
  - apply object_wf. eapply Forall_impl; [| exact H]. intros v [A _]. exact A.
  - apply object_single_line. eapply Forall_impl; [| exact H]. intros v [_ B]. exact B.
Qed.

Lemma braces_obj1 : forall m, braces m = obj_of_members [m].
Proof. reflexivity. Qed.

(* ------------------------------------------------------------------ JSON._update *)

Lemma fam_add_eq : forall f, fam_add f = kv_pair (fst f) (obj_of_members (map nh_member (group (snd f)))).
Proof.
  intros f. unfold fam_add. destruct (group (snd f)) as [|g gs].
  - cbn [flat_map map]. unfold strip2, quoted, kv_pair, obj_of_members, members_join. cbn [length firstn join Nat.sub].
    rewrite <- !app_assoc. reflexivity.
  - rewrite nh_items_join, strip2_snoc2.
    unfold quoted, kv_pair, obj_of_members, members_join. rewrite <- !app_assoc. reflexivity.
Qed.

Lemma fam_remove_eq : forall f, fam_remove f = kv_pair (fst f) (arr_of (snd f)).
Proof. intros f. unfold fam_remove. apply quoted_kv. Qed.

Definition ann_ok (a : list Z * (list Z * list Z)) : Prop :=
  safe_key (fst a) = true /\ (safe_key (fst (snd a)) = true /\ frag_ok (snd (snd a))).
Definition wd_ok (w : list Z * list Z) : Prop := safe_key (fst w) = true /\ frag_ok (snd w).

Lemma nh_member_ok : forall g, safe_key (fst g) = true /\ Forall frag_ok (snd g) -> member_ok (nh_member g).
Proof. intros g [A B]. apply kv_member_ok; [exact A | apply arr_ok; exact B]. Qed.

Lemma fam_add_ok : forall f,
  safe_key (fst f) = true /\ Forall (fun v => safe_key (fst v) = true /\ frag_ok (snd v)) (snd f) -> member_ok (fam_add f).
Proof.
  intros f [A B]. rewrite fam_add_eq. apply kv_member_ok; [exact A |]. apply obj_ok.
  apply Forall_forall. intros m Hm. apply in_map_iff in Hm. destruct Hm as [g [<- Hg]].
  apply nh_member_ok.
  pose proof (group_Forall (fun k => safe_key k = true) frag_ok (snd f) B) as G.
  rewrite Forall_forall in G. exact (G g Hg).
Qed.

Lemma fam_remove_ok : forall f, safe_key (fst f) = true /\ Forall frag_ok (snd f) -> member_ok (fam_remove f).
Proof. intros f [A B]. rewrite fam_remove_eq. apply kv_member_ok; [exact A | apply arr_ok; exact B]. Qed.

Definition add_members (u : upd) : list (list Z) := map fam_add (group (u_ann u)).
Definition remove_members (u : upd) : list (list Z) := map fam_remove (group (u_wd u)).

Definition update_members (u : upd) : list (list Z) :=
  match u_attr u with Some c => [kv_pair k_attribute (braces c)] | None => [] end
  ++ (if is_nil (add_members u) then [] else [kv_pair k_announce (obj_of_members (add_members u))])
  ++ (if is_nil (remove_members u) then [] else [kv_pair k_withdraw (obj_of_members (remove_members u))]).

Lemma update_message_shape : forall u, u_eor u = None ->
  update_message u = obj_of_members [kv_pair k_update (obj_of_members (update_members u))].
Proof.
  intros u He. unfold update_message, update_members. rewrite He.
  fold (add_members u). fold (remove_members u).
  destruct (u_attr u) as [c|]; destruct (add_members u) as [|a ar]; destruct (remove_members u) as [|r rr];
    cbn [is_nil negb andb orb app quoted];
    unfold braces, quoted, kv_pair, obj_of_members, members_join; cbn [join app is_nil orb];
    rewrite <- ?app_assoc; cbn [app]; rewrite <- ?app_assoc; reflexivity.
Qed.

Lemma update_members_ok : forall u,
  Forall ann_ok (u_ann u) -> Forall wd_ok (u_wd u) ->
  (forall c, u_attr u = Some c -> frag_ok (braces c)) ->
  Forall member_ok (update_members u).
Proof.
  intros u Ha Hw Hc. unfold update_members.
  assert (Hadd : Forall member_ok (add_members u)).
  { unfold add_members. apply Forall_forall. intros m Hm. apply in_map_iff in Hm. destruct Hm as [f [<- Hf]].
    apply fam_add_ok.
    pose proof (group_Forall (fun k => safe_key k = true) (fun v => safe_key (fst v) = true /\ frag_ok (snd v)) (u_ann u) Ha) as G.
    rewrite Forall_forall in G. exact (G f Hf). }
  assert (Hrem : Forall member_ok (remove_members u)).
  { unfold remove_members. apply Forall_forall. intros m Hm. apply in_map_iff in Hm. destruct Hm as [f [<- Hf]].
    apply fam_remove_ok.
    pose proof (group_Forall (fun k => safe_key k = true) frag_ok (u_wd u) Hw) as G.
    rewrite Forall_forall in G. exact (G f Hf). }
  apply Forall_app. split.
  - destruct (u_attr u) as [c|]; [| constructor].
    constructor; [| constructor]. apply kv_member_ok; [reflexivity | apply Hc; reflexivity].
  - apply Forall_app. split.
    + destruct (is_nil (add_members u)); [constructor |].
      constructor; [| constructor]. apply kv_member_ok; [reflexivity | apply obj_ok; exact Hadd].
    + destruct (is_nil (remove_members u)); [constructor |].
      constructor; [| constructor]. apply kv_member_ok; [reflexivity | apply obj_ok; exact Hrem].
Qed.

Lemma update_message_ok : forall u,
  (forall m, u_eor u = Some m -> member_ok m) ->
  Forall ann_ok (u_ann u) -> Forall wd_ok (u_wd u) ->
  (forall c, u_attr u = Some c -> frag_ok (braces c)) ->
  frag_ok (update_message u).
Proof.
  intros u He Ha Hw Hc. destruct (u_eor u) as [m|] eqn:E.
  - unfold update_message. rewrite E. rewrite braces_obj1. apply obj_ok. constructor; [apply He; reflexivity | constructor].
  - rewrite (update_message_shape u E). apply obj_ok. constructor; [| constructor].
    apply kv_member_ok; [reflexivity |]. apply obj_ok. apply update_members_ok; assumption.
Qed.

(* keys: nothing is repeated at any level the grouping creates *)
Lemma update_keys : forall u,
  Forall ann_ok (u_ann u) -> Forall wd_ok (u_wd u) ->
  (* families under "announce" *)
  NoDup (map fst (group (u_ann u)))
  /\ map member_key (add_members u) = map (fun f => Some (fst f)) (group (u_ann u))
  (* next hops inside every family *)
  /\ (forall f, In f (group (u_ann u)) ->
        NoDup (map fst (group (snd f)))
        /\ map member_key (map nh_member (group (snd f))) = map (fun g => Some (fst g)) (group (snd f)))
  (* families under "withdraw" *)
  /\ NoDup (map fst (group (u_wd u)))
  /\ map member_key (remove_members u) = map (fun f => Some (fst f)) (group (u_wd u))
  (* the update object itself *)
  /\ NoDup (map member_key (update_members u))
  /\ (forall k, In k (map member_key (update_members u)) -> In k [Some k_attribute; Some k_announce; Some k_withdraw]).
Proof.
  intros u Ha Hw.
  pose proof (group_Forall (fun k => safe_key k = true) (fun v => safe_key (fst v) = true /\ frag_ok (snd v)) (u_ann u) Ha) as GA.
  pose proof (group_Forall (fun k => safe_key k = true) frag_ok (u_wd u) Hw) as GW.
  rewrite Forall_forall in GA, GW.
  split; [apply group_NoDup |]. split.
  { unfold add_members. rewrite map_map. apply map_ext_in. intros f Hf.
    rewrite fam_add_eq. apply member_key_kv_pair. apply (GA f Hf). }
  split.
  { intros f Hf. split; [apply group_NoDup |].
    rewrite map_map. apply map_ext_in. intros g Hg. unfold nh_member. apply member_key_kv_pair.
    destruct (GA f Hf) as [_ B].
    pose proof (group_Forall (fun k => safe_key k = true) frag_ok (snd f) B) as G. rewrite Forall_forall in G.
    apply (G g Hg). }
  split; [apply group_NoDup |]. split.
  { unfold remove_members. rewrite map_map. apply map_ext_in. intros f Hf.
    rewrite fam_remove_eq. apply member_key_kv_pair. apply (GW f Hf). }
  unfold update_members.
  destruct (u_attr u); destruct (is_nil (add_members u)); destruct (is_nil (remove_members u));
    cbn [app map]; rewrite ?member_key_kv_pair by reflexivity; (split; [
      repeat constructor; cbn [In]; intros H; repeat (destruct H as [H | H]; [discriminate H |]); exact H
    | cbn [In]; intros k H; repeat (destruct H as [<- | H]; [tauto |]); contradiction ]).
Qed.

