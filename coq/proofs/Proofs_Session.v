(* Proofs_Session - the C05 / C10 clauses hold on every trace of Model_Session over the bounded
   alphabet, for traces of any length.

   Method: the product of the model with the monitor of Spec_Fsm is a finite transition system.
   Its reachable set R is computed inside Coq (breadth first, vm_compute); three facts are then checked
   by evaluation and lifted with forallb_forall:
     init in R;   closure: p in R, e in alphabet -> step p e in R;
     safety: for every p in R and e in alphabet, the step from p under e satisfies the clause.
   Induction over the event list gives the clause for every trace. *)
From Coq Require Import ZArith List Bool Lia FMapPositive.
From ExaV Require Import gen.Gen_Fsm spec.Spec_Fsm model.Model_Session.
Import ListNotations.
Open Scope Z_scope.

(* ------------------------------------------------------------------------------------------------ *)
(* boolean equality of product states *)

Definition cpoint_eqb (a b : cpoint) : bool :=
  match a, b with
  | W, W | CN, CN | RO, RO | RK, RK | M0, M0 | MN, MN | MR, MR | MP, MP | ST, ST => true
  | _, _ => false
  end.
Definition owner_eqb (a b : owner) : bool :=
  match a, b with ONone, ONone | OSame, OSame | ONew, ONew => true | _, _ => false end.

Definition pread_eqb (a b : pread) : bool :=
  match a, b with PNone, PNone | PPartial, PPartial | PDone, PDone | PLost, PLost => true | _, _ => false end.
Lemma pread_eqb_eq a b : pread_eqb a b = true -> a = b.
Proof. destruct a, b; simpl; congruence. Qed.

Lemma cpoint_eqb_eq a b : cpoint_eqb a b = true -> a = b.
Proof. destruct a, b; simpl; congruence. Qed.
Lemma owner_eqb_eq a b : owner_eqb a b = true -> a = b.
Proof. destruct a, b; simpl; congruence. Qed.
Lemma fstate_eqb_eq a b : fstate_eqb a b = true -> a = b.
Proof. destruct a, b; simpl; congruence. Qed.

Definition sstate_eqb (a b : sstate) : bool :=
  cpoint_eqb (cp a) (cp b) && fstate_eqb (fsm a) (fsm b) && owner_eqb (own a) (own b) && pread_eqb (pend a) (pend b)
  && (tdc a =? tdc b) && Bool.eqb (rs a) (rs b) && Bool.eqb (rq a) (rq b) && Bool.eqb (pb a) (pb b) && Bool.eqb (ho a) (ho b).

Lemma sstate_eqb_eq a b : sstate_eqb a b = true -> a = b.
Proof.
  destruct a, b; unfold sstate_eqb; simpl; intro H.
  repeat (apply andb_prop in H; let H' := fresh "E" in destruct H as [H H']).
  apply cpoint_eqb_eq in H.
  repeat match goal with
  | X : fstate_eqb _ _ = true |- _ => apply fstate_eqb_eq in X
  | X : owner_eqb _ _ = true |- _ => apply owner_eqb_eq in X
  | X : pread_eqb _ _ = true |- _ => apply pread_eqb_eq in X
  | X : (_ =? _) = true |- _ => apply Z.eqb_eq in X
  | X : Bool.eqb _ _ = true |- _ => apply Bool.eqb_prop in X
  end.
  congruence.
Qed.

Definition mon_eqb (a b : mon) : bool :=
  fstate_eqb (m_fsm a) (m_fsm b) && Bool.eqb (m_topen a) (m_topen b) && Bool.eqb (m_osent a) (m_osent b)
  && Bool.eqb (m_orcvd a) (m_orcvd b) && Bool.eqb (m_krcvd a) (m_krcvd b) && Bool.eqb (m_up a) (m_up b)
  && Bool.eqb (m_notified a) (m_notified b) && Bool.eqb (m_td a) (m_td b) && Bool.eqb (m_pb a) (m_pb b)
  && Bool.eqb (m_mustclose a) (m_mustclose b).

Lemma mon_eqb_eq a b : mon_eqb a b = true -> a = b.
Proof.
  destruct a, b; unfold mon_eqb; simpl; intro H.
  repeat (apply andb_prop in H; let H' := fresh "E" in destruct H as [H H']).
  apply fstate_eqb_eq in H.
  repeat match goal with X : Bool.eqb _ _ = true |- _ => apply Bool.eqb_prop in X end.
  congruence.
Qed.

Definition pstate := (sstate * mon)%type.
Definition ps_eqb (a b : pstate) : bool := sstate_eqb (fst a) (fst b) && mon_eqb (snd a) (snd b).
Lemma ps_eqb_eq a b : ps_eqb a b = true -> a = b.
Proof.
  destruct a, b; unfold ps_eqb; cbn [fst snd]; intro H. apply andb_prop in H. destruct H as [H1 H2].
  apply sstate_eqb_eq in H1. apply mon_eqb_eq in H2. congruence.
Qed.

(* a hash of the product state (any function would do: equal states have equal hashes) *)
Definition b2z (b : bool) : Z := if b then 1 else 0.
Definition cp_z (c : cpoint) : Z := match c with W => 0 | CN => 1 | RO => 2 | RK => 3 | M0 => 4 | MN => 5 | MR => 6 | ST => 7 | MP => 8 end.
Definition pend_z (p : pread) : Z := match p with PNone => 0 | PPartial => 1 | PDone => 2 | PLost => 3 end.
Definition fs_z (a : fstate) : Z :=
  match a with Idle => 0 | Active => 1 | Connect => 2 | OpenSent => 3 | OpenConfirm => 4 | Established => 5 end.
Definition own_z (o : owner) : Z := match o with ONone => 0 | OSame => 1 | ONew => 2 end.
Definition hash (p : pstate) : positive :=
  let s := fst p in let m := snd p in
  Z.to_pos (1 + cp_z (cp s) + 9 * (pend_z (pend s) + 4 * (b2z (ho s)) + 8 * (fs_z (fsm s) + 6 * (own_z (own s) + 3 * (b2z (rs s) + 2 * (b2z (rq s) + 2 * (b2z (pb s)
    + 2 * (fs_z (m_fsm m) + 6 * (b2z (m_topen m) + 2 * (b2z (m_osent m) + 2 * (b2z (m_orcvd m) + 2 * (b2z (m_krcvd m)
    + 2 * (b2z (m_up m) + 2 * (b2z (m_notified m) + 2 * (b2z (m_td m) + 2 * (b2z (m_pb m) + 2 * (b2z (m_mustclose m)
    + 2 * Z.abs (tdc s)))))))))))))))))).

(* ------------------------------------------------------------------------------------------------ *)
(* sets of product states as hash buckets *)

Definition pset := PositiveMap.t (list pstate).
Definition memb (p : pstate) (R : pset) : bool :=
  match PositiveMap.find (hash p) R with Some l => existsb (ps_eqb p) l | None => false end.
Definition add (p : pstate) (R : pset) : pset :=
  match PositiveMap.find (hash p) R with
  | Some l => PositiveMap.add (hash p) (p :: l) R
  | None => PositiveMap.add (hash p) [p] R
  end.
Definition elems (R : pset) : list pstate := flat_map snd (PositiveMap.elements R).

Lemma memb_In p R : memb p R = true -> In p (elems R).
Proof.
  unfold memb, elems. destruct (PositiveMap.find (hash p) R) as [l|] eqn:F; [|discriminate].
  intro H. apply existsb_exists in H. destruct H as [q [Hq E]]. apply ps_eqb_eq in E. subst q.
  apply in_flat_map. exists (hash p, l). split; [|exact Hq].
  apply PositiveMap.elements_correct. exact F.
Qed.

(* ------------------------------------------------------------------------------------------------ *)
(* the product system and its reachable set *)

Definition pstep (p : pstate) (e : event) : pstate :=
  let x := session_step (fst p) e in (fst x, mon_step (snd p) (e, snd x)).

Definition p0 : pstate := (init, mon0).

(* one round: successors of the frontier that are new *)
Fixpoint expand1 (p : pstate) (es : list event) (R : pset) (acc : list pstate) : pset * list pstate :=
  match es with
  | [] => (R, acc)
  | e :: r =>
    let q := pstep p e in
    if memb q R then expand1 p r R acc else expand1 p r (add q R) (q :: acc)
  end.
Fixpoint expand (fr : list pstate) (R : pset) (acc : list pstate) : pset * list pstate :=
  match fr with
  | [] => (R, acc)
  | p :: r => let x := expand1 p alphabet R acc in expand r (fst x) (snd x)
  end.
Fixpoint bfs (fuel : nat) (fr : list pstate) (R : pset) : pset * list pstate :=
  match fuel with
  | O => (R, fr)
  | S n => match fr with [] => (R, []) | _ => let x := expand fr R [] in bfs n (snd x) (fst x) end
  end.

Definition reach : pset * list pstate := bfs 200 [p0] (add p0 (PositiveMap.empty _)).
Definition R : pset := Eval vm_compute in fst reach.
Definition Rl : list pstate := Eval vm_compute in elems R.

Lemma Rl_elems : elems R = Rl.
Proof. vm_compute. reflexivity. Qed.

Definition InR (p : pstate) : Prop := memb p R = true.

Lemma InR_Rl p : InR p -> In p Rl.
Proof. intro H. rewrite <- Rl_elems. apply memb_In. exact H. Qed.

Lemma init_in : InR p0.
Proof. vm_compute. reflexivity. Qed.

Lemma closure_b : forallb (fun p => forallb (fun e => memb (pstep p e) R) alphabet) Rl = true.
Proof. vm_compute. reflexivity. Qed.

Lemma closure p e : InR p -> In e alphabet -> InR (pstep p e).
Proof.
  intros Hp He. apply InR_Rl in Hp. pose proof closure_b as C.
  rewrite forallb_forall in C. specialize (C p Hp). rewrite forallb_forall in C. exact (C e He).
Qed.

(* ------------------------------------------------------------------------------------------------ *)
(* lifting a clause from the steps of R to every trace *)

Definition clause_b (okA : mon -> event -> mon -> action -> bool) (okE : mon -> event -> list action -> mon -> bool) : bool :=
  forallb (fun p => forallb (fun e => step_ok okA okE (snd p) (e, snd (session_step (fst p) e))) alphabet) Rl.

Lemma clause_traces okA okE :
  clause_b okA okE = true ->
  forall es, Forall (fun e => In e alphabet) es ->
  forall p, InR p -> trace_ok okA okE (snd p) (run (fst p) es) = true.
Proof.
  intros C es. induction es as [|e r IH]; intros Hall p Hp; [reflexivity|].
  inversion Hall as [|? ? He Hr]; subst.
  cbn [run trace_ok]. apply andb_true_intro. split.
  - unfold clause_b in C. rewrite forallb_forall in C. specialize (C p (InR_Rl p Hp)).
    rewrite forallb_forall in C. exact (C e He).
  - specialize (IH Hr (pstep p e) (closure p e Hp He)). exact IH.
Qed.

Definition over_alphabet (es : list event) : Prop := Forall (fun e => In e alphabet) es.

Lemma clause_from_init okA okE :
  clause_b okA okE = true -> forall es, over_alphabet es -> trace_ok okA okE mon0 (run init es) = true.
Proof. intros C es H. exact (clause_traces okA okE C es H p0 init_in). Qed.

(* ------------------------------------------------------------------------------------------------ *)
(* the clauses *)

Lemma trans_b : clause_b (fun _ _ => okA_trans) noE = true. Proof. vm_compute. reflexivity. Qed.
Lemma est_b : clause_b (fun _ _ => okA_est) noE = true. Proof. vm_compute. reflexivity. Qed.
Lemma upd_b : clause_b (fun _ _ => okA_upd) noE = true. Proof. vm_compute. reflexivity. Qed.
Lemma close_b : clause_b (fun _ _ => okA_close) (fun _ _ _ m => okE_close m) = true. Proof. vm_compute. reflexivity. Qed.
Lemma updown_b : clause_b (fun _ _ => okA_updown) noE = true. Proof. vm_compute. reflexivity. Qed.
Lemma silence_b : clause_b (fun _ _ => okA_silence) (fun _ _ _ m => okE_silence m) = true. Proof. vm_compute. reflexivity. Qed.
Lemma class_b : clause_b (fun m0 e _ => okA_class m0 e) noE = true. Proof. vm_compute. reflexivity. Qed.
Lemma answered_b : clause_b (fun _ _ _ _ => true) (fun _ e acts _ => okE_answered e acts) = true. Proof. vm_compute. reflexivity. Qed.
Lemma noreply_b : clause_b (fun _ _ _ _ => true) (fun _ e acts _ => okE_noreply e acts) = true. Proof. vm_compute. reflexivity. Qed.

Theorem rfc_transitions_all es : over_alphabet es -> check_trans mon0 (run init es) = true.
Proof. exact (clause_from_init _ _ trans_b es). Qed.
Theorem established_requires_all es : over_alphabet es -> check_est mon0 (run init es) = true.
Proof. exact (clause_from_init _ _ est_b es). Qed.
Theorem update_only_established_all es : over_alphabet es -> check_upd mon0 (run init es) = true.
Proof. exact (clause_from_init _ _ upd_b es). Qed.
Theorem close_on_leave_all es : over_alphabet es -> check_close mon0 (run init es) = true.
Proof. exact (clause_from_init _ _ close_b es). Qed.
Theorem up_down_all es : over_alphabet es -> check_updown mon0 (run init es) = true.
Proof. exact (clause_from_init _ _ updown_b es). Qed.
Theorem silence_all es : over_alphabet es -> check_silence mon0 (run init es) = true.
Proof. exact (clause_from_init _ _ silence_b es). Qed.
Theorem class_all es : over_alphabet es -> check_class mon0 (run init es) = true.
Proof. exact (clause_from_init _ _ class_b es). Qed.
Theorem answered_all es : over_alphabet es -> check_answered mon0 (run init es) = true.
Proof. exact (clause_from_init _ _ answered_b es). Qed.
Theorem noreply_all es : over_alphabet es -> check_noreply mon0 (run init es) = true.
Proof. exact (clause_from_init _ _ noreply_b es). Qed.

(* ------------------------------------------------------------------------------------------------ *)
(* every Fsm action of every trace is a transition of the RFC and of ExaBGP's own table (Gen_Fsm.allowed,
   regenerated from fsm.py), stated directly *)

Definition code (a : fstate) : Z :=
  match a with
  | Idle => IDLE | Active => ACTIVE | Connect => CONNECT | OpenSent => OPENSENT
  | OpenConfirm => OPENCONFIRM | Established => ESTABLISHED
  end.

Definition fsm_ok (a : action) : bool :=
  match a with Fsm x y => rfc_allowed x y && allowed (code x) (code y) | _ => true end.

Lemma fsm_ok_b :
  forallb (fun p => forallb (fun e => forallb fsm_ok (snd (session_step (fst p) e))) alphabet) Rl = true.
Proof. vm_compute. reflexivity. Qed.

Lemma run_steps_in_R es : over_alphabet es -> forall p, InR p ->
  forall e acts, In (e, acts) (run (fst p) es) ->
  exists q, InR q /\ In e alphabet /\ acts = snd (session_step (fst q) e).
Proof.
  induction es as [|e0 r IH]; intros Hall p Hp e acts Hin; [destruct Hin|].
  inversion Hall as [|? ? He Hr]; subst. cbn [run] in Hin. destruct Hin as [E|Hin].
  - inversion E; subst. exists p. repeat split; assumption.
  - exact (IH Hr (pstep p e0) (closure p e0 Hp He) e acts Hin).
Qed.

Theorem fsm_actions_allowed es : over_alphabet es ->
  forall e acts x y, In (e, acts) (run init es) -> In (Fsm x y) acts ->
  rfc_allowed x y = true /\ allowed (code x) (code y) = true.
Proof.
  intros Hall e acts x y Hin Ha.
  destruct (run_steps_in_R es Hall p0 init_in e acts Hin) as [q [Hq [He Eacts]]].
  pose proof fsm_ok_b as C. rewrite forallb_forall in C. specialize (C q (InR_Rl q Hq)).
  rewrite forallb_forall in C. specialize (C e He). rewrite forallb_forall in C.
  rewrite <- Eacts in C. specialize (C (Fsm x y) Ha). cbn [fsm_ok] in C.
  apply andb_prop in C. exact C.
Qed.

(* ExaBGP's table is inside the RFC's (all 36 pairs) *)
Definition all_states : list fstate := [Idle; Active; Connect; OpenSent; OpenConfirm; Established].
Lemma table_within_rfc_b :
  forallb (fun x => forallb (fun y => implb (allowed (code x) (code y)) (rfc_allowed x y)) all_states) all_states = true.
Proof. vm_compute. reflexivity. Qed.
Theorem table_within_rfc x y : allowed (code x) (code y) = true -> rfc_allowed x y = true.
Proof.
  intro H. pose proof table_within_rfc_b as C. rewrite forallb_forall in C.
  assert (Hx : In x all_states) by (destruct x; simpl; tauto).
  assert (Hy : In y all_states) by (destruct y; simpl; tauto).
  specialize (C x Hx). rewrite forallb_forall in C. specialize (C y Hy). rewrite H in C. exact C.
Qed.

(* ------------------------------------------------------------------------------------------------ *)
(* the peer task never waits on a transport while the session owns another one (this is what the
   defect D13 violated: handle_connection replaced peer.proto under the suspended coroutine) *)

Definition reads_own (s : sstate) : bool :=
  match cp s with
  | RO | RK | M0 | MN | MR | MP => match own s with ONew => false | _ => true end
  | CN => match own s with ONone => true | _ => false end
  | _ => true
  end.
Lemma reads_own_b : forallb (fun p => reads_own (fst p)) Rl = true.
Proof. vm_compute. reflexivity. Qed.

Lemma final_in_R es : over_alphabet es -> forall p, InR p -> exists m, InR (final (fst p) es, m).
Proof.
  induction es as [|e r IH]; intros Hall p Hp.
  - exists (snd p). destruct p; exact Hp.
  - inversion Hall as [|? ? He Hr]; subst. cbn [final].
    exact (IH Hr (pstep p e) (closure p e Hp He)).
Qed.

Theorem reads_own_transport es : over_alphabet es -> reads_own (final init es) = true.
Proof.
  intro Hall. destruct (final_in_R es Hall p0 init_in) as [m Hm].
  pose proof reads_own_b as C. rewrite forallb_forall in C. exact (C _ (InR_Rl _ Hm)).
Qed.

(* ------------------------------------------------------------------------------------------------ *)
(* the read in progress: kept until the message is complete or the transport is closed; nothing of it
   outlives the transport *)

Definition is_close (a : action) : bool := match a with CloseTransport => true | _ => false end.
Definition is_connected_act (a : action) : bool := match a with ApiConnected => true | _ => false end.
Definition is_recv (e : event) : bool := match e with Recv _ => true | _ => false end.
Definition is_partial (s : sstate) : bool := match pend s with PPartial => true | _ => false end.
Definition nothing_kept (s : sstate) : bool := match pend s with PNone | PLost => true | _ => false end.

(* a partly received message stays pending through every event that neither completes it nor closes the transport *)
Definition survives_b (s : sstate) (e : event) : bool :=
  negb (is_partial s)
  || (let x := session_step s e in existsb is_close (snd x) || is_recv e || is_partial (fst x)).
Lemma survives_all_b : forallb (fun p => forallb (survives_b (fst p)) alphabet) Rl = true.
Proof. vm_compute. reflexivity. Qed.

(* whatever was read or pending belongs to the transport the session owns; a step that closes the
   transport, or takes a new one, leaves nothing of it *)
Definition no_leak_state (s : sstate) : bool := match pend s with PNone => true | _ => is_same s end.
Definition no_leak_step (s : sstate) (e : event) : bool :=
  let x := session_step s e in
  negb (existsb is_close (snd x) || existsb is_connected_act (snd x)) || nothing_kept (fst x).
Lemma no_leak_b :
  forallb (fun p => no_leak_state (fst p) && forallb (no_leak_step (fst p)) alphabet) Rl = true.
Proof. vm_compute. reflexivity. Qed.

Lemma final_state_in_Rl es : over_alphabet es -> exists m, In (final init es, m) Rl.
Proof. intro H. destruct (final_in_R es H p0 init_in) as [m Hm]. exists m. apply InR_Rl. exact Hm. Qed.

Theorem pending_read_survives es e : over_alphabet es -> In e alphabet -> survives_b (final init es) e = true.
Proof.
  intros H He. destruct (final_state_in_Rl es H) as [m Hm].
  pose proof survives_all_b as C. rewrite forallb_forall in C. specialize (C _ Hm). cbn [fst] in C.
  rewrite forallb_forall in C. exact (C e He).
Qed.

Theorem no_cross_session_leak es e : over_alphabet es -> In e alphabet ->
  no_leak_state (final init es) = true /\ no_leak_step (final init es) e = true.
Proof.
  intros H He. destruct (final_state_in_Rl es H) as [m Hm].
  pose proof no_leak_b as C. rewrite forallb_forall in C. specialize (C _ Hm). cbn [fst] in C.
  apply andb_prop in C. destruct C as [C1 C2]. split; [exact C1|].
  rewrite forallb_forall in C2. exact (C2 e He).
Qed.

(* size of the reachable product (for the evidence) *)
Definition reach_size : nat := Eval vm_compute in length Rl.
Definition reach_frontier_left : nat := Eval vm_compute in length (snd reach).

(* ------------------------------------------------------------------------------------------------ *)
(* deciding membership in the alphabet (used to show that concrete event lists meet the hypothesis) *)

Definition rkind_eqb (a b : rkind) : bool :=
  match a, b with
  | OpenOk, OpenOk | Keepalive, Keepalive | UpdateOk, UpdateOk | Notification, Notification
  | Refresh, Refresh | Operational, Operational | UnknownType, UnknownType => true
  | OpenBad x, OpenBad y | UpdateBad x, UpdateBad y | RefreshBad x, RefreshBad y | HeaderErr x, HeaderErr y => x =? y
  | _, _ => false
  end.
Definition event_eqb (a b : event) : bool :=
  match a, b with
  | Tick, Tick | ConnectOk, ConnectOk | ConnectFail, ConnectFail | Eof, Eof | SockErr, SockErr
  | HoldExpire, HoldExpire | OpenWaitExpire, OpenWaitExpire | ApiRefresh, ApiRefresh | ProcessBroken, ProcessBroken
  | RecvPart, RecvPart | Handover, Handover | LoopPause, LoopPause | LoopExit, LoopExit => true
  | Incoming x, Incoming y => Bool.eqb x y
  | Recv x, Recv y => rkind_eqb x y
  | Teardown x, Teardown y => x =? y
  | Reload Same, Reload Same | Reload Changed, Reload Changed | Reload Removed, Reload Removed => true
  | _, _ => false
  end.
Lemma rkind_eqb_eq a b : rkind_eqb a b = true -> a = b.
Proof. destruct a, b; simpl; try congruence; intro H; apply Z.eqb_eq in H; congruence. Qed.
Lemma event_eqb_eq a b : event_eqb a b = true -> a = b.
Proof.
  destruct a, b; simpl; try congruence; intro H;
    try (apply Bool.eqb_prop in H; congruence);
    try (apply rkind_eqb_eq in H; congruence);
    try (apply Z.eqb_eq in H; congruence);
    repeat match goal with x : reload |- _ => destruct x end; congruence.
Qed.
Definition over_alphabet_b (es : list event) : bool :=
  forallb (fun e => existsb (event_eqb e) alphabet) es.
Lemma over_alphabet_dec es : over_alphabet_b es = true -> over_alphabet es.
Proof.
  unfold over_alphabet_b, over_alphabet. intro H. rewrite forallb_forall in H. apply Forall_forall.
  intros e He. specialize (H e He). apply existsb_exists in H. destruct H as [x [Hx E]].
  apply event_eqb_eq in E. subst. exact Hx.
Qed.
