(* C16 - encodability, injectivity of the encoding, and ExaBGP's own encode/decode round trip for every
   valid rule (including IPv6 offsets and repeated prefixes, where the RFC reading differs). *)
From Coq Require Import ZArith List Bool Lia Arith.
From ExaV Require Import lib.ListX gen.Gen_Flow spec.Spec_Flow model.Model_Flow
  proofs.Proofs_Flow proofs.Proofs_FlowDec proofs.Proofs_FlowCanon.
Import ListNotations.
Open Scope Z_scope.

(* ---------------------------------------------------------------- every legal rule is encoded *)

Definition addr_len (v6 : bool) (c : mcomp) : bool :=
  match c with MPfx _ _ _ a => llen a =? (if v6 then 16 else 4) | MOps _ _ => true end.

Lemma canon_addr_len : forall v6 cs, forallb (addr_len v6) cs = true -> forallb (addr_len v6) (canon v6 cs) = true.
Proof.
  intros v6 cs H. apply forallb_forall. intros c Hc. unfold canon in Hc. apply in_flat_map in Hc.
  destruct Hc as ([t [k w]] & Ht & Hg). unfold group in Hg. destruct (k =? 1).
  - unfold pick_pfx in Hg. apply filter_In in Hg. destruct Hg as [Hg _]. rewrite forallb_forall in H. apply H. exact Hg.
  - destruct (pick_ops t cs); [destruct Hg|]. destruct Hg as [<-|[]]. reflexivity.
Qed.

Lemma rt_ok_valid : forall v6 c, rt_ok v6 c = true -> addr_len v6 c = true -> valid_comp v6 c = true.
Proof.
  intros v6 c H L. destruct c as [t m off addr|t ops]; cbn [rt_ok addr_len valid_comp] in *.
  - repeat (apply andb_true_iff in H; destruct H as [H ?]).
    repeat match goal with
           | H : (_ <=? _) = true |- _ => apply Z.leb_le in H
           | H : (_ =? _) = true |- _ => apply Z.eqb_eq in H end.
    subst off. unfold llen in L.
    destruct v6; repeat (apply andb_true_iff; split); try (apply Z.leb_le; lia); try (apply Z.eqb_eq; lia).
  - repeat (apply andb_true_iff in H; destruct H as [H ?]). assumption.
Qed.

(* a rule whose lines are legal and whose body fits 4095 octets is encoded, with the RFC length header *)
Lemma encodable : forall v6 r,
  forallb (rt_ok v6) (m_comps r) = true -> forallb (addr_len v6) (m_comps r) = true ->
  llen (enc_body v6 r) <= 4095 ->
  exists h, ref_length (llen (enc_body v6 r)) = Some h /\ enc_flow v6 r = Some (h ++ enc_body v6 r).
Proof.
  intros v6 r H L Hn. unfold enc_flow.
  assert (V : valid_rule v6 r = true).
  { unfold valid_rule. apply forallb_forall. intros c Hc.
    pose proof (canon_rt_ok v6 _ H) as H'. pose proof (canon_addr_len v6 _ L) as L'.
    rewrite forallb_forall in H', L'. apply rt_ok_valid; [apply H'|apply L']; exact Hc. }
  rewrite V. rewrite enc_len_full. unfold llen in *. unfold ref_length.
  destruct (Z.of_nat (length (enc_body v6 r)) <? 240); [eexists; split; reflexivity|].
  replace (Z.of_nat (length (enc_body v6 r)) <? 4096) with true by (symmetry; apply Z.ltb_lt; lia).
  eexists; split; reflexivity.
Qed.

(* ---------------------------------------------------------------- no two meanings share an encoding *)

Lemma encoding_injective : forall v6 r1 r2 b,
  forallb (rt_ok v6) (m_comps r1) = true -> one_prefix_per_type (m_comps r1) ->
  forallb (rt_ok v6) (m_comps r2) = true -> one_prefix_per_type (m_comps r2) ->
  (m_rd r1 = [] \/ length (m_rd r1) = 8%nat) -> (m_rd r2 = [] \/ length (m_rd r2) = 8%nat) ->
  (m_rd r1 = [] <-> m_rd r2 = []) ->
  enc_flow v6 r1 = Some b -> enc_flow v6 r2 = Some b ->
  normal v6 r1 = normal v6 r2.
Proof.
  intros v6 r1 r2 b A1 B1 A2 B2 R1 R2 Hrd E1 E2.
  pose proof (roundtrip_written v6 r1 b A1 B1 R1 E1) as P1.
  pose proof (roundtrip_written v6 r2 b A2 B2 R2 E2) as P2.
  assert (F : negb (match m_rd r1 with [] => true | _ => false end) = negb (match m_rd r2 with [] => true | _ => false end)).
  { destruct (m_rd r1) as [|x l1] eqn:X1; destruct (m_rd r2) as [|y l2] eqn:X2; try reflexivity.
    - destruct Hrd as [Hrd _]. specialize (Hrd eq_refl). discriminate.
    - destruct Hrd as [_ Hrd]. specialize (Hrd eq_refl). discriminate. }
  rewrite F in P1. congruence.
Qed.

(* ---------------------------------------------------------------- ExaBGP reads its own bytes back *)

(* what the decoder keeps of a written component: a prefix is cut to the octets that were sent *)
Definition sent_comp (c : mcomp) : mcomp :=
  match c with MPfx t m off a => MPfx t m off (ltake (size m) a) | MOps t l => MOps t l end.

(* validity without any RFC restriction on IPv6 offsets or on repeated prefixes *)
Definition self_ok (v6 : bool) (c : mcomp) : bool :=
  match c with
  | MPfx t m off addr =>
    (kind v6 t =? 1) && (0 <=? m) && (m <=? (if v6 then 128 else 32)) && (size m <=? llen addr) &&
    (if v6 then (0 <=? off) && (off <? 256) else off =? 0)
  | MOps t ops =>
    negb (kind v6 t =? 0) && negb (kind v6 t =? 1) && negb (match ops with [] => true | _ => false end) &&
    forallb (valid_op (maxw v6 t)) ops
  end.

Lemma parse_comps_enc : forall cs v6 fuel, forallb (self_ok v6) cs = true -> (length cs <= fuel)%nat ->
  parse_comps fuel v6 (flat_map (enc_comp v6) cs) = Some (map sent_comp cs).
Proof.
  induction cs as [|c cs IH]; intros v6 fuel H Hf; [destruct fuel; reflexivity|].
  cbn [forallb] in H. apply andb_true_iff in H. destruct H as [Hc H].
  destruct fuel as [|f]; [cbn in Hf; lia|]. cbn [length] in Hf. cbn [flat_map map].
  destruct c as [t m off addr|t ops]; cbn [self_ok] in Hc.
  - repeat (apply andb_true_iff in Hc; destruct Hc as [Hc ?]).
    repeat match goal with H : (_ <=? _) = true |- _ => apply Z.leb_le in H end.
    match goal with H : (kind v6 t =? 1) = true |- _ => rename H into K1 end.
    assert (K0 : (kind v6 t =? 0) = false) by (apply Z.eqb_eq in K1; rewrite K1; reflexivity).
    assert (Hm128 : m <= 128) by (destruct v6; lia).
    destruct (size_eq m ltac:(lia)) as [Hs Hs0].
    assert (Hfl := firstn_len_size m addr ltac:(lia)).
    assert (Hsk : forall rest, skipn (Z.to_nat (size m)) (firstn (Z.to_nat (size m)) addr ++ rest) = rest).
    { intros rest. rewrite skipn_app. rewrite skipn_all2 by (rewrite firstn_length; lia).
      cbn [app]. replace (Z.to_nat (size m) - length (firstn (Z.to_nat (size m)) addr))%nat with 0%nat by lia. reflexivity. }
    assert (Hfi : forall rest, firstn (Z.to_nat (size m)) (firstn (Z.to_nat (size m)) addr ++ rest) = firstn (Z.to_nat (size m)) addr).
    { intros rest. rewrite firstn_app. rewrite firstn_firstn, Nat.min_id.
      replace (Z.to_nat (size m) - length (firstn (Z.to_nat (size m)) addr))%nat with 0%nat by lia.
      cbn [firstn]. apply app_nil_r. }
    destruct v6; cbn [enc_comp app parse_comps]; rewrite K0, K1.
    + match goal with H : _ && _ = true |- _ => apply andb_true_iff in H; destruct H as [O1 O2] end.
      unfold parse_prefix.
      replace (128 <? m) with false by (symmetry; apply Z.ltb_ge; lia).
      replace (llen (firstn (Z.to_nat (size m)) addr ++ flat_map (enc_comp true) cs) + 1 <? size m + 1) with false
        by (symmetry; apply Z.ltb_ge; unfold llen; rewrite app_length; lia).
      unfold ltake, ldrop. rewrite Hsk, Hfi. rewrite IH by (auto; lia). reflexivity.
    + match goal with H : (off =? 0) = true |- _ => apply Z.eqb_eq in H; subst off end.
      unfold parse_prefix.
      replace (32 <? m) with false by (symmetry; apply Z.ltb_ge; lia).
      replace (llen (m :: firstn (Z.to_nat (size m)) addr ++ flat_map (enc_comp false) cs) <? size m + 1) with false
        by (symmetry; apply Z.ltb_ge; unfold llen; cbn [length]; rewrite app_length; lia).
      unfold ltake, ldrop. rewrite Hsk, Hfi. rewrite IH by (auto; lia). reflexivity.
  - repeat (apply andb_true_iff in Hc; destruct Hc as [Hc ?]).
    assert (Hne : ops <> []) by (destruct ops; [discriminate|congruence]).
    cbn [enc_comp app parse_comps].
    match goal with H : negb (kind v6 t =? 1) = true |- _ => apply negb_true_iff in H; rewrite H end.
    apply negb_true_iff in Hc. rewrite Hc.
    rewrite ops_agree. rewrite ref_ops_enc; auto.
    + rewrite IH by (auto; lia). reflexivity.
    + rewrite app_length. pose proof (enc_ops_length (maxw v6 t) ops). lia.
Qed.

Lemma split_app_len : forall (a b : list Z) k, length a = k -> firstn k (a ++ b) = a /\ skipn k (a ++ b) = b.
Proof.
  intros a b k <-. split.
  - rewrite firstn_app, Nat.sub_diag, firstn_all, firstn_O. apply app_nil_r.
  - rewrite skipn_app, Nat.sub_diag, skipn_all. reflexivity.
Qed.

Lemma dec_body_enc : forall v6 r,
  forallb (self_ok v6) (canon v6 (m_comps r)) = true ->
  (m_rd r = [] \/ length (m_rd r) = 8%nat) ->
  dec_body v6 (negb (match m_rd r with [] => true | _ => false end)) (llen (enc_body v6 r)) (enc_body v6 r) =
  DOk (mkMRule (m_rd r) (map sent_comp (canon v6 (m_comps r)))) [].
Proof.
  intros v6 r H Hrd. unfold dec_body.
  replace (llen (enc_body v6 r) <? llen (enc_body v6 r)) with false by (symmetry; apply Z.ltb_ge; lia).
  assert (T : ltake (llen (enc_body v6 r)) (enc_body v6 r) = enc_body v6 r)
    by (unfold ltake, llen; rewrite Nat2Z.id; apply firstn_all).
  assert (D : ldrop (llen (enc_body v6 r)) (enc_body v6 r) = [])
    by (unfold ldrop, llen; rewrite Nat2Z.id; apply skipn_all).
  rewrite T, D. unfold enc_body, RD_LEN.
  pose proof (flat_enc_length v6 (canon v6 (m_comps r))) as Hfl.
  destruct Hrd as [Hr|Hr].
  - rewrite Hr. cbn [negb andb app]. rewrite parse_comps_enc by (auto; lia). reflexivity.
  - destruct (m_rd r) as [|x rd'] eqn:Erd; [discriminate|]. cbn [negb andb].
    replace (8 <=? llen ((x :: rd') ++ flat_map (enc_comp v6) (canon v6 (m_comps r)))) with true
      by (symmetry; apply Z.leb_le; unfold llen; rewrite app_length, Hr; lia).
    assert (T8 : ltake 8 ((x :: rd') ++ flat_map (enc_comp v6) (canon v6 (m_comps r))) = x :: rd')
      by (unfold ltake; change (Z.to_nat 8) with 8%nat; rewrite <- Hr; apply (proj1 (split_app_len _ _ _ eq_refl))).
    assert (D8 : ldrop 8 ((x :: rd') ++ flat_map (enc_comp v6) (canon v6 (m_comps r))) = flat_map (enc_comp v6) (canon v6 (m_comps r)))
      by (unfold ldrop; change (Z.to_nat 8) with 8%nat; rewrite <- Hr; apply (proj2 (split_app_len _ _ _ eq_refl))).
    rewrite T8, D8. rewrite parse_comps_enc by (auto; lia). reflexivity.
Qed.

(* ExaBGP's own round trip, for EVERY rule it encodes - IPv6 offsets and repeated prefix keywords
   included: its decoder gives back the grouped rule (prefixes cut to the octets sent), nothing left *)
Lemma self_roundtrip : forall v6 r b,
  forallb (self_ok v6) (canon v6 (m_comps r)) = true ->
  (m_rd r = [] \/ length (m_rd r) = 8%nat) ->
  enc_flow v6 r = Some b ->
  dec_flow v6 (negb (match m_rd r with [] => true | _ => false end)) b =
  DOk (mkMRule (m_rd r) (map sent_comp (canon v6 (m_comps r)))) [].
Proof.
  intros v6 r b H Hrd He. pose proof (dec_body_enc v6 r H Hrd) as DB.
  unfold enc_flow in He. destruct (valid_rule v6 r); [|discriminate].
  unfold enc_len in He. rewrite len_compact_spec in He.
  set (body := enc_body v6 r) in *. unfold llen in DB.
  set (n := Z.of_nat (length body)) in *. assert (0 <= n) by (subst n; lia).
  destruct (n <? 240) eqn:E1.
  - apply Z.ltb_lt in E1. assert (b = n :: body) by congruence. subst b.
    rewrite dec_flow_unfold by lia. replace (n <? 240) with true by (symmetry; apply Z.ltb_lt; lia). exact DB.
  - apply Z.ltb_ge in E1. destruct (len_extended n) eqn:E2; [|discriminate].
    apply (proj1 (len_extended_spec _)) in E2. unfold LEN_EXT_VALUE in He.
    assert (b = (240 + n / 256) :: n mod 256 :: body) by congruence. subst b.
    rewrite dec_flow_unfold by (Z.div_mod_to_equations; lia).
    replace (240 + n / 256 <? 240) with false by (symmetry; apply Z.ltb_ge; Z.div_mod_to_equations; lia).
    replace ((240 + n / 256 - 240) * 256 + n mod 256) with n by (Z.div_mod_to_equations; lia).
    exact DB.
Qed.

(* the rule with an IPv6 offset that the RFC reading gets wrong is read back correctly by ExaBGP itself *)
Lemma self_roundtrip_offset_example :
  forallb (self_ok true) (canon true (m_comps rule_off)) = true /\
  exists b, enc_flow true rule_off = Some b /\ dec_flow true false b = DOk (mkMRule [] [MPfx 1 8 1 [165]]) [].
Proof. split; [reflexivity|]. eexists; split; vm_compute; reflexivity. Qed.
