(* C01 - lemmas: the reference decoder of Spec_Update reads back what Model_Attr / Model_Encode write. *)
From Coq Require Import ZArith List Bool Lia Arith Permutation Sorted.
From ExaV Require Import lib.ListX gen.Gen_NlriRegistry model.Model_Nlri proofs.Proofs_Nlri model.Model_Attr
  model.Model_Encode spec.Spec_Nlri spec.Spec_Update.
Import ListNotations.
Open Scope Z_scope.

(* ------------------------------------------------------------------ octets *)

Lemma len_zlen l : len l = zlen l. Proof. reflexivity. Qed.

Lemma num_acc : forall b x, fold_left (fun a c => a * 256 + c) b x = x * 256 ^ zlen b + num b.
Proof.
  induction b as [|c b IH]; intro x.
  - cbn. lia.
  - unfold num. cbn [fold_left]. rewrite IH, (IH (0 * 256 + c)). rewrite zlen_cons.
    rewrite Z.pow_add_r by (pose proof (zlen_nonneg b); lia). lia.
Qed.

Lemma num_app a b : num (a ++ b) = num a * 256 ^ zlen b + num b.
Proof. unfold num at 1. rewrite fold_left_app. apply num_acc. Qed.

Lemma be16_num v : 0 <= v < 65536 -> num (be16 v) = v.
Proof.
  intro H. unfold num, be16. cbn [fold_left].
  pose proof (Z.rem_mul_r v 256 256 ltac:(lia) ltac:(lia)) as E. change (256 * 256) with 65536 in E.
  rewrite (Z.mod_small v 65536) in E by lia. lia.
Qed.

Lemma be32_num v : 0 <= v < 4294967296 -> num (be32 v) = v.
Proof.
  intro H. unfold num, be32. cbn [fold_left].
  pose proof (Z.rem_mul_r v 256 256 ltac:(lia) ltac:(lia)) as E1. change (256 * 256) with 65536 in E1.
  pose proof (Z.rem_mul_r v 65536 256 ltac:(lia) ltac:(lia)) as E2. change (65536 * 256) with 16777216 in E2.
  pose proof (Z.rem_mul_r v 16777216 256 ltac:(lia) ltac:(lia)) as E3. change (16777216 * 256) with 4294967296 in E3.
  rewrite (Z.mod_small v 4294967296) in E3 by lia. lia.
Qed.

Lemma be16_len v : length (be16 v) = 2%nat. Proof. reflexivity. Qed.
Lemma be32_len v : length (be32 v) = 4%nat. Proof. reflexivity. Qed.
Lemma be64_len v : length (be64 v) = 8%nat. Proof. reflexivity. Qed.
Lemma be96_len v : length (be96 v) = 12%nat. Proof. reflexivity. Qed.

Lemma be64_num v : 0 <= v < 18446744073709551616 -> num (be64 v) = v.
Proof.
  intro H. unfold be64. rewrite num_app. change (256 ^ zlen (be32 (v mod 4294967296))) with 4294967296.
  rewrite !be32_num.
  - pose proof (Z.div_mod v 4294967296 ltac:(lia)). lia.
  - apply Z.mod_pos_bound; lia.
  - split; [apply Z.div_pos; lia | apply Z.div_lt_upper_bound; lia].
Qed.

Lemma be96_num v : 0 <= v < 79228162514264337593543950336 -> num (be96 v) = v.
Proof.
  intro H. unfold be96. rewrite num_app. change (256 ^ zlen (be64 (v mod 18446744073709551616))) with 18446744073709551616.
  rewrite be32_num, be64_num.
  - pose proof (Z.div_mod v 18446744073709551616 ltac:(lia)). lia.
  - apply Z.mod_pos_bound; lia.
  - split; [apply Z.div_pos; lia | apply Z.div_lt_upper_bound; lia].
Qed.

Lemma byte_mod v : byte (v mod 256). Proof. unfold byte. apply Z.mod_pos_bound. lia. Qed.
Lemma be16_wfb v : wfb (be16 v). Proof. repeat constructor; apply byte_mod. Qed.
Lemma be32_wfb v : wfb (be32 v). Proof. repeat constructor; apply byte_mod. Qed.

(* ------------------------------------------------------------------ fields *)

Lemma field_app k x rest : zlen x = k -> field k (x ++ rest) = Some (x, rest).
Proof.
  intro H. unfold field, take, drop, len. fold (zlen (x ++ rest)). rewrite zlen_app.
  pose proof (zlen_nonneg rest).
  destruct (zlen x + zlen rest <? k) eqn:E; [lia|].
  assert (Z.to_nat k = length x) by (unfold zlen in H; lia).
  rewrite firstn_app_exact, skipn_app_exact by assumption. reflexivity.
Qed.

Lemma field_exact k x : zlen x = k -> field k x = Some (x, []).
Proof. intro H. rewrite <- (app_nil_r x) at 1. apply field_app. exact H. Qed.

(* chunks: a list of fixed-width numbers *)
Lemma chunks_flat (w : Z) (enc : Z -> list Z) (ok : Z -> Prop) :
  0 < w -> (forall v, zlen (enc v) = w) -> (forall v, ok v -> num (enc v) = v) ->
  forall l fuel, Forall ok l -> (length (flat_map enc l) <= fuel)%nat -> chunks fuel w (flat_map enc l) = Some l.
Proof.
  intros Hw Hl Hn. induction l as [|v l IH]; intros fuel Hok Hf.
  - destruct fuel; reflexivity.
  - inversion Hok as [|? ? Hv Hok']; subst.
    cbn [flat_map] in *.
    assert (Hne : exists a t, enc v ++ flat_map enc l = a :: t).
    { destruct (enc v) as [|a t] eqn:E; [specialize (Hl v); rewrite E in Hl; cbn in Hl; lia|]. cbn [app]. eauto. }
    destruct Hne as [a [t Hat]].
    assert (Hlen : (0 < length (enc v))%nat).
    { specialize (Hl v). unfold zlen in Hl. lia. }
    destruct fuel as [|f]; [rewrite app_length in Hf; lia|].
    cbn [chunks]. rewrite Hat. rewrite <- Hat.
    rewrite field_app by apply Hl. rewrite IH; [rewrite Hn by assumption; reflexivity | assumption |].
    rewrite app_length in Hf. lia.
Qed.
(* ------------------------------------------------------------------ attribute TLVs *)

Definition tl := (Z * Z * list Z)%type.     (* flag, code, value as handed to tlv_raw *)
Definition eff_flag (flag : Z) (v : list Z) : Z := if 255 <? zlen v then set_bit flag 16 else flag.
Definition emit (t : tl) : list Z := match t with (f, c, v) => tlv_raw f c v end.
Definition seen (t : tl) : tlv := match t with (f, c, v) => (eff_flag f v, c, v) end.
Definition tl_ok (t : tl) : Prop := match t with (f, c, v) => zlen v < 65536 end.

Lemma emit_length t : (3 <= length (emit t))%nat.
Proof.
  destruct t as [[f c] v]. unfold emit, tlv_raw.
  destruct (has_bit _ 16); unfold be16; cbn [length app]. all: lia.
Qed.

Lemma tlvs_emit : forall ts rest tr,
  Forall tl_ok ts ->
  (forall fuel, (length rest <= fuel)%nat -> tlvs fuel rest = Some tr) ->
  forall fuel, (length (flat_map emit ts ++ rest) <= fuel)%nat ->
  tlvs fuel (flat_map emit ts ++ rest) = Some (map seen ts ++ tr).
Proof.
  induction ts as [|t ts IH]; intros rest tr Hok Hrest fuel Hf.
  - cbn [flat_map app map]. apply Hrest. exact Hf.
  - inversion Hok as [|? ? Ht Hok']; subst.
    pose proof (emit_length t) as L3.
    cbn [flat_map map]. cbn [flat_map] in Hf. rewrite <- app_assoc. rewrite <- app_assoc in Hf.
    destruct fuel as [|f]; [rewrite !app_length in Hf; lia|].
    rewrite app_length in Hf.
    destruct t as [[fl c] v]. cbn [emit]. unfold tlv_raw. fold (eff_flag fl v).
    cbn [seen]. unfold tl_ok in Ht. pose proof (zlen_nonneg v) as Hv0.
    assert (Hrec : tlvs f (flat_map emit ts ++ rest) = Some (map seen ts ++ tr)).
    { apply IH; try assumption. lia. }
    unfold has_bit in *.
    destruct ((eff_flag fl v / 16) mod 2 =? 1) eqn:E.
    + cbn [app tlvs]. rewrite E.
      rewrite <- app_assoc. rewrite (field_app 2 (be16 (zlen v))) by reflexivity.
      rewrite be16_num by lia. rewrite field_app by reflexivity. rewrite Hrec. reflexivity.
    + assert (Hs : zlen v <= 255).
      { unfold eff_flag in E. destruct (255 <? zlen v) eqn:E2; [|lia].
        unfold set_bit, has_bit in E. destruct ((fl / 16) mod 2 =? 1) eqn:E3; [congruence|].
        exfalso. clear - E E3.
        assert ((fl + 16) / 16 = fl / 16 + 1) by (replace (fl + 16) with (fl + 1 * 16) by lia; apply Z.div_add; lia).
        rewrite H in E. pose proof (Z.mod_pos_bound (fl / 16) 2 ltac:(lia)).
        replace (fl / 16 + 1) with (1 + fl / 16) in E by lia.
        rewrite <- Zplus_mod_idemp_r in E.
        assert ((fl / 16) mod 2 = 0) by lia. rewrite H1 in E. cbn in E. congruence. }
      cbn [app tlvs]. rewrite E.
      change (zlen v :: v ++ flat_map emit ts ++ rest) with ([zlen v] ++ (v ++ flat_map emit ts ++ rest)).
      rewrite (field_app 1 [zlen v]) by reflexivity.
      replace (num [zlen v]) with (zlen v) by (cbn; lia).
      rewrite field_app by reflexivity. rewrite Hrec. reflexivity.
Qed.

Lemma tlvs_nil : forall fuel, (length (@nil Z) <= fuel)%nat -> tlvs fuel [] = Some [].
Proof. intros [|f] _; reflexivity. Qed.

(* the TLVs an item is sent as (Attribute._attribute drops an empty optional attribute) *)
Definition opt_tl (f c : Z) (v : list Z) : list tl := if has_bit f 128 && is_nil v then [] else [(f, c, v)].

Lemma attr_tlv_tl f c v : attr_tlv f c v = flat_map emit (opt_tl f c v).
Proof. unfold attr_tlv, opt_tl. destruct (has_bit f 128 && is_nil v); cbn [flat_map emit]; [reflexivity | now rewrite app_nil_r]. Qed.

Definition stored_path (segs : list (Z * list Z)) := path_segments segs.
Definition trans_path (p : list (Z * list Z)) := map (fun sg => (fst sg, map trans (snd sg))) p.

Definition item_tls (s : sess) (i : item) : list tl :=
  match i with
  | IOrigin v => opt_tl 64 1 [v]
  | IAsPath segs =>
    if s_asn4 s then opt_tl 64 2 (pack_segs true (stored_path segs))
    else opt_tl 64 2 (pack_segs false (trans_path (stored_path segs)))
         ++ (if has_large (stored_path segs) then opt_tl 192 17 (pack_segs true (stored_path segs)) else [])
  | INextHop ip => opt_tl 64 3 ip
  | IMed v => opt_tl 128 4 (be32 v)
  | ILocalPref v => opt_tl 64 5 (be32 v)
  | IAtomic => opt_tl 64 6 []
  | IAggregator asn ip =>
    if s_asn4 s then opt_tl 192 7 (be32 asn ++ ip)
    else if 65535 <? asn then opt_tl 192 7 (be16 AS_TRANS ++ ip) ++ opt_tl 192 18 (be32 asn ++ ip)
    else opt_tl 192 7 (be16 asn ++ ip)
  | ICommunity vs => opt_tl 192 8 (flat_map be32 (csort vs))
  | IOriginator ip => opt_tl 128 9 ip
  | ICluster ids => opt_tl 128 10 (flat_map be32 ids)
  | IExtended vs => opt_tl 192 16 (flat_map be64 (csort vs))
  | ILarge vs => opt_tl 192 32 (flat_map be96 (csort_nodup vs))
  | IGeneric c f d => [(f, c, d)]
  end.

Lemma pack_item_tls s i : pack_item s i = flat_map emit (item_tls s i).
Proof.
  destruct i; cbn [pack_item item_tls]; try apply attr_tlv_tl.
  - unfold pack_aspath, stored_path, trans_path. destruct (s_asn4 s); [apply attr_tlv_tl|].
    rewrite flat_map_app, <- attr_tlv_tl. destruct (has_large _); [rewrite <- attr_tlv_tl | cbn [flat_map]]; reflexivity.
  - unfold pack_aggregator. destruct (s_asn4 s); [apply attr_tlv_tl|].
    destruct (65535 <? asn); [|apply attr_tlv_tl]. rewrite flat_map_app, <- !attr_tlv_tl. reflexivity.
  - cbn [flat_map emit]. now rewrite app_nil_r.
Qed.

Lemma pack_items_tls s l : flat_map (pack_item s) l = flat_map emit (flat_map (item_tls s) l).
Proof.
  induction l as [|i l IH]; cbn [flat_map]; [reflexivity|]. rewrite flat_map_app, <- pack_item_tls, IH. reflexivity.
Qed.

Lemma mp_header_tl code payload : mp_header code (zlen payload) ++ payload = emit (128, code, payload).
Proof.
  unfold mp_header, emit, tlv_raw, set_bit, has_bit.
  destruct (255 <? zlen payload); cbn; reflexivity.
Qed.
(* ------------------------------------------------------------------ values *)

Lemma flat_map_zlen (enc : Z -> list Z) w : (forall v, zlen (enc v) = w) -> forall l, zlen (flat_map enc l) = w * zlen l.
Proof.
  intros H l. induction l as [|v l IH]; cbn [flat_map]; [rewrite !zlen_nil; lia|].
  rewrite zlen_app, zlen_cons, H, IH. lia.
Qed.

Lemma flat_map_nil_iff (enc : Z -> list Z) : (forall v, enc v <> []) -> forall l, is_nil (flat_map enc l) = is_nil l.
Proof.
  intros H [|v l]; [reflexivity|]. cbn [flat_map is_nil]. specialize (H v). destruct (enc v); [congruence | reflexivity].
Qed.

(* sorted insertion keeps elements *)
Lemma ins_Forall (P : Z -> Prop) x l : P x -> Forall P l -> Forall P (ins x l).
Proof.
  intros Hx Hl. induction Hl as [|y l Hy Hl IH]; cbn [ins]; [repeat constructor; assumption|].
  destruct (x <? y); repeat constructor; assumption.
Qed.
Lemma ins_length x l : length (ins x l) = S (length l).
Proof. induction l as [|y l IH]; cbn [ins length]; [reflexivity|]. destruct (x <? y); cbn [length]; lia. Qed.
Lemma ins_In x l y : In y (ins x l) <-> y = x \/ In y l.
Proof.
  induction l as [|z l IH]; cbn [ins In]; [intuition|].
  destruct (x <? z); cbn [In]; rewrite ?IH; intuition.
Qed.

Lemma csort_gen (P : Z -> Prop) : forall l acc, Forall P l -> Forall P acc ->
  Forall P (fold_left (fun a x => ins x a) l acc).
Proof. induction l as [|x l IH]; intros acc Hl Ha; cbn [fold_left]; [assumption|]. inversion Hl; subst. apply IH; [assumption|]. apply ins_Forall; assumption. Qed.
Lemma csort_Forall (P : Z -> Prop) l : Forall P l -> Forall P (csort l).
Proof. intro H. apply csort_gen; [assumption | constructor]. Qed.
Lemma csort_len_gen : forall l acc, length (fold_left (fun a x => ins x a) l acc) = (length l + length acc)%nat.
Proof. induction l as [|x l IH]; intro acc; cbn [fold_left length]; [reflexivity|]. rewrite IH, ins_length. lia. Qed.
Lemma csort_length l : length (csort l) = length l.
Proof. unfold csort. rewrite csort_len_gen. cbn [length]. lia. Qed.
Lemma csort_In_gen : forall l acc y, In y (fold_left (fun a x => ins x a) l acc) <-> In y l \/ In y acc.
Proof.
  induction l as [|x l IH]; intros acc y; cbn [fold_left In]; [intuition|].
  rewrite IH, ins_In. intuition.
Qed.
Lemma csort_In l y : In y (csort l) <-> In y l.
Proof. unfold csort. rewrite csort_In_gen. cbn [In]. intuition. Qed.

Definition nd_step (acc : list Z) (x : Z) : list Z := if existsb (Z.eqb x) acc then acc else ins x acc.
Lemma nodup_gen (P : Z -> Prop) : forall l acc, Forall P l -> Forall P acc -> Forall P (fold_left nd_step l acc).
Proof.
  induction l as [|x l IH]; intros acc Hl Ha; cbn [fold_left]; [assumption|]. inversion Hl; subst. apply IH; [assumption|].
  unfold nd_step. destruct (existsb _ acc); [assumption | apply ins_Forall; assumption].
Qed.
Lemma csort_nodup_Forall (P : Z -> Prop) l : Forall P l -> Forall P (csort_nodup l).
Proof. intro H. apply (nodup_gen P l []); [assumption | constructor]. Qed.
Lemma nodup_len_gen : forall l acc, (length (fold_left nd_step l acc) <= length l + length acc)%nat.
Proof.
  induction l as [|x l IH]; intro acc; cbn [fold_left length]; [lia|].
  specialize (IH (nd_step acc x)). unfold nd_step in *. destruct (existsb _ acc); [lia | rewrite ins_length in IH; lia].
Qed.
Lemma csort_nodup_length l : (length (csort_nodup l) <= length l)%nat.
Proof. pose proof (nodup_len_gen l []) as H. cbn [length] in H. unfold csort_nodup. fold nd_step. lia. Qed.
Lemma nodup_In_gen : forall l acc y, In y (fold_left nd_step l acc) <-> In y l \/ In y acc.
Proof.
  induction l as [|x l IH]; intros acc y; cbn [fold_left In]; [intuition|].
  rewrite IH. unfold nd_step. destruct (existsb (Z.eqb x) acc) eqn:E.
  - apply existsb_exists in E. destruct E as [z [Hz Ez]]. apply Z.eqb_eq in Ez. subst z. intuition. subst. auto.
  - rewrite ins_In. intuition.
Qed.
Lemma csort_nodup_In l y : In y (csort_nodup l) <-> In y l.
Proof. unfold csort_nodup. fold nd_step. rewrite nodup_In_gen. cbn [In]. intuition. Qed.

(* AS_PATH segments *)
Definition asn_ok (v : Z) : Prop := 0 <= v < 4294967296.
Definition seg_ok (lim : Z) (sg : Z * list Z) : Prop :=
  1 <= fst sg <= 4 /\ 1 <= zlen (snd sg) <= 255 /\ Forall (fun v => 0 <= v < lim) (snd sg).
Definition width (asn4 : bool) : Z := if asn4 then 4 else 2.
Definition alim (asn4 : bool) : Z := if asn4 then 4294967296 else 65536.

Lemma pack_asn_len asn4 v : zlen (pack_asn asn4 v) = width asn4.
Proof. destruct asn4; reflexivity. Qed.
Lemma pack_asn_num asn4 v : 0 <= v < alim asn4 -> num (pack_asn asn4 v) = v.
Proof. destruct asn4; cbn [pack_asn alim]; [apply be32_num | apply be16_num]. Qed.

Lemma segments_pack asn4 : forall p rest tr,
  Forall (seg_ok (alim asn4)) p ->
  (forall fuel, (length rest <= fuel)%nat -> segments fuel (width asn4) rest = Some tr) ->
  forall fuel, (length (pack_segs asn4 p ++ rest) <= fuel)%nat ->
  segments fuel (width asn4) (pack_segs asn4 p ++ rest) = Some (p ++ tr).
Proof.
  induction p as [|sg p IH]; intros rest tr Hok Hrest fuel Hf.
  - cbn [pack_segs flat_map app]. apply Hrest. exact Hf.
  - inversion Hok as [|? ? Hsg Hok']; subst. destruct sg as [ty asns]. destruct Hsg as [Hty [Hn Ha]]. cbn [fst snd] in *.
    unfold pack_segs in *. cbn [flat_map] in *. fold (pack_segs asn4 p) in *. rewrite <- app_assoc in *.
    unfold pack_seg in *. cbn [fst snd app] in *.
    destruct fuel as [|f]; [cbn [length] in Hf; lia|].
    cbn [segments].
    destruct ((ty <? 1) || (4 <? ty)) eqn:E; [lia|].
    assert (Hw : 0 < width asn4) by (destruct asn4; cbn; lia).
    rewrite field_app by (rewrite (flat_map_zlen _ (width asn4)) by apply pack_asn_len; lia).
    rewrite (chunks_flat (width asn4) (pack_asn asn4) (fun v => 0 <= v < alim asn4)); try assumption;
      [| apply pack_asn_len | apply pack_asn_num | lia].
    rewrite (IH rest tr); try assumption; [reflexivity|].
    cbn [length] in Hf. rewrite app_length in Hf. lia.
Qed.

Lemma segments_nil w : forall fuel, (length (@nil Z) <= fuel)%nat -> segments fuel w [] = Some [].
Proof. intros [|f] _; reflexivity. Qed.

Lemma segments_exact asn4 p fuel :
  Forall (seg_ok (alim asn4)) p -> (length (pack_segs asn4 p) <= fuel)%nat ->
  segments fuel (width asn4) (pack_segs asn4 p) = Some p.
Proof.
  intros Hok Hf. pose proof (segments_pack asn4 p [] [] Hok (segments_nil _) fuel) as H.
  rewrite !app_nil_r in H. apply H. exact Hf.
Qed.

(* the 255-ASN split leaves a 1..255 segment alone *)
Lemma seg_split_small a : (0 < length a <= 255)%nat -> seg_split (length a) a = [a].
Proof.
  intro H. destruct a as [|x a]; [cbn in H; lia|]. cbn [length seg_split].
  destruct (255 <? S (length a))%nat eqn:E; [apply Nat.ltb_lt in E; cbn [length] in H; lia | reflexivity].
Qed.

Lemma path_segments_id lim p : Forall (seg_ok lim) p -> path_segments p = p.
Proof.
  induction 1 as [|sg p Hsg Hp IH]; [reflexivity|]. unfold path_segments in *. cbn [flat_map]. rewrite IH.
  destruct sg as [ty a]. destruct Hsg as [_ [Hn _]]. cbn [fst snd] in *.
  rewrite seg_split_small by (unfold zlen in Hn; lia). reflexivity.
Qed.

(* ASPath._segment in general: ceil(n / 255) chunks of 1..255 ASNs whose concatenation is the segment *)
Lemma seg_split_spec : forall fuel a, (length a <= fuel)%nat ->
  concat (seg_split fuel a) = a
  /\ Forall (fun c => (1 <= length c <= 255)%nat) (seg_split fuel a)
  /\ length (seg_split fuel a) = ((length a + 254) / 255)%nat.
Proof.
  induction fuel as [|f IH]; intros a Hf.
  - destruct a; [|cbn [length] in Hf; lia]. repeat split; constructor.
  - cbn [seg_split]. destruct a as [|x a']; [repeat split; constructor|].
    set (a := x :: a') in *.
    destruct (255 <? length a)%nat eqn:E.
    + apply Nat.ltb_lt in E.
      assert (Hs : (length (skipn 255 a) <= f)%nat) by (rewrite skipn_length; lia).
      destruct (IH (skipn 255 a) Hs) as [C [F L]].
      cbn [concat length]. rewrite C, L, skipn_length. repeat split.
      * apply firstn_skipn.
      * constructor; [rewrite firstn_length; lia | exact F].
      * replace (length a + 254)%nat with ((length a - 255 + 254) + 1 * 255)%nat by lia.
        rewrite Nat.div_add by lia. lia.
    + apply Nat.ltb_ge in E. assert (1 <= length a)%nat by (subst a; cbn [length]; lia).
      cbn [concat length]. rewrite app_nil_r. split; [reflexivity|]. split.
      * constructor; [lia | constructor].
      * replace (length a + 254)%nat with ((length a - 1) + 1 * 255)%nat by lia.
        rewrite Nat.div_add by lia. rewrite Nat.div_small by lia. reflexivity.
Qed.

(* a requested segment: a known type and 4-byte ASNs; any number of them (also none) *)
Definition seg_in (sg : Z * list Z) : Prop := 1 <= fst sg <= 4 /\ Forall (fun v => 0 <= v < 4294967296) (snd sg).

Lemma path_segments_ok p : Forall seg_in p -> Forall (seg_ok 4294967296) (path_segments p).
Proof.
  induction 1 as [|sg p Hsg Hp IH]; [constructor|]. unfold path_segments in *. cbn [flat_map].
  apply Forall_app. split; [|exact IH].
  destruct sg as [ty a]. destruct Hsg as [Hty Ha]. cbn [fst snd] in *.
  destruct (seg_split_spec (length a) a (le_n _)) as [C [F _]].
  apply Forall_forall. intros sg Hin. apply in_map_iff in Hin. destruct Hin as [c [Ec Hc]]. subst sg.
  rewrite Forall_forall in F. specialize (F c Hc). unfold seg_ok. cbn [fst snd]. unfold zlen. repeat split; try lia.
  apply Forall_forall. intros v Hv. rewrite Forall_forall in Ha. apply Ha. rewrite <- C. apply in_concat. exists c. split; assumption.
Qed.

Lemma existsb_flat_map {A B} (f : B -> bool) (g : A -> list B) l : existsb f (flat_map g l) = existsb (fun x => existsb f (g x)) l.
Proof. induction l as [|x l IH]; [reflexivity|]. cbn [flat_map existsb]. rewrite existsb_app, IH. reflexivity. Qed.
Lemma existsb_concat {A} (f : A -> bool) l : existsb (existsb f) l = existsb f (concat l).
Proof. induction l as [|x l IH]; [reflexivity|]. cbn [concat existsb]. rewrite existsb_app, IH. reflexivity. Qed.
Lemma existsb_map {A B} (f : B -> bool) (g : A -> B) l : existsb f (map g l) = existsb (fun x => f (g x)) l.
Proof. induction l as [|x l IH]; [reflexivity|]. cbn [map existsb]. rewrite IH. reflexivity. Qed.

Lemma existsb_ext' {A} (f g : A -> bool) l : (forall x, f x = g x) -> existsb f l = existsb g l.
Proof. intro H. induction l as [|x l IH]; [reflexivity|]. cbn [existsb]. rewrite H, IH. reflexivity. Qed.

(* an ASN above 65535 is in the stored path iff it is in the requested one *)
Lemma has_large_split p : has_large (path_segments p) = has_large p.
Proof.
  unfold has_large, path_segments. rewrite existsb_flat_map. apply existsb_ext'. intros [ty a]. cbn [fst snd].
  rewrite existsb_map. cbn [snd]. rewrite existsb_concat.
  destruct (seg_split_spec (length a) a (le_n _)) as [C _]. rewrite C. reflexivity.
Qed.

(* the ASNs of the stored path, in order, are the requested ones *)
Lemma flat_snd_chunks (ty : Z) (l : list (list Z)) : flat_map snd (map (fun c => (ty, c)) l) = concat l.
Proof. induction l as [|c l IH]; [reflexivity|]. cbn [map flat_map snd concat]. rewrite IH. reflexivity. Qed.

Lemma path_segments_flat p : flat_map snd (path_segments p) = flat_map snd p.
Proof.
  unfold path_segments. induction p as [|[ty a] p IH]; [reflexivity|]. cbn [flat_map fst snd]. rewrite flat_map_app, IH.
  rewrite flat_snd_chunks. destruct (seg_split_spec (length a) a (le_n _)) as [C _]. rewrite C. reflexivity.
Qed.

Lemma trans_range v : 0 <= v < 4294967296 -> 0 <= trans v < 65536.
Proof. unfold trans, AS_TRANS. destruct (65535 <? v) eqn:E; lia. Qed.

Lemma trans_path_ok p : Forall (seg_ok 4294967296) p -> Forall (seg_ok 65536) (trans_path p).
Proof.
  induction 1 as [|sg p Hsg Hp IH]; [constructor|]. cbn [trans_path map]. constructor; [|exact IH].
  destruct sg as [ty a]. destruct Hsg as [Hty [Hn Ha]]. unfold seg_ok. cbn [fst snd] in *. repeat split; try lia.
  - unfold zlen. rewrite map_length. unfold zlen in Hn. lia.
  - unfold zlen. rewrite map_length. unfold zlen in Hn. lia.
  - apply Forall_forall. intros x Hx. apply in_map_iff in Hx. destruct Hx as [y [Ey Hy]]. subst x.
    apply trans_range. rewrite Forall_forall in Ha. apply Ha. exact Hy.
Qed.
(* ------------------------------------------------------------------ one attribute: interp (seen ...) *)

Definition rs_of (s : sess) (ext : Z -> Z -> bool) : rsess := mkRS (s_asn4 s) (s_ap s) ext.

Definition known_code (c : Z) : bool := existsb (Z.eqb c) [1;2;3;4;5;6;7;8;9;10;14;15;16;17;18;32].
Definition clear16 (x : Z) : Z := x - (if (x / 16) mod 2 =? 1 then 16 else 0).

Lemma interp_c1 rs fl v : interp rs (fl, 1, v) =
  if fl / 64 =? 1 then match v with [o] => if o <=? 2 then Some (RSem (SOrigin o)) else None | _ => None end else None.
Proof. reflexivity. Qed.
Lemma interp_c2 rs fl v : interp rs (fl, 2, v) =
  if fl / 64 =? 1 then opt_map (fun p => RSem (SAsPath p)) (segments (length v) (if rs_asn4 rs then 4 else 2) v) else None.
Proof. reflexivity. Qed.
Lemma interp_c3 rs fl v : interp rs (fl, 3, v) = if fl / 64 =? 1 then (if len v =? 4 then Some (RNextHop v) else None) else None.
Proof. reflexivity. Qed.
Lemma interp_c4 rs fl v : interp rs (fl, 4, v) = if fl / 64 =? 2 then (if len v =? 4 then Some (RSem (SMed (num v))) else None) else None.
Proof. reflexivity. Qed.
Lemma interp_c5 rs fl v : interp rs (fl, 5, v) = if fl / 64 =? 1 then (if len v =? 4 then Some (RSem (SLocalPref (num v))) else None) else None.
Proof. reflexivity. Qed.
Lemma interp_c6 rs fl v : interp rs (fl, 6, v) = if fl / 64 =? 1 then match v with [] => Some (RSem SAtomic) | _ => None end else None.
Proof. reflexivity. Qed.
Lemma interp_c7 rs fl v : interp rs (fl, 7, v) =
  if fl / 64 =? 3 then (let w := if rs_asn4 rs then 4 else 2 in
                        if len v =? w + 4 then Some (RSem (SAggregator (num (take w v)) (drop w v))) else None) else None.
Proof. reflexivity. Qed.
Lemma interp_c8 rs fl v : interp rs (fl, 8, v) = if fl / 64 =? 3 then opt_map (fun l => RSem (SCommunity l)) (chunks (length v) 4 v) else None.
Proof. reflexivity. Qed.
Lemma interp_c9 rs fl v : interp rs (fl, 9, v) = if fl / 64 =? 2 then (if len v =? 4 then Some (RSem (SOriginator v)) else None) else None.
Proof. reflexivity. Qed.
Lemma interp_c10 rs fl v : interp rs (fl, 10, v) = if fl / 64 =? 2 then opt_map (fun l => RSem (SCluster l)) (chunks (length v) 4 v) else None.
Proof. reflexivity. Qed.
Lemma interp_c16 rs fl v : interp rs (fl, 16, v) = if fl / 64 =? 3 then opt_map (fun l => RSem (SExtended l)) (chunks (length v) 8 v) else None.
Proof. reflexivity. Qed.
Lemma interp_c17 rs fl v : interp rs (fl, 17, v) = if fl / 64 =? 3 then opt_map RAs4Path (segments (length v) 4 v) else None.
Proof. reflexivity. Qed.
Lemma interp_c18 rs fl v : interp rs (fl, 18, v) =
  if fl / 64 =? 3 then (if len v =? 8 then Some (RAs4Aggregator (num (take 4 v)) (drop 4 v)) else None) else None.
Proof. reflexivity. Qed.
Lemma interp_c32 rs fl v : interp rs (fl, 32, v) = if fl / 64 =? 3 then opt_map (fun l => RSem (SLarge l)) (chunks (length v) 12 v) else None.
Proof. reflexivity. Qed.

Lemma interp_unknown rs fl c v : known_code c = false -> interp rs (fl, c, v) = Some (RSem (SOther (clear16 fl) c v)).
Proof.
  intro H. unfold known_code in H. cbn [existsb] in H.
  repeat (apply orb_false_elim in H; let E := fresh "E" in destruct H as [E H]).
  unfold interp. rewrite E, E0, E1, E2, E3, E4, E5, E6, E7, E8, E9, E10, E11, E12, E13, E14. reflexivity.
Qed.

Lemma eff64 v : eff_flag 64 v / 64 = 1. Proof. unfold eff_flag. destruct (255 <? zlen v); reflexivity. Qed.
Lemma eff128 v : eff_flag 128 v / 64 = 2. Proof. unfold eff_flag. destruct (255 <? zlen v); reflexivity. Qed.
Lemma eff192 v : eff_flag 192 v / 64 = 3. Proof. unfold eff_flag. destruct (255 <? zlen v); reflexivity. Qed.

(* what the receiver reads for one requested attribute *)
Definition opt_ra {A} (l : list A) (r : rattr) : list rattr := if is_nil l then [] else [r].

Definition item_ras (s : sess) (i : item) : list rattr :=
  match i with
  | IOrigin v => [RSem (SOrigin v)]
  | IAsPath segs =>
    if s_asn4 s then [RSem (SAsPath (path_segments segs))]
    else RSem (SAsPath (trans_path (path_segments segs)))
         :: (if has_large (path_segments segs) then [RAs4Path (path_segments segs)] else [])
  | INextHop ip => [RNextHop ip]
  | IMed v => [RSem (SMed v)]
  | ILocalPref v => [RSem (SLocalPref v)]
  | IAtomic => [RSem SAtomic]
  | IAggregator asn ip =>
    if s_asn4 s then [RSem (SAggregator asn ip)]
    else if 65535 <? asn then [RSem (SAggregator AS_TRANS ip); RAs4Aggregator asn ip]
    else [RSem (SAggregator asn ip)]
  | ICommunity vs => opt_ra vs (RSem (SCommunity (csort vs)))
  | IOriginator ip => [RSem (SOriginator ip)]
  | ICluster ids => opt_ra ids (RSem (SCluster ids))
  | IExtended vs => opt_ra vs (RSem (SExtended (csort vs)))
  | ILarge vs => opt_ra vs (RSem (SLarge (csort_nodup vs)))
  | IGeneric c f d => [RSem (SOther (clear16 (eff_flag f d)) c d)]
  end.

Definition in32 (v : Z) : Prop := 0 <= v < 4294967296.

(* the domain of one attribute as it is SENT (NEXT_HOP only when IPv4) *)
Definition wf_item (i : item) : Prop :=
  match i with
  | IOrigin v => 0 <= v <= 2
  | IAsPath segs => Forall seg_in segs /\ zlen (pack_segs true (path_segments segs)) < 65536
  | INextHop ip => zlen ip = 4
  | IMed v | ILocalPref v => in32 v
  | IAtomic => True
  | IAggregator asn ip => in32 asn /\ zlen ip = 4
  | ICommunity vs => Forall in32 vs /\ zlen vs < 16000
  | IOriginator ip => zlen ip = 4
  | ICluster ids => Forall in32 ids /\ zlen ids < 16000
  | IExtended vs => Forall (fun v => 0 <= v < 18446744073709551616) vs /\ zlen vs < 8000
  | ILarge vs => Forall (fun v => 0 <= v < 79228162514264337593543950336) vs /\ zlen vs < 5000
  | IGeneric c f d => known_code c = false /\ zlen d < 65536
  end.

Lemma is_nil_csort l : is_nil (csort l) = is_nil l.
Proof. pose proof (csort_length l) as H. destruct (csort l) as [|y c]; destruct l as [|x l]; cbn [length is_nil] in *; try reflexivity; lia. Qed.
Lemma is_nil_csort_nodup l : is_nil (csort_nodup l) = is_nil l.
Proof.
  destruct l as [|x l]; [reflexivity|]. cbn [is_nil].
  assert (In x (csort_nodup (x :: l))) by (apply csort_nodup_In; left; reflexivity).
  destruct (csort_nodup (x :: l)); [destruct H | reflexivity].
Qed.

Lemma interp_all_app rs a b ra rb : interp_all rs a = Some ra -> interp_all rs b = Some rb -> interp_all rs (a ++ b) = Some (ra ++ rb).
Proof.
  revert ra. induction a as [|t a IH]; intros ra Ha Hb; cbn [interp_all app] in *.
  - inversion Ha; subst. exact Hb.
  - destruct (interp rs t) as [x|]; [|discriminate]. destruct (interp_all rs a) as [y|]; [|discriminate].
    inversion Ha; subst. rewrite (IH y eq_refl Hb). reflexivity.
Qed.

Lemma zlen_map {A B} (f : A -> B) (l : list A) : Z.of_nat (length (map f l)) = Z.of_nat (length l).
Proof. now rewrite map_length. Qed.

Lemma trans_path_len p : zlen (pack_segs false (trans_path p)) <= zlen (pack_segs true p).
Proof.
  induction p as [|sg p IH]; [cbn; lia|]. unfold pack_segs, trans_path in *. cbn [flat_map map]. rewrite !zlen_app.
  unfold pack_seg in *. cbn [fst snd]. rewrite !zlen_cons. rewrite (flat_map_zlen (pack_asn false) 2) by reflexivity.
  rewrite (flat_map_zlen (pack_asn true) 4) by reflexivity.
  assert (E : zlen (map trans (snd sg)) = zlen (snd sg)) by apply zlen_map. rewrite E.
  pose proof (zlen_nonneg (snd sg)). lia.
Qed.

Lemma opt_tl64 c v : opt_tl 64 c v = [(64, c, v)]. Proof. reflexivity. Qed.
Lemma opt_tl_nn f c v : is_nil v = false -> opt_tl f c v = [(f, c, v)].
Proof. intro H. unfold opt_tl. rewrite H, andb_false_r. reflexivity. Qed.

Ltac one_tl := cbn [map seen interp_all].

Lemma interp_item s ext i : wf_item i ->
  Forall tl_ok (item_tls s i) /\ interp_all (rs_of s ext) (map seen (item_tls s i)) = Some (item_ras s i).
Proof.
  intro W. destruct i; cbn [wf_item item_tls item_ras] in *; rewrite ?opt_tl64.
  - (* ORIGIN *) split; [repeat constructor; cbn; lia|]. one_tl. rewrite interp_c1, eff64. cbn [Z.eqb Pos.eqb].
    destruct (v <=? 2) eqn:E; [reflexivity | lia].
  - (* AS_PATH *) destruct W as [Wp0 Wl]. unfold stored_path. pose proof (path_segments_ok _ Wp0) as Wp.
    remember (path_segments segs) as st eqn:Est. clear Est Wp0 segs. rename st into segs.
    pose proof (trans_path_len segs) as Lt. pose proof (trans_path_ok _ Wp) as Wt.
    destruct (s_asn4 s) eqn:A4.
    + split; [repeat constructor; exact Wl|]. one_tl.
      rewrite interp_c2, eff64. cbn [Z.eqb Pos.eqb rs_of rs_asn4]. rewrite A4.
      rewrite (segments_exact true) by (try assumption; lia). reflexivity.
    + assert (T2 : interp (rs_of s ext) (seen (64, 2, pack_segs false (trans_path segs))) = Some (RSem (SAsPath (trans_path segs)))).
      { cbn [seen]. rewrite interp_c2, eff64. cbn [Z.eqb Pos.eqb rs_of rs_asn4]. rewrite A4.
        rewrite (segments_exact false) by (try assumption; lia). reflexivity. }
      destruct (has_large segs) eqn:HL.
      * assert (Hnn : is_nil (pack_segs true segs) = false).
        { destruct segs as [|[ty a] segs]; [discriminate HL|]. reflexivity. }
        unfold opt_tl. rewrite Hnn, andb_false_r. split; [repeat constructor; cbn [tl_ok]; lia|].
        cbn [app map interp_all]. rewrite T2. cbn [seen]. rewrite interp_c17, eff192. cbn [Z.eqb Pos.eqb].
        rewrite (segments_exact true) by (try assumption; lia). reflexivity.
      * split; [repeat constructor; cbn [tl_ok]; lia|]. cbn [app map interp_all]. rewrite T2. reflexivity.
  - (* NEXT_HOP *) split; [repeat constructor; cbn [tl_ok]; lia|]. one_tl.
    rewrite interp_c3, eff64, len_zlen, W. reflexivity.
  - (* MED *) rewrite (opt_tl_nn 128 4 (be32 v)) by reflexivity. split; [repeat constructor; cbn; lia|]. one_tl. rewrite interp_c4, eff128, be32_num by exact W. reflexivity.
  - (* LOCAL_PREF *) split; [repeat constructor; cbn; lia|]. one_tl. rewrite interp_c5, eff64, be32_num by exact W. reflexivity.
  - (* ATOMIC *) split; [repeat constructor; cbn; lia|]. one_tl. reflexivity.
  - (* AGGREGATOR *) destruct W as [Wa Wi]. unfold in32 in Wa.
    assert (Hd4 : forall x, zlen x = 4 -> take 4 (x ++ ip) = x /\ drop 4 (x ++ ip) = ip).
    { intros x Hx. unfold take, drop. split; [apply firstn_app_exact | apply skipn_app_exact]; unfold zlen in Hx; lia. }
    assert (Hd2 : forall x, zlen x = 2 -> take 2 (x ++ ip) = x /\ drop 2 (x ++ ip) = ip).
    { intros x Hx. unfold take, drop. split; [apply firstn_app_exact | apply skipn_app_exact]; unfold zlen in Hx; lia. }
    repeat rewrite opt_tl_nn by reflexivity.
    destruct (s_asn4 s) eqn:A4.
    + split; [repeat constructor; cbn [tl_ok]; rewrite zlen_app, Wi; cbn; lia|]. one_tl.
      rewrite interp_c7, eff192. cbn [Z.eqb Pos.eqb rs_of rs_asn4]. rewrite A4. rewrite len_zlen, zlen_app, Wi.
      destruct (Hd4 (be32 asn) eq_refl) as [T D]. cbn [Z.add]. change (zlen (be32 asn) + 4 =? 4 + 4) with true. cbv zeta.
      rewrite T, D, be32_num by exact Wa. reflexivity.
    + destruct (65535 <? asn) eqn:E.
      * split; [repeat constructor; cbn [tl_ok]; rewrite zlen_app, Wi; cbn; lia|].
        cbn [app map seen interp_all]. rewrite interp_c7, interp_c18, !eff192. cbn [Z.eqb Pos.eqb rs_of rs_asn4]. rewrite A4.
        rewrite !len_zlen, !zlen_app, Wi.
        destruct (Hd4 (be32 asn) eq_refl) as [T D]. destruct (Hd2 (be16 AS_TRANS) eq_refl) as [T2 D2].
        change (zlen (be16 AS_TRANS) + 4 =? 2 + 4) with true. change (zlen (be32 asn) + 4 =? 8) with true. cbv zeta.
        rewrite T, D, T2, D2, be32_num by exact Wa. reflexivity.
      * split; [repeat constructor; cbn [tl_ok]; rewrite zlen_app, Wi; cbn; lia|]. one_tl.
        rewrite interp_c7, eff192. cbn [Z.eqb Pos.eqb rs_of rs_asn4]. rewrite A4. rewrite len_zlen, zlen_app, Wi.
        destruct (Hd2 (be16 asn) eq_refl) as [T D]. change (zlen (be16 asn) + 4 =? 2 + 4) with true. cbv zeta.
        rewrite T, D, be16_num by lia. reflexivity.
  - (* COMMUNITY *) destruct W as [Wv Wn]. unfold opt_tl, opt_ra.
    rewrite (flat_map_nil_iff be32) by discriminate. rewrite is_nil_csort. change (has_bit 192 128) with true. cbn [andb].
    assert (L : zlen (flat_map be32 (csort vs)) = 4 * zlen vs).
    { rewrite (flat_map_zlen be32 4) by reflexivity. unfold zlen. rewrite csort_length. reflexivity. }
    destruct (is_nil vs); [split; [constructor | reflexivity]|].
    split; [repeat constructor; cbn [tl_ok]; lia|]. one_tl. rewrite interp_c8, eff192. cbn [Z.eqb Pos.eqb].
    rewrite (chunks_flat 4 be32 in32); [reflexivity | lia | reflexivity | apply be32_num | apply csort_Forall; exact Wv | lia].
  - (* ORIGINATOR_ID *) unfold opt_tl. change (has_bit 128 128) with true. cbn [andb].
    destruct ip as [|a ip]; [cbn in W; lia|]. cbn [is_nil].
    split; [repeat constructor; cbn [tl_ok]; lia|]. one_tl. rewrite interp_c9, eff128, len_zlen, W. reflexivity.
  - (* CLUSTER_LIST *) destruct W as [Wv Wn]. unfold opt_tl, opt_ra.
    rewrite (flat_map_nil_iff be32) by discriminate. change (has_bit 128 128) with true. cbn [andb].
    assert (L : zlen (flat_map be32 ids) = 4 * zlen ids) by (rewrite (flat_map_zlen be32 4) by reflexivity; reflexivity).
    destruct (is_nil ids); [split; [constructor | reflexivity]|].
    split; [repeat constructor; cbn [tl_ok]; lia|]. one_tl. rewrite interp_c10, eff128. cbn [Z.eqb Pos.eqb].
    rewrite (chunks_flat 4 be32 in32); [reflexivity | lia | reflexivity | apply be32_num | exact Wv | lia].
  - (* EXTENDED *) destruct W as [Wv Wn]. unfold opt_tl, opt_ra.
    rewrite (flat_map_nil_iff be64) by discriminate. rewrite is_nil_csort. change (has_bit 192 128) with true. cbn [andb].
    assert (L : zlen (flat_map be64 (csort vs)) = 8 * zlen vs).
    { rewrite (flat_map_zlen be64 8) by reflexivity. unfold zlen. rewrite csort_length. reflexivity. }
    destruct (is_nil vs); [split; [constructor | reflexivity]|].
    split; [repeat constructor; cbn [tl_ok]; lia|]. one_tl. rewrite interp_c16, eff192. cbn [Z.eqb Pos.eqb].
    rewrite (chunks_flat 8 be64 (fun v => 0 <= v < 18446744073709551616));
      [reflexivity | lia | reflexivity | apply be64_num | apply csort_Forall; exact Wv | lia].
  - (* LARGE *) destruct W as [Wv Wn]. unfold opt_tl, opt_ra.
    rewrite (flat_map_nil_iff be96) by discriminate. rewrite is_nil_csort_nodup. change (has_bit 192 128) with true. cbn [andb].
    assert (L : zlen (flat_map be96 (csort_nodup vs)) <= 12 * zlen vs).
    { rewrite (flat_map_zlen be96 12) by reflexivity. pose proof (csort_nodup_length vs). unfold zlen. lia. }
    destruct (is_nil vs); [split; [constructor | reflexivity]|].
    split; [repeat constructor; cbn [tl_ok]; lia|]. one_tl. rewrite interp_c32, eff192. cbn [Z.eqb Pos.eqb].
    rewrite (chunks_flat 12 be96 (fun v => 0 <= v < 79228162514264337593543950336));
      [reflexivity | lia | reflexivity | apply be96_num | apply csort_nodup_Forall; exact Wv | lia].
  - (* generic *) destruct W as [Wc Wl]. split; [repeat constructor; exact Wl|]. one_tl. rewrite interp_unknown by exact Wc. reflexivity.
Qed.
(* ------------------------------------------------------------------ all attributes *)

Lemma interp_items s ext l : Forall wf_item l ->
  Forall tl_ok (flat_map (item_tls s) l)
  /\ interp_all (rs_of s ext) (map seen (flat_map (item_tls s) l)) = Some (flat_map (item_ras s) l).
Proof.
  induction 1 as [|i l Hi Hl IH]; [split; [constructor | reflexivity]|].
  destruct IH as [IH1 IH2]. destruct (interp_item s ext i Hi) as [H1 H2]. cbn [flat_map]. split.
  - apply Forall_app. split; assumption.
  - rewrite map_app. apply interp_all_app; assumption.
Qed.

(* ------------------------------------------------------------------ NLRI *)

Lemma be24_num v : 0 <= v < 16777216 -> num (be24 v) = v.
Proof.
  intro H. unfold num, be24. cbn [fold_left].
  pose proof (Z.rem_mul_r v 256 256 ltac:(lia) ltac:(lia)) as E1. change (256 * 256) with 65536 in E1.
  pose proof (Z.rem_mul_r v 65536 256 ltac:(lia) ltac:(lia)) as E2. change (65536 * 256) with 16777216 in E2.
  rewrite (Z.mod_small v 16777216) in E2 by lia. lia.
Qed.

(* a label stack as ExaBGP stores it: 24-bit words, bottom-of-stack bit on the last one only *)
Fixpoint lstack (ls : list Z) : Prop :=
  match ls with
  | [] => False
  | [l] => 0 <= l < 16777216 /\ Z.odd l = true
  | l :: rest => 0 <= l < 16777216 /\ Z.odd l = false /\ lstack rest
  end.

Lemma label_stack_enc : forall ls tail fuel, lstack ls -> (length ls <= fuel)%nat ->
  label_stack fuel (lbl_bytes ls ++ tail) = Some (map (fun w => w / 16) ls, tail).
Proof.
  induction ls as [|l rest IH]; intros tail fuel Hs Hf; [destruct Hs|].
  destruct fuel as [|f]; [cbn [length] in Hf; lia|].
  unfold lbl_bytes. cbn [flat_map]. fold (lbl_bytes rest). rewrite <- app_assoc. cbn [label_stack].
  rewrite field_app by reflexivity.
  destruct rest as [|l2 rest'].
  - destruct Hs as [Hr Ho]. rewrite be24_num by exact Hr. rewrite Ho. reflexivity.
  - destruct Hs as [Hr [Ho Hrest]]. rewrite be24_num by exact Hr. rewrite Ho.
    rewrite IH; [reflexivity | exact Hrest | cbn [length] in *; lia].
Qed.

Definition sem_nlri (send withdraw : bool) (n : nlri) : rfc_route :=
  mkR (if send then Some (num (match n_pid n with Some b => b | None => [0;0;0;0] end)) else None)
      (if withdraw then [] else map (fun w => w / 16) (n_labels n))
      (if is_nil (n_rd n) then None else Some (num (n_rd n)))
      (n_mask n) (num (n_pfx n)).

Record wf_nlri (withdraw : bool) (n : nlri) : Prop := mkWN {
  wn_afi : n_afi n = 1 \/ n_afi n = 2;
  wn_safi : n_safi n = 1 \/ n_safi n = 2 \/ n_safi n = 4 \/ n_safi n = 128;
  wn_mask : 0 <= n_mask n <= (if n_afi n =? 1 then 32 else 128);
  wn_pfx : zlen (n_pfx n) = (n_mask n + 7) / 8;
  wn_pid : match n_pid n with Some b => zlen b = 4 | None => True end;
  wn_rd : if n_safi n =? 128 then zlen (n_rd n) = 8 else n_rd n = [];
  wn_lab : if (n_safi n =? 4) || (n_safi n =? 128)
           then lstack (n_labels n) /\ (withdraw = true -> nth 0 (n_labels n) 0 <> 8388608)
           else n_labels n = [];
  wn_len : cmask n <= 255
}.

Lemma nlri1_enc send withdraw n rest : wf_nlri withdraw n ->
  nlri1 send withdraw (n_afi n) (n_safi n) (pack_nlri send n ++ rest) = Some (sem_nlri send withdraw n, rest).
Proof.
  intros [Hafi Hsafi Hmask Hpfx Hpid Hrd Hlab Hlen].
  pose proof (zlen_nonneg (n_labels n)) as Hl0. pose proof (zlen_nonneg (n_rd n)) as Hr0.
  assert (Hcs : csize (n_mask n) = (n_mask n + 7) / 8).
  { apply csize_range. destruct (n_afi n =? 1); lia. }
  assert (Hpk : pack_ip (n_mask n) (n_pfx n) = n_pfx n) by (apply pack_ip_exact; lia).
  unfold nlri1, pack_nlri, sem_nlri, body. rewrite Hpk.
  (* path id *)
  assert (S1 : (if send then match field 4 ((if send then match n_pid n with Some b => b | None => [0;0;0;0] end ++
                     (cmask n :: lbl_bytes (n_labels n) ++ n_rd n ++ n_pfx n) else cmask n :: lbl_bytes (n_labels n) ++ n_rd n ++ n_pfx n) ++ rest)
                   with Some (p, r) => Some (Some (num p), r) | None => None end
                else Some (None, (if send then match n_pid n with Some b => b | None => [0;0;0;0] end ++
                     (cmask n :: lbl_bytes (n_labels n) ++ n_rd n ++ n_pfx n) else cmask n :: lbl_bytes (n_labels n) ++ n_rd n ++ n_pfx n) ++ rest))
           = Some (if send then Some (num (match n_pid n with Some b => b | None => [0;0;0;0] end)) else None,
                   cmask n :: lbl_bytes (n_labels n) ++ n_rd n ++ n_pfx n ++ rest)).
  { destruct send.
    - rewrite <- app_assoc. rewrite field_app.
      + cbn [app]. rewrite <- !app_assoc. reflexivity.
      + destruct (n_pid n); [exact Hpid | reflexivity].
    - cbn [app]. rewrite <- !app_assoc. reflexivity. }
  rewrite S1. clear S1.
  (* labels *)
  set (tail := n_rd n ++ n_pfx n ++ rest).
  assert (S2 : (if (n_safi n =? 4) || (n_safi n =? 128)
                then if withdraw && (num (take 3 (lbl_bytes (n_labels n) ++ tail)) =? 8388608)
                     then Some ([], 1%nat, drop 3 (lbl_bytes (n_labels n) ++ tail))
                     else match label_stack (length (lbl_bytes (n_labels n) ++ tail)) (lbl_bytes (n_labels n) ++ tail) with
                          | Some (ls, r) => Some (if withdraw then [] else ls, length ls, r)
                          | None => None end
                else Some ([], 0%nat, lbl_bytes (n_labels n) ++ tail))
               = Some (if withdraw then [] else map (fun w => w / 16) (n_labels n), length (n_labels n), tail)).
  { destruct ((n_safi n =? 4) || (n_safi n =? 128)) eqn:E.
    - destruct Hlab as [Hst Hw].
      assert (Hne : withdraw && (num (take 3 (lbl_bytes (n_labels n) ++ tail)) =? 8388608) = false).
      { destruct withdraw; [|reflexivity]. cbn [andb]. apply Z.eqb_neq.
        destruct (n_labels n) as [|l ls] eqn:EL; [destruct Hst|].
        unfold lbl_bytes. cbn [flat_map]. rewrite <- app_assoc.
        assert (T : take 3 (be24 l ++ flat_map be24 ls ++ tail) = be24 l) by reflexivity. rewrite T.
        assert (Hr : 0 <= l < 16777216) by (destruct ls; cbn [lstack] in Hst; tauto).
        rewrite be24_num by exact Hr. specialize (Hw eq_refl). cbn [nth] in Hw. exact Hw. }
      rewrite Hne. rewrite label_stack_enc; [rewrite map_length; reflexivity | exact Hst |].
      rewrite app_length, lbl_bytes_length. lia.
    - rewrite Hlab. destruct withdraw; reflexivity. }
  rewrite S2. clear S2. subst tail.
  (* rd *)
  assert (S3 : (if n_safi n =? 128 then match field 8 (n_rd n ++ n_pfx n ++ rest) with
                  | Some (rd, r) => Some (Some (num rd), r) | None => None end
                else Some (None, n_rd n ++ n_pfx n ++ rest))
               = Some (if is_nil (n_rd n) then None else Some (num (n_rd n)), n_pfx n ++ rest)).
  { destruct (n_safi n =? 128).
    - rewrite field_app by exact Hrd. destruct (n_rd n); [cbn in Hrd; lia | reflexivity].
    - rewrite Hrd. reflexivity. }
  rewrite S3. clear S3.
  (* prefix *)
  assert (Hplen : cmask n - 24 * Z.of_nat (length (n_labels n))
                  - (match (if is_nil (n_rd n) then None else Some (num (n_rd n))) with Some _ => 64 | None => 0 end) = n_mask n).
  { unfold cmask. fold (zlen (n_labels n)).
    destruct (n_safi n =? 128).
    - rewrite Hrd. destruct (n_rd n); [cbn in Hrd; lia|]. cbn [is_nil]. lia.
    - rewrite Hrd. cbn [is_nil]. rewrite zlen_nil. lia. }
  rewrite Hplen.
  assert (Hb : (n_mask n <? 0) || ((if n_afi n =? 1 then 32 else 128) <? n_mask n) = false).
  { apply orb_false_intro; [apply Z.ltb_ge | apply Z.ltb_ge]; lia. }
  rewrite Hb. rewrite field_app by exact Hpfx. reflexivity.
Qed.

Lemma nlris_one send withdraw n : wf_nlri withdraw n ->
  forall fuel, (length (pack_nlri send n) <= fuel)%nat ->
  nlris fuel send withdraw (n_afi n) (n_safi n) (pack_nlri send n) = Some [sem_nlri send withdraw n].
Proof.
  intros W fuel Hf. pose proof (nlri1_enc send withdraw n [] W) as H. rewrite app_nil_r in H.
  assert (Hne : exists a t, pack_nlri send n = a :: t).
  { unfold pack_nlri, body. destruct send; [destruct (n_pid n) as [[|a b]|]|]; cbn [app]; eauto. }
  destruct Hne as [a [t E]]. rewrite E in *. destruct fuel as [|f]; [cbn [length] in Hf; lia|].
  cbn [nlris]. rewrite H. destruct f; reflexivity.
Qed.
(* ------------------------------------------------------------------ order: sorted(alls) is a permutation *)

Lemma ins_item_perm x l : Permutation (ins_item x l) (x :: l).
Proof.
  induction l as [|y l IH]; cbn [ins_item]; [apply Permutation_refl|].
  destruct (code_of x <? code_of y); [apply Permutation_refl|].
  apply perm_trans with (y :: x :: l); [apply perm_skip; exact IH | apply perm_swap].
Qed.

Lemma sort_items_gen : forall l acc, Permutation (fold_left (fun a x => ins_item x a) l acc) (l ++ acc).
Proof.
  induction l as [|x l IH]; intro acc; cbn [fold_left app]; [apply Permutation_refl|].
  apply perm_trans with (l ++ ins_item x acc); [apply IH|].
  apply perm_trans with (l ++ x :: acc); [apply Permutation_app_head; apply ins_item_perm|].
  apply Permutation_sym. apply Permutation_middle.
Qed.

Lemma sort_items_perm l : Permutation (sort_items l) l.
Proof. unfold sort_items. pose proof (sort_items_gen l []) as H. rewrite app_nil_r in H. exact H. Qed.

(* ... and it is ascending by attribute code *)
Definition code_le (a b : item) : Prop := code_of a <= code_of b.

Lemma hdrel_ins x y r : HdRel code_le y r -> code_le y x -> HdRel code_le y (ins_item x r).
Proof.
  intros H Hx. destruct r as [|z r]; cbn [ins_item]; [constructor; exact Hx|].
  destruct (code_of x <? code_of z); constructor; [exact Hx | inversion H; assumption].
Qed.

Lemma ins_item_sorted x l : Sorted code_le l -> Sorted code_le (ins_item x l).
Proof.
  induction 1 as [|y r Hr IH Hy]; cbn [ins_item]; [repeat constructor|].
  destruct (code_of x <? code_of y) eqn:E.
  - constructor; [constructor; assumption | constructor; unfold code_le; lia].
  - constructor; [exact IH | apply hdrel_ins; [exact Hy | unfold code_le; lia]].
Qed.

Lemma sort_items_sorted_gen : forall l acc, Sorted code_le acc -> Sorted code_le (fold_left (fun a x => ins_item x a) l acc).
Proof. induction l as [|x l IH]; intros acc H; cbn [fold_left]; [exact H|]. apply IH. apply ins_item_sorted. exact H. Qed.

Lemma sort_items_sorted l : Sorted code_le (sort_items l).
Proof. apply sort_items_sorted_gen. constructor. Qed.

Lemma sent_items_sorted s items : Sorted code_le (sent_items s items).
Proof. apply sort_items_sorted. Qed.

Lemma perm_Forall {A} (P : A -> Prop) l l' : Permutation l l' -> Forall P l -> Forall P l'.
Proof. intros Hp H. apply Forall_forall. intros x Hx. rewrite Forall_forall in H. apply H. apply Permutation_in with l'; [apply Permutation_sym; exact Hp | exact Hx]. Qed.

(* ------------------------------------------------------------------ RFC 6793 post-processing when nothing needs it *)

Definition no_as4 (a : rattr) : bool := match a with RAs4Path _ | RAs4Aggregator _ _ => false | _ => true end.
Definition sem_of (a : rattr) : list sattr := match a with RSem x => [x] | _ => [] end.

Lemma find_as4path_none l : forallb no_as4 l = true -> find_as4path l = None.
Proof.
  intro H. unfold find_as4path.
  assert (E : filter (fun a => match a with RAs4Path _ => true | _ => false end) l = []).
  { induction l as [|a l IH]; [reflexivity|]. cbn [forallb] in H. apply andb_prop in H. destruct H as [Ha Hl].
    cbn [filter]. destruct a; cbn in Ha; try discriminate; apply IH; exact Hl. }
  rewrite E. reflexivity.
Qed.
Lemma find_as4aggr_none l : forallb no_as4 l = true -> find_as4aggr l = None.
Proof.
  intro H. unfold find_as4aggr.
  assert (E : filter (fun a => match a with RAs4Aggregator _ _ => true | _ => false end) l = []).
  { induction l as [|a l IH]; [reflexivity|]. cbn [forallb] in H. apply andb_prop in H. destruct H as [Ha Hl].
    cbn [filter]. destruct a; cbn in Ha; try discriminate; apply IH; exact Hl. }
  rewrite E. reflexivity.
Qed.

Lemma merge_plain rs l : forallb no_as4 l = true -> merge_as4 rs l = flat_map sem_of l.
Proof.
  intro H. unfold merge_as4. rewrite (find_as4path_none l H), (find_as4aggr_none l H).
  apply flat_map_ext. intros [x| | | | |]; try reflexivity.
  destruct x; try reflexivity.
  - cbn [sem_of reconstruct]. destruct (rs_asn4 rs); reflexivity.
  - cbn [sem_of]. destruct (rs_asn4 rs); reflexivity.
Qed.

(* ------------------------------------------------------------------ what a requested attribute means *)

Definition opt_sa {A} (l : list A) (x : sattr) : list sattr := if is_nil l then [] else [x].

Definition sem_item (i : item) : list sattr :=
  match i with
  | IOrigin v => [SOrigin v]
  | IAsPath segs => [SAsPath (path_segments segs)]
  | INextHop _ => []
  | IMed v => [SMed v]
  | ILocalPref v => [SLocalPref v]
  | IAtomic => [SAtomic]
  | IAggregator asn ip => [SAggregator asn ip]
  | ICommunity vs => opt_sa vs (SCommunity (csort vs))
  | IOriginator ip => [SOriginator ip]
  | ICluster ids => opt_sa ids (SCluster ids)
  | IExtended vs => opt_sa vs (SExtended (csort vs))
  | ILarge vs => opt_sa vs (SLarge (csort_nodup vs))
  | IGeneric c f d => [SOther (clear16 (eff_flag f d)) c d]
  end.

(* nothing in the attribute needs AS4_PATH / AS4_AGGREGATOR on this session *)
Definition small_item (s : sess) (i : item) : bool :=
  s_asn4 s || match i with IAsPath segs => negb (has_large segs) | IAggregator asn _ => negb (65535 <? asn) | _ => true end.

Lemma trans_small l : existsb (fun v => 65535 <? v) l = false -> map trans l = l.
Proof.
  induction l as [|v l IH]; [reflexivity|]. cbn [existsb map]. intro H. apply orb_false_elim in H. destruct H as [Hv Hl].
  unfold trans at 1. rewrite Hv, (IH Hl). reflexivity.
Qed.
Lemma trans_path_small p : has_large p = false -> trans_path p = p.
Proof.
  induction p as [|[ty a] p IH]; [reflexivity|]. unfold has_large. cbn [existsb snd]. intro H.
  apply orb_false_elim in H. destruct H as [Ha Hp]. cbn [trans_path map fst snd]. rewrite (trans_small a Ha).
  fold (trans_path p). rewrite (IH Hp). reflexivity.
Qed.

Lemma item_ras_small s i : small_item s i = true ->
  forallb no_as4 (item_ras s i) = true /\ flat_map sem_of (item_ras s i) = sem_item i.
Proof.
  unfold small_item. intro H. destruct i; cbn [item_ras sem_item]; try (split; reflexivity);
    try (unfold opt_ra, opt_sa; destruct (is_nil _); split; reflexivity).
  - destruct (s_asn4 s); [split; reflexivity|]. cbn [orb] in H. apply negb_true_iff in H. rewrite <- has_large_split in H. rewrite H.
    rewrite (trans_path_small _ H). split; reflexivity.
  - destruct (s_asn4 s); [split; reflexivity|]. cbn [orb] in H. apply negb_true_iff in H. rewrite H. split; reflexivity.
Qed.

Lemma items_ras_small s l : forallb (small_item s) l = true ->
  forallb no_as4 (flat_map (item_ras s) l) = true /\ flat_map sem_of (flat_map (item_ras s) l) = flat_map sem_item l.
Proof.
  induction l as [|i l IH]; [split; reflexivity|]. cbn [forallb flat_map]. intro H. apply andb_prop in H. destruct H as [Hi Hl].
  destruct (IH Hl) as [I1 I2]. destruct (item_ras_small s i Hi) as [J1 J2].
  rewrite forallb_app, flat_map_app, J1, I1, J2, I2. split; reflexivity.
Qed.

(* ------------------------------------------------------------------ RFC 6793 post-processing in general:
   the attribute set is a dict (distinct codes), so AS4_PATH / AS4_AGGREGATOR belong to THE AS_PATH / AGGREGATOR *)

Lemma leading_zero p : leading 0 p = [].
Proof. destruct p; reflexivity. Qed.

Lemma path_count_trans p : path_count (trans_path p) = path_count p.
Proof.
  induction p as [|[ty a] p IH]; [reflexivity|]. cbn [trans_path map path_count fold_right fst snd] in *.
  fold (trans_path p). unfold path_count in IH. rewrite IH. unfold seg_count. cbn [fst snd].
  unfold len. rewrite map_length. reflexivity.
Qed.

Lemma reconstruct_full p : reconstruct (trans_path p) (Some p) = p.
Proof.
  unfold reconstruct. rewrite path_count_trans, Z.ltb_irrefl, Z.sub_diag, leading_zero. reflexivity.
Qed.

Fixpoint first_some {A B} (f : A -> option B) (l : list A) : option B :=
  match l with [] => None | x :: r => match f x with Some y => Some y | None => first_some f r end end.

Lemma first_some_none {A B} (f : A -> option B) l : (forall j, In j l -> f j = None) -> first_some f l = None.
Proof. induction l as [|x l IH]; intro H; [reflexivity|]. cbn [first_some]. rewrite (H x (or_introl eq_refl)). apply IH. intros j Hj. apply H. right. exact Hj. Qed.

Lemma first_some_at {A B} (f : A -> option B) l i :
  In i l -> (forall j, In j l -> f j <> None -> j = i) -> first_some f l = f i.
Proof.
  induction l as [|x l IH]; intros Hi Hu; [destruct Hi|]. cbn [first_some].
  destruct (f x) as [y|] eqn:E.
  - assert (x = i) by (apply Hu; [left; reflexivity | congruence]). subst x. symmetry. exact E.
  - destruct Hi as [-> | Hi].
    + rewrite E. apply first_some_none. intros j Hj. destruct (f j) eqn:Ej; [|reflexivity].
      assert (j = i) by (apply Hu; [right; exact Hj | congruence]). subst j. congruence.
    + apply IH; [exact Hi|]. intros j Hj Hne. apply Hu; [right; exact Hj | exact Hne].
Qed.

Lemma nodup_code_eq l i j : NoDup (map code_of l) -> In i l -> In j l -> code_of j = code_of i -> j = i.
Proof.
  induction l as [|x l IH]; intros Hn Hi Hj E; [destruct Hi|]. cbn [map] in Hn. inversion Hn as [|? ? Hx Hn']; subst.
  destruct Hi as [-> | Hi], Hj as [-> | Hj]; try reflexivity.
  - exfalso. apply Hx. rewrite <- E. apply in_map. exact Hj.
  - exfalso. apply Hx. rewrite E. apply in_map. exact Hi.
  - apply IH; assumption.
Qed.

Definition p4_of (s : sess) (i : item) : option (list segment) :=
  match i with
  | IAsPath segs => if s_asn4 s then None else if has_large (path_segments segs) then Some (path_segments segs) else None
  | _ => None
  end.
Definition a4_of (s : sess) (i : item) : option (Z * list Z) :=
  match i with
  | IAggregator asn ip => if s_asn4 s then None else if 65535 <? asn then Some (asn, ip) else None
  | _ => None
  end.

Lemma find_as4path_app a b : find_as4path (a ++ b) = match find_as4path a with Some p => Some p | None => find_as4path b end.
Proof.
  unfold find_as4path. induction a as [|x a IH]; [reflexivity|]. cbn [app filter].
  destruct x; try exact IH. reflexivity.
Qed.
Lemma find_as4aggr_app a b : find_as4aggr (a ++ b) = match find_as4aggr a with Some p => Some p | None => find_as4aggr b end.
Proof.
  unfold find_as4aggr. induction a as [|x a IH]; [reflexivity|]. cbn [app filter].
  destruct x; try exact IH. reflexivity.
Qed.

Lemma find_as4path_item s i : find_as4path (item_ras s i) = p4_of s i.
Proof.
  destruct i; cbn [item_ras p4_of]; try reflexivity; try (unfold opt_ra; destruct (is_nil _); reflexivity).
  - destruct (s_asn4 s); [reflexivity|]. destruct (has_large _); reflexivity.
  - destruct (s_asn4 s); [reflexivity|]. destruct (65535 <? asn); reflexivity.
Qed.
Lemma find_as4aggr_item s i : find_as4aggr (item_ras s i) = a4_of s i.
Proof.
  destruct i; cbn [item_ras a4_of]; try reflexivity; try (unfold opt_ra; destruct (is_nil _); reflexivity).
  - destruct (s_asn4 s); [reflexivity|]. destruct (has_large _); reflexivity.
  - destruct (s_asn4 s); [reflexivity|]. destruct (65535 <? asn); reflexivity.
Qed.

Lemma find_as4path_items s l : find_as4path (flat_map (item_ras s) l) = first_some (p4_of s) l.
Proof. induction l as [|i l IH]; [reflexivity|]. cbn [flat_map first_some]. rewrite find_as4path_app, find_as4path_item, IH. reflexivity. Qed.
Lemma find_as4aggr_items s l : find_as4aggr (flat_map (item_ras s) l) = first_some (a4_of s) l.
Proof. induction l as [|i l IH]; [reflexivity|]. cbn [flat_map first_some]. rewrite find_as4aggr_app, find_as4aggr_item, IH. reflexivity. Qed.

(* one element of merge_as4's flat_map, with the two look-ups as arguments *)
Definition merge1 (asn4 : bool) (p4 : option (list segment)) (a4 : option (Z * list Z)) (a : rattr) : list sattr :=
  match a with
  | RSem (SAsPath p) => [SAsPath (if asn4 then p else reconstruct p p4)]
  | RSem (SAggregator asn ip) =>
    [match (if asn4 then None else a4) with
     | Some (x4, i4) => if asn =? 23456 then SAggregator x4 i4 else SAggregator asn ip
     | None => SAggregator asn ip end]
  | RSem x => [x]
  | _ => []
  end.

Lemma merge_as4_merge1 rs l : merge_as4 rs l = flat_map (merge1 (rs_asn4 rs) (find_as4path l) (find_as4aggr l)) l.
Proof. reflexivity. Qed.

Lemma merge1_item s its i :
  NoDup (map code_of its) -> In i its ->
  flat_map (merge1 (s_asn4 s) (first_some (p4_of s) its) (first_some (a4_of s) its)) (item_ras s i) = sem_item i.
Proof.
  intros Hn Hi.
  destruct i; cbn [item_ras sem_item]; try reflexivity; try (unfold opt_ra, opt_sa; destruct (is_nil _); reflexivity).
  - (* AS_PATH *)
    assert (P : first_some (p4_of s) its = p4_of s (IAsPath segs)).
    { apply first_some_at; [exact Hi|]. intros j Hj Hne. apply (nodup_code_eq its _ _ Hn Hi Hj).
      destruct j; cbn [p4_of] in Hne; try congruence. reflexivity. }
    rewrite P. cbn [p4_of]. destruct (s_asn4 s) eqn:A4; [reflexivity|].
    destruct (has_large (path_segments segs)) eqn:HL; cbn [flat_map merge1 app].
    + rewrite reconstruct_full. reflexivity.
    + cbn [reconstruct]. rewrite (trans_path_small _ HL). reflexivity.
  - (* AGGREGATOR *)
    assert (P : first_some (a4_of s) its = a4_of s (IAggregator asn ip)).
    { apply first_some_at; [exact Hi|]. intros j Hj Hne. apply (nodup_code_eq its _ _ Hn Hi Hj).
      destruct j; cbn [a4_of] in Hne; try congruence. reflexivity. }
    rewrite P. cbn [a4_of]. destruct (s_asn4 s) eqn:A4; [reflexivity|].
    destruct (65535 <? asn) eqn:E; cbn [flat_map merge1 app]; reflexivity.
Qed.

Lemma merge_items s ext its : NoDup (map code_of its) ->
  merge_as4 (rs_of s ext) (flat_map (item_ras s) its) = flat_map sem_item its.
Proof.
  intro Hn. rewrite merge_as4_merge1, find_as4path_items, find_as4aggr_items. cbn [rs_of rs_asn4].
  assert (G : forall l, incl l its ->
            flat_map (merge1 (s_asn4 s) (first_some (p4_of s) its) (first_some (a4_of s) its)) (flat_map (item_ras s) l)
            = flat_map sem_item l).
  { induction l as [|i l IH]; intro Hinc; [reflexivity|]. cbn [flat_map]. rewrite flat_map_app.
    rewrite (merge1_item s its i Hn (Hinc i (or_introl eq_refl))). rewrite IH; [reflexivity|].
    intros j Hj. apply Hinc. right. exact Hj. }
  apply G. apply incl_refl.
Qed.

(* an MP attribute next to the others changes nothing in that post-processing *)
Lemma merge_mp_back rs l a f nh rl : merge_as4 rs (l ++ [RReach a f nh rl]) = merge_as4 rs l.
Proof.
  rewrite !merge_as4_merge1, find_as4path_app, find_as4aggr_app.
  change (find_as4path [RReach a f nh rl]) with (@None (list segment)).
  change (find_as4aggr [RReach a f nh rl]) with (@None (Z * list Z)).
  replace (match find_as4path l with Some p => Some p | None => None end) with (find_as4path l) by (destruct (find_as4path l); reflexivity).
  replace (match find_as4aggr l with Some p => Some p | None => None end) with (find_as4aggr l) by (destruct (find_as4aggr l); reflexivity).
  rewrite flat_map_app. cbn [flat_map merge1]. rewrite app_nil_r. reflexivity.
Qed.
Lemma merge_mp_front rs l a f rl : merge_as4 rs (RUnreach a f rl :: l) = merge_as4 rs l.
Proof. reflexivity. Qed.

(* no MP attribute and only the written next hop among the attribute items *)
Definition ras_mp (a : rattr) : bool := match a with RReach _ _ _ _ | RUnreach _ _ _ => true | _ => false end.
Lemma item_ras_no_mp s i : forallb (fun a => negb (ras_mp a)) (item_ras s i) = true.
Proof.
  destruct i; cbn [item_ras]; try reflexivity; try (unfold opt_ra; destruct (is_nil _); reflexivity).
  - destruct (s_asn4 s); [reflexivity|]. destruct (has_large _); reflexivity.
  - destruct (s_asn4 s); [reflexivity|]. destruct (65535 <? asn); reflexivity.
Qed.
Lemma items_ras_no_mp s l : forallb (fun a => negb (ras_mp a)) (flat_map (item_ras s) l) = true.
Proof. induction l as [|i l IH]; [reflexivity|]. cbn [flat_map]. rewrite forallb_app, item_ras_no_mp, IH. reflexivity. Qed.

Definition reach_of (a : rattr) : list (family * rfc_route * list Z) :=
  match a with RReach afi safi nh l => map (fun r => ((afi, safi), r, nh)) l | _ => [] end.
Definition unreach_of (a : rattr) : list (family * rfc_route) :=
  match a with RUnreach afi safi l => map (fun r => ((afi, safi), r)) l | _ => [] end.
Lemma no_mp_reach l : forallb (fun a => negb (ras_mp a)) l = true -> flat_map reach_of l = [] /\ flat_map unreach_of l = [].
Proof.
  induction l as [|a l IH]; [split; reflexivity|]. cbn [forallb flat_map]. intro H. apply andb_prop in H. destruct H as [Ha Hl].
  destruct (IH Hl) as [I1 I2]. rewrite I1, I2. destruct a; cbn in Ha; try discriminate; split; reflexivity.
Qed.

Definition nh_of (i : item) : list (list Z) := match i with INextHop ip => [ip] | _ => [] end.
Definition ras_nh (a : rattr) : list (list Z) := match a with RNextHop ip => [ip] | _ => [] end.
Lemma find_nexthop_hd l : find_nexthop l = hd_error (flat_map ras_nh l).
Proof.
  unfold find_nexthop. induction l as [|a l IH]; [reflexivity|]. cbn [filter flat_map].
  destruct a; cbn [ras_nh app]; try exact IH. reflexivity.
Qed.
Lemma item_ras_nh s i : flat_map ras_nh (item_ras s i) = nh_of i.
Proof.
  destruct i; cbn [item_ras nh_of]; try reflexivity; try (unfold opt_ra; destruct (is_nil _); reflexivity).
  - destruct (s_asn4 s); [reflexivity|]. destruct (has_large _); reflexivity.
  - destruct (s_asn4 s); [reflexivity|]. destruct (65535 <? asn); reflexivity.
Qed.
Lemma items_ras_nh s l : flat_map ras_nh (flat_map (item_ras s) l) = flat_map nh_of l.
Proof. induction l as [|i l IH]; [reflexivity|]. cbn [flat_map]. rewrite flat_map_app, item_ras_nh, IH. reflexivity. Qed.
(* ------------------------------------------------------------------ the items that are sent *)

Definition lp_dropped (s : sess) (i : item) : bool := (code_of i =? 5) && negb (ibgp s).

(* given attributes (LOCAL_PREF only on iBGP) + the defaults for what is absent *)
Definition expected_items (s : sess) (items : list item) : list item :=
  filter (fun i => negb (lp_dropped s i)) items ++ defaults s items.

Definition no_nh (items : list item) : Prop := Forall (fun i => code_of i <> 3) items.

Lemma skipped_lp s i : code_of i <> 3 -> skipped s i = lp_dropped s i.
Proof. destruct i; cbn [code_of skipped lp_dropped]; try reflexivity. intro H. contradiction H. reflexivity. Qed.

Lemma defaults_cons_nh s nh items : defaults s (INextHop nh :: items) = defaults s items.
Proof. reflexivity. Qed.

Lemma defaults_kept s items : filter (fun i => negb (skipped s i)) (defaults s items) = defaults s items.
Proof.
  unfold defaults. destruct (has_code 1 items), (has_code 2 items), (has_code 5 items), (ibgp s) eqn:E;
    cbn [app filter skipped code_of Z.eqb Pos.eqb andb negb]; rewrite ?E; reflexivity.
Qed.

Lemma filter_items s items : no_nh items ->
  filter (fun i => negb (skipped s i)) items = filter (fun i => negb (lp_dropped s i)) items.
Proof.
  intro H. apply filter_ext_in. intros i Hi. unfold no_nh in H. rewrite Forall_forall in H. rewrite (skipped_lp s i (H i Hi)). reflexivity.
Qed.

Definition kept_nh (nh : list Z) : list item := if (length nh =? 4)%nat then [INextHop nh] else [].

Lemma sent_perm s nh items : no_nh items ->
  Permutation (sent_items s (INextHop nh :: items)) (kept_nh nh ++ expected_items s items).
Proof.
  intro H. unfold sent_items. eapply perm_trans; [apply sort_items_perm|].
  rewrite defaults_cons_nh. cbn [app filter skipped]. rewrite filter_app, defaults_kept, (filter_items s items H).
  unfold kept_nh, expected_items. destruct (length nh =? 4)%nat; cbn [negb app]; apply Permutation_refl.
Qed.

Lemma kept_nh_sem nh : flat_map sem_item (kept_nh nh) = [].
Proof. unfold kept_nh. destruct (length nh =? 4)%nat; reflexivity. Qed.

Lemma sent_sem s nh items : no_nh items ->
  Permutation (flat_map sem_item (sent_items s (INextHop nh :: items))) (flat_map sem_item (expected_items s items)).
Proof.
  intro H. eapply perm_trans; [apply Permutation_flat_map; apply (sent_perm s nh items H)|].
  rewrite flat_map_app, kept_nh_sem. apply Permutation_refl.
Qed.

Definition wf_defaults (s : sess) : Prop := in32 (s_las s).

Lemma defaults_wf s items : wf_defaults s -> Forall wf_item (defaults s items).
Proof.
  intro W. unfold defaults. apply Forall_app; split; [|apply Forall_app; split].
  - destruct (has_code 1 items); repeat constructor; cbn; lia.
  - destruct (has_code 2 items); [constructor|]. destruct (ibgp s); repeat constructor; cbn; try lia; try (unfold wf_defaults, in32 in W; lia).
  - destruct (has_code 5 items); [constructor|]. destruct (ibgp s); repeat constructor; cbn; lia.
Qed.

Lemma Forall_filter {A} (P : A -> Prop) f l : Forall P l -> Forall P (filter f l).
Proof. intro H. apply Forall_forall. intros x Hx. apply filter_In in Hx. rewrite Forall_forall in H. apply H. tauto. Qed.

Lemma sent_wf s nh items : no_nh items -> Forall wf_item items -> wf_defaults s ->
  Forall wf_item (sent_items s (INextHop nh :: items)).
Proof.
  intros Hn Hi Hd. apply (perm_Forall _ _ _ (Permutation_sym (sent_perm s nh items Hn))).
  apply Forall_app. split.
  - unfold kept_nh. destruct (length nh =? 4)%nat eqn:E; [|constructor]. repeat constructor. cbn [wf_item].
    apply Nat.eqb_eq in E. unfold zlen. lia.
  - unfold expected_items. apply Forall_app. split; [apply Forall_filter; exact Hi | apply defaults_wf; exact Hd].
Qed.

Definition small_route (s : sess) (items : list item) : Prop :=
  s_asn4 s = true \/ (forallb (small_item s) items = true /\ s_las s <= 65535).

Lemma small_asn4 s i : s_asn4 s = true -> small_item s i = true.
Proof. intro H. unfold small_item. rewrite H. reflexivity. Qed.

Lemma sent_small s nh items : no_nh items -> small_route s items ->
  forallb (small_item s) (sent_items s (INextHop nh :: items)) = true.
Proof.
  intros Hn Hs. apply forallb_forall. intros i Hi.
  destruct Hs as [A4 | [Hall Hlas]]; [apply small_asn4; exact A4|].
  apply (Permutation_in _ (sent_perm s nh items Hn)) in Hi. apply in_app_or in Hi. destruct Hi as [Hi | Hi].
  - unfold kept_nh in Hi. destruct (length nh =? 4)%nat; [|destruct Hi]. destruct Hi as [<- | []]. unfold small_item. apply orb_true_r.
  - unfold expected_items in Hi. apply in_app_or in Hi. destruct Hi as [Hi | Hi].
    + apply filter_In in Hi. rewrite forallb_forall in Hall. apply Hall. tauto.
    + unfold defaults in Hi. unfold small_item.
      repeat (apply in_app_or in Hi; destruct Hi as [Hi | Hi]).
      * destruct (has_code 1 items); [destruct Hi|]. destruct Hi as [<- | []]. apply orb_true_r.
      * destruct (has_code 2 items); [destruct Hi|]. destruct Hi as [<- | []].
        destruct (ibgp s); [apply orb_true_r|]. apply orb_true_iff. right. unfold has_large. cbn [existsb snd].
        assert (E : (65535 <? s_las s) = false) by (apply Z.ltb_ge; lia). rewrite E. reflexivity.
      * destruct (has_code 5 items); [destruct Hi|]. destruct (ibgp s); [|destruct Hi]. destruct Hi as [<- | []]. apply orb_true_r.
Qed.

(* the attribute set is a dict: distinct codes; that survives defaults, skip and sort *)
Definition dict_route (s : sess) (items : list item) : Prop := small_route s items \/ NoDup (map code_of items).

Lemma has_code_in c l : has_code c l = false -> ~ In c (map code_of l).
Proof.
  unfold has_code. intros H Hin. apply in_map_iff in Hin. destruct Hin as [i [E Hi]].
  assert (X : existsb (fun i => code_of i =? c) l = true) by (apply existsb_exists; exists i; split; [exact Hi | apply Z.eqb_eq; exact E]).
  congruence.
Qed.

Lemma in_map_filter {A B} (g : A -> B) f l x : In x (map g (filter f l)) -> In x (map g l).
Proof. intro H. apply in_map_iff in H. destruct H as [y [E Hy]]. apply filter_In in Hy. apply in_map_iff. exists y. tauto. Qed.

Lemma nodup_map_filter {A B} (g : A -> B) f l : NoDup (map g l) -> NoDup (map g (filter f l)).
Proof.
  induction l as [|a l IH]; intro H; [constructor|]. cbn [map] in H. inversion H as [|? ? Ha Hl]; subst. cbn [filter].
  destruct (f a); [|apply IH; exact Hl]. cbn [map]. constructor; [|apply IH; exact Hl].
  intro Hin. apply Ha. apply (in_map_filter g f l _ Hin).
Qed.

Lemma nodup_app {A} (a b : list A) : NoDup a -> NoDup b -> (forall x, In x a -> ~ In x b) -> NoDup (a ++ b).
Proof.
  induction a as [|x a IH]; intros Ha Hb Hd; [exact Hb|]. inversion Ha as [|? ? Hx Ha']; subst. cbn [app]. constructor.
  - intro Hin. apply in_app_or in Hin. destruct Hin as [Hin | Hin]; [exact (Hx Hin) | exact (Hd x (or_introl eq_refl) Hin)].
  - apply IH; [exact Ha' | exact Hb |]. intros y Hy. apply Hd. right. exact Hy.
Qed.

Lemma defaults_codes s items :
  NoDup (map code_of (defaults s items))
  /\ forall c, In c (map code_of (defaults s items)) -> c <> 3 /\ has_code c items = false.
Proof.
  unfold defaults.
  destruct (has_code 1 items) eqn:E1, (has_code 2 items) eqn:E2, (has_code 5 items) eqn:E5, (ibgp s);
    cbn [app map code_of]; (split; [repeat constructor; cbn [In]; intuition discriminate |]);
    intros c Hc; cbn [In] in Hc; intuition (subst; try discriminate; try assumption).
Qed.

Lemma sent_nodup s nh items : no_nh items -> NoDup (map code_of items) ->
  NoDup (map code_of (sent_items s (INextHop nh :: items))).
Proof.
  intros Hn Hd.
  apply (Permutation_NoDup (Permutation_sym (Permutation_map code_of (sent_perm s nh items Hn)))).
  destruct (defaults_codes s items) as [Dn Dc].
  assert (N3 : ~ In 3 (map code_of items)).
  { intro Hin. apply in_map_iff in Hin. destruct Hin as [i [E Hi]]. unfold no_nh in Hn. rewrite Forall_forall in Hn. exact (Hn i Hi E). }
  rewrite map_app. unfold expected_items. rewrite map_app.
  apply nodup_app.
  - unfold kept_nh. destruct (length nh =? 4)%nat; repeat constructor. intros [].
  - apply nodup_app; [apply nodup_map_filter; exact Hd | exact Dn |].
    intros x Hx Hx2. apply in_map_filter in Hx. destruct (Dc x Hx2) as [_ Hc]. exact (has_code_in x items Hc Hx).
  - intros x Hx Hin. unfold kept_nh in Hx. destruct (length nh =? 4)%nat; [|destruct Hx]. destruct Hx as [<- | []]. cbn [code_of] in Hin.
    apply in_app_or in Hin. destruct Hin as [Hin | Hin].
    + apply in_map_filter in Hin. exact (N3 Hin).
    + destruct (Dc 3 Hin) as [H3 _]. exact (H3 eq_refl).
Qed.

Lemma perm_singleton {A} (x : A) l : Permutation l [x] -> l = [x].
Proof. intro H. apply Permutation_sym in H. apply Permutation_length_1_inv in H. exact H. Qed.

Lemma no_nh_of items : no_nh items -> flat_map nh_of items = [].
Proof.
  induction 1 as [|i l Hi Hl IH]; [reflexivity|]. cbn [flat_map]. rewrite IH. destruct i; try reflexivity. contradiction Hi. reflexivity.
Qed.

Lemma defaults_no_nh s items : no_nh (defaults s items).
Proof.
  unfold defaults, no_nh. apply Forall_app; split; [|apply Forall_app; split].
  - destruct (has_code 1 items); repeat constructor; discriminate.
  - destruct (has_code 2 items); repeat constructor; discriminate.
  - destruct (has_code 5 items); [constructor|]. destruct (ibgp s); repeat constructor; discriminate.
Qed.

Lemma sent_nh s nh items : no_nh items -> (length nh =? 4)%nat = true ->
  flat_map nh_of (sent_items s (INextHop nh :: items)) = [nh].
Proof.
  intros Hn H4. apply perm_singleton.
  eapply perm_trans; [apply Permutation_flat_map; apply (sent_perm s nh items Hn)|].
  unfold kept_nh. rewrite H4. cbn [app flat_map nh_of].
  assert (E : flat_map nh_of (expected_items s items) = []).
  { apply no_nh_of. unfold expected_items, no_nh. apply Forall_app. split; [apply Forall_filter; exact Hn | apply defaults_no_nh]. }
  rewrite E. apply Permutation_refl.
Qed.

(* ------------------------------------------------------------------ RFC 4271 4.3 framing *)

Definition decode_parts (rs : rsess) (wd at_ nl : list Z) : option update_sem :=
  match nlris (length wd) (rs_addpath rs 1 1) true 1 1 wd, tlvs (length at_) at_,
        nlris (length nl) (rs_addpath rs 1 1) false 1 1 nl with
  | Some w4, Some ts, Some a4 =>
    match interp_all rs ts with
    | None => None
    | Some ras =>
      match (match a4 with [] => Some [] | _ =>
               match find_nexthop ras with Some nh => Some (map (fun r => ((1, 1), r, nh)) a4) | None => None end
             end) with
      | None => None
      | Some ann4 =>
        Some (mkU
          (map (fun r => ((1, 1), r)) w4
           ++ flat_map (fun a => match a with RUnreach afi safi l => map (fun r => ((afi, safi), r)) l | _ => [] end) ras)
          (ann4
           ++ flat_map (fun a => match a with RReach afi safi nh l => map (fun r => ((afi, safi), r, nh)) l | _ => [] end) ras)
          (merge_as4 rs ras)
          (find_aspath ras)
          (find_as4path ras))
      end
    end
  | _, _, _ => None
  end.

Lemma ref_decode_frame rs wd at_ nl : zlen wd < 65536 -> zlen at_ < 65536 ->
  ref_decode rs (prefix16 wd ++ prefix16 at_ ++ nl) = decode_parts rs wd at_ nl.
Proof.
  intros Hw Ha. pose proof (zlen_nonneg wd). pose proof (zlen_nonneg at_).
  unfold ref_decode, prefix16. rewrite <- !app_assoc.
  rewrite (field_app 2 (be16 (zlen wd))) by reflexivity. rewrite be16_num by lia.
  rewrite field_app by reflexivity.
  rewrite (field_app 2 (be16 (zlen at_))) by reflexivity. rewrite be16_num by lia.
  rewrite field_app by reflexivity. reflexivity.
Qed.
(* ------------------------------------------------------------------ MP_REACH_NLRI / MP_UNREACH_NLRI *)

Lemma interp_c14 rs fl v : interp rs (fl, 14, v) =
  if fl / 64 =? 2 then
    match v with
    | a1 :: a2 :: safi :: nhl :: r =>
      let afi := a1 * 256 + a2 in
      match field nhl r with
      | Some (nh, 0 :: r2) =>
        match mp_nexthop rs afi safi nh, nlris (length r2) (rs_addpath rs afi safi) false afi safi r2 with
        | Some a, Some l => Some (RReach afi safi a l)
        | _, _ => None
        end
      | _ => None
      end
    | _ => None
    end
  else None.
Proof. reflexivity. Qed.

Lemma interp_c15 rs fl v : interp rs (fl, 15, v) =
  if fl / 64 =? 2 then
    match v with
    | a1 :: a2 :: safi :: r =>
      let afi := a1 * 256 + a2 in
      opt_map (RUnreach afi safi) (nlris (length r) (rs_addpath rs afi safi) true afi safi r)
    | _ => None
    end
  else None.
Proof. reflexivity. Qed.

Definition nh_fits (ext : Z -> Z -> bool) (n : nlri) (nh : list Z) : Prop :=
  (zlen nh = 4 /\ n_afi n = 1) \/ (zlen nh = 16 /\ (n_afi n = 2 \/ ext (n_afi n) (n_safi n) = true)).

Definition reach_payload (n : nlri) (nh packed : list Z) : list Z :=
  be16 (n_afi n) ++ [n_safi n; rd_size (n_afi n) (n_safi n) + zlen nh]
  ++ repeat 0 (Z.to_nat (rd_size (n_afi n) (n_safi n))) ++ nh ++ [0] ++ packed.

Lemma all_zero_repeat k : all_zero (repeat 0 k) = true.
Proof. induction k; [reflexivity|]. cbn [repeat all_zero forallb]. exact IHk. Qed.

Lemma mp_nexthop_ok s ext n nh : wf_nlri false n -> nh_fits ext n nh ->
  mp_nexthop (rs_of s ext) (n_afi n) (n_safi n) (repeat 0 (Z.to_nat (rd_size (n_afi n) (n_safi n))) ++ nh) = Some nh.
Proof.
  intros W F. destruct W as [Hafi Hsafi _ _ _ _ _ _].
  assert (Hbody : (if n_safi n =? 128
                   then if all_zero (take 8 (repeat 0 (Z.to_nat (rd_size (n_afi n) (n_safi n))) ++ nh))
                           && (8 <=? len (repeat 0 (Z.to_nat (rd_size (n_afi n) (n_safi n))) ++ nh))
                        then Some (drop 8 (repeat 0 (Z.to_nat (rd_size (n_afi n) (n_safi n))) ++ nh)) else None
                   else Some (repeat 0 (Z.to_nat (rd_size (n_afi n) (n_safi n))) ++ nh)) = Some nh).
  { pose proof (zlen_nonneg nh).
    destruct Hsafi as [E | [E | [E | E]]]; rewrite E; destruct Hafi as [A | A]; rewrite A; cbn [Z.eqb Pos.eqb rd_size andb Z.to_nat repeat app];
      try reflexivity.
    all: change (Pos.to_nat 8) with 8%nat; cbn [repeat app].
    all: unfold take, drop; change (Z.to_nat 8) with 8%nat; cbn [firstn skipn all_zero forallb Z.eqb andb].
    all: rewrite len_zlen, !zlen_cons; destruct (8 <=? 1 + (1 + (1 + (1 + (1 + (1 + (1 + (1 + zlen nh)))))))) eqn:E8; [reflexivity | exfalso; apply Z.leb_gt in E8; lia]. }
  unfold mp_nexthop. rewrite Hbody. rewrite !len_zlen.
  destruct F as [[L A] | [L A]]; rewrite L.
  - cbn [Z.eqb Pos.eqb]. rewrite A. reflexivity.
  - cbn [Z.eqb Pos.eqb orb]. cbn [rs_of rs_extnh].
    assert (T : take 16 nh = nh). { unfold take. apply firstn_all2. unfold zlen in L. lia. }
    rewrite T. destruct A as [A | A]; [rewrite A; reflexivity | rewrite A, orb_true_r; reflexivity].
Qed.

Lemma zlen_repeat k : zlen (repeat 0 k) = Z.of_nat k.
Proof. unfold zlen. rewrite repeat_length. reflexivity. Qed.

Lemma rd_size_nonneg a f : 0 <= rd_size a f.
Proof. destruct (rd_size_cases a f) as [E | E]; rewrite E; lia. Qed.

Lemma interp_reach s ext n nh : wf_nlri false n -> nh_fits ext n nh ->
  interp (rs_of s ext) (seen (128, 14, reach_payload n nh (pack_nlri (send_pid s n) n)))
  = Some (RReach (n_afi n) (n_safi n) nh [sem_nlri (send_pid s n) false n]).
Proof.
  intros W F.
  pose proof (mp_nexthop_ok s ext n nh W F) as HNH.
  pose proof (nlris_one (send_pid s n) false n W (length (pack_nlri (send_pid s n) n)) (le_n _)) as HN.
  pose proof (rd_size_nonneg (n_afi n) (n_safi n)) as Hrd.
  cbn [seen]. rewrite interp_c14, eff128. cbn [Z.eqb Pos.eqb].
  unfold reach_payload, be16. cbn [app]. cbv zeta.
  assert (EA : (n_afi n / 256) mod 256 * 256 + n_afi n mod 256 = n_afi n).
  { destruct W as [[A | A] _ _ _ _ _ _ _]; rewrite A; reflexivity. }
  rewrite EA.
  rewrite app_assoc. rewrite field_app.
  2:{ rewrite zlen_app, zlen_repeat. lia. }
  cbn [app]. rewrite HNH.
  change (rs_addpath (rs_of s ext) (n_afi n) (n_safi n)) with (send_pid s n). rewrite HN. reflexivity.
Qed.

Definition unreach_payload (n : nlri) (packed : list Z) : list Z := be16 (n_afi n) ++ [n_safi n] ++ packed.

Lemma interp_unreach s ext n : wf_nlri true n ->
  interp (rs_of s ext) (seen (128, 15, unreach_payload n (pack_nlri (send_pid s n) n)))
  = Some (RUnreach (n_afi n) (n_safi n) [sem_nlri (send_pid s n) true n]).
Proof.
  intro W.
  pose proof (nlris_one (send_pid s n) true n W (length (pack_nlri (send_pid s n) n)) (le_n _)) as HN.
  cbn [seen]. rewrite interp_c15, eff128. cbn [Z.eqb Pos.eqb].
  unfold unreach_payload, be16. cbn [app]. cbv zeta.
  assert (EA : (n_afi n / 256) mod 256 * 256 + n_afi n mod 256 = n_afi n).
  { destruct W as [[A | A] _ _ _ _ _ _ _]; rewrite A; reflexivity. }
  rewrite EA. change (rs_addpath (rs_of s ext) (n_afi n) (n_safi n)) with (send_pid s n). rewrite HN. reflexivity.
Qed.

Lemma mp_len code payload : zlen (mp_header code (zlen payload) ++ payload) = mp_attr_len (zlen payload).
Proof. unfold mp_header, mp_attr_len, be16. destruct (255 <? zlen payload); cbn [app]; rewrite ?zlen_cons; lia. Qed.
(* ------------------------------------------------------------------ the UPDATE of one announced route *)

Record wf_route (ext : Z -> Z -> bool) (s : sess) (r : route) : Prop := mkWR {
  wr_nlri : wf_nlri false (r_nlri r);
  wr_items : Forall wf_item (r_items r);
  wr_no_nh : no_nh (r_items r);
  wr_las : wf_defaults s;
  wr_msg : s_msg s <= 65535;
  wr_nh : nh_fits ext (r_nlri r) (resolve s (n_afi (r_nlri r)) (r_nh r));
  wr_small : dict_route s (r_items r)
}.

(* the attribute part shared by both shapes of the message *)
Lemma attrs_decode s ext nh items :
  Forall wf_item items -> no_nh items -> wf_defaults s -> dict_route s items ->
  let its := sent_items s (INextHop nh :: items) in
  let tls := flat_map (item_tls s) its in
  let ras := flat_map (item_ras s) its in
  pack_attrs s true (INextHop nh :: items) = flat_map emit tls
  /\ Forall tl_ok tls
  /\ interp_all (rs_of s ext) (map seen tls) = Some ras
  /\ merge_as4 (rs_of s ext) ras = flat_map sem_item its
  /\ Permutation (flat_map sem_item its) (flat_map sem_item (expected_items s items))
  /\ forallb (fun a => negb (ras_mp a)) ras = true
  /\ ((length nh =? 4)%nat = true -> find_nexthop ras = Some nh).
Proof.
  intros Wi Wn Wd Ws its tls ras.
  pose proof (sent_wf s nh items Wn Wi Wd) as Wsent.
  destruct (interp_items s ext its Wsent) as [Tok Tint].
  assert (Rmerge : merge_as4 (rs_of s ext) ras = flat_map sem_item its).
  { destruct Ws as [Ws | Ws].
    - pose proof (sent_small s nh items Wn Ws) as Ssm. destruct (items_ras_small s its Ssm) as [Rno Rsem].
      subst ras. rewrite (merge_plain _ _ Rno). exact Rsem.
    - apply merge_items. apply sent_nodup; assumption. }
  repeat split.
  - unfold pack_attrs. apply pack_items_tls.
  - exact Tok.
  - exact Tint.
  - exact Rmerge.
  - apply sent_sem. exact Wn.
  - apply items_ras_no_mp.
  - intro H4. rewrite find_nexthop_hd. subst ras its. rewrite items_ras_nh, (sent_nh s nh items Wn H4). reflexivity.
Qed.

Lemma nlris_nil ap w a f : nlris (length (@nil Z)) ap w a f [] = Some [].
Proof. reflexivity. Qed.

Lemma plain_cases mc n : plain_family mc n = true -> (mc = false \/ ~ (n_afi n = 1 /\ n_safi n = 2)) -> n_afi n = 1 /\ n_safi n = 1.
Proof.
  unfold plain_family. intros H Hm. apply andb_prop in H. destruct H as [Ha Hs]. apply Z.eqb_eq in Ha.
  apply orb_prop in Hs. destruct Hs as [Hs | Hs]; [apply Z.eqb_eq in Hs; tauto|].
  apply andb_prop in Hs. destruct Hs as [Hmc Hs]. apply Z.eqb_eq in Hs. destruct Hm as [Hm | Hm]; [congruence | tauto].
Qed.

Lemma nh_wire_fits v4m ext n nh : nh_fits ext n nh -> nh_wire v4m (n_afi n) nh = nh.
Proof.
  intro F. unfold nh_wire. destruct v4m; [|reflexivity]. cbn [andb].
  destruct F as [[L A] | [L A]].
  - rewrite A. reflexivity.
  - assert (E : (length nh =? 4)%nat = false) by (apply Nat.eqb_neq; unfold zlen in L; lia).
    rewrite E, andb_false_r. reflexivity.
Qed.

Theorem announce_decodes mc v4m ext s r body :
  wf_route ext s r ->
  (mc = false \/ ~ (n_afi (r_nlri r) = 1 /\ n_safi (r_nlri r) = 2)) ->
  encode_announce mc v4m s r = Some body ->
  exists u, ref_decode (rs_of s ext) body = Some u
    /\ u_withdrawn u = []
    /\ u_announced u = [((n_afi (r_nlri r), n_safi (r_nlri r)), sem_nlri (send_pid s (r_nlri r)) false (r_nlri r),
                         resolve s (n_afi (r_nlri r)) (r_nh r))]
    /\ Permutation (u_attrs u) (flat_map sem_item (expected_items s (r_items r)))
    /\ u_attrs u = flat_map sem_item (sent_items s (items_of s r)).
Proof.
  intros [Wn Wi Wno Wd Wm Wnh Ws] Hmc Henc.
  unfold encode_announce in Henc. unfold items_of in Henc.
  set (n := r_nlri r) in *. set (nh := resolve s (n_afi n) (r_nh r)) in *.
  rewrite (nh_wire_fits v4m ext n nh Wnh) in Henc.
  destruct (attrs_decode s ext nh (r_items r) Wi Wno Wd Ws) as [Eattr [Tok [Tint [Rno [Rperm [Rmp Rnh]]]]]].
  set (its := sent_items s (INextHop nh :: r_items r)) in *.
  set (tls := flat_map (item_tls s) its) in *. set (ras := flat_map (item_ras s) its) in *.
  set (attr := pack_attrs s true (INextHop nh :: r_items r)) in *.
  pose proof (zlen_nonneg attr) as Ha0.
  destruct (s_msg s - 19 - 2 - 2 - zlen attr <=? 0) eqn:Eroom; [discriminate|]. apply Z.leb_gt in Eroom.
  destruct (no_mp_reach ras Rmp) as [Rreach Runreach]. unfold reach_of in Rreach. unfold unreach_of in Runreach.
  destruct (plain_family mc n && (length nh =? 4)%nat) eqn:EP.
  - (* IPv4 NLRI field *)
    apply andb_prop in EP. destruct EP as [Epl E4]. destruct (plain_cases mc n Epl Hmc) as [Eafi Esafi].
    destruct (zlen (pack_nlri (send_pid s n) n) <=? s_msg s - 19 - 2 - 2 - zlen attr); [|discriminate].
    assert (Hb : prefix16 [] ++ prefix16 attr ++ pack_nlri (send_pid s n) n = body) by congruence. rewrite <- Hb. clear Hb Henc.
    rewrite ref_decode_frame by (rewrite ?zlen_nil; lia).
    unfold decode_parts. rewrite nlris_nil.
    rewrite Eattr.
    pose proof (tlvs_emit tls [] [] Tok tlvs_nil (length (flat_map emit tls))) as HT. rewrite !app_nil_r in HT.
    rewrite (HT (le_n _)). clear HT.
    pose proof (nlris_one (send_pid s n) false n Wn (length (pack_nlri (send_pid s n) n)) (le_n _)) as HN.
    rewrite Eafi, Esafi in HN.
    assert (Esp : s_ap s 1 1 = send_pid s n) by (unfold send_pid; rewrite Eafi, Esafi; reflexivity).
    change (rs_addpath (rs_of s ext) 1 1) with (s_ap s 1 1). rewrite Esp, HN. rewrite Tint. rewrite (Rnh E4).
    eexists. split; [reflexivity|]. cbn [u_withdrawn u_announced u_attrs map app].
    split; [exact Runreach|]. split.
    + rewrite Eafi, Esafi. apply (f_equal2 cons); [reflexivity | exact Rreach].
    + rewrite Rno. split; [exact Rperm | reflexivity].
  - (* MP_REACH_NLRI *)
    fold (reach_payload n nh (pack_nlri (send_pid s n) n)) in Henc.
    set (payload := reach_payload n nh (pack_nlri (send_pid s n) n)) in *.
    destruct (s_msg s - 19 - 2 - 2 - zlen attr <? mp_attr_len (zlen payload)) eqn:Efit; [discriminate|]. apply Z.ltb_ge in Efit.
    assert (Hb : prefix16 [] ++ prefix16 (attr ++ mp_header 14 (zlen payload) ++ payload) = body) by congruence. rewrite <- Hb. clear Hb Henc.
    pose proof (mp_len 14 payload) as Hmp. pose proof (zlen_nonneg payload) as Hp0.
    assert (Hpl : zlen payload < 65536) by (unfold mp_attr_len in Efit; destruct (255 <? zlen payload); lia).
    rewrite <- (app_nil_r (prefix16 (attr ++ mp_header 14 (zlen payload) ++ payload))).
    rewrite ref_decode_frame by (first [rewrite zlen_nil; lia | rewrite zlen_app, Hmp; lia]).
    unfold decode_parts. rewrite nlris_nil.
    rewrite Eattr, mp_header_tl.
    assert (Eall : flat_map emit tls ++ emit (128, 14, payload) = flat_map emit (tls ++ [(128, 14, payload)])).
    { rewrite flat_map_app. cbn [flat_map]. rewrite !app_nil_r. reflexivity. }
    rewrite Eall.
    assert (Tok2 : Forall tl_ok (tls ++ [(128, 14, payload)])) by (apply Forall_app; split; [exact Tok | repeat constructor; exact Hpl]).
    pose proof (tlvs_emit (tls ++ [(128, 14, payload)]) [] [] Tok2 tlvs_nil (length (flat_map emit (tls ++ [(128, 14, payload)])))) as HT.
    rewrite !app_nil_r in HT. rewrite (HT (le_n _)). clear HT.
    rewrite map_app.
    rewrite (interp_all_app _ _ _ ras [RReach (n_afi n) (n_safi n) nh [sem_nlri (send_pid s n) false n]] Tint).
    2:{ cbn [map interp_all]. subst payload. rewrite (interp_reach s ext n nh Wn Wnh). reflexivity. }
    eexists. split; [reflexivity|]. cbn [u_withdrawn u_announced u_attrs map app].
    rewrite !flat_map_app. cbn [flat_map map app]. rewrite !app_nil_r. split; [|split].
    + exact Runreach.
    + apply (f_equal (fun l => l ++ [(n_afi n, n_safi n, sem_nlri (send_pid s n) false n, nh)]) Rreach).
    + rewrite merge_mp_back, Rno. split; [exact Rperm | reflexivity].
Qed.
(* ------------------------------------------------------------------ the UPDATE of one withdrawn route *)

Lemma tlvs_nil0 : tlvs (length (@nil Z)) [] = Some [].
Proof. reflexivity. Qed.

Theorem withdraw_decodes mc ext s r body :
  wf_nlri true (r_nlri r) -> Forall wf_item (r_items r) -> no_nh (r_items r) -> wf_defaults s -> s_msg s <= 65535 ->
  dict_route s (r_items r) ->
  (mc = false \/ ~ (n_afi (r_nlri r) = 1 /\ n_safi (r_nlri r) = 2)) ->
  encode_withdraw mc s (r_nlri r) (items_of s r) = Some body ->
  exists u, ref_decode (rs_of s ext) body = Some u
    /\ u_withdrawn u = [((n_afi (r_nlri r), n_safi (r_nlri r)), sem_nlri (send_pid s (r_nlri r)) true (r_nlri r))]
    /\ u_announced u = []
    /\ (n_safi (r_nlri r) = 1 \/ n_safi (r_nlri r) = 2 -> u_attrs u = [])
    /\ (n_safi (r_nlri r) = 4 \/ n_safi (r_nlri r) = 128 ->
        Permutation (u_attrs u) (flat_map sem_item (expected_items s (r_items r)))).
Proof.
  intros Wn Wi Wno Wd Wm Ws Hmc Henc.
  unfold encode_withdraw in Henc. unfold items_of in Henc.
  set (n := r_nlri r) in *. set (nh := resolve s (n_afi n) (r_nh r)) in *.
  destruct (attrs_decode s ext nh (r_items r) Wi Wno Wd Ws) as [Eattr [Tok [Tint [Rno [Rperm [Rmp Rnh]]]]]].
  set (its := sent_items s (INextHop nh :: r_items r)) in *.
  set (tls := flat_map (item_tls s) its) in *. set (ras := flat_map (item_ras s) its) in *.
  pose proof (nlris_one (send_pid s n) true n Wn (length (pack_nlri (send_pid s n) n)) (le_n _)) as HN.
  destruct (plain_family mc n) eqn:Epl.
  - (* Withdrawn Routes field *)
    destruct (plain_cases mc n Epl Hmc) as [Eafi Esafi].
    set (attr := pack_attrs s true (INextHop nh :: r_items r)) in *. pose proof (zlen_nonneg attr) as Ha0.
    destruct (s_msg s - 19 - 2 - 2 - zlen attr <=? 0) eqn:Eroom; [discriminate|]. apply Z.leb_gt in Eroom.
    destruct (zlen (pack_nlri (send_pid s n) n) <=? s_msg s - 19 - 2 - 2 - zlen attr) eqn:Efit; [|discriminate]. apply Z.leb_le in Efit.
    assert (Hb : prefix16 (pack_nlri (send_pid s n) n) ++ prefix16 [] = body) by congruence. rewrite <- Hb. clear Hb Henc.
    rewrite <- (app_nil_r (prefix16 [])).
    rewrite ref_decode_frame by (rewrite ?zlen_nil; lia).
    unfold decode_parts. rewrite nlris_nil, tlvs_nil0.
    rewrite Eafi, Esafi in HN.
    assert (Esp : s_ap s 1 1 = send_pid s n) by (unfold send_pid; rewrite Eafi, Esafi; reflexivity).
    change (rs_addpath (rs_of s ext) 1 1) with (s_ap s 1 1). rewrite Esp, HN.
    cbn [interp_all]. eexists. split; [reflexivity|]. cbn [u_withdrawn u_announced u_attrs map app flat_map merge_as4].
    rewrite Eafi, Esafi. repeat split. intros [E | E]; discriminate E.
  - (* MP_UNREACH_NLRI *)
    fold (unreach_payload n (pack_nlri (send_pid s n) n)) in Henc.
    set (payload := unreach_payload n (pack_nlri (send_pid s n) n)) in *.
    set (wdf := negb ((n_safi n =? 1) || (n_safi n =? 2))) in *.
    assert (Hparts : exists tls' ras', pack_attrs s wdf (INextHop nh :: r_items r) = flat_map emit tls' /\ Forall tl_ok tls'
              /\ interp_all (rs_of s ext) (map seen tls') = Some ras'
              /\ forallb (fun a => negb (ras_mp a)) ras' = true /\ (wdf = false -> ras' = [])
              /\ (wdf = true -> Permutation (merge_as4 (rs_of s ext) ras') (flat_map sem_item (expected_items s (r_items r))))).
    { destruct wdf.
      - exists tls, ras. repeat split; try assumption; try discriminate. intros _. rewrite Rno. exact Rperm.
      - exists [], []. repeat split; try constructor. discriminate. }
    destruct Hparts as [tls' [ras' [Eattr' [Tok' [Tint' [Rmp' [Rnil Rfull]]]]]]].
    set (attr := pack_attrs s wdf (INextHop nh :: r_items r)) in *. pose proof (zlen_nonneg attr) as Ha0.
    destruct (s_msg s - 19 - 2 - 2 - zlen attr <=? 0) eqn:Eroom; [discriminate|]. apply Z.leb_gt in Eroom.
    destruct (s_msg s - 19 - 2 - 2 - zlen attr <? mp_attr_len (zlen payload)) eqn:Efit; [discriminate|]. apply Z.ltb_ge in Efit.
    assert (Hb : prefix16 [] ++ prefix16 (mp_header 15 (zlen payload) ++ payload ++ attr) = body) by congruence.
    rewrite <- Hb. clear Hb Henc.
    pose proof (mp_len 15 payload) as Hmp. pose proof (zlen_nonneg payload) as Hp0.
    assert (Hpl : zlen payload < 65536) by (unfold mp_attr_len in Efit; destruct (255 <? zlen payload); lia).
    rewrite <- (app_nil_r (prefix16 (mp_header 15 (zlen payload) ++ payload ++ attr))).
    rewrite ref_decode_frame.
    2:{ rewrite zlen_nil. lia. }
    2:{ rewrite app_assoc, zlen_app, Hmp. lia. }
    unfold decode_parts. rewrite nlris_nil.
    rewrite app_assoc, mp_header_tl, Eattr'.
    assert (Eall : emit (128, 15, payload) ++ flat_map emit tls' = flat_map emit ((128, 15, payload) :: tls')) by reflexivity.
    rewrite Eall.
    assert (Tok2 : Forall tl_ok ((128, 15, payload) :: tls')) by (constructor; [exact Hpl | exact Tok']).
    pose proof (tlvs_emit ((128, 15, payload) :: tls') [] [] Tok2 tlvs_nil (length (flat_map emit ((128, 15, payload) :: tls')))) as HT.
    rewrite !app_nil_r in HT. rewrite (HT (le_n _)). clear HT.
    cbn [map interp_all]. subst payload. rewrite (interp_unreach s ext n Wn). rewrite Tint'.
    destruct (no_mp_reach ras' Rmp') as [Rreach Runreach]. unfold reach_of in Rreach. unfold unreach_of in Runreach.
    eexists. split; [reflexivity|]. cbn [u_withdrawn u_announced u_attrs map app flat_map]. split; [|split; [|split]].
    + apply (f_equal (fun l => [(n_afi n, n_safi n, sem_nlri (send_pid s n) true n)] ++ l) Runreach).
    + exact Rreach.
    + intro Hs. assert (Ew : wdf = false).
      { subst wdf. destruct Hs as [E | E]; rewrite E; reflexivity. }
      rewrite (Rnil Ew). reflexivity.
    + intro Hs. assert (Ew : wdf = true).
      { subst wdf. destruct Hs as [E | E]; rewrite E; reflexivity. }
      rewrite merge_mp_front. exact (Rfull Ew).
Qed.
(* ------------------------------------------------------------------ RFC 6793: AS_TRANS + AS4_PATH to a 2-byte peer *)

Theorem as4_pair s ext segs :
  s_asn4 s = false -> Forall seg_in segs -> zlen (pack_segs true (path_segments segs)) < 65536 ->
  exists ts ras,
    tlvs (length (pack_item s (IAsPath segs))) (pack_item s (IAsPath segs)) = Some ts
    /\ interp_all (rs_of s ext) ts = Some ras
    /\ find_aspath ras = Some (trans_path (path_segments segs))
    /\ Forall (seg_ok 65536) (trans_path (path_segments segs))
    /\ find_as4path ras = (if has_large segs then Some (path_segments segs) else None)
    /\ merge_as4 (rs_of s ext) ras = [SAsPath (path_segments segs)].
Proof.
  intros A4 Wp Wl.
  destruct (interp_item s ext (IAsPath segs) (conj Wp Wl)) as [Tok Tint].
  rewrite pack_item_tls.
  pose proof (tlvs_emit (item_tls s (IAsPath segs)) [] [] Tok tlvs_nil (length (flat_map emit (item_tls s (IAsPath segs))))) as HT.
  rewrite !app_nil_r in HT.
  exists (map seen (item_tls s (IAsPath segs))), (item_ras s (IAsPath segs)).
  split; [apply HT; apply le_n|]. split; [exact Tint|].
  pose proof (merge_items s ext [IAsPath segs] ltac:(repeat constructor; intros [])) as HM.
  cbn [flat_map] in HM. rewrite !app_nil_r in HM.
  rewrite <- has_large_split.
  cbn [item_ras] in *. rewrite A4 in *. split; [reflexivity|]. split; [apply trans_path_ok; apply path_segments_ok; exact Wp|].
  split; [|exact HM].
  destruct (has_large (path_segments segs)); reflexivity.
Qed.

(* ------------------------------------------------------------------ flags of a generic attribute *)

Lemma clear16_eff f d : clear16 (eff_flag f d) = clear16 f.
Proof.
  unfold eff_flag. destruct (255 <? zlen d); [|reflexivity].
  unfold set_bit, has_bit, clear16. destruct ((f / 16) mod 2 =? 1) eqn:E; [rewrite E; reflexivity|].
  assert (H : (f + 16) / 16 = f / 16 + 1) by (replace (f + 16) with (f + 1 * 16) by lia; apply Z.div_add; lia).
  rewrite H. pose proof (Z.mod_pos_bound (f / 16) 2 ltac:(lia)) as Hb. apply Z.eqb_neq in E.
  assert (H0 : (f / 16) mod 2 = 0) by lia.
  replace (f / 16 + 1) with (1 + f / 16) by lia. rewrite <- Zplus_mod_idemp_r, H0. cbn. lia.
Qed.

(* ------------------------------------------------------------------ ipv4 multicast in the plain IPv4 field (mc = true) *)

Definition mc_sess : sess := mkS 65001 65002 true (fun _ _ => false) 4096 [10;9;8;7] [].
Definition mc_route : route := mkRt (mkN 1 2 None [] [] 24 [224;0;0]) (NhIp [1;2;3;4]) [].

Lemma mc_route_wf ext : wf_route ext mc_sess mc_route.
Proof.
  constructor.
  - constructor; cbn; try tauto; try lia; try reflexivity.
  - constructor.
  - constructor.
  - unfold wf_defaults, in32. cbn. lia.
  - cbn. lia.
  - left. split; reflexivity.
  - left. left. reflexivity.
Qed.

Lemma multicast_refuted :
  exists body u, encode_announce true false mc_sess mc_route = Some body
    /\ ref_decode (rs_of mc_sess (fun _ _ => false)) body = Some u
    /\ map (fun a => fst (fst a)) (u_announced u) = [(1, 1)]
    /\ (n_afi (r_nlri mc_route), n_safi (r_nlri mc_route)) = (1, 2).
Proof. eexists. eexists. split; [vm_compute; reflexivity|]. split; [vm_compute; reflexivity|]. split; reflexivity. Qed.

(* non-vacuity: an ipv6 VPN route with a path id, a 4-byte ASN in its path, communities - on an iBGP ASN4 session *)
Definition ex_sess : sess := mkS 70000 70000 true (fun a f => (a =? 2) && (f =? 128)) 4096 [] [32;1;13;184;0;9;0;0;0;0;0;0;0;0;0;7].
Definition ex_route : route :=
  mkRt (mkN 2 128 (Some [0;0;0;5]) [1601] [0;0;253;232;0;0;0;1] 32 [32;1;13;184]) NhSelf
       [IAsPath [(2, [65010; 4200000000])]; IMed 5; ICommunity [4294967041; 4259840001]].

Lemma ex_route_ok :
  wf_route (fun _ _ => false) ex_sess ex_route
  /\ exists body, encode_announce false false ex_sess ex_route = Some body /\ zlen body = 98.
Proof.
  split.
  - constructor.
    + constructor; cbn; try tauto; try lia; try reflexivity.
    + repeat constructor; cbn; unfold in32; lia.
    + repeat constructor; discriminate.
    + unfold wf_defaults, in32. cbn. lia.
    + cbn. lia.
    + right. split; [reflexivity | left; reflexivity].
    + left. left. reflexivity.
  - eexists. split; [vm_compute; reflexivity | reflexivity].
Qed.
(* ------------------------------------------------------------------ ADD-PATH *)

Definition requested_pid (n : nlri) : Z := match n_pid n with Some b => num b | None => 0 end.

Lemma pathid_lemma s n :
  match n_pid n with Some b => zlen b = 4 | None => True end ->
  let send := send_pid s n in
  r_pid (sem_nlri send false n) = (if send then Some (requested_pid n) else None)
  /\ zlen (pack_nlri send n) = zlen (body n) + (if send then 4 else 0).
Proof.
  intros Hp send. unfold sem_nlri, requested_pid, pack_nlri. cbn [r_pid]. destruct send.
  - split; [destruct (n_pid n); reflexivity|]. rewrite zlen_app. destruct (n_pid n); [rewrite Hp|change (zlen [0;0;0;0]) with 4]; lia.
  - split; [reflexivity | lia].
Qed.

(* the property's expected attribute values, spelled out *)
Definition expected_attrs (s : sess) (given : list item) : list sattr :=
  flat_map sem_item
    (filter (fun i => negb ((code_of i =? 5) && negb (s_las s =? s_pas s))) given
     ++ (if has_code 1 given then [] else [IOrigin 0])
     ++ (if has_code 2 given then [] else [IAsPath (if s_las s =? s_pas s then [] else [(2, [s_las s])])])
     ++ (if has_code 5 given then [] else if s_las s =? s_pas s then [ILocalPref 100] else [])).

Lemma expected_attrs_eq s given : expected_attrs s given = flat_map sem_item (expected_items s given).
Proof. reflexivity. Qed.

Theorem announce_decodes' mc v4m ext s r body :
  wf_route ext s r ->
  (mc = false \/ ~ (n_afi (r_nlri r) = 1 /\ n_safi (r_nlri r) = 2)) ->
  encode_announce mc v4m s r = Some body ->
  exists u, ref_decode (rs_of s ext) body = Some u
    /\ u_withdrawn u = []
    /\ u_announced u = [((n_afi (r_nlri r), n_safi (r_nlri r)), sem_nlri (send_pid s (r_nlri r)) false (r_nlri r),
                         resolve s (n_afi (r_nlri r)) (r_nh r))]
    /\ Permutation (u_attrs u) (expected_attrs s (r_items r))
    /\ u_attrs u = flat_map sem_item (sent_items s (items_of s r)).
Proof. intros. rewrite expected_attrs_eq. eapply announce_decodes; eassumption. Qed.

(* non-vacuity of the dict branch: 4-byte ASNs (path, aggregator, local AS) to a 2-byte eBGP peer *)
Definition ex2_sess : sess := mkS 70000 65002 false (fun _ _ => false) 4096 [10;9;8;7] [].
Definition ex2_route : route :=
  mkRt (mkN 1 1 None [] [] 24 [10;0;0]) NhSelf
       [IAsPath [(2, [70000; 65010; 4200000000])]; IAggregator 4200000000 [1;1;1;1]; ILocalPref 200].

Lemma ex2_route_ok :
  wf_route (fun _ _ => false) ex2_sess ex2_route
  /\ ~ small_route ex2_sess (r_items ex2_route)
  /\ exists body, encode_announce false false ex2_sess ex2_route = Some body /\ zlen body = 67.
Proof.
  split; [|split].
  - constructor.
    + constructor; cbn; try tauto; try lia; try reflexivity.
    + repeat constructor; cbn; unfold in32; lia.
    + repeat constructor; discriminate.
    + unfold wf_defaults, in32. cbn. lia.
    + cbn. lia.
    + left. split; reflexivity.
    + right. cbn. repeat constructor; cbn; intuition discriminate.
  - intros [H | [H _]]; discriminate H.
  - eexists. split; [vm_compute; reflexivity | reflexivity].
Qed.

(* ------------------------------------------------------------------ the message fits the negotiated size *)

Lemma prefix16_len b : zlen (prefix16 b) = 2 + zlen b.
Proof. unfold prefix16. rewrite zlen_app. reflexivity. Qed.

Theorem announce_fits mc v4m s r body : encode_announce mc v4m s r = Some body -> 19 + zlen body <= s_msg s.
Proof.
  unfold encode_announce. intro H.
  set (attr := pack_attrs s true (items_of s r)) in *.
  destruct (s_msg s - 19 - 2 - 2 - zlen attr <=? 0) eqn:Eroom; [discriminate|].
  destruct (plain_family mc (r_nlri r) && _).
  - destruct (zlen _ <=? _) eqn:E; [|discriminate]. apply Z.leb_le in E. apply (f_equal (fun o => match o with Some b => zlen b | None => 0 end)) in H; cbv beta iota in H; rewrite <- H.
    rewrite !zlen_app, !prefix16_len, zlen_nil. lia.
  - match type of H with context [mp_attr_len (zlen ?p)] => set (payload := p) in * end.
    destruct (_ <? mp_attr_len (zlen payload)) eqn:E; [discriminate|]. apply Z.ltb_ge in E. apply (f_equal (fun o => match o with Some b => zlen b | None => 0 end)) in H; cbv beta iota in H; rewrite <- H.
    rewrite zlen_app, !prefix16_len, zlen_nil, zlen_app, mp_len. lia.
Qed.

Theorem withdraw_fits mc s n items body : encode_withdraw mc s n items = Some body -> 19 + zlen body <= s_msg s.
Proof.
  unfold encode_withdraw. intro H.
  destruct (plain_family mc n).
  - set (attr := pack_attrs s true items) in *. pose proof (zlen_nonneg attr).
    destruct (_ <=? 0) eqn:Eroom; [discriminate|].
    destruct (zlen _ <=? _) eqn:E; [|discriminate]. apply Z.leb_le in E. apply (f_equal (fun o => match o with Some b => zlen b | None => 0 end)) in H; cbv beta iota in H; rewrite <- H.
    rewrite zlen_app, !prefix16_len, zlen_nil. lia.
  - match type of H with context [pack_attrs s ?w items] => set (attr := pack_attrs s w items) in * end.
    destruct (_ <=? 0) eqn:Eroom; [discriminate|].
    match type of H with context [mp_attr_len (zlen ?p)] => set (payload := p) in * end.
    destruct (_ <? mp_attr_len (zlen payload)) eqn:E; [discriminate|]. apply Z.ltb_ge in E. apply (f_equal (fun o => match o with Some b => zlen b | None => 0 end)) in H; cbv beta iota in H; rewrite <- H.
    rewrite zlen_app, !prefix16_len, zlen_nil, app_assoc, zlen_app, mp_len. lia.
Qed.

(* ------------------------------------------------------------------ the order in which the attributes were written does not matter *)

Lemma code_le_trans : Relations_1.Transitive code_le.
Proof. intros a b c. unfold code_le. lia. Qed.

Lemma sorted_perm_unique : forall l l', Sorted code_le l -> Sorted code_le l' -> Permutation l l' ->
  NoDup (map code_of l) -> l = l'.
Proof.
  induction l as [|x t IH]; intros l' Hs Hs' Hp Hn.
  - apply Permutation_nil in Hp. symmetry. exact Hp.
  - destruct l' as [|y t']; [apply Permutation_sym, Permutation_nil in Hp; discriminate|].
    assert (Exy : x = y).
    { pose proof (Sorted_StronglySorted code_le_trans Hs) as SS. pose proof (Sorted_StronglySorted code_le_trans Hs') as SS'.
      inversion SS as [|? ? _ Fx]; subst. inversion SS' as [|? ? _ Fy]; subst.
      assert (Hx : In x (y :: t')) by (apply (Permutation_in _ Hp); left; reflexivity).
      assert (Hy : In y (x :: t)) by (apply (Permutation_in _ (Permutation_sym Hp)); left; reflexivity).
      destruct Hx as [-> | Hx]; [reflexivity|]. destruct Hy as [-> | Hy]; [reflexivity|].
      rewrite Forall_forall in Fx, Fy. pose proof (Fx y Hy) as L1. pose proof (Fy x Hx) as L2. unfold code_le in *.
      symmetry. apply (nodup_code_eq (x :: t) x y Hn); [left; reflexivity | right; exact Hy | lia]. }
    subst y. f_equal. apply IH.
    + inversion Hs; assumption.
    + inversion Hs'; assumption.
    + apply (Permutation_cons_inv Hp).
    + cbn [map] in Hn. inversion Hn; assumption.
Qed.

Lemma sort_items_perm_eq a b : Permutation a b -> NoDup (map code_of a) -> sort_items a = sort_items b.
Proof.
  intros Hp Hn. apply sorted_perm_unique; try apply sort_items_sorted.
  - eapply perm_trans; [apply sort_items_perm|]. eapply perm_trans; [exact Hp|]. apply Permutation_sym, sort_items_perm.
  - apply (Permutation_NoDup (Permutation_sym (Permutation_map code_of (sort_items_perm a)))). exact Hn.
Qed.

Lemma existsb_perm {A} (f : A -> bool) l l' : Permutation l l' -> existsb f l = existsb f l'.
Proof.
  induction 1 as [| x l l' _ IH | x y l | l l' l'' _ IH1 _ IH2]; cbn [existsb]; try reflexivity.
  - rewrite IH. reflexivity.
  - destruct (f x), (f y); reflexivity.
  - rewrite IH1. exact IH2.
Qed.

Lemma filter_perm {A} (f : A -> bool) l l' : Permutation l l' -> Permutation (filter f l) (filter f l').
Proof.
  induction 1 as [| x l l' _ IH | x y l | l l' l'' _ IH1 _ IH2]; cbn [filter].
  - constructor.
  - destruct (f x); [apply perm_skip|]; exact IH.
  - destruct (f x), (f y); try apply Permutation_refl. apply perm_swap.
  - eapply perm_trans; eassumption.
Qed.

Lemma defaults_perm s l l' : Permutation l l' -> defaults s l = defaults s l'.
Proof. intro H. unfold defaults, has_code. rewrite !(existsb_perm _ l l' H). reflexivity. Qed.

Lemma all_items_nodup s items : NoDup (map code_of items) -> NoDup (map code_of (items ++ defaults s items)).
Proof.
  intro Hn. destruct (defaults_codes s items) as [Dn Dc]. rewrite map_app. apply nodup_app; [exact Hn | exact Dn |].
  intros x Hx Hx2. destruct (Dc x Hx2) as [_ Hc]. exact (has_code_in x items Hc Hx).
Qed.

Theorem attrs_order_independent s items items' :
  Permutation items items' -> NoDup (map code_of items) -> pack_attrs s true items = pack_attrs s true items'.
Proof.
  intros Hp Hn. unfold pack_attrs, sent_items. f_equal. apply sort_items_perm_eq.
  - apply filter_perm. rewrite (defaults_perm s items items' Hp). apply Permutation_app_tail. exact Hp.
  - apply nodup_map_filter. apply all_items_nodup. exact Hn.
Qed.

(* ------------------------------------------------------------------ a route is sent exactly when its UPDATE fits *)

(* the length of the UPDATE (header included) that carries the announce *)
Definition announce_size (mc v4m : bool) (s : sess) (r : route) : Z :=
  let n := r_nlri r in
  let nh := resolve s (n_afi n) (r_nh r) in
  let packed := pack_nlri (send_pid s n) n in
  23 + zlen (pack_attrs s true (items_of s r))
  + (if plain_family mc n && (length nh =? 4)%nat then zlen packed
     else let nhw := nh_wire v4m (n_afi n) nh in
          mp_attr_len (zlen (be16 (n_afi n) ++ [n_safi n; rd_size (n_afi n) (n_safi n) + zlen nhw]
                             ++ repeat 0 (Z.to_nat (rd_size (n_afi n) (n_safi n))) ++ nhw ++ [0] ++ packed))).

Lemma pack_nlri_pos send n : 1 <= zlen (pack_nlri send n).
Proof.
  unfold pack_nlri, body. destruct send; [rewrite zlen_app|]; rewrite zlen_cons.
  - pose proof (zlen_nonneg (match n_pid n with Some b => b | None => [0;0;0;0] end)).
    pose proof (zlen_nonneg (lbl_bytes (n_labels n) ++ n_rd n ++ pack_ip (n_mask n) (n_pfx n))). lia.
  - pose proof (zlen_nonneg (lbl_bytes (n_labels n) ++ n_rd n ++ pack_ip (n_mask n) (n_pfx n))). lia.
Qed.

Theorem announce_sent_iff_fits mc v4m s r :
  (announce_size mc v4m s r <= s_msg s <-> exists body, encode_announce mc v4m s r = Some body)
  /\ (forall body, encode_announce mc v4m s r = Some body -> 19 + zlen body = announce_size mc v4m s r).
Proof.
  unfold announce_size, encode_announce.
  set (attr := pack_attrs s true (items_of s r)). set (n := r_nlri r). set (nh := resolve s (n_afi n) (r_nh r)).
  set (packed := pack_nlri (send_pid s n) n). pose proof (pack_nlri_pos (send_pid s n) n) as Hp. fold packed in Hp.
  pose proof (zlen_nonneg attr) as Ha.
  destruct (plain_family mc n && (length nh =? 4)%nat).
  - destruct (s_msg s - 19 - 2 - 2 - zlen attr <=? 0) eqn:E0; [apply Z.leb_le in E0 | apply Z.leb_gt in E0].
    + split; [split; [intro; lia | intros [b Hb]; discriminate] | intros b Hb; discriminate].
    + destruct (zlen packed <=? s_msg s - 19 - 2 - 2 - zlen attr) eqn:E1; [apply Z.leb_le in E1 | apply Z.leb_gt in E1].
      * split; [split; [intro; eexists; reflexivity | intro; lia]|]. intros b Hb.
        apply (f_equal (fun o => match o with Some b => zlen b | None => 0 end)) in Hb; cbv beta iota in Hb; rewrite <- Hb.
        rewrite !zlen_app, !prefix16_len, zlen_nil. lia.
      * split; [split; [intro; lia | intros [b Hb]; discriminate] | intros b Hb; discriminate].
  - cbv zeta.
    set (payload := be16 (n_afi n) ++ [n_safi n; rd_size (n_afi n) (n_safi n) + zlen (nh_wire v4m (n_afi n) nh)]
                    ++ repeat 0 (Z.to_nat (rd_size (n_afi n) (n_safi n))) ++ nh_wire v4m (n_afi n) nh ++ [0] ++ packed).
    assert (Hm : 3 <= mp_attr_len (zlen payload)).
    { unfold mp_attr_len. pose proof (zlen_nonneg payload). destruct (255 <? zlen payload); lia. }
    destruct (s_msg s - 19 - 2 - 2 - zlen attr <=? 0) eqn:E0; [apply Z.leb_le in E0 | apply Z.leb_gt in E0].
    + split; [split; [intro; lia | intros [b Hb]; discriminate] | intros b Hb; discriminate].
    + destruct (s_msg s - 19 - 2 - 2 - zlen attr <? mp_attr_len (zlen payload)) eqn:E1; [apply Z.ltb_lt in E1 | apply Z.ltb_ge in E1].
      * split; [split; [intro; lia | intros [b Hb]; discriminate] | intros b Hb; discriminate].
      * split; [split; [intro; eexists; reflexivity | intro; lia]|]. intros b Hb.
        apply (f_equal (fun o => match o with Some b => zlen b | None => 0 end)) in Hb; cbv beta iota in Hb; rewrite <- Hb.
        rewrite zlen_app, !prefix16_len, zlen_nil, zlen_app, mp_len. lia.
Qed.
