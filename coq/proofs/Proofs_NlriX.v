(* C15 - lemmas about Model_NlriX: VPLS, RTC, EVPN framing, attribute header and fixed-layout values. *)
From Coq Require Import ZArith List Bool Lia Arith.
From ExaV Require Import lib.ListX gen.Gen_NlriRegistry model.Model_Nlri model.Model_Attr model.Model_NlriX
  spec.Spec_Nlri proofs.Proofs_Nlri proofs.Proofs_NlriSpec.
Import ListNotations.
Open Scope Z_scope.

(* ------------------------------------------------------------------ big-endian numbers, generically *)

Lemma be_length k v : length (be k v) = k.
Proof. revert v. induction k as [|k IH]; intro v; cbn [be length]; [reflexivity|]. rewrite IH. reflexivity. Qed.

Lemma be_wfb k v : wfb (be k v).
Proof.
  revert v. induction k as [|k IH]; intro v; cbn [be]; constructor; [|apply IH].
  unfold byte. apply Z.mod_pos_bound. lia.
Qed.

Lemma val_be k v : 0 <= v < 256 ^ Z.of_nat k -> val (be k v) = v.
Proof.
  revert v. induction k as [|k IH]; intros v H.
  - cbn in *. lia.
  - cbn [be val]. rewrite be_length. rewrite pow256_succ in H. pose proof (pow256_pos k) as Hp.
    assert (D : v = 256 ^ Z.of_nat k * (v / 256 ^ Z.of_nat k) + v mod 256 ^ Z.of_nat k) by (apply Z.div_mod; lia).
    assert (Hq : 0 <= v / 256 ^ Z.of_nat k < 256).
    { split; [apply Z.div_pos; lia|apply Z.div_lt_upper_bound; lia]. }
    rewrite (Z.mod_small (v / 256 ^ Z.of_nat k)) by exact Hq.
    assert (E : be k v = be k (v mod 256 ^ Z.of_nat k)).
    { rewrite D at 1. rewrite (Z.mul_comm (256 ^ Z.of_nat k)). apply be_add. }
    rewrite E, IH by (apply Z.mod_pos_bound; lia). lia.
Qed.

Lemma be_inj k a b : 0 <= a < 256 ^ Z.of_nat k -> 0 <= b < 256 ^ Z.of_nat k -> be k a = be k b -> a = b.
Proof. intros Ha Hb H. rewrite <- (val_be k a Ha), <- (val_be k b Hb), H. reflexivity. Qed.

Lemma be16_be v : be16 v = be 2 v.
Proof.
  unfold be16. cbn [be]. change (256 ^ Z.of_nat 1) with 256. change (256 ^ Z.of_nat 0) with 1.
  rewrite Z.div_1_r. reflexivity.
Qed.

Lemma be32_be v : be32 v = be 4 v.
Proof.
  unfold be32. cbn [be]. change (256 ^ Z.of_nat 3) with 16777216. change (256 ^ Z.of_nat 2) with 65536.
  change (256 ^ Z.of_nat 1) with 256. change (256 ^ Z.of_nat 0) with 1. rewrite Z.div_1_r. reflexivity.
Qed.

Lemma be24_be v : be24 v = be 3 v.
Proof. symmetry. apply be3_be24. Qed.

Lemma rd16_val a b t : rd16 (a :: b :: t) = val [a; b].
Proof. unfold rd16. cbn [nth val length]. change (256 ^ Z.of_nat 1) with 256. change (256 ^ Z.of_nat 0) with 1. ring. Qed.

Lemma rd32_val a b c d t : rd32 (a :: b :: c :: d :: t) = val [a; b; c; d].
Proof.
  unfold rd32. cbn [nth val length]. change (256 ^ Z.of_nat 3) with 16777216. change (256 ^ Z.of_nat 2) with 65536.
  change (256 ^ Z.of_nat 1) with 256. change (256 ^ Z.of_nat 0) with 1. ring.
Qed.

Lemma rd24_val a b c t : rd24 (a :: b :: c :: t) = val [a; b; c].
Proof.
  unfold rd24. cbn [nth val length]. change (256 ^ Z.of_nat 2) with 65536.
  change (256 ^ Z.of_nat 1) with 256. change (256 ^ Z.of_nat 0) with 1. ring.
Qed.

Lemma rd16_be16 v t : 0 <= v < 65536 -> rd16 (be16 v ++ t) = v.
Proof.
  intro H. rewrite be16_be. pose proof (be_length 2 v) as L.
  destruct (be 2 v) as [|a [|b [|? ?]]] eqn:E; try discriminate. cbn [app]. rewrite rd16_val, <- E. apply val_be. exact H.
Qed.

Lemma rd32_be32 v t : 0 <= v < 4294967296 -> rd32 (be32 v ++ t) = v.
Proof.
  intro H. rewrite be32_be. pose proof (be_length 4 v) as L.
  destruct (be 4 v) as [|a [|b [|c [|d [|? ?]]]]] eqn:E; try discriminate. cbn [app]. rewrite rd32_val, <- E. apply val_be. exact H.
Qed.

Lemma be16_rd16 a b t : byte a -> byte b -> be16 (rd16 (a :: b :: t)) = [a; b].
Proof. intros Ha Hb. rewrite be16_be, rd16_val. apply (be_val [a; b]). unfold wfb; repeat first [apply Forall_nil | apply Forall_cons; [assumption|]]. Qed.

Lemma be32_rd32 a b c d t : byte a -> byte b -> byte c -> byte d -> be32 (rd32 (a :: b :: c :: d :: t)) = [a; b; c; d].
Proof. intros Ha Hb Hc Hd. rewrite be32_be, rd32_val. apply (be_val [a; b; c; d]). unfold wfb; repeat first [apply Forall_nil | apply Forall_cons; [assumption|]]. Qed.

Lemma be16_length v : length (be16 v) = 2%nat. Proof. reflexivity. Qed.
Lemma be32_length v : length (be32 v) = 4%nat. Proof. reflexivity. Qed.

(* ------------------------------------------------------------------ VPLS *)

Record wf_vpls (v : vpls) : Prop := mkWfV {
  wv_rd : length (v_rd v) = 8%nat;
  wv_ve : 0 <= v_ve v < 65536;
  wv_off : 0 <= v_off v < 65536;
  wv_size : 0 <= v_size v < 65536;
  wv_base : 0 <= v_base v < 1048576
}.

Lemma make_vpls_length v : length (v_rd v) = 8%nat -> length (make_vpls v) = 19%nat.
Proof. intro H. unfold make_vpls. rewrite !app_length, H. reflexivity. Qed.

(* the accessors read back what the factory was given *)
Theorem vpls_fields_make : forall v, wf_vpls v -> vpls_fields (make_vpls v) = v.
Proof.
  intros [rd ve off size base] [Hrd Hve Hoff Hsize Hbase]. cbn [v_rd v_ve v_off v_size v_base] in *.
  set (A := be16 ve). set (B := be16 off). set (C := be16 size). set (D := be24 (base * 16 + 1)).
  assert (S2 : skipn 2 (make_vpls (mkV rd ve off size base)) = rd ++ A ++ B ++ C ++ D) by reflexivity.
  assert (S10 : skipn 10 (make_vpls (mkV rd ve off size base)) = A ++ B ++ C ++ D).
  { unfold make_vpls. cbn [v_rd v_ve v_off v_size v_base]. rewrite app_assoc.
    apply skipn_app_exact. rewrite app_length, Hrd. reflexivity. }
  assert (S12 : skipn 12 (make_vpls (mkV rd ve off size base)) = B ++ C ++ D).
  { change 12%nat with (10 + 2)%nat. rewrite skipn_add, S10. apply skipn_app_exact. reflexivity. }
  assert (S14 : skipn 14 (make_vpls (mkV rd ve off size base)) = C ++ D).
  { change 14%nat with (12 + 2)%nat. rewrite skipn_add, S12. apply skipn_app_exact. reflexivity. }
  assert (S16 : skipn 16 (make_vpls (mkV rd ve off size base)) = D ++ []).
  { change 16%nat with (14 + 2)%nat. rewrite skipn_add, S14, app_nil_r. apply skipn_app_exact. reflexivity. }
  unfold vpls_fields. rewrite S2, S10, S12, S14, S16. unfold A, B, C, D.
  rewrite !rd16_be16 by assumption. rewrite rd24_be24 by lia.
  rewrite firstn_app_exact by (symmetry; exact Hrd).
  f_equal. rewrite Z.add_comm, Z.div_add by lia. rewrite (Z.div_small 1 16) by lia. lia.
Qed.

(* decode (encode v) gives the stored bytes back with nothing left *)
Theorem vpls_roundtrip : forall v, wf_vpls v -> unpack_vpls (make_vpls v) = Some (make_vpls v, []).
Proof.
  intros v H. pose proof (make_vpls_length v (wv_rd v H)) as L.
  unfold unpack_vpls.
  assert (L2 : (length (make_vpls v) <? 2)%nat = false) by (rewrite L; reflexivity).
  assert (E16 : rd16 (make_vpls v) = 17) by reflexivity.
  rewrite L2, E16.
  assert (C1 : (17 <? 17) = false) by reflexivity. rewrite C1.
  assert (C2 : negb (zlen (make_vpls v) =? 17 + 2) = false) by (unfold zlen; rewrite L; reflexivity). rewrite C2.
  assert (Sk : skipn (Z.to_nat (2 + 17)) (make_vpls v) = []).
  { change (Z.to_nat (2 + 17)) with 19%nat. rewrite <- L. apply skipn_all. }
  assert (Fi : firstn 2 (make_vpls v) ++ firstn 17 (skipn 2 (make_vpls v)) = make_vpls v).
  { rewrite (firstn_all2 (n := 17)) by (rewrite skipn_length, L; lia). apply firstn_skipn. }
  rewrite Sk, Fi. reflexivity.
Qed.

(* VPLSBase.unpack_nlri insists that the NLRI is alone in its buffer: bytes after it are refused *)
Theorem vpls_no_trailing : forall v rest, wf_vpls v -> rest <> [] -> unpack_vpls (make_vpls v ++ rest) = None.
Proof.
  intros v rest H Hr. pose proof (make_vpls_length v (wv_rd v H)) as L.
  unfold unpack_vpls.
  assert (L2 : (length (make_vpls v ++ rest) <? 2)%nat = false).
  { apply Nat.ltb_ge. rewrite app_length, L. lia. }
  assert (E16 : rd16 (make_vpls v ++ rest) = 17) by reflexivity.
  rewrite L2, E16.
  assert (C1 : (17 <? 17) = false) by reflexivity. rewrite C1.
  assert (C2 : negb (zlen (make_vpls v ++ rest) =? 17 + 2) = true).
  { apply negb_true_iff. apply Z.eqb_neq. unfold zlen. rewrite app_length, L.
    destruct rest; [congruence|]. cbn [length]. lia. }
  rewrite C2. reflexivity.
Qed.

(* whatever the decoder accepts with the canonical length 17 is reproduced byte for byte *)
Theorem vpls_canonical : forall data p rest,
  unpack_vpls data = Some (p, rest) -> rd16 data = 17 -> p = data /\ rest = [].
Proof.
  intros data p rest H H17. unfold unpack_vpls in H. rewrite H17 in H.
  destruct (length data <? 2)%nat; [discriminate|]. cbn [Z.ltb Z.compare] in H.
  destruct (zlen data =? 17 + 2) eqn:E; [|discriminate]. cbn [negb] in H. apply Z.eqb_eq in E.
  assert (L : length data = 19%nat) by (unfold zlen in E; lia).
  assert (E1 : Some (firstn 2 data ++ firstn 17 (skipn 2 data), skipn (Z.to_nat (2 + 17)) data) = Some (p, rest)) by exact H.
  clear H. assert (Ep : firstn 2 data ++ firstn 17 (skipn 2 data) = p /\ skipn (Z.to_nat (2 + 17)) data = rest)
    by (split; congruence). destruct Ep as [<- <-].
  split.
  - rewrite (firstn_all2 (n := 17)) by (rewrite skipn_length, L; lia). apply firstn_skipn.
  - change (Z.to_nat (2 + 17)) with 19%nat. rewrite <- L. apply skipn_all.
Qed.

Lemma app_len_inj {A} (a1 a2 b1 b2 : list A) : length a1 = length a2 -> a1 ++ b1 = a2 ++ b2 -> a1 = a2 /\ b1 = b2.
Proof. apply app_eq_len. Qed.

(* two VPLS routes with the same bytes (hence the same index) are the same route *)
Theorem make_vpls_injective : forall v1 v2, wf_vpls v1 -> wf_vpls v2 -> make_vpls v1 = make_vpls v2 -> v1 = v2.
Proof.
  intros v1 v2 H1 H2 E. rewrite <- (vpls_fields_make v1 H1), <- (vpls_fields_make v2 H2), E. reflexivity.
Qed.

Theorem vpls_index_injective : forall v1 v2, wf_vpls v1 -> wf_vpls v2 ->
  vpls_index (make_vpls v1) = vpls_index (make_vpls v2) -> v1 = v2.
Proof.
  intros v1 v2 H1 H2 E. unfold vpls_index in E. apply app_inv_head in E. apply make_vpls_injective; assumption.
Qed.

(* ------------------------------------------------------------------ RTC *)

Definition wf_rt (rt : list Z) : Prop := length rt = 8%nat /\ wfb rt.

(* a legal RTC prefix length: the wildcard, or 32 (origin AS only) .. 96 bits *)
Definition rtc_len_ok (len : Z) : Prop := len = 0 \/ 32 <= len <= 96.

Lemma rtc_octets len : 32 <= len <= 96 -> 4 <= (len + 7) / 8 <= 12.
Proof.
  intro H. split; [apply Z.div_le_lower_bound; lia|].
  assert ((len + 7) / 8 < 13) by (apply Z.div_lt_upper_bound; lia). lia.
Qed.

Lemma split12 (v : list Z) : length v = 12%nat -> firstn 4 v ++ nth 4 v 0 :: firstn 7 (skipn 5 v) = v.
Proof. intro L. do 12 (destruct v as [|? v]; [discriminate|]). destruct v; [reflexivity|discriminate]. Qed.

Lemma nth_firstn_lt (l : list Z) : forall n j, (n < j)%nat -> nth n (firstn j l) 0 = nth n l 0.
Proof.
  induction l as [|x l IH]; intros n j H; [destruct j; reflexivity|].
  destruct j as [|j]; [lia|]. destruct n as [|n]; [reflexivity|]. cbn [firstn nth]. apply IH. lia.
Qed.

Lemma repeat_wfb n : wfb (repeat 0 n).
Proof. induction n; cbn [repeat]; constructor; [unfold byte; lia|assumption]. Qed.

(* the stored 13-octet form of a (non wildcard) RTC NLRI: length octet, then the prefix zero padded, flags reset *)
Record wf_rtc (p : list Z) : Prop := mkWfRtc {
  wr_len : length p = 13%nat;
  wr_bits : 32 <= nth 0 p 0 <= 96;
  wr_pad : skipn (Z.to_nat (rtc_size (nth 0 p 0))) p = repeat 0 (Z.to_nat (13 - rtc_size (nth 0 p 0)));
  wr_flags : 0 <= nth 5 p 0 < 64
}.

(* decode (encode p ++ rest) = (p, rest) for every legal prefix length: what goes on the wire is the length
   octet and ceil(length / 8) octets, and reading them back rebuilds the stored form *)
Theorem rtc_roundtrip_any_length : forall p rest,
  wf_rtc p -> unpack_rtc (pack_rtc p ++ rest) = Some (p, rest).
Proof.
  intros p rest [L Hb Hpad Hf]. destruct p as [|len q]; [discriminate|].
  cbn [nth] in Hb, Hpad. assert (Lq : length q = 12%nat) by (cbn [length] in L; lia).
  pose proof (rtc_octets len Hb) as Hk. set (k := (len + 7) / 8) in *.
  assert (Sz : rtc_size len = 1 + k) by reflexivity.
  unfold pack_rtc. cbn [nth]. rewrite Sz in *.
  assert (N1 : Z.to_nat (1 + k) = S (Z.to_nat k)) by lia. rewrite N1 in *. cbn [firstn skipn app] in *.
  unfold unpack_rtc.
  assert (E0 : (len =? 0) = false) by (apply Z.eqb_neq; lia). rewrite E0.
  assert (E1 : (len <? 32) || (96 <? len) = false).
  { apply orb_false_iff. split; [apply Z.ltb_ge|apply Z.ltb_ge]; lia. }
  rewrite E1, Sz.
  assert (Lf : length (firstn (Z.to_nat k) q) = Z.to_nat k) by (apply firstn_length_le; lia).
  assert (E2 : (zlen (len :: firstn (Z.to_nat k) q ++ rest) <? 1 + k) = false).
  { apply Z.ltb_ge. rewrite zlen_cons, zlen_app. unfold zlen at 1. rewrite Lf. pose proof (zlen_nonneg rest). lia. }
  rewrite E2. replace (1 + k - 1) with k by lia. rewrite N1. cbn [skipn].
  rewrite (firstn_app_exact (firstn (Z.to_nat k) q) rest (Z.to_nat k)) by (symmetry; exact Lf).
  rewrite (skipn_app_exact (firstn (Z.to_nat k) q) rest (Z.to_nat k)) by (symmetry; exact Lf).
  assert (V : firstn (Z.to_nat k) q ++ repeat 0 (Z.to_nat (13 - (1 + k))) = q).
  { rewrite <- Hpad. apply firstn_skipn. }
  rewrite V. cbn [nth] in Hf.
  assert (R : reset_flags (nth 4 q 0) = nth 4 q 0) by (unfold reset_flags; apply Z.mod_small; exact Hf).
  rewrite R, split12 by exact Lq. reflexivity.
Qed.

(* the wildcard *)
Theorem rtc_wildcard_roundtrip : forall origin rest,
  unpack_rtc (pack_rtc (make_rtc origin None) ++ rest) = Some (make_rtc origin None, rest).
Proof. reflexivity. Qed.

Lemma make_rtc_wf origin rt : 0 <= origin < 4294967296 -> wf_rt rt ->
  wf_rtc (make_rtc origin (Some rt)) /\ pack_rtc (make_rtc origin (Some rt)) = make_rtc origin (Some rt).
Proof.
  intros Ho [Hl Hb].
  destruct rt as [|r0 [|r1 [|r2 [|r3 [|r4 [|r5 [|r6 [|r7 [|? ?]]]]]]]]]; try discriminate.
  split; [|reflexivity].
  constructor; cbn [make_rtc nth be32 app]; try reflexivity; try lia.
  unfold reset_flags. apply Z.mod_pos_bound. lia.
Qed.

(* the factory-built full-length object: round trip and accessors *)
Theorem rtc_roundtrip : forall origin rt rest,
  0 <= origin < 4294967296 -> wf_rt rt ->
  unpack_rtc (pack_rtc (make_rtc origin (Some rt)) ++ rest) = Some (make_rtc origin (Some rt), rest)
  /\ rtc_origin (make_rtc origin (Some rt)) = origin
  /\ rtc_rt (make_rtc origin (Some rt)) = Some (reset_flags (hd 0 rt) :: tl rt).
Proof.
  intros origin rt rest Ho Hrt. destruct (make_rtc_wf origin rt Ho Hrt) as [W _].
  split; [apply rtc_roundtrip_any_length; exact W|].
  destruct Hrt as [Hl Hb].
  destruct rt as [|r0 [|r1 [|r2 [|r3 [|r4 [|r5 [|r6 [|r7 [|? ?]]]]]]]]]; try discriminate.
  split; [|reflexivity].
  unfold rtc_origin, make_rtc. cbn [length app be32 Nat.ltb Nat.leb skipn].
  change ([(origin / 16777216) mod 256; (origin / 65536) mod 256; (origin / 256) mod 256; origin mod 256; reset_flags r0; r1; r2; r3; r4; r5; r6; r7])
    with (be32 origin ++ [reset_flags r0; r1; r2; r3; r4; r5; r6; r7]).
  apply rd32_be32. exact Ho.
Qed.

(* what the decoder accepts: the length is legal, it consumes exactly rtc_size(length) octets, the stored form
   is well formed, and re-encoding gives back the consumed octets provided the two flag bits of the route target
   type octet (octet 5, present when the prefix is longer than 32 bits) were clear.  Nothing is asked of the bits
   beyond the prefix inside its last octet: they are stored and written back as received. *)
Theorem rtc_canonical : forall data p rest,
  wfb data -> unpack_rtc data = Some (p, rest) ->
  rtc_len_ok (nth 0 data 0)
  /\ (exists consumed, data = consumed ++ rest /\ zlen consumed = rtc_size (nth 0 data 0)
        /\ ((32 < nth 0 data 0 -> nth 5 data 0 < 64) -> pack_rtc p = consumed))
  /\ (nth 0 data 0 <> 0 -> wf_rtc p).
Proof.
  intros data p rest Hb H. unfold unpack_rtc in H. destruct data as [|len d]; [discriminate|]. cbn [nth].
  destruct (len =? 0) eqn:E0.
  - apply Z.eqb_eq in E0. subst len.
    assert (E : [0] = p /\ skipn 1 (0 :: d) = rest) by (split; congruence). destruct E as [<- <-].
    split; [left; reflexivity|]. split; [|congruence].
    exists [0]. split; [reflexivity|]. split; [reflexivity|]. intros _. reflexivity.
  - apply Z.eqb_neq in E0.
    destruct ((len <? 32) || (96 <? len)) eqn:E1; [discriminate|].
    apply orb_false_iff in E1. destruct E1 as [A B]. apply Z.ltb_ge in A, B.
    assert (Hl : 32 <= len <= 96) by lia. pose proof (rtc_octets len Hl) as Hk.
    set (k := (len + 7) / 8) in *. assert (Sz : rtc_size len = 1 + k) by reflexivity. rewrite Sz in H.
    destruct (zlen (len :: d) <? 1 + k) eqn:E2; [discriminate|]. apply Z.ltb_ge in E2. rewrite zlen_cons in E2.
    replace (1 + k - 1) with k in H by lia.
    assert (N1 : Z.to_nat (1 + k) = S (Z.to_nat k)) by lia. rewrite N1 in H.
    change (skipn (S (Z.to_nat k)) (len :: d)) with (skipn (Z.to_nat k) d) in H.
    set (value := firstn (Z.to_nat k) d ++ repeat 0 (Z.to_nat (13 - (1 + k)))) in *.
    assert (E : len :: firstn 4 value ++ reset_flags (nth 4 value 0) :: firstn 7 (skipn 5 value) = p
                /\ skipn (Z.to_nat k) d = rest) by (split; congruence).
    destruct E as [<- <-]. clear H.
    assert (Hbd : wfb d) by (inversion Hb; assumption).
    assert (Lf : length (firstn (Z.to_nat k) d) = Z.to_nat k) by (apply firstn_length_le; unfold zlen in E2; lia).
    assert (Lv : length value = 12%nat).
    { unfold value. rewrite app_length, Lf, repeat_length. lia. }
    assert (Bv : wfb value) by (unfold value; apply wfb_app; split; [apply wfb_firstn; exact Hbd|apply repeat_wfb]).
    assert (B4 : 0 <= nth 4 value 0 < 256).
    { unfold wfb in Bv. rewrite Forall_forall in Bv. apply Bv. apply nth_In. lia. }
    set (stored := firstn 4 value ++ reset_flags (nth 4 value 0) :: firstn 7 (skipn 5 value)).
    assert (Ls : length stored = 12%nat).
    { unfold stored. clear -Lv. do 12 (destruct value as [|? value]; [discriminate|]). destruct value; [reflexivity|discriminate]. }
    assert (Fk : forall j, (5 <= j)%nat -> firstn j stored = firstn 4 value ++ reset_flags (nth 4 value 0) :: firstn (j - 5) (firstn 7 (skipn 5 value))).
    { intros j Hj. unfold stored. clear -Lv Hj.
      do 12 (destruct value as [|? value]; [discriminate|]).
      do 5 (destruct j as [|j]; [lia|]). cbn [firstn app skipn nth]. replace (S (S (S (S (S j)))) - 5)%nat with j by lia. reflexivity. }
    split; [right; exact Hl|]. split.
    + exists (len :: firstn (Z.to_nat k) d). split; [cbn [app]; f_equal; symmetry; apply firstn_skipn|].
      split; [rewrite zlen_cons; unfold zlen; rewrite Lf; lia|].
      intro Hflag. unfold pack_rtc. cbn [nth]. rewrite Sz, N1. cbn [firstn]. f_equal.
      fold stored.
      assert (R : 32 < len -> reset_flags (nth 4 value 0) = nth 4 value 0).
      { intro Hgt. unfold reset_flags. apply Z.mod_small.
        assert (K5 : (5 <= Z.to_nat k)%nat).
        { assert (5 <= k); [|lia]. unfold k. apply Z.div_le_lower_bound; lia. }
        assert (Nv : nth 4 value 0 = nth 4 d 0).
        { unfold value. rewrite app_nth1 by lia. apply nth_firstn_lt. lia. }
        specialize (Hflag Hgt). cbn [nth] in Hflag. rewrite Nv. rewrite Nv in B4. lia. }
      destruct (Z_lt_dec 32 len) as [Hgt|Hle].
      * assert (Es : stored = value) by (unfold stored; rewrite (R Hgt); apply split12; exact Lv).
        rewrite Es. unfold value. apply firstn_app_exact. symmetry. exact Lf.
      * assert (len = 32) by lia. subst len. assert (Hk4 : Z.to_nat k = 4%nat) by reflexivity.
        rewrite Hk4. unfold stored. rewrite firstn_app_exact by (symmetry; apply firstn_length_le; lia).
        unfold value. rewrite Hk4 in *. rewrite (firstn_app_exact (firstn 4 d)) by (symmetry; exact Lf). reflexivity.
    + intros _. constructor; cbn [nth length].
      * fold stored. rewrite Ls. reflexivity.
      * exact Hl.
      * rewrite Sz, N1. cbn [skipn]. fold stored.
        (* beyond the prefix the stored form is the zero padding *)
        assert (Hz : Z.to_nat k = 4%nat -> nth 4 value 0 = 0).
        { intro K4. unfold value. rewrite app_nth2 by lia. rewrite Lf, K4. 
          replace (Z.to_nat (13 - (1 + k))) with 8%nat by lia. reflexivity. }
        assert (P : skipn (Z.to_nat k) stored = skipn (Z.to_nat k) value).
        { unfold stored. clear -Lv Hk Hz. set (j := Z.to_nat k) in *. assert (Hj : (4 <= j <= 12)%nat) by lia. clearbody j.
          do 12 (destruct value as [|? value]; [discriminate|]). destruct value; [|discriminate].
          do 4 (destruct j as [|j]; [lia|]). destruct j as [|j]; [|reflexivity].
          cbn [firstn skipn app nth] in *. rewrite (Hz eq_refl). reflexivity. }
        rewrite P. unfold value. rewrite skipn_app_exact by (symmetry; exact Lf). reflexivity.
      * fold stored. unfold stored. 
        assert (N5 : nth 4 (firstn 4 value ++ reset_flags (nth 4 value 0) :: firstn 7 (skipn 5 value)) 0 = reset_flags (nth 4 value 0)).
        { clear -Lv. do 12 (destruct value as [|? value]; [discriminate|]). reflexivity. }
        rewrite N5. unfold reset_flags. apply Z.mod_pos_bound. lia.
Qed.

Theorem make_rtc_injective : forall o1 o2 rt1 rt2,
  0 <= o1 < 4294967296 -> 0 <= o2 < 4294967296 -> wf_rt rt1 -> wf_rt rt2 ->
  rtc_index (make_rtc o1 (Some rt1)) = rtc_index (make_rtc o2 (Some rt2)) ->
  o1 = o2 /\ reset_flags (hd 0 rt1) = reset_flags (hd 0 rt2) /\ tl rt1 = tl rt2.
Proof.
  intros o1 o2 rt1 rt2 H1 H2 [L1 _] [L2 _] E. unfold rtc_index in E. apply app_inv_head in E.
  destruct rt1 as [|a r1]; [discriminate|]. destruct rt2 as [|b r2]; [discriminate|].
  unfold make_rtc in E. apply cons_inj in E. destruct E as [_ E]. apply app_eq_len in E; [|reflexivity]. destruct E as [Eo Er].
  apply cons_inj in Er. destruct Er as [Ea Et]. rewrite !be32_be in Eo. apply be_inj in Eo; [|exact H1|exact H2]. cbn [hd tl]. tauto.
Qed.

(* ------------------------------------------------------------------ EVPN framing *)

Theorem evpn_frame_roundtrip : forall code payload rest,
  zlen payload < 256 ->
  unpack_evpn_frame (pack_evpn code payload ++ rest) = Some (pack_evpn code payload, rest).
Proof.
  intros code payload rest H. unfold unpack_evpn_frame, pack_evpn. cbn [app length Nat.ltb Nat.leb nth].
  assert (L : (zlen (code :: zlen payload :: payload ++ rest) <? 2 + zlen payload) = false).
  { apply Z.ltb_ge. rewrite !zlen_cons, zlen_app. pose proof (zlen_nonneg rest). lia. }
  rewrite L.
  assert (N : Z.to_nat (2 + zlen payload) = length (code :: zlen payload :: payload)).
  { unfold zlen. cbn [length]. lia. }
  rewrite N.
  change (code :: zlen payload :: payload ++ rest) with ((code :: zlen payload :: payload) ++ rest).
  rewrite firstn_app_exact by reflexivity. rewrite skipn_app_exact by reflexivity. reflexivity.
Qed.

Theorem evpn_frame_canonical : forall data p rest,
  wfb data -> unpack_evpn_frame data = Some (p, rest) ->
  p ++ rest = data /\ zlen p = 2 + nth 1 data 0 /\ p = pack_evpn (nth 0 data 0) (skipn 2 p).
Proof.
  intros data p rest Hb H. unfold unpack_evpn_frame in H.
  destruct (length data <? 2)%nat eqn:L2; [discriminate|]. apply Nat.ltb_ge in L2.
  destruct (zlen data <? 2 + nth 1 data 0) eqn:L; [discriminate|]. apply Z.ltb_ge in L.
  assert (E : firstn (Z.to_nat (2 + nth 1 data 0)) data = p /\ skipn (Z.to_nat (2 + nth 1 data 0)) data = rest)
    by (split; congruence). destruct E as [<- <-].
  split; [apply firstn_skipn|].
  destruct data as [|c [|l d]]; cbn [length] in L2; try lia. cbn [nth] in *.
  assert (Hl : 0 <= l).
  { inversion Hb as [|? ? _ Hb1]; subst. inversion Hb1 as [|? ? Hbl _]; subst. unfold byte in Hbl. lia. }
  assert (Z.to_nat (2 + l) = S (S (Z.to_nat l))) as -> by lia.
  rewrite !zlen_cons in L. cbn [firstn skipn]. unfold pack_evpn.
  assert (Lf : length (firstn (Z.to_nat l) d) = Z.to_nat l) by (apply firstn_length_le; unfold zlen in L; lia).
  split.
  - rewrite !zlen_cons. unfold zlen. rewrite Lf. lia.
  - unfold zlen. rewrite Lf. rewrite Z2Nat.id by lia. reflexivity.
Qed.
