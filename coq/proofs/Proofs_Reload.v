From Coq Require Import ZArith Bool List Lia.
From ExaV Require Import lib.Amap model.Model_Rib proofs.Proofs_Rib gen.Gen_MainShape model.Model_Reload.
Import ListNotations.
Open Scope Z_scope.

Local Notation zget := (aget Z.eqb).
Local Notation zset := (aset Z.eqb).
Local Notation zmem := (amem Z.eqb).
Local Notation zspec := Z.eqb_spec.

(* ================================================================ 1. dictionaries built name by name *)

Lemma aget_app_head {V} : forall n (a b : amap Z V),
  zget n (a ++ b) = match zget n a with Some v => Some v | None => zget n b end.
Proof.
  intros n a b. induction a as [|[k v] a IH]; simpl; [reflexivity|].
  destruct (n =? k); [reflexivity|exact IH].
Qed.

Lemma aget_build {V} : forall (f : Z -> option V) l n,
  zget n (build f l) = if existsb (Z.eqb n) l then f n else None.
Proof.
  intros f l n. induction l as [|m l IH]; [reflexivity|].
  unfold build in *. simpl. rewrite aget_app_head, IH.
  destruct (zspec n m) as [->|N]; simpl.
  - destruct (f m) as [b|] eqn:F; simpl.
    + now rewrite Z.eqb_refl.
    + destruct (existsb (Z.eqb m) l); reflexivity.
  - destruct (f m) as [b|]; simpl; [|reflexivity].
    destruct (zspec n m); [contradiction|reflexivity].
Qed.

Lemma existsb_eqb_in : forall n l, existsb (Z.eqb n) l = true <-> In n l.
Proof. exact existsb_in. Qed.

Lemma in_merge_names : forall old new n, In n new -> existsb (Z.eqb n) (merge_names old new) = true.
Proof.
  intros old new n I. apply existsb_eqb_in. unfold merge_names. apply in_or_app.
  destruct (existsb (Z.eqb n) old) eqn:E.
  - left. now apply existsb_eqb_in.
  - right. apply filter_In. split; [exact I|]. now rewrite E.
Qed.

Lemma in_merge_names_old : forall old new n, In n old -> existsb (Z.eqb n) (merge_names old new) = true.
Proof.
  intros old new n I. apply existsb_eqb_in. unfold merge_names. apply in_or_app. now left.
Qed.

Lemma not_in_merge_names : forall old new n, ~ In n old -> ~ In n new ->
  existsb (Z.eqb n) (merge_names old new) = false.
Proof.
  intros old new n A B. destruct (existsb (Z.eqb n) (merge_names old new)) eqn:E; [|reflexivity].
  apply existsb_eqb_in in E. unfold merge_names in E. apply in_app_or in E. destruct E as [E|E]; [contradiction|].
  apply filter_In in E. destruct E. contradiction.
Qed.

Lemma aget_none_not_in {V} : forall n (m : amap Z V), zget n m = None -> ~ In n (akeys m).
Proof.
  intros n m G I. apply amem_true with (eqb := Z.eqb) in I; [|exact zspec]. unfold amem in I.
  rewrite G in I. discriminate.
Qed.

Lemma aget_merge_nil : forall cfg n, zget n (merge_cfg [] cfg) = zget n cfg.
Proof.
  intros cfg n. unfold merge_cfg. rewrite aget_build. simpl.
  destruct (zget n cfg) as [c|] eqn:G.
  - rewrite in_merge_names; [reflexivity|]. eapply aget_in_keys; [exact zspec|exact G].
  - destruct (existsb _ _); reflexivity.
Qed.

Lemma flat_map_ext_in' {A B} : forall (f g : A -> list B) l,
  (forall a, In a l -> f a = g a) -> flat_map f l = flat_map g l.
Proof.
  intros f g l. induction l as [|a l IH]; intros H; [reflexivity|]. simpl.
  rewrite (H a (or_introl eq_refl)), IH; [reflexivity|]. intros b I. apply H. now right.
Qed.

(* a dictionary rebuilt from itself *)
Lemma build_self {V} : forall (m : amap Z V), awf m -> build (fun n => zget n m) (akeys m) = m.
Proof.
  induction m as [|[k v] m IH]; intros W; [reflexivity|].
  inversion W as [|? ? Hn Hw]; subst. unfold build in *. simpl. rewrite Z.eqb_refl. simpl. f_equal.
  rewrite <- (IH Hw) at 2. apply flat_map_ext_in'. intros a Ia.
  destruct (zspec a k) as [->|N]; [contradiction|reflexivity].
Qed.

Lemma merge_names_nil : forall l, merge_names l [] = l.
Proof. intros. unfold merge_names. simpl. apply app_nil_r. Qed.

(* ================================================================ 2. effect of operations on the intention *)

Definition ieff (k : Z) (o : op) (cur : option (Z * Z)) : option (Z * Z) :=
  match o with
  | Ann x | AnnForce x => if ridx x =? k then Some (rval x) else cur
  | Wd x => if ridx x =? k then None else cur
  | _ => cur
  end.

Definition simple (o : op) : bool := match o with WdAll _ => false | _ => true end.

Lemma intended_step : forall s o k, simple o = true ->
  zget k (intended (step s o)) = ieff k o (zget k (intended s)).
Proof.
  intros s o k S. destruct o as [x|x|x|e fams|fams| | | |]; cbn [step intended ieff simple] in *; try discriminate; try reflexivity.
  - destruct (zspec (ridx x) k) as [<-|N]; [apply aget_aset_same; exact zspec|apply aget_aset_other; [exact zspec|congruence]].
  - destruct (zspec (ridx x) k) as [<-|N]; [apply aget_aset_same; exact zspec|apply aget_aset_other; [exact zspec|congruence]].
  - destruct (zspec (ridx x) k) as [<-|N]; [apply aget_tdel_same|apply aget_tdel_other; congruence].
  - destruct (up s && pending (r s)); [destruct (gen (r s)); [destruct (fresh s)|]|]; reflexivity.
  - destruct (up s); [destruct (gen (r s))|]; reflexivity.
  - destruct (up s); reflexivity.
Qed.

Definition IE (k : Z) (l : list op) (cur : option (Z * Z)) : option (Z * Z) :=
  fold_left (fun c o => ieff k o c) l cur.

Lemma intended_run : forall l s k, forallb simple l = true ->
  zget k (intended (run l s)) = IE k l (zget k (intended s)).
Proof.
  induction l as [|o l IH]; intros s k S; [reflexivity|]. simpl in *.
  apply andb_prop in S. destruct S as [S1 S2]. rewrite IH by exact S2. unfold IE. simpl.
  now rewrite intended_step.
Qed.

Lemma IE_app : forall k a b c, IE k (a ++ b) c = IE k b (IE k a c).
Proof. intros. unfold IE. apply fold_left_app. Qed.

Lemma IE_ann : forall k l c, IE k (map Ann l) c = match lastk k l with Some x => Some (rval x) | None => c end.
Proof.
  intros k l. induction l as [|x l IH]; intros c; [reflexivity|].
  unfold IE in *. simpl. rewrite IH, lastk_cons. destruct (lastk k l); [reflexivity|].
  destruct (ridx x =? k); reflexivity.
Qed.

Lemma IE_annf : forall k l c, IE k (map AnnForce l) c = match lastk k l with Some x => Some (rval x) | None => c end.
Proof.
  intros k l. induction l as [|x l IH]; intros c; [reflexivity|].
  unfold IE in *. simpl. rewrite IH, lastk_cons. destruct (lastk k l); [reflexivity|].
  destruct (ridx x =? k); reflexivity.
Qed.

Lemma IE_wd : forall k l c, IE k (map Wd l) c = if has_idx k l then None else c.
Proof.
  intros k l. induction l as [|x l IH]; intros c; [reflexivity|].
  unfold IE, has_idx in *. simpl. rewrite IH. destruct (ridx x =? k); simpl; [|reflexivity].
  destruct (existsb _ l); reflexivity.
Qed.

Lemma simple_ann : forall l, forallb simple (map Ann l) = true.
Proof. induction l; simpl; auto. Qed.
Lemma simple_annf : forall l, forallb simple (map AnnForce l) = true.
Proof. induction l; simpl; auto. Qed.
Lemma simple_wd : forall l, forallb simple (map Wd l) = true.
Proof. induction l; simpl; auto. Qed.

Lemma simple_rr : forall prev new, forallb simple (rr_ops prev new) = true.
Proof. intros. unfold rr_ops. rewrite forallb_app, simple_annf, simple_wd. reflexivity. Qed.

Lemma lastk_has : forall k l, has_idx k l = match lastk k l with Some _ => true | None => false end.
Proof.
  intros k l. induction l as [|x l IH]; [reflexivity|].
  rewrite lastk_cons. unfold has_idx in *. simpl. rewrite IH.
  destruct (lastk k l); [apply orb_true_r|]. destruct (ridx x =? k); reflexivity.
Qed.

(* filtering on a predicate of the index keeps or drops all the entries of one index together *)
Lemma lastk_filter_idx : forall (g : Z -> bool) k l,
  lastk k (filter (fun x => g (ridx x)) l) = if g k then lastk k l else None.
Proof.
  intros g k l. induction l as [|x l IH].
  - destruct (g k); reflexivity.
  - simpl. destruct (g (ridx x)) eqn:G.
    + rewrite !lastk_cons, IH. destruct (g k) eqn:Gk; [reflexivity|].
      destruct (zspec (ridx x) k) as [e|N]; [congruence|reflexivity].
    + rewrite IH, lastk_cons. destruct (g k) eqn:Gk; [|reflexivity].
      destruct (zspec (ridx x) k) as [e|N]; [congruence|]. destruct (lastk k l); reflexivity.
Qed.

Lemma has_idx_filter_idx : forall (g : Z -> bool) k l,
  has_idx k (filter (fun x => g (ridx x)) l) = g k && has_idx k l.
Proof.
  intros. rewrite !lastk_has, lastk_filter_idx. destruct (g k); reflexivity.
Qed.

(* the intention after the parse-time insertion and replace_reload: the new file wins, what the old
   file had and the new one has not is gone, everything else (API routes) is untouched *)
Definition diffed (prev new : list route) (k : Z) (cur : option (Z * Z)) : option (Z * Z) :=
  match lastk k new with
  | Some x => Some (rval x)
  | None => if has_idx k prev then None else cur
  end.

Lemma IE_reconfigure : forall prev new k c,
  IE k (rr_ops prev new) (IE k (map Ann new) c) = diffed prev new k c.
Proof.
  intros prev new k c. unfold rr_ops, diffed. rewrite IE_app, IE_ann, IE_annf, IE_wd.
  rewrite (lastk_filter_idx (fun i => negb (has_idx i prev))).
  rewrite (has_idx_filter_idx (fun i => negb (has_idx i new))).
  rewrite (lastk_has k new). destruct (lastk k new) as [x|]; simpl.
  - destruct (negb (has_idx k prev)); reflexivity.
  - destruct (has_idx k prev); reflexivity.
Qed.

Lemma has_idx_leftover : forall prev new k,
  has_idx k (leftover prev new) = negb (has_idx k new) && has_idx k prev.
Proof. intros. unfold leftover. apply (has_idx_filter_idx (fun i => negb (has_idx i new))). Qed.

(* ================================================================ 3. per-RIB invariant *)

Definition NbInv (b : nb) : Prop := Inv (nsys b) /\ (npw b = [] \/ up (nsys b) = false).

Lemma Inv_sys_new : Inv sys_new.
Proof. exact (Inv_drop _ Inv0). Qed.

Lemma NbInv_new : NbInv nb_new.
Proof. split; [exact Inv_sys_new|now left]. Qed.

Lemma up_step_down : forall s o, up s = false -> o <> Establish -> up (step s o) = false.
Proof.
  intros s o U N. destruct o; cbn [step up]; try assumption; try reflexivity.
  - rewrite U. exact U.
  - rewrite U. exact U.
  - congruence.
Qed.

Lemma up_run_down : forall l s, up s = false -> (forall o, In o l -> o <> Establish) -> up (run l s) = false.
Proof.
  induction l as [|o l IH]; intros s U H; [exact U|]. simpl. apply IH.
  - apply up_step_down; [exact U|apply H; now left].
  - intros o' I. apply H. now right.
Qed.

Lemma NbInv_step : forall b o, NbInv b -> NbInv (nb_step b o).
Proof.
  intros b o [I P]. destruct o; cbn [nb_step];
    try (split; cbn [nsys npw]; [now apply step_inv|destruct P as [P|P]; [now left|right; apply up_step_down; [exact P|discriminate]]]).
  destruct (up (nsys b)) eqn:U.
  - split; [exact I|]. destruct P as [P|P]; [now left|discriminate].
  - (* Peer._main must forget Neighbor.previous once replace_restart has used it (restart_clears, gen) *)
    split; cbn [nsys npw]; [|unfold restart_clears; now left]. apply run_inv. now apply step_inv.
Qed.

Lemma not_establish_ann : forall l o, In o (map Ann l) -> o <> Establish.
Proof. intros l o I. apply in_map_iff in I. destruct I as [x [<- _]]. discriminate. Qed.

Lemma not_establish_rr : forall prev new o, In o (rr_ops prev new) -> o <> Establish.
Proof.
  intros prev new o I. unfold rr_ops in I. apply in_app_or in I.
  destruct I as [I|I]; apply in_map_iff in I; destruct I as [x [<- _]]; discriminate.
Qed.

Lemma NbInv_parsed : forall b c, NbInv b -> NbInv (parsed_nb b c).
Proof.
  intros b c [I P]. split; cbn [parsed_nb nsys npw]; [now apply run_inv|].
  destruct P as [P|P]; [now left|right]. apply up_run_down; [exact P|apply not_establish_ann].
Qed.

Lemma NbInv_commit : forall fx s n c pn b, NbInv b -> NbInv (commit_nb fx s n c pn b).
Proof.
  intros fx s n c pn b H. unfold commit_nb.
  assert (H1 : NbInv (if pn then parsed_nb b c else b)) by (destruct pn; [now apply NbInv_parsed|exact H]).
  set (b1 := if pn then parsed_nb b c else b) in *. destruct H1 as [I P].
  assert (Pb : npw b1 = npw b) by (unfold b1; destruct pn; reflexivity).
  destruct (zget n (peers s)) as [[p q]|].
  2:{ split; cbn [nsys npw]; [exact I|now left]. }
  destruct (p =? nparams c).
  - (* the loop of Peer._main must forget Neighbor.previous once replace_reload has used it (reload_clears, gen) *)
    split; cbn [nsys npw]; [now apply run_inv|]. unfold reload_clears. rewrite andb_false_r. now left.
  - destruct (fix_eager fx); split; cbn [nsys npw]; try (now right); try (now left).
    + now apply run_inv.
    + now apply step_inv.
Qed.

Lemma NbInv_get : forall n m, (forall b, zget n m = Some b -> NbInv b) -> NbInv (get_nb n m).
Proof. intros n m H. unfold get_nb. destruct (zget n m) as [b|]; [now apply H|exact NbInv_new]. Qed.

Definition AllInv (s : st) : Prop := forall n b, zget n (ribs s) = Some b -> NbInv b.

Lemma AllInv_reload : forall fx s o, AllInv s -> AllInv (fst (reload fx s o)).
Proof.
  intros fx s o A n b G. destruct o as [cfg|clean pre|]; cbn [reload fst ribs] in G.
  - unfold commit_ribs in G. rewrite aget_build in G.
    destruct (existsb _ _); [|discriminate].
    destruct (zget n (merge_cfg (stale s) cfg)) as [c|].
    + injection G as <-. apply NbInv_commit. apply NbInv_get. apply A.
    + destruct (zmem n (peers s)); [discriminate|]. now apply (A n).
  - destruct (fix_defer fx); [now apply (A n)|]. unfold parse_ribs in G. rewrite aget_build in G.
    destruct (existsb _ _); [|discriminate]. destruct (zget n pre) as [c|].
    + injection G as <-. apply NbInv_parsed. apply NbInv_get. apply A.
    + now apply (A n).
  - now apply (A n).
Qed.

Lemma AllInv_rstep : forall fx s x, AllInv s -> AllInv (rstep fx s x).
Proof.
  intros fx s x A. destruct x as [n o|o]; cbn [rstep]; [|now apply AllInv_reload].
  destruct (zmem n (peers s)); [|exact A]. destruct (zget n (ribs s)) as [b|] eqn:G; [|exact A].
  intros m b' G'. cbn [ribs] in G'. destruct (zspec m n) as [->|N].
  - rewrite aget_aset_same in G' by exact zspec. injection G' as <-. apply NbInv_step. now apply (A n).
  - rewrite aget_aset_other in G'; [now apply (A m)|exact zspec|exact N].
Qed.

Lemma AllInv_st0 : AllInv st0.
Proof. intros n b G. discriminate. Qed.

Theorem AllInv_run : forall fx ops, AllInv (run_r fx ops st0).
Proof.
  intros fx ops. unfold run_r. generalize AllInv_st0. generalize st0.
  induction ops as [|x ops IH]; intros s A; [exact A|]. simpl. apply IH. now apply AllInv_rstep.
Qed.

(* ================================================================ 4. successful reload *)

(* the state a reload starts from: no parser state left behind, no withdraw owed, the reactor's peers
   are the configured neighbors *)
Record Ready (s : st) : Prop := {
  rd_stale : stale s = [];
  rd_inv : forall n b, zget n (ribs s) = Some b -> Inv (nsys b) /\ npw b = [];
  rd_peers : forall n, zmem n (peers s) = zmem n (neighbors s)
}.

Lemma Ready_AllInv : forall s, Ready s -> AllInv s.
Proof. intros s R n b G. destruct (rd_inv s R n b G) as [I P]. split; [exact I|now left]. Qed.

(* what the peer of neighbor n must end up holding for prefix k *)
Definition expected (s : st) (n : Z) (c : ncfg) (k : Z) : option (Z * Z) :=
  diffed (prev_routes s n) (nroutes c) k (zget k (intended (nsys (get_nb n (ribs s))))).

(* the value the peer is heading to: the intention, minus the withdraws owed at establishment *)
Definition goal (b : nb) (k : Z) : option (Z * Z) :=
  if has_idx k (npw b) then None else zget k (intended (nsys b)).

Lemma has_idx_app : forall k a b, has_idx k (a ++ b) = has_idx k a || has_idx k b.
Proof. intros. unfold has_idx. apply existsb_app. Qed.

(* what a committed reload does to the value the peer is heading to, whatever is still owed *)
Lemma goal_commit_gen : forall fx s n c k b0,
  (zget n (peers s) = None -> npw b0 = [] /\ zget n (neighbors s) = None) ->
  fix_chain fx = true \/ npw b0 = [] ->
  goal (commit_nb fx s n c true b0) k = diffed (prev_routes s n) (nroutes c) k (goal b0 k).
Proof.
  intros fx s n c k b0 Hnew Hc. unfold goal, commit_nb.
  set (owed := (if fix_chain fx then npw b0 else []) ++ prev_routes s n).
  assert (HO : has_idx k owed = has_idx k (npw b0) || has_idx k (prev_routes s n)).
  { unfold owed. rewrite has_idx_app. destruct Hc as [Hc|Hc]; [now rewrite Hc|].
    rewrite Hc. destruct (fix_chain fx); reflexivity. }
  assert (I1 : zget k (intended (nsys (parsed_nb b0 c))) =
               match lastk k (nroutes c) with Some x => Some (rval x) | None => zget k (intended (nsys b0)) end).
  { cbn [parsed_nb nsys]. rewrite intended_run by apply simple_ann. apply IE_ann. }
  destruct (zget n (peers s)) as [[p q]|] eqn:Gp.
  - assert (RC' : IE k (rr_ops owed (nroutes c)) (IE k (map Ann (nroutes c)) (zget k (intended (nsys b0)))) =
                 diffed (prev_routes s n) (nroutes c) k
                   (if has_idx k (npw b0) then None else zget k (intended (nsys b0)))).
    { rewrite IE_reconfigure. unfold diffed.
      destruct (lastk k (nroutes c)); [reflexivity|]. rewrite HO.
      destruct (has_idx k (npw b0)), (has_idx k (prev_routes s n)); reflexivity. }
    destruct (p =? nparams c).
    + cbn [nsys npw]. unfold reload_clears. rewrite andb_false_r. cbn [has_idx existsb].
      rewrite intended_run by apply simple_rr. cbn [parsed_nb nsys].
      rewrite intended_run by apply simple_ann. exact RC'.
    + destruct (fix_eager fx); cbn [nsys npw].
      * cbn [has_idx existsb].
        rewrite intended_run by apply simple_rr. cbn [parsed_nb nsys].
        rewrite intended_run by apply simple_ann. exact RC'.
      * rewrite has_idx_leftover. rewrite (intended_step _ Drop) by reflexivity. cbn [ieff]. rewrite I1.
        unfold diffed. rewrite (lastk_has k (nroutes c)). destruct (lastk k (nroutes c)); simpl; [reflexivity|].
        rewrite HO. destruct (has_idx k (npw b0)), (has_idx k (prev_routes s n)); reflexivity.
  - (* a new peer: the neighbor was not configured before *)
    destruct (Hnew eq_refl) as [P0 Nn]. cbn [nsys npw has_idx existsb]. rewrite I1.
    unfold diffed, prev_routes. rewrite Nn, P0. cbn [has_idx existsb]. reflexivity.
Qed.

Lemma goal_commit : forall fx s n c k, Ready s ->
  goal (commit_nb fx s n c true (get_nb n (ribs s))) k = expected s n c k.
Proof.
  intros fx s n c k R.
  assert (P0 : npw (get_nb n (ribs s)) = []).
  { unfold get_nb. destruct (zget n (ribs s)) as [b|] eqn:G; [|reflexivity]. now destruct (rd_inv s R n b G). }
  rewrite goal_commit_gen.
  - unfold expected, goal. rewrite P0. reflexivity.
  - intros Gp. split; [exact P0|]. pose proof (rd_peers s R n) as E. unfold amem in E. rewrite Gp in E.
    destruct (zget n (neighbors s)); [discriminate|reflexivity].
  - now right.
Qed.

(* schedules that follow the reload: RIB-level operations only, none of them an API operation on
   prefix k of neighbor n *)
Definition quiet (n k : Z) (x : rop) : bool :=
  match x with
  | RibOp m o => negb ((m =? n) && touches k o)
  | Reload _ => false
  end.

Lemma goal_step : forall b o k, touches k o = false -> goal (nb_step b o) k = goal b k.
Proof.
  intros b o k T. unfold goal. destruct o; cbn [nb_step]; cbn [nsys npw];
    try (rewrite intended_untouched by exact T; reflexivity).
  destruct (up (nsys b)) eqn:U; [reflexivity|]. unfold restart_clears. cbn [nsys npw has_idx existsb].
  rewrite intended_run by apply simple_wd. rewrite IE_wd.
  rewrite (intended_step _ Establish) by reflexivity. reflexivity.
Qed.

(* the hand-over of Peer._reset changes no key of Reactor._peers *)
Lemma zget_handover_none : forall n m ps, zget m (handover n ps) = None <-> zget m ps = None.
Proof.
  intros n m ps. unfold handover. destruct (zget n ps) as [[p [q|]]|] eqn:G; try reflexivity.
  destruct (zspec m n) as [->|N].
  - rewrite aget_aset_same by exact zspec. rewrite G. split; discriminate.
  - rewrite aget_aset_other; [reflexivity|exact zspec|exact N].
Qed.

Lemma zmem_handover : forall n m ps, zmem m (handover n ps) = zmem m ps.
Proof.
  intros n m ps. unfold amem. pose proof (zget_handover_none n m ps) as H.
  destruct (zget m (handover n ps)), (zget m ps); try reflexivity.
  - destruct H as [_ H]. discriminate (H eq_refl).
  - destruct H as [H _]. discriminate (H eq_refl).
Qed.

Lemma zmem_peers_ribop : forall (o : op) n m ps,
  zmem m (match o with Drop => handover n ps | _ => ps end) = zmem m ps.
Proof. intros o n m ps. destruct o; try reflexivity. apply zmem_handover. Qed.

Lemma zget_peers_ribop_none : forall (o : op) n m ps,
  zget m (match o with Drop => handover n ps | _ => ps end) = None -> zget m ps = None.
Proof. intros o n m ps H. destruct o; try exact H. now apply zget_handover_none in H. Qed.

Definition Track (n k : Z) (v : option (Z * Z)) (s : st) : Prop :=
  exists b, zget n (ribs s) = Some b /\ NbInv b /\ goal b k = v.

Lemma Track_rstep : forall fx n k v s x, quiet n k x = true -> Track n k v s -> Track n k v (rstep fx s x).
Proof.
  intros fx n k v s x Q [b [G [I E]]]. destruct x as [m o|o]; [|discriminate]. cbn [rstep].
  destruct (zmem m (peers s)); [|exists b; auto].
  destruct (zget m (ribs s)) as [bm|] eqn:Gm; [|exists b; auto]. cbn [quiet] in Q.
  destruct (zspec m n) as [->|N].
  - rewrite G in Gm. injection Gm as <-. exists (nb_step b o). cbn [ribs].
    rewrite aget_aset_same by exact zspec. split; [reflexivity|]. split; [now apply NbInv_step|].
    rewrite goal_step; [exact E|]. simpl in Q. now apply negb_true_iff in Q.
  - exists b. cbn [ribs]. rewrite aget_aset_other; [auto|exact zspec|congruence].
Qed.

Lemma Track_run : forall fx n k v sched s, forallb (quiet n k) sched = true ->
  Track n k v s -> Track n k v (run_r fx sched s).
Proof.
  intros fx n k v sched. induction sched as [|x l IH]; intros s Q T; [exact T|].
  simpl in *. apply andb_prop in Q. destruct Q as [Q1 Q2]. apply IH; [exact Q2|]. now apply Track_rstep.
Qed.

Theorem success : forall fx s cfg sched n c k,
  Ready s ->
  zget n cfg = Some c ->
  forallb (quiet n k) sched = true ->
  let s2 := run_r fx sched (fst (reload fx s (Parsed cfg))) in
  exists b, zget n (ribs s2) = Some b /\
    (up (nsys b) = true -> drained (r (nsys b)) -> zget k (peer (nsys b)) = expected s n c k).
Proof.
  intros fx s cfg sched n c k R Gc Q s2.
  assert (T : Track n k (expected s n c k) (fst (reload fx s (Parsed cfg)))).
  { cbn [reload fst]. rewrite (rd_stale s R). unfold Track. cbn [ribs].
    unfold commit_ribs. rewrite aget_build. rewrite aget_merge_nil, Gc.
    rewrite in_merge_names.
    2:{ eapply aget_in_keys; [exact zspec|]. rewrite aget_merge_nil. exact Gc. }
    assert (M : zmem n cfg = true) by (unfold amem; now rewrite Gc). rewrite M, orb_true_r.
    eexists. split; [reflexivity|]. split.
    - apply NbInv_commit. apply NbInv_get. intros b G. now apply (Ready_AllInv s R n).
    - now apply goal_commit. }
  destruct (Track_run fx n k _ sched _ Q T) as [b [G [[I P] E]]].
  exists b. split; [exact G|]. intros U D.
  destruct (drained_converged (nsys b) I U D k) as [A B].
  rewrite A, <- B. rewrite <- E. unfold goal.
  destruct P as [P|P]; [now rewrite P|congruence].
Qed.

(* the three readings of `expected` *)
Lemma expected_new_value : forall s n c k x, lastk k (nroutes c) = Some x -> expected s n c k = Some (rval x).
Proof. intros s n c k x L. unfold expected, diffed. now rewrite L. Qed.

Lemma expected_removed : forall s n c k, has_idx k (nroutes c) = false -> has_idx k (prev_routes s n) = true ->
  expected s n c k = None.
Proof.
  intros s n c k A B. unfold expected, diffed. rewrite lastk_has in A.
  destruct (lastk k (nroutes c)); [discriminate|]. now rewrite B.
Qed.

Lemma expected_api_kept : forall s n c k, has_idx k (nroutes c) = false -> has_idx k (prev_routes s n) = false ->
  expected s n c k = zget k (intended (nsys (get_nb n (ribs s)))).
Proof.
  intros s n c k A B. unfold expected, diffed. rewrite lastk_has in A.
  destruct (lastk k (nroutes c)); [discriminate|]. now rewrite B.
Qed.

(* a neighbor that is no longer configured: its peer and its RIB are gone *)
Lemma removed_neighbor : forall fx s cfg n, Ready s -> zmem n (peers s) = true -> zget n cfg = None ->
  let s1 := fst (reload fx s (Parsed cfg)) in
  zget n (ribs s1) = None /\ zget n (peers s1) = None /\ zget n (neighbors s1) = None.
Proof.
  intros fx s cfg n R P G s1. unfold s1. cbn [reload fst ribs peers neighbors]. rewrite (rd_stale s R).
  split; [|split].
  - unfold commit_ribs. rewrite aget_build, aget_merge_nil, G, P. destruct (existsb _ _); reflexivity.
  - unfold commit_peers. rewrite aget_build, aget_merge_nil, G. destruct (existsb _ _); reflexivity.
  - rewrite aget_merge_nil. exact G.
Qed.

(* ================================================================ 5. the states reloads start from *)

Lemma amem_commit_peers : forall fx s committed n, zmem n (commit_peers fx s committed) = zmem n committed.
Proof.
  intros fx s committed n. unfold amem, commit_peers. rewrite aget_build.
  destruct (zget n committed) as [c|] eqn:G.
  - rewrite in_merge_names; [reflexivity|]. eapply aget_in_keys; [exact zspec|exact G].
  - destruct (existsb _ _); reflexivity.
Qed.

Lemma Ready_load : forall fx cfg, Ready (fst (reload fx st0 (Parsed cfg))).
Proof.
  intros fx cfg. constructor; cbn [reload fst stale ribs peers neighbors].
  - reflexivity.
  - intros n b G. unfold commit_ribs in G. rewrite aget_build in G. destruct (existsb _ _); [|discriminate].
    cbn [st0 stale ribs peers] in G.
    destruct (zget n (merge_cfg [] cfg)) as [c|]; [|discriminate]. injection G as <-.
    unfold commit_nb. cbn [st0 peers aget]. unfold get_nb. cbn [aget nsys npw].
    destruct (fix_defer fx || zmem n cfg).
    + cbn [parsed_nb nsys npw nb_new]. split; [apply run_inv; exact Inv_sys_new|reflexivity].
    + cbn [nb_new nsys npw]. split; [exact Inv_sys_new|reflexivity].
  - intros n. apply amem_commit_peers.
Qed.

Lemma Ready_ribop : forall fx s n o, Ready s -> Ready (rstep fx s (RibOp n o)).
Proof.
  intros fx s n o R. cbn [rstep]. destruct (zmem n (peers s)); [|exact R].
  destruct (zget n (ribs s)) as [b|] eqn:G; [|exact R].
  destruct (rd_inv s R n b G) as [I P].
  constructor; cbn [stale ribs peers neighbors]; [exact (rd_stale s R)| |intros m0; rewrite zmem_peers_ribop; apply (rd_peers s R)].
  intros m b' G'. destruct (zspec m n) as [->|N].
  - rewrite aget_aset_same in G' by exact zspec. injection G' as <-.
    assert (NI : NbInv (nb_step b o)) by (apply NbInv_step; split; [exact I|now left]).
    split; [exact (proj1 NI)|]. destruct o; cbn [nb_step npw]; try exact P.
    destruct (up (nsys b)); [exact P|reflexivity].
  - rewrite aget_aset_other in G'; [now apply (rd_inv s R m)|exact zspec|exact N].
Qed.

Definition is_ribop (x : rop) : bool := match x with RibOp _ _ => true | Reload _ => false end.

Theorem Ready_history : forall fx cfg ops, forallb is_ribop ops = true ->
  Ready (run_r fx (Reload (Parsed cfg) :: ops) st0).
Proof.
  intros fx cfg ops. unfold run_r. cbn [fold_left rstep]. generalize (Ready_load fx cfg).
  generalize (fst (reload fx st0 (Parsed cfg))).
  induction ops as [|x ops IH]; intros s R H; [exact R|]. simpl in H. apply andb_prop in H. destruct H as [H1 H2].
  destruct x as [n o|o]; [|discriminate]. cbn [fold_left]. apply IH; [exact (Ready_ribop fx s n o R)|exact H2].
Qed.

(* ================================================================ 6. failed reload *)

Definition not_parsed (o : outcome) : Prop := match o with Parsed _ => False | _ => True end.

Lemma st_eta : forall s, stale s = [] ->
  {| neighbors := neighbors s; stale := []; peers := peers s; ribs := ribs s |} = s.
Proof. intros [a b c d] H. simpl in *. now subst. Qed.

(* the repaired tree: a failed reload is the identity on everything *)
Theorem failure_noop_repaired : forall s o, stale s = [] -> not_parsed o -> reload repaired s o = (s, false).
Proof.
  intros s o H N. destruct o as [cfg|clean pre|]; [contradiction| |]; cbn [reload repaired fix_rollback fix_defer fix_chain].
  - rewrite orb_true_r. now rewrite st_eta.
  - now rewrite st_eta.
Qed.

Theorem failure_noop_fx : forall fx s o, fix_rollback fx = true -> fix_defer fx = true ->
  stale s = [] -> not_parsed o -> reload fx s o = (s, false).
Proof.
  intros fx s o F1 F2 H N. destruct o as [cfg|clean pre|]; [contradiction| |]; cbn [reload]; rewrite ?F1, ?F2.
  - rewrite orb_true_r. now rewrite st_eta.
  - now rewrite st_eta.
Qed.

Lemma stale_after_reload_rollback : forall fx s o, fix_rollback fx = true -> stale (fst (reload fx s o)) = [].
Proof. intros fx s o F. destruct o; cbn [reload fst stale]; try rewrite F; reflexivity. Qed.

(* only the roll-back repaired: configuration, parser state and peers are untouched; the RIB of every
   neighbor outside the parsed prefix is untouched *)
Theorem failure_config_noop_rollback_only : forall s o, stale s = [] -> not_parsed o ->
  let s' := fst (reload rollback_only s o) in
  snd (reload rollback_only s o) = false /\ neighbors s' = neighbors s /\ stale s' = stale s /\ peers s' = peers s /\
  forall n, (match o with Failed _ pre => zget n pre = None | _ => True end) -> zget n (ribs s') = zget n (ribs s).
Proof.
  intros s o H N. destruct o as [cfg|clean pre|]; [contradiction| |];
    cbn [reload rollback_only fix_rollback fix_defer fst snd neighbors stale peers ribs].
  - rewrite orb_true_r. repeat split; try (now rewrite H).
    intros n G. unfold parse_ribs. rewrite aget_build, G.
    destruct (existsb (Z.eqb n) (merge_names (akeys (ribs s)) (akeys pre))) eqn:E; [reflexivity|].
    destruct (zget n (ribs s)) eqn:Gr; [|reflexivity].
    rewrite in_merge_names_old in E; [discriminate|]. eapply aget_in_keys; [exact zspec|exact Gr].
  - repeat split; now rewrite H.
Qed.

(* the pinned tree, the part that holds: a syntax error met before the first neighbor was completed *)
Theorem failure_noop_pinned_partial : forall s, stale s = [] -> awf (ribs s) ->
  reload pinned s (Failed true []) = (s, false).
Proof.
  intros s H W. cbn [reload pinned fix_rollback fix_defer orb].
  destruct s as [a b c d]. cbn [neighbors stale peers ribs] in *. subst b. f_equal. f_equal.
  unfold parse_ribs. cbn [akeys map aget]. rewrite merge_names_nil. now apply build_self.
Qed.

(* a syntax error on the pinned tree: the configuration, the peers and the RIBs of the neighbors that
   were not yet parsed are untouched *)
Theorem failure_clean_pinned_config : forall s pre,
  let s' := fst (reload pinned s (Failed true pre)) in
  neighbors s' = neighbors s /\ peers s' = peers s /\
  forall n, zget n pre = None -> zget n (ribs s') = zget n (ribs s).
Proof.
  intros s pre. cbn [reload pinned fix_rollback fix_defer fst neighbors peers ribs orb].
  repeat split. intros n G. unfold parse_ribs. rewrite aget_build, G.
  destruct (existsb (Z.eqb n) (merge_names (akeys (ribs s)) (akeys pre))) eqn:E; [reflexivity|].
  destruct (zget n (ribs s)) eqn:Gr; [|reflexivity].
  rewrite in_merge_names_old in E; [discriminate|]. eapply aget_in_keys; [exact zspec|exact Gr].
Qed.

(* ---- witnesses on the pinned tree *)

Definition wR (i a : Z) : route := {| ridx := i; rfam := 0; rattr := a; rnh := 1 |}.
Definition wcfg : cfgmap := [(1, {| nparams := 1; nroutes := [wR 1 1] |}); (2, {| nparams := 1; nroutes := [wR 2 1] |})].
Definition wdrain (n : Z) : list rop := [RibOp n Establish; RibOp n Start; RibOp n Emit; RibOp n Emit; RibOp n Emit].
(* both neighbors loaded, both sessions established, everything sent *)
Definition wstate : st := run_r pinned (Reload (Parsed wcfg) :: wdrain 1 ++ wdrain 2) st0.

Lemma wstate_ready : Ready wstate.
Proof. apply Ready_history. reflexivity. Qed.

(* D10: the file is missing: Configuration.neighbors is left empty *)
Theorem failure_noop_pinned_refuted_missing_file :
  exists s, Ready s /\ reload pinned s NoFile <> (s, false).
Proof.
  exists wstate. split; [exact wstate_ready|]. intros H.
  apply (f_equal (fun p => length (neighbors (fst p)))) in H. vm_compute in H. discriminate.
Qed.

(* D10: an exception raised by a value parser in the second neighbor: no roll-back at all *)
Theorem failure_noop_pinned_refuted_exception :
  exists s pre, Ready s /\ reload pinned s (Failed false pre) <> (s, false).
Proof.
  exists wstate, []. split; [exact wstate_ready|]. intros H.
  apply (f_equal (fun p => length (neighbors (fst p)))) in H. vm_compute in H. discriminate.
Qed.

(* D9: a syntax error in the second neighbor after the first one was parsed with `med 3` instead of
   `med 1` and one more prefix: rolled back, but the live RIB of the first neighbor has both queued and cached *)
Definition wprefix : cfgmap := [(1, {| nparams := 1; nroutes := [wR 1 3; wR 9 1] |})].

Theorem failure_noop_pinned_refuted_prefix :
  exists s pre, Ready s /\ neighbors (fst (reload pinned s (Failed true pre))) = neighbors s /\
    reload pinned s (Failed true pre) <> (s, false).
Proof.
  exists wstate, wprefix. split; [exact wstate_ready|]. split; [reflexivity|]. intros H.
  apply (f_equal (fun p => option_map rval (zget 1 (seen (r (nsys (get_nb 1 (ribs (fst p))))))))) in H.
  vm_compute in H. discriminate.
Qed.

(* ... and the peer receives them: after the failed reload the established session sends what is queued *)
Lemma failure_pinned_prefix_reaches_peer :
  let s := run_r pinned [Reload (Failed true wprefix); RibOp 1 Start; RibOp 1 Emit; RibOp 1 Emit] wstate in
  neighbors s = neighbors wstate /\
  peer (nsys (get_nb 1 (ribs wstate))) = [(1, (1, 1))] /\
  peer (nsys (get_nb 1 (ribs s))) = [(1, (3, 1)); (9, (1, 1))].
Proof. vm_compute. repeat split. Qed.

(* the parser state left by a failed reload makes the next, valid, reload commit a neighbor that is in
   no file: stale neighbor 1 of the failed attempt is configured again by a file that only has neighbor 2 *)
Lemma failure_pinned_stale_neighbor_resurrected :
  let s := run_r pinned [Reload (Failed true wprefix); Reload (Parsed [(2, {| nparams := 1; nroutes := [wR 2 1] |})])] wstate in
  akeys (neighbors s) = [1; 2] /\ option_map nroutes (zget 1 (neighbors s)) = Some [wR 1 3; wR 9 1].
Proof. vm_compute. split; reflexivity. Qed.

(* ================================================================ 7. several reloads in a row *)

(* the states reloads start from in ANY history of the repaired tree: withdraws may still be owed to
   sessions that have not come up since an earlier reload *)
Record Steady (s : st) : Prop := {
  sd_stale : stale s = [];
  sd_peers : forall n, zmem n (peers s) = zmem n (neighbors s);
  sd_orphan : forall n b, zget n (ribs s) = Some b -> zget n (peers s) = None -> npw b = []
}.

Lemma Steady_st0 : Steady st0.
Proof. constructor; [reflexivity|reflexivity|intros n b G; discriminate]. Qed.

Lemma Steady_reload_parsed : forall fx s cfg, Steady s -> Steady (fst (reload fx s (Parsed cfg))).
Proof.
  intros fx s cfg S. constructor; cbn [reload fst stale peers neighbors ribs].
  - reflexivity.
  - intros n. apply amem_commit_peers.
  - intros n b G P. unfold commit_ribs in G. rewrite aget_build in G.
    destruct (existsb (Z.eqb n) (merge_names (akeys (ribs s)) (akeys (merge_cfg (stale s) cfg)))); [|discriminate].
    destruct (zget n (merge_cfg (stale s) cfg)) as [c|] eqn:Gc.
    + exfalso. unfold commit_peers in P. rewrite aget_build, Gc in P.
      rewrite in_merge_names in P; [discriminate|]. eapply aget_in_keys; [exact zspec|exact Gc].
    + destruct (zmem n (peers s)) eqn:M; [discriminate|]. apply (sd_orphan s S n b G).
      unfold amem in M. destruct (zget n (peers s)); [discriminate|reflexivity].
Qed.

Lemma Steady_ribop : forall fx s n o, Steady s -> Steady (rstep fx s (RibOp n o)).
Proof.
  intros fx s n o S. cbn [rstep]. destruct (zmem n (peers s)) eqn:M; [|exact S].
  destruct (zget n (ribs s)) as [b|] eqn:G; [|exact S].
  constructor; cbn [stale peers neighbors ribs]; [exact (sd_stale s S)|intros m0; rewrite zmem_peers_ribop; apply (sd_peers s S)|].
  intros m b' G' P. apply zget_peers_ribop_none in P. destruct (zspec m n) as [->|N].
  - unfold amem in M. rewrite P in M. discriminate.
  - rewrite aget_aset_other in G'; [now apply (sd_orphan s S m)|exact zspec|exact N].
Qed.

(* With the owed withdraws kept across reloads, a parsed reload acts on the value every peer is heading
   to exactly as the difference of the two files, whatever happened before (sessions up or down,
   earlier reloads not yet acted upon): reloads compose. *)
Theorem reload_composes : forall fx s cfg n c k,
  fix_chain fx = true -> Steady s -> zget n cfg = Some c ->
  exists b, zget n (ribs (fst (reload fx s (Parsed cfg)))) = Some b /\
    goal b k = diffed (prev_routes s n) (nroutes c) k (goal (get_nb n (ribs s)) k).
Proof.
  intros fx s cfg n c k F S Gc. cbn [reload fst ribs]. rewrite (sd_stale s S).
  unfold commit_ribs. rewrite aget_build, aget_merge_nil, Gc.
  rewrite in_merge_names.
  2:{ eapply aget_in_keys; [exact zspec|]. rewrite aget_merge_nil. exact Gc. }
  assert (M : zmem n cfg = true) by (unfold amem; now rewrite Gc). rewrite M, orb_true_r.
  eexists. split; [reflexivity|]. apply goal_commit_gen; [|now left].
  intros P. split.
  - unfold get_nb. destruct (zget n (ribs s)) as [b|] eqn:G; [|reflexivity]. now apply (sd_orphan s S n b).
  - pose proof (sd_peers s S n) as E. unfold amem in E. rewrite P in E.
    destruct (zget n (neighbors s)); [discriminate|reflexivity].
Qed.

(* once the session is up and the RIB drained, the peer holds that value *)
Theorem peer_reaches_goal : forall fx ops n b k,
  zget n (ribs (run_r fx ops st0)) = Some b -> up (nsys b) = true -> drained (r (nsys b)) ->
  zget k (peer (nsys b)) = goal b k.
Proof.
  intros fx ops n b k G U D. destruct (AllInv_run fx ops n b G) as [I P].
  destruct (drained_converged (nsys b) I U D k) as [A B]. rewrite A, <- B. unfold goal.
  destruct P as [P|P]; [now rewrite P|congruence].
Qed.

(* the tree without that repair: a reload that changes a session parameter and removes prefix 2, then
   another reload before the session has come up: prefix 2 is never withdrawn *)
Definition chain_old : cfgmap := [(1, {| nparams := 1; nroutes := [wR 1 1; wR 2 1] |})].
Definition chain_mid : cfgmap := [(1, {| nparams := 2; nroutes := [wR 1 1] |})].
Definition chain_new : cfgmap := [(1, {| nparams := 2; nroutes := [wR 1 1; wR 3 1] |})].
Definition chain_state (fx : fixes) : st := run_r fx [Reload (Parsed chain_old); Reload (Parsed chain_mid)] st0.

Lemma chain_state_steady : forall fx, Steady (chain_state fx).
Proof.
  intros fx. unfold chain_state, run_r. cbn [fold_left rstep].
  apply Steady_reload_parsed, Steady_reload_parsed, Steady_st0.
Qed.

Theorem reload_composes_refuted_without_chain :
  exists s cfg n c k, Steady s /\ zget n cfg = Some c /\
    forall b, zget n (ribs (fst (reload repaired_failure s (Parsed cfg)))) = Some b ->
      goal b k <> diffed (prev_routes s n) (nroutes c) k (goal (get_nb n (ribs s)) k).
Proof.
  exists (chain_state repaired_failure), chain_new, 1, {| nparams := 2; nroutes := [wR 1 1; wR 3 1] |}, 2.
  split; [apply chain_state_steady|]. split; [reflexivity|].
  intros b G. vm_compute in G. injection G as <-. vm_compute. discriminate.
Qed.

Lemma chain_peer_tables :
  let tail := [Reload (Parsed chain_new); RibOp 1 Establish; RibOp 1 Start; RibOp 1 Emit; RibOp 1 Emit; RibOp 1 Emit; RibOp 1 Emit] in
  zget 2 (peer (nsys (get_nb 1 (ribs (run_r repaired_failure tail (chain_state repaired_failure)))))) = Some (1, 1) /\
  zget 2 (peer (nsys (get_nb 1 (ribs (run_r repaired tail (chain_state repaired)))))) = None /\
  zget 3 (peer (nsys (get_nb 1 (ribs (run_r repaired tail (chain_state repaired)))))) = Some (1, 1).
Proof. vm_compute. repeat split. Qed.

(* ================================================================ 8. every history *)

(* the property followed at the level of files and API operations, for one neighbor n and one prefix k:
   (the definition of n in the last accepted file, the value its peer must hold) *)
Definition spec_st := (option ncfg * option (Z * Z))%type.

Definition spec_step (n k : Z) (sp : spec_st) (x : rop) : spec_st :=
  match x with
  | Reload (Parsed cfg) =>
    match zget n cfg with
    | Some c => (Some c, diffed (match fst sp with Some c0 => nroutes c0 | None => [] end) (nroutes c) k (snd sp))
    | None => (None, None)
    end
  | Reload _ => sp                       (* a reload that fails changes nothing *)
  | RibOp m o =>
    if m =? n then match fst sp with Some _ => (fst sp, ieff k o (snd sp)) | None => sp end else sp
  end.

Definition spec_run (n k : Z) (ops : list rop) : spec_st := fold_left (spec_step n k) ops (None, None).

Definition simple_rop (x : rop) : bool := match x with RibOp _ o => simple o | Reload _ => true end.

Definition all_fixed (fx : fixes) : Prop :=
  fix_rollback fx = true /\ fix_defer fx = true /\ fix_chain fx = true /\ fix_eager fx = true.

Record Good (s : st) : Prop := {
  gd_stale : stale s = [];
  gd_peers : forall n, zmem n (peers s) = zmem n (neighbors s);
  gd_npw : forall n b, zget n (ribs s) = Some b -> npw b = [];
  gd_orphan : forall n, zget n (peers s) = None -> zget n (ribs s) = None
}.

Definition Rel (n k : Z) (s : st) (sp : spec_st) : Prop :=
  zget n (neighbors s) = fst sp /\
  match fst sp with
  | Some _ => exists b, zget n (ribs s) = Some b /\ zget k (intended (nsys b)) = snd sp
  | None => zget n (ribs s) = None /\ snd sp = None
  end.

Lemma Good_st0 : Good st0.
Proof. constructor; try reflexivity. intros n b G. discriminate. Qed.

Lemma npw_commit_eager : forall fx s n c pn b, fix_eager fx = true -> npw (commit_nb fx s n c pn b) = [].
Proof.
  intros fx s n c pn b F. unfold commit_nb. destruct (zget n (peers s)) as [[p q]|]; [|reflexivity].
  destruct (p =? nparams c); cbn [npw].
  - unfold reload_clears. now rewrite andb_false_r.
  - rewrite F. reflexivity.
Qed.

Lemma npw_step_nil : forall b o, npw b = [] -> npw (nb_step b o) = [].
Proof.
  intros b o P. destruct o; cbn [nb_step npw]; try exact P.
  destruct (up (nsys b)); [exact P|]. cbn [npw]. destruct restart_clears; [reflexivity|exact P].
Qed.

Lemma zmem_none {V} : forall n (m : amap Z V), zmem n m = false -> zget n m = None.
Proof. intros n m H. unfold amem in H. destruct (zget n m); [discriminate|reflexivity]. Qed.

Lemma Good_reload_parsed : forall fx s cfg, fix_eager fx = true -> Good s -> Good (fst (reload fx s (Parsed cfg))).
Proof.
  intros fx s cfg F G. constructor; cbn [reload fst stale peers neighbors ribs].
  - reflexivity.
  - intros n. apply amem_commit_peers.
  - intros n b H. unfold commit_ribs in H. rewrite aget_build in H.
    destruct (existsb _ _); [|discriminate].
    destruct (zget n (merge_cfg (stale s) cfg)) as [c|].
    + injection H as <-. now apply npw_commit_eager.
    + destruct (zmem n (peers s)); [discriminate|]. now apply (gd_npw s G n).
  - intros n P. unfold commit_peers in P. rewrite aget_build in P.
    unfold commit_ribs. rewrite aget_build.
    destruct (zget n (merge_cfg (stale s) cfg)) as [c|] eqn:Gc.
    + rewrite in_merge_names in P; [discriminate|]. eapply aget_in_keys; [exact zspec|exact Gc].
    + destruct (existsb _ (merge_names (akeys (ribs s)) _)); [|reflexivity].
      destruct (zmem n (peers s)) eqn:M; [reflexivity|]. apply (gd_orphan s G). now apply zmem_none.
Qed.

Lemma Good_ribop : forall fx s m o, Good s -> Good (rstep fx s (RibOp m o)).
Proof.
  intros fx s m o G. cbn [rstep]. destruct (zmem m (peers s)) eqn:M; [|exact G].
  destruct (zget m (ribs s)) as [b|] eqn:Gb; [|exact G].
  constructor; cbn [stale peers neighbors ribs]; [exact (gd_stale s G)|intros m0; rewrite zmem_peers_ribop; apply (gd_peers s G)| |].
  - intros n b' H. destruct (zspec n m) as [->|N].
    + rewrite aget_aset_same in H by exact zspec. injection H as <-. apply npw_step_nil. now apply (gd_npw s G m).
    + rewrite aget_aset_other in H; [now apply (gd_npw s G n)|exact zspec|exact N].
  - intros n P. apply zget_peers_ribop_none in P. destruct (zspec n m) as [->|N].
    + unfold amem in M. rewrite P in M. discriminate.
    + rewrite aget_aset_other; [now apply (gd_orphan s G)|exact zspec|exact N].
Qed.

Lemma intended_nb_step : forall b o k, simple o = true -> npw b = [] ->
  zget k (intended (nsys (nb_step b o))) = ieff k o (zget k (intended (nsys b))).
Proof.
  intros b o k S P. destruct o; cbn [nb_step nsys]; try (now apply intended_step).
  destruct (up (nsys b)) eqn:U; [reflexivity|]. cbn [nsys]. rewrite P. cbn [map run fold_left].
  now apply intended_step.
Qed.

Lemma neighbors_rstep_ribop : forall fx s m o, neighbors (rstep fx s (RibOp m o)) = neighbors s.
Proof.
  intros. cbn [rstep]. destruct (zmem m (peers s)); [|reflexivity]. destruct (zget m (ribs s)); reflexivity.
Qed.

Lemma ribs_rstep_other : forall fx s m n o, n <> m -> zget n (ribs (rstep fx s (RibOp m o))) = zget n (ribs s).
Proof.
  intros fx s m n o N. cbn [rstep]. destruct (zmem m (peers s)); [|reflexivity].
  destruct (zget m (ribs s)); [|reflexivity]. cbn [ribs]. apply aget_aset_other; [exact zspec|exact N].
Qed.

Lemma history_step : forall fx n k s sp x, all_fixed fx -> simple_rop x = true ->
  Good s -> Rel n k s sp -> Good (rstep fx s x) /\ Rel n k (rstep fx s x) (spec_step n k sp x).
Proof.
  intros fx n k s [cn v] x [F1 [F2 [F3 F4]]] S G [RN RR]. cbn [fst snd] in *.
  destruct x as [m o|o].
  - (* an operation on one RIB *)
    split; [now apply Good_ribop|].
    destruct (zspec m n) as [->|N].
    2:{ unfold Rel. rewrite neighbors_rstep_ribop, (ribs_rstep_other fx s m n o) by congruence.
        cbn [spec_step]. destruct (zspec m n); [contradiction|]. split; assumption. }
    cbn [rstep spec_step]. rewrite Z.eqb_refl.
    destruct cn as [c0|]; cbn [fst snd].
    + destruct RR as [b [Gb Iv]].
      assert (M : zmem n (peers s) = true).
      { rewrite (gd_peers s G n). unfold amem. now rewrite RN. }
      rewrite M, Gb. split; cbn [neighbors ribs fst snd]; [exact RN|].
      exists (nb_step b o). split; [apply aget_aset_same; exact zspec|].
      rewrite intended_nb_step; [now rewrite Iv|exact S|now apply (gd_npw s G n)].
    + destruct RR as [Gb Vn].
      assert (M : zmem n (peers s) = false).
      { rewrite (gd_peers s G n). unfold amem. now rewrite RN. }
      rewrite M. split; cbn [fst snd]; [exact RN|split; assumption].
  - destruct o as [cfg|clean pre|].
    + (* a reload that parses *)
      split; [now apply Good_reload_parsed|]. cbn [rstep spec_step fst snd].
      assert (Nb : zget n (neighbors (fst (reload fx s (Parsed cfg)))) = zget n cfg).
      { cbn [reload fst neighbors]. rewrite (gd_stale s G). apply aget_merge_nil. }
      unfold Rel. rewrite Nb. clear Nb.
      cbn [reload fst ribs]. rewrite (gd_stale s G).
      unfold commit_ribs. rewrite aget_build, aget_merge_nil.
      destruct (zget n cfg) as [c|] eqn:Gc; cbn [fst snd].
      * split; [reflexivity|]. rewrite in_merge_names.
        2:{ eapply aget_in_keys; [exact zspec|]. rewrite aget_merge_nil. exact Gc. }
        assert (M : zmem n cfg = true) by (unfold amem; now rewrite Gc). rewrite M, orb_true_r.
        eexists. split; [reflexivity|].
        assert (P0 : npw (get_nb n (ribs s)) = []).
        { unfold get_nb. destruct (zget n (ribs s)) as [b|] eqn:Gb; [now apply (gd_npw s G n)|reflexivity]. }
        pose proof (goal_commit_gen fx s n c k (get_nb n (ribs s))) as GC.
        unfold goal in GC. rewrite npw_commit_eager in GC by exact F4. rewrite P0 in GC. cbn [has_idx existsb] in GC.
        rewrite GC.
        -- unfold prev_routes. rewrite RN. f_equal.
           destruct cn as [c0|].
           ++ destruct RR as [b [Gb Iv]]. unfold get_nb. now rewrite Gb.
           ++ destruct RR as [Gb Vn]. unfold get_nb. rewrite Gb, Vn. reflexivity.
        -- intros P. split; [reflexivity|]. pose proof (gd_peers s G n) as E. unfold amem in E. rewrite P in E.
           destruct (zget n (neighbors s)); [discriminate|reflexivity].
        -- now left.
      * split; [reflexivity|]. split; [|reflexivity].
        destruct (existsb _ _); [|reflexivity].
        destruct (zmem n (peers s)) eqn:M; [reflexivity|]. apply (gd_orphan s G). now apply zmem_none.
    + cbn [rstep spec_step]. rewrite (failure_noop_fx fx s (Failed clean pre) F1 F2 (gd_stale s G) I). cbn [fst]. split; [exact G|split; assumption].
    + cbn [rstep spec_step]. rewrite (failure_noop_fx fx s NoFile F1 F2 (gd_stale s G) I). cbn [fst]. split; [exact G|split; assumption].
Qed.

Lemma history_run : forall fx n k ops s sp, all_fixed fx -> forallb simple_rop ops = true ->
  Good s -> Rel n k s sp -> Rel n k (run_r fx ops s) (fold_left (spec_step n k) ops sp).
Proof.
  intros fx n k ops. induction ops as [|x ops IH]; intros s sp F S G R; [exact R|].
  simpl in S. apply andb_prop in S. destruct S as [S1 S2]. simpl.
  destruct (history_step fx n k s sp x F S1 G R) as [G' R']. now apply IH.
Qed.

(* EVERY history of reloads (parsed or failing, any number in a row), API announcements and withdrawals,
   flushes, generator steps, session losses and establishments, on the fully repaired tree: whenever the
   session of neighbor n is established and its RIB drained, its peer holds for prefix k exactly what
   the files and the API operations say. *)
Theorem history : forall fx ops n k b, all_fixed fx -> forallb simple_rop ops = true ->
  zget n (ribs (run_r fx ops st0)) = Some b -> up (nsys b) = true -> drained (r (nsys b)) ->
  zget k (peer (nsys b)) = snd (spec_run n k ops).
Proof.
  intros fx ops n k b F S Gb U D.
  assert (R0 : Rel n k st0 (None, None)) by (split; [reflexivity|split; reflexivity]).
  pose proof (history_run fx n k ops st0 (None, None) F S Good_st0 R0) as [RN RR].
  fold (spec_run n k ops) in RN, RR.
  destruct (AllInv_run fx ops n b Gb) as [I P].
  destruct (drained_converged (nsys b) I U D k) as [A B]. rewrite A, <- B.
  destruct (fst (spec_run n k ops)).
  - destruct RR as [b' [Gb' Iv]]. rewrite Gb in Gb'. injection Gb' as <-. exact Iv.
  - destruct RR as [Gn _]. rewrite Gb in Gn. discriminate.
Qed.

(* without the last repair: a reload changes a session parameter and removes prefix 2; before the session is
   back the API announces prefix 2; at establishment it is withdrawn with the routes the reload removed *)
Definition eager_ops : list rop :=
  [Reload (Parsed chain_old); Reload (Parsed chain_mid); RibOp 1 (Ann (wR 2 1));
   RibOp 1 Establish; RibOp 1 Start; RibOp 1 Emit; RibOp 1 Emit; RibOp 1 Emit].

Theorem history_refuted_without_eager :
  exists ops n k b, forallb simple_rop ops = true /\
    zget n (ribs (run_r repaired_chain ops st0)) = Some b /\ up (nsys b) = true /\ drained (r (nsys b)) /\
    zget k (peer (nsys b)) <> snd (spec_run n k ops).
Proof.
  exists eager_ops, 1, 2. eexists. split; [reflexivity|]. split; [vm_compute; reflexivity|].
  split; [reflexivity|]. split; [vm_compute; repeat split|]. vm_compute. discriminate.
Qed.

Lemma history_eager_witness_repaired :
  zget 2 (peer (nsys (get_nb 1 (ribs (run_r repaired eager_ops st0))))) = Some (1, 1) /\
  snd (spec_run 1 2 eager_ops) = Some (1, 1).
Proof. vm_compute. split; reflexivity. Qed.

(* ---- a neighbor removed and configured again: nothing of its earlier incarnation counts *)

Definition absent (n : Z) (x : rop) : bool :=
  match x with Reload (Parsed cfg) => negb (zmem n cfg) | _ => true end.

Lemma spec_absent : forall n k ops, forallb (absent n) ops = true ->
  fold_left (spec_step n k) ops (None, None) = (None, None).
Proof.
  intros n k ops. induction ops as [|x ops IH]; intros H; [reflexivity|].
  simpl in H. apply andb_prop in H. destruct H as [H1 H2]. simpl.
  assert (E : spec_step n k (None, None) x = (None, None)).
  { destruct x as [m o|[cfg|clean pre|]]; cbn [spec_step fst]; try reflexivity.
    - destruct (m =? n); reflexivity.
    - cbn [absent] in H1. apply negb_true_iff in H1. now rewrite (zmem_none n cfg H1). }
  rewrite E. now apply IH.
Qed.

Theorem readd_forgets : forall n k before cfg1 mid cfg2 c after,
  zget n cfg1 = None -> forallb (absent n) mid = true -> zget n cfg2 = Some c ->
  spec_run n k (before ++ Reload (Parsed cfg1) :: mid ++ Reload (Parsed cfg2) :: after) =
  fold_left (spec_step n k) after (Some c, option_map rval (lastk k (nroutes c))).
Proof.
  intros n k before cfg1 mid cfg2 c after H1 Hm H2. unfold spec_run.
  rewrite fold_left_app. cbn [fold_left]. cbn [spec_step]. rewrite H1.
  rewrite fold_left_app. rewrite spec_absent by exact Hm. cbn [fold_left spec_step fst snd]. rewrite H2.
  unfold diffed. destruct (lastk k (nroutes c)); reflexivity.
Qed.
