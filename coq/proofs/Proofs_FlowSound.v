(* C16 - soundness of the decoder with meaning: a delivered rule IS what the RFC framing walk reads
   (and what the strict RFC decoder reads when its types ascend); decoding NLRIs in sequence. *)
From Coq Require Import ZArith List Bool Lia Arith.
From ExaV Require Import lib.ListX gen.Gen_Flow spec.Spec_Flow model.Model_Flow
  proofs.Proofs_Flow proofs.Proofs_FlowDec proofs.Proofs_FlowCanon.
Import ListNotations.
Open Scope Z_scope.

Lemma parse_ref_prefix_abs : forall v6 t l c l2, bytes_ok l ->
  parse_prefix v6 t l = Some (c, l2) -> offz c = true ->
  ref_prefix v6 t l = inl (abs_comp c, l2).
Proof.
  intros v6 t l c l2 Hb Hp Hz. unfold parse_prefix in Hp. destruct v6.
  - destruct l as [|m [|off l3]]; try discriminate.
    inversion Hb as [|? ? Hm Hb1]; subst. inversion Hb1 as [|? ? Ho Hb2]; subst.
    destruct (128 <? m) eqn:E1; [discriminate|]. apply Z.ltb_ge in E1.
    destruct (llen l3 + 1 <? size m + 1) eqn:E2; [discriminate|]. apply Z.ltb_ge in E2.
    inversion Hp; subst c l2; clear Hp. cbn [offz] in Hz. apply Z.eqb_eq in Hz. subst off.
    destruct (size_eq m ltac:(lia)) as [Hs Hs0].
    cbn [ref_prefix].
    replace (((m =? 0) && (0 =? 0)) || ((0 <? m) && (m <=? 128))) with true.
    2:{ symmetry. destruct (m =? 0) eqn:E0; [reflexivity|]. apply Z.eqb_neq in E0. cbn [andb orb].
        apply andb_true_iff; split; [apply Z.ltb_lt|apply Z.leb_le]; lia. }
    replace (m - 0 + 7) with (m + 7) by lia. rewrite <- Hs.
    rewrite take_spec by lia.
    replace (size m <=? Z.of_nat (length l3)) with true by (symmetry; apply Z.leb_le; unfold llen in E2; lia).
    cbn [abs_comp]. unfold pattern. cbn [Z.eqb]. rewrite ltake_ltake. replace (m - 0) with m by lia. reflexivity.
  - destruct l as [|m l1]; try discriminate.
    inversion Hb as [|? ? Hm Hb1]; subst.
    destruct (32 <? m) eqn:E1; [discriminate|]. apply Z.ltb_ge in E1.
    destruct (llen (m :: l1) <? size m + 1) eqn:E2; [discriminate|]. apply Z.ltb_ge in E2.
    inversion Hp; subst c l2; clear Hp.
    destruct (size_eq m ltac:(lia)) as [Hs Hs0].
    cbn [ref_prefix].
    replace (m <=? 32) with true by (symmetry; apply Z.leb_le; lia).
    rewrite <- Hs. rewrite take_spec by lia.
    replace (size m <=? Z.of_nat (length l1)) with true
      by (symmetry; apply Z.leb_le; unfold llen in E2; cbn [length] in E2; lia).
    cbn [abs_comp]. unfold pattern. cbn [Z.eqb]. rewrite ltake_ltake. reflexivity.
Qed.

(* with `ordered`, under the premise that the delivered types strictly ascend *)
Lemma parse_ref_comps_abs : forall fuel ordered v6 l cs last, bytes_ok l ->
  parse_comps fuel v6 l = Some cs -> forallb offz cs = true ->
  (ordered = true -> strict_asc last (map mty cs) = true) ->
  ref_comps fuel ordered v6 last l = COk (map abs_comp cs).
Proof.
  induction fuel as [|f IH]; intros ordered v6 l cs last Hb Hp Hz Ho.
  - destruct l; [|discriminate]. inversion Hp; subst. reflexivity.
  - destruct l as [|t l1]; [inversion Hp; subst; reflexivity|].
    cbn [parse_comps] in Hp. cbn [ref_comps].
    destruct (kind v6 t =? 0) eqn:K0; [discriminate|]. apply Z.eqb_neq in K0.
    destruct (kind_defined v6 t K0) as [Hd Hk]. rewrite Hd. cbn [negb].
    rewrite Hk in Hp. inversion Hb as [|? ? Ht Hb1]; subst.
    assert (Hord : forall c cs0, cs = c :: cs0 -> mty c = t ->
              (ordered && (t <=? last)) = false /\ (ordered = true -> strict_asc t (map mty cs0) = true)).
    { intros c cs0 -> Hc. destruct ordered; [|split; [reflexivity|discriminate]].
      specialize (Ho eq_refl). cbn [map strict_asc] in Ho. apply andb_true_iff in Ho. destruct Ho as [A B].
      rewrite Hc in A, B. apply Z.ltb_lt in A. split; [cbn [andb]; apply Z.leb_gt; lia|intros _; exact B]. }
    destruct (t <=? 2).
    + destruct (parse_prefix v6 t l1) as [[c l2]|] eqn:PP; [|discriminate].
      destruct (parse_comps f v6 l2) as [cs0|] eqn:PC; [|discriminate].
      inversion Hp; subst cs; clear Hp. cbn [forallb] in Hz. apply andb_true_iff in Hz. destruct Hz as [Hz1 Hz2].
      assert (Tc : mty c = t).
      { unfold parse_prefix in PP. destruct v6.
        - destruct l1 as [|m [|off l3]]; try discriminate. destruct (128 <? m); [discriminate|].
          destruct (llen l3 + 1 <? size m + 1); [discriminate|]. inversion PP; reflexivity.
        - destruct l1 as [|m l3]; try discriminate. destruct (32 <? m); [discriminate|].
          destruct (llen (m :: l3) <? size m + 1); [discriminate|]. inversion PP; reflexivity. }
      destruct (Hord c cs0 eq_refl Tc) as [O1 O2]. rewrite O1.
      rewrite (parse_ref_prefix_abs v6 t l1 c l2 Hb1 PP Hz1).
      destruct (parse_prefix_rest _ _ _ _ _ PP) as [k Hk2].
      rewrite (IH ordered v6 l2 cs0 t ltac:(subst l2; apply bytes_ok_skipn; assumption) PC Hz2 O2). reflexivity.
    + destruct (parse_ops (length l1) l1) as [[os l2]|] eqn:PO; [|discriminate].
      destruct (parse_comps f v6 l2) as [cs0|] eqn:PC; [|discriminate].
      inversion Hp; subst cs; clear Hp. cbn [forallb offz andb] in Hz.
      destruct (Hord (MOps t os) cs0 eq_refl eq_refl) as [O1 O2]. rewrite O1.
      rewrite ops_agree in PO.
      destruct (ref_ops (length l1) l1) as [[os' l2']|] eqn:RO; [|discriminate].
      inversion PO; subst os' l2'; clear PO.
      destruct (ref_ops_rest _ _ _ _ RO) as [k Hk2].
      rewrite (IH ordered v6 l2 cs0 t ltac:(subst l2; apply bytes_ok_skipn; assumption) PC Hz O2). reflexivity.
Qed.

Lemma dec_body_sound_abs : forall ordered v6 vpn len d mr over,
  0 <= len -> bytes_ok d ->
  dec_body v6 vpn len d = DOk mr over ->
  forallb offz (m_comps mr) = true ->
  (vpn = true -> length (m_rd mr) = 8%nat) ->
  (ordered = true -> strict_asc 0 (map mty (m_comps mr)) = true) ->
  ref_tail ordered v6 vpn len d = ROk (abs_rule mr) over.
Proof.
  intros ordered v6 vpn len d mr over Hlen Hb H Hz Hrd Ho.
  unfold dec_body in H. destruct (llen d <? len) eqn:E; [discriminate|]. apply Z.ltb_ge in E.
  unfold ref_tail. rewrite take_spec by assumption.
  replace (len <=? Z.of_nat (length d)) with true by (symmetry; apply Z.leb_le; exact E).
  unfold RD_LEN in H.
  destruct vpn; cbn [andb] in H.
  - destruct (8 <=? llen (ltake len d)) eqn:E8.
    + apply Z.leb_le in E8.
      destruct (parse_comps (length (ldrop 8 (ltake len d))) v6 (ldrop 8 (ltake len d))) as [cs|] eqn:PC; [|discriminate].
      inversion H; subst mr over; clear H. cbn [m_comps m_rd] in *.
      rewrite take_spec by lia.
      replace (8 <=? Z.of_nat (length (ltake len d))) with true by (symmetry; apply Z.leb_le; exact E8).
      assert (Hbc : bytes_ok (ldrop 8 (ltake len d))) by (unfold ldrop, ltake; apply bytes_ok_skipn, bytes_ok_firstn; exact Hb).
      rewrite (parse_ref_comps_abs _ ordered v6 _ cs 0 Hbc PC Hz Ho). reflexivity.
    + destruct (parse_comps (length (ltake len d)) v6 (ltake len d)) as [cs|] eqn:PC; [|discriminate].
      inversion H; subst mr over. cbn [m_rd] in Hrd. specialize (Hrd eq_refl). discriminate.
  - destruct (parse_comps (length (ltake len d)) v6 (ltake len d)) as [cs|] eqn:PC; [|discriminate].
    inversion H; subst mr over; clear H. cbn [m_comps m_rd] in *.
    assert (Hbc : bytes_ok (ltake len d)) by (unfold ltake; apply bytes_ok_firstn; exact Hb).
    rewrite (parse_ref_comps_abs _ ordered v6 _ cs 0 Hbc PC Hz Ho). reflexivity.
Qed.

(* SOUNDNESS with meaning: the rule ExaBGP delivers is the rule the RFC framing walk reads from the
   same octets (offset-free IPv6 prefixes, RD present for flow-vpn) ... *)
Lemma dec_sound_meaning : forall v6 vpn b mr over,
  bytes_ok b -> dec_flow v6 vpn b = DOk mr over ->
  forallb offz (m_comps mr) = true -> (vpn = true -> length (m_rd mr) = 8%nat) ->
  ref_scan v6 vpn b = ROk (abs_rule mr) over.
Proof.
  intros v6 vpn b mr over Hb H Hz Hrd. destruct b as [|l0 d1]; [discriminate|].
  inversion Hb as [|? ? H0 Hb1]; subst.
  unfold ref_scan. rewrite ref_flow_gen_unfold. rewrite dec_flow_unfold in H by assumption.
  destruct (if l0 <? 240 then Some (l0, d1)
            else match d1 with [] => None | l1 :: d2 => Some ((l0 - 240) * 256 + l1, d2) end) as [[len d]|] eqn:Hh; [|discriminate].
  destruct (hdr_len_nonneg _ _ _ _ H0 Hb1 Hh) as [Hl Hbd].
  apply (dec_body_sound_abs false v6 vpn len d mr over Hl Hbd H Hz Hrd). discriminate.
Qed.

(* ... and, when its component types strictly ascend, the rule the strict RFC decoder extracts *)
Lemma dec_sound_strict : forall v6 vpn b mr over,
  bytes_ok b -> dec_flow v6 vpn b = DOk mr over ->
  forallb offz (m_comps mr) = true -> (vpn = true -> length (m_rd mr) = 8%nat) ->
  strict_asc 0 (map mty (m_comps mr)) = true ->
  ref_flow v6 vpn b = ROk (abs_rule mr) over.
Proof.
  intros v6 vpn b mr over Hb H Hz Hrd Ho. destruct b as [|l0 d1]; [discriminate|].
  inversion Hb as [|? ? H0 Hb1]; subst.
  unfold ref_flow. rewrite ref_flow_gen_unfold. rewrite dec_flow_unfold in H by assumption.
  destruct (if l0 <? 240 then Some (l0, d1)
            else match d1 with [] => None | l1 :: d2 => Some ((l0 - 240) * 256 + l1, d2) end) as [[len d]|] eqn:Hh; [|discriminate].
  destruct (hdr_len_nonneg _ _ _ _ H0 Hb1 Hh) as [Hl Hbd].
  apply (dec_body_sound_abs true v6 vpn len d mr over Hl Hbd H Hz Hrd). intros _. exact Ho.
Qed.

(* ---------------------------------------------------------------- several NLRIs in a row *)

Lemma ref_flow_app : forall ordered v6 vpn b1 b2 r,
  ref_flow_gen ordered v6 vpn b1 = ROk r [] -> ref_flow_gen ordered v6 vpn (b1 ++ b2) = ROk r b2.
Proof.
  intros ordered v6 vpn b1 b2 r H. destruct b1 as [|l0 d1]; [discriminate|].
  cbn [app]. rewrite ref_flow_gen_unfold. rewrite ref_flow_gen_unfold in H.
  assert (G : forall len d, ref_tail ordered v6 vpn len d = ROk r [] -> ref_tail ordered v6 vpn len (d ++ b2) = ROk r b2).
  { intros len d Ht. unfold ref_tail in *. destruct (take len d) as [[body ov]|] eqn:T; [|discriminate].
    assert (ov = []).
    { destruct (if vpn then take 8 body else Some ([], body)) as [[rd cs]|]; [|discriminate].
      destruct (ref_comps (length cs) ordered v6 0 cs); [|discriminate]. inversion Ht; reflexivity. }
    subst ov. apply take_some in T. destruct T as (Hr & Hbody & Hdrop).
    assert (Hlen : len = Z.of_nat (length d)).
    { unfold ldrop in Hdrop. symmetry in Hdrop. apply (f_equal (@length Z)) in Hdrop. rewrite skipn_length in Hdrop.
      cbn [length] in Hdrop. unfold llen in *. lia. }
    assert (Hbd : ltake len d = d) by (rewrite Hlen; unfold ltake; rewrite Nat2Z.id; apply firstn_all).
    rewrite (take_app d b2 len Hlen). rewrite Hbody, Hbd in Ht.
    destruct (if vpn then take 8 d else Some ([], d)) as [[rd cs]|]; [|discriminate].
    destruct (ref_comps (length cs) ordered v6 0 cs); [|discriminate]. inversion Ht; reflexivity. }
  destruct (l0 <? 240).
  - apply G. exact H.
  - destruct d1 as [|l1 d2]; [discriminate|]. cbn [app]. apply G. exact H.
Qed.

(* a complete well-formed NLRI followed by anything: ExaBGP delivers its rule and hands back exactly
   the following octets (how the NLRIs of one MP_REACH are walked) *)
Lemma decode_sequence : forall v6 vpn b1 b2 r,
  bytes_ok (b1 ++ b2) -> ref_flow v6 vpn b1 = ROk r [] -> offsets0 (r_comps r) = true ->
  exists mr, dec_flow v6 vpn (b1 ++ b2) = DOk mr b2 /\ abs_rule mr = r.
Proof.
  intros v6 vpn b1 b2 r Hb H Hz. apply decode_agrees; auto.
  unfold ref_flow. apply ref_flow_app. exact H.
Qed.
