(* C08 - malformed MP_REACH_NLRI / MP_UNREACH_NLRI; the discard class; Adj-RIB-In. *)
From Coq Require Import ZArith List Bool Lia.
From ExaV Require Import gen.Gen_AttrTable gen.Gen_NlriRegistry model.Model_Nlri model.Model_Update spec.Spec_Wire
  proofs.Proofs_Nlri proofs.Proofs_Update proofs.Proofs_Update2 proofs.Proofs_Update3.
Import ListNotations.
Open Scope Z_scope.

(* ------------------------------------------------------------------ the first attribute of a code decides *)

(* generalisation of parse_malformed: whatever makes the parser refuse at the first attribute carrying code c *)
Lemma parse_first_refuses opq s c : c <> CODE_TREAT_AS_WITHDRAW -> c <> CODE_DISCARD -> forall fuel d l m r,
  wfb d -> tlvs fuel d = Some l -> find_raw l c = Some r ->
  (forall m0, ahas m0 c = false -> 0 <= r_flags r < 256 ->
     step_refuses (step true opq s (r_flags r) c (zlen (r_val r)) (r_val r) m0)) ->
  ahas m c = false ->
  parse_refuses (parse fuel true opq s d m).
Proof.
  intros Hc1 Hc2. induction fuel as [|f IH]; intros d l m r Hw Ht Hfind Hstep Hm.
  - destruct d as [|fl [|c0 rest]]; cbn in Ht; try discriminate. injection Ht as <-. discriminate.
  - destruct d as [|fl [|c0 rest]]; cbn [tlvs] in Ht; try discriminate.
    { injection Ht as <-. discriminate. }
    apply wfb_cons_inv in Hw as [Hfl Hw]. apply wfb_cons_inv in Hw as [Hcb Hw].
    cbn [parse next_tlv]. rewrite hasbit_ext.
    destruct (if f_extended fl then match rest with h :: l0 :: r0 => Some (h * 256 + l0, r0) | _ => None end
              else match rest with l0 :: r0 => Some (l0, r0) | _ => None end) as [[len body]|] eqn:Eh; [|discriminate].
    assert (Hlb : 0 <= len /\ wfb body).
    { destruct (f_extended fl).
      - destruct rest as [|h [|l0 r0]]; try discriminate. injection Eh as <- <-.
        apply wfb_cons_inv in Hw as [Hh Hw]. apply wfb_cons_inv in Hw as [Hl0 Hw]. unfold byte in *. split; [lia|exact Hw].
      - destruct rest as [|l0 r0]; try discriminate. injection Eh as <- <-.
        apply wfb_cons_inv in Hw as [Hl0 Hw]. unfold byte in *. split; [lia|exact Hw]. }
    destruct Hlb as [Hlen Hwb].
    rewrite blen_zlen in Ht. cbn [andb].
    destruct (zlen body <? len) eqn:El; [discriminate|]. apply Z.ltb_ge in El.
    destruct (tlvs f (skipn (Z.to_nat len) body)) as [t|] eqn:Et; [|discriminate].
    injection Ht as <-.
    cbn [find_raw find r_code] in Hfind.
    destruct (c0 =? c) eqn:Ec.
    + injection Hfind as <-. cbn [r_code r_flags r_val] in *. apply Z.eqb_eq in Ec. subst c0.
      pose proof (Hstep m Hm Hfl) as S. rewrite zlen_firstn_exact in S by lia.
      destruct (step true opq s fl c len (firstn (Z.to_nat len) body) m) as [m'| |]; cbn in *; auto.
      apply parse_keeps_taw. exact S.
    + destruct (step true opq s fl c0 len (firstn (Z.to_nat len) body) m) as [m'| |] eqn:Es; cbn; auto.
      apply (IH _ t m' r); auto.
      * apply wfb_skipn. exact Hwb.
      * apply Z.eqb_neq in Ec. rewrite (step_other_codes _ _ _ _ _ _ _ _ _ Es); auto.
Qed.

(* ------------------------------------------------------------------ MP_REACH_NLRI / MP_UNREACH_NLRI malformed *)

Lemma plain_nh_table_iff s afi safi nhl : plain_family (afi, safi) = true ->
  exists lens0, family_size afi safi = Some (lens0, 0)
    /\ zin nhl (lens0 ++ (if fam_in (s_extnh s) afi safi
                           then match family_size 2 safi with Some (l, _) => l | None => [] end else []))
       = nh_len_ok afi safi (fam_in (s_extnh s) afi safi) nhl.
Proof.
  intros Hp. destruct (plain_cases afi safi Hp) as [Ha Hs]. unfold nh_len_ok.
  destruct Hs as [-> | [-> | ->]]; destruct Ha as [-> | ->]; eexists; (split; [reflexivity|]);
  destruct (fam_in (s_extnh s) _ _); cbn [family_size Z.eqb Pos.eqb andb app zin existsb fst];
  rewrite ?(Z.eqb_sym nhl); rewrite ?orb_false_r; try reflexivity;
  destruct (4 =? nhl), (16 =? nhl), (32 =? nhl); reflexivity.
Qed.

Definition notifies (r : vres) : Prop := match r with VNotify _ _ => True | _ => False end.

Lemma mp_reach_malformed_notifies s v :
  plain_sess s -> mp_reach_malformed (rs_of s) v = true -> notifies (dec_mp_reach s v).
Proof.
  intros Hp H. unfold dec_mp_reach.
  destruct (zlen v <? 5) eqn:E5; [exact I|]. apply Z.ltb_ge in E5.
  destruct v as [|a1 [|a0 [|safi [|nhl rest]]]]; try (unfold zlen in E5; cbn [length] in E5; lia).
  cbn [nth]. unfold mp_reach_malformed in H.
  change (has_fam (rs_fams (rs_of s)) (a1 * 256 + a0) safi) with (fam_in (s_fams s) (a1 * 256 + a0) safi) in H.
  change (has_fam (rs_extnh (rs_of s)) (a1 * 256 + a0) safi) with (fam_in (s_extnh s) (a1 * 256 + a0) safi) in H.
  destruct (fam_in (s_fams s) (a1 * 256 + a0) safi) eqn:Ef; cbn [negb orb] in H |- *; [|exact I].
  pose proof (fam_in_plain s _ _ Hp Ef) as Hpl.
  assert (Hzl : zlen (a1 :: a0 :: safi :: nhl :: rest) = 4 + zlen rest) by (unfold zlen; cbn [length]; lia).
  rewrite Hzl. destruct (4 + zlen rest <? 4 + nhl + 1) eqn:E2; [exact I|]. apply Z.ltb_ge in E2.
  destruct (plain_nh_table_iff s (a1 * 256 + a0) safi nhl Hpl) as (lens0 & Hfs & Hz).
  rewrite Hfs, extnh_rule, Hz.
  destruct (nh_len_ok (a1 * 256 + a0) safi (fam_in (s_extnh s) (a1 * 256 + a0) safi) nhl); cbn [negb orb] in H |- *; [|exact I].
  exfalso.
  assert (E3 : (blen rest <? nhl + 1) = false) by (apply Z.ltb_ge; unfold blen, zlen in *; lia).
  rewrite E3 in H. cbn [orb] in H.
  destruct (plain_cases _ _ Hpl) as [_ Hs].
  assert (Hrd : (if safi =? 128 then 8%nat else 0%nat) = 0%nat) by (destruct Hs as [-> | [-> | ->]]; reflexivity).
  rewrite Hrd in H. cbn in H. discriminate.
Qed.

Lemma mp_unreach_malformed_notifies s v :
  mp_unreach_malformed (rs_of s) v = true -> notifies (dec_mp_unreach s v).
Proof.
  intros H. unfold dec_mp_unreach.
  destruct (zlen v <? 3) eqn:E3; [exact I|]. apply Z.ltb_ge in E3.
  destruct v as [|a1 [|a0 [|safi rest]]]; try (unfold zlen in E3; cbn [length] in E3; lia).
  cbn [nth]. unfold mp_unreach_malformed in H.
  change (has_fam (rs_fams (rs_of s)) (a1 * 256 + a0) safi) with (fam_in (s_fams s) (a1 * 256 + a0) safi) in H.
  rewrite H. exact I.
Qed.

(* one turn of the parser on a malformed MP attribute: NOTIFICATION, or treat-as-withdraw (wrong flags, zero length) *)
Lemma step_mp_malformed opq s m f code v :
  plain_sess s -> (code = 14 \/ code = 15) -> 0 <= f < 256 -> ahas m code = false ->
  flags_conflict code f
  || ((code =? 14) && mp_reach_malformed (rs_of s) v) || ((code =? 15) && mp_unreach_malformed (rs_of s) v) = true ->
  step_refuses (step true opq s f code (zlen v) v m).
Proof.
  intros Hp Hc Hf Hm Hbad.
  assert (Hreg : In code registered_codes) by (destruct Hc as [-> | ->]; cbn; tauto).
  destruct (registered code (masked code f)) eqn:Hr.
  2:{ destruct Hc as [-> | ->]; (eapply step_wrong_flags; [reflexivity|exact Hm|exact Hr|reflexivity]). }
  rewrite (registered_no_conflict code f Hreg Hf Hr) in Hbad. cbn [orb] in Hbad.
  destruct Hc as [-> | ->]; cbn [Z.eqb Pos.eqb andb orb] in Hbad; rewrite ?orb_false_r in Hbad;
  (erewrite step_registered; [|reflexivity|exact Hm|exact Hr]); cbn [ac_vzero ac_taw ac_discard ac_flag negb andb];
  rewrite andb_true_r; destruct (zlen v =? 0); try apply taw_refuses.
  - change (unpack_value true opq s 14 (zlen v) v) with (dec_mp_reach s v).
    pose proof (mp_reach_malformed_notifies s v Hp Hbad) as N. destruct (dec_mp_reach s v); try contradiction. exact I.
  -     change (unpack_value true opq s 15 (zlen v) v) with (dec_mp_unreach s v).
    pose proof (mp_unreach_malformed_notifies s v Hbad) as N. destruct (dec_mp_unreach s v); try contradiction. exact I.
Qed.

Theorem rfc7606_mp opq s b wb ab nb l r :
  plain_sess s -> wfb b -> sections b = Some (wb, ab, nb) -> tlvs (length ab) ab = Some l ->
  find_raw l (r_code r) = Some r -> (r_code r = 14 \/ r_code r = 15) ->
  flags_conflict (r_code r) (r_flags r)
  || ((r_code r =? 14) && mp_reach_malformed (rs_of s) (r_val r))
  || ((r_code r =? 15) && mp_unreach_malformed (rs_of s) (r_val r)) = true ->
  (zlen b =? EOR_PREFIX_LENGTH) && is_prefix EOR_PREFIX b = false ->
  no_announce (dec_update opq s b).
Proof.
  intros Hp Hw Hs Ht Hf Hc Hbad Hnm. destruct (marker_blocks b wb ab nb Hs) as [M1 M2].
  assert (Hwa : wfb ab).
  { unfold sections in Hs.
    destruct (blen b <? 4); [discriminate|]. destruct (blen b <? 4 + be16 b); [discriminate|].
    match type of Hs with (if ?c then _ else _) = _ => destruct c; [discriminate|] end.
    injection Hs as _ <- _. apply wfb_firstn. apply wfb_skipn. exact Hw. }
  apply (refuses_no_announce opq s b wb ab nb Hs).
  - apply (parse_first_refuses opq s (r_code r)) with (l := l) (r := r); auto.
    + destruct Hc as [-> | ->]; discriminate.
    + destruct Hc as [-> | ->]; discriminate.
    + intros m0 Hm0 Hfl. apply step_mp_malformed; auto.
  - destruct ((zlen b =? EOR_V4_LENGTH) && list_eqb b [0;0;0;0]); [|reflexivity].
    rewrite M1 in Ht by reflexivity. injection Ht as <-. discriminate.
  - exact Hnm.
Qed.


(* ------------------------------------------------------------------ Adj-RIB-In as a finite map *)

Definition rib_get (r : rib) (k : list Z) : option (nlri * list Z * amap) :=
  option_map snd (find (fun e => list_eqb k (fst e)) r).

Lemma list_eqb_sym a b : list_eqb a b = list_eqb b a.
Proof.
  destruct (list_eqb a b) eqn:E.
  - apply list_eqb_eq in E. subst. symmetry. apply list_eqb_refl.
  - destruct (list_eqb b a) eqn:E'; [|reflexivity]. apply list_eqb_eq in E'. subst. now rewrite list_eqb_refl in E.
Qed.

Lemma rib_get_set r k' v k :
  rib_get (rib_set r k' v) k = if list_eqb k' k then Some v else rib_get r k.
Proof.
  unfold rib_get. induction r as [|[k0 v0] r IH]; cbn [rib_set find fst].
  - rewrite (list_eqb_sym k k'). destruct (list_eqb k' k); reflexivity.
  - destruct (list_eqb k' k0) eqn:E0; cbn [find fst].
    + apply list_eqb_eq in E0. subst k0. rewrite (list_eqb_sym k k'). destruct (list_eqb k' k); reflexivity.
    + destruct (list_eqb k k0) eqn:E1.
      * apply list_eqb_eq in E1. subst k0. rewrite E0. reflexivity.
      * exact IH.
Qed.

Lemma rib_get_del r k' k :
  rib_get (rib_del r k') k = if list_eqb k' k then None else rib_get r k.
Proof.
  unfold rib_get, rib_del. induction r as [|[k0 v0] r IH]; cbn [filter find fst].
  - destruct (list_eqb k' k); reflexivity.
  - destruct (list_eqb k' k0) eqn:E0; cbn [negb find fst].
    + rewrite IH. apply list_eqb_eq in E0. subst k0. rewrite (list_eqb_sym k k').
      destruct (list_eqb k' k); reflexivity.
    + destruct (list_eqb k k0) eqn:E1.
      * apply list_eqb_eq in E1. subst k0. rewrite E0. reflexivity.
      * exact IH.
Qed.

(* the last announce of the UPDATE for a key, if any *)
Definition last_announce (k : list Z) (anns : list (nlri * list Z)) : option (nlri * list Z) :=
  find (fun a => list_eqb (rib_key (fst a)) k) (rev anns).
Definition withdraws_key (k : list Z) (wds : list nlri) : bool :=
  existsb (fun n => list_eqb (rib_key n) k) wds.

Lemma rib_get_announces attrs k : forall anns r,
  rib_get (fold_left (fun acc a => rib_set acc (rib_key (fst a)) (fst a, snd a, attrs)) anns r) k =
  match last_announce k anns with Some a => Some (fst a, snd a, attrs) | None => rib_get r k end.
Proof.
  unfold last_announce. induction anns as [|a anns IH] using rev_ind; intros r; [reflexivity|].
  rewrite fold_left_app, rev_app_distr. cbn [fold_left rev app find].
  rewrite rib_get_set. destruct (list_eqb (rib_key (fst a)) k); [reflexivity|apply IH].
Qed.

Lemma rib_get_withdraws k : forall wds r,
  rib_get (fold_left (fun acc n => rib_del acc (rib_key n)) wds r) k =
  if withdraws_key k wds then None else rib_get r k.
Proof.
  unfold withdraws_key. induction wds as [|n wds IH] using rev_ind; intros r; [reflexivity|].
  rewrite fold_left_app, existsb_app. cbn [fold_left existsb].
  rewrite rib_get_del, IH, orb_false_r.
  destruct (existsb _ wds), (list_eqb (rib_key n) k); reflexivity.
Qed.

(* UpdateHandler with the withdraws applied first = the RFC 4271 4.3 table update: withdrawn routes removed, announced
   ones installed, a route that the same UPDATE both withdraws and announces stays announced *)
Theorem ribin_rfc r u k :
  rib_get (ribin_apply_gen true true r u) k =
  ref_rib_after rib_key list_eqb (rib_get r) (u_ann u) (u_wd u) (u_attrs u) k.
Proof.
  unfold ribin_apply_gen, reaches_rib, ref_rib_after. cbn [orb].
  rewrite rib_get_announces, rib_get_withdraws. reflexivity.
Qed.

(* the tree under check, when its handler applies the withdraws first *)
Theorem ribin_tree : RIBIN_WITHDRAW_FIRST = true -> forall r u k,
  rib_get (ribin_apply true r u) k =
  ref_rib_after rib_key list_eqb (rib_get r) (u_ann u) (u_wd u) (u_attrs u) k.
Proof. intros H r u k. unfold ribin_apply. rewrite H. apply ribin_rfc. Qed.

(* the other order (announces stored, then withdraws removed): a route both withdrawn and announced is lost *)
Definition w_both_route : nlri := mkN 1 1 None [] [] 24 [10;1;2].
Definition w_both_update : update := mkU [(w_both_route, [10;0;0;1])] [w_both_route] [].
Theorem ribin_announce_first_refuted :
  rib_get (ribin_apply_gen false true [] w_both_update) (rib_key w_both_route) = None
  /\ ref_rib_after rib_key list_eqb (rib_get []) (u_ann w_both_update) (u_wd w_both_update) (u_attrs w_both_update)
       (rib_key w_both_route) = Some (w_both_route, [10;0;0;1], [])
  /\ rib_get (ribin_apply_gen true true [] w_both_update) (rib_key w_both_route) = Some (w_both_route, [10;0;0;1], []).
Proof. repeat split; vm_compute; reflexivity. Qed.

(* composed with the agreement theorem: after a well-formed UPDATE the table is the RFC one for the reference's routes *)
Theorem ribin_reference opq s other b u :
  RIBIN_WITHDRAW_FIRST = true ->
  ip_sess s -> wfb b ->
  (forall wb ab nb l, sections b = Some (wb, ab, nb) -> tlvs (length ab) ab = Some l -> forallb modelled l = true) ->
  ref_update_gen unpack_nlri other (rs_of s) b = Some (RUpdate u) ->
  exists u', dec_update opq s b = Decoded u' /\ map entry_of (u_attrs u') = ru_attrs u
    /\ forall r k, rib_get (ribin_apply true r u') k =
         ref_rib_after rib_key list_eqb (rib_get r) (ru_announced u) (ru_withdrawn u) (u_attrs u') k.
Proof.
  intros Hord Hp Hw Hm H. destruct (agrees_with_reference opq s other b _ Hp Hw Hm H) as (u' & Hd & Ha & Hwd & He).
  exists u'. split; [exact Hd|]. split; [exact He|]. intros r k. rewrite (ribin_tree Hord), Ha, Hwd. reflexivity.
Qed.

(* ------------------------------------------------------------------ the discard class *)

(* the types whose class in the tree is attribute discard and whose value decoder is modelled *)
Definition discard_codes : list Z := [6; 7; 18].

(* the collection without the INTERNAL_DISCARD mark *)
Definition unmarked (m : amap) : amap := aremove m CODE_DISCARD.

Inductive discard_outcome (m : amap) : sres -> Prop :=
| DoTaw m' : has_taw m' = true -> discard_outcome m (SCont m')        (* zero-length AGGREGATOR: stricter *)
| DoDrop m' : unmarked m' = unmarked m -> (forall x, x <> CODE_DISCARD -> ahas m' x = ahas m x) ->
              discard_outcome m (SCont m').

Lemma unmarked_aadd_discard m a : unmarked (aadd m (discard a)) = unmarked m.
Proof.
  unfold unmarked, aadd. destruct (ahas m (a_code (discard a))); [reflexivity|].
  unfold aremove. rewrite filter_app. cbn. now rewrite app_nil_r.
Qed.

Lemma step_discard opq s other m f code v :
  In code discard_codes -> 0 <= f < 256 -> ahas m code = false ->
  flags_conflict code f || value_malformed other (s_asn4 s) code v = true ->
  discard_outcome m (step true opq s f code (zlen v) v m).
Proof.
  intros Hc Hf Hm Hbad.
  assert (Hreg : In code registered_codes) by (cbn in Hc; cbn; intuition).
  destruct (registered code (masked code f)) eqn:Hr.
  2:{ (* wrong flags: the attribute is dropped, nothing recorded *)
      cbn in Hc. repeat destruct Hc as [Hc|Hc]; try contradiction; subst code;
      unfold step; fold (masked 6 f) (masked 7 f) (masked 18 f); rewrite Hm, Hr; cbn;
      apply DoDrop; auto. }
  rewrite (registered_no_conflict code f Hreg Hf Hr) in Hbad. cbn [orb] in Hbad.
  cbn in Hc. repeat destruct Hc as [Hc|Hc]; try contradiction; subst code;
  (erewrite step_registered; [|reflexivity|exact Hm|exact Hr]); cbn [ac_vzero ac_taw ac_discard ac_flag negb andb].
  - (* ATOMIC_AGGREGATE: any value *)
    rewrite andb_false_r.
    change (value_malformed other (s_asn4 s) 6 v) with (negb (zlen v =? 0)) in Hbad.
    change (unpack_value true opq s 6 (zlen v) v) with (len_is v 0). unfold len_is.
    apply negb_true_iff in Hbad. rewrite Hbad.
    apply DoDrop; [apply unmarked_aadd_discard|]. intros x Hx. apply ahas_aadd_other. cbn. congruence.
  - (* AGGREGATOR *)
    rewrite andb_true_r. destruct (zlen v =? 0) eqn:Ez.
    { apply DoTaw. apply taw_has. }
    change (value_malformed other (s_asn4 s) 7 v) with (negb (zlen v =? (if s_asn4 s then 8 else 6))) in Hbad.
    change (unpack_value true opq s 7 (zlen v) v) with (len_is v (if s_asn4 s then 8 else 6)). unfold len_is.
    apply negb_true_iff in Hbad. rewrite Hbad.
    apply DoDrop; [apply unmarked_aadd_discard|]. intros x Hx. apply ahas_aadd_other. cbn. congruence.
  - (* AS4_AGGREGATOR *)
    rewrite andb_true_r. destruct (zlen v =? 0) eqn:Ez.
    { apply DoTaw. apply taw_has. }
    change (value_malformed other (s_asn4 s) 18 v) with (negb (zlen v =? 8)) in Hbad.
    change (unpack_value true opq s 18 (zlen v) v) with (len_is v 8). unfold len_is.
    apply negb_true_iff in Hbad. rewrite Hbad.
    apply DoDrop; [apply unmarked_aadd_discard|]. intros x Hx. apply ahas_aadd_other. cbn. congruence.
Qed.

(* an attribute of the block is either well formed for the reference, or a malformed attribute of the discard class *)
Definition discardable (other : Z -> list Z -> bool) (s : sess) (r : raw) : bool :=
  zin (r_code r) discard_codes
  && (flags_conflict (r_code r) (r_flags r) || value_malformed other (s_asn4 s) (r_code r) (r_val r)).

Definition acceptable (other : Z -> list Z -> bool) (s : sess) (r : raw) : bool :=
  discardable other s r
  || (attr_wellformed other (rs_of s) r && modelled r && mp_ok s r).

Lemma entries_unmarked m : map entry_of (unmarked m) = filter (not_code CODE_DISCARD) (map entry_of m).
Proof. unfold unmarked. apply entries_aremove. Qed.

Lemma filter_full_entry s r : 0 <= r_code r < 256 ->
  filter (not_code CODE_DISCARD) (full_entry s r) = full_entry s r.
Proof.
  intros Hc. assert (H : forall e, In e (full_entry s r) -> not_code CODE_DISCARD e = true).
  { intros e He. unfold not_code. rewrite (full_entry_code s r e He).
    apply negb_true_iff. apply Z.eqb_neq. unfold CODE_DISCARD. lia. }
  induction (full_entry s r) as [|e l IH]; cbn; [reflexivity|].
  rewrite (H e (or_introl eq_refl)). f_equal. apply IH. intros e' He'. apply H. right. exact He'.
Qed.

Lemma tlvs_codes : forall fuel d l, wfb d -> tlvs fuel d = Some l -> Forall (fun r => 0 <= r_code r < 256) l.
Proof.
  induction fuel as [|f IH]; intros d l Hw Ht.
  - destruct d as [|fl [|c rest]]; cbn in Ht; try discriminate. injection Ht as <-. constructor.
  - destruct d as [|fl [|c rest]]; cbn [tlvs] in Ht; try discriminate.
    { injection Ht as <-. constructor. }
    apply wfb_cons_inv in Hw as [Hfl Hw]. apply wfb_cons_inv in Hw as [Hcb Hw].
    destruct (if f_extended fl then match rest with h :: l0 :: r0 => Some (h * 256 + l0, r0) | _ => None end
              else match rest with l0 :: r0 => Some (l0, r0) | _ => None end) as [[len body]|] eqn:Eh; [|discriminate].
    assert (Hwb : wfb body).
    { destruct (f_extended fl).
      - destruct rest as [|h [|l0 r0]]; try discriminate. injection Eh as _ <-.
        apply wfb_cons_inv in Hw as [_ Hw]. apply wfb_cons_inv in Hw as [_ Hw]. exact Hw.
      - destruct rest as [|l0 r0]; try discriminate. injection Eh as _ <-.
        apply wfb_cons_inv in Hw as [_ Hw]. exact Hw. }
    destruct (blen body <? len); [discriminate|].
    destruct (tlvs f (skipn (Z.to_nat len) body)) as [t|] eqn:Et; [|discriminate].
    injection Ht as <-. constructor; [exact Hcb|]. apply (IH _ _ (wfb_skipn _ _ Hwb) Et).
Qed.

Lemma discard_block opq s other : ip_sess s -> forall fuel d l m,
  wfb d -> tlvs fuel d = Some l ->
  forallb (acceptable other s) l = true -> nodup_codes l = true ->
  (forall r, In r l -> ahas m (r_code r) = false) ->
  parse_refuses (parse fuel true opq s d m)
  \/ exists m', parse fuel true opq s d m = POk m'
       /\ map entry_of (unmarked m') =
          map entry_of (unmarked m) ++ flat_map (full_entry (rs_of s)) (filter (fun r => negb (discardable other s r)) l).
Proof.
  intros Hp. induction fuel as [|f IH]; intros d l m Hw Ht Hacc Hnd Hm.
  - destruct d as [|fl [|c rest]]; cbn in Ht; try discriminate. injection Ht as <-.
    right. exists m. cbn. now rewrite app_nil_r.
  - pose proof (tlvs_codes _ _ _ Hw Ht) as Hbytes.
    destruct d as [|fl [|c rest]]; cbn [tlvs] in Ht; try discriminate.
    { injection Ht as <-. right. exists m. cbn. now rewrite app_nil_r. }
    apply wfb_cons_inv in Hw as [Hfl Hw]. apply wfb_cons_inv in Hw as [Hcb Hw].
    cbn [parse next_tlv]. rewrite hasbit_ext.
    destruct (if f_extended fl then match rest with h :: l0 :: r0 => Some (h * 256 + l0, r0) | _ => None end
              else match rest with l0 :: r0 => Some (l0, r0) | _ => None end) as [[len body]|] eqn:Eh; [|discriminate].
    assert (Hlb : 0 <= len /\ wfb body).
    { destruct (f_extended fl).
      - destruct rest as [|h [|l0 r0]]; try discriminate. injection Eh as <- <-.
        apply wfb_cons_inv in Hw as [Hh Hw]. apply wfb_cons_inv in Hw as [Hl0 Hw]. unfold byte in *. split; [lia|exact Hw].
      - destruct rest as [|l0 r0]; try discriminate. injection Eh as <- <-.
        apply wfb_cons_inv in Hw as [Hl0 Hw]. unfold byte in *. split; [lia|exact Hw]. }
    destruct Hlb as [Hlen Hwb].
    rewrite blen_zlen in Ht. cbn [andb].
    destruct (zlen body <? len) eqn:El; [discriminate|]. apply Z.ltb_ge in El.
    destruct (tlvs f (skipn (Z.to_nat len) body)) as [t|] eqn:Et; [|discriminate].
    injection Ht as <-.
    inversion Hbytes as [|r0' t' _ Hbt]; subst r0' t'.
    cbn [forallb] in Hacc. apply andb_prop in Hacc as [Hacc0 Hacct].
    cbn [nodup_codes r_code] in Hnd. apply andb_prop in Hnd as [Hnd0 Hndt].
    set (r0 := mkRaw fl c (firstn (Z.to_nat len) body)) in *.
    assert (Hm0 : ahas m (r_code r0) = false) by (apply Hm; left; reflexivity).
    assert (Hfresh : forall r, In r t -> r_code r <> c).
    { intros r Hr E. apply negb_true_iff in Hnd0.
      assert (existsb (fun x => r_code x =? c) t = true); [|congruence].
      apply existsb_exists. exists r. split; [exact Hr|]. now apply Z.eqb_eq. }
    assert (Hwt : wfb (skipn (Z.to_nat len) body)) by (apply wfb_skipn; exact Hwb).
    cbn [filter]. unfold acceptable in Hacc0.
    destruct (discardable other s r0) eqn:Hd; cbn [negb orb] in Hacc0 |- *.
    + (* the malformed attribute of the discard class *)
      unfold discardable in Hd. apply andb_prop in Hd as [Hin Hbad].
      assert (Hin' : In c discard_codes).
      { unfold zin in Hin. apply existsb_exists in Hin as (x & Hx & E). apply Z.eqb_eq in E. cbn [r_code r0] in E. now subst. }
      pose proof (step_discard opq s other m fl c (firstn (Z.to_nat len) body) Hin' Hfl Hm0 Hbad) as S.
      rewrite zlen_firstn_exact in S by lia.
      inversion S as [m1 Ht1 Es | m1 Hu1 Hk1 Es].
      * left. apply parse_keeps_taw. exact Ht1.
      * destruct (IH (skipn (Z.to_nat len) body) t m1 Hwt Et Hacct Hndt) as [L|R].
        { intros r Hr. rewrite Hk1; [apply Hm; right; exact Hr|].
          intros E. rewrite Forall_forall in Hbt. specialize (Hbt r Hr). rewrite E in Hbt. unfold CODE_DISCARD in Hbt. lia. }
        -- left. exact L.
        -- right. destruct R as (m' & Hp' & He'). exists m'. split; [exact Hp'|]. now rewrite He', Hu1.
    + (* a well-formed attribute *)
      apply andb_prop in Hacc0 as [Hacc0 Hmp0]. apply andb_prop in Hacc0 as [Hwf0 Hmod0].
      destruct (step_wellformed_all opq s other m r0 Hp Hwf0 Hmod0 Hmp0 Hcb Hm0) as (m1 & Hs1 & He1 & Hk1).
      cbn [r_flags r_code r_val r0] in Hs1. rewrite zlen_firstn_exact in Hs1 by lia. rewrite Hs1.
      destruct (IH (skipn (Z.to_nat len) body) t m1 Hwt Et Hacct Hndt) as [L|R].
      { intros r Hr. rewrite Hk1 by (cbn; apply Hfresh; exact Hr). apply Hm. right. exact Hr. }
      * left. exact L.
      * right. destruct R as (m' & Hp' & He'). exists m'. split; [exact Hp'|].
        rewrite He', !entries_unmarked, He1, filter_app, (filter_full_entry (rs_of s) r0 Hcb).
        cbn [flat_map]. now rewrite <- app_assoc.
Qed.

(* C08, discard class, on the attribute collection built by the walk: a block whose attributes are all well formed
   for the reference except malformed attributes of the discard class (ATOMIC_AGGREGATE, AGGREGATOR, AS4_AGGREGATOR).
   Either the parser refuses (a zero-length AGGREGATOR is recorded as treat-as-withdraw: stricter), or its collection,
   the INTERNAL_DISCARD mark left aside, is entry by entry the reference's for the block WITHOUT those attributes:
   exactly they are missing, every other attribute is reported as received. *)
Theorem discard_class opq s other ab l :
  ip_sess s -> wfb ab -> tlvs (length ab) ab = Some l ->
  forallb (acceptable other s) l = true -> nodup_codes l = true ->
  parse_refuses (parse (length ab) true opq s ab [])
  \/ exists m, parse (length ab) true opq s ab [] = POk m
       /\ map entry_of (unmarked m) =
          flat_map (full_entry (rs_of s)) (filter (fun r => negb (discardable other s r)) l).
Proof.
  intros Hp Hw Ht Hacc Hnd.
  exact (discard_block opq s other Hp (length ab) ab l [] Hw Ht Hacc Hnd (fun _ _ => eq_refl)).
Qed.
