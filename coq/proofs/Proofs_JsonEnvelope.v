(* C13 - lemmas about the envelope of Model_JsonEvent: JSON._neighbor, JSON._header and the event kinds. *)

From Coq Require Import ZArith List Bool Lia.
From ExaV Require Import model.Model_Json proofs.Proofs_Json.
From ExaV Require Import model.Model_JsonEvent proofs.Proofs_JsonEvent proofs.Proofs_JsonNeighbor.
Import ListNotations.
Open Scope Z_scope.

(* ------------------------------------------------------------------ JSON._header *)

Definition header_pre (e : env) (counter : option Z) (mtype : list Z) (hdr body : option (list Z)) : list (list Z) :=
  [kv_pair k_exabgp (quoted (e_version e)); kv_pair k_time (e_time e); kv_pair_sp k_host (quoted (e_host e));
   kv_pair_sp k_pid (json_int (e_pid e)); kv_pair_sp k_ppid (json_int (e_ppid e))]
  ++ match counter with Some c => [kv_pair k_counter (json_int c)] | None => [] end
  ++ [kv_pair k_type (quoted mtype)]
  ++ match hdr with Some h => [kv_pair k_header (quoted h)] | None => [] end
  ++ match body with Some b => [kv_pair k_body (quoted b)] | None => [] end.

Definition header_keys (counter : option Z) (hdr body : option (list Z)) : list (list Z) :=
  [k_exabgp; k_time; k_host; k_pid; k_ppid]
  ++ match counter with Some _ => [k_counter] | None => [] end
  ++ [k_type]
  ++ match hdr with Some _ => [k_header] | None => [] end
  ++ match body with Some _ => [k_body] | None => [] end.

Lemma flat_join : forall (sep : list Z) L R, R <> [] ->
  flat_map (fun m => m ++ sep) L ++ join sep R = join sep (L ++ R).
Proof.
  intros sep L R HR. induction L as [|m L IH]; [reflexivity |].
  cbn [flat_map app]. rewrite <- app_assoc, IH.
  destruct (L ++ R) as [|x xs] eqn:E.
  - destruct L; [cbn in E; contradiction | discriminate].
  - cbn [join]. rewrite <- app_assoc. reflexivity.
Qed.

Lemma header_flat : forall e counter mtype hdr body content,
  header_line e counter mtype hdr body content
  = [123; 32] ++ flat_map (fun m => m ++ [44; 32]) (header_pre e counter mtype hdr body) ++ content ++ [32; 125].
Proof.
  intros e counter mtype hdr body content.
  unfold header_line, header_pre, kv_pair, kv_pair_sp, quoted.
  destruct counter; destruct hdr; destruct body; cbn [flat_map app];
    repeat (rewrite <- app_assoc; cbn [app]); reflexivity.
Qed.

Lemma header_shape : forall e counter mtype hdr body cms, cms <> [] ->
  header_line e counter mtype hdr body (members_join cms)
  = obj_of_members (header_pre e counter mtype hdr body ++ cms).
Proof.
  intros e counter mtype hdr body cms H. rewrite header_flat.
  unfold obj_of_members, members_join. rewrite <- (flat_join [44; 32] _ cms H).
  rewrite <- !app_assoc. reflexivity.
Qed.

Definition env_ok (e : env) : Prop :=
  safe_key (e_version e) = true /\ frag_ok (e_time e) /\ safe_key (e_host e) = true.

Lemma header_pre_ok : forall e counter mtype hdr body,
  env_ok e -> safe_key mtype = true -> opt_safe hdr -> opt_safe body ->
  Forall member_ok (header_pre e counter mtype hdr body)
  /\ map member_key (header_pre e counter mtype hdr body) = map Some (header_keys counter hdr body).
Proof.
  intros e counter mtype hdr body [Hv [Ht Hh]] Hm Hhd Hbd.
  unfold header_pre, header_keys.
  destruct counter; destruct hdr; destruct body; cbn [opt_safe] in *; cbn [app map];
    rewrite ?member_key_kv_pair by reflexivity; rewrite ?member_key_kv_pair_sp by reflexivity;
    (split; [| reflexivity]);
    repeat (constructor;
            [first [ apply kv_member_ok; [reflexivity | first [apply quoted_ok; assumption | apply json_int_ok | assumption]]
                   | apply kv_pair_sp_ok; [reflexivity | first [apply quoted_ok; assumption | apply json_int_ok]] ] |]);
    constructor.
Qed.

Lemma header_keys_dup_free : forall counter hdr body extra,
  In extra [k_neighbor; k_notification] -> dup_free (header_keys counter hdr body ++ [extra]) = true.
Proof.
  intros counter hdr body extra [<- | [<- | []]]; destruct counter; destruct hdr; destruct body; reflexivity.
Qed.

(* ------------------------------------------------------------------ events *)

Definition kv_ok (kv : list Z * list Z) : Prop := safe_key (fst kv) = true /\ frag_ok (snd kv).

Lemma kv_members_ok : forall kvs, Forall kv_ok kvs ->
  Forall member_ok (map (fun kv => kv_pair (fst kv) (snd kv)) kvs)
  /\ map member_key (map (fun kv => kv_pair (fst kv) (snd kv)) kvs) = map Some (map fst kvs).
Proof.
  intros kvs H. induction H as [|kv kvs [A B] _ [IH1 IH2]]; [split; [constructor | reflexivity] |].
  cbn [map]. split; [constructor; [apply kv_member_ok; assumption | exact IH1] |].
  rewrite member_key_kv_pair by exact A. rewrite IH2. reflexivity.
Qed.

Definition event_neighbor_members (p : peer) (direction : option (list Z)) (kvs : list (list Z * list Z)) : list (list Z) :=
  neighbor_members p direction (map (fun kv => kv_pair (fst kv) (snd kv)) kvs).

Definition event_members (e : env) (counter : Z) (mtype : list Z) (hdr body : option (list Z))
                         (p : peer) (direction : option (list Z)) (kvs : list (list Z * list Z)) : list (list Z) :=
  header_pre e (Some counter) mtype hdr body
  ++ [kv_pair k_neighbor (obj_of_members (event_neighbor_members p direction kvs))].

Lemma neighbor_event_ok : forall e counter mtype hdr body p direction kvs,
  env_ok e -> safe_key mtype = true -> opt_safe hdr -> opt_safe body ->
  peer_ok p -> opt_safe direction -> Forall kv_ok kvs ->
  neighbor_event e counter mtype hdr body p direction kvs
    = obj_of_members (event_members e counter mtype hdr body p direction kvs)
  /\ frag_ok (neighbor_event e counter mtype hdr body p direction kvs)
  /\ map member_key (event_members e counter mtype hdr body p direction kvs)
     = map Some (header_keys (Some counter) hdr body ++ [k_neighbor])
  /\ map member_key (event_neighbor_members p direction kvs)
     = map Some (neighbor_keys p direction ++ map fst kvs).
Proof.
  intros e counter mtype hdr body p direction kvs He Hm Hh Hb Hp Hd Hk.
  destruct (kv_members_ok kvs Hk) as [KM KK].
  destruct (neighbor_members_ok p direction _ Hp Hd KM) as [NM NK].
  destruct (header_pre_ok e (Some counter) mtype hdr body He Hm Hh Hb) as [HM HK].
  assert (Hn : member_ok (kv_pair k_neighbor (obj_of_members (event_neighbor_members p direction kvs))))
    by (apply kv_member_ok; [reflexivity | apply obj_ok; exact NM]).
  assert (Heq : neighbor_event e counter mtype hdr body p direction kvs
                = obj_of_members (event_members e counter mtype hdr body p direction kvs)).
  { unfold neighbor_event, kv_content. rewrite (neighbor_shape p direction _ KM).
    change (kv_pair k_neighbor (obj_of_members (neighbor_members p direction (map (fun kv => kv_pair (fst kv) (snd kv)) kvs))))
      with (members_join [kv_pair k_neighbor (obj_of_members (event_neighbor_members p direction kvs))]).
    rewrite header_shape by discriminate. reflexivity. }
  split; [exact Heq |]. split.
  - rewrite Heq. apply obj_ok. unfold event_members. apply Forall_app. split; [exact HM | constructor; [exact Hn | constructor]].
  - split.
    + unfold event_members. rewrite map_app, HK. cbn [map]. rewrite member_key_kv_pair by reflexivity.
      rewrite map_app. reflexivity.
    + unfold event_neighbor_members. rewrite NK, KK, map_app. reflexivity.
Qed.

Lemma global_event_ok : forall e mtype kvs,
  env_ok e -> safe_key mtype = true -> Forall kv_ok kvs -> kvs <> [] ->
  global_event e mtype kvs
    = obj_of_members (header_pre e None mtype None None ++ map (fun kv => kv_pair (fst kv) (snd kv)) kvs)
  /\ frag_ok (global_event e mtype kvs)
  /\ map member_key (header_pre e None mtype None None ++ map (fun kv => kv_pair (fst kv) (snd kv)) kvs)
     = map Some (header_keys None None None ++ map fst kvs).
Proof.
  intros e mtype kvs He Hm Hk Hne.
  destruct (kv_members_ok kvs Hk) as [KM KK].
  destruct (header_pre_ok e None mtype None None He Hm I I) as [HM HK].
  assert (Heq : global_event e mtype kvs
                = obj_of_members (header_pre e None mtype None None ++ map (fun kv => kv_pair (fst kv) (snd kv)) kvs)).
  { unfold global_event, kv_content. apply header_shape. destruct kvs; [contradiction | discriminate]. }
  split; [exact Heq |]. split.
  - rewrite Heq. apply obj_ok. apply Forall_app. split; assumption.
  - rewrite map_app, HK, KK, map_app. reflexivity.
Qed.

Lemma neighbor_level_NoDup : forall p direction (ks : list (list Z)),
  NoDup ks -> (forall k, In k ks -> ~ In k [k_address; k_asn; k_router_id; k_direction]) ->
  NoDup (neighbor_keys p direction ++ ks).
Proof.
  intros p direction ks Hnd Hdis.
  assert (Hsub : forall k, In k (neighbor_keys p direction) -> In k [k_address; k_asn; k_router_id; k_direction]).
  { intros k. unfold neighbor_keys. destruct (p_rid p); destruct direction; cbn [app In]; tauto. }
  assert (Hn : NoDup (neighbor_keys p direction)).
  { apply dup_free_NoDup. unfold neighbor_keys. destruct (p_rid p); destruct direction; reflexivity. }
  revert Hn Hsub. generalize (neighbor_keys p direction) as l.
  induction l as [|x l IH]; intros Hn Hsub; cbn [app]; [exact Hnd |].
  inversion Hn; subst. constructor.
  - intros Hin. apply in_app_or in Hin. destruct Hin as [Hin | Hin]; [contradiction |].
    apply (Hdis x Hin). apply Hsub. left. reflexivity.
  - apply IH; [assumption |]. intros k Hk. apply Hsub. right. exact Hk.
Qed.

(* ------------------------------------------------------------------ the event kinds *)

Lemma ev_state_ok : forall e counter mtype p word,
  env_ok e -> safe_key mtype = true -> peer_ok p ->
  frag_ok (ev_state e counter mtype p word)
  /\ map member_key (event_members e counter mtype None None p None [(k_state, json_string word)])
     = map Some (header_keys (Some counter) None None ++ [k_neighbor])
  /\ map member_key (event_neighbor_members p None [(k_state, json_string word)])
     = map Some (neighbor_keys p None ++ [k_state]).
Proof.
  intros e counter mtype p word He Hm Hp.
  destruct (neighbor_event_ok e counter mtype None None p None [(k_state, json_string word)] He Hm I I Hp I) as [_ [A [B C]]].
  - constructor; [split; [reflexivity | apply json_string_ok] | constructor].
  - split; [exact A | split; [exact B | exact C]].
Qed.

(* down: the reason is any text *)
Lemma ev_down_ok : forall e counter p reason,
  env_ok e -> peer_ok p ->
  frag_ok (ev_down e counter p reason)
  /\ map member_key (event_members e counter t_state None None p None
                       [(k_state, json_string [100; 111; 119; 110]); (k_reason, json_string reason)])
     = map Some (header_keys (Some counter) None None ++ [k_neighbor])
  /\ map member_key (event_neighbor_members p None [(k_state, json_string [100; 111; 119; 110]); (k_reason, json_string reason)])
     = map Some (neighbor_keys p None ++ [k_state; k_reason]).
Proof.
  intros e counter p reason He Hp.
  destruct (neighbor_event_ok e counter t_state None None p None
              [(k_state, json_string [100; 111; 119; 110]); (k_reason, json_string reason)] He eq_refl I I Hp I) as [_ [A [B C]]].
  - constructor; [split; [reflexivity | apply json_string_ok] |].
    constructor; [split; [reflexivity | apply json_string_ok] | constructor].
  - split; [exact A | split; [exact B | exact C]].
Qed.

Lemma ev_keepalive_ok : forall e counter hdr body p direction,
  env_ok e -> opt_safe hdr -> opt_safe body -> peer_ok p -> safe_key direction = true ->
  frag_ok (ev_keepalive e counter hdr body p direction)
  /\ map member_key (event_members e counter t_keepalive hdr body p (Some direction) [])
     = map Some (header_keys (Some counter) hdr body ++ [k_neighbor])
  /\ map member_key (event_neighbor_members p (Some direction) []) = map Some (neighbor_keys p (Some direction) ++ []).
Proof.
  intros e counter hdr body p direction He Hh Hb Hp Hd.
  destruct (neighbor_event_ok e counter t_keepalive hdr body p (Some direction) [] He eq_refl Hh Hb Hp Hd) as [_ [A [B C]]].
  - constructor.
  - split; [exact A | split; [exact B | exact C]].
Qed.

Lemma notification_object_ok : forall code subcode hex text, frag_ok (notification_object code subcode hex text).
Proof.
  intros code subcode hex text. unfold notification_object, kv_content.
  change (braces (members_join ?ms)) with (obj_of_members ms).
  assert (H : frag_ok (obj_of_members
            (map (fun kv => kv_pair (fst kv) (snd kv))
               [(k_code, json_int code); (k_subcode, json_int subcode); (k_data, json_string hex); (k_message, json_string text)]))).
  { apply obj_ok. apply kv_members_ok.
    repeat (constructor; [split; [reflexivity | first [apply json_int_ok | apply json_string_ok]] |]). constructor. }
  destruct H as [Hw Hs]. split.
  - (* trailing blank after a complete value *)
    destruct (wf_json_run _ Hw) as [q [Hq Hr]]. unfold wf_json.
    rewrite (run_app_some _ _ _ _ (Hr [])).
    rewrite (run_cons_some ([], q) 32 ([], MAfter)) by (rewrite step_after by (auto; unfold delim; auto); reflexivity).
    reflexivity.
  - rewrite single_line_app, Hs. reflexivity.
Qed.

(* notification: data (hex) and message are any text *)
Lemma ev_notification_ok : forall e counter hdr body p direction code subcode hex text,
  env_ok e -> opt_safe hdr -> opt_safe body -> peer_ok p -> safe_key direction = true ->
  frag_ok (ev_notification e counter hdr body p direction code subcode hex text)
  /\ map member_key (event_members e counter k_notification hdr body p (Some direction)
                       [(k_notification, notification_object code subcode hex text)])
     = map Some (header_keys (Some counter) hdr body ++ [k_neighbor])
  /\ map member_key (event_neighbor_members p (Some direction) [(k_notification, notification_object code subcode hex text)])
     = map Some (neighbor_keys p (Some direction) ++ [k_notification]).
Proof.
  intros e counter hdr body p direction code subcode hex text He Hh Hb Hp Hd.
  destruct (neighbor_event_ok e counter k_notification hdr body p (Some direction)
              [(k_notification, notification_object code subcode hex text)] He eq_refl Hh Hb Hp Hd) as [_ [A [B C]]].
  - constructor; [split; [reflexivity | apply notification_object_ok] | constructor].
  - split; [exact A | split; [exact B | exact C]].
Qed.

Definition update_kvs (u : upd) (negotiated : option (list Z)) : list (list Z * list Z) :=
  (k_message, update_message u) :: match negotiated with Some n => [(k_negotiated, n)] | None => [] end.

Lemma ev_update_ok : forall e counter hdr body p direction u negotiated,
  env_ok e -> opt_safe hdr -> opt_safe body -> peer_ok p -> safe_key direction = true ->
  (forall m, u_eor u = Some m -> member_ok m) ->
  Forall ann_ok (u_ann u) -> Forall wd_ok (u_wd u) ->
  (forall c, u_attr u = Some c -> frag_ok (braces c)) ->
  (forall n, negotiated = Some n -> frag_ok n) ->
  frag_ok (ev_update e counter hdr body p direction u negotiated)
  /\ map member_key (event_members e counter t_update hdr body p (Some direction) (update_kvs u negotiated))
     = map Some (header_keys (Some counter) hdr body ++ [k_neighbor])
  /\ map member_key (event_neighbor_members p (Some direction) (update_kvs u negotiated))
     = map Some (neighbor_keys p (Some direction) ++ map fst (update_kvs u negotiated)).
Proof.
  intros e counter hdr body p direction u negotiated He Hh Hb Hp Hd H1 H2 H3 H4 Hn.
  destruct (neighbor_event_ok e counter t_update hdr body p (Some direction) (update_kvs u negotiated) He eq_refl Hh Hb Hp Hd) as [_ [A [B C]]].
  - unfold update_kvs. constructor; [split; [reflexivity | apply update_message_ok; assumption] |].
    destruct negotiated as [n|]; [| constructor].
    constructor; [split; [reflexivity | apply Hn; reflexivity] | constructor].
  - split; [exact A | split; [exact B | exact C]].
Qed.
