(* C16 - lemmas about Model_Flow against Spec_Flow. *)
From Coq Require Import ZArith List Bool Lia Arith.
From ExaV Require Import lib.ListX gen.Gen_Flow spec.Spec_Flow model.Model_Flow.
Import ListNotations.
Open Scope Z_scope.

Lemma enc_action_ref : forall a, enc_action a = ref_action a.
Proof. destruct a; reflexivity. Qed.

(* ---------------------------------------------------------------- big-endian values *)

Lemma be_length : forall n v, length (be n v) = n.
Proof. induction n; intros; cbn [be length]; auto. Qed.

Lemma be_val_be : forall n v acc, 0 <= v ->
  be_val acc (be n v) = acc * 256 ^ Z.of_nat n + v mod 256 ^ Z.of_nat n.
Proof.
  induction n as [|k IH]; intros v acc Hv.
  - cbn [be be_val]. change (256 ^ Z.of_nat 0) with 1. rewrite Z.mod_1_r. lia.
  - cbn [be be_val]. rewrite IH by assumption.
    rewrite Nat2Z.inj_succ, Z.pow_succ_r by lia.
    assert (Hp : 0 < 256 ^ Z.of_nat k) by (apply Z.pow_pos_nonneg; lia).
    rewrite (Z.mul_comm 256 (256 ^ Z.of_nat k)).
    rewrite (Z.rem_mul_r v (256 ^ Z.of_nat k) 256) by lia.
    ring.
Qed.

Lemma be_val_be_small : forall n v, 0 <= v < 256 ^ Z.of_nat n -> be_val 0 (be n v) = v.
Proof. intros n v H. rewrite be_val_be by lia. rewrite Z.mod_small by lia. lia. Qed.

Lemma be_bytes : forall n v, 0 <= v -> Forall (fun b => 0 <= b < 256) (be n v).
Proof.
  induction n; intros; cbn [be]; constructor; auto.
  apply Z.mod_pos_bound. lia.
Qed.

Lemma take_app : forall (x rest : list Z) n, n = Z.of_nat (length x) -> take n (x ++ rest) = Some (x, rest).
Proof.
  intros x rest n ->. unfold take.
  rewrite app_length, Nat2Z.inj_add.
  replace ((0 <=? Z.of_nat (length x)) && (Z.of_nat (length x) <=? Z.of_nat (length x) + Z.of_nat (length rest))) with true
    by (symmetry; apply andb_true_iff; split; apply Z.leb_le; lia).
  rewrite Nat2Z.id.
  rewrite firstn_app, Nat.sub_diag, firstn_all. cbn [firstn]. rewrite app_nil_r.
  rewrite skipn_app, Nat.sub_diag, skipn_all. reflexivity.
Qed.

(* ---------------------------------------------------------------- the operator octet *)

Lemma width_cases : forall w v, width w v = 1 \/ width w v = 2 \/ width w v = 4.
Proof.
  intros. unfold width.
  destruct (w =? 1); auto. destruct (v <? 256); auto. destruct (w =? 2); auto. destruct (v <? 65536); auto.
Qed.

Lemma lenbits_width : forall w v, 2 ^ lenbits (width w v) = width w v /\ 0 <= lenbits (width w v) <= 2.
Proof.
  intros. destruct (width_cases w v) as [H|[H|H]]; rewrite H; cbn; lia.
Qed.

(* C16_shortest_width: the width is the first of the class' sizes (1, then 2 if w >= 2, then 4 if
   w >= 4) that holds the value *)
Lemma width_shortest : forall w v, (w = 1 \/ w = 2 \/ w = 4) -> 0 <= v < 256 ^ width w v ->
  width w v <= w /\ (forall n, (n = 1 \/ n = 2 \/ n = 4) -> n < width w v -> 256 ^ n <= v).
Proof.
  intros w v Hw Hv. unfold width in *.
  destruct (w =? 1) eqn:E1.
  - split; [lia|]. intros n Hn Hl. lia.
  - destruct (v <? 256) eqn:E2.
    + split; [lia|]. intros; lia.
    + apply Z.ltb_ge in E2. destruct (w =? 2) eqn:E3.
      * split; [lia|]. intros n [-> | [-> | ->]] Hl; try lia; try (cbn; lia).
      * destruct (v <? 65536) eqn:E4.
        -- split; [lia|]. intros n [-> | [-> | ->]] Hl; try lia; try (cbn; lia).
        -- apply Z.ltb_ge in E4. split; [lia|]. intros n [-> | [-> | ->]] Hl; try lia; try (cbn; lia).
Qed.

Definition op_byte (eol : bool) (a lb nb : Z) : Z := (if eol then 128 else 0) + 64 * a + 16 * lb + nb.

Lemma op_byte_fields : forall eol a lb nb,
  0 <= a <= 1 -> 0 <= lb <= 3 -> 0 <= nb < 16 ->
  let b := op_byte eol a lb nb in
  (b / 16) mod 4 = lb /\ (b / 64) mod 2 = a /\ b mod 16 = nb /\ (128 <=? b) = eol /\ 0 <= b < 256.
Proof.
  intros eol a lb nb Ha Hl Hn b. subst b. unfold op_byte.
  destruct eol.
  - repeat split; try (apply Z.leb_le); try lia;
      try (match goal with |- context [Z.modulo] => idtac end; Z.div_mod_to_equations; lia).
  - repeat split; try (apply Z.leb_gt); try lia;
      try (match goal with |- context [Z.modulo] => idtac end; Z.div_mod_to_equations; lia).
Qed.

Lemma enc_op_shape : forall eol w a nb v,
  enc_op eol w (a, nb, v) = op_byte eol a (lenbits (width w v)) nb :: be (Z.to_nat (width w v)) v.
Proof. intros. unfold enc_op, op_byte, EOL, AND. destruct eol; f_equal; lia. Qed.

Lemma valid_op_spec : forall w a nb v, valid_op w (a, nb, v) = true ->
  0 <= a <= 1 /\ 0 <= nb < 16 /\ 0 <= v < 256 ^ width w v.
Proof.
  intros w a nb v H. unfold valid_op in H.
  repeat (apply andb_true_iff in H; destruct H as [H ?]).
  repeat match goal with
         | H : (_ <=? _) = true |- _ => apply Z.leb_le in H
         | H : (_ <? _) = true |- _ => apply Z.ltb_lt in H end.
  lia.
Qed.

Lemma ref_op_step : forall eol w a nb v rest,
  valid_op w (a, nb, v) = true ->
  exists b vb, enc_op eol w (a, nb, v) = b :: vb /\
    take (2 ^ ((b / 16) mod 4)) (vb ++ rest) = Some (vb, rest) /\
    (b / 64) mod 2 = a /\ b mod 16 = nb /\ be_val 0 vb = v /\ (128 <=? b) = eol /\
    (b / 16) mod 4 = lenbits (width w v) /\ Z.of_nat (length vb) = width w v.
Proof.
  intros eol w a nb v rest Hv.
  apply valid_op_spec in Hv. destruct Hv as (Ha & Hn & Hvv).
  destruct (lenbits_width w v) as [Hpow Hlb].
  rewrite enc_op_shape.
  destruct (op_byte_fields eol a (lenbits (width w v)) nb Ha ltac:(lia) Hn) as (F1 & F2 & F3 & F4 & F5).
  eexists; eexists; split; [reflexivity|].
  assert (Hw : 0 < width w v) by (destruct (width_cases w v) as [H|[H|H]]; lia).
  assert (Hlen : Z.of_nat (length (be (Z.to_nat (width w v)) v)) = width w v)
    by (rewrite be_length; lia).
  repeat split; auto.
  - rewrite F1, Hpow. apply take_app. lia.
  - apply be_val_be_small. rewrite Z2Nat.id by lia. lia.
Qed.

(* the RFC operator-list reader gives back exactly the written list: the end-of-list bit is on the
   last operator and on no other (the reader stops at the first one), the AND bits and operator
   bits are as written, the values are intact *)
Lemma ref_ops_enc : forall ops w rest fuel,
  ops <> [] -> forallb (valid_op w) ops = true -> (length ops <= fuel)%nat ->
  ref_ops fuel (enc_ops w ops ++ rest) = inl (ops, rest).
Proof.
  induction ops as [|[[a nb] v] ops IH]; intros w rest fuel Hne Hv Hf; [congruence|].
  cbn [forallb] in Hv. apply andb_true_iff in Hv. destruct Hv as [Hv1 Hv2].
  destruct fuel as [|f]; [cbn in Hf; lia|].
  destruct ops as [|o2 ops'].
  - cbn [enc_ops].
    destruct (ref_op_step true w a nb v rest Hv1) as (b & vb & E & T & F2 & F3 & F4 & F5 & _).
    rewrite E. cbn [app ref_ops]. rewrite T, F2, F3, F4, F5. reflexivity.
  - change (enc_ops w ((a, nb, v) :: o2 :: ops')) with (enc_op false w (a, nb, v) ++ enc_ops w (o2 :: ops')).
    rewrite <- app_assoc.
    destruct (ref_op_step false w a nb v (enc_ops w (o2 :: ops') ++ rest) Hv1) as (b & vb & E & T & F2 & F3 & F4 & F5 & _).
    rewrite E. cbn [app ref_ops]. rewrite T, F2, F3, F4, F5.
    rewrite IH; [reflexivity|congruence|assumption|cbn [length] in *; lia].
Qed.

(* every octet of an operator component but the last operator's has the end-of-list bit clear *)
Fixpoint op_heads (w : Z) (ops : list op) : list Z :=
  match ops with
  | [] => []
  | [o] => [hd 0 (enc_op true w o)]
  | o :: rest => hd 0 (enc_op false w o) :: op_heads w rest
  end.

Lemma eol_exactly_last : forall ops w, forallb (valid_op w) ops = true -> ops <> [] ->
  (128 <=? last (op_heads w ops) 0) = true /\
  forallb (fun b => negb (128 <=? b)) (removelast (op_heads w ops)) = true.
Proof.
  induction ops as [|[[a nb] v] ops IH]; intros w Hv Hne; [congruence|].
  cbn [forallb] in Hv. apply andb_true_iff in Hv. destruct Hv as [Hv1 Hv2].
  destruct ops as [|o2 ops'].
  - cbn [op_heads last removelast forallb].
    destruct (ref_op_step true w a nb v [] Hv1) as (b & vb & E & _ & _ & _ & _ & F5 & _).
    rewrite E. cbn [hd]. auto.
  - change (op_heads w ((a, nb, v) :: o2 :: ops')) with (hd 0 (enc_op false w (a, nb, v)) :: op_heads w (o2 :: ops')).
    destruct (IH w Hv2 ltac:(congruence)) as [L R].
    assert (Hnn : op_heads w (o2 :: ops') <> []) by (destruct ops'; cbn; congruence).
    split.
    + destruct (op_heads w (o2 :: ops')) eqn:EE; [congruence|]. cbn [last]. exact L.
    + destruct (op_heads w (o2 :: ops')) eqn:EE; [congruence|].
      cbn [removelast forallb]. cbn [removelast] in R. rewrite R.
      destruct (ref_op_step false w a nb v [] Hv1) as (b & vb & E & _ & _ & _ & _ & F5 & _).
      rewrite E. cbn [hd]. rewrite F5. reflexivity.
Qed.

(* ---------------------------------------------------------------- the length field *)

Lemma len_compact_spec : forall n, len_compact n = (n <? 240).
Proof. reflexivity. Qed.

(* holds for the pinned `lc < 4095` and for the repaired `lc <= 4095` alike *)
Lemma len_extended_spec : forall n, (len_extended n = true -> n <= 4095) /\ (n < 4095 -> len_extended n = true)
  /\ (4096 <= n -> len_extended n = false).
Proof.
  intros n. unfold len_extended. repeat split; intros H.
  - first [apply Z.ltb_lt in H | apply Z.leb_le in H]; lia.
  - first [apply Z.ltb_lt | apply Z.leb_le]; lia.
  - first [apply Z.ltb_ge | apply Z.leb_gt]; lia.
Qed.

Lemma enc_len_cases : forall body,
  let n := Z.of_nat (length body) in
  (n < 240 -> enc_len body = Some (n :: body)) /\
  (240 <= n < 4095 -> enc_len body = Some ((240 + n / 256) :: n mod 256 :: body)) /\
  (4096 <= n -> enc_len body = None).
Proof.
  intros body n. unfold enc_len, LEN_EXT_VALUE. fold n. rewrite len_compact_spec.
  destruct (len_extended_spec n) as (E1 & E2 & E3).
  repeat split; intros H.
  - destruct (n <? 240) eqn:E; [reflexivity|apply Z.ltb_ge in E; lia].
  - destruct (n <? 240) eqn:E; [apply Z.ltb_lt in E; lia|]. rewrite E2 by lia. reflexivity.
  - destruct (n <? 240) eqn:E; [apply Z.ltb_lt in E; lia|]. rewrite E3 by lia. reflexivity.
Qed.

Lemma enc_len_is_rfc : forall body, Z.of_nat (length body) <> 4095 ->
  enc_len body = option_map (fun h => h ++ body) (ref_length (Z.of_nat (length body))).
Proof.
  intros body H. destruct (enc_len_cases body) as (A & B & C). unfold ref_length.
  destruct (Z.of_nat (length body) <? 240) eqn:E.
  - apply Z.ltb_lt in E. rewrite A by lia. reflexivity.
  - apply Z.ltb_ge in E. destruct (Z.of_nat (length body) <? 4096) eqn:E2.
    + apply Z.ltb_lt in E2. rewrite B by lia. reflexivity.
    + apply Z.ltb_ge in E2. rewrite C by lia. reflexivity.
Qed.

Definition rule4095 : mrule := mkMRule [] [MOps 5 (repeat (0, 1, 80) 2047)].
(* a 4095-octet body (destination-port with 2047 values) is sent with the length written ff ff
   (repaired by /repo df33a87; it used to be refused) *)
Lemma enc_len_4095_sent :
  valid_rule false rule4095 = true /\ Z.of_nat (length (enc_body false rule4095)) = 4095 /\
  enc_flow false rule4095 = Some ([255; 255] ++ enc_body false rule4095).
Proof. vm_compute. auto. Qed.

(* Flow._encode_length is RFC 8955 4.1 for every body *)
Lemma enc_len_full : forall body,
  enc_len body = option_map (fun h => h ++ body) (ref_length (Z.of_nat (length body))).
Proof.
  intros body. destruct (Z.eq_dec (Z.of_nat (length body)) 4095) as [E|E]; [|apply enc_len_is_rfc; exact E].
  unfold enc_len, ref_length, len_compact, len_extended, LEN_EXT_VALUE. rewrite E. reflexivity.
Qed.

Lemma enc_len_cases_full : forall body,
  let n := Z.of_nat (length body) in
  (n < 240 -> enc_len body = Some (n :: body)) /\
  (240 <= n < 4096 -> enc_len body = Some ((240 + n / 256) :: n mod 256 :: body)) /\
  (4096 <= n -> enc_len body = None).
Proof.
  intros body n. rewrite enc_len_full. fold n. unfold ref_length.
  repeat split; intros H.
  - replace (n <? 240) with true by (symmetry; apply Z.ltb_lt; lia). reflexivity.
  - replace (n <? 240) with false by (symmetry; apply Z.ltb_ge; lia).
    replace (n <? 4096) with true by (symmetry; apply Z.ltb_lt; lia). reflexivity.
  - replace (n <? 240) with false by (symmetry; apply Z.ltb_ge; lia).
    replace (n <? 4096) with false by (symmetry; apply Z.ltb_ge; lia). reflexivity.
Qed.

(* ---------------------------------------------------------------- decoder against the RFC walk *)

Definition bytes_ok (l : list Z) : Prop := Forall (fun b => 0 <= b < 256) l.

Lemma bytes_ok_skipn : forall n l, bytes_ok l -> bytes_ok (skipn n l).
Proof.
  induction n; intros l H; [exact H|]. destruct l; [exact H|]. cbn [skipn]. apply IHn. inversion H; assumption.
Qed.

Lemma take_spec : forall n l, 0 <= n ->
  take n l = if n <=? Z.of_nat (length l) then Some (ltake n l, ldrop n l) else None.
Proof.
  intros n l Hn. unfold take, ltake, ldrop.
  replace (0 <=? n) with true by (symmetry; apply Z.leb_le; lia). reflexivity.
Qed.

Lemma llen_ltake : forall n l, 0 <= n -> (llen (ltake n l) =? n) = (n <=? llen l).
Proof.
  intros n l Hn. unfold llen, ltake. rewrite firstn_length.
  destruct (n <=? Z.of_nat (length l)) eqn:E.
  - apply Z.leb_le in E. apply Z.eqb_eq. rewrite Nat.min_l by lia. lia.
  - apply Z.leb_gt in E. apply Z.eqb_neq. rewrite Nat.min_r by lia. lia.
Qed.

(* Flow._parse_operations reads operator lists exactly as RFC 8955 4.2.1.1 says, on every input *)
Lemma ops_agree : forall fuel l,
  parse_ops fuel l = match ref_ops fuel l with inl x => Some x | inr _ => None end.
Proof.
  induction fuel as [|f IH]; intros l; [reflexivity|].
  cbn [parse_ops ref_ops]. destruct l as [|b l1]; [reflexivity|].
  assert (Hm : 0 <= (b / 16) mod 4 < 4) by (apply Z.mod_pos_bound; lia).
  assert (Hn : 2 ^ ((b / 16) mod 4) = 1 \/ 2 ^ ((b / 16) mod 4) = 2 \/ 2 ^ ((b / 16) mod 4) = 4 \/ 2 ^ ((b / 16) mod 4) = 8).
  { assert (C : (b / 16) mod 4 = 0 \/ (b / 16) mod 4 = 1 \/ (b / 16) mod 4 = 2 \/ (b / 16) mod 4 = 3) by lia.
    destruct C as [C|[C|[C|C]]]; rewrite C; cbn; auto. }
  set (n := 2 ^ ((b / 16) mod 4)) in *.
  assert (Hex : existsb (Z.eqb n) VALUE_WIDTHS = true).
  { unfold VALUE_WIDTHS. destruct Hn as [C|[C|[C|C]]]; rewrite C; reflexivity. }
  rewrite Hex. cbn [negb].
  rewrite llen_ltake by lia. rewrite take_spec by lia. unfold llen.
  destruct (n <=? Z.of_nat (length l1)); [|reflexivity].
  unfold AND, EOL. destruct (128 <=? b); [reflexivity|].
  rewrite IH. destruct (ref_ops f (ldrop n l1)) as [[os l3]|e]; reflexivity.
Qed.

Definition offz (c : mcomp) : bool := match c with MPfx _ _ off _ => off =? 0 | MOps _ _ => true end.

Lemma kind_defined : forall v6 t, kind v6 t <> 0 ->
  defined_type v6 t = true /\ (kind v6 t =? 1) = (t <=? 2).
Proof.
  intros v6 t. destruct v6; unfold kind, table, table6, table4; cbn [lookup];
  repeat match goal with
         | |- context [?i =? t] =>
           destruct (i =? t) eqn:E; [apply Z.eqb_eq in E; subst t; intros _; split; reflexivity | clear E]
         end; congruence.
Qed.

Lemma size_eq : forall m, 0 <= m <= 128 -> size m = (m + 7) / 8 /\ 0 <= size m.
Proof.
  intros m H. unfold size.
  replace ((0 <=? m) && (m <=? 128)) with true
    by (symmetry; apply andb_true_iff; split; apply Z.leb_le; lia).
  split; [reflexivity|]. apply Z.div_pos; lia.
Qed.

Lemma parse_ref_prefix : forall v6 t l c l2, bytes_ok l ->
  parse_prefix v6 t l = Some (c, l2) -> offz c = true ->
  exists c', ref_prefix v6 t l = inl (c', l2) /\ comp_ty c' = mty c.
Proof.
  intros v6 t l c l2 Hb Hp Hz. unfold parse_prefix in Hp. destruct v6.
  - destruct l as [|m [|off l3]]; try discriminate.
    inversion Hb as [|? ? Hm Hb1]; subst. inversion Hb1 as [|? ? Ho Hb2]; subst.
    destruct (128 <? m) eqn:E1; [discriminate|]. apply Z.ltb_ge in E1.
    destruct (llen l3 + 1 <? size m + 1) eqn:E2; [discriminate|]. apply Z.ltb_ge in E2.
    inversion Hp; subst c l2; clear Hp. cbn [offz] in Hz. apply Z.eqb_eq in Hz. subst off.
    destruct (size_eq m ltac:(lia)) as [Hs Hs0].
    cbn [ref_prefix].
    replace (((m =? 0) && (0 =? 0)) || ((0 <? m) && (m <=? 128))) with true.
    2:{ symmetry. destruct (m =? 0) eqn:E0; [reflexivity|]. apply Z.eqb_neq in E0. cbn [andb orb].
        apply andb_true_iff; split; [apply Z.ltb_lt|apply Z.leb_le]; lia. }
    replace (m - 0 + 7) with (m + 7) by lia. rewrite <- Hs.
    rewrite take_spec by lia.
    replace (size m <=? Z.of_nat (length l3)) with true by (symmetry; apply Z.leb_le; unfold llen in E2; lia).
    eexists; split; reflexivity.
  - destruct l as [|m l1]; try discriminate.
    inversion Hb as [|? ? Hm Hb1]; subst.
    destruct (32 <? m) eqn:E1; [discriminate|]. apply Z.ltb_ge in E1.
    destruct (llen (m :: l1) <? size m + 1) eqn:E2; [discriminate|]. apply Z.ltb_ge in E2.
    inversion Hp; subst c l2; clear Hp.
    destruct (size_eq m ltac:(lia)) as [Hs Hs0].
    cbn [ref_prefix].
    replace (m <=? 32) with true by (symmetry; apply Z.leb_le; lia).
    rewrite <- Hs. rewrite take_spec by lia.
    replace (size m <=? Z.of_nat (length l1)) with true
      by (symmetry; apply Z.leb_le; unfold llen in E2; cbn [length] in E2; lia).
    eexists; split; reflexivity.
Qed.

Lemma parse_prefix_rest : forall v6 t l c l2, parse_prefix v6 t l = Some (c, l2) -> exists k, l2 = skipn k l.
Proof.
  intros v6 t l c l2 Hp. unfold parse_prefix in Hp. destruct v6.
  - destruct l as [|m [|off l3]]; try discriminate.
    destruct (128 <? m); [discriminate|]. destruct (llen l3 + 1 <? size m + 1); [discriminate|].
    inversion Hp. exists (S (S (Z.to_nat (size m)))). reflexivity.
  - destruct l as [|m l1]; try discriminate.
    destruct (32 <? m); [discriminate|]. destruct (llen (m :: l1) <? size m + 1); [discriminate|].
    inversion Hp. exists (S (Z.to_nat (size m))). reflexivity.
Qed.

Lemma ref_ops_rest : forall fuel l os l2, ref_ops fuel l = inl (os, l2) -> exists k, l2 = skipn k l.
Proof.
  induction fuel as [|f IH]; intros l os l2 H; [discriminate|].
  cbn [ref_ops] in H. destruct l as [|b l1]; [discriminate|].
  destruct (take (2 ^ ((b / 16) mod 4)) l1) as [[vb l3]|] eqn:T; [|discriminate].
  unfold take in T. destruct ((0 <=? 2 ^ ((b / 16) mod 4)) && (2 ^ ((b / 16) mod 4) <=? Z.of_nat (length l1))); [|discriminate].
  inversion T; subst vb l3; clear T.
  destruct (128 <=? b).
  - inversion H; subst. exists (S (Z.to_nat (2 ^ ((b / 16) mod 4)))). reflexivity.
  - destruct (ref_ops f (skipn (Z.to_nat (2 ^ ((b / 16) mod 4))) l1)) as [[os' l4]|] eqn:R; [|discriminate].
    inversion H; subst. destruct (IH _ _ _ R) as [k Hk].
    exists (S (Z.to_nat (2 ^ ((b / 16) mod 4)) + k))%nat. cbn [skipn]. rewrite Hk.
    rewrite skipn_add. reflexivity.
Qed.

(* whatever the decoder delivers (IPv6 prefixes without offset) passes the RFC framing walk, with
   the same component types: nothing undefined, truncated or unterminated gets through *)
Lemma parse_ref_comps : forall fuel v6 l cs last, bytes_ok l ->
  parse_comps fuel v6 l = Some cs -> forallb offz cs = true ->
  exists cs', ref_comps fuel false v6 last l = COk cs' /\ map comp_ty cs' = map mty cs.
Proof.
  induction fuel as [|f IH]; intros v6 l cs last Hb Hp Hz.
  - destruct l; [|discriminate]. inversion Hp; subst. exists []. split; reflexivity.
  - destruct l as [|t l1]; [inversion Hp; subst; exists []; split; reflexivity|].
    cbn [parse_comps] in Hp. cbn [ref_comps].
    destruct (kind v6 t =? 0) eqn:K0; [discriminate|]. apply Z.eqb_neq in K0.
    destruct (kind_defined v6 t K0) as [Hd Hk]. rewrite Hd. cbn [negb andb].
    rewrite Hk in Hp. inversion Hb as [|? ? Ht Hb1]; subst.
    destruct (t <=? 2).
    + destruct (parse_prefix v6 t l1) as [[c l2]|] eqn:PP; [|discriminate].
      destruct (parse_comps f v6 l2) as [cs0|] eqn:PC; [|discriminate].
      inversion Hp; subst cs; clear Hp. cbn [forallb] in Hz. apply andb_true_iff in Hz. destruct Hz as [Hz1 Hz2].
      destruct (parse_ref_prefix v6 t l1 c l2 Hb1 PP Hz1) as (c' & RP & Ty).
      rewrite RP.
      destruct (parse_prefix_rest _ _ _ _ _ PP) as [k Hk2].
      destruct (IH v6 l2 cs0 t ltac:(subst l2; apply bytes_ok_skipn; assumption) PC Hz2) as (cs' & RC & Tys).
      rewrite RC. cbn [ccons]. eexists; split; [reflexivity|]. cbn [map]. congruence.
    + destruct (parse_ops (length l1) l1) as [[os l2]|] eqn:PO; [|discriminate].
      destruct (parse_comps f v6 l2) as [cs0|] eqn:PC; [|discriminate].
      inversion Hp; subst cs; clear Hp. cbn [forallb offz] in Hz. cbn [andb] in Hz.
      rewrite ops_agree in PO.
      destruct (ref_ops (length l1) l1) as [[os' l2']|] eqn:RO; [|discriminate].
      inversion PO; subst os' l2'; clear PO.
      destruct (ref_ops_rest _ _ _ _ RO) as [k Hk2].
      destruct (IH v6 l2 cs0 t ltac:(subst l2; apply bytes_ok_skipn; assumption) PC Hz) as (cs' & RC & Tys).
      rewrite RC. cbn [ccons]. eexists; split; [reflexivity|]. cbn [map comp_ty mty]. congruence.
Qed.

Lemma bytes_ok_firstn : forall n l, bytes_ok l -> bytes_ok (firstn n l).
Proof.
  induction n; intros l H; [constructor|]. destruct l; [constructor|]. cbn [firstn].
  inversion H; subst. constructor; [assumption|]. apply IHn. assumption.
Qed.

Definition ref_tail (ordered v6 vpn : bool) (len : Z) (d : list Z) : rres :=
  match take len d with
  | None => RErr ELength []
  | Some (body, over) =>
    match (if vpn then take 8 body else Some ([], body)) with
    | None => RErr ERd []
    | Some (rd, cs) =>
      match ref_comps (length cs) ordered v6 0 cs with
      | COk comps => ROk (mkRule rd comps) over
      | CErr e b => RErr e b
      end
    end
  end.

Lemma ref_flow_gen_unfold : forall ordered v6 vpn l0 d1,
  ref_flow_gen ordered v6 vpn (l0 :: d1) =
  match (if l0 <? 240 then Some (l0, d1)
         else match d1 with [] => None | l1 :: d2 => Some ((l0 - 240) * 256 + l1, d2) end) with
  | None => RErr ELength []
  | Some (len, d) => ref_tail ordered v6 vpn len d
  end.
Proof. reflexivity. Qed.

Lemma dec_body_sound : forall v6 vpn len d mr over,
  0 <= len -> bytes_ok d ->
  dec_body v6 vpn len d = DOk mr over ->
  forallb offz (m_comps mr) = true ->
  (vpn = true -> length (m_rd mr) = 8%nat) ->
  exists r, ref_tail false v6 vpn len d = ROk r over /\ r_rd r = m_rd mr /\
            map comp_ty (r_comps r) = map mty (m_comps mr).
Proof.
  intros v6 vpn len d mr over Hlen Hb H Hz Hrd.
  unfold dec_body in H. destruct (llen d <? len) eqn:E; [discriminate|]. apply Z.ltb_ge in E.
  unfold ref_tail. rewrite take_spec by assumption.
  replace (len <=? Z.of_nat (length d)) with true by (symmetry; apply Z.leb_le; exact E).
  unfold RD_LEN in H.
  destruct vpn; cbn [andb] in H.
  - destruct (8 <=? llen (ltake len d)) eqn:E8.
    + apply Z.leb_le in E8.
      destruct (parse_comps (length (ldrop 8 (ltake len d))) v6 (ldrop 8 (ltake len d))) as [cs|] eqn:PC; [|discriminate].
      inversion H; subst mr over; clear H. cbn [m_comps m_rd] in *.
      rewrite take_spec by lia.
      replace (8 <=? Z.of_nat (length (ltake len d))) with true by (symmetry; apply Z.leb_le; exact E8).
      assert (Hbc : bytes_ok (ldrop 8 (ltake len d))) by (unfold ldrop, ltake; apply bytes_ok_skipn, bytes_ok_firstn; exact Hb).
      destruct (parse_ref_comps _ v6 _ cs 0 Hbc PC Hz) as (cs' & RC & Tys).
      rewrite RC. eexists; split; [reflexivity|]. split; [reflexivity|exact Tys].
    + destruct (parse_comps (length (ltake len d)) v6 (ltake len d)) as [cs|] eqn:PC; [|discriminate].
      inversion H; subst mr over. cbn [m_rd] in Hrd. specialize (Hrd eq_refl). discriminate.
  - destruct (parse_comps (length (ltake len d)) v6 (ltake len d)) as [cs|] eqn:PC; [|discriminate].
    inversion H; subst mr over; clear H. cbn [m_comps m_rd] in *.
    assert (Hbc : bytes_ok (ltake len d)) by (unfold ltake; apply bytes_ok_firstn; exact Hb).
    destruct (parse_ref_comps _ v6 _ cs 0 Hbc PC Hz) as (cs' & RC & Tys).
    rewrite RC. eexists; split; [reflexivity|]. split; [reflexivity|exact Tys].
Qed.

(* Soundness of the decoder: on any byte string a BGP message can hold, a delivered rule (IPv6
   prefixes without offset, route distinguisher present for flow-vpn) means the NLRI passes the RFC
   framing walk with the same length, RD, component types and left-over octets. *)
Lemma dec_sound : forall v6 vpn b mr over,
  bytes_ok b -> llen b < 65536 ->
  dec_flow v6 vpn b = DOk mr over ->
  forallb offz (m_comps mr) = true ->
  (vpn = true -> length (m_rd mr) = 8%nat) ->
  exists r, ref_scan v6 vpn b = ROk r over /\ r_rd r = m_rd mr /\
            map comp_ty (r_comps r) = map mty (m_comps mr).
Proof.
  intros v6 vpn b mr over Hb Hl H Hz Hrd.
  destruct b as [|l0 d1]; [discriminate|].
  inversion Hb as [|? ? H0 Hb1]; subst.
  unfold ref_scan. rewrite ref_flow_gen_unfold. cbn [dec_flow] in H.
  unfold LEN_EXT_VALUE in H.
  (* the shift is 16 in the pinned tree (only 240..255 decodable) and 8 once repaired: both proved *)
  remember (2 ^ LEN_EXT_SHIFT) as sh eqn:Hsh.
  assert (Hshc : sh = 65536 \/ sh = 256) by (subst sh; vm_compute; auto).
  destruct (l0 / 16 * 16 =? 240) eqn:E.
  - apply Z.eqb_eq in E. destruct d1 as [|e d2]; [discriminate|].
    inversion Hb1 as [|? ? He Hb2]; subst.
    assert (Hge : 240 <= l0) by (Z.div_mod_to_equations; lia).
    replace (l0 <? 240) with false by (symmetry; apply Z.ltb_ge; lia).
    assert (Hlen : l0 mod 16 * 2 ^ LEN_EXT_SHIFT + e <= llen d2).
    { unfold dec_body in H. destruct (llen d2 <? l0 mod 16 * 2 ^ LEN_EXT_SHIFT + e) eqn:E2; [discriminate|]. apply Z.ltb_ge in E2. exact E2. }
    unfold llen in Hlen, Hl. cbn [length] in Hl. rewrite !Nat2Z.inj_succ in Hl.
    assert (Heq : l0 mod 16 * 2 ^ LEN_EXT_SHIFT + e = (l0 - 240) * 256 + e).
    { destruct Hshc as [Hs|Hs]; rewrite Hs in *.
      - assert (Hm : l0 mod 16 = 0) by (Z.div_mod_to_equations; lia).
        assert (Hl0 : l0 = 240) by (Z.div_mod_to_equations; lia). subst l0. reflexivity.
      - assert (Hm : l0 mod 16 = l0 - 240) by (Z.div_mod_to_equations; lia). rewrite Hm. reflexivity. }
    rewrite Heq in H.
    apply (dec_body_sound v6 vpn ((l0 - 240) * 256 + e) d2 mr over); auto; lia.
  - apply Z.eqb_neq in E.
    assert (Hlt : l0 < 240) by (Z.div_mod_to_equations; lia).
    replace (l0 <? 240) with true by (symmetry; apply Z.ltb_lt; lia).
    apply (dec_body_sound v6 vpn l0 d1 mr over); auto; lia.
Qed.

Lemma never_broader : forall v6 vpn b e before mr over,
  bytes_ok b -> llen b < 65536 ->
  ref_scan v6 vpn b = RErr e before ->
  forallb offz (m_comps mr) = true ->
  (vpn = true -> length (m_rd mr) = 8%nat) ->
  dec_flow v6 vpn b <> DOk mr over.
Proof.
  intros v6 vpn b e before mr over Hb Hl Hr Hz Hrd Hd.
  destruct (dec_sound v6 vpn b mr over Hb Hl Hd Hz Hrd) as (r & R & _). congruence.
Qed.

(* IPv4, plain flow: no side condition at all *)
Lemma never_broader_v4 : forall b e before mr over,
  bytes_ok b -> llen b < 65536 ->
  ref_scan false false b = RErr e before -> dec_flow false false b <> DOk mr over.
Proof.
  intros b e before mr over Hb Hl Hr Hd.
  assert (Hz : forallb offz (m_comps mr) = true).
  { (* IPv4 prefixes are decoded with offset 0 *)
    clear Hr. destruct b as [|l0 d1]; [discriminate|]. cbn [dec_flow] in Hd.
    assert (G : forall fuel l cs, parse_comps fuel false l = Some cs -> forallb offz cs = true).
    { induction fuel as [|f IH]; intros l cs Hp.
      - destruct l; [|discriminate]. inversion Hp. reflexivity.
      - destruct l as [|t l1]; [inversion Hp; reflexivity|]. cbn [parse_comps] in Hp.
        destruct (kind false t =? 0); [discriminate|].
        destruct (kind false t =? 1).
        + destruct (parse_prefix false t l1) as [[c l2]|] eqn:PP; [|discriminate].
          destruct (parse_comps f false l2) as [cs0|] eqn:PC; [|discriminate].
          inversion Hp; subst. cbn [forallb]. rewrite (IH _ _ PC).
          unfold parse_prefix in PP. destruct l1 as [|m l1']; [discriminate|].
          destruct (32 <? m); [discriminate|]. destruct (llen (m :: l1') <? size m + 1); [discriminate|].
          inversion PP; subst. reflexivity.
        + destruct (parse_ops (length l1) l1) as [[os l2]|]; [|discriminate].
          destruct (parse_comps f false l2) as [cs0|] eqn:PC; [|discriminate].
          inversion Hp; subst. cbn [forallb offz andb]. apply (IH _ _ PC). }
    assert (G2 : forall len d, dec_body false false len d = DOk mr over -> forallb offz (m_comps mr) = true).
    { intros len d Hb2. unfold dec_body in Hb2. destruct (llen d <? len); [discriminate|]. cbn [andb] in Hb2.
      destruct (parse_comps (length (ltake len d)) false (ltake len d)) as [cs|] eqn:PC; [|discriminate].
      inversion Hb2; subst. cbn [m_comps]. apply (G _ _ _ PC). }
    destruct (l0 / 16 * 16 =? LEN_EXT_VALUE).
    - destruct d1 as [|e0 d2]; [discriminate|]. apply (G2 _ _ Hd).
    - apply (G2 _ _ Hd). }
  apply (never_broader false false b e before mr over Hb Hl Hr Hz); [discriminate|exact Hd].
Qed.

(* ---------------------------------------------------------------- component order *)
From Coq Require Import Sorting.Sorted.

Lemma group_ty : forall cs t k w c, In c (group cs (t, (k, w))) -> mty c = t.
Proof.
  intros cs t k w c H. unfold group in H. destruct (k =? 1).
  - unfold pick_pfx in H. apply filter_In in H. destruct H as [_ H]. destruct c; [|discriminate].
    apply Z.eqb_eq in H. exact H.
  - destruct (pick_ops t cs); [destruct H|]. destruct H as [<-|[]]. reflexivity.
Qed.

Lemma flat_group_ty : forall cs tb c, In c (flat_map (group cs) tb) -> In (mty c) (map fst tb).
Proof.
  intros cs tb c H. apply in_flat_map in H. destruct H as ([t [k w]] & Hin & Hc).
  apply group_ty in Hc. subst t. apply in_map_iff. exists (mty c, (k, w)). split; [reflexivity|exact Hin].
Qed.

Lemma sorted_app_const : forall (t : Z) (l1 l2 : list Z),
  (forall x, In x l1 -> x = t) -> (forall y, In y l2 -> t < y) -> StronglySorted Z.le l2 ->
  StronglySorted Z.le (l1 ++ l2).
Proof.
  induction l1 as [|a l1 IH]; intros l2 H1 H2 S; [exact S|].
  cbn [app]. constructor.
  - apply IH; auto. intros x Hx. apply H1. right. exact Hx.
  - apply Forall_forall. intros y Hy. apply in_app_or in Hy.
    rewrite (H1 a (or_introl eq_refl)).
    destruct Hy as [Hy|Hy]; [rewrite (H1 y (or_intror Hy)); lia|specialize (H2 y Hy); lia].
Qed.

Lemma canon_sorted_gen : forall cs tb, StronglySorted Z.lt (map fst tb) ->
  StronglySorted Z.le (map mty (flat_map (group cs) tb)).
Proof.
  induction tb as [|[t [k w]] tb IH]; intros S; [constructor|].
  cbn [flat_map map]. rewrite map_app. cbn [map fst] in S. inversion S as [|? ? S' F]; subst.
  apply sorted_app_const with (t := t).
  - intros x Hx. apply in_map_iff in Hx. destruct Hx as (c & <- & Hc). apply (group_ty _ _ _ _ _ Hc).
  - intros y Hy. apply in_map_iff in Hy. destruct Hy as (c & <- & Hc).
    apply flat_group_ty in Hc. rewrite Forall_forall in F. apply F. exact Hc.
  - apply IH. exact S'.
Qed.

Lemma table_sorted : forall v6, StronglySorted Z.lt (map fst (table v6)).
Proof.
  destruct v6; unfold table, table6, table4; cbn [map fst];
    repeat (constructor; [|repeat (constructor; try lia)]); constructor.
Qed.

Lemma canon_sorted : forall v6 cs, StronglySorted Z.le (map mty (canon v6 cs)).
Proof. intros. unfold canon. apply canon_sorted_gen. apply table_sorted. Qed.

(* each operator type appears at most once: a group holds at most one operator component *)
Lemma group_ops_once : forall cs e, (length (filter (fun c => match c with MOps _ _ => true | _ => false end) (group cs e)) <= 1)%nat.
Proof.
  intros cs [t [k w]]. unfold group. destruct (k =? 1).
  - unfold pick_pfx. induction cs as [|c cs IH]; [cbn; lia|].
    cbn [filter]. destruct c as [t' m o a|t' l]; [|exact IH].
    destruct (t' =? t); [cbn [filter]; exact IH|exact IH].
  - destruct (pick_ops t cs); cbn; lia.
Qed.

(* ---------------------------------------------------------------- witnesses of the defects *)

Definition nlri257 : list Z := [241; 1; 5] ++ flat_map (fun _ => [1; 80]) (seq 0 127) ++ [129; 80].
(* a well-formed NLRI of 257 octets (length written f1 01) is decoded to the reference rule
   (repaired by /repo 9e3ea9b; it used to raise Notify 3/10) *)
Lemma decode_long_agrees :
  llen nlri257 = 259 /\ exists mr, dec_flow false false nlri257 = DOk mr [] /\
  ref_flow false false nlri257 = ROk (abs_rule mr) [].
Proof. split; [reflexivity|]. eexists; split; vm_compute; reflexivity. Qed.

(* destination a500::/8/1 as RFC 8956 writes it: 7 pattern bits 0100101, one octet 0x4a *)
Lemma decode_offset_refuted :
  ref_flow true false [4; 1; 8; 1; 74] = ROk (mkRule [] [CPfx 1 8 1 37]) [] /\
  exists mr, dec_flow true false [4; 1; 8; 1; 74] = DOk mr [] /\ abs_rule mr = mkRule [] [CPfx 1 8 1 74].
Proof. split; [vm_compute; reflexivity|]. eexists; split; vm_compute; reflexivity. Qed.

Definition rule_off : mrule := mkMRule [] [MPfx 1 8 1 [165;0;0;0;0;0;0;0;0;0;0;0;0;0;0;0]].
Lemma roundtrip_offset_refuted :
  enc_flow true rule_off = Some [4; 1; 8; 1; 165] /\
  normal true rule_off = mkRule [] [CPfx 1 8 1 37] /\
  ref_flow true false [4; 1; 8; 1; 165] = ROk (mkRule [] [CPfx 1 8 1 82]) [].
Proof. repeat split; vm_compute; reflexivity. Qed.

(* flow-vpn NLRI of 3 octets: no room for a route distinguisher, delivered as `protocol =6` *)
Lemma short_rd_delivered :
  ref_flow true true [3; 3; 129; 6] = RErr ERd [] /\
  dec_flow true true [3; 3; 129; 6] = DOk (mkMRule [] [MOps 3 [(0, 1, 6)]]) [].
Proof. split; vm_compute; reflexivity. Qed.

(* two `source` lines: the type is written twice, which RFC 8955 4.2 does not allow *)
Definition rule_dup : mrule := mkMRule [] [MPfx 2 8 0 [10;0;0;0]; MPfx 2 8 0 [11;0;0;0]].
Lemma duplicate_prefix_refuted :
  enc_flow false rule_dup = Some [6; 2; 8; 10; 2; 8; 11] /\
  ref_flow false false [6; 2; 8; 10; 2; 8; 11] = RErr EOrder [CPfx 2 8 0 10].
Proof. split; vm_compute; reflexivity. Qed.

(* ---------------------------------------------------------------- encode then RFC-decode *)

Definition rt_ok (v6 : bool) (c : mcomp) : bool :=
  match c with
  | MPfx t m off addr =>
    ((t =? 1) || (t =? 2)) && (off =? 0) && (0 <=? m) && (m <=? (if v6 then 128 else 32)) &&
    (size m <=? llen addr)
  | MOps t ops =>
    (3 <=? t) && (t <=? (if v6 then 13 else 12)) && negb (match ops with [] => true | _ => false end) &&
    forallb (valid_op (maxw v6 t)) ops
  end.

Fixpoint strict_asc (last : Z) (l : list Z) : bool :=
  match l with [] => true | t :: l' => (last <? t) && strict_asc t l' end.

Lemma enc_ops_length : forall w ops, (length ops <= length (enc_ops w ops))%nat.
Proof.
  induction ops as [|[[a nb] v] ops IH]; [cbn; lia|].
  destruct ops as [|o2 ops'].
  - cbn [enc_ops]. rewrite enc_op_shape. cbn [length]. lia.
  - change (enc_ops w ((a, nb, v) :: o2 :: ops')) with (enc_op false w (a, nb, v) ++ enc_ops w (o2 :: ops')).
    rewrite app_length, enc_op_shape. cbn [length] in *. lia.
Qed.

Lemma firstn_len_size : forall m (addr : list Z), 0 <= size m <= llen addr ->
  Z.of_nat (length (firstn (Z.to_nat (size m)) addr)) = size m.
Proof. intros m addr H. unfold llen in H. rewrite firstn_length, Nat.min_l by lia. lia. Qed.

Lemma ref_comps_enc : forall cs v6 last fuel,
  forallb (rt_ok v6) cs = true -> strict_asc last (map mty cs) = true -> 0 <= last ->
  (length cs <= fuel)%nat ->
  ref_comps fuel true v6 last (flat_map (enc_comp v6) cs) = COk (map abs_comp cs).
Proof.
  induction cs as [|c cs IH]; intros v6 last fuel Hok Hasc Hlast Hf; [destruct fuel; reflexivity|].
  cbn [forallb] in Hok. apply andb_true_iff in Hok. destruct Hok as [Hc Hok].
  cbn [map strict_asc] in Hasc. apply andb_true_iff in Hasc. destruct Hasc as [Hlt Hasc]. apply Z.ltb_lt in Hlt.
  destruct fuel as [|f]; [cbn in Hf; lia|]. cbn [length] in Hf.
  cbn [flat_map map].
  destruct c as [t m off addr|t ops]; cbn [rt_ok mty] in *.
  - repeat (apply andb_true_iff in Hc; destruct Hc as [Hc ?]).
    repeat match goal with
           | H : (_ <=? _) = true |- _ => apply Z.leb_le in H
           | H : (_ =? _) = true |- _ => apply Z.eqb_eq in H end.
    subst off.
    assert (Ht : t = 1 \/ t = 2) by (apply orb_true_iff in Hc; destruct Hc as [Hc|Hc]; apply Z.eqb_eq in Hc; auto).
    assert (Hm128 : m <= 128) by (destruct v6; lia).
    destruct (size_eq m ltac:(lia)) as [Hs Hs0].
    assert (Hdef : defined_type v6 t = true) by (unfold defined_type; destruct v6; destruct Ht; subst t; reflexivity).
    assert (Ht2 : (t <=? 2) = true) by (apply Z.leb_le; lia).
    assert (Hord : (t <=? last) = false) by (apply Z.leb_gt; lia).
    assert (Hfl := firstn_len_size m addr ltac:(lia)).
    destruct v6; cbn [enc_comp app ref_comps]; rewrite Hdef, Hord, Ht2; cbn [negb andb].
    + cbn [ref_prefix].
      replace (((m =? 0) && (0 =? 0)) || ((0 <? m) && (m <=? 128))) with true.
      2:{ symmetry. destruct (m =? 0) eqn:E0; [reflexivity|]. apply Z.eqb_neq in E0. cbn [andb orb].
          apply andb_true_iff; split; [apply Z.ltb_lt|apply Z.leb_le]; lia. }
      replace (m - 0 + 7) with (m + 7) by lia. rewrite <- Hs.
      rewrite take_app by (symmetry; exact Hfl).
      rewrite IH by (auto; lia). cbn [ccons abs_comp]. unfold pattern, ltake. cbn [Z.eqb].
      replace (m - 0) with m by lia. reflexivity.
    + cbn [ref_prefix]. replace (m <=? 32) with true by (symmetry; apply Z.leb_le; lia).
      rewrite <- Hs. rewrite take_app by (symmetry; exact Hfl).
      rewrite IH by (auto; lia). cbn [ccons abs_comp]. unfold pattern, ltake. cbn [Z.eqb]. reflexivity.
  - repeat (apply andb_true_iff in Hc; destruct Hc as [Hc ?]).
    repeat match goal with
           | H : (_ <=? _) = true |- _ => apply Z.leb_le in H end.
    assert (Hne : ops <> []) by (destruct ops; [discriminate|congruence]).
    assert (Hdef : defined_type v6 t = true)
      by (unfold defined_type; apply andb_true_iff; split; apply Z.leb_le; lia).
    assert (Ht2 : (t <=? 2) = false) by (apply Z.leb_gt; lia).
    assert (Hord : (t <=? last) = false) by (apply Z.leb_gt; lia).
    cbn [enc_comp app ref_comps]. rewrite Hdef, Hord, Ht2. cbn [negb andb].
    rewrite ref_ops_enc; auto.
    + rewrite IH by (auto; lia). reflexivity.
    + rewrite app_length. pose proof (enc_ops_length (maxw v6 t) ops). lia.
Qed.

Lemma flat_enc_length : forall v6 cs, (length cs <= length (flat_map (enc_comp v6) cs))%nat.
Proof.
  induction cs as [|c cs IH]; [cbn; lia|]. cbn [flat_map]. rewrite app_length.
  assert (1 <= length (enc_comp v6 c))%nat by (destruct c; cbn [enc_comp]; destruct v6; cbn [length]; lia).
  cbn [length]. lia.
Qed.

(* C16_roundtrip on the faithful model needs: IPv6 prefixes without offset, at most one prefix per
   type (strict order), legal masks, a body shorter than 4095 (enc_flow = Some) *)
Lemma roundtrip_partial : forall v6 r b,
  forallb (rt_ok v6) (canon v6 (m_comps r)) = true ->
  strict_asc 0 (map mty (canon v6 (m_comps r))) = true ->
  (m_rd r = [] \/ length (m_rd r) = 8%nat) ->
  enc_flow v6 r = Some b ->
  ref_flow v6 (negb (match m_rd r with [] => true | _ => false end)) b = ROk (normal v6 r) [].
Proof.
  intros v6 r b Hok Hasc Hrd He.
  unfold enc_flow in He. destruct (valid_rule v6 r); [|discriminate].
  set (body := enc_body v6 r) in *.
  assert (Htail : ref_tail true v6 (negb (match m_rd r with [] => true | _ => false end)) (Z.of_nat (length body)) body
                  = ROk (normal v6 r) []).
  { unfold ref_tail.
    pose proof (take_app body [] (Z.of_nat (length body)) eq_refl) as T. rewrite app_nil_r in T. rewrite T. clear T.
    subst body. unfold enc_body.
    assert (Hc : ref_comps (length (flat_map (enc_comp v6) (canon v6 (m_comps r)))) true v6 0
                   (flat_map (enc_comp v6) (canon v6 (m_comps r))) = COk (map abs_comp (canon v6 (m_comps r)))).
    { apply ref_comps_enc; auto; [lia|apply flat_enc_length]. }
    destruct Hrd as [Hr|Hr].
    - rewrite Hr. cbn [negb app]. rewrite Hc.
      unfold normal, abs_rule, view. cbn [m_rd m_comps]. rewrite Hr. reflexivity.
    - destruct (m_rd r) as [|x rd'] eqn:Erd; [discriminate|]. cbn [negb].
      rewrite take_app by (rewrite Hr; reflexivity). rewrite Hc.
      unfold normal, abs_rule, view. cbn [m_rd m_comps]. rewrite Erd. reflexivity. }
  unfold ref_flow. unfold enc_len in He. fold body in He. rewrite len_compact_spec in He.
  destruct (Z.of_nat (length body) <? 240) eqn:E1.
  - apply Z.ltb_lt in E1.
    assert (Hb' : b = Z.of_nat (length body) :: body) by congruence. subst b. rewrite ref_flow_gen_unfold.
    replace (Z.of_nat (length body) <? 240) with true by (symmetry; apply Z.ltb_lt; lia). exact Htail.
  - apply Z.ltb_ge in E1. destruct (len_extended (Z.of_nat (length body))) eqn:E2; [|discriminate].
    apply (proj1 (len_extended_spec _)) in E2. unfold LEN_EXT_VALUE in He.
    assert (Hb' : b = (240 + Z.of_nat (length body) / 256) :: Z.of_nat (length body) mod 256 :: body) by congruence.
    subst b. rewrite ref_flow_gen_unfold.
    replace (240 + Z.of_nat (length body) / 256 <? 240) with false
      by (symmetry; apply Z.ltb_ge; Z.div_mod_to_equations; lia).
    replace ((240 + Z.of_nat (length body) / 256 - 240) * 256 + Z.of_nat (length body) mod 256)
      with (Z.of_nat (length body)) by (Z.div_mod_to_equations; lia).
    exact Htail.
Qed.

Definition rule_ex : mrule :=
  mkMRule [] [MOps 5 [(0, 1, 80); (0, 2, 1024); (1, 4, 2000)]; MPfx 2 32 0 [10; 0; 0; 1]; MOps 3 [(0, 1, 6)]; MOps 5 [(0, 1, 443)]].
Lemma roundtrip_example :
  forallb (rt_ok false) (canon false (m_comps rule_ex)) = true /\
  strict_asc 0 (map mty (canon false (m_comps rule_ex))) = true /\
  enc_flow false rule_ex = Some [21; 2; 32; 10; 0; 0; 1; 3; 129; 6; 5; 1; 80; 18; 4; 0; 84; 7; 208; 145; 1; 187].
Proof. repeat split; vm_compute; reflexivity. Qed.
