(* C16 - lemmas about Model_Flow against Spec_Flow. *)
From Coq Require Import ZArith List Bool Lia Arith.
From ExaV Require Import lib.ListX gen.Gen_Flow spec.Spec_Flow model.Model_Flow.
Import ListNotations.
Open Scope Z_scope.

Lemma enc_action_ref : forall a, enc_action a = ref_action a.
Proof. destruct a; reflexivity. Qed.

(* ---------------------------------------------------------------- big-endian values *)

Lemma be_length : forall n v, length (be n v) = n.
Proof. induction n; intros; cbn [be length]; auto. Qed.

Lemma be_val_be : forall n v acc, 0 <= v ->
  be_val acc (be n v) = acc * 256 ^ Z.of_nat n + v mod 256 ^ Z.of_nat n.
Proof.
  induction n as [|k IH]; intros v acc Hv.
  - cbn [be be_val]. change (256 ^ Z.of_nat 0) with 1. rewrite Z.mod_1_r. lia.
  - cbn [be be_val]. rewrite IH by assumption.
    rewrite Nat2Z.inj_succ, Z.pow_succ_r by lia.
    assert (Hp : 0 < 256 ^ Z.of_nat k) by (apply Z.pow_pos_nonneg; lia).
    rewrite (Z.mul_comm 256 (256 ^ Z.of_nat k)).
    rewrite (Z.rem_mul_r v (256 ^ Z.of_nat k) 256) by lia.
    ring.
Qed.

Lemma be_val_be_small : forall n v, 0 <= v < 256 ^ Z.of_nat n -> be_val 0 (be n v) = v.
Proof. intros n v H. rewrite be_val_be by lia. rewrite Z.mod_small by lia. lia. Qed.

Lemma be_bytes : forall n v, 0 <= v -> Forall (fun b => 0 <= b < 256) (be n v).
Proof.
  induction n; intros; cbn [be]; constructor; auto.
  apply Z.mod_pos_bound. lia.
Qed.

Lemma take_app : forall (x rest : list Z) n, n = Z.of_nat (length x) -> take n (x ++ rest) = Some (x, rest).
Proof.
  intros x rest n ->. unfold take.
  rewrite app_length, Nat2Z.inj_add.
  replace ((0 <=? Z.of_nat (length x)) && (Z.of_nat (length x) <=? Z.of_nat (length x) + Z.of_nat (length rest))) with true
    by (symmetry; apply andb_true_iff; split; apply Z.leb_le; lia).
  rewrite Nat2Z.id.
  rewrite firstn_app, Nat.sub_diag, firstn_all. cbn [firstn]. rewrite app_nil_r.
  rewrite skipn_app, Nat.sub_diag, skipn_all. reflexivity.
Qed.

(* ---------------------------------------------------------------- the operator octet *)

Lemma width_cases : forall w v, width w v = 1 \/ width w v = 2 \/ width w v = 4.
Proof.
  intros. unfold width.
  destruct (w =? 1); auto. destruct (v <? 256); auto. destruct (w =? 2); auto. destruct (v <? 65536); auto.
Qed.

Lemma lenbits_width : forall w v, 2 ^ lenbits (width w v) = width w v /\ 0 <= lenbits (width w v) <= 2.
Proof.
  intros. destruct (width_cases w v) as [H|[H|H]]; rewrite H; cbn; lia.
Qed.

(* C16_shortest_width: the width is the first of the class' sizes (1, then 2 if w >= 2, then 4 if
   w >= 4) that holds the value *)
Lemma width_shortest : forall w v, (w = 1 \/ w = 2 \/ w = 4) -> 0 <= v < 256 ^ width w v ->
  width w v <= w /\ (forall n, (n = 1 \/ n = 2 \/ n = 4) -> n < width w v -> 256 ^ n <= v).
Proof.
  intros w v Hw Hv. unfold width in *.
  destruct (w =? 1) eqn:E1.
  - split; [lia|]. intros n Hn Hl. lia.
  - destruct (v <? 256) eqn:E2.
    + split; [lia|]. intros; lia.
    + apply Z.ltb_ge in E2. destruct (w =? 2) eqn:E3.
      * split; [lia|]. intros n [-> | [-> | ->]] Hl; try lia; try (cbn; lia).
      * destruct (v <? 65536) eqn:E4.
        -- split; [lia|]. intros n [-> | [-> | ->]] Hl; try lia; try (cbn; lia).
        -- apply Z.ltb_ge in E4. split; [lia|]. intros n [-> | [-> | ->]] Hl; try lia; try (cbn; lia).
Qed.

Definition op_byte (eol : bool) (a lb nb : Z) : Z := (if eol then 128 else 0) + 64 * a + 16 * lb + nb.

Lemma op_byte_fields : forall eol a lb nb,
  0 <= a <= 1 -> 0 <= lb <= 3 -> 0 <= nb < 16 ->
  let b := op_byte eol a lb nb in
  (b / 16) mod 4 = lb /\ (b / 64) mod 2 = a /\ b mod 16 = nb /\ (128 <=? b) = eol /\ 0 <= b < 256.
Proof.
  intros eol a lb nb Ha Hl Hn b. subst b. unfold op_byte.
  destruct eol.
  - repeat split; try (apply Z.leb_le); try lia;
      try (match goal with |- context [Z.modulo] => idtac end; Z.div_mod_to_equations; lia).
  - repeat split; try (apply Z.leb_gt); try lia;
      try (match goal with |- context [Z.modulo] => idtac end; Z.div_mod_to_equations; lia).
Qed.

Lemma enc_op_shape : forall eol w a nb v,
  enc_op eol w (a, nb, v) = op_byte eol a (lenbits (width w v)) nb :: be (Z.to_nat (width w v)) v.
Proof. intros. unfold enc_op, op_byte, EOL, AND. destruct eol; f_equal; lia. Qed.

Lemma valid_op_spec : forall w a nb v, valid_op w (a, nb, v) = true ->
  0 <= a <= 1 /\ 0 <= nb < 16 /\ 0 <= v < 256 ^ width w v.
Proof.
  intros w a nb v H. unfold valid_op in H.
  repeat (apply andb_true_iff in H; destruct H as [H ?]).
  repeat match goal with
         | H : (_ <=? _) = true |- _ => apply Z.leb_le in H
         | H : (_ <? _) = true |- _ => apply Z.ltb_lt in H end.
  lia.
Qed.

Lemma ref_op_step : forall eol w a nb v rest,
  valid_op w (a, nb, v) = true ->
  exists b vb, enc_op eol w (a, nb, v) = b :: vb /\
    take (2 ^ ((b / 16) mod 4)) (vb ++ rest) = Some (vb, rest) /\
    (b / 64) mod 2 = a /\ b mod 16 = nb /\ be_val 0 vb = v /\ (128 <=? b) = eol /\
    (b / 16) mod 4 = lenbits (width w v) /\ Z.of_nat (length vb) = width w v.
Proof.
  intros eol w a nb v rest Hv.
  apply valid_op_spec in Hv. destruct Hv as (Ha & Hn & Hvv).
  destruct (lenbits_width w v) as [Hpow Hlb].
  rewrite enc_op_shape.
  destruct (op_byte_fields eol a (lenbits (width w v)) nb Ha ltac:(lia) Hn) as (F1 & F2 & F3 & F4 & F5).
  eexists; eexists; split; [reflexivity|].
  assert (Hw : 0 < width w v) by (destruct (width_cases w v) as [H|[H|H]]; lia).
  assert (Hlen : Z.of_nat (length (be (Z.to_nat (width w v)) v)) = width w v)
    by (rewrite be_length; lia).
  repeat split; auto.
  - rewrite F1, Hpow. apply take_app. lia.
  - apply be_val_be_small. rewrite Z2Nat.id by lia. lia.
Qed.

(* the RFC operator-list reader gives back exactly the written list: the end-of-list bit is on the
   last operator and on no other (the reader stops at the first one), the AND bits and operator
   bits are as written, the values are intact *)
Lemma ref_ops_enc : forall ops w rest fuel,
  ops <> [] -> forallb (valid_op w) ops = true -> (length ops <= fuel)%nat ->
  ref_ops fuel (enc_ops w ops ++ rest) = inl (ops, rest).
Proof.
  induction ops as [|[[a nb] v] ops IH]; intros w rest fuel Hne Hv Hf; [congruence|].
  cbn [forallb] in Hv. apply andb_true_iff in Hv. destruct Hv as [Hv1 Hv2].
  destruct fuel as [|f]; [cbn in Hf; lia|].
  destruct ops as [|o2 ops'].
  - cbn [enc_ops].
    destruct (ref_op_step true w a nb v rest Hv1) as (b & vb & E & T & F2 & F3 & F4 & F5 & _).
    rewrite E. cbn [app ref_ops]. rewrite T, F2, F3, F4, F5. reflexivity.
  - change (enc_ops w ((a, nb, v) :: o2 :: ops')) with (enc_op false w (a, nb, v) ++ enc_ops w (o2 :: ops')).
    rewrite <- app_assoc.
    destruct (ref_op_step false w a nb v (enc_ops w (o2 :: ops') ++ rest) Hv1) as (b & vb & E & T & F2 & F3 & F4 & F5 & _).
    rewrite E. cbn [app ref_ops]. rewrite T, F2, F3, F4, F5.
    rewrite IH; [reflexivity|congruence|assumption|cbn [length] in *; lia].
Qed.

(* every octet of an operator component but the last operator's has the end-of-list bit clear *)
Fixpoint op_heads (w : Z) (ops : list op) : list Z :=
  match ops with
  | [] => []
  | [o] => [hd 0 (enc_op true w o)]
  | o :: rest => hd 0 (enc_op false w o) :: op_heads w rest
  end.

Lemma eol_exactly_last : forall ops w, forallb (valid_op w) ops = true -> ops <> [] ->
  (128 <=? last (op_heads w ops) 0) = true /\
  forallb (fun b => negb (128 <=? b)) (removelast (op_heads w ops)) = true.
Proof.
  induction ops as [|[[a nb] v] ops IH]; intros w Hv Hne; [congruence|].
  cbn [forallb] in Hv. apply andb_true_iff in Hv. destruct Hv as [Hv1 Hv2].
  destruct ops as [|o2 ops'].
  - cbn [op_heads last removelast forallb].
    destruct (ref_op_step true w a nb v [] Hv1) as (b & vb & E & _ & _ & _ & _ & F5 & _).
    rewrite E. cbn [hd]. auto.
  - change (op_heads w ((a, nb, v) :: o2 :: ops')) with (hd 0 (enc_op false w (a, nb, v)) :: op_heads w (o2 :: ops')).
    destruct (IH w Hv2 ltac:(congruence)) as [L R].
    assert (Hnn : op_heads w (o2 :: ops') <> []) by (destruct ops'; cbn; congruence).
    split.
    + destruct (op_heads w (o2 :: ops')) eqn:EE; [congruence|]. cbn [last]. exact L.
    + destruct (op_heads w (o2 :: ops')) eqn:EE; [congruence|].
      cbn [removelast forallb]. cbn [removelast] in R. rewrite R.
      destruct (ref_op_step false w a nb v [] Hv1) as (b & vb & E & _ & _ & _ & _ & F5 & _).
      rewrite E. cbn [hd]. rewrite F5. reflexivity.
Qed.

(* ---------------------------------------------------------------- the length field *)

Lemma enc_len_cases : forall body,
  let n := Z.of_nat (length body) in
  (n < 240 -> enc_len body = Some (n :: body)) /\
  (240 <= n < 4095 -> enc_len body = Some ((240 + n / 256) :: n mod 256 :: body)) /\
  (4095 <= n -> enc_len body = None).
Proof.
  intros body n. unfold enc_len, len_compact, len_extended, LEN_EXT_VALUE. fold n.
  repeat split; intros H.
  - destruct (n <? 240) eqn:E; [reflexivity|apply Z.ltb_ge in E; lia].
  - destruct (n <? 240) eqn:E; [apply Z.ltb_lt in E; lia|].
    destruct (n <? 4095) eqn:E2; [reflexivity|apply Z.ltb_ge in E2; lia].
  - destruct (n <? 240) eqn:E; [apply Z.ltb_lt in E; lia|].
    destruct (n <? 4095) eqn:E2; [apply Z.ltb_lt in E2; lia|reflexivity].
Qed.

Lemma enc_len_is_rfc : forall body, Z.of_nat (length body) <> 4095 ->
  enc_len body = option_map (fun h => h ++ body) (ref_length (Z.of_nat (length body))).
Proof.
  intros body H. destruct (enc_len_cases body) as (A & B & C). unfold ref_length.
  destruct (Z.of_nat (length body) <? 240) eqn:E.
  - apply Z.ltb_lt in E. rewrite A by lia. reflexivity.
  - apply Z.ltb_ge in E. destruct (Z.of_nat (length body) <? 4096) eqn:E2.
    + apply Z.ltb_lt in E2. rewrite B by lia. reflexivity.
    + apply Z.ltb_ge in E2. rewrite C by lia. reflexivity.
Qed.

Definition rule4095 : mrule := mkMRule [] [MOps 5 (repeat (0, 1, 80) 2047)].
Lemma enc_len_4095_refused :
  valid_rule false rule4095 = true /\ Z.of_nat (length (enc_body false rule4095)) = 4095 /\
  ref_length 4095 = Some [255; 255] /\ enc_flow false rule4095 = None.
Proof. vm_compute. auto. Qed.

(* ---------------------------------------------------------------- decoder against the RFC walk *)

Definition bytes_ok (l : list Z) : Prop := Forall (fun b => 0 <= b < 256) l.

Lemma bytes_ok_skipn : forall n l, bytes_ok l -> bytes_ok (skipn n l).
Proof.
  induction n; intros l H; [exact H|]. destruct l; [exact H|]. cbn [skipn]. apply IHn. inversion H; assumption.
Qed.

Lemma take_spec : forall n l, 0 <= n ->
  take n l = if n <=? Z.of_nat (length l) then Some (ltake n l, ldrop n l) else None.
Proof.
  intros n l Hn. unfold take, ltake, ldrop.
  replace (0 <=? n) with true by (symmetry; apply Z.leb_le; lia). reflexivity.
Qed.

Lemma llen_ltake : forall n l, 0 <= n -> (llen (ltake n l) =? n) = (n <=? llen l).
Proof.
  intros n l Hn. unfold llen, ltake. rewrite firstn_length.
  destruct (n <=? Z.of_nat (length l)) eqn:E.
  - apply Z.leb_le in E. apply Z.eqb_eq. rewrite Nat.min_l by lia. lia.
  - apply Z.leb_gt in E. apply Z.eqb_neq. rewrite Nat.min_r by lia. lia.
Qed.

(* Flow._parse_operations reads operator lists exactly as RFC 8955 4.2.1.1 says, on every input *)
Lemma ops_agree : forall fuel l,
  parse_ops fuel l = match ref_ops fuel l with inl x => Some x | inr _ => None end.
Proof.
  induction fuel as [|f IH]; intros l; [reflexivity|].
  cbn [parse_ops ref_ops]. destruct l as [|b l1]; [reflexivity|].
  assert (Hm : 0 <= (b / 16) mod 4 < 4) by (apply Z.mod_pos_bound; lia).
  assert (Hn : 2 ^ ((b / 16) mod 4) = 1 \/ 2 ^ ((b / 16) mod 4) = 2 \/ 2 ^ ((b / 16) mod 4) = 4 \/ 2 ^ ((b / 16) mod 4) = 8).
  { assert (C : (b / 16) mod 4 = 0 \/ (b / 16) mod 4 = 1 \/ (b / 16) mod 4 = 2 \/ (b / 16) mod 4 = 3) by lia.
    destruct C as [C|[C|[C|C]]]; rewrite C; cbn; auto. }
  set (n := 2 ^ ((b / 16) mod 4)) in *.
  assert (Hex : existsb (Z.eqb n) VALUE_WIDTHS = true).
  { unfold VALUE_WIDTHS. destruct Hn as [C|[C|[C|C]]]; rewrite C; reflexivity. }
  rewrite Hex. cbn [negb].
  rewrite llen_ltake by lia. rewrite take_spec by lia. unfold llen.
  destruct (n <=? Z.of_nat (length l1)); [|reflexivity].
  unfold AND, EOL. destruct (128 <=? b); [reflexivity|].
  rewrite IH. destruct (ref_ops f (ldrop n l1)) as [[os l3]|e]; reflexivity.
Qed.

Definition offz (c : mcomp) : bool := match c with MPfx _ _ off _ => off =? 0 | MOps _ _ => true end.

Lemma kind_defined : forall v6 t, kind v6 t <> 0 ->
  defined_type v6 t = true /\ (kind v6 t =? 1) = (t <=? 2).
Proof.
  intros v6 t. destruct v6; unfold kind, table, table6, table4; cbn [lookup];
  repeat match goal with
         | |- context [?i =? t] =>
           destruct (i =? t) eqn:E; [apply Z.eqb_eq in E; subst t; intros _; split; reflexivity | clear E]
         end; congruence.
Qed.

Lemma size_eq : forall m, 0 <= m <= 128 -> size m = (m + 7) / 8 /\ 0 <= size m.
Proof.
  intros m H. unfold size.
  replace ((0 <=? m) && (m <=? 128)) with true
    by (symmetry; apply andb_true_iff; split; apply Z.leb_le; lia).
  split; [reflexivity|]. apply Z.div_pos; lia.
Qed.

Lemma parse_ref_prefix : forall v6 t l c l2, bytes_ok l ->
  parse_prefix v6 t l = Some (c, l2) -> offz c = true ->
  exists c', ref_prefix v6 t l = inl (c', l2) /\ comp_ty c' = mty c.
Proof.
  intros v6 t l c l2 Hb Hp Hz. unfold parse_prefix in Hp. destruct v6.
  - destruct l as [|m [|off l3]]; try discriminate.
    inversion Hb as [|? ? Hm Hb1]; subst. inversion Hb1 as [|? ? Ho Hb2]; subst.
    destruct (128 <? m) eqn:E1; [discriminate|]. apply Z.ltb_ge in E1.
    destruct (llen l3 + 1 <? size m + 1) eqn:E2; [discriminate|]. apply Z.ltb_ge in E2.
    inversion Hp; subst c l2; clear Hp. cbn [offz] in Hz. apply Z.eqb_eq in Hz. subst off.
    destruct (size_eq m ltac:(lia)) as [Hs Hs0].
    cbn [ref_prefix].
    replace (((m =? 0) && (0 =? 0)) || ((0 <? m) && (m <=? 128))) with true.
    2:{ symmetry. destruct (m =? 0) eqn:E0; [reflexivity|]. apply Z.eqb_neq in E0. cbn [andb orb].
        apply andb_true_iff; split; [apply Z.ltb_lt|apply Z.leb_le]; lia. }
    replace (m - 0 + 7) with (m + 7) by lia. rewrite <- Hs.
    rewrite take_spec by lia.
    replace (size m <=? Z.of_nat (length l3)) with true by (symmetry; apply Z.leb_le; unfold llen in E2; lia).
    eexists; split; reflexivity.
  - destruct l as [|m l1]; try discriminate.
    inversion Hb as [|? ? Hm Hb1]; subst.
    destruct (32 <? m) eqn:E1; [discriminate|]. apply Z.ltb_ge in E1.
    destruct (llen (m :: l1) <? size m + 1) eqn:E2; [discriminate|]. apply Z.ltb_ge in E2.
    inversion Hp; subst c l2; clear Hp.
    destruct (size_eq m ltac:(lia)) as [Hs Hs0].
    cbn [ref_prefix].
    replace (m <=? 32) with true by (symmetry; apply Z.leb_le; lia).
    rewrite <- Hs. rewrite take_spec by lia.
    replace (size m <=? Z.of_nat (length l1)) with true
      by (symmetry; apply Z.leb_le; unfold llen in E2; cbn [length] in E2; lia).
    eexists; split; reflexivity.
Qed.

Lemma parse_prefix_rest : forall v6 t l c l2, parse_prefix v6 t l = Some (c, l2) -> exists k, l2 = skipn k l.
Proof.
  intros v6 t l c l2 Hp. unfold parse_prefix in Hp. destruct v6.
  - destruct l as [|m [|off l3]]; try discriminate.
    destruct (128 <? m); [discriminate|]. destruct (llen l3 + 1 <? size m + 1); [discriminate|].
    inversion Hp. exists (S (S (Z.to_nat (size m)))). reflexivity.
  - destruct l as [|m l1]; try discriminate.
    destruct (32 <? m); [discriminate|]. destruct (llen (m :: l1) <? size m + 1); [discriminate|].
    inversion Hp. exists (S (Z.to_nat (size m))). reflexivity.
Qed.

Lemma ref_ops_rest : forall fuel l os l2, ref_ops fuel l = inl (os, l2) -> exists k, l2 = skipn k l.
Proof.
  induction fuel as [|f IH]; intros l os l2 H; [discriminate|].
  cbn [ref_ops] in H. destruct l as [|b l1]; [discriminate|].
  destruct (take (2 ^ ((b / 16) mod 4)) l1) as [[vb l3]|] eqn:T; [|discriminate].
  unfold take in T. destruct ((0 <=? 2 ^ ((b / 16) mod 4)) && (2 ^ ((b / 16) mod 4) <=? Z.of_nat (length l1))); [|discriminate].
  inversion T; subst vb l3; clear T.
  destruct (128 <=? b).
  - inversion H; subst. exists (S (Z.to_nat (2 ^ ((b / 16) mod 4)))). reflexivity.
  - destruct (ref_ops f (skipn (Z.to_nat (2 ^ ((b / 16) mod 4))) l1)) as [[os' l4]|] eqn:R; [|discriminate].
    inversion H; subst. destruct (IH _ _ _ R) as [k Hk].
    exists (S (Z.to_nat (2 ^ ((b / 16) mod 4)) + k))%nat. cbn [skipn]. rewrite Hk.
    rewrite skipn_add. reflexivity.
Qed.

(* whatever the decoder delivers (IPv6 prefixes without offset) passes the RFC framing walk, with
   the same component types: nothing undefined, truncated or unterminated gets through *)
Lemma parse_ref_comps : forall fuel v6 l cs last, bytes_ok l ->
  parse_comps fuel v6 l = Some cs -> forallb offz cs = true ->
  exists cs', ref_comps fuel false v6 last l = COk cs' /\ map comp_ty cs' = map mty cs.
Proof.
  induction fuel as [|f IH]; intros v6 l cs last Hb Hp Hz.
  - destruct l; [|discriminate]. inversion Hp; subst. exists []. split; reflexivity.
  - destruct l as [|t l1]; [inversion Hp; subst; exists []; split; reflexivity|].
    cbn [parse_comps] in Hp. cbn [ref_comps].
    destruct (kind v6 t =? 0) eqn:K0; [discriminate|]. apply Z.eqb_neq in K0.
    destruct (kind_defined v6 t K0) as [Hd Hk]. rewrite Hd. cbn [negb andb].
    rewrite Hk in Hp. inversion Hb as [|? ? Ht Hb1]; subst.
    destruct (t <=? 2).
    + destruct (parse_prefix v6 t l1) as [[c l2]|] eqn:PP; [|discriminate].
      destruct (parse_comps f v6 l2) as [cs0|] eqn:PC; [|discriminate].
      inversion Hp; subst cs; clear Hp. cbn [forallb] in Hz. apply andb_true_iff in Hz. destruct Hz as [Hz1 Hz2].
      destruct (parse_ref_prefix v6 t l1 c l2 Hb1 PP Hz1) as (c' & RP & Ty).
      rewrite RP.
      destruct (parse_prefix_rest _ _ _ _ _ PP) as [k Hk2].
      destruct (IH v6 l2 cs0 t ltac:(subst l2; apply bytes_ok_skipn; assumption) PC Hz2) as (cs' & RC & Tys).
      rewrite RC. cbn [ccons]. eexists; split; [reflexivity|]. cbn [map]. congruence.
    + destruct (parse_ops (length l1) l1) as [[os l2]|] eqn:PO; [|discriminate].
      destruct (parse_comps f v6 l2) as [cs0|] eqn:PC; [|discriminate].
      inversion Hp; subst cs; clear Hp. cbn [forallb offz] in Hz. cbn [andb] in Hz.
      rewrite ops_agree in PO.
      destruct (ref_ops (length l1) l1) as [[os' l2']|] eqn:RO; [|discriminate].
      inversion PO; subst os' l2'; clear PO.
      destruct (ref_ops_rest _ _ _ _ RO) as [k Hk2].
      destruct (IH v6 l2 cs0 t ltac:(subst l2; apply bytes_ok_skipn; assumption) PC Hz) as (cs' & RC & Tys).
      rewrite RC. cbn [ccons]. eexists; split; [reflexivity|]. cbn [map comp_ty mty]. congruence.
Qed.
