(* C08 - malformed MP_REACH_NLRI / MP_UNREACH_NLRI on sessions of ALL eight IP families (mpls-vpn included).
   Extends Proofs_Update4.rfc7606_mp (plain families) to ip_sess.  One form is set aside and named: the 40-octet
   next hop of an mpls-vpn route (RD + global + link-local, the form ExaBGP itself wrote before RFC 4659's 48),
   which Family.size accepts on receipt although the reference does not list it (nh40_tolerated). *)
From Coq Require Import ZArith List Bool Lia.
From ExaV Require Import gen.Gen_AttrTable gen.Gen_NlriRegistry model.Model_Nlri model.Model_Update spec.Spec_Wire
  proofs.Proofs_Nlri proofs.Proofs_Update proofs.Proofs_Update2 proofs.Proofs_Update3 proofs.Proofs_Update4.
Import ListNotations.
Open Scope Z_scope.

(* ------------------------------------------------------------------ the first attribute of a code decides,
   with the well-formedness of its value handed to the step *)

Lemma parse_first_refuses_wf opq s c : c <> CODE_TREAT_AS_WITHDRAW -> c <> CODE_DISCARD -> forall fuel d l m r,
  wfb d -> tlvs fuel d = Some l -> find_raw l c = Some r ->
  (forall m0, ahas m0 c = false -> 0 <= r_flags r < 256 -> wfb (r_val r) ->
     step_refuses (step true opq s (r_flags r) c (zlen (r_val r)) (r_val r) m0)) ->
  ahas m c = false ->
  parse_refuses (parse fuel true opq s d m).
Proof.
  intros Hc1 Hc2. induction fuel as [|f IH]; intros d l m r Hw Ht Hfind Hstep Hm.
  - destruct d as [|fl [|c0 rest]]; cbn in Ht; try discriminate. injection Ht as <-. discriminate.
  - destruct d as [|fl [|c0 rest]]; cbn [tlvs] in Ht; try discriminate.
    { injection Ht as <-. discriminate. }
    apply wfb_cons_inv in Hw as [Hfl Hw]. apply wfb_cons_inv in Hw as [Hcb Hw].
    cbn [parse next_tlv]. rewrite hasbit_ext.
    destruct (if f_extended fl then match rest with h :: l0 :: r0 => Some (h * 256 + l0, r0) | _ => None end
              else match rest with l0 :: r0 => Some (l0, r0) | _ => None end) as [[len body]|] eqn:Eh; [|discriminate].
    assert (Hlb : 0 <= len /\ wfb body).
    { destruct (f_extended fl).
      - destruct rest as [|h [|l0 r0]]; try discriminate. injection Eh as <- <-.
        apply wfb_cons_inv in Hw as [Hh Hw]. apply wfb_cons_inv in Hw as [Hl0 Hw]. unfold byte in *. split; [lia|exact Hw].
      - destruct rest as [|l0 r0]; try discriminate. injection Eh as <- <-.
        apply wfb_cons_inv in Hw as [Hl0 Hw]. unfold byte in *. split; [lia|exact Hw]. }
    destruct Hlb as [Hlen Hwb].
    rewrite blen_zlen in Ht. cbn [andb].
    destruct (zlen body <? len) eqn:El; [discriminate|]. apply Z.ltb_ge in El.
    destruct (tlvs f (skipn (Z.to_nat len) body)) as [t|] eqn:Et; [|discriminate].
    injection Ht as <-.
    cbn [find_raw find r_code] in Hfind.
    destruct (c0 =? c) eqn:Ec.
    + injection Hfind as <-. cbn [r_code r_flags r_val] in *. apply Z.eqb_eq in Ec. subst c0.
      pose proof (Hstep m Hm Hfl (wfb_firstn _ _ Hwb)) as S. rewrite zlen_firstn_exact in S by lia.
      destruct (step true opq s fl c len (firstn (Z.to_nat len) body) m) as [m'| |]; cbn in *; auto.
      apply parse_keeps_taw. exact S.
    + destruct (step true opq s fl c0 len (firstn (Z.to_nat len) body) m) as [m'| |] eqn:Es; cbn; auto.
      apply (IH _ t m' r); auto.
      * apply wfb_skipn. exact Hwb.
      * apply Z.eqb_neq in Ec. rewrite (step_other_codes _ _ _ _ _ _ _ _ _ Es); auto.
Qed.

(* ------------------------------------------------------------------ the next-hop length table of the eight IP families *)

Lemma ip_cases afi safi : ip_family (afi, safi) = true ->
  (afi = 1 \/ afi = 2) /\ (safi = 1 \/ safi = 2 \/ safi = 4 \/ safi = 128).
Proof.
  unfold ip_family. cbn [fst snd]. intros H. apply andb_prop in H as [Ha Hs].
  apply orb_prop in Ha. split.
  - destruct Ha as [Ha|Ha]; apply Z.eqb_eq in Ha; auto.
  - apply orb_prop in Hs. destruct Hs as [Hs|Hs]; [apply orb_prop in Hs; destruct Hs as [Hs|Hs];
      [apply orb_prop in Hs; destruct Hs as [Hs|Hs]|]|]; apply Z.eqb_eq in Hs; auto.
Qed.

(* the one length Family.size lists beyond the reference: 40 octets for an mpls-vpn route whose next hop may be IPv6 *)
Definition nh40 (afi safi : Z) (ext : bool) (nhl : Z) : bool :=
  (safi =? 128) && (nhl =? 40) && ((afi =? 2) || ext).

Definition nh40_tolerated (s : rsess) (v : list Z) : bool :=
  match v with
  | a1 :: a0 :: safi :: nhl :: _ => nh40 (a1 * 256 + a0) safi (has_fam (rs_extnh s) (a1 * 256 + a0) safi) nhl
  | _ => false
  end.

Lemma ip_nh_table_iff s afi safi nhl : ip_family (afi, safi) = true ->
  exists lens0, family_size afi safi = Some (lens0, if safi =? 128 then 8 else 0)
    /\ zin nhl (lens0 ++ (if fam_in (s_extnh s) afi safi
                           then match family_size 2 safi with Some (l, _) => l | None => [] end else []))
       = nh_len_ok afi safi (fam_in (s_extnh s) afi safi) nhl || nh40 afi safi (fam_in (s_extnh s) afi safi) nhl.
Proof.
  intros Hp. destruct (ip_cases afi safi Hp) as [Ha Hs]. unfold nh_len_ok, nh40.
  destruct Hs as [-> | [-> | [-> | ->]]]; destruct Ha as [-> | ->]; eexists; (split; [reflexivity|]);
  destruct (fam_in (s_extnh s) _ _); cbn [family_size Z.eqb Pos.eqb andb orb app zin existsb fst];
  rewrite ?(Z.eqb_sym nhl); rewrite ?orb_false_r, ?andb_false_r, ?andb_true_r; try reflexivity;
  destruct (4 =? nhl), (12 =? nhl), (16 =? nhl), (24 =? nhl), (32 =? nhl), (40 =? nhl), (48 =? nhl); reflexivity.
Qed.

(* bytes are not negative: a sum of zero means every octet is zero (the tree tests `sum(rd) != 0`) *)
Lemma sum_zero_all_zero l : wfb l -> sumz l = 0 -> forallb (Z.eqb 0) l = true.
Proof.
  unfold sumz. induction l as [|x l IH]; cbn [forallb fold_right]; [reflexivity|]. intros Hw Hs.
  apply wfb_cons_inv in Hw as [Hx Hw].
  assert (Hnn : 0 <= fold_right Z.add 0 l).
  { clear -Hw. induction l as [|y l IH]; cbn [fold_right]; [lia|].
    apply wfb_cons_inv in Hw as [Hy Hw]. specialize (IH Hw). unfold byte in Hy. lia. }
  unfold byte in Hx. assert (x = 0) by lia. assert (fold_right Z.add 0 l = 0) by lia. subst x.
  cbn [Z.eqb andb]. apply IH; assumption.
Qed.

Lemma mp_reach_malformed_notifies_ip s v :
  ip_sess s -> wfb v -> mp_reach_malformed (rs_of s) v = true -> nh40_tolerated (rs_of s) v = false ->
  notifies (dec_mp_reach s v).
Proof.
  intros Hp Hwv H H40. unfold dec_mp_reach.
  destruct (zlen v <? 5) eqn:E5; [exact I|]. apply Z.ltb_ge in E5.
  destruct v as [|a1 [|a0 [|safi [|nhl rest]]]]; try (unfold zlen in E5; cbn [length] in E5; lia).
  cbn [nth]. unfold mp_reach_malformed in H. cbn [nh40_tolerated] in H40.
  change (has_fam (rs_fams (rs_of s)) (a1 * 256 + a0) safi) with (fam_in (s_fams s) (a1 * 256 + a0) safi) in H.
  change (has_fam (rs_extnh (rs_of s)) (a1 * 256 + a0) safi) with (fam_in (s_extnh s) (a1 * 256 + a0) safi) in H, H40.
  destruct (fam_in (s_fams s) (a1 * 256 + a0) safi) eqn:Ef; cbn [negb orb] in H |- *; [|exact I].
  pose proof (fam_in_ip s _ _ Hp Ef) as Hpl.
  assert (Hzl : zlen (a1 :: a0 :: safi :: nhl :: rest) = 4 + zlen rest) by (unfold zlen; cbn [length]; lia).
  rewrite Hzl. destruct (4 + zlen rest <? 4 + nhl + 1) eqn:E2; [exact I|]. apply Z.ltb_ge in E2.
  destruct (ip_nh_table_iff s (a1 * 256 + a0) safi nhl Hpl) as (lens0 & Hfs & Hz).
  rewrite Hfs, extnh_rule, Hz, H40, orb_false_r.
  destruct (nh_len_ok (a1 * 256 + a0) safi (fam_in (s_extnh s) (a1 * 256 + a0) safi) nhl); cbn [negb orb] in H |- *; [|exact I].
  assert (E3 : (blen rest <? nhl + 1) = false) by (apply Z.ltb_ge; unfold blen, zlen in *; lia).
  rewrite E3 in H. cbn [orb] in H.
  apply wfb_cons_inv in Hwv as [_ Hwv]. apply wfb_cons_inv in Hwv as [_ Hwv].
  apply wfb_cons_inv in Hwv as [_ Hwv]. apply wfb_cons_inv in Hwv as [_ Hwv].
  change (skipn 4 (a1 :: a0 :: safi :: nhl :: rest)) with rest.
  destruct (safi =? 128) eqn:E128.
  - cbn [Z.eqb negb andb].
    destruct (sumz (firstn 8 rest) =? 0) eqn:Esum; cbn [negb]; [|exact I].
    exfalso. apply Z.eqb_eq in Esum.
    rewrite (sum_zero_all_zero _ (wfb_firstn 8 rest Hwv) Esum) in H. discriminate.
  - exfalso. cbn in H. discriminate.
Qed.

(* one turn of the parser on a malformed MP attribute, any IP session *)
Lemma step_mp_malformed_ip opq s m f code v :
  ip_sess s -> wfb v -> (code = 14 \/ code = 15) -> 0 <= f < 256 -> ahas m code = false ->
  flags_conflict code f
  || ((code =? 14) && mp_reach_malformed (rs_of s) v) || ((code =? 15) && mp_unreach_malformed (rs_of s) v) = true ->
  (code =? 14) && nh40_tolerated (rs_of s) v = false ->
  step_refuses (step true opq s f code (zlen v) v m).
Proof.
  intros Hp Hwv Hc Hf Hm Hbad H40.
  assert (Hreg : In code registered_codes) by (destruct Hc as [-> | ->]; cbn; tauto).
  destruct (registered code (masked code f)) eqn:Hr.
  2:{ destruct Hc as [-> | ->]; (eapply step_wrong_flags; [reflexivity|exact Hm|exact Hr|reflexivity]). }
  rewrite (registered_no_conflict code f Hreg Hf Hr) in Hbad. cbn [orb] in Hbad.
  destruct Hc as [-> | ->]; cbn [Z.eqb Pos.eqb andb orb] in Hbad, H40; rewrite ?orb_false_r in Hbad;
  (erewrite step_registered; [|reflexivity|exact Hm|exact Hr]); cbn [ac_vzero ac_taw ac_discard ac_flag negb andb];
  rewrite andb_true_r; destruct (zlen v =? 0); try apply taw_refuses.
  - change (unpack_value true opq s 14 (zlen v) v) with (dec_mp_reach s v).
    pose proof (mp_reach_malformed_notifies_ip s v Hp Hwv Hbad H40) as N. destruct (dec_mp_reach s v); try contradiction. exact I.
  - change (unpack_value true opq s 15 (zlen v) v) with (dec_mp_unreach s v).
    pose proof (mp_unreach_malformed_notifies s v Hbad) as N. destruct (dec_mp_unreach s v); try contradiction. exact I.
Qed.

Theorem rfc7606_mp_ip opq s b wb ab nb l r :
  ip_sess s -> wfb b -> sections b = Some (wb, ab, nb) -> tlvs (length ab) ab = Some l ->
  find_raw l (r_code r) = Some r -> (r_code r = 14 \/ r_code r = 15) ->
  flags_conflict (r_code r) (r_flags r)
  || ((r_code r =? 14) && mp_reach_malformed (rs_of s) (r_val r))
  || ((r_code r =? 15) && mp_unreach_malformed (rs_of s) (r_val r)) = true ->
  (r_code r =? 14) && nh40_tolerated (rs_of s) (r_val r) = false ->
  (zlen b =? EOR_PREFIX_LENGTH) && is_prefix EOR_PREFIX b = false ->
  no_announce (dec_update opq s b).
Proof.
  intros Hp Hw Hs Ht Hf Hc Hbad H40 Hnm. destruct (marker_blocks b wb ab nb Hs) as [M1 M2].
  assert (Hwa : wfb ab).
  { unfold sections in Hs.
    destruct (blen b <? 4); [discriminate|]. destruct (blen b <? 4 + be16 b); [discriminate|].
    match type of Hs with (if ?c then _ else _) = _ => destruct c; [discriminate|] end.
    injection Hs as _ <- _. apply wfb_firstn. apply wfb_skipn. exact Hw. }
  apply (refuses_no_announce opq s b wb ab nb Hs).
  - apply (parse_first_refuses_wf opq s (r_code r)) with (l := l) (r := r); auto.
    + destruct Hc as [-> | ->]; discriminate.
    + destruct Hc as [-> | ->]; discriminate.
    + intros m0 Hm0 Hfl Hwv. apply step_mp_malformed_ip; auto.
  - destruct ((zlen b =? EOR_V4_LENGTH) && list_eqb b [0;0;0;0]); [|reflexivity].
    rewrite M1 in Ht by reflexivity. injection Ht as <-. discriminate.
  - exact Hnm.
Qed.

(* ------------------------------------------------------------------ the tolerated form is real: a session of
   ipv6 mpls-vpn, MP_REACH_NLRI 2/128 with Length of Next Hop 40 (RD 0 + 2001:db8::1 + fe80::1), reserved octet,
   one labelled VPN prefix: malformed for the reference's length table, decoded by the tree *)

Definition s_vpn6 : sess := mkS true [(2, 128)] [] [].
Definition v_nh40 : list Z :=
  [0;2;128;40] ++ [0;0;0;0;0;0;0;0] ++ [32;1;13;184;0;0;0;0;0;0;0;0;0;0;0;1] ++ [254;128;0;0;0;0;0;0;0;0;0;0;0;0;0;1]
  ++ [0] ++ [120; 0;0;1; 0;0;0;0;0;0;0;1; 32;1;13;184].

Lemma nh40_witness :
  mp_reach_malformed (rs_of s_vpn6) v_nh40 = true /\ nh40_tolerated (rs_of s_vpn6) v_nh40 = true
  /\ dec_mp_reach s_vpn6 v_nh40 = VOk (VBytes v_nh40).
Proof. vm_compute. repeat split. Qed.

(* non-vacuity of rfc7606_mp_ip on a VPN session: the same attribute with a non-zero RD in the next hop *)
Definition v_rd_nonzero : list Z :=
  [0;2;128;24] ++ [0;0;0;0;0;0;0;7] ++ [32;1;13;184;0;0;0;0;0;0;0;0;0;0;0;1]
  ++ [0] ++ [120; 0;0;1; 0;0;0;0;0;0;0;1; 32;1;13;184].
Definition w_vpn_rd : list Z := body_of ([128;14; zlen v_rd_nonzero] ++ v_rd_nonzero) [].

Lemma vpn_rd_witness :
  ip_sess s_vpn6 /\ ~ plain_sess s_vpn6
  /\ mp_reach_malformed (rs_of s_vpn6) v_rd_nonzero = true /\ nh40_tolerated (rs_of s_vpn6) v_rd_nonzero = false
  /\ dec_update no_opq s_vpn6 w_vpn_rd = Refused 3 0.
Proof. repeat split; try (vm_compute; reflexivity). intros H. vm_compute in H. discriminate. Qed.
