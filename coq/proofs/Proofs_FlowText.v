(* C16 - the text side: a numeric value the configuration / API parser accepts for a FlowSpec keyword
   (accept predicates regenerated from the parser sources by T9, gen/Gen_TextDomains.v) is a value
   the component's class can hold, so it is the value found in the operator list on the wire. *)
From Coq Require Import ZArith List Bool Lia.
From ExaV Require Import gen.Gen_Flow gen.Gen_TextDomains spec.Spec_Flow model.Model_Flow proofs.Proofs_Flow.
Import ListNotations.
Open Scope Z_scope.

Lemma valid_op_range : forall w a nb v, (w = 1 \/ w = 2 \/ w = 4) ->
  0 <= a <= 1 -> 0 <= nb < 16 -> 0 <= v < 256 ^ w -> valid_op w (a, nb, v) = true.
Proof.
  intros w a nb v Hw Ha Hn Hv. unfold valid_op.
  repeat (apply andb_true_iff; split); try (apply Z.leb_le; lia); try (apply Z.ltb_lt; lia).
  apply Z.ltb_lt. unfold width.
  destruct Hw as [-> | [-> | ->]]; cbn [Z.eqb Pos.eqb].
  - change (256 ^ 1) with 256 in *. lia.
  - change (256 ^ 2) with 65536 in Hv. destruct (v <? 256) eqn:E.
    + apply Z.ltb_lt in E. change (256 ^ 1) with 256. lia.
    + change (256 ^ 2) with 65536. lia.
  - change (256 ^ 4) with 4294967296 in Hv. destruct (v <? 256) eqn:E.
    + apply Z.ltb_lt in E. change (256 ^ 1) with 256. lia.
    + destruct (v <? 65536) eqn:E2.
      * apply Z.ltb_lt in E2. change (256 ^ 2) with 65536. lia.
      * change (256 ^ 4) with 4294967296. lia.
Qed.

(* `acc` = accepted in text; (v6, t) = the component the keyword builds *)
Definition text_value_ok (acc : Z -> bool) (v6 : bool) (t : Z) : Prop :=
  forall v a nb, acc v = true -> 0 <= a <= 1 -> 0 <= nb < 16 ->
    valid_op (maxw v6 t) (a, nb, v) = true.

Ltac bools H :=
  repeat match type of H with
         | _ => progress (rewrite ?andb_true_iff, ?orb_true_iff, ?negb_true_iff, ?andb_false_iff, ?orb_false_iff, ?negb_false_iff in H)
         end;
  rewrite ?Z.leb_le, ?Z.ltb_lt, ?Z.gtb_lt, ?Z.geb_le, ?Z.leb_gt, ?Z.ltb_ge in H.

Ltac field_ok accdef w :=
  intros v a nb H Ha Hn; unfold accdef in H; bools H;
  replace (maxw _ _) with w by reflexivity;
  apply valid_op_range; [auto|exact Ha|exact Hn|];
  try change (256 ^ 1) with 256; try change (256 ^ 2) with 65536; try change (256 ^ 4) with 4294967296;
  rewrite ?Z.gtb_ltb, ?Z.geb_leb, ?Z.ltb_ge, ?Z.leb_gt, ?Z.ltb_lt, ?Z.leb_le in H; lia.

Lemma text_protocol : text_value_ok accept_flow_protocol false 3.
Proof. field_ok accept_flow_protocol 1. Qed.
Lemma text_next_header : text_value_ok accept_flow_next_header true 3.
Proof. field_ok accept_flow_next_header 1. Qed.
Lemma text_port : forall v6 t, (t = 4 \/ t = 5 \/ t = 6) -> text_value_ok accept_flow_port v6 t.
Proof. intros v6 t [-> | [-> | ->]]; destruct v6; field_ok accept_flow_port 2. Qed.
Lemma text_icmp_type : forall v6, text_value_ok accept_flow_icmp_type v6 7.
Proof. destruct v6; field_ok accept_flow_icmp_type 1. Qed.
Lemma text_icmp_code : forall v6, text_value_ok accept_flow_icmp_code v6 8.
Proof. destruct v6; field_ok accept_flow_icmp_code 1. Qed.
Lemma text_packet_length : forall v6, text_value_ok accept_flow_packet_length v6 10.
Proof. destruct v6; field_ok accept_flow_packet_length 2. Qed.
Lemma text_dscp : text_value_ok accept_flow_dscp false 11.
Proof. field_ok accept_flow_dscp 1. Qed.
Lemma text_traffic_class : text_value_ok accept_flow_traffic_class true 11.
Proof. field_ok accept_flow_traffic_class 1. Qed.
Lemma text_flow_label : text_value_ok accept_flow_flow_label true 13.
Proof. field_ok accept_flow_flow_label 4. Qed.

(* an accepted value is the value on the wire: the operator octet announces the width used, that many
   octets follow and they read back (big-endian) as the value written in text *)
Lemma text_value_on_wire : forall acc v6 t, text_value_ok acc v6 t ->
  forall eol v a nb rest, acc v = true -> 0 <= a <= 1 -> 0 <= nb < 16 ->
  exists b vb, enc_op eol (maxw v6 t) (a, nb, v) = b :: vb /\
    take (2 ^ ((b / 16) mod 4)) (vb ++ rest) = Some (vb, rest) /\ be_val 0 vb = v /\
    (b / 64) mod 2 = a /\ b mod 16 = nb /\ (128 <=? b) = eol.
Proof.
  intros acc v6 t Hok eol v a nb rest Hv Ha Hn.
  destruct (ref_op_step eol (maxw v6 t) a nb v rest (Hok v a nb Hv Ha Hn)) as (b & vb & E & T & F2 & F3 & F4 & F5 & _).
  exists b, vb. auto 10.
Qed.

(* prefix lengths accepted in text are the ones the round-trip theorem needs *)
Lemma text_mask : forall m,
  (accept_flow_mask_ipv4 m = true -> 0 <= m <= 32) /\ (accept_flow_mask_ipv6 m = true -> 0 <= m <= 128).
Proof.
  intros m. split; intros H; [unfold accept_flow_mask_ipv4 in H|unfold accept_flow_mask_ipv6 in H]; bools H; lia.
Qed.

(* `mark <n>`: accepted values are the six DSCP bits, carried in the last octet of the community *)
Lemma text_mark : forall d, accept_flow_mark d = true ->
  0 <= d <= 63 /\ ref_action (AMark d) = [128; 9; 0; 0; 0; 0; 0; d] /\ enc_action (AMark d) = ref_action (AMark d).
Proof.
  intros d H. unfold accept_flow_mark in H. bools H. split; [lia|]. split; reflexivity.
Qed.
