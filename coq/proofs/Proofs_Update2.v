(* C02 - agreement of Model_Update.dec_update with the reference decoder Spec_Wire.ref_update on whole UPDATE
   bodies: value syntax of AS paths, LARGE_COMMUNITY, MP_REACH_NLRI / MP_UNREACH_NLRI framing. *)
From Coq Require Import ZArith List Bool Lia.
From ExaV Require Import gen.Gen_AttrTable gen.Gen_NlriRegistry model.Model_Nlri model.Model_Update spec.Spec_Wire
  proofs.Proofs_Nlri proofs.Proofs_Update.
Import ListNotations.
Open Scope Z_scope.

(* ------------------------------------------------------------------ AS paths *)

Lemma be_val_num : forall l acc, be_val l acc = acc * 256 ^ blen l + be_num l.
Proof.
  induction l as [|x l IH]; intros acc; cbn [be_val be_num].
  - unfold blen. cbn. lia.
  - rewrite IH. unfold blen. cbn [length]. rewrite Nat2Z.inj_succ, Z.pow_succ_r by lia. ring.
Qed.

Lemma read_asns_groups : forall n w d, (0 < w)%nat -> length d = (n * w)%nat ->
  read_asns n w d = Some (groups n w d).
Proof.
  induction n as [|n IH]; intros w d Hw Hl; cbn [read_asns groups]; [reflexivity|].
  assert (Hd : (w <= length d)%nat) by (rewrite Hl; cbn; lia).
  destruct (length d <? w)%nat eqn:E; [apply Nat.ltb_lt in E; lia|].
  rewrite (IH w (skipn w d) Hw) by (rewrite skipn_length, Hl; cbn; lia).
  destruct d as [|x d']; [cbn in Hd; lia|].
  rewrite be_val_num. cbn [Z.mul]. reflexivity.
Qed.

Lemma parse_segs_rfc fx (a4 : bool) : forall fuel d p,
  rfc_path fuel (if a4 then 4 else 2)%nat d = Some p -> parse_segs fuel fx a4 d = Some p.
Proof.
  induction fuel as [|f IH]; intros d p H.
  - destruct d; cbn in *; [exact H|discriminate].
  - destruct d as [|t [|n rest]]; cbn [rfc_path parse_segs] in *; try exact H; try discriminate.
    destruct ((t <? 1) || (4 <? t) || (n <? 1)) eqn:Et; [discriminate|].
    apply orb_false_elim in Et as [Et Hn]. apply orb_false_elim in Et as [Ht1 Ht4].
    apply Z.ltb_ge in Ht1, Ht4, Hn.
    assert (Hok : seg_type_ok t = true).
    { unfold seg_type_ok, SEG_SET, SEG_SEQUENCE, SEG_CONFED_SEQUENCE, SEG_CONFED_SET.
      assert (Hc : t = 1 \/ t = 2 \/ t = 3 \/ t = 4) by lia.
      destruct Hc as [Hc|[Hc|[Hc|Hc]]]; subst t; reflexivity. }
    rewrite Hok. cbn [negb].
    set (w := if a4 then 4%nat else 2%nat) in *.
    assert (Hw : (0 < w)%nat) by (unfold w; destruct a4; lia).
    destruct (length rest <? Z.to_nat n * w)%nat eqn:El; [discriminate|]. apply Nat.ltb_ge in El.
    destruct (rfc_path f w (skipn (Z.to_nat n * w) rest)) as [tl|] eqn:Er; [|discriminate].
    injection H as <-.
    rewrite (read_asns_groups (Z.to_nat n) w) by (auto; rewrite firstn_length; lia).
    rewrite (IH _ _ Er). reflexivity.
Qed.

Lemma dec_path_wellformed fx (a4 e4 : bool) v p :
  rfc_path (length v) (if a4 then 4 else 2)%nat v = Some p ->
  exists x, dec_path fx a4 e4 v = VOk (VPath x p).
Proof.
  intros H. unfold dec_path. destruct v as [|b v'].
  - cbn in H. injection H as <-. eexists. reflexivity.
  - rewrite (parse_segs_rfc fx a4 _ _ _ H). eexists. reflexivity.
Qed.

(* ------------------------------------------------------------------ LARGE_COMMUNITY *)

Lemma chunk_eq_agree : forall c x,
  list_eqb c x = forallb (fun p => fst p =? snd p) (combine x c) && (length x =? length c)%nat.
Proof.
  induction c as [|a c IH]; intros [|b x]; cbn [list_eqb combine forallb length Nat.eqb fst snd andb]; try reflexivity.
  rewrite IH, (Z.eqb_sym a b). apply andb_assoc.
Qed.

Lemma chunks_pieces : forall fuel n d, chunks fuel n d = pieces fuel n d.
Proof. induction fuel as [|f IH]; intros n d; cbn; [reflexivity|]. destruct d; [reflexivity|]. now rewrite IH. Qed.

Lemma dedup_uniq : forall l seen, dedup seen l = uniq seen l.
Proof.
  induction l as [|c l IH]; intros seen; cbn [dedup uniq]; [reflexivity|].
  assert (E : existsb (list_eqb c) seen =
              existsb (fun x => forallb (fun p => fst p =? snd p) (combine x c) && (length x =? length c)%nat) seen).
  { induction seen as [|x s IHs]; cbn; [reflexivity|]. now rewrite chunk_eq_agree, IHs. }
  rewrite E. rewrite !IH. reflexivity.
Qed.

Lemma dedup12_uniq v : dedup12 v = concat (uniq [] (pieces (length v) 12 v)).
Proof. unfold dedup12. now rewrite chunks_pieces, dedup_uniq. Qed.

(* ------------------------------------------------------------------ NLRI sections: the same loop on both sides *)

Lemma routes_loop : forall fuel w ap afi safi d,
  routes unpack_nlri fuel w ap afi safi d = nlri_loop fuel w ap afi safi d.
Proof.
  induction fuel as [|f IH]; intros w ap afi safi d; cbn [routes nlri_loop]; [reflexivity|].
  destruct d as [|x d']; [reflexivity|].
  destruct (unpack_nlri w ap afi safi (x :: d')) as [[n rest]|]; [|reflexivity].
  destruct (length (x :: d') <=? length rest)%nat; [reflexivity|]. now rewrite IH.
Qed.

(* ------------------------------------------------------------------ sessions of the IP families *)

Definition plain_family (f : Z * Z) : bool :=
  ((fst f =? 1) || (fst f =? 2)) && ((snd f =? 1) || (snd f =? 2) || (snd f =? 4)).
Definition plain_sess (s : sess) : Prop := forallb plain_family (s_fams s) = true.

Lemma fam_in_plain s afi safi : plain_sess s -> fam_in (s_fams s) afi safi = true -> plain_family (afi, safi) = true.
Proof.
  unfold plain_sess, fam_in. intros Hp H. apply existsb_exists in H as ([a b] & Hin & E).
  rewrite forallb_forall in Hp. specialize (Hp _ Hin). cbn [fst snd] in E.
  apply andb_prop in E as [E1 E2]. apply Z.eqb_eq in E1, E2. now subst.
Qed.

Lemma plain_cases afi safi : plain_family (afi, safi) = true ->
  (afi = 1 \/ afi = 2) /\ (safi = 1 \/ safi = 2 \/ safi = 4).
Proof.
  unfold plain_family. cbn [fst snd]. intros H. apply andb_prop in H as [Ha Hs].
  apply orb_prop in Ha. apply orb_prop in Hs. split.
  - destruct Ha as [Ha|Ha]; apply Z.eqb_eq in Ha; auto.
  - destruct Hs as [Hs|Hs]; [apply orb_prop in Hs; destruct Hs as [Hs|Hs]|]; apply Z.eqb_eq in Hs; auto.
Qed.

(* sessions of the eight IP families: the mpls-vpn ones included *)
Definition ip_family (f : Z * Z) : bool :=
  ((fst f =? 1) || (fst f =? 2)) && ((snd f =? 1) || (snd f =? 2) || (snd f =? 4) || (snd f =? 128)).
Definition ip_sess (s : sess) : Prop := forallb ip_family (s_fams s) = true.

Lemma plain_ip s : plain_sess s -> ip_sess s.
Proof.
  unfold plain_sess, ip_sess. intros H. rewrite forallb_forall in *. intros f Hf. specialize (H f Hf).
  unfold plain_family in H. unfold ip_family. apply andb_prop in H as [Ha Hs]. rewrite Ha, Hs. reflexivity.
Qed.

Lemma fam_in_ip s afi safi : ip_sess s -> fam_in (s_fams s) afi safi = true -> ip_family (afi, safi) = true.
Proof.
  unfold ip_sess, fam_in. intros Hp H. apply existsb_exists in H as ([a b] & Hin & E).
  rewrite forallb_forall in Hp. specialize (Hp _ Hin). cbn [fst snd] in E.
  apply andb_prop in E as [E1 E2]. apply Z.eqb_eq in E1, E2. now subst.
Qed.

Lemma ip_cases afi safi : ip_family (afi, safi) = true ->
  (afi = 1 \/ afi = 2) /\ (plain_family (afi, safi) = true \/ safi = 128).
Proof.
  unfold ip_family, plain_family. cbn [fst snd]. intros H. apply andb_prop in H as [Ha Hs]. split.
  - apply orb_prop in Ha. destruct Ha as [Ha|Ha]; apply Z.eqb_eq in Ha; auto.
  - rewrite Ha. cbn [andb]. apply orb_prop in Hs. destruct Hs as [Hs|Hs]; [left; exact Hs|right; now apply Z.eqb_eq].
Qed.

Lemma extnh_rule : EXTNH_PER_FAMILY = true.
Proof. reflexivity. Qed.

(* ------------------------------------------------------------------ MP_REACH_NLRI *)

Lemma skipn4 (a b c d : Z) l k : skipn (S (S (S (S k)))) (a :: b :: c :: d :: l) = skipn k l.
Proof. reflexivity. Qed.
Lemma nth4 (a b c d : Z) l k : nth (S (S (S (S k)))) (a :: b :: c :: d :: l) 0 = nth k l 0.
Proof. reflexivity. Qed.

Lemma plain_nh_table s afi safi nhl :
  plain_family (afi, safi) = true -> nh_len_ok afi safi (fam_in (s_extnh s) afi safi) nhl = true ->
  (nhl = 4 \/ nhl = 16 \/ nhl = 32)
  /\ exists lens0, family_size afi safi = Some (lens0, 0)
     /\ zin nhl (lens0 ++ (if fam_in (s_extnh s) afi safi
                           then match family_size 2 safi with Some (l, _) => l | None => [] end else [])) = true.
Proof.
  intros Hp Enh. destruct (plain_cases afi safi Hp) as [Ha Hs].
  unfold nh_len_ok in Enh.
  destruct Hs as [-> | [-> | ->]]; destruct Ha as [-> | ->]; cbn [Z.eqb Pos.eqb] in Enh;
  destruct (fam_in (s_extnh s) _ _); cbn [andb orb] in Enh;
  repeat match type of Enh with
  | _ || _ = true => apply orb_prop in Enh; destruct Enh as [Enh|Enh]
  | false = true => discriminate
  end; apply Z.eqb_eq in Enh; subst nhl; (split; [auto|]); eexists; (split; [reflexivity|reflexivity]).
Qed.

Lemma mp_reach_agree s v rts :
  plain_family (rd16 v, nth 2 v 0) = true -> mp_reach unpack_nlri (rs_of s) v = Some rts ->
  dec_mp_reach s v = VOk (VBytes v) /\ mp_reach_routes s v = Some rts.
Proof.
  intros Hpf H. destruct v as [|a1 [|a0 [|safi [|nhl rest]]]]; try discriminate.
  unfold rd16 in Hpf. cbn [nth] in Hpf.
  unfold mp_reach in H. remember (a1 * 256 + a0) as afi eqn:Eafi.
  change (has_fam (rs_fams (rs_of s)) afi safi) with (fam_in (s_fams s) afi safi) in H.
  change (has_fam (rs_extnh (rs_of s)) afi safi) with (fam_in (s_extnh s) afi safi) in H.
  change (has_fam (rs_addpath (rs_of s)) afi safi) with (fam_in (s_addpath s) afi safi) in H.
  destruct (fam_in (s_fams s) afi safi) eqn:Ef; [|discriminate]. cbn [negb] in H.
  destruct (nh_len_ok afi safi (fam_in (s_extnh s) afi safi) nhl) eqn:Enh; [|discriminate]. cbn [negb] in H.
  destruct (blen rest <? nhl + 1) eqn:Eb; [discriminate|]. apply Z.ltb_ge in Eb.
  assert (Hpl : plain_family (afi, safi) = true) by exact Hpf.
  destruct (plain_cases afi safi Hpl) as [Ha Hs].
  assert (Hrd : (if safi =? 128 then 8%nat else 0%nat) = 0%nat) by (destruct Hs as [-> | [-> | ->]]; reflexivity).
  rewrite Hrd in H. cbn [firstn forallb negb skipn] in H.
  destruct (nth (Z.to_nat nhl) rest 1 =? 0) eqn:Er; [|discriminate]. cbn [negb] in H.
  destruct (skipn (Z.to_nat nhl + 1) rest) as [|y nl] eqn:Enl; [discriminate|].
  rewrite routes_loop in H.
  destruct (plain_nh_table s afi safi nhl Hpl Enh) as (Hnh & lens0 & Hfs & Hzin).
  assert (Hn0 : 0 <= nhl) by lia.
  assert (Hlen : (Z.to_nat nhl + 1 < length rest)%nat).
  { assert (Hx : length (skipn (Z.to_nat nhl + 1) rest) <> 0%nat) by (rewrite Enl; discriminate).
    rewrite skipn_length in Hx. lia. }
  assert (Hzl : zlen (a1 :: a0 :: safi :: nhl :: rest) = 4 + zlen rest) by (unfold zlen; cbn [length]; lia).
  assert (Hzr : Z.of_nat (Z.to_nat nhl + 1) < zlen rest) by (unfold zlen; lia).
  assert (Hres : nth (Z.to_nat nhl) rest 0 = 0).
  { rewrite (nth_indep rest 0 1) by lia. now apply Z.eqb_eq. }
  split.
  - unfold dec_mp_reach. rewrite Hzl.
    change (nth 3 (a1 :: a0 :: safi :: nhl :: rest) 0) with nhl.
    replace (Z.to_nat (4 + nhl)) with (S (S (S (S (Z.to_nat nhl))))) by lia. rewrite nth4, Hres.
    cbn [nth]. rewrite <- Eafi, Ef, Hfs, extnh_rule, Hzin. cbn [negb].
    assert (E1 : (4 + zlen rest <? 5) = false) by (apply Z.ltb_ge; lia).
    assert (E2 : (4 + zlen rest <? 4 + nhl + 1) = false) by (apply Z.ltb_ge; lia).
    assert (E3 : (4 + zlen rest <=? 4 + nhl + 1) = false) by (apply Z.leb_gt; lia).
    rewrite E1, E2, E3. reflexivity.
  - unfold mp_reach_routes, rd16.
    change (nth 3 (a1 :: a0 :: safi :: nhl :: rest) 0) with nhl.
    replace (Z.to_nat (4 + nhl + 1)) with (S (S (S (S (Z.to_nat nhl + 1))))) by lia.
    cbn [nth]. rewrite <- Eafi, Hfs.
    rewrite Z.sub_0_r, Z.add_0_r.
    change (Z.to_nat 4) with 4%nat. rewrite !skipn4. cbn [skipn]. rewrite Enl. exact H.
Qed.

(* the mpls-vpn families: an 8-octet zero route distinguisher in front of the next hop (RFC 4364 / 4659) *)
Lemma zeros_sum l : forallb (Z.eqb 0) l = true -> sumz l = 0.
Proof.
  unfold sumz. induction l as [|x l IH]; cbn [forallb fold_right]; [reflexivity|]. intros H. apply andb_prop in H as [Hx Hl].
  apply Z.eqb_eq in Hx. rewrite IH by exact Hl. lia.
Qed.

Lemma vpn_nh_table s afi nhl :
  (afi = 1 \/ afi = 2) -> nh_len_ok afi 128 (fam_in (s_extnh s) afi 128) nhl = true ->
  (nhl = 12 \/ nhl = 24 \/ nhl = 48)
  /\ exists lens0, family_size afi 128 = Some (lens0, 8)
     /\ zin nhl (lens0 ++ (if fam_in (s_extnh s) afi 128
                           then match family_size 2 128 with Some (l, _) => l | None => [] end else [])) = true.
Proof.
  intros Ha Enh. unfold nh_len_ok in Enh.
  destruct Ha as [-> | ->]; cbn [Z.eqb Pos.eqb] in Enh;
  destruct (fam_in (s_extnh s) _ _); cbn [andb orb] in Enh;
  repeat match type of Enh with
  | _ || _ = true => apply orb_prop in Enh; destruct Enh as [Enh|Enh]
  | false = true => discriminate
  end; apply Z.eqb_eq in Enh; subst nhl; (split; [auto|]); eexists; (split; [reflexivity|reflexivity]).
Qed.

Lemma mp_reach_agree_vpn s v rts :
  (rd16 v = 1 \/ rd16 v = 2) -> nth 2 v 0 = 128 -> mp_reach unpack_nlri (rs_of s) v = Some rts ->
  dec_mp_reach s v = VOk (VBytes v) /\ mp_reach_routes s v = Some rts.
Proof.
  intros Ha Hsf H. destruct v as [|a1 [|a0 [|safi [|nhl rest]]]]; try discriminate.
  unfold rd16 in Ha. cbn [nth] in Ha, Hsf. subst safi.
  unfold mp_reach in H. remember (a1 * 256 + a0) as afi eqn:Eafi.
  change (has_fam (rs_fams (rs_of s)) afi 128) with (fam_in (s_fams s) afi 128) in H.
  change (has_fam (rs_extnh (rs_of s)) afi 128) with (fam_in (s_extnh s) afi 128) in H.
  change (has_fam (rs_addpath (rs_of s)) afi 128) with (fam_in (s_addpath s) afi 128) in H.
  destruct (fam_in (s_fams s) afi 128) eqn:Ef; [|discriminate]. cbn [negb] in H.
  destruct (nh_len_ok afi 128 (fam_in (s_extnh s) afi 128) nhl) eqn:Enh; [|discriminate]. cbn [negb] in H.
  destruct (blen rest <? nhl + 1) eqn:Eb; [discriminate|]. apply Z.ltb_ge in Eb.
  change (if 128 =? 128 then 8%nat else 0%nat) with 8%nat in H.
  destruct (forallb (Z.eqb 0) (firstn 8 (firstn (Z.to_nat nhl) rest))) eqn:Ez; [|discriminate]. cbn [negb] in H.
  destruct (nth (Z.to_nat nhl) rest 1 =? 0) eqn:Er; [|discriminate]. cbn [negb] in H.
  destruct (skipn (Z.to_nat nhl + 1) rest) as [|y nl] eqn:Enl; [discriminate|].
  rewrite routes_loop in H.
  destruct (vpn_nh_table s afi nhl Ha Enh) as (Hnh & lens0 & Hfs & Hzin).
  assert (Hn0 : 12 <= nhl) by lia.
  assert (Hlen : (Z.to_nat nhl + 1 < length rest)%nat).
  { assert (Hx : length (skipn (Z.to_nat nhl + 1) rest) <> 0%nat) by (rewrite Enl; discriminate).
    rewrite skipn_length in Hx. lia. }
  assert (Hzl : zlen (a1 :: a0 :: 128 :: nhl :: rest) = 4 + zlen rest) by (unfold zlen; cbn [length]; lia).
  assert (Hzr : Z.of_nat (Z.to_nat nhl + 1) < zlen rest) by (unfold zlen; lia).
  assert (Hres : nth (Z.to_nat nhl) rest 0 = 0).
  { rewrite (nth_indep rest 0 1) by lia. now apply Z.eqb_eq. }
  assert (Hrd0 : sumz (firstn 8 rest) = 0).
  { apply zeros_sum. rewrite firstn_firstn in Ez. replace (Nat.min 8 (Z.to_nat nhl)) with 8%nat in Ez by lia. exact Ez. }
  split.
  - unfold dec_mp_reach. rewrite Hzl.
    change (nth 3 (a1 :: a0 :: 128 :: nhl :: rest) 0) with nhl.
    replace (Z.to_nat (4 + nhl)) with (S (S (S (S (Z.to_nat nhl))))) by lia. rewrite nth4, Hres.
    cbn [nth]. rewrite <- Eafi, Ef, Hfs, extnh_rule, Hzin. cbn [negb].
    change (skipn 4 (a1 :: a0 :: 128 :: nhl :: rest)) with rest. rewrite Hrd0.
    assert (E1 : (4 + zlen rest <? 5) = false) by (apply Z.ltb_ge; lia).
    assert (E2 : (4 + zlen rest <? 4 + nhl + 1) = false) by (apply Z.ltb_ge; lia).
    assert (E3 : (4 + zlen rest <=? 4 + nhl + 1) = false) by (apply Z.leb_gt; lia).
    rewrite E1, E2, E3. reflexivity.
  - unfold mp_reach_routes, rd16.
    change (nth 3 (a1 :: a0 :: 128 :: nhl :: rest) 0) with nhl.
    replace (Z.to_nat (4 + nhl + 1)) with (S (S (S (S (Z.to_nat nhl + 1))))) by lia.
    cbn [nth]. rewrite <- Eafi, Hfs.
    replace (Z.to_nat (4 + 8)) with (S (S (S (S 8)))) by reflexivity.
    rewrite !skipn4. rewrite Enl.
    replace (Z.to_nat (nhl - 8)) with (Z.to_nat nhl - 8)%nat by lia.
    rewrite <- skipn_firstn_comm. exact H.
Qed.

Lemma mp_reach_agree_ip s v rts :
  ip_sess s -> mp_reach unpack_nlri (rs_of s) v = Some rts ->
  dec_mp_reach s v = VOk (VBytes v) /\ mp_reach_routes s v = Some rts.
Proof.
  intros Hp H.
  assert (Hf : fam_in (s_fams s) (rd16 v) (nth 2 v 0) = true).
  { destruct v as [|a1 [|a0 [|safi [|nhl rest]]]]; try discriminate. unfold mp_reach in H.
    change (has_fam (rs_fams (rs_of s)) (a1 * 256 + a0) safi) with (fam_in (s_fams s) (a1 * 256 + a0) safi) in H.
    unfold rd16. cbn [nth]. destruct (fam_in (s_fams s) (a1 * 256 + a0) safi); [reflexivity|discriminate]. }
  destruct (ip_cases _ _ (fam_in_ip s _ _ Hp Hf)) as [Ha [Hpl|H128]].
  - exact (mp_reach_agree s v rts Hpl H).
  - exact (mp_reach_agree_vpn s v rts Ha H128 H).
Qed.

(* ------------------------------------------------------------------ MP_UNREACH_NLRI *)

Lemma mp_unreach_agree s v afi safi ns :
  mp_unreach unpack_nlri (rs_of s) v = Some (afi, safi, ns) ->
  dec_mp_unreach s v = VOk (VBytes v) /\ mp_unreach_routes s v = Some ns /\ rd16 v = afi /\ nth 2 v 0 = safi.
Proof.
  intros H. destruct v as [|a1 [|a0 [|sf nl]]]; try discriminate.
  unfold mp_unreach in H.
  change (has_fam (rs_fams (rs_of s)) (a1 * 256 + a0) sf) with (fam_in (s_fams s) (a1 * 256 + a0) sf) in H.
  change (has_fam (rs_addpath (rs_of s)) (a1 * 256 + a0) sf) with (fam_in (s_addpath s) (a1 * 256 + a0) sf) in H.
  destruct (fam_in (s_fams s) (a1 * 256 + a0) sf) eqn:Ef; [|discriminate]. cbn [negb] in H.
  rewrite routes_loop in H.
  destruct (nlri_loop (length nl) true (fam_in (s_addpath s) (a1 * 256 + a0) sf) (a1 * 256 + a0) sf nl) eqn:El; [|discriminate].
  injection H as <- <- <-.
  unfold dec_mp_unreach, mp_unreach_routes, rd16. cbn [nth skipn]. rewrite Ef, El. cbn [negb].
  assert (E : (zlen (a1 :: a0 :: sf :: nl) <? 3) = false) by (apply Z.ltb_ge; unfold zlen; cbn [length]; lia).
  rewrite E. auto.
Qed.

(* ------------------------------------------------------------------ one attribute, every recognised type *)

(* what a well-formed attribute adds to the collection: Spec_Wire.attr_entry, plus the MP attributes (which the
   collection holds until _parse_payload pops them) *)
Definition full_entry (s : rsess) (r : raw) : list (Z * Z * sval) :=
  if (r_code r =? 14) || (r_code r =? 15) then [(r_code r, 128, SBytes (r_val r))] else attr_entry s r.

Definition full_codes : list Z := scalar_codes ++ [2; 17; 32; 14; 15].

Definition modelled (r : raw) : bool :=
  zin (r_code r) full_codes || match category_of (r_code r) with None => true | Some _ => false end.

(* the framing of the MP attributes is well-formed for the reference (their NLRI included) *)
Definition mp_ok (s : sess) (r : raw) : bool :=
  if r_code r =? 14 then match mp_reach unpack_nlri (rs_of s) (r_val r) with Some _ => true | None => false end else
  if r_code r =? 15 then match mp_unreach unpack_nlri (rs_of s) (r_val r) with Some _ => true | None => false end else
  true.

Lemma step_wellformed_all opq s other m r :
  ip_sess s ->
  attr_wellformed other (rs_of s) r = true -> modelled r = true -> mp_ok s r = true ->
  0 <= r_code r < 256 -> ahas m (r_code r) = false ->
  exists m', step true opq s (r_flags r) (r_code r) (zlen (r_val r)) (r_val r) m = SCont m'
             /\ map entry_of m' = map entry_of m ++ full_entry (rs_of s) r
             /\ (forall x, x <> r_code r -> ahas m' x = ahas m x).
Proof.
  intros Hp Hwf Hmod Hmp Hcode Hm.
  destruct (simple r) eqn:Hsi.
  { destruct (step_wellformed opq s other m r Hwf Hsi Hcode Hm) as (m' & H1 & H2 & H3).
    exists m'. split; [exact H1|]. split; [|exact H3]. rewrite H2. unfold full_entry.
    assert (E : (r_code r =? 14) || (r_code r =? 15) = false).
    { unfold simple in Hsi. destruct (r_code r =? 14) eqn:E14; [apply Z.eqb_eq in E14; rewrite E14 in Hsi; discriminate|].
      destruct (r_code r =? 15) eqn:E15; [apply Z.eqb_eq in E15; rewrite E15 in Hsi; discriminate|]. reflexivity. }
    now rewrite E. }
  destruct r as [f code v]. cbn [r_flags r_code r_val] in *.
  unfold attr_wellformed in Hwf. cbn [r_flags r_code r_val] in Hwf.
  apply andb_prop in Hwf as [Hwf Hcat]. apply andb_prop in Hwf as [Hwf Hpart].
  apply andb_prop in Hwf as [Hwf Hhi]. apply andb_prop in Hwf as [Hlow Hlo].
  assert (Hf : 0 <= f < 256) by (apply Z.leb_le in Hlo; apply Z.ltb_lt in Hhi; lia).
  unfold modelled, simple in *. cbn [r_code] in *.
  destruct (category_of code) as [cat|] eqn:Ecat; [|rewrite orb_true_r in Hsi; discriminate].
  rewrite orb_false_r in Hsi, Hmod. apply andb_prop in Hcat as [Hconf Hval].
  assert (Hc5 : code = 2 \/ code = 17 \/ code = 32 \/ code = 14 \/ code = 15).
  { unfold zin, full_codes in Hmod. rewrite existsb_app in Hmod. fold (zin code scalar_codes) in Hmod. rewrite Hsi in Hmod.
    cbn [orb existsb] in Hmod.
    destruct (Z.eqb_spec code 2); [intuition|]. destruct (Z.eqb_spec code 17); [intuition|].
    destruct (Z.eqb_spec code 32); [intuition|]. destruct (Z.eqb_spec code 14); [intuition|].
    destruct (Z.eqb_spec code 15); [intuition|]. discriminate. }
  assert (Hreg : registered code (masked code f) = true).
  { apply wellformed_registered; auto.
    - destruct Hc5 as [-> | [-> | [-> | [-> | ->]]]]; cbn; tauto.
    - unfold wf_flags. now rewrite Hlow, Hpart, Hconf. }
  apply negb_true_iff in Hval. cbn [rs_asn4 rs_of] in Hval. unfold mp_ok in Hmp. cbn [r_code r_val] in Hmp.
  destruct Hc5 as [-> | [-> | [-> | [-> | ->]]]];
  (erewrite step_registered; [|reflexivity|exact Hm|exact Hreg]); cbn [ac_vzero ac_taw ac_discard ac_flag negb andb];
  unfold full_entry, attr_entry; cbn [r_code r_val r_flags]; injection Ecat as <-; cbn [category_flags orb Z.eqb Pos.eqb].
  - (* AS_PATH *)
    rewrite andb_false_r.
    change (value_malformed other (s_asn4 s) 2 v) with
      (match rfc_path (length v) (if s_asn4 s then 4 else 2)%nat v with Some _ => false | None => true end) in Hval.
    change (unpack_value true opq s 2 (zlen v) v) with (dec_path true (s_asn4 s) false v).
    cbn [rs_asn4 rs_of].
    destruct (rfc_path (length v) (if s_asn4 s then 4 else 2)%nat v) as [p|] eqn:Ep; [|discriminate].
    destruct (dec_path_wellformed true (s_asn4 s) false v p Ep) as (x & ->).
    apply cont_add; [exact Hm|reflexivity].
  - (* AS4_PATH *)
    rewrite andb_false_r.
    change (value_malformed other (s_asn4 s) 17 v) with
      (match rfc_path (length v) 4%nat v with Some _ => false | None => true end) in Hval.
    change (unpack_value true opq s 17 (zlen v) v) with (dec_path true true true v).
    destruct (rfc_path (length v) 4%nat v) as [p|] eqn:Ep; [|discriminate].
    destruct (dec_path_wellformed true true true v p Ep) as (x & ->).
    apply cont_add; [exact Hm|reflexivity].
  - (* LARGE_COMMUNITY *)
    change (value_malformed other (s_asn4 s) 32 v) with (negb ((0 <? zlen v) && (zlen v mod 12 =? 0))) in Hval.
    apply negb_false_iff in Hval. apply andb_prop in Hval as [Hpos Hmod12].
    change (unpack_value true opq s 32 (zlen v) v) with
      (if zlen v mod 12 =? 0 then VOk (VBytes (dedup12 v)) else VNotify 3 1).
    rewrite Hmod12. apply Z.ltb_lt in Hpos.
    assert (zlen v =? 0 = false) as -> by (apply Z.eqb_neq; lia). cbn [andb].
    apply cont_add; [exact Hm|]. unfold entry_of. cbn [a_code a_flag a_val]. now rewrite dedup12_uniq.
  - (* MP_REACH_NLRI *)
    cbn [Z.eqb Pos.eqb] in Hmp.
    destruct (mp_reach unpack_nlri (rs_of s) v) as [rts|] eqn:Er; [|discriminate].
    destruct (mp_reach_agree_ip s v rts Hp Er) as [Hd _].
    change (unpack_value true opq s 14 (zlen v) v) with (dec_mp_reach s v). rewrite Hd.
    assert (zlen v =? 0 = false) as ->.
    { destruct v; [discriminate|]. apply Z.eqb_neq. unfold zlen. cbn [length]. lia. }
    cbn [andb]. apply cont_add; [exact Hm|reflexivity].
  - (* MP_UNREACH_NLRI *)
    cbn [Z.eqb Pos.eqb] in Hmp.
    destruct (mp_unreach unpack_nlri (rs_of s) v) as [[[a sf] ns]|] eqn:Er; [|discriminate].
    destruct (mp_unreach_agree s v a sf ns Er) as [Hd _].
    change (unpack_value true opq s 15 (zlen v) v) with (dec_mp_unreach s v). rewrite Hd.
    assert (zlen v =? 0 = false) as ->.
    { destruct v; [discriminate|]. apply Z.eqb_neq. unfold zlen. cbn [length]. lia. }
    cbn [andb]. apply cont_add; [exact Hm|reflexivity].
Qed.

(* ------------------------------------------------------------------ the whole attribute block *)

Lemma attrs_agree_full opq s other : ip_sess s -> forall fuel d l m,
  wfb d -> tlvs fuel d = Some l ->
  forallb (attr_wellformed other (rs_of s)) l = true -> forallb modelled l = true -> forallb (mp_ok s) l = true ->
  nodup_codes l = true ->
  (forall r, In r l -> ahas m (r_code r) = false) ->
  exists m', parse fuel true opq s d m = POk m'
    /\ map entry_of m' = map entry_of m ++ flat_map (full_entry (rs_of s)) l
    /\ (forall x, (forall r, In r l -> r_code r <> x) -> ahas m' x = ahas m x)
    /\ Forall (fun r => 0 <= r_code r < 256) l.
Proof.
  intros Hp. induction fuel as [|f IH]; intros d l m Hw Ht Hwf Hsi Hmp Hnd Hm.
  - destruct d as [|fl [|c rest]]; cbn in Ht; try discriminate. injection Ht as <-.
    exists m. cbn. rewrite app_nil_r. auto.
  - destruct d as [|fl [|c rest]]; cbn [tlvs] in Ht; try discriminate.
    { injection Ht as <-. exists m. cbn. rewrite app_nil_r. auto. }
    apply wfb_cons_inv in Hw as [Hfl Hw]. apply wfb_cons_inv in Hw as [Hcb Hw].
    cbn [parse next_tlv]. rewrite hasbit_ext.
    destruct (if f_extended fl then match rest with h :: l0 :: r0 => Some (h * 256 + l0, r0) | _ => None end
              else match rest with l0 :: r0 => Some (l0, r0) | _ => None end) as [[len body]|] eqn:Eh; [|discriminate].
    assert (Hlb : 0 <= len /\ wfb body).
    { destruct (f_extended fl).
      - destruct rest as [|h [|l0 r0]]; try discriminate. injection Eh as <- <-.
        apply wfb_cons_inv in Hw as [Hh Hw]. apply wfb_cons_inv in Hw as [Hl0 Hw]. unfold byte in *. split; [lia|exact Hw].
      - destruct rest as [|l0 r0]; try discriminate. injection Eh as <- <-.
        apply wfb_cons_inv in Hw as [Hl0 Hw]. unfold byte in *. split; [lia|exact Hw]. }
    destruct Hlb as [Hlen Hwb].
    rewrite blen_zlen in Ht. cbn [andb].
    destruct (zlen body <? len) eqn:El; [discriminate|]. apply Z.ltb_ge in El.
    destruct (tlvs f (skipn (Z.to_nat len) body)) as [t|] eqn:Et; [|discriminate].
    injection Ht as <-.
    cbn [forallb] in Hwf, Hsi, Hmp. apply andb_prop in Hwf as [Hwf0 Hwft]. apply andb_prop in Hsi as [Hsi0 Hsit].
    apply andb_prop in Hmp as [Hmp0 Hmpt].
    cbn [nodup_codes r_code] in Hnd. apply andb_prop in Hnd as [Hnd0 Hndt].
    set (r0 := mkRaw fl c (firstn (Z.to_nat len) body)) in *.
    assert (Hm0 : ahas m (r_code r0) = false) by (apply Hm; left; reflexivity).
    destruct (step_wellformed_all opq s other m r0 Hp Hwf0 Hsi0 Hmp0 Hcb Hm0) as (m1 & Hs1 & He1 & Hk1).
    cbn [r_flags r_code r_val r0] in Hs1. rewrite zlen_firstn_exact in Hs1 by lia. rewrite Hs1.
    assert (Hfresh : forall r, In r t -> r_code r <> c).
    { intros r Hr E. apply negb_true_iff in Hnd0.
      assert (existsb (fun x => r_code x =? c) t = true); [|congruence].
      apply existsb_exists. exists r. split; [exact Hr|]. now apply Z.eqb_eq. }
    destruct (IH (skipn (Z.to_nat len) body) t m1) as (m' & Hpp & He & Hk & Hb); auto.
    { apply wfb_skipn. exact Hwb. }
    { intros r Hr. rewrite Hk1 by (cbn; apply Hfresh; exact Hr). apply Hm. right. exact Hr. }
    exists m'. split; [exact Hpp|]. split; [|split].
    + rewrite He, He1. cbn [flat_map]. now rewrite <- app_assoc.
    + intros x Hx. rewrite Hk by (intros r Hr; apply Hx; right; exact Hr).
      apply Hk1. cbn. intros E. apply (Hx r0); [left; reflexivity|]. cbn. congruence.
    + constructor; [exact Hcb|exact Hb].
Qed.

(* ------------------------------------------------------------------ entries and lookups *)

Definition ecode_is (c : Z) (e : Z * Z * sval) : bool := entry_code e =? c.

Lemma entry_of_code a : entry_code (entry_of a) = a_code a.
Proof. reflexivity. Qed.

Lemma lookup_entries m c : lookup (map entry_of m) c = option_map entry_of (aget m c).
Proof.
  unfold lookup, aget. induction m as [|a m IH]; cbn [map find option_map]; [reflexivity|].
  rewrite entry_of_code. destruct (a_code a =? c); [reflexivity|exact IH].
Qed.

Lemma ahas_entries m c : ahas m c = existsb (ecode_is c) (map entry_of m).
Proof.
  unfold ahas, ecode_is. induction m as [|a m IH]; cbn [map existsb]; [reflexivity|].
  now rewrite entry_of_code, IH.
Qed.

Lemma entries_aremove m c :
  map entry_of (aremove m c) = filter (fun e => negb (entry_code e =? c)) (map entry_of m).
Proof.
  unfold aremove. induction m as [|a m IH]; cbn [map filter]; [reflexivity|].
  rewrite entry_of_code. destruct (a_code a =? c); cbn [negb map]; now rewrite IH.
Qed.

Lemma full_entry_code s r e : In e (full_entry s r) -> entry_code e = r_code r.
Proof.
  unfold full_entry, attr_entry.
  repeat match goal with
  | |- context [if ?c then _ else _] => destruct c
  | |- context [match ?x with _ => _ end] => destruct x
  end; cbn [In]; intros H; repeat destruct H as [H|H]; try contradiction; subst; reflexivity.
Qed.

Lemma lookup_app l1 l2 c :
  lookup (l1 ++ l2) c = match lookup l1 c with Some e => Some e | None => lookup l2 c end.
Proof. unfold lookup. induction l1 as [|e l1 IH]; cbn; [reflexivity|]. destruct (entry_code e =? c); auto. Qed.

Lemma lookup_none_codes l c : (forall e, In e l -> entry_code e <> c) -> lookup l c = None.
Proof.
  unfold lookup. induction l as [|e l IH]; intros H; cbn; [reflexivity|].
  destruct (Z.eqb_spec (entry_code e) c) as [E|E]; [exfalso; apply (H e); [left; reflexivity|exact E]|].
  apply IH. intros e' He'. apply H. right. exact He'.
Qed.

(* the first raw attribute with code c decides what the collection holds for c *)
Lemma lookup_full s l c : nodup_codes l = true ->
  lookup (flat_map (full_entry s) l) c =
  match find_raw l c with Some r => lookup (full_entry s r) c | None => None end.
Proof.
  unfold find_raw. induction l as [|r l IH]; intros Hnd; cbn [flat_map find]; [reflexivity|].
  cbn [nodup_codes] in Hnd. apply andb_prop in Hnd as [Hnd0 Hndt].
  rewrite lookup_app. destruct (Z.eqb_spec (r_code r) c) as [E|E].
  - destruct (lookup (full_entry s r) c) eqn:El; [reflexivity|].
    apply lookup_none_codes. intros e He. apply in_flat_map in He as (r' & Hr' & He).
    rewrite (full_entry_code s r' e He). intros E'. apply negb_true_iff in Hnd0.
    assert (existsb (fun x => r_code x =? r_code r) l = true); [|congruence].
    apply existsb_exists. exists r'. split; [exact Hr'|]. apply Z.eqb_eq. congruence.
  - rewrite (lookup_none_codes (full_entry s r) c); [exact (IH Hndt)|].
    intros e He. rewrite (full_entry_code s r e He). exact E.
Qed.
