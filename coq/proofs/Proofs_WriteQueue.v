(* The API write queue delivers the records in order, whole, once: for every history of write() calls and flushes,
   whatever the pipe accepts each time. *)
From Coq Require Import ZArith List Bool Arith Lia.
From ExaV Require Import model.Model_WriteQueue.
Import ListNotations.

(* the discipline of the tree: both put-backs go in front (fails, with the proofs below, on a tree that appends) *)
Lemma put_back_partial d q : put_back PARTIAL_FRONT d q = d :: q. Proof. reflexivity. Qed.
Lemma put_back_again d q : put_back AGAIN_FRONT d q = d :: q. Proof. reflexivity. Qed.

Lemma drain_keeps q : forall out budget sc q' out' dead' b' sc',
  drain q out budget sc = ((q', out', dead'), b', sc') ->
  exists lost, out' ++ lost = out ++ concat q /\ (dead' = false -> lost = concat q').
Proof.
  induction q as [|d q IH]; intros out budget sc q' out' dead' b' sc' H; cbn [drain] in H.
  - injection H as <- <- <- _ _. exists []. split; [reflexivity|]. reflexivity.
  - destruct budget as [|b].
    { injection H as <- <- <- _ _. exists (concat (d :: q)). split; reflexivity. }
    destruct d as [|x d].
    { apply IH in H. cbn [concat app]. exact H. }
    destruct sc as [|[n| | |] sc0].
    + injection H as <- <- <- _ _. exists (concat ((x :: d) :: q)). split; reflexivity.
    + destruct (length (x :: d) <=? n)%nat eqn:E.
      * apply IH in H. destruct H as (lost & H1 & H2). exists lost. split; [|exact H2].
        rewrite H1. cbn [concat]. now rewrite app_assoc.
      * rewrite put_back_partial in H.
        injection H as <- <- <- _ _. exists (concat (skipn n (x :: d) :: q)). split; [|reflexivity].
        cbn [concat]. rewrite <- app_assoc. f_equal. rewrite app_assoc. now rewrite firstn_skipn.
    + rewrite put_back_again in H. injection H as <- <- <- _ _. exists (concat ((x :: d) :: q)). split; reflexivity.
    + injection H as <- <- <- _ _. exists (concat ((x :: d) :: q)). split; [reflexivity|discriminate].
    + injection H as <- <- <- _ _. exists (concat ((x :: d) :: q)). split; [reflexivity|discriminate].
Qed.

(* an error-free script never deletes the queue *)
Lemma drain_alive q : forall out budget sc q' out' dead' b' sc',
  forallb error_free_outcome sc = true ->
  drain q out budget sc = ((q', out', dead'), b', sc') -> dead' = false.
Proof.
  induction q as [|d q IH]; intros out budget sc q' out' dead' b' sc' Hs H; cbn [drain] in H.
  - now injection H as _ _ <- _ _.
  - destruct budget as [|b]; [now injection H as _ _ <- _ _|].
    destruct d as [|x d]; [eapply IH; eauto|].
    destruct sc as [|[n| | |] sc0]; cbn [forallb error_free_outcome andb] in Hs; try discriminate.
    + now injection H as _ _ <- _ _.
    + destruct (length (x :: d) <=? n)%nat; [eapply IH; eauto|now injection H as _ _ <- _ _].
    + now injection H as _ _ <- _ _.
Qed.

Definition inv (s : wq) (sent : list Z) : Prop :=
  wq_dead s = false /\ wq_out s ++ concat (wq_q s) = sent.

Lemma step_inv s o sent : inv s sent -> error_free o = true ->
  inv (step s o) (sent ++ match o with Enq m => m | Flush _ _ => [] end).
Proof.
  intros [Hd Hs] He. unfold step. rewrite Hd. destruct o as [m|b sc].
  - split; [reflexivity|]. cbn [wq_q wq_out]. rewrite concat_app. cbn [concat]. rewrite app_nil_r, app_assoc. now rewrite Hs.
  - cbn [error_free] in He.
    destruct (drain (wq_q s) (wq_out s) b sc) as [[[[q' out'] dead'] b'] sc'] eqn:E.
    pose proof (drain_alive _ _ _ _ _ _ _ _ _ He E) as Hal. subst dead'.
    destruct (drain_keeps _ _ _ _ _ _ _ _ _ E) as (lost & H1 & H2). specialize (H2 eq_refl). subst lost.
    split; [reflexivity|]. cbn [wq_q wq_out]. rewrite app_nil_r. now rewrite H1.
Qed.

Lemma enqueued_app a b : enqueued (a ++ b) = enqueued a ++ enqueued b.
Proof. induction a as [|[m|bb sc] a IH]; cbn [app enqueued]; [reflexivity| |exact IH]. now rewrite IH, app_assoc. Qed.

Lemma run_inv_gen ops : forall s sent, inv s sent -> forallb error_free ops = true ->
  inv (fold_left step ops s) (sent ++ enqueued ops).
Proof.
  induction ops as [|o ops IH]; intros s sent Hi He; cbn [fold_left enqueued].
  - now rewrite app_nil_r.
  - cbn [forallb] in He. apply andb_prop in He as [Ho Hr].
    pose proof (step_inv s o sent Hi Ho) as Hi'. specialize (IH _ _ Hi' Hr).
    destruct o as [m|b sc]; cbn [enqueued]; [now rewrite app_assoc|]. now rewrite app_nil_r in IH.
Qed.

(* every history: what was delivered, followed by what is still queued, is what was written, in the order written *)
Theorem queue_in_order ops : forallb error_free ops = true ->
  wq_dead (run ops) = false /\ wq_out (run ops) ++ concat (wq_q (run ops)) = enqueued ops.
Proof.
  intros He. unfold run. assert (Hi : inv wq_init []) by (split; reflexivity).
  pose proof (run_inv_gen ops wq_init [] Hi He) as H. exact H.
Qed.

(* the helper has read a prefix of the intended stream: no record reordered, repeated, or cut elsewhere than at the end *)
Theorem delivered_is_prefix ops : forallb error_free ops = true ->
  exists rest, enqueued ops = wq_out (run ops) ++ rest.
Proof. intros He. destruct (queue_in_order ops He) as [_ H]. eexists. symmetry. exact H. Qed.

(* with errors allowed: still a prefix up to the moment the queue is deleted, nothing after it *)
Lemma drain_prefix_dead q out budget sc q' out' dead' b' sc' :
  drain q out budget sc = ((q', out', dead'), b', sc') -> exists lost, out' ++ lost = out ++ concat q.
Proof. intros H. destruct (drain_keeps _ _ _ _ _ _ _ _ _ H) as (lost & H1 & _). now exists lost. Qed.

(* a pipe that accepts everything empties the queue in ceil(n / BATCH) flushes: one flush takes min(BATCH, n) items *)
Definition generous (big n : nat) : list outcome := repeat (W big) n.

Lemma drain_generous big q : forall out budget,
  Forall (fun d => (length d <= big)%nat) q -> (length q <= budget)%nat ->
  fst (fst (drain q out budget (generous big (length q)))) = ([], out ++ concat q, false).
Proof.
  induction q as [|d q IH]; intros out budget Hf Hb; cbn [drain length generous repeat concat].
  - now rewrite app_nil_r.
  - destruct budget as [|b]; [cbn [length] in Hb; lia|].
    inversion Hf as [|? ? Hd Hq]; subst. cbn [length] in Hb.
    destruct d as [|x d].
    + cbn [app]. (* an empty record consumes quota, no write: one script entry is left over, harmless *)
      assert (G : forall k out0 budget0, (length q <= budget0)%nat ->
                 fst (fst (drain q out0 budget0 (repeat (W big) (k + length q)))) = ([], out0 ++ concat q, false)).
      { clear -Hq. induction q as [|e q IHq]; intros k out0 budget0 Hb0; cbn [drain length concat].
        - now rewrite app_nil_r.
        - destruct budget0 as [|b0]; [cbn [length] in Hb0; lia|]. cbn [length] in Hb0.
          inversion Hq as [|? ? He Hq']; subst.
          destruct e as [|y e].
          + replace (k + S (length q))%nat with (S k + length q)%nat by lia. cbn [app]. apply IHq; [exact Hq'|lia].
          + replace (k + S (length q))%nat with (S (k + length q))%nat by lia. cbn [repeat].
            assert (El : (length (y :: e) <=? big)%nat = true) by (apply Nat.leb_le; exact He).
            rewrite El. rewrite IHq; [|exact Hq'|lia]. now rewrite <- app_assoc. }
      change (W big :: repeat (W big) (length q)) with (repeat (W big) (1 + length q)).
      apply G. lia.
    + assert (El : (length (x :: d) <=? big)%nat = true) by (apply Nat.leb_le; exact Hd).
      rewrite El. fold (generous big (length q)). rewrite IH; [|exact Hq|lia]. now rewrite <- app_assoc.
Qed.

(* the seeded variant breaks the order: two records, EAGAIN on the first, then a pipe that takes everything *)
Lemma back_reorders :
  let '((q1, out1, _), _, _) := drain_back [[1%Z]; [2%Z]] [] 10 [Again] in
  let '((q2, out2, _), _, _) := drain_back q1 out1 10 [W 5; W 5] in out2 = [2%Z; 1%Z] /\ q2 = [].
Proof. vm_compute. split; reflexivity. Qed.

Lemma front_keeps :
  wq_out (run [Enq [1%Z]; Enq [2%Z]; Flush 10 [Again]; Flush 10 [W 5; W 5]]) = [1%Z; 2%Z].
Proof. vm_compute. reflexivity. Qed.
