(* C02 - the whole UPDATE body: Model_Update.dec_update = Spec_Wire.ref_update (prefix decoder: Model_Nlri, C15). *)
From Coq Require Import ZArith List Bool Lia.
From ExaV Require Import gen.Gen_AttrTable gen.Gen_NlriRegistry model.Model_Nlri model.Model_Update spec.Spec_Wire
  proofs.Proofs_Nlri proofs.Proofs_Update proofs.Proofs_Update2.
Import ListNotations.
Open Scope Z_scope.

(* ------------------------------------------------------------------ filters on entry lists *)

Definition not_code (c : Z) (e : Z * Z * sval) : bool := negb (entry_code e =? c).

Lemma filter_twice {A} (f g : A -> bool) l : filter f (filter g l) = filter (fun x => g x && f x) l.
Proof.
  induction l as [|x l IH]; cbn; [reflexivity|]. destruct (g x); cbn; [destruct (f x); now rewrite IH|exact IH].
Qed.

Lemma filter_same {A} (f g : A -> bool) l : (forall x, f x = g x) -> filter f l = filter g l.
Proof. intros H. induction l as [|x l IH]; cbn; [reflexivity|]. now rewrite H, IH. Qed.

Lemma lookup_filter (P : Z * Z * sval -> bool) l c :
  (forall e, entry_code e = c -> P e = true) -> lookup (filter P l) c = lookup l c.
Proof.
  intros H. unfold lookup. induction l as [|e l IH]; cbn; [reflexivity|].
  destruct (Z.eqb_spec (entry_code e) c) as [E|E].
  - rewrite (H e E). cbn. apply Z.eqb_eq in E. now rewrite E.
  - destruct (P e); cbn; [|exact IH]. apply Z.eqb_neq in E. now rewrite E.
Qed.

Lemma existsb_filter_out l c : existsb (ecode_is c) (filter (not_code c) l) = false.
Proof.
  unfold ecode_is, not_code. induction l as [|e l IH]; cbn; [reflexivity|].
  destruct (entry_code e =? c) eqn:E; cbn; [exact IH|]. now rewrite E.
Qed.

(* Spec_Wire.attr_entry is full_entry without the MP attributes *)
Definition nonmp (e : Z * Z * sval) : bool := not_code 15 e && not_code 14 e.

Lemma attr_entry_filter s r : category_of (r_code r) <> None \/ True ->
  attr_entry s r = filter nonmp (full_entry s r).
Proof.
  intros _. unfold full_entry.
  destruct ((r_code r =? 14) || (r_code r =? 15)) eqn:E.
  - cbn [filter]. unfold nonmp, not_code, entry_code. cbn [fst].
    apply orb_prop in E. destruct E as [E|E]; apply Z.eqb_eq in E; unfold attr_entry; rewrite E; reflexivity.
  - apply orb_false_elim in E as [E14 E15].
    assert (H : forall e, In e (attr_entry s r) -> nonmp e = true).
    { intros e He. assert (Hc : entry_code e = r_code r).
      { apply (full_entry_code s r). unfold full_entry. now rewrite E14, E15. }
      unfold nonmp, not_code. rewrite Hc, E14, E15. reflexivity. }
    induction (attr_entry s r) as [|e l IH]; cbn; [reflexivity|].
    rewrite (H e (or_introl eq_refl)). f_equal. apply IH. intros e' He'. apply H. right. exact He'.
Qed.

Lemma flat_attr_entry s l : flat_map (attr_entry s) l = filter nonmp (flat_map (full_entry s) l).
Proof.
  induction l as [|r l IH]; cbn [flat_map filter]; [reflexivity|].
  assert (F : forall (a b : list (Z * Z * sval)), filter nonmp (a ++ b) = filter nonmp a ++ filter nonmp b)
    by (induction a as [|x a IHa]; intros b; cbn; [reflexivity|]; destruct (nonmp x); cbn; now rewrite IHa).
  rewrite F, IH, (attr_entry_filter s r); auto.
Qed.

(* ------------------------------------------------------------------ AttributeCollection.unpack after the walk *)

Lemma path_lookup m c : path_of (aget m c) = path_of_entry (lookup (map entry_of m) c).
Proof.
  rewrite lookup_entries. destruct (aget m c) as [[c' fl [b|a4 p]]|]; reflexivity.
Qed.

Lemma ahas_aremove_other m c d : c <> d -> ahas (aremove m c) d = ahas m d.
Proof. intros H. now rewrite !ahas_aget, aget_aremove_other. Qed.

Lemma post_entries m0 :
  ahas m0 CODE_TREAT_AS_WITHDRAW = false ->
  exists m1, post_parse true m0 = POk m1
    /\ map entry_of (aremove (aremove m1 A_MP_UNREACH_NLRI) A_MP_REACH_NLRI)
       = reconstruct (filter nonmp (map entry_of m0))
    /\ (forall c, c <> A_AS_PATH -> c <> A_AS4_PATH -> aget m1 c = aget m0 c)
    /\ ahas m1 CODE_TREAT_AS_WITHDRAW = false.
Proof.
  intros Ht. unfold post_parse. rewrite Ht.
  change A_MP_UNREACH_NLRI with 15. change A_MP_REACH_NLRI with 14.
  set (E0 := map entry_of m0).
  assert (L2 : lookup (filter nonmp E0) 2 = option_map entry_of (aget m0 2)).
  { unfold E0. rewrite lookup_filter, lookup_entries; [reflexivity|]. intros e He. unfold nonmp, not_code. rewrite He. reflexivity. }
  assert (L17 : lookup (filter nonmp E0) 17 = option_map entry_of (aget m0 17)).
  { unfold E0. rewrite lookup_filter, lookup_entries; [reflexivity|]. intros e He. unfold nonmp, not_code. rewrite He. reflexivity. }
  unfold reconstruct. rewrite L2, L17.
  change A_AS_PATH with 2. change A_AS4_PATH with 17. rewrite !ahas_aget.
  destruct (aget m0 2) as [a2|] eqn:E2; cbn [option_map andb].
  2:{ exists m0. split; [reflexivity|]. split; [|auto].
      rewrite !entries_aremove, filter_twice. apply filter_same. intros e. reflexivity. }
  destruct (aget m0 17) as [a17|] eqn:E17; cbn [option_map andb].
  2:{ exists m0. split; [reflexivity|]. split; [|auto].
      rewrite !entries_aremove, filter_twice. apply filter_same. intros e. reflexivity. }
  set (rest := aremove (aremove m0 2) 17).
  set (mg := mkA 2 64 (merge_fixed (path_of (Some a2)) (path_of (Some a17)))).
  assert (Hr2 : ahas rest 2 = false).
  { unfold rest. rewrite ahas_aremove_other by discriminate. rewrite ahas_aget, aget_aremove_same. reflexivity. }
  exists (aadd rest mg). split; [reflexivity|]. split; [|split].
  - rewrite (aadd_new rest mg Hr2). rewrite !entries_aremove, map_app, !filter_app. unfold rest.
    rewrite !entries_aremove. fold E0. rewrite !filter_twice.
    assert (Emg : entry_of mg = (2, 64, SPath (wire_form (rfc6793 (path_of_entry (Some (entry_of a2)))
                                                                   (path_of_entry (Some (entry_of a17))))))).
    { unfold mg, entry_of. cbn [a_code a_flag a_val]. rewrite merge_fixed_rfc.
      destruct a2 as [c2 f2 [b2|x2 p2]], a17 as [c17 f17 [b17|x17 p17]]; reflexivity. }
    cbn [map filter]. rewrite Emg. cbn [entry_code fst Z.eqb Pos.eqb negb andb].
    f_equal. apply filter_same. intros e. unfold nonmp, not_code.
    destruct (entry_code e =? 2), (entry_code e =? 17), (entry_code e =? 15), (entry_code e =? 14); reflexivity.
  - intros c Hc2 Hc17. rewrite aget_aadd_other by (cbn; congruence).
    unfold rest. rewrite aget_aremove_other by congruence. apply aget_aremove_other. congruence.
  - rewrite ahas_aadd_other by discriminate. unfold rest.
    rewrite !ahas_aremove_other by discriminate. exact Ht.
Qed.

(* ------------------------------------------------------------------ values held by the collection *)

Lemma bytes_lookup_some m c fl v :
  lookup (map entry_of m) c = Some (c, fl, SBytes v) -> bytes_of (aget m c) = Some v.
Proof.
  rewrite lookup_entries. destruct (aget m c) as [[c' f' [b|a4 p]]|]; cbn; try discriminate.
  intros H. injection H as _ _ <-. reflexivity.
Qed.

Lemma bytes_lookup_none m c : lookup (map entry_of m) c = None -> bytes_of (aget m c) = None.
Proof. rewrite lookup_entries. destruct (aget m c); cbn; [discriminate|reflexivity]. Qed.

Lemma find_raw_code l c r : find_raw l c = Some r -> r_code r = c /\ In r l.
Proof.
  unfold find_raw. intros H. apply find_some in H as [Hin E]. apply Z.eqb_eq in E. auto.
Qed.

Lemma routes_nonempty : forall fuel w ap afi safi d ns,
  nlri_loop fuel w ap afi safi d = Some ns -> d <> [] -> ns <> [].
Proof.
  intros [|f] w ap afi safi d ns H Hd; destruct d as [|x d']; try congruence; cbn [nlri_loop] in H; [discriminate|].
  destruct (unpack_nlri w ap afi safi (x :: d')) as [[n rest]|]; [|discriminate].
  destruct (length (x :: d') <=? length rest)%nat; [discriminate|].
  destruct (nlri_loop f w ap afi safi rest); [|discriminate]. injection H as <-. discriminate.
Qed.

(* ------------------------------------------------------------------ _parse_payload against the reference *)

Record ref_parts (s : sess) (l : list raw) (wb nb : list Z)
                 (wd ann : list nlri) (mwd : list nlri) (mann : list (nlri * list Z)) (ufam : option (Z * Z)) : Prop := {
  rp_wd : nlri_loop (length wb) true (fam_in (s_addpath s) 1 1) 1 1 wb = Some wd;
  rp_ann : nlri_loop (length nb) false (fam_in (s_addpath s) 1 1) 1 1 nb = Some ann;
  rp_unreach : match find_raw l 15 with
               | Some r => exists a sf, mp_unreach unpack_nlri (rs_of s) (r_val r) = Some (a, sf, mwd) /\ ufam = Some (a, sf)
               | None => mwd = [] /\ ufam = None end;
  rp_reach : match find_raw l 14 with
             | Some r => mp_reach unpack_nlri (rs_of s) (r_val r) = Some mann
             | None => mann = [] end }.

Lemma payload_agree opq s other b wb ab nb l wd ann mwd mann ufam :
  ip_sess s -> wfb b ->
  sections b = Some (wb, ab, nb) -> tlvs (length ab) ab = Some l ->
  forallb (attr_wellformed other (rs_of s)) l = true -> forallb modelled l = true -> nodup_codes l = true ->
  ref_parts s l wb nb wd ann mwd mann ufam ->
  exists m1 m',
    parse_payload true opq s b =
      (Decoded (mkU (map (fun n => (n, match find_raw l 3 with Some r => r_val r | None => [] end)) ann ++ mann)
                    (wd ++ mwd) m'), m1, ab)
    /\ map entry_of m' = reconstruct (flat_map (attr_entry (rs_of s)) l)
    /\ bytes_of (aget m1 A_MP_UNREACH_NLRI) = option_map r_val (find_raw l 15)
    /\ bytes_of (aget m1 A_MP_REACH_NLRI) = option_map r_val (find_raw l 14).
Proof.
  intros Hp Hw Hs Ht Hwf Hmod Hnd [Hwd Hann Hun Hre].
  assert (Hwa : wfb ab).
  { unfold sections in Hs.
    destruct (blen b <? 4); [discriminate|]. destruct (blen b <? 4 + be16 b); [discriminate|].
    match type of Hs with (if ?c then _ else _) = _ => destruct c; [discriminate|] end.
    injection Hs as _ <- _. apply wfb_firstn. apply wfb_skipn. exact Hw. }
  (* the MP attributes are well framed for the reference *)
  assert (Hmp : forallb (mp_ok s) l = true).
  { apply forallb_forall. intros r Hr. unfold mp_ok.
    destruct (Z.eqb_spec (r_code r) 14) as [E14|E14].
    - assert (F : find_raw l 14 = Some r).
      { clear - Hr E14 Hnd. unfold find_raw. induction l as [|x l IH]; [contradiction|].
        cbn [nodup_codes] in Hnd. apply andb_prop in Hnd as [Hn0 Hnt]. cbn [find].
        destruct Hr as [->|Hr]; [apply Z.eqb_eq in E14; now rewrite E14|].
        destruct (Z.eqb_spec (r_code x) 14) as [Ex|Ex]; [|auto].
        exfalso. apply negb_true_iff in Hn0.
        assert (existsb (fun y => r_code y =? r_code x) l = true); [|congruence].
        apply existsb_exists. exists r. split; [exact Hr|]. apply Z.eqb_eq. congruence. }
      rewrite F in Hre. now rewrite Hre.
    - destruct (Z.eqb_spec (r_code r) 15) as [E15|E15]; [|reflexivity].
      assert (F : find_raw l 15 = Some r).
      { clear - Hr E15 Hnd. unfold find_raw. induction l as [|x l IH]; [contradiction|].
        cbn [nodup_codes] in Hnd. apply andb_prop in Hnd as [Hn0 Hnt]. cbn [find].
        destruct Hr as [->|Hr]; [apply Z.eqb_eq in E15; now rewrite E15|].
        destruct (Z.eqb_spec (r_code x) 15) as [Ex|Ex]; [|auto].
        exfalso. apply negb_true_iff in Hn0.
        assert (existsb (fun y => r_code y =? r_code x) l = true); [|congruence].
        apply existsb_exists. exists r. split; [exact Hr|]. apply Z.eqb_eq. congruence. }
      rewrite F in Hun. destruct Hun as (a & sf & Hu & _). now rewrite Hu. }
  destruct (attrs_agree_full opq s other Hp (length ab) ab l [] Hwa Ht Hwf Hmod Hmp Hnd (fun _ _ => eq_refl))
    as (m0 & Hparse & He0 & Hk0 & Hb0).
  cbn [map app] in He0.
  assert (Htaw : ahas m0 CODE_TREAT_AS_WITHDRAW = false).
  { rewrite Hk0; [reflexivity|]. intros r Hr E. rewrite Forall_forall in Hb0. specialize (Hb0 r Hr).
    rewrite E in Hb0. unfold CODE_TREAT_AS_WITHDRAW in Hb0. lia. }
  destruct (post_entries m0 Htaw) as (m1 & Hpost & He1 & Hsame & Htaw1).
  exists m1, (aremove (aremove m1 A_MP_UNREACH_NLRI) A_MP_REACH_NLRI).
  (* what the collection holds for NEXT_HOP and the MP attributes *)
  assert (Hval : forall c, (c = 3 \/ c = 14 \/ c = 15) ->
                 bytes_of (aget m1 c) = option_map r_val (find_raw l c)).
  { intros c Hc. rewrite Hsame by (intros ->; destruct Hc as [Hc|[Hc|Hc]]; discriminate).
    pose proof (lookup_full (rs_of s) l c Hnd) as L. rewrite <- He0 in L.
    destruct (find_raw l c) as [r|] eqn:F.
    - destruct (find_raw_code l c r F) as [Ec Hin]. cbn [option_map].
      assert (Hfe : full_entry (rs_of s) r = [(c, (if c =? 3 then 64 else 128), SBytes (r_val r))]).
      { unfold full_entry, attr_entry. rewrite Ec.
        destruct Hc as [->|[->| ->]]; reflexivity. }
      rewrite Hfe in L. unfold lookup in L at 2. cbn [find entry_code fst] in L. rewrite Z.eqb_refl in L.
      exact (bytes_lookup_some m0 c _ _ L).
    - exact (bytes_lookup_none m0 c L). }
  split; [|split; [|split]].
  - unfold parse_payload. rewrite (split_sections _ _ _ _ Hs).
    unfold unpack_attrs. rewrite Hparse, Hpost, Hwd, Hann.
    change A_NEXT_HOP with 3. change A_MP_UNREACH_NLRI with 15. change A_MP_REACH_NLRI with 14.
    rewrite (Hval 3) by auto.
    rewrite (Hval 15), (Hval 14) by auto.
    change CODE_TREAT_AS_WITHDRAW with 65535 in *. rewrite Htaw1. cbn [andb].
    assert (Enh : (match option_map r_val (find_raw l 3) with
                   | Some b0 => if (zlen b0 =? 4) || (zlen b0 =? 16) then b0 else []
                   | None => [] end) = match find_raw l 3 with Some r => r_val r | None => [] end).
    { destruct (find_raw l 3) as [r|] eqn:F; [|reflexivity]. cbn [option_map].
      destruct (find_raw_code l 3 r F) as [Ec Hin].
      rewrite forallb_forall in Hwf. specialize (Hwf r Hin). unfold attr_wellformed in Hwf. rewrite Ec in Hwf.
      apply andb_prop in Hwf as [_ Hcat]. cbn [category_of Z.eqb Pos.eqb orb] in Hcat.
      apply andb_prop in Hcat as [_ Hv]. apply negb_true_iff in Hv.
      change (value_malformed other (rs_asn4 (rs_of s)) 3 (r_val r)) with (negb (zlen (r_val r) =? 4)) in Hv.
      apply negb_false_iff in Hv. now rewrite Hv. }
    rewrite Enh.
    destruct (find_raw l 15) as [r15|] eqn:F15; cbn [option_map].
    + destruct Hun as (a & sf & Hu & _). destruct (mp_unreach_agree s (r_val r15) a sf mwd Hu) as (_ & Hur & _).
      rewrite Hur.
      destruct (find_raw l 14) as [r14|] eqn:F14; cbn [option_map].
      * destruct (mp_reach_agree_ip s (r_val r14) mann Hp Hre) as [_ Hrr]. rewrite Hrr. reflexivity.
      * subst mann. reflexivity.
    + destruct Hun as [-> _].
      destruct (find_raw l 14) as [r14|] eqn:F14; cbn [option_map].
      * destruct (mp_reach_agree_ip s (r_val r14) mann Hp Hre) as [_ Hrr]. rewrite Hrr. reflexivity.
      * subst mann. reflexivity.
  - rewrite He1, He0. now rewrite flat_attr_entry.
  - apply (Hval 15). auto.
  - apply (Hval 14). auto.
Qed.

(* ------------------------------------------------------------------ the whole body *)

Lemma mp_reach_nonempty s v mann : mp_reach unpack_nlri (rs_of s) v = Some mann -> mann <> [].
Proof.
  unfold mp_reach. destruct v as [|a1 [|a0 [|safi [|nhl rest]]]]; try discriminate.
  intros H. cbv zeta in H.
  destruct (negb (has_fam (rs_fams (rs_of s)) (a1 * 256 + a0) safi)); [discriminate H|].
  destruct (negb (nh_len_ok (a1 * 256 + a0) safi (has_fam (rs_extnh (rs_of s)) (a1 * 256 + a0) safi) nhl)); [discriminate H|].
  destruct (blen rest <? nhl + 1); [discriminate H|].
  destruct (negb (forallb (Z.eqb 0) (firstn (if safi =? 128 then 8%nat else 0%nat) (firstn (Z.to_nat nhl) rest)))); [discriminate H|].
  destruct (negb (nth (Z.to_nat nhl) rest 1 =? 0)); [discriminate H|].
  destruct (skipn (Z.to_nat nhl + 1) rest) as [|y nl] eqn:E; [discriminate H|].
  rewrite routes_loop in H.
  destruct (nlri_loop _ _ _ _ _ (y :: nl)) as [ns|] eqn:El; [|discriminate H].
  injection H as <-. pose proof (routes_nonempty _ _ _ _ _ _ _ El ltac:(discriminate)) as Hn.
  destruct ns; [congruence|discriminate].
Qed.

Definition agrees (o : outcome) (r : rres (N := nlri)) : Prop :=
  match r with
  | REor a sf => o = EndOfRib a sf
  | RUpdate u => exists u', o = Decoded u' /\ u_ann u' = ru_announced u /\ u_wd u' = ru_withdrawn u
                            /\ map entry_of (u_attrs u') = ru_attrs u
  end.

Theorem agrees_with_reference opq s other b r :
  ip_sess s -> wfb b ->
  (forall wb ab nb l, sections b = Some (wb, ab, nb) -> tlvs (length ab) ab = Some l -> forallb modelled l = true) ->
  ref_update_gen unpack_nlri other (rs_of s) b = Some r ->
  agrees (dec_update opq s b) r.
Proof.
  intros Hp Hw Hmodel H. unfold ref_update_gen in H. cbv zeta in H.
  destruct (sections b) as [[[wb ab] nb]|] eqn:Hs; [|discriminate].
  destruct (tlvs (length ab) ab) as [l|] eqn:Ht; [|discriminate].
  destruct (forallb (attr_wellformed other (rs_of s)) l) eqn:Hwf; [|discriminate].
  destruct (nodup_codes l) eqn:Hnd; [|discriminate].
  cbn [negb] in H.
  destruct (rs_asn4 (rs_of s) && existsb (fun r0 => r_code r0 =? 17) l); [discriminate H|].
  rewrite !routes_loop in H.
  change (has_fam (rs_addpath (rs_of s)) 1 1) with (fam_in (s_addpath s) 1 1) in H.
  destruct (nlri_loop (length wb) true (fam_in (s_addpath s) 1 1) 1 1 wb) as [wd|] eqn:Hwd; [|cbv iota beta in H; discriminate H].
  rewrite routes_loop in H.
  destruct (nlri_loop (length nb) false (fam_in (s_addpath s) 1 1) 1 1 nb) as [ann|] eqn:Hann; [|cbv iota beta in H; discriminate H].
  destruct (match find_raw l 15 with
            | Some r0 => match mp_unreach unpack_nlri (rs_of s) (r_val r0) with
                         | Some (a, sf, ns) => Some (Some (a, sf), ns) | None => None end
            | None => Some (None, []) end) as [[ufam mwd]|] eqn:Hun; [|cbv iota beta in H; discriminate H].
  destruct (match find_raw l 14 with Some r0 => mp_reach unpack_nlri (rs_of s) (r_val r0) | None => Some [] end)
    as [mann|] eqn:Hre; [|cbv iota beta in H; discriminate H].
  pose proof (Hmodel wb ab nb l eq_refl Ht) as Hmod.
  assert (Hparts : ref_parts s l wb nb wd ann mwd mann ufam).
  { constructor; auto.
    - destruct (find_raw l 15) as [r15|].
      + destruct (mp_unreach unpack_nlri (rs_of s) (r_val r15)) as [[[a sf] ns]|]; [|discriminate].
        injection Hun as <- <-. eauto.
      + injection Hun as <- <-. auto.
    - destruct (find_raw l 14); [exact Hre|]. now injection Hre as <-. }
  destruct (payload_agree opq s other b wb ab nb l wd ann mwd mann ufam Hp Hw Hs Ht Hwf Hmod Hnd Hparts)
    as (m1 & m' & Hpay & Hent & Hb15 & Hb14).
  set (nh := match find_raw l 3 with Some r0 => r_val r0 | None => [] end) in *.
  destruct (marker_blocks b wb ab nb Hs) as [M1 M2].
  unfold dec_update, dec_update_gen.
  (* the reference result as a function of the three lists *)
  assert (Hres : r = match map (fun n => (n, nh)) ann ++ mann, wd ++ mwd, reconstruct (flat_map (attr_entry (rs_of s)) l) with
                     | [], [], [] => match ufam with Some (a, sf) => REor a sf | None => REor 1 1 end
                     | _, _, _ => RUpdate (mkRU (map (fun n => (n, nh)) ann ++ mann) (wd ++ mwd)
                                                (reconstruct (flat_map (attr_entry (rs_of s)) l)))
                     end).
  { destruct (map (fun n => (n, nh)) ann ++ mann), (wd ++ mwd), (reconstruct (flat_map (attr_entry (rs_of s)) l));
    try (injection H as <-; reflexivity). destruct ufam as [[a sf]|]; injection H as <-; reflexivity. }
  clear H.
  destruct ((zlen b =? EOR_V4_LENGTH) && list_eqb b [0;0;0;0]) eqn:E1.
  { (* the 4-octet marker: no attribute, no route *)
    rewrite (M1 eq_refl) in Ht. injection Ht as <-.
    apply andb_prop in E1 as [_ E]. apply list_eqb_true in E. subst b. cbn in Hs. injection Hs as <- <- <-.
    cbn in Hwd, Hann. injection Hwd as <-. injection Hann as <-.
    destruct Hparts as [_ _ Hu Hr]. cbn in Hu, Hr. destruct Hu as [-> ->]. subst mann. subst r. reflexivity. }
  destruct ((zlen b =? EOR_PREFIX_LENGTH) && is_prefix EOR_PREFIX b) eqn:E2.
  { (* the 11-octet marker: one MP_UNREACH_NLRI without route *)
    clear M1 M2.
    apply andb_prop in E2 as [El Ep]. apply Z.eqb_eq in El. unfold is_prefix in Ep. apply list_eqb_true in Ep.
    unfold zlen, EOR_PREFIX_LENGTH in El.
    do 12 (destruct b as [|? b]; [cbn in El; try lia|]). 2:{ cbn [length] in El. lia. }
    cbn in Ep. injection Ep as <- <- <- <- <- <- <- <-. cbn in Hs. injection Hs as <- <- <-.
    cbn in Ht. injection Ht as <-.
    cbn in Hwd, Hann. injection Hwd as <-. injection Hann as <-.
    destruct Hparts as [_ _ Hu Hr]. cbn in Hu, Hr. destruct Hu as (a & sf & Hu & ->). subst mann.
    destruct (negb (existsb _ (s_fams s))); [discriminate Hu|]. injection Hu as <- <- <-.
    subst r. cbn. reflexivity. }
  rewrite Hpay. cbn [u_attrs u_ann u_wd].
  assert (Hnil : is_nil m' = is_nil (reconstruct (flat_map (attr_entry (rs_of s)) l))).
  { rewrite <- Hent. destruct m'; reflexivity. }
  rewrite Hnil. subst r.
  destruct (reconstruct (flat_map (attr_entry (rs_of s)) l)) as [|e T] eqn:ET; cbn [is_nil andb].
  2:{ destruct (map (fun n => (n, nh)) ann ++ mann), (wd ++ mwd); cbn; eexists; repeat split; try reflexivity; exact Hent. }
  destruct (map (fun n => (n, nh)) ann ++ mann) as [|a0 A] eqn:EA; cbn [is_nil andb].
  2:{ destruct (wd ++ mwd); cbn; eexists; repeat split; try reflexivity; exact Hent. }
  destruct (wd ++ mwd) as [|w0 W] eqn:EW; cbn [is_nil andb].
  2:{ cbn. eexists. repeat split; try reflexivity; exact Hent. }
  (* nothing at all: End-of-RIB, for the family of the (empty) MP_UNREACH_NLRI if there is one *)
  destruct Hparts as [_ _ Hu Hr].
  destruct ab as [|b0 ab'].
  { cbn in Ht. injection Ht as <-. cbn in Hu. destruct Hu as [_ ->]. reflexivity. }
  change A_MP_UNREACH_NLRI with 15 in *. change A_MP_REACH_NLRI with 14 in *.
  rewrite Hb15. destruct (find_raw l 15) as [r15|]; cbn [option_map].
  - destruct Hu as (a & sf & Hu & ->). destruct (mp_unreach_agree s (r_val r15) a sf mwd Hu) as (_ & _ & <- & <-).
    reflexivity.
  - destruct Hu as [_ ->]. rewrite Hb14. destruct (find_raw l 14) as [r14|]; cbn [option_map]; [|reflexivity].
    exfalso. apply (mp_reach_nonempty s (r_val r14) mann Hr).
    destruct (map (fun n => (n, nh)) ann); [cbn in EA; exact EA|discriminate].
Qed.
