(* C15 - attribute header and fixed-layout attribute values: the decoders of Model_NlriX invert the
   encoders of Model_Attr (the C01 model of pack_attribute). *)
From Coq Require Import ZArith List Bool Lia Arith.
From ExaV Require Import lib.ListX gen.Gen_NlriRegistry model.Model_Nlri model.Model_Attr model.Model_NlriX
  spec.Spec_Nlri proofs.Proofs_Nlri proofs.Proofs_NlriSpec proofs.Proofs_NlriX.
Import ListNotations.
Open Scope Z_scope.

(* ------------------------------------------------------------------ wider big-endian numbers *)

Lemma be_low k v : be k v = be k (v mod 256 ^ Z.of_nat k).
Proof.
  pose proof (pow256_pos k) as Hp.
  rewrite (Z.div_mod v (256 ^ Z.of_nat k)) at 1 by lia.
  rewrite (Z.mul_comm (256 ^ Z.of_nat k)). apply be_add.
Qed.

Lemma be_split a b v : be (a + b) v = be a (v / 256 ^ Z.of_nat b) ++ be b v.
Proof.
  induction a as [|a IH]; [reflexivity|].
  cbn [Nat.add be app]. f_equal; [|exact IH].
  pose proof (pow256_pos a) as Ha. pose proof (pow256_pos b) as Hb.
  rewrite Nat2Z.inj_add, Z.pow_add_r by lia.
  rewrite (Z.mul_comm (256 ^ Z.of_nat a)). rewrite Z.div_div by lia. reflexivity.
Qed.

Lemma be64_be v : be64 v = be 8 v.
Proof.
  unfold be64. rewrite !be32_be. change 8%nat with (4 + 4)%nat. rewrite be_split.
  change (256 ^ Z.of_nat 4) with 4294967296. f_equal.
  rewrite (be_low 4 v). reflexivity.
Qed.

Lemma be96_be v : be96 v = be 12 v.
Proof.
  unfold be96. rewrite be32_be, be64_be. change 12%nat with (4 + 8)%nat. rewrite be_split.
  change (256 ^ Z.of_nat 8) with 18446744073709551616. f_equal.
  rewrite (be_low 8 v). reflexivity.
Qed.

Lemma bnum_acc l a : fold_left (fun x b => x * 256 + b) l a = a * 256 ^ Z.of_nat (length l) + val l.
Proof.
  revert a. induction l as [|b r IH]; intro a; cbn [fold_left val length].
  - cbn. lia.
  - rewrite IH, pow256_succ. ring.
Qed.

Lemma bnum_val l : bnum l = val l.
Proof. unfold bnum. rewrite bnum_acc. lia. Qed.

(* ------------------------------------------------------------------ lists of w-octet numbers *)

Definition in_range (w : nat) (x : Z) : Prop := 0 <= x < 256 ^ Z.of_nat w.

Lemma flat_be_length w l : length (flat_map (be w) l) = (w * length l)%nat.
Proof. induction l as [|x l IH]; cbn [flat_map length]; [lia|]. rewrite app_length, be_length, IH. lia. Qed.

Theorem dec_nums_roundtrip : forall w l fuel,
  (0 < w)%nat -> Forall (in_range w) l -> (length (flat_map (be w) l) <= fuel)%nat ->
  dec_nums fuel w (flat_map (be w) l) = Some l.
Proof.
  intros w l. induction l as [|x l IH]; intros fuel Hw Hr Hf; [destruct fuel; reflexivity|].
  inversion Hr as [|? ? Hx Hl]; subst.
  cbn [flat_map] in *. rewrite app_length, be_length in Hf.
  destruct (be w x ++ flat_map (be w) l) as [|b0 d0] eqn:E.
  { apply (f_equal (@length Z)) in E. rewrite app_length, be_length in E. cbn in E. lia. }
  destruct fuel as [|f]; [lia|]. cbn [dec_nums]. rewrite <- E.
  assert (L : (length (be w x ++ flat_map (be w) l) <? w)%nat = false).
  { apply Nat.ltb_ge. rewrite app_length, be_length. lia. }
  rewrite L. rewrite skipn_app_exact by (symmetry; apply be_length).
  rewrite firstn_app_exact by (symmetry; apply be_length).
  rewrite IH by (try assumption; lia). rewrite bnum_val, val_be by exact Hx. reflexivity.
Qed.

Theorem dec_nums_canonical : forall w fuel d l,
  (0 < w)%nat -> wfb d -> dec_nums fuel w d = Some l -> flat_map (be w) l = d /\ Forall (in_range w) l.
Proof.
  intros w fuel. induction fuel as [|f IH]; intros d l Hw Hb H.
  - destruct d; cbn [dec_nums] in H; [|discriminate]. injection H as <-. split; [reflexivity|constructor].
  - destruct d as [|b0 d0]; cbn [dec_nums] in H.
    + injection H as <-. split; [reflexivity|constructor].
    + set (d := b0 :: d0) in *. destruct (length d <? w)%nat eqn:L; [discriminate|]. apply Nat.ltb_ge in L.
      destruct (dec_nums f w (skipn w d)) as [r|] eqn:R; [|discriminate]. injection H as <-.
      destruct (IH _ _ Hw (wfb_skipn w d Hb) R) as [E Fr].
      assert (Lf : length (firstn w d) = w) by (apply firstn_length_le; exact L).
      split.
      * cbn [flat_map]. rewrite E, bnum_val. rewrite <- Lf at 1. rewrite be_val by (apply wfb_firstn; exact Hb).
        apply firstn_skipn.
      * constructor; [|exact Fr]. unfold in_range. rewrite bnum_val.
        pose proof (val_bound (firstn w d) (wfb_firstn w d Hb)) as Vb. rewrite Lf in Vb. exact Vb.
Qed.

(* ------------------------------------------------------------------ attribute header *)

Lemma has_bit_set f : 0 <= f -> has_bit (set_bit f 16) 16 = true.
Proof.
  intro Hf. unfold set_bit. destruct (has_bit f 16) eqn:E; [exact E|].
  unfold has_bit in *. apply Z.eqb_neq in E. apply Z.eqb_eq.
  replace (f + 16) with (f + 1 * 16) by ring. rewrite Z.div_add by lia.
  pose proof (Z.mod_pos_bound (f / 16) 2 ltac:(lia)).
  rewrite <- Zplus_mod_idemp_l. replace ((f / 16) mod 2) with 0 by lia. reflexivity.
Qed.

(* the flag octet as it goes on the wire: EXTENDED_LENGTH is forced on for values above 255 octets *)
Definition flag_sent (flag : Z) (value : list Z) : Z := if 255 <? zlen value then set_bit flag 16 else flag.

Theorem tlv_roundtrip : forall flag code value rest,
  0 <= flag -> zlen value < 65536 ->
  dec_tlv (tlv_raw flag code value ++ rest) = Some (flag_sent flag value, code, value, rest).
Proof.
  intros flag code value rest Hf Hl. unfold tlv_raw. fold (flag_sent flag value).
  pose proof (zlen_nonneg value) as Hz.
  assert (N : Z.to_nat (zlen value) = length value) by (unfold zlen; apply Nat2Z.id).
  destruct (has_bit (flag_sent flag value) 16) eqn:E.
  - cbn [app dec_tlv]. rewrite E.
    change (be16 (zlen value) ++ value) with (be16 (zlen value) ++ value).
    rewrite <- app_assoc.
    assert (L2 : (length (be16 (zlen value) ++ value ++ rest) <? 2)%nat = false).
    { apply Nat.ltb_ge. rewrite app_length, be16_length. lia. }
    rewrite L2. rewrite rd16_be16 by lia.
    rewrite (skipn_app_exact (be16 (zlen value))) by reflexivity.
    assert (L : (zlen (value ++ rest) <? zlen value) = false).
    { apply Z.ltb_ge. rewrite zlen_app. pose proof (zlen_nonneg rest). lia. }
    rewrite L, N. rewrite firstn_app_exact, skipn_app_exact by reflexivity. reflexivity.
  - assert (Hs : zlen value <= 255).
    { unfold flag_sent in E. destruct (255 <? zlen value) eqn:C; [|lia]. rewrite has_bit_set in E by exact Hf. discriminate. }
    cbn [app dec_tlv]. rewrite E.
    assert (L : (zlen (value ++ rest) <? zlen value) = false).
    { apply Z.ltb_ge. rewrite zlen_app. pose proof (zlen_nonneg rest). lia. }
    rewrite L, N. rewrite firstn_app_exact, skipn_app_exact by reflexivity. reflexivity.
Qed.

(* encode (decode b) = b for every attribute the header walk accepts *)
Theorem tlv_canonical : forall d flag code value rest,
  wfb d -> dec_tlv d = Some (flag, code, value, rest) ->
  (has_bit flag 16 = true -> 255 < zlen value) ->
  tlv_raw flag code value ++ rest = d.
Proof.
  intros d flag code value rest Hb H Hmin. unfold dec_tlv in H.
  destruct d as [|f0 [|c0 d1]]; try discriminate.
  assert (Hb1 : wfb d1). { inversion Hb as [|? ? _ H1]; subst. inversion H1; assumption. }
  destruct (has_bit f0 16) eqn:E.
  - destruct (length d1 <? 2)%nat eqn:L2; [discriminate|]. apply Nat.ltb_ge in L2.
    destruct (zlen (skipn 2 d1) <? rd16 d1) eqn:L; [discriminate|]. apply Z.ltb_ge in L.
    assert (Q : f0 = flag /\ c0 = code /\ firstn (Z.to_nat (rd16 d1)) (skipn 2 d1) = value
                /\ skipn (Z.to_nat (rd16 d1)) (skipn 2 d1) = rest) by (repeat split; congruence).
    destruct Q as [<- [<- [Ev Er]]].
    destruct d1 as [|a [|b t]]; cbn [length] in L2; try lia.
    pose proof (Forall_inv Hb1) as Ha. pose proof (Forall_inv (Forall_inv_tail Hb1)) as Hbb.
    assert (R : 0 <= rd16 (a :: b :: t)) by (unfold rd16, byte in *; cbn [nth]; lia).
    assert (Lv : zlen value = rd16 (a :: b :: t)).
    { rewrite <- Ev. unfold zlen in *. rewrite firstn_length_le by lia. lia. }
    unfold tlv_raw. specialize (Hmin E).
    assert (C : (255 <? zlen value) = true) by (apply Z.ltb_lt; lia). rewrite C.
    assert (S : set_bit f0 16 = f0) by (unfold set_bit; rewrite E; reflexivity). rewrite S, E.
    cbn [app]. f_equal. f_equal. rewrite Lv, be16_rd16 by assumption. cbn [app]. f_equal. f_equal.
    rewrite <- Ev, <- Er. apply firstn_skipn.
  - destruct d1 as [|len d2]; [discriminate|].
    destruct (zlen d2 <? len) eqn:L; [discriminate|]. apply Z.ltb_ge in L.
    assert (Q : f0 = flag /\ c0 = code /\ firstn (Z.to_nat len) d2 = value /\ skipn (Z.to_nat len) d2 = rest)
      by (repeat split; congruence).
    destruct Q as [<- [<- [Ev Er]]].
    assert (Hlen : 0 <= len < 256) by (exact (Forall_inv Hb1)).
    assert (Lv : zlen value = len).
    { rewrite <- Ev. unfold zlen in *. rewrite firstn_length_le by lia. lia. }
    unfold tlv_raw.
    assert (C : (255 <? zlen value) = false) by (apply Z.ltb_ge; lia). rewrite C, E, Lv.
    cbn [app]. f_equal. f_equal. f_equal. rewrite <- Ev, <- Er. apply firstn_skipn.
Qed.

(* ------------------------------------------------------------------ the attributes of Model_Attr.pack_item *)

Lemma flat_be32 l : flat_map be32 l = flat_map (be 4) l.
Proof. induction l as [|x l IH]; cbn [flat_map]; [reflexivity|]. rewrite be32_be, IH. reflexivity. Qed.
Lemma flat_be64 l : flat_map be64 l = flat_map (be 8) l.
Proof. induction l as [|x l IH]; cbn [flat_map]; [reflexivity|]. rewrite be64_be, IH. reflexivity. Qed.
Lemma flat_be96 l : flat_map be96 l = flat_map (be 12) l.
Proof. induction l as [|x l IH]; cbn [flat_map]; [reflexivity|]. rewrite be96_be, IH. reflexivity. Qed.

Lemma ins_forall (P : Z -> Prop) x l : P x -> Forall P l -> Forall P (ins x l).
Proof.
  intros Hx Hl. induction l as [|y l IH]; cbn [ins]; [repeat constructor; exact Hx|].
  inversion Hl; subst. destruct (x <? y); constructor; auto.
Qed.

Lemma csort_forall (P : Z -> Prop) l : Forall P l -> Forall P (csort l).
Proof.
  unfold csort. assert (G : forall l acc, Forall P l -> Forall P acc -> Forall P (fold_left (fun acc x => ins x acc) l acc)).
  { induction l0 as [|x l0 IH]; intros acc Hl Ha; cbn [fold_left]; [exact Ha|].
    inversion Hl; subst. apply IH; [assumption|apply ins_forall; assumption]. }
  intro H. apply G; [exact H|constructor].
Qed.

Lemma csort_nodup_forall (P : Z -> Prop) l : Forall P l -> Forall P (csort_nodup l).
Proof.
  unfold csort_nodup.
  assert (G : forall l acc, Forall P l -> Forall P acc ->
              Forall P (fold_left (fun acc x => if existsb (Z.eqb x) acc then acc else ins x acc) l acc)).
  { induction l0 as [|x l0 IH]; intros acc Hl Ha; cbn [fold_left]; [exact Ha|].
    inversion Hl; subst. apply IH; [assumption|]. destruct (existsb (Z.eqb x) acc); [exact Ha|apply ins_forall; assumption]. }
  intro H. apply G; [exact H|constructor].
Qed.

(* one statement for the four list-valued attributes: header and value decode back to what was packed *)
Theorem nums_attr_roundtrip : forall flag code w l rest,
  0 <= flag -> (0 < w)%nat -> l <> [] -> Forall (in_range w) l -> Z.of_nat (w * length l) < 65536 ->
  let value := flat_map (be w) l in
  dec_tlv (attr_tlv flag code value ++ rest) = Some (flag_sent flag value, code, value, rest)
  /\ dec_nums (length value) w value = Some l.
Proof.
  intros flag code w l rest Hf Hw Hne Hr Hlen value.
  assert (Lv : length value = (w * length l)%nat) by apply flat_be_length.
  split.
  - unfold attr_tlv.
    assert (N : is_nil value = false).
    { destruct value eqn:E; [|reflexivity]. destruct l; [congruence|]. cbn [length] in Lv. nia. }
    rewrite N, andb_false_r. apply tlv_roundtrip; [exact Hf|]. unfold zlen. rewrite Lv. exact Hlen.
  - apply dec_nums_roundtrip; [exact Hw|exact Hr|apply Nat.le_refl].
Qed.

Theorem community_roundtrip : forall s vs rest,
  vs <> [] -> Forall (in_range 4) vs -> Z.of_nat (4 * length (csort vs)) < 65536 -> csort vs <> [] ->
  exists value, dec_tlv (pack_item s (ICommunity vs) ++ rest) = Some (flag_sent 192 value, 8, value, rest)
                /\ dec_community value = Some (csort vs).
Proof.
  intros s vs rest _ Hr Hl Hne. cbn [pack_item]. rewrite flat_be32.
  exists (flat_map (be 4) (csort vs)).
  apply (nums_attr_roundtrip 192 8 4 (csort vs) rest); try assumption; try lia. apply csort_forall. exact Hr.
Qed.

Theorem cluster_roundtrip : forall s ids rest,
  ids <> [] -> Forall (in_range 4) ids -> Z.of_nat (4 * length ids) < 65536 ->
  exists value, dec_tlv (pack_item s (ICluster ids) ++ rest) = Some (flag_sent 128 value, 10, value, rest)
                /\ dec_cluster value = Some ids.
Proof.
  intros s ids rest Hne Hr Hl. cbn [pack_item]. rewrite flat_be32.
  exists (flat_map (be 4) ids). apply (nums_attr_roundtrip 128 10 4 ids rest); try assumption; lia.
Qed.

Theorem extended_roundtrip : forall s vs rest,
  Forall (in_range 8) vs -> Z.of_nat (8 * length (csort vs)) < 65536 -> csort vs <> [] ->
  exists value, dec_tlv (pack_item s (IExtended vs) ++ rest) = Some (flag_sent 192 value, 16, value, rest)
                /\ dec_extended value = Some (csort vs).
Proof.
  intros s vs rest Hr Hl Hne. cbn [pack_item]. rewrite flat_be64.
  exists (flat_map (be 8) (csort vs)).
  apply (nums_attr_roundtrip 192 16 8 (csort vs) rest); try assumption; try lia. apply csort_forall. exact Hr.
Qed.

Theorem large_roundtrip : forall s vs rest,
  Forall (in_range 12) vs -> Z.of_nat (12 * length (csort_nodup vs)) < 65536 -> csort_nodup vs <> [] ->
  exists value, dec_tlv (pack_item s (ILarge vs) ++ rest) = Some (flag_sent 192 value, 32, value, rest)
                /\ dec_large value = Some (csort_nodup vs).
Proof.
  intros s vs rest Hr Hl Hne. cbn [pack_item]. rewrite flat_be96.
  exists (flat_map (be 12) (csort_nodup vs)).
  apply (nums_attr_roundtrip 192 32 12 (csort_nodup vs) rest); try assumption; try lia. apply csort_nodup_forall. exact Hr.
Qed.

Theorem originator_roundtrip : forall s ip rest,
  length ip = 4%nat ->
  dec_tlv (pack_item s (IOriginator ip) ++ rest) = Some (128, 9, ip, rest) /\ dec_originator ip = Some ip.
Proof.
  intros s ip rest H. cbn [pack_item]. unfold attr_tlv.
  assert (N : is_nil ip = false) by (destruct ip; [discriminate|reflexivity]).
  rewrite N, andb_false_r. split.
  - rewrite tlv_roundtrip; [|lia|unfold zlen; rewrite H; reflexivity].
    unfold flag_sent, zlen. rewrite H. reflexivity.
  - unfold dec_originator. rewrite H. reflexivity.
Qed.

(* AGGREGATOR on a 4-byte session, on a 2-byte session with a 2-byte AS, and the AS_TRANS + AS4_AGGREGATOR
   pair a 2-byte session gets for a 4-byte AS *)
Theorem aggregator_roundtrip : forall asn ip rest,
  length ip = 4%nat -> 0 <= asn < 4294967296 ->
  (dec_tlv (pack_aggregator true asn ip ++ rest) = Some (192, 7, be32 asn ++ ip, rest)
   /\ dec_aggregator true (be32 asn ++ ip) = Some (asn, ip))
  /\ (asn <= 65535 ->
      dec_tlv (pack_aggregator false asn ip ++ rest) = Some (192, 7, be16 asn ++ ip, rest)
      /\ dec_aggregator false (be16 asn ++ ip) = Some (asn, ip))
  /\ (65535 < asn ->
      dec_tlv (pack_aggregator false asn ip ++ rest)
        = Some (192, 7, be16 AS_TRANS ++ ip, attr_tlv 192 18 (be32 asn ++ ip) ++ rest)
      /\ dec_tlv (attr_tlv 192 18 (be32 asn ++ ip) ++ rest) = Some (192, 18, be32 asn ++ ip, rest)
      /\ dec_aggregator false (be16 AS_TRANS ++ ip) = Some (AS_TRANS, ip)
      /\ dec_aggregator true (be32 asn ++ ip) = Some (asn, ip)).
Proof.
  intros asn ip rest Hip Hasn.
  assert (T : forall (v : list Z) c r, (0 < length v)%nat -> zlen v <= 255 ->
              dec_tlv (attr_tlv 192 c v ++ r) = Some (192, c, v, r)).
  { intros v c r Hv Hz. unfold attr_tlv. assert (N : is_nil v = false) by (destruct v; [cbn in Hv; lia|reflexivity]).
    rewrite N, andb_false_r. rewrite tlv_roundtrip by lia. unfold flag_sent.
    assert (C : (255 <? zlen v) = false) by (apply Z.ltb_ge; lia). rewrite C. reflexivity. }
  assert (L8 : length (be32 asn ++ ip) = 8%nat) by (rewrite app_length, be32_length, Hip; reflexivity).
  assert (D4 : dec_aggregator true (be32 asn ++ ip) = Some (asn, ip)).
  { unfold dec_aggregator. rewrite L8. cbn [Nat.eqb]. rewrite rd32_be32 by exact Hasn.
    rewrite (skipn_app_exact (be32 asn)) by reflexivity. reflexivity. }
  assert (D2 : forall a, 0 <= a < 65536 -> dec_aggregator false (be16 a ++ ip) = Some (a, ip)).
  { intros a Ha. unfold dec_aggregator.
    assert (L6 : length (be16 a ++ ip) = 6%nat) by (rewrite app_length, be16_length, Hip; reflexivity).
    rewrite L6. cbn [Nat.eqb]. rewrite rd16_be16 by exact Ha. rewrite (skipn_app_exact (be16 a)) by reflexivity. reflexivity. }
  split; [|split].
  - split; [|exact D4]. unfold pack_aggregator. apply T; [rewrite L8; lia|unfold zlen; rewrite L8; lia].
  - intro Hs. split; [|apply D2; lia]. unfold pack_aggregator.
    assert (C : (65535 <? asn) = false) by (apply Z.ltb_ge; lia). rewrite C.
    apply T; unfold zlen; rewrite app_length, be16_length, Hip; cbn; lia.
  - intro Hb. unfold pack_aggregator.
    assert (C : (65535 <? asn) = true) by (apply Z.ltb_lt; lia). rewrite C.
    split; [|split; [|split]].
    + rewrite <- app_assoc. apply T; unfold zlen; rewrite app_length, be16_length, Hip; cbn; lia.
    + apply T; [rewrite L8; lia|unfold zlen; rewrite L8; lia].
    + apply D2. unfold AS_TRANS. lia.
    + exact D4.
Qed.

(* ------------------------------------------------------------------ non-vacuity *)

Lemma ex_vpls_ok :
  wf_vpls (mkV [0;0;253;232;0;0;0;1] 5 1 8 10702)
  /\ make_vpls (mkV [0;0;253;232;0;0;0;1] 5 1 8 10702) = [0;17;0;0;253;232;0;0;0;1;0;5;0;1;0;8;2;156;225].
Proof. split; [constructor; cbn; try reflexivity; lia|vm_compute; reflexivity]. Qed.
