From Coq Require Import ZArith Bool List Arith Lia.
From ExaV Require Import lib.ListX gen.Gen_Header model.Model_Reader spec.Spec_Frame.
Import ListNotations.
Open Scope Z_scope.

(* ---------------------------------------------------------------- read_exact *)

Lemma read_loop_spec : forall fuel need stream sched acc,
  (need <= fuel)%nat ->
  if (need <=? length stream)%nat
  then exists sched', read_loop fuel need stream sched acc
                      = Some (acc ++ firstn need stream, skipn need stream, sched')
  else read_loop fuel need stream sched acc = None.
Proof.
  induction fuel as [|fuel IH]; intros need stream sched acc Hle.
  - assert (need = 0%nat) by lia; subst need. simpl. exists sched. now rewrite app_nil_r.
  - destruct need as [|n].
    + simpl. exists sched. now rewrite app_nil_r.
    + destruct stream as [|x xs].
      * simpl. reflexivity.
      * cbn [read_loop].
        set (stream := x :: xs).
        set (offer := match sched with [] => S n | k :: _ => Nat.min (S k) (S n) end).
        set (got := Nat.min offer (length stream)).
        assert (Hoff : (1 <= offer <= S n)%nat).
        { unfold offer. destruct sched; lia. }
        assert (Hlen : (1 <= length stream)%nat) by (unfold stream; simpl; lia).
        assert (Hgot : (1 <= got <= S n)%nat) by (unfold got; lia).
        assert (Hgl : (got <= length stream)%nat) by (unfold got; lia).
        specialize (IH (S n - got)%nat (skipn got stream) (tl sched) (acc ++ firstn got stream)).
        assert (Hfu : (S n - got <= fuel)%nat) by lia.
        specialize (IH Hfu).
        rewrite skipn_length in IH.
        destruct (Nat.leb_spec (S n) (length stream)) as [Hin|Hout].
        -- assert (Hc : (S n - got <=? length stream - got)%nat = true) by (apply Nat.leb_le; lia).
           rewrite Hc in IH. destruct IH as [sched' IH]. exists sched'. rewrite IH.
           assert (E : firstn (S n) stream = firstn (got + (S n - got)) stream) by (f_equal; lia).
           assert (E' : skipn (S n) stream = skipn (got + (S n - got)) stream) by (f_equal; lia).
           rewrite E, E'.
           rewrite (firstn_add got (S n - got)), (skipn_add got (S n - got)), app_assoc. reflexivity.
        -- assert (Hc : (S n - got <=? length stream - got)%nat = false) by (apply Nat.leb_gt; lia).
           rewrite Hc in IH. exact IH.
Qed.

Lemma read_exact_some : forall need stream sched,
  (need <= length stream)%nat ->
  exists sched', read_exact need stream sched = Some (firstn need stream, skipn need stream, sched').
Proof.
  intros need stream sched H. unfold read_exact.
  pose proof (read_loop_spec need need stream sched [] (le_n _)) as L.
  apply Nat.leb_le in H. rewrite H in L. exact L.
Qed.

Lemma read_exact_none : forall need stream sched,
  (length stream < need)%nat -> read_exact need stream sched = None.
Proof.
  intros need stream sched H. unfold read_exact.
  pose proof (read_loop_spec need need stream sched [] (le_n _)) as L.
  apply Nat.leb_gt in H. rewrite H in L. exact L.
Qed.

(* ---------------------------------------------------------------- header check *)

Lemma sync_is_async : forall hb m max, check_header_sync hb m max = check_header_async hb m max.
Proof. intros. reflexivity. Qed.

Lemma pick_async : forall (async : bool) hb m max,
  (if async then check_header_async hb m max else check_header_sync hb m max) = check_header_async hb m max.
Proof. intros [|] hb m max; [reflexivity|apply sync_is_async]. Qed.

Lemma list_eqb_marker : forall l, length l = 16%nat -> list_eqb l MARKER = all_ff l.
Proof.
  intros l H. unfold MARKER.
  do 17 (destruct l as [|? l]; [try discriminate H|]); try discriminate H.
  cbn [list_eqb all_ff forallb].
  repeat rewrite (Z.eqb_sym 255). rewrite !andb_true_r. reflexivity.
Qed.

Lemma length_ok_rfc : forall ty len, known_type ty = true -> length_ok ty len = rfc_len_ok ty len.
Proof.
  intros ty len H. unfold known_type in H. apply andb_prop in H. destruct H as [H1 H2].
  apply Z.leb_le in H1. apply Z.leb_le in H2.
  assert (ty = 1 \/ ty = 2 \/ ty = 3 \/ ty = 4 \/ ty = 5 \/ ty = 6) as Hc by lia.
  unfold length_ok, rfc_len_ok.
  destruct Hc as [->|[->|[->|[->|[->| ->]]]]]; cbn [Z.eqb Pos.eqb];
    rewrite ?Z.geb_leb; reflexivity.
Qed.

Lemma length_ok_unknown : forall ty len, known_type ty = false -> length_ok ty len = rfc_len_ok ty len.
Proof.
  intros ty len H. unfold known_type in H. apply andb_false_iff in H.
  unfold length_ok, rfc_len_ok.
  destruct H as [H|H]; [apply Z.leb_gt in H|apply Z.leb_gt in H].
  - destruct ty; try lia; cbn [Z.eqb]; rewrite ?Z.geb_leb; reflexivity.
  - destruct (ty =? 1) eqn:E1; [apply Z.eqb_eq in E1; lia|].
    destruct (ty =? 2) eqn:E2; [apply Z.eqb_eq in E2; lia|].
    destruct (ty =? 3) eqn:E3; [apply Z.eqb_eq in E3; lia|].
    destruct (ty =? 4) eqn:E4; [apply Z.eqb_eq in E4; lia|].
    destruct (ty =? 5) eqn:E5; [apply Z.eqb_eq in E5; lia|].
    rewrite Z.geb_leb.
    destruct ty as [|p|p]; try reflexivity.
    do 3 (destruct p as [p|p|]; try reflexivity; try lia).
Qed.

Lemma length_ok_is_rfc : forall ty len, length_ok ty len = rfc_len_ok ty len.
Proof.
  intros. destruct (known_type ty) eqn:K; [now apply length_ok_rfc|now apply length_ok_unknown].
Qed.

(* which types reach a decoder: exactly the RFC ones (plus OPERATIONAL) *)
Lemma deliver_type : forall ty,
  (mem ty MESSAGES && mem ty REGISTERED) = known_type ty.
Proof.
  intros ty. unfold mem, MESSAGES, REGISTERED, known_type. cbn [existsb].
  destruct (ty =? 1) eqn:E1; [apply Z.eqb_eq in E1; subst; reflexivity|].
  destruct (ty =? 2) eqn:E2; [apply Z.eqb_eq in E2; subst; reflexivity|].
  destruct (ty =? 3) eqn:E3; [apply Z.eqb_eq in E3; subst; reflexivity|].
  destruct (ty =? 4) eqn:E4; [apply Z.eqb_eq in E4; subst; reflexivity|].
  destruct (ty =? 5) eqn:E5; [apply Z.eqb_eq in E5; subst; reflexivity|].
  destruct (ty =? 6) eqn:E6; [apply Z.eqb_eq in E6; subst; reflexivity|].
  apply Z.eqb_neq in E1, E2, E3, E4, E5, E6.
  rewrite !orb_false_r. cbn [orb]. rewrite andb_false_r.
  symmetry. apply andb_false_iff.
  destruct (Z.leb_spec 1 ty); [right; apply Z.leb_gt; lia|left; reflexivity].
Qed.

Definition conv (o : out) : fout :=
  match o with OMsg t b => FMsg t b | ONotify c s => FNotify c s end.

Lemma nth_firstn_lt : forall (l : list Z) i n, (i < n)%nat -> nth i (firstn n l) 0 = nth i l 0.
Proof.
  induction l as [|x l IH]; intros i n H.
  - rewrite firstn_nil. reflexivity.
  - destruct n; [lia|]. destruct i; simpl; [reflexivity|]. apply IH. lia.
Qed.

Definition hdr_len (s : list Z) : Z := 256 * nth 16 s 0 + nth 17 s 0.

(* reader_step, characterised without the schedule *)
Lemma reader_step_short : forall async max stream sched,
  (length stream < 19)%nat -> reader_step async max stream sched = Lost.
Proof.
  intros. unfold reader_step. change (Z.to_nat HEADER_LEN) with 19%nat.
  now rewrite read_exact_none.
Qed.

Lemma reader_step_long : forall async max stream sched,
  (19 <= length stream)%nat ->
  let len := hdr_len stream in
  let ty := nth 18 stream 0 in
  let hdr := firstn 19 stream in
  if negb (all_ff (firstn 16 stream)) then
    exists sched', reader_step async max stream sched =
      Got {| it_len := 0; it_type := 0; it_header := hdr; it_body := []; it_err := Some (1, 1) |} (skipn 19 stream) sched'
  else if (len <? 19) || (max <? len) || negb (rfc_len_ok ty len) then
    exists sched', reader_step async max stream sched =
      Got {| it_len := len; it_type := 0; it_header := hdr; it_body := []; it_err := Some (1, 2) |} (skipn 19 stream) sched'
  else if (length stream <? Z.to_nat len)%nat then
    reader_step async max stream sched = Lost
  else
    exists sched', reader_step async max stream sched =
      Got {| it_len := len; it_type := ty; it_header := hdr;
             it_body := firstn (Z.to_nat len - 19) (skipn 19 stream); it_err := None |}
          (skipn (Z.to_nat len) stream) sched'.
Proof.
  intros async max stream sched Hlen len ty hdr.
  unfold reader_step. change (Z.to_nat HEADER_LEN) with 19%nat.
  destruct (read_exact_some 19 stream sched Hlen) as [s1 R1]. rewrite R1.
  cbv zeta. rewrite pick_async.
  rewrite firstn_firstn. change (Nat.min 16 19) with 16%nat.
  rewrite list_eqb_marker by (rewrite firstn_length; lia).
  unfold check_header_async.
  destruct (all_ff (firstn 16 stream)) eqn:M; cbn [negb].
  2:{ exists s1. reflexivity. }
  change (Z.to_nat 18) with 18%nat. change (Z.to_nat 16) with 16%nat. change (Z.to_nat 17) with 17%nat.
  rewrite !nth_firstn_lt by lia.
  replace ((0 * 256 + nth 16 stream 0) * 256 + nth 17 stream 0) with len by (unfold len, hdr_len; lia).
  fold ty. rewrite length_ok_is_rfc.
  rewrite (Z.gtb_ltb len max).
  destruct ((len <? 19) || (max <? len)) eqn:B; cbn [orb].
  { exists s1. reflexivity. }
  destruct (rfc_len_ok ty len) eqn:L; cbn [negb].
  2:{ exists s1. reflexivity. }
  apply orb_false_iff in B. destruct B as [B1 B2]. apply Z.ltb_ge in B1.
  destruct (len - 19 =? 0) eqn:Z0; cbn [negb].
  - apply Z.eqb_eq in Z0. assert (len = 19) as E by lia.
    replace (length stream <? Z.to_nat len)%nat with false by (symmetry; apply Nat.ltb_ge; lia).
    exists s1. rewrite E. change (Z.to_nat 19 - 19)%nat with 0%nat. reflexivity.
  - apply Z.eqb_neq in Z0.
    destruct (Nat.ltb_spec (length stream) (Z.to_nat len)) as [Hs|Hs].
    + rewrite read_exact_none; [reflexivity|]. rewrite skipn_length. lia.
    + destruct (read_exact_some (Z.to_nat (len - 19)) (skipn 19 stream) s1) as [s2 R2].
      { rewrite skipn_length. lia. }
      rewrite R2. exists s2.
      replace (Z.to_nat (len - 19)) with (Z.to_nat len - 19)%nat by lia.
      rewrite <- skipn_add. replace (19 + (Z.to_nat len - 19))%nat with (Z.to_nat len) by lia.
      reflexivity.
Qed.

Lemma deliver_ok : forall len ty hdr body,
  conv (deliver {| it_len := len; it_type := ty; it_header := hdr; it_body := body; it_err := None |})
  = if negb (known_type ty) then FNotify 1 3 else FMsg ty body.
Proof.
  intros. unfold deliver. cbn [it_err it_type it_body].
  rewrite <- deliver_type.
  destruct (mem ty MESSAGES); cbn [negb andb]; [|reflexivity].
  destruct (mem ty REGISTERED); reflexivity.
Qed.

Lemma is_notify_conv : forall o, is_notify o = match conv o with FNotify _ _ => true | _ => false end.
Proof. destruct o; reflexivity. Qed.

Theorem run_reader_is_frame : forall fuel async max stream sched,
  map conv (run_reader fuel async max stream sched) = frame fuel max stream.
Proof.
  induction fuel as [|fuel IH]; intros async max stream sched; [reflexivity|].
  cbn [run_reader frame].
  destruct (Nat.ltb_spec (length stream) 19) as [Hs|Hs].
  - now rewrite reader_step_short.
  - pose proof (reader_step_long async max stream sched Hs) as L. cbv zeta in L.
    fold (hdr_len stream).
    destruct (negb (all_ff (firstn 16 stream))).
    { destruct L as [s' ->]. reflexivity. }
    destruct ((hdr_len stream <? 19) || (max <? hdr_len stream) || negb (rfc_len_ok (nth 18 stream 0) (hdr_len stream))).
    { destruct L as [s' ->]. reflexivity. }
    destruct (length stream <? Z.to_nat (hdr_len stream))%nat.
    { rewrite L. reflexivity. }
    destruct L as [s' ->].
    rewrite is_notify_conv.
    pose proof (deliver_ok (hdr_len stream) (nth 18 stream 0) (firstn 19 stream)
                  (firstn (Z.to_nat (hdr_len stream) - 19) (skipn 19 stream))) as D.
    destruct (negb (known_type (nth 18 stream 0))).
    + rewrite D. cbn [map]. now rewrite D.
    + rewrite D. cbn [map]. rewrite D, IH. reflexivity.
Qed.

Theorem reader_is_frames : forall async max stream sched,
  map conv (reader async max stream sched) = frames max stream.
Proof. intros. apply run_reader_is_frame. Qed.

Corollary reader_sched_independent : forall async1 async2 max stream sched1 sched2,
  reader async1 max stream sched1 = reader async2 max stream sched2.
Proof.
  intros.
  assert (Inj : forall a b, map conv a = map conv b -> a = b).
  { induction a as [|x a IHa]; destruct b as [|y b]; cbn [map]; intros H; try discriminate; [reflexivity|].
    injection H as H1 H2. f_equal; [|now apply IHa].
    destruct x, y; cbn [conv] in H1; congruence. }
  apply Inj. now rewrite !reader_is_frames.
Qed.

(* ---------------------------------------------------------------- properties of the result *)

Definition is_fnotify (o : fout) : bool := match o with FNotify _ _ => true | _ => false end.

Lemma frame_notify_last : forall fuel max s,
  forallb (fun o => negb (is_fnotify o)) (removelast (frame fuel max s)) = true.
Proof.
  induction fuel as [|fuel IH]; intros max s; [reflexivity|].
  cbn [frame].
  repeat match goal with |- context [if ?c then _ else _] => destruct c; try reflexivity end.
  specialize (IH max (skipn (Z.to_nat (256 * nth 16 s 0 + nth 17 s 0)) s)).
  destruct (frame fuel max (skipn (Z.to_nat (256 * nth 16 s 0 + nth 17 s 0)) s)) as [|f l]; [reflexivity|].
  change (removelast (FMsg (nth 18 s 0) (firstn (Z.to_nat (256 * nth 16 s 0 + nth 17 s 0) - 19) (skipn 19 s)) :: f :: l))
    with (FMsg (nth 18 s 0) (firstn (Z.to_nat (256 * nth 16 s 0 + nth 17 s 0) - 19) (skipn 19 s)) :: removelast (f :: l)).
  cbn [forallb is_fnotify negb andb]. exact IH.
Qed.

Lemma frame_fuel : forall f1 f2 max s,
  (length s < f1)%nat -> (length s < f2)%nat -> frame f1 max s = frame f2 max s.
Proof.
  induction f1 as [|f1 IH]; intros f2 max s H1 H2; [lia|].
  destruct f2 as [|f2]; [lia|].
  cbn [frame].
  destruct (Nat.ltb_spec (length s) 19); [reflexivity|].
  destruct (negb (all_ff (firstn 16 s))); [reflexivity|].
  set (len := 256 * nth 16 s 0 + nth 17 s 0).
  destruct ((len <? 19) || (max <? len) || negb (rfc_len_ok (nth 18 s 0) len)) eqn:B; [reflexivity|].
  destruct (Nat.ltb_spec (length s) (Z.to_nat len)); [reflexivity|].
  destruct (negb (known_type (nth 18 s 0))); [reflexivity|].
  apply orb_false_iff in B. destruct B as [B _]. apply orb_false_iff in B. destruct B as [B _].
  apply Z.ltb_ge in B.
  f_equal. apply IH; rewrite skipn_length; lia.
Qed.

Lemma frames_marker : forall max s,
  (19 <= length s)%nat -> all_ff (firstn 16 s) = false -> frames max s = [FNotify 1 1].
Proof.
  intros max s H M. unfold frames. cbn [frame].
  destruct (Nat.ltb_spec (length s) 19); [lia|]. now rewrite M.
Qed.

Lemma frames_length : forall max s,
  (19 <= length s)%nat -> all_ff (firstn 16 s) = true ->
  let len := 256 * nth 16 s 0 + nth 17 s 0 in
  (len < 19 \/ max < len \/ rfc_len_ok (nth 18 s 0) len = false) ->
  frames max s = [FNotify 1 2].
Proof.
  intros max s H M len C. unfold frames. cbn [frame].
  destruct (Nat.ltb_spec (length s) 19); [lia|]. rewrite M. cbn [negb]. fold len.
  assert ((len <? 19) || (max <? len) || negb (rfc_len_ok (nth 18 s 0) len) = true) as ->.
  { destruct C as [C|[C|C]].
    - apply Z.ltb_lt in C. now rewrite C.
    - apply Z.ltb_lt in C. rewrite C. now rewrite orb_true_r.
    - rewrite C. now rewrite orb_true_r. }
  reflexivity.
Qed.

Lemma frames_unknown_type : forall max s,
  (19 <= length s)%nat -> all_ff (firstn 16 s) = true ->
  let len := 256 * nth 16 s 0 + nth 17 s 0 in
  19 <= len <= max -> (Z.to_nat len <= length s)%nat ->
  known_type (nth 18 s 0) = false ->
  frames max s = [FNotify 1 3].
Proof.
  intros max s H M len C Hc K. unfold frames. cbn [frame].
  destruct (Nat.ltb_spec (length s) 19); [lia|]. rewrite M. cbn [negb]. fold len.
  assert ((len <? 19) || (max <? len) || negb (rfc_len_ok (nth 18 s 0) len) = false) as ->.
  { apply orb_false_iff; split; [apply orb_false_iff; split; apply Z.ltb_ge; lia|].
    apply negb_false_iff.
    assert (R : rfc_len_ok (nth 18 s 0) len = (19 <=? len)).
    { unfold known_type in K. apply andb_false_iff in K. unfold rfc_len_ok.
      destruct (nth 18 s 0) as [|p|p]; try reflexivity.
      destruct K as [K|K]; [apply Z.leb_gt in K; lia|apply Z.leb_gt in K].
      do 3 (destruct p as [p|p|]; try reflexivity; try lia). }
    rewrite R. apply Z.leb_le; lia. }
  destruct (Nat.ltb_spec (length s) (Z.to_nat len)); [lia|]. now rewrite K.
Qed.

Lemma frames_message : forall max s,
  (19 <= length s)%nat -> all_ff (firstn 16 s) = true ->
  let len := 256 * nth 16 s 0 + nth 17 s 0 in
  let ty := nth 18 s 0 in
  19 <= len <= max -> rfc_len_ok ty len = true -> (Z.to_nat len <= length s)%nat ->
  known_type ty = true ->
  frames max s = FMsg ty (firstn (Z.to_nat len - 19) (skipn 19 s)) :: frames max (skipn (Z.to_nat len) s).
Proof.
  intros max s H M len ty C L Hc K. unfold frames at 1. cbn [frame].
  destruct (Nat.ltb_spec (length s) 19); [lia|]. rewrite M. cbn [negb]. fold len. fold ty.
  assert ((len <? 19) || (max <? len) || negb (rfc_len_ok ty len) = false) as ->.
  { rewrite L. cbn [negb]. rewrite orb_false_r. apply orb_false_iff; split; apply Z.ltb_ge; lia. }
  destruct (Nat.ltb_spec (length s) (Z.to_nat len)); [lia|]. rewrite K. cbn [negb].
  f_equal. unfold frames. apply frame_fuel; rewrite skipn_length; lia.
Qed.

(* ---------------------------------------------------------------- timeouts of the read step *)

(* with the pending read kept, WHEN the 100 ms waits expire is irrelevant *)
Theorem timeouts_irrelevant : forall max evs s,
  run_timed true max evs s = run_timed true max (filter is_recv evs) s.
Proof.
  intros max evs. induction evs as [|e evs IH]; intros s; [reflexivity|].
  destruct e as [k|]; cbn [filter is_recv run_timed].
  - destruct (need_of max (t_acc s)) as [[|n]|]; try reflexivity.
    destruct (t_rest s) as [|x xs]; [reflexivity|].
    set (acc' := t_acc s ++ firstn _ _). set (rest' := skipn _ _).
    destruct (need_of max acc') as [[|m]|]; try reflexivity; [|apply IH].
    destruct (is_notify (finish_msg max acc')); [reflexivity|]. now rewrite IH.
  - apply IH.
Qed.

Corollary timed_reader_timeout_independent : forall max stream evs1 evs2,
  filter is_recv evs1 = filter is_recv evs2 ->
  timed_reader true max stream evs1 = timed_reader true max stream evs2.
Proof.
  intros max stream evs1 evs2 H. unfold timed_reader.
  rewrite (timeouts_irrelevant max evs1), (timeouts_irrelevant max evs2), H. reflexivity.
Qed.

(* the earlier behaviour (read cancelled by the timeout) loses bytes: a KEEPALIVE whose 19 bytes arrive
   as 10 + 9 with a timeout in between is never delivered, and what follows is read from the middle *)
Definition ka : bytes := [255;255;255;255;255;255;255;255;255;255;255;255;255;255;255;255;0;19;4].

Lemma cancelled_read_loses_bytes :
  timed_reader true 4096 (ka ++ ka) [Recv 9; Timeout; Recv 100; Recv 100] = [OMsg 4 []; OMsg 4 []] /\
  timed_reader false 4096 (ka ++ ka) [Recv 9; Timeout; Recv 100; Recv 100] = [ONotify 1 1].
Proof. split; vm_compute; reflexivity. Qed.

(* ---- the timed reader (pending read kept) is the RFC framing, for every placement of timeouts
        and every segmentation, as soon as the schedule offers enough reads *)

Inductive hcl := HMarker | HLen | HOk (len ty : Z).
Definition hclass (max : Z) (s : bytes) : hcl :=
  if negb (all_ff (firstn 16 s)) then HMarker
  else if (hdr_len s <? 19) || (max <? hdr_len s) || negb (rfc_len_ok (nth 18 s 0) (hdr_len s)) then HLen
  else HOk (hdr_len s) (nth 18 s 0).

Lemma hclass_app : forall max a b, (19 <= length a)%nat -> hclass max (a ++ b) = hclass max a.
Proof.
  intros max a b H. unfold hclass, hdr_len.
  rewrite firstn_app. replace (16 - length a)%nat with 0%nat by lia. cbn [firstn]. rewrite app_nil_r.
  rewrite !app_nth1 by lia. reflexivity.
Qed.

Lemma hclass_ok_len : forall max s len ty, hclass max s = HOk len ty -> 19 <= len.
Proof.
  intros max s len ty. unfold hclass.
  destruct (negb (all_ff (firstn 16 s))); [discriminate|].
  destruct ((hdr_len s <? 19) || (max <? hdr_len s) || negb (rfc_len_ok (nth 18 s 0) (hdr_len s))) eqn:B; [discriminate|].
  intros E. injection E as E1 E2. subst.
  apply orb_false_iff in B. destruct B as [B _]. apply orb_false_iff in B. destruct B as [B _].
  now apply Z.ltb_ge in B.
Qed.

Lemma frame_hclass : forall fuel max s, (19 <= length s)%nat ->
  frame (S fuel) max s =
  match hclass max s with
  | HMarker => [FNotify 1 1]
  | HLen => [FNotify 1 2]
  | HOk len ty =>
      if (length s <? Z.to_nat len)%nat then []
      else if negb (known_type ty) then [FNotify 1 3]
      else FMsg ty (firstn (Z.to_nat len - 19) (skipn 19 s)) :: frame fuel max (skipn (Z.to_nat len) s)
  end.
Proof.
  intros fuel max s H. cbn [frame]. unfold hclass. fold (hdr_len s).
  destruct (Nat.ltb_spec (length s) 19); [lia|].
  destruct (negb (all_ff (firstn 16 s))); [reflexivity|].
  destruct ((hdr_len s <? 19) || (max <? hdr_len s) || negb (rfc_len_ok (nth 18 s 0) (hdr_len s))); reflexivity.
Qed.

Lemma need_finish_hclass : forall max acc, (19 <= length acc)%nat ->
  match hclass max acc with
  | HMarker => need_of max acc = None /\ conv (finish_msg max acc) = FNotify 1 1
  | HLen => need_of max acc = None /\ conv (finish_msg max acc) = FNotify 1 2
  | HOk len ty =>
      need_of max acc = Some (Z.to_nat len - length acc)%nat /\
      conv (finish_msg max acc) =
        (if negb (known_type ty) then FNotify 1 3 else FMsg ty (if len =? 19 then [] else skipn 19 acc))
  end.
Proof.
  intros max acc H. unfold need_of, finish_msg, hclass.
  destruct (Nat.ltb_spec (length acc) 19); [lia|].
  cbv zeta. rewrite firstn_firstn. change (Nat.min 16 19) with 16%nat.
  rewrite list_eqb_marker by (rewrite firstn_length; lia).
  unfold check_header_async.
  destruct (all_ff (firstn 16 acc)); cbn [negb]; [|split; reflexivity].
  change (Z.to_nat 18) with 18%nat. change (Z.to_nat 16) with 16%nat. change (Z.to_nat 17) with 17%nat.
  rewrite !nth_firstn_lt by lia.
  replace ((0 * 256 + nth 16 acc 0) * 256 + nth 17 acc 0) with (hdr_len acc) by (unfold hdr_len; lia).
  rewrite length_ok_is_rfc. rewrite (Z.gtb_ltb (hdr_len acc) max).
  destruct ((hdr_len acc <? 19) || (max <? hdr_len acc)) eqn:B; cbn [orb]; [split; reflexivity|].
  destruct (rfc_len_ok (nth 18 acc 0) (hdr_len acc)); cbn [negb]; [|split; reflexivity].
  apply orb_false_iff in B. destruct B as [B1 _]. apply Z.ltb_ge in B1.
  destruct (hdr_len acc - 19 =? 0) eqn:Z0; cbn [negb].
  - apply Z.eqb_eq in Z0. split.
    + f_equal. lia.
    + rewrite deliver_ok. replace (hdr_len acc =? 19) with true by (symmetry; apply Z.eqb_eq; lia). reflexivity.
  - apply Z.eqb_neq in Z0. split; [reflexivity|].
    rewrite deliver_ok. replace (hdr_len acc =? 19) with false by (symmetry; apply Z.eqb_neq; lia). reflexivity.
Qed.

Definition recvs (evs : list tev) : nat := length (filter is_recv evs).

(* a message still being read produces nothing when the stream ends there *)
Lemma incomplete_frame_nil : forall fuel max acc n,
  need_of max acc = Some (S n) -> frame fuel max acc = [].
Proof.
  intros fuel max acc n N. destruct fuel as [|fuel]; [reflexivity|].
  destruct (Nat.ltb_spec (length acc) 19) as [L|L].
  - cbn [frame]. destruct (Nat.ltb_spec (length acc) 19); [reflexivity|lia].
  - rewrite frame_hclass by exact L. pose proof (need_finish_hclass max acc L) as NF.
    destruct (hclass max acc) as [| |len ty].
    + destruct NF as [NF _]. congruence.
    + destruct NF as [NF _]. congruence.
    + destruct NF as [NF _]. rewrite N in NF. injection NF as NF.
      destruct (Nat.ltb_spec (length acc) (Z.to_nat len)); [reflexivity|lia].
Qed.

Lemma need_of_short : forall max acc, (length acc < 19)%nat -> need_of max acc = Some (19 - length acc)%nat.
Proof. intros max acc H. unfold need_of. destruct (Nat.ltb_spec (length acc) 19); [reflexivity|lia]. Qed.

Lemma need_of_long_inv : forall max acc n, (19 <= length acc)%nat -> need_of max acc = Some n ->
  exists len ty, hclass max acc = HOk len ty /\ n = (Z.to_nat len - length acc)%nat.
Proof.
  intros max acc n L N. pose proof (need_finish_hclass max acc L) as NF.
  destruct (hclass max acc) as [| |len ty].
  - destruct NF as [NF _]. congruence.
  - destruct NF as [NF _]. congruence.
  - destruct NF as [NF _]. exists len, ty. split; [reflexivity|congruence].
Qed.

Theorem run_timed_is_frame : forall max evs acc rest n fuel,
  need_of max acc = Some (S n) ->
  (length rest <= recvs evs)%nat ->
  (length (acc ++ rest) < fuel)%nat ->
  map conv (run_timed true max evs {| t_acc := acc; t_rest := rest |}) = frame fuel max (acc ++ rest).
Proof.
  intros max evs. induction evs as [|e evs IH]; intros acc rest n fuel N R F.
  - unfold recvs in R. cbn in R. destruct rest; [|cbn in R; lia].
    rewrite app_nil_r. cbn [run_timed map]. symmetry. eapply incomplete_frame_nil; eassumption.
  - destruct e as [k|].
    2:{ cbn [run_timed]. eapply IH; eauto. }
    cbn [run_timed t_acc t_rest]. rewrite N.
    destruct rest as [|x xs].
    { rewrite app_nil_r. cbn [map]. symmetry. eapply incomplete_frame_nil; eassumption. }
    set (rest := x :: xs) in *.
    set (got := Nat.min (Nat.min (S k) (S n)) (length rest)).
    assert (G1 : (1 <= got)%nat) by (unfold got, rest; cbn [length]; lia).
    assert (G2 : (got <= S n)%nat) by (unfold got; lia).
    assert (G3 : (got <= length rest)%nat) by (unfold got; lia).
    set (acc' := acc ++ firstn got rest). set (rest' := skipn got rest).
    assert (E : acc' ++ rest' = acc ++ rest).
    { unfold acc', rest'. rewrite <- app_assoc. now rewrite firstn_skipn. }
    assert (LA : length acc' = (length acc + got)%nat).
    { unfold acc'. rewrite app_length, firstn_length. lia. }
    assert (LR : length rest' = (length rest - got)%nat) by (unfold rest'; now rewrite skipn_length).
    assert (R' : (length rest' <= recvs evs)%nat).
    { unfold recvs in *. cbn [filter is_recv length] in R. lia. }
    rewrite <- E.
    assert (F' : (length (acc' ++ rest') < fuel)%nat) by now rewrite E.
    (* the accumulated bytes never exceed the message *)
    assert (BOUND : (length acc' < 19)%nat \/
                    ((19 <= length acc')%nat /\
                     forall len ty, hclass max acc' = HOk len ty -> (length acc' <= Z.to_nat len)%nat)).
    { destruct (Nat.ltb_spec (length acc') 19) as [L|L]; [now left|right; split; [exact L|]].
      intros len ty HC.
      destruct (Nat.ltb_spec (length acc) 19) as [La|La].
      - rewrite need_of_short in N by exact La.
        assert (N2 : (19 - length acc)%nat = S n) by congruence.
        pose proof (hclass_ok_len _ _ _ _ HC). lia.
      - destruct (need_of_long_inv max acc (S n) La N) as [len0 [ty0 [HC0 N0]]].
        assert (hclass max acc' = hclass max acc) as HE by (unfold acc'; now apply hclass_app).
        rewrite HE, HC0 in HC. injection HC as H1 H2. subst. lia. }
    destruct (need_of max acc') as [[|m]|] eqn:N'.
    + (* the message is complete *)
      destruct BOUND as [L|[L B]]; [rewrite need_of_short in N' by exact L; assert ((19 - length acc')%nat = 0%nat) by congruence; lia|].
      destruct (need_of_long_inv max acc' 0%nat L N') as [len [ty [HC N0]]].
      specialize (B len ty HC).
      assert (LEN : length acc' = Z.to_nat len) by lia.
      destruct fuel as [|fuel]; [lia|].
      rewrite frame_hclass by (rewrite app_length; lia).
      rewrite hclass_app by exact L. rewrite HC.
      pose proof (need_finish_hclass max acc' L) as NF. rewrite HC in NF. destruct NF as [_ NF].
      destruct (Nat.ltb_spec (length (acc' ++ rest')) (Z.to_nat len)) as [C|C]; [rewrite app_length in C; lia|].
      rewrite is_notify_conv. rewrite NF.
      destruct (negb (known_type ty)).
      * cbn [map]. now rewrite NF.
      * cbn [map]. rewrite NF. f_equal.
        -- f_equal. rewrite skipn_app. rewrite firstn_app.
           rewrite skipn_length.
           replace (Z.to_nat len - 19 - (length acc' - 19))%nat with 0%nat by lia.
           cbn [firstn]. rewrite app_nil_r.
           rewrite firstn_all2 by (rewrite skipn_length; lia).
           destruct (len =? 19) eqn:E19; [|reflexivity].
           apply Z.eqb_eq in E19. symmetry. apply length_zero_iff_nil. rewrite skipn_length. lia.
        -- rewrite <- LEN. rewrite skipn_app, skipn_all.
           replace (length acc' - length acc')%nat with 0%nat by lia. cbn [skipn app].
           change rest' with ([] ++ rest').
           eapply (IH [] rest' 18%nat); [reflexivity|exact R'|cbn [app]; rewrite app_length in F'; lia].
    + (* still incomplete *)
      eapply IH; eauto.
    + (* the header is refused *)
      destruct BOUND as [L|[L _]]; [rewrite need_of_short in N' by exact L; discriminate|].
      destruct fuel as [|fuel]; [lia|].
      rewrite frame_hclass by (rewrite app_length; lia).
      rewrite hclass_app by exact L.
      pose proof (need_finish_hclass max acc' L) as NF.
      destruct (hclass max acc') as [| |len ty].
      * destruct NF as [_ NF]. cbn [map]. now rewrite NF.
      * destruct NF as [_ NF]. cbn [map]. now rewrite NF.
      * destruct NF as [NF _]. congruence.
Qed.

Theorem timed_reader_is_frames : forall max stream evs,
  (length stream <= recvs evs)%nat ->
  map conv (timed_reader true max stream evs) = frames max stream.
Proof.
  intros max stream evs H. unfold timed_reader, frames.
  change stream with ([] ++ stream) at 2 3.
  eapply (run_timed_is_frame max evs [] stream 18%nat); [reflexivity|exact H|cbn [app]; lia].
Qed.
