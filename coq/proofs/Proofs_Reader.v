From Coq Require Import ZArith Bool List Arith Lia.
From ExaV Require Import lib.ListX gen.Gen_Header model.Model_Reader spec.Spec_Frame.
Import ListNotations.
Open Scope Z_scope.

(* ---------------------------------------------------------------- read_exact *)

Lemma read_loop_spec : forall fuel need stream sched acc,
  (need <= fuel)%nat ->
  if (need <=? length stream)%nat
  then exists sched', read_loop fuel need stream sched acc
                      = Some (acc ++ firstn need stream, skipn need stream, sched')
  else read_loop fuel need stream sched acc = None.
Proof.
  induction fuel as [|fuel IH]; intros need stream sched acc Hle.
  - assert (need = 0%nat) by lia; subst need. simpl. exists sched. now rewrite app_nil_r.
  - destruct need as [|n].
    + simpl. exists sched. now rewrite app_nil_r.
    + destruct stream as [|x xs].
      * simpl. reflexivity.
      * cbn [read_loop].
        set (stream := x :: xs).
        set (offer := match sched with [] => S n | k :: _ => Nat.min (S k) (S n) end).
        set (got := Nat.min offer (length stream)).
        assert (Hoff : (1 <= offer <= S n)%nat).
        { unfold offer. destruct sched; lia. }
        assert (Hlen : (1 <= length stream)%nat) by (unfold stream; simpl; lia).
        assert (Hgot : (1 <= got <= S n)%nat) by (unfold got; lia).
        assert (Hgl : (got <= length stream)%nat) by (unfold got; lia).
        specialize (IH (S n - got)%nat (skipn got stream) (tl sched) (acc ++ firstn got stream)).
        assert (Hfu : (S n - got <= fuel)%nat) by lia.
        specialize (IH Hfu).
        rewrite skipn_length in IH.
        destruct (Nat.leb_spec (S n) (length stream)) as [Hin|Hout].
        -- assert (Hc : (S n - got <=? length stream - got)%nat = true) by (apply Nat.leb_le; lia).
           rewrite Hc in IH. destruct IH as [sched' IH]. exists sched'. rewrite IH.
           assert (E : firstn (S n) stream = firstn (got + (S n - got)) stream) by (f_equal; lia).
           assert (E' : skipn (S n) stream = skipn (got + (S n - got)) stream) by (f_equal; lia).
           rewrite E, E'.
           rewrite (firstn_add got (S n - got)), (skipn_add got (S n - got)), app_assoc. reflexivity.
        -- assert (Hc : (S n - got <=? length stream - got)%nat = false) by (apply Nat.leb_gt; lia).
           rewrite Hc in IH. exact IH.
Qed.

Lemma read_exact_some : forall need stream sched,
  (need <= length stream)%nat ->
  exists sched', read_exact need stream sched = Some (firstn need stream, skipn need stream, sched').
Proof.
  intros need stream sched H. unfold read_exact.
  pose proof (read_loop_spec need need stream sched [] (le_n _)) as L.
  apply Nat.leb_le in H. rewrite H in L. exact L.
Qed.

Lemma read_exact_none : forall need stream sched,
  (length stream < need)%nat -> read_exact need stream sched = None.
Proof.
  intros need stream sched H. unfold read_exact.
  pose proof (read_loop_spec need need stream sched [] (le_n _)) as L.
  apply Nat.leb_gt in H. rewrite H in L. exact L.
Qed.

(* ---------------------------------------------------------------- header check *)

Lemma sync_is_async : forall hb m max, check_header_sync hb m max = check_header_async hb m max.
Proof. intros. reflexivity. Qed.

Lemma pick_async : forall (async : bool) hb m max,
  (if async then check_header_async hb m max else check_header_sync hb m max) = check_header_async hb m max.
Proof. intros [|] hb m max; [reflexivity|apply sync_is_async]. Qed.

Lemma list_eqb_marker : forall l, length l = 16%nat -> list_eqb l MARKER = all_ff l.
Proof.
  intros l H. unfold MARKER.
  do 17 (destruct l as [|? l]; [try discriminate H|]); try discriminate H.
  cbn [list_eqb all_ff forallb].
  repeat rewrite (Z.eqb_sym 255). rewrite !andb_true_r. reflexivity.
Qed.

Lemma length_ok_rfc : forall ty len, known_type ty = true -> length_ok ty len = rfc_len_ok ty len.
Proof.
  intros ty len H. unfold known_type in H. apply andb_prop in H. destruct H as [H1 H2].
  apply Z.leb_le in H1. apply Z.leb_le in H2.
  assert (ty = 1 \/ ty = 2 \/ ty = 3 \/ ty = 4 \/ ty = 5 \/ ty = 6) as Hc by lia.
  unfold length_ok, rfc_len_ok.
  destruct Hc as [->|[->|[->|[->|[->| ->]]]]]; cbn [Z.eqb Pos.eqb];
    rewrite ?Z.geb_leb; reflexivity.
Qed.

Lemma length_ok_unknown : forall ty len, known_type ty = false -> length_ok ty len = rfc_len_ok ty len.
Proof.
  intros ty len H. unfold known_type in H. apply andb_false_iff in H.
  unfold length_ok, rfc_len_ok.
  destruct H as [H|H]; [apply Z.leb_gt in H|apply Z.leb_gt in H].
  - destruct ty; try lia; cbn [Z.eqb]; rewrite ?Z.geb_leb; reflexivity.
  - destruct (ty =? 1) eqn:E1; [apply Z.eqb_eq in E1; lia|].
    destruct (ty =? 2) eqn:E2; [apply Z.eqb_eq in E2; lia|].
    destruct (ty =? 3) eqn:E3; [apply Z.eqb_eq in E3; lia|].
    destruct (ty =? 4) eqn:E4; [apply Z.eqb_eq in E4; lia|].
    destruct (ty =? 5) eqn:E5; [apply Z.eqb_eq in E5; lia|].
    rewrite Z.geb_leb.
    destruct ty as [|p|p]; try reflexivity.
    do 3 (destruct p as [p|p|]; try reflexivity; try lia).
Qed.

Lemma length_ok_is_rfc : forall ty len, length_ok ty len = rfc_len_ok ty len.
Proof.
  intros. destruct (known_type ty) eqn:K; [now apply length_ok_rfc|now apply length_ok_unknown].
Qed.

(* which types reach a decoder: exactly the RFC ones (plus OPERATIONAL) *)
Lemma deliver_type : forall ty,
  (mem ty MESSAGES && mem ty REGISTERED) = known_type ty.
Proof.
  intros ty. unfold mem, MESSAGES, REGISTERED, known_type. cbn [existsb].
  destruct (ty =? 1) eqn:E1; [apply Z.eqb_eq in E1; subst; reflexivity|].
  destruct (ty =? 2) eqn:E2; [apply Z.eqb_eq in E2; subst; reflexivity|].
  destruct (ty =? 3) eqn:E3; [apply Z.eqb_eq in E3; subst; reflexivity|].
  destruct (ty =? 4) eqn:E4; [apply Z.eqb_eq in E4; subst; reflexivity|].
  destruct (ty =? 5) eqn:E5; [apply Z.eqb_eq in E5; subst; reflexivity|].
  destruct (ty =? 6) eqn:E6; [apply Z.eqb_eq in E6; subst; reflexivity|].
  apply Z.eqb_neq in E1, E2, E3, E4, E5, E6.
  rewrite !orb_false_r. cbn [orb]. rewrite andb_false_r.
  symmetry. apply andb_false_iff.
  destruct (Z.leb_spec 1 ty); [right; apply Z.leb_gt; lia|left; reflexivity].
Qed.

Definition conv (o : out) : fout :=
  match o with OMsg t b => FMsg t b | ONotify c s => FNotify c s end.

Lemma nth_firstn_lt : forall (l : list Z) i n, (i < n)%nat -> nth i (firstn n l) 0 = nth i l 0.
Proof.
  induction l as [|x l IH]; intros i n H.
  - rewrite firstn_nil. reflexivity.
  - destruct n; [lia|]. destruct i; simpl; [reflexivity|]. apply IH. lia.
Qed.

Definition hdr_len (s : list Z) : Z := 256 * nth 16 s 0 + nth 17 s 0.

(* reader_step, characterised without the schedule *)
Lemma reader_step_short : forall async max stream sched,
  (length stream < 19)%nat -> reader_step async max stream sched = Lost.
Proof.
  intros. unfold reader_step. change (Z.to_nat HEADER_LEN) with 19%nat.
  now rewrite read_exact_none.
Qed.

Lemma reader_step_long : forall async max stream sched,
  (19 <= length stream)%nat ->
  let len := hdr_len stream in
  let ty := nth 18 stream 0 in
  let hdr := firstn 19 stream in
  if negb (all_ff (firstn 16 stream)) then
    exists sched', reader_step async max stream sched =
      Got {| it_len := 0; it_type := 0; it_header := hdr; it_body := []; it_err := Some (1, 1) |} (skipn 19 stream) sched'
  else if (len <? 19) || (max <? len) || negb (rfc_len_ok ty len) then
    exists sched', reader_step async max stream sched =
      Got {| it_len := len; it_type := 0; it_header := hdr; it_body := []; it_err := Some (1, 2) |} (skipn 19 stream) sched'
  else if (length stream <? Z.to_nat len)%nat then
    reader_step async max stream sched = Lost
  else
    exists sched', reader_step async max stream sched =
      Got {| it_len := len; it_type := ty; it_header := hdr;
             it_body := firstn (Z.to_nat len - 19) (skipn 19 stream); it_err := None |}
          (skipn (Z.to_nat len) stream) sched'.
Proof.
  intros async max stream sched Hlen len ty hdr.
  unfold reader_step. change (Z.to_nat HEADER_LEN) with 19%nat.
  destruct (read_exact_some 19 stream sched Hlen) as [s1 R1]. rewrite R1.
  cbv zeta. rewrite pick_async.
  rewrite firstn_firstn. change (Nat.min 16 19) with 16%nat.
  rewrite list_eqb_marker by (rewrite firstn_length; lia).
  unfold check_header_async.
  destruct (all_ff (firstn 16 stream)) eqn:M; cbn [negb].
  2:{ exists s1. reflexivity. }
  change (Z.to_nat 18) with 18%nat. change (Z.to_nat 16) with 16%nat. change (Z.to_nat 17) with 17%nat.
  rewrite !nth_firstn_lt by lia.
  replace ((0 * 256 + nth 16 stream 0) * 256 + nth 17 stream 0) with len by (unfold len, hdr_len; lia).
  fold ty. rewrite length_ok_is_rfc.
  rewrite (Z.gtb_ltb len max).
  destruct ((len <? 19) || (max <? len)) eqn:B; cbn [orb].
  { exists s1. reflexivity. }
  destruct (rfc_len_ok ty len) eqn:L; cbn [negb].
  2:{ exists s1. reflexivity. }
  apply orb_false_iff in B. destruct B as [B1 B2]. apply Z.ltb_ge in B1.
  destruct (len - 19 =? 0) eqn:Z0; cbn [negb].
  - apply Z.eqb_eq in Z0. assert (len = 19) as E by lia.
    replace (length stream <? Z.to_nat len)%nat with false by (symmetry; apply Nat.ltb_ge; lia).
    exists s1. rewrite E. change (Z.to_nat 19 - 19)%nat with 0%nat. reflexivity.
  - apply Z.eqb_neq in Z0.
    destruct (Nat.ltb_spec (length stream) (Z.to_nat len)) as [Hs|Hs].
    + rewrite read_exact_none; [reflexivity|]. rewrite skipn_length. lia.
    + destruct (read_exact_some (Z.to_nat (len - 19)) (skipn 19 stream) s1) as [s2 R2].
      { rewrite skipn_length. lia. }
      rewrite R2. exists s2.
      replace (Z.to_nat (len - 19)) with (Z.to_nat len - 19)%nat by lia.
      rewrite <- skipn_add. replace (19 + (Z.to_nat len - 19))%nat with (Z.to_nat len) by lia.
      reflexivity.
Qed.

Lemma deliver_ok : forall len ty hdr body,
  conv (deliver {| it_len := len; it_type := ty; it_header := hdr; it_body := body; it_err := None |})
  = if negb (known_type ty) then FNotify 1 3 else FMsg ty body.
Proof.
  intros. unfold deliver. cbn [it_err it_type it_body].
  rewrite <- deliver_type.
  destruct (mem ty MESSAGES); cbn [negb andb]; [|reflexivity].
  destruct (mem ty REGISTERED); reflexivity.
Qed.

Lemma is_notify_conv : forall o, is_notify o = match conv o with FNotify _ _ => true | _ => false end.
Proof. destruct o; reflexivity. Qed.

Theorem run_reader_is_frame : forall fuel async max stream sched,
  map conv (run_reader fuel async max stream sched) = frame fuel max stream.
Proof.
  induction fuel as [|fuel IH]; intros async max stream sched; [reflexivity|].
  cbn [run_reader frame].
  destruct (Nat.ltb_spec (length stream) 19) as [Hs|Hs].
  - now rewrite reader_step_short.
  - pose proof (reader_step_long async max stream sched Hs) as L. cbv zeta in L.
    fold (hdr_len stream).
    destruct (negb (all_ff (firstn 16 stream))).
    { destruct L as [s' ->]. reflexivity. }
    destruct ((hdr_len stream <? 19) || (max <? hdr_len stream) || negb (rfc_len_ok (nth 18 stream 0) (hdr_len stream))).
    { destruct L as [s' ->]. reflexivity. }
    destruct (length stream <? Z.to_nat (hdr_len stream))%nat.
    { rewrite L. reflexivity. }
    destruct L as [s' ->].
    rewrite is_notify_conv.
    pose proof (deliver_ok (hdr_len stream) (nth 18 stream 0) (firstn 19 stream)
                  (firstn (Z.to_nat (hdr_len stream) - 19) (skipn 19 stream))) as D.
    destruct (negb (known_type (nth 18 stream 0))).
    + rewrite D. cbn [map]. now rewrite D.
    + rewrite D. cbn [map]. rewrite D, IH. reflexivity.
Qed.

Theorem reader_is_frames : forall async max stream sched,
  map conv (reader async max stream sched) = frames max stream.
Proof. intros. apply run_reader_is_frame. Qed.

Corollary reader_sched_independent : forall async1 async2 max stream sched1 sched2,
  reader async1 max stream sched1 = reader async2 max stream sched2.
Proof.
  intros.
  assert (Inj : forall a b, map conv a = map conv b -> a = b).
  { induction a as [|x a IHa]; destruct b as [|y b]; cbn [map]; intros H; try discriminate; [reflexivity|].
    injection H as H1 H2. f_equal; [|now apply IHa].
    destruct x, y; cbn [conv] in H1; congruence. }
  apply Inj. now rewrite !reader_is_frames.
Qed.

(* ---------------------------------------------------------------- properties of the result *)

Definition is_fnotify (o : fout) : bool := match o with FNotify _ _ => true | _ => false end.

Lemma frame_notify_last : forall fuel max s,
  forallb (fun o => negb (is_fnotify o)) (removelast (frame fuel max s)) = true.
Proof.
  induction fuel as [|fuel IH]; intros max s; [reflexivity|].
  cbn [frame].
  repeat match goal with |- context [if ?c then _ else _] => destruct c; try reflexivity end.
  specialize (IH max (skipn (Z.to_nat (256 * nth 16 s 0 + nth 17 s 0)) s)).
  destruct (frame fuel max (skipn (Z.to_nat (256 * nth 16 s 0 + nth 17 s 0)) s)) as [|f l]; [reflexivity|].
  change (removelast (FMsg (nth 18 s 0) (firstn (Z.to_nat (256 * nth 16 s 0 + nth 17 s 0) - 19) (skipn 19 s)) :: f :: l))
    with (FMsg (nth 18 s 0) (firstn (Z.to_nat (256 * nth 16 s 0 + nth 17 s 0) - 19) (skipn 19 s)) :: removelast (f :: l)).
  cbn [forallb is_fnotify negb andb]. exact IH.
Qed.

Lemma frame_fuel : forall f1 f2 max s,
  (length s < f1)%nat -> (length s < f2)%nat -> frame f1 max s = frame f2 max s.
Proof.
  induction f1 as [|f1 IH]; intros f2 max s H1 H2; [lia|].
  destruct f2 as [|f2]; [lia|].
  cbn [frame].
  destruct (Nat.ltb_spec (length s) 19); [reflexivity|].
  destruct (negb (all_ff (firstn 16 s))); [reflexivity|].
  set (len := 256 * nth 16 s 0 + nth 17 s 0).
  destruct ((len <? 19) || (max <? len) || negb (rfc_len_ok (nth 18 s 0) len)) eqn:B; [reflexivity|].
  destruct (Nat.ltb_spec (length s) (Z.to_nat len)); [reflexivity|].
  destruct (negb (known_type (nth 18 s 0))); [reflexivity|].
  apply orb_false_iff in B. destruct B as [B _]. apply orb_false_iff in B. destruct B as [B _].
  apply Z.ltb_ge in B.
  f_equal. apply IH; rewrite skipn_length; lia.
Qed.

Lemma frames_marker : forall max s,
  (19 <= length s)%nat -> all_ff (firstn 16 s) = false -> frames max s = [FNotify 1 1].
Proof.
  intros max s H M. unfold frames. cbn [frame].
  destruct (Nat.ltb_spec (length s) 19); [lia|]. now rewrite M.
Qed.

Lemma frames_length : forall max s,
  (19 <= length s)%nat -> all_ff (firstn 16 s) = true ->
  let len := 256 * nth 16 s 0 + nth 17 s 0 in
  (len < 19 \/ max < len \/ rfc_len_ok (nth 18 s 0) len = false) ->
  frames max s = [FNotify 1 2].
Proof.
  intros max s H M len C. unfold frames. cbn [frame].
  destruct (Nat.ltb_spec (length s) 19); [lia|]. rewrite M. cbn [negb]. fold len.
  assert ((len <? 19) || (max <? len) || negb (rfc_len_ok (nth 18 s 0) len) = true) as ->.
  { destruct C as [C|[C|C]].
    - apply Z.ltb_lt in C. now rewrite C.
    - apply Z.ltb_lt in C. rewrite C. now rewrite orb_true_r.
    - rewrite C. now rewrite orb_true_r. }
  reflexivity.
Qed.

Lemma frames_unknown_type : forall max s,
  (19 <= length s)%nat -> all_ff (firstn 16 s) = true ->
  let len := 256 * nth 16 s 0 + nth 17 s 0 in
  19 <= len <= max -> (Z.to_nat len <= length s)%nat ->
  known_type (nth 18 s 0) = false ->
  frames max s = [FNotify 1 3].
Proof.
  intros max s H M len C Hc K. unfold frames. cbn [frame].
  destruct (Nat.ltb_spec (length s) 19); [lia|]. rewrite M. cbn [negb]. fold len.
  assert ((len <? 19) || (max <? len) || negb (rfc_len_ok (nth 18 s 0) len) = false) as ->.
  { apply orb_false_iff; split; [apply orb_false_iff; split; apply Z.ltb_ge; lia|].
    apply negb_false_iff.
    assert (R : rfc_len_ok (nth 18 s 0) len = (19 <=? len)).
    { unfold known_type in K. apply andb_false_iff in K. unfold rfc_len_ok.
      destruct (nth 18 s 0) as [|p|p]; try reflexivity.
      destruct K as [K|K]; [apply Z.leb_gt in K; lia|apply Z.leb_gt in K].
      do 3 (destruct p as [p|p|]; try reflexivity; try lia). }
    rewrite R. apply Z.leb_le; lia. }
  destruct (Nat.ltb_spec (length s) (Z.to_nat len)); [lia|]. now rewrite K.
Qed.

Lemma frames_message : forall max s,
  (19 <= length s)%nat -> all_ff (firstn 16 s) = true ->
  let len := 256 * nth 16 s 0 + nth 17 s 0 in
  let ty := nth 18 s 0 in
  19 <= len <= max -> rfc_len_ok ty len = true -> (Z.to_nat len <= length s)%nat ->
  known_type ty = true ->
  frames max s = FMsg ty (firstn (Z.to_nat len - 19) (skipn 19 s)) :: frames max (skipn (Z.to_nat len) s).
Proof.
  intros max s H M len ty C L Hc K. unfold frames at 1. cbn [frame].
  destruct (Nat.ltb_spec (length s) 19); [lia|]. rewrite M. cbn [negb]. fold len. fold ty.
  assert ((len <? 19) || (max <? len) || negb (rfc_len_ok ty len) = false) as ->.
  { rewrite L. cbn [negb]. rewrite orb_false_r. apply orb_false_iff; split; apply Z.ltb_ge; lia. }
  destruct (Nat.ltb_spec (length s) (Z.to_nat len)); [lia|]. rewrite K. cbn [negb].
  f_equal. unfold frames. apply frame_fuel; rewrite skipn_length; lia.
Qed.
