(* C16 - structure of the grouping done by Flow.rules / _pack_from_rules (Model_Flow.canon):
   strict order of the emitted types when no prefix type is written twice, and stability of the
   dict view on anything the RFC reference accepts. *)
From Coq Require Import ZArith List Bool Lia Arith Sorting.Sorted.
From ExaV Require Import lib.ListX gen.Gen_Flow spec.Spec_Flow model.Model_Flow proofs.Proofs_Flow proofs.Proofs_FlowDec.
Import ListNotations.
Open Scope Z_scope.

Lemma pick_pfx_none : forall t cs, (forall c, In c cs -> mty c <> t) -> pick_pfx t cs = [].
Proof.
  induction cs as [|c cs IH]; intros H; [reflexivity|]. unfold pick_pfx in *. cbn [filter].
  assert (Hc := H c (or_introl eq_refl)).
  destruct c as [t' m o a|t' l]; cbn [mty] in Hc.
  - replace (t' =? t) with false by (symmetry; apply Z.eqb_neq; exact Hc). apply IH. intros; apply H; right; assumption.
  - apply IH. intros; apply H; right; assumption.
Qed.

Lemma pick_ops_none : forall t cs, (forall c, In c cs -> mty c <> t) -> pick_ops t cs = [].
Proof.
  induction cs as [|c cs IH]; intros H; [reflexivity|]. unfold pick_ops in *. cbn [flat_map].
  assert (Hc := H c (or_introl eq_refl)).
  rewrite IH by (intros; apply H; right; assumption). rewrite app_nil_r.
  destruct c as [t' m o a|t' l]; cbn [mty] in Hc; [reflexivity|].
  replace (t' =? t) with false by (symmetry; apply Z.eqb_neq; exact Hc). reflexivity.
Qed.

Lemma group_none : forall cs t k w, (forall c, In c cs -> mty c <> t) -> group cs (t, (k, w)) = [].
Proof.
  intros cs t k w H. unfold group. rewrite pick_pfx_none, pick_ops_none by assumption.
  destruct (k =? 1); reflexivity.
Qed.

Lemma group_cons_other : forall c cs t k w, mty c <> t -> group (c :: cs) (t, (k, w)) = group cs (t, (k, w)).
Proof.
  intros c cs t k w H. unfold group, pick_pfx, pick_ops. cbn [filter flat_map].
  destruct c as [t' m o a|t' l]; cbn [mty] in H;
    replace (t' =? t) with false by (symmetry; apply Z.eqb_neq; exact H); reflexivity.
Qed.

Lemma flat_map_ext_in' : forall (A B : Type) (f g : A -> list B) (l : list A),
  (forall a, In a l -> f a = g a) -> flat_map f l = flat_map g l.
Proof.
  induction l as [|a l IH]; intros H; [reflexivity|]. cbn [flat_map].
  rewrite (H a (or_introl eq_refl)). f_equal. apply IH. intros; apply H; right; assumption.
Qed.

(* ---------------------------------------------------------------- strict order *)

Definition one_prefix_per_type (cs : list mcomp) : Prop := forall t, (length (pick_pfx t cs) <= 1)%nat.

Lemma group_le1 : forall cs t k w, one_prefix_per_type cs -> (length (group cs (t, (k, w))) <= 1)%nat.
Proof.
  intros cs t k w H. unfold group. destruct (k =? 1); [apply H|]. destruct (pick_ops t cs); cbn; lia.
Qed.

Lemma canon_strict_gen : forall cs tb last, one_prefix_per_type cs ->
  StronglySorted Z.lt (map fst tb) -> (forall x, In x (map fst tb) -> last < x) ->
  strict_asc last (map mty (flat_map (group cs) tb)) = true.
Proof.
  induction tb as [|[t [k w]] tb IH]; intros last H1 S HL; [reflexivity|].
  cbn [flat_map map fst] in *. inversion S as [|? ? S' F]; subst. rewrite Forall_forall in F.
  pose proof (group_le1 cs t k w H1) as Hlen.
  destruct (group cs (t, (k, w))) as [|c [|c2 g]] eqn:G.
  - cbn [app]. apply IH; auto. intros x Hx. apply HL. right. exact Hx.
  - cbn [app map strict_asc].
    assert (mty c = t) by (apply (group_ty cs t k w); rewrite G; left; reflexivity).
    replace (last <? mty c) with true by (symmetry; apply Z.ltb_lt; rewrite H; apply HL; left; reflexivity).
    cbn [andb]. apply IH; auto. intros x Hx. rewrite H. apply F. exact Hx.
  - cbn [length] in Hlen. lia.
Qed.

(* C16_order, strict form: with no prefix type written twice the emitted types strictly increase *)
Lemma canon_strict : forall v6 cs, one_prefix_per_type cs ->
  strict_asc 0 (map mty (canon v6 cs)) = true.
Proof.
  intros v6 cs H. unfold canon. apply canon_strict_gen; [exact H|apply table_sorted|].
  intros x Hx. destruct v6; unfold table, table6, table4 in Hx; cbn [map fst] in Hx;
    repeat (destruct Hx as [Hx|Hx]; [lia|]); destruct Hx.
Qed.

(* ---------------------------------------------------------------- the dict view is stable *)

(* a component as the parser delivers it for its table entry: prefix class <-> MPfx, operator class
   <-> MOps with at least one operator *)
Definition well_kinded (k : Z) (c : mcomp) : Prop :=
  match c with MPfx _ _ _ _ => k = 1 | MOps _ ops => k <> 1 /\ ops <> [] end.

Lemma sorted_keys_unique : forall (tb : list (Z * (Z * Z))) t kw kw',
  StronglySorted Z.lt (map fst tb) -> In (t, kw) tb -> In (t, kw') tb -> kw = kw'.
Proof.
  induction tb as [|[t0 kw0] tb IH]; intros t kw kw' S H1 H2; [destruct H1|].
  cbn [map fst] in S. inversion S as [|? ? S' F]; subst. rewrite Forall_forall in F.
  destruct H1 as [H1|H1]; destruct H2 as [H2|H2].
  - congruence.
  - inversion H1; subst. exfalso. assert (t < t) by (apply F; apply in_map_iff; exists (t, kw'); split; auto). lia.
  - inversion H2; subst. exfalso. assert (t < t) by (apply F; apply in_map_iff; exists (t, kw); split; auto). lia.
  - apply (IH t kw kw' S' H1 H2).
Qed.

Lemma canon_id_gen : forall tb cs,
  StronglySorted Z.lt (map fst tb) ->
  StronglySorted Z.lt (map mty cs) ->
  (forall c, In c cs -> exists k w, In (mty c, (k, w)) tb /\ well_kinded k c) ->
  flat_map (group cs) tb = cs.
Proof.
  induction tb as [|[t [k w]] tb IH]; intros cs S Sc Hin.
  - destruct cs as [|c cs]; [reflexivity|]. destruct (Hin c (or_introl eq_refl)) as (? & ? & [] & _).
  - cbn [flat_map]. cbn [map fst] in S. inversion S as [|? ? S' F]; subst. rewrite Forall_forall in F.
    destruct cs as [|c cs'].
    + rewrite group_none by (intros c []). cbn [app].
      apply (IH [] S' Sc). intros c [].
    + cbn [map] in Sc. inversion Sc as [|? ? Sc' Fc]; subst. rewrite Forall_forall in Fc.
      destruct (Z.eq_dec (mty c) t) as [E|E].
      * (* the head component is the one of this table entry *)
        destruct (Hin c (or_introl eq_refl)) as (k' & w' & Hk & Hwk).
        assert (Ekw : (k', w') = (k, w)).
        { rewrite E in Hk. apply (sorted_keys_unique ((t, (k, w)) :: tb) t); [cbn [map fst]; exact S|exact Hk|left; reflexivity]. }
        inversion Ekw; subst k' w'; clear Ekw.
        assert (Hrest : forall c', In c' cs' -> mty c' <> t).
        { intros c' Hc'. assert (mty c < mty c') by (apply Fc; apply in_map; exact Hc'). lia. }
        assert (Hg : group (c :: cs') (t, (k, w)) = [c]).
        { unfold group. destruct c as [t' m o a|t' ops]; cbn [mty] in E; subst t'; cbn [well_kinded] in Hwk.
          - subst k. cbn [Z.eqb Pos.eqb]. unfold pick_pfx. cbn [filter]. rewrite Z.eqb_refl.
            fold (pick_pfx t cs'). rewrite pick_pfx_none by exact Hrest. reflexivity.
          - destruct Hwk as [Hk1 Hne]. replace (k =? 1) with false by (symmetry; apply Z.eqb_neq; exact Hk1).
            unfold pick_ops. cbn [flat_map]. rewrite Z.eqb_refl. fold (pick_ops t cs').
            rewrite pick_ops_none by exact Hrest. rewrite app_nil_r.
            destruct ops; [congruence|reflexivity]. }
        rewrite Hg. cbn [app]. f_equal.
        (* the later entries never pick c *)
        assert (Hskip : flat_map (group (c :: cs')) tb = flat_map (group cs') tb).
        { apply flat_map_ext_in'. intros [t2 [k2 w2]] H2. apply group_cons_other.
          assert (t < t2) by (apply F; apply in_map_iff; exists (t2, (k2, w2)); split; auto). lia. }
        rewrite Hskip. apply (IH cs' S' Sc').
        intros c' Hc'. destruct (Hin c' (or_intror Hc')) as (k' & w' & Hk' & Hwk').
        exists k', w'. split; [|exact Hwk']. destruct Hk' as [Hk'|Hk']; [|exact Hk'].
        inversion Hk'. exfalso. apply (Hrest c' Hc'). congruence.
      * (* no component has this entry's type *)
        assert (Hall : forall c', In c' (c :: cs') -> mty c' <> t /\ exists k' w', In (mty c', (k', w')) tb /\ well_kinded k' c').
        { intros c' Hc'. destruct (Hin c' Hc') as (k' & w' & Hk' & Hwk').
          assert (Hne : mty c' <> t).
          { destruct Hc' as [<-|Hc']; [exact E|].
            destruct (Hin c (or_introl eq_refl)) as (k0 & w0 & Hk0 & _).
            destruct Hk0 as [Hk0|Hk0]; [inversion Hk0; congruence|].
            assert (t < mty c) by (apply F; apply in_map_iff; exists (mty c, (k0, w0)); split; auto).
            assert (mty c < mty c') by (apply Fc; apply in_map; exact Hc'). lia. }
          split; [exact Hne|]. exists k', w'. split; [|exact Hwk'].
          destruct Hk' as [Hk'|Hk']; [inversion Hk'; congruence|exact Hk']. }
        rewrite group_none by (intros c' Hc'; apply (Hall c' Hc')). cbn [app].
        apply (IH (c :: cs') S'); [constructor; [exact Sc'|apply Forall_forall; exact Fc]|].
        intros c' Hc'. apply (Hall c' Hc').
Qed.

(* ---------------------------------------------------------------- hypotheses on the rule as written *)

Lemma table_ranges : forall v6 : bool,
  forallb (fun e : Z * (Z * Z) =>
             if fst (snd e) =? 1 then (fst e =? 1) || (fst e =? 2)
             else (3 <=? fst e) && (fst e <=? (if v6 then 13 else 12)))
          (table v6) = true.
Proof. destruct v6; reflexivity. Qed.

Lemma pick_ops_valid : forall v6 t cs, forallb (rt_ok v6) cs = true ->
  forallb (valid_op (maxw v6 t)) (pick_ops t cs) = true.
Proof.
  induction cs as [|c cs IH]; intros H; [reflexivity|]. cbn [forallb] in H. apply andb_true_iff in H.
  destruct H as [H1 H2]. unfold pick_ops. cbn [flat_map]. rewrite forallb_app. fold (pick_ops t cs).
  rewrite (IH H2), andb_true_r.
  destruct c as [t' m o a|t' l]; [reflexivity|]. destruct (t' =? t) eqn:E; [|reflexivity].
  apply Z.eqb_eq in E. subst t'. cbn [rt_ok] in H1. apply andb_true_iff in H1. destruct H1 as [_ H1]. exact H1.
Qed.

(* what holds of every line of the rule holds of the grouped rule that is packed *)
Lemma canon_rt_ok : forall v6 cs, forallb (rt_ok v6) cs = true -> forallb (rt_ok v6) (canon v6 cs) = true.
Proof.
  intros v6 cs H. apply forallb_forall. intros c Hc. unfold canon in Hc. apply in_flat_map in Hc.
  destruct Hc as ([t [k w]] & Ht & Hg).
  pose proof (table_ranges v6) as TR. rewrite forallb_forall in TR. specialize (TR _ Ht). cbn [fst snd] in TR.
  unfold group in Hg. destruct (k =? 1).
  - unfold pick_pfx in Hg. apply filter_In in Hg. destruct Hg as [Hg _].
    rewrite forallb_forall in H. apply H. exact Hg.
  - destruct (pick_ops t cs) as [|o os] eqn:P; [destruct Hg|]. destruct Hg as [<-|[]].
    cbn [rt_ok]. rewrite TR. cbn [negb andb]. rewrite <- P. apply pick_ops_valid. exact H.
Qed.

Lemma canon_addr_ok : forall v6 cs, forallb addr_ok cs = true -> forallb addr_ok (canon v6 cs) = true.
Proof.
  intros v6 cs H. apply forallb_forall. intros c Hc. unfold canon in Hc. apply in_flat_map in Hc.
  destruct Hc as ([t [k w]] & Ht & Hg). unfold group in Hg. destruct (k =? 1).
  - unfold pick_pfx in Hg. apply filter_In in Hg. destruct Hg as [Hg _]. rewrite forallb_forall in H. apply H. exact Hg.
  - destruct (pick_ops t cs); [destruct Hg|]. destruct Hg as [<-|[]]. reflexivity.
Qed.

(* C16_roundtrip with its hypotheses on the rule as written: every line legal (rt_ok), IPv6 offsets 0,
   no prefix keyword used twice *)
Lemma roundtrip_written : forall v6 r b,
  forallb (rt_ok v6) (m_comps r) = true -> one_prefix_per_type (m_comps r) ->
  (m_rd r = [] \/ length (m_rd r) = 8%nat) ->
  enc_flow v6 r = Some b ->
  ref_flow v6 (negb (match m_rd r with [] => true | _ => false end)) b = ROk (normal v6 r) [].
Proof.
  intros v6 r b H1 H2 H3 H4. apply roundtrip_partial; auto; [apply canon_rt_ok|apply canon_strict]; assumption.
Qed.

Lemma encode_decode_written : forall v6 r b,
  forallb (rt_ok v6) (m_comps r) = true -> forallb addr_ok (m_comps r) = true ->
  one_prefix_per_type (m_comps r) ->
  (m_rd r = [] \/ (length (m_rd r) = 8%nat /\ bytes_ok (m_rd r))) ->
  enc_flow v6 r = Some b ->
  exists mr, dec_flow v6 (negb (match m_rd r with [] => true | _ => false end)) b = DOk mr [] /\
             abs_rule mr = normal v6 r.
Proof.
  intros v6 r b H1 H2 H3 H4 H5.
  apply encode_decode; auto; [apply canon_rt_ok|apply canon_addr_ok|apply canon_strict]; assumption.
Qed.

(* ---------------------------------------------------------------- view of a decoded NLRI *)

Lemma lookup_in : forall t tb kw, lookup t tb = Some kw -> In (t, kw) tb.
Proof.
  induction tb as [|[i kw0] tb IH]; intros kw H; [discriminate|]. cbn [lookup] in H.
  destruct (i =? t) eqn:E.
  - apply Z.eqb_eq in E. inversion H; subst. left. reflexivity.
  - right. apply IH. exact H.
Qed.

Lemma kind_in_table : forall v6 t, kind v6 t <> 0 -> exists w, In (t, (kind v6 t, w)) (table v6).
Proof.
  intros v6 t H. unfold kind in *. destruct (lookup t (table v6)) as [[k w]|] eqn:L; [|congruence].
  exists w. apply lookup_in. exact L.
Qed.

Lemma parse_ops_nonempty : forall fuel l os l2, parse_ops fuel l = Some (os, l2) -> os <> [].
Proof.
  destruct fuel as [|f]; intros l os l2 H; [discriminate|]. cbn [parse_ops] in H.
  destruct l as [|b l1]; [discriminate|].
  destruct (negb (existsb (Z.eqb (2 ^ ((b / 16) mod 4))) VALUE_WIDTHS)); [discriminate|].
  destruct (llen (ltake (2 ^ ((b / 16) mod 4)) l1) =? 2 ^ ((b / 16) mod 4)); [|discriminate].
  destruct (EOL <=? b); [inversion H; subst; discriminate|].
  destruct (parse_ops f (ldrop (2 ^ ((b / 16) mod 4)) l1)) as [[os' r]|]; [|discriminate].
  inversion H; subst. discriminate.
Qed.

Lemma parse_comps_kinded : forall fuel v6 l mcs, parse_comps fuel v6 l = Some mcs ->
  forall c, In c mcs -> exists k w, In (mty c, (k, w)) (table v6) /\ well_kinded k c.
Proof.
  induction fuel as [|f IH]; intros v6 l mcs H c Hc.
  - destruct l; [|discriminate]. inversion H; subst. destruct Hc.
  - destruct l as [|t l1]; [inversion H; subst; destruct Hc|]. cbn [parse_comps] in H.
    destruct (kind v6 t =? 0) eqn:K0; [discriminate|]. apply Z.eqb_neq in K0.
    destruct (kind_in_table v6 t K0) as [w Hw].
    destruct (kind v6 t =? 1) eqn:K1.
    + apply Z.eqb_eq in K1.
      destruct (parse_prefix v6 t l1) as [[c0 l2]|] eqn:PP; [|discriminate].
      destruct (parse_comps f v6 l2) as [cs0|] eqn:PC; [|discriminate].
      inversion H; subst mcs; clear H. destruct Hc as [<-|Hc]; [|apply (IH _ _ _ PC c Hc)].
      assert (exists m o a, c0 = MPfx t m o a) as (m & o & a & ->).
      { unfold parse_prefix in PP. destruct v6.
        - destruct l1 as [|m [|off l3]]; try discriminate. destruct (128 <? m); [discriminate|].
          destruct (llen l3 + 1 <? size m + 1); [discriminate|]. inversion PP; eauto.
        - destruct l1 as [|m l3]; try discriminate. destruct (32 <? m); [discriminate|].
          destruct (llen (m :: l3) <? size m + 1); [discriminate|]. inversion PP; eauto. }
      cbn [mty]. exists (kind v6 t), w. split; [exact Hw|exact K1].
    + apply Z.eqb_neq in K1.
      destruct (parse_ops (length l1) l1) as [[os l2]|] eqn:PO; [|discriminate].
      destruct (parse_comps f v6 l2) as [cs0|] eqn:PC; [|discriminate].
      inversion H; subst mcs; clear H. destruct Hc as [<-|Hc]; [|apply (IH _ _ _ PC c Hc)].
      cbn [mty]. exists (kind v6 t), w. split; [exact Hw|]. split; [exact K1|apply (parse_ops_nonempty _ _ _ _ PO)].
Qed.

Lemma ref_comps_sorted : forall fuel v6 last l cs, ref_comps fuel true v6 last l = COk cs ->
  StronglySorted Z.lt (map comp_ty cs) /\ Forall (fun x => last < x) (map comp_ty cs).
Proof.
  induction fuel as [|f IH]; intros v6 last l cs H.
  - destruct l; [|discriminate]. inversion H; subst. split; constructor.
  - destruct l as [|t l1]; [inversion H; subst; split; constructor|]. cbn [ref_comps] in H.
    destruct (negb (defined_type v6 t)); [discriminate|]. cbn [andb] in H.
    destruct (t <=? last) eqn:E; [discriminate|]. apply Z.leb_gt in E.
    destruct (t <=? 2).
    + destruct (ref_prefix v6 t l1) as [[c l2]|e] eqn:RP; [|discriminate].
      destruct (ref_comps f true v6 t l2) as [cs0|e b0] eqn:RC; cbn [ccons] in H; [|discriminate].
      inversion H; subst cs; clear H. destruct (IH _ _ _ _ RC) as [S1 F1].
      assert (Tc : comp_ty c = t).
      { destruct v6.
        - destruct l1 as [|m [|off l3]]; try discriminate. cbn [ref_prefix] in RP.
          destruct (((m =? 0) && (off =? 0)) || ((off <? m) && (m <=? 128))); [|discriminate].
          destruct (take ((m - off + 7) / 8) l3) as [[? ?]|]; [|discriminate]. inversion RP; reflexivity.
        - destruct l1 as [|m l3]; try discriminate. cbn [ref_prefix] in RP.
          destruct (m <=? 32); [|discriminate]. destruct (take ((m + 7) / 8) l3) as [[? ?]|]; [|discriminate].
          inversion RP; reflexivity. }
      cbn [map]. rewrite Tc. split.
      * constructor; [exact S1|exact F1].
      * constructor; [lia|]. eapply Forall_impl; [|exact F1]. cbn beta. intros; lia.
    + destruct (ref_ops (length l1) l1) as [[os l2]|e]; [|discriminate].
      destruct (ref_comps f true v6 t l2) as [cs0|e b0] eqn:RC; cbn [ccons] in H; [|discriminate].
      inversion H; subst cs; clear H. destruct (IH _ _ _ _ RC) as [S1 F1].
      cbn [map comp_ty]. split.
      * constructor; [exact S1|exact F1].
      * constructor; [lia|]. eapply Forall_impl; [|exact F1]. cbn beta. intros; lia.
Qed.

Lemma abs_comp_ty : forall cs, map comp_ty (map abs_comp cs) = map mty cs.
Proof. induction cs as [|c cs IH]; [reflexivity|]. cbn [map]. rewrite IH. destruct c; reflexivity. Qed.

Lemma dec_flow_comps : forall v6 vpn b mr over, dec_flow v6 vpn b = DOk mr over ->
  exists fuel l, parse_comps fuel v6 l = Some (m_comps mr).
Proof.
  intros v6 vpn b mr over H.
  assert (G : forall len d, dec_body v6 vpn len d = DOk mr over -> exists fuel l, parse_comps fuel v6 l = Some (m_comps mr)).
  { intros len d Hb. unfold dec_body in Hb. destruct (llen d <? len); [discriminate|].
    match type of Hb with context [parse_comps ?f v6 ?l] => destruct (parse_comps f v6 l) as [cs|] eqn:PC; [|discriminate]; exists f, l end.
    inversion Hb; subst. exact PC. }
  destruct b as [|l0 d1]; [discriminate|]. cbn [dec_flow] in H.
  destruct (l0 / 16 * 16 =? LEN_EXT_VALUE).
  - destruct d1 as [|e d2]; [discriminate|]. apply (G _ _ H).
  - apply (G _ _ H).
Qed.

Lemma ref_flow_comps : forall v6 vpn b r over, ref_flow v6 vpn b = ROk r over ->
  exists fuel l, ref_comps fuel true v6 0 l = COk (r_comps r).
Proof.
  intros v6 vpn b r over H. destruct b as [|l0 d1]; [discriminate|].
  unfold ref_flow in H. rewrite ref_flow_gen_unfold in H.
  destruct (if l0 <? 240 then Some (l0, d1)
            else match d1 with [] => None | l1 :: d2 => Some ((l0 - 240) * 256 + l1, d2) end) as [[len d]|]; [|discriminate].
  unfold ref_tail in H. destruct (take len d) as [[body ov]|]; [|discriminate].
  destruct (if vpn then take 8 body else Some ([], body)) as [[rd cs]|]; [|discriminate].
  destruct (ref_comps (length cs) true v6 0 cs) as [comps|e bb] eqn:RC; [|discriminate].
  inversion H; subst. exists (length cs), cs. exact RC.
Qed.

(* C16_decode_agrees, as ExaBGP shows it: the rule delivered for an NLRI the reference accepts is
   already in the order and grouping of Flow.rules / json() (view = identity) and means what the
   reference extracts *)
Lemma decode_agrees_view : forall v6 vpn b r over,
  bytes_ok b -> ref_flow v6 vpn b = ROk r over -> offsets0 (r_comps r) = true ->
  exists mr, dec_flow v6 vpn b = DOk mr over /\ view v6 mr = mr /\ abs_rule (view v6 mr) = r.
Proof.
  intros v6 vpn b r over Hb H Hz.
  destruct (decode_agrees v6 vpn b r over Hb H Hz) as (mr & D & A).
  exists mr. split; [exact D|].
  assert (V : view v6 mr = mr).
  { destruct mr as [rd cs]. unfold view. cbn [m_rd m_comps]. f_equal. unfold canon.
    destruct (dec_flow_comps _ _ _ _ _ D) as (fuel & l & PC). cbn [m_comps] in PC.
    destruct (ref_flow_comps _ _ _ _ _ H) as (fuel' & l' & RC).
    destruct (ref_comps_sorted _ _ _ _ _ RC) as [S _].
    apply canon_id_gen; [apply table_sorted| |apply (parse_comps_kinded _ _ _ _ PC)].
    rewrite <- abs_comp_ty. unfold abs_rule in A. cbn [m_comps m_rd] in A. rewrite <- A in S. exact S. }
  split; [exact V|]. rewrite V. exact A.
Qed.
