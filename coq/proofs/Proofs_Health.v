From Coq Require Import ZArith Bool List Lia.
From ExaV Require Import gen.Gen_Health model.Model_Health.
Import ListNotations.
Open Scope Z_scope.

(* ---------------------------------------------------------------- tie: generated one() = hand model *)

Definition enc_out (x : option hst) : option Z := option_map code x.

Lemma gen_one_is_hstep : forall o fe ck s,
  one o fe ck (cnt s) (code (st s)) =
  (cnt (fst (hstep o fe ck s)), code (st (fst (hstep o fe ck s))), enc_out (snd (hstep o fe ck s))).
Proof.
  intros o fe ck [s c].
  unfold one, hstep, hnext, trigger, trig, is_disabled, hst_eqb, enc_out.
  cbn [st cnt fst snd].
  destruct (negb (disable_code o =? -1) && fe) eqn:D;
  destruct ck; destruct (debounce o);
  destruct s; cbn [code Z.eqb St_INIT St_DISABLED St_RISING St_FALLING St_UP St_DOWN Pos.eqb andb orb negb];
  cbv [St_INIT St_DISABLED St_RISING St_FALLING St_UP St_DOWN]; cbn [Z.eqb Pos.eqb andb orb negb];
  repeat match goal with
         | |- context [?a <=? ?b] => destruct (a <=? b) eqn:?; cbn [Z.eqb Pos.eqb andb orb negb code st cnt option_map]
         | |- context [?a >=? ?b] => destruct (a >=? b) eqn:?; cbn [Z.eqb Pos.eqb andb orb negb code st cnt option_map]
         end; try reflexivity.
Qed.

(* ---------------------------------------------------------------- hysteresis *)

Definition good (o : opts) (i : bool * bool) : bool := snd i && negb (is_disabled o (fst i)).
Definition bad (o : opts) (i : bool * bool) : bool := negb (snd i) && negb (is_disabled o (fst i)).

(* number of most recent inputs that all satisfy p *)
Fixpoint streak (p : bool * bool -> bool) (h : list (bool * bool)) : Z :=
  match h with
  | [] => 0
  | x :: h' => if p x then 1 + streak p h' else 0
  end.

Lemma streak_nonneg : forall p h, 0 <= streak p h.
Proof. induction h as [|x h IH]; cbn [streak]; [lia|destruct (p x); lia]. Qed.

Definition Inv (o : opts) (s : hs) (h : list (bool * bool)) : Prop :=
  match st s with
  | RISING => 1 <= cnt s < rise o /\ cnt s <= streak (good o) h
  | FALLING => 1 <= cnt s < fall o /\ cnt s <= streak (bad o) h
  | UP => rise o <= streak (good o) h /\ 1 <= streak (good o) h
  | DOWN => fall o <= streak (bad o) h /\ 1 <= streak (bad o) h
  | _ => True
  end.

Lemma inv_init : forall o, Inv o hinit [].
Proof. intros; exact I. Qed.

Lemma inv_step : forall o fe ck s h,
  Inv o s h -> Inv o (hnext o fe ck s) ((fe, ck) :: h).
Proof.
  intros o fe ck [s c] h H.
  pose proof (streak_nonneg (good o) h) as Gn.
  pose proof (streak_nonneg (bad o) h) as Bn.
  unfold Inv, hnext, trig, good, bad in *. cbn [st cnt streak fst snd] in *.
  destruct (is_disabled o fe) eqn:D; destruct ck; destruct s;
    cbn [st cnt andb orb negb] in *; try exact I;
    repeat match goal with
           | |- context [?a <=? ?b] => destruct (Z.leb_spec a b); cbn [st cnt andb orb negb]
           | |- context [?a >=? ?b] => rewrite (Z.geb_leb a b); destruct (Z.leb_spec b a); cbn [st cnt andb orb negb]
           end; try exact I; try lia.
Qed.

Lemma inv_run : forall o h, Inv o (runh o h) h.
Proof.
  induction h as [|[fe ck] h IH]; [apply inv_init|].
  cbn [runh hstep fst]. now apply inv_step.
Qed.

Lemma outh_state : forall o x h t, outh o (x :: h) = Some t -> st (runh o (x :: h)) = t.
Proof.
  intros o [fe ck] h t H. cbn [outh runh hstep fst snd] in *.
  destruct (negb (debounce o) || _); congruence.
Qed.

Theorem up_needs_rise : forall o x h,
  outh o (x :: h) = Some UP -> rise o <= streak (good o) (x :: h) /\ 1 <= streak (good o) (x :: h).
Proof.
  intros o x h H. apply outh_state in H.
  pose proof (inv_run o (x :: h)) as I. unfold Inv in I. rewrite H in I. exact I.
Qed.

Theorem down_needs_fall : forall o x h,
  outh o (x :: h) = Some DOWN -> fall o <= streak (bad o) (x :: h) /\ 1 <= streak (bad o) (x :: h).
Proof.
  intros o x h H. apply outh_state in H.
  pose proof (inv_run o (x :: h)) as I. unfold Inv in I. rewrite H in I. exact I.
Qed.

(* a single contrary result never switches the announcement when rise, fall > 1 *)
Theorem no_flap_down : forall o x h,
  1 < fall o -> streak (bad o) (x :: h) <= 1 -> outh o (x :: h) <> Some DOWN.
Proof. intros o x h F S H. apply down_needs_fall in H. lia. Qed.

Theorem no_flap_up : forall o x h,
  1 < rise o -> streak (good o) (x :: h) <= 1 -> outh o (x :: h) <> Some UP.
Proof. intros o x h F S H. apply up_needs_rise in H. lia. Qed.

(* what is written is always the state just reached; with debounce only on a change *)
Theorem out_is_state : forall o x h t, outh o (x :: h) = Some t -> st (runh o (x :: h)) = t.
Proof. exact outh_state. Qed.

Theorem no_debounce_always_writes : forall o x h,
  debounce o = false -> outh o (x :: h) = Some (st (runh o (x :: h))).
Proof.
  intros o [fe ck] h D. cbn [outh runh hstep fst snd]. rewrite D. reflexivity.
Qed.

Theorem debounce_only_on_change : forall o x h t,
  debounce o = true -> outh o (x :: h) = Some t -> st (runh o h) <> t.
Proof.
  intros o [fe ck] h t D H. cbn [outh runh hstep fst snd] in H. rewrite D in H. cbn [negb orb] in H.
  destruct (hst_eqb (st (hnext o fe ck (runh o h))) (st (runh o h))) eqn:E; cbn [negb] in H; [discriminate|].
  injection H as <-. intros C. unfold hst_eqb in E. rewrite C, Z.eqb_refl in E. discriminate.
Qed.

(* the disable file acts at once, whatever the counters *)
Theorem disabled_immediate : forall o fe ck h,
  is_disabled o fe = true -> st (runh o ((fe, ck) :: h)) = DISABLED.
Proof.
  intros o fe ck h D. cbn [runh hstep fst]. unfold hnext. rewrite D.
  destruct (st (runh o h)) eqn:E; cbn [st]; try reflexivity. exact E.
Qed.

(* the automaton never reaches the `raise ValueError` branch of one() *)
Theorem one_never_errors : forall o fe ck s,
  snd (fst (one o fe ck (cnt s) (code (st s)))) <> St_ERROR.
Proof.
  intros. rewrite gen_one_is_hstep. cbn [fst snd].
  destruct (st (fst (hstep o fe ck s))); discriminate.
Qed.

(* ---------------------------------------------------------------- lines *)

Theorem exit_withdraws_all : forall l,
  length (lines l TExit) = nips l /\ Forall (fun x => announce x = false) (lines l TExit).
Proof.
  intros l. unfold lines. split.
  - now rewrite map_length, seq_length.
  - apply Forall_forall. intros x Hx. apply in_map_iff in Hx. destruct Hx as [i [<- _]]. reflexivity.
Qed.

Theorem line_metric : forall l t i, t <> TOther -> (i < nips l)%nat ->
  nth_error (lines l t) i =
    Some {| announce := is_announce l t; ip_index := i; med := base_metric l t + Z.of_nat i * increase l |}.
Proof.
  intros l t i Ht Hi.
  assert (E : lines l t = map (fun i => {| announce := is_announce l t; ip_index := i;
                         med := base_metric l t + Z.of_nat i * increase l |}) (seq 0 (nips l)))
    by (destruct t; try reflexivity; contradiction).
  rewrite E. rewrite nth_error_map.
  assert (S : nth_error (seq 0 (nips l)) i = Some i).
  { rewrite nth_error_nth' with (d := 0%nat) by (rewrite seq_length; exact Hi).
    rewrite seq_nth by exact Hi. reflexivity. }
  rewrite S. reflexivity.
Qed.

Theorem up_announces_down_withdraws_or_metric : forall l,
  Forall (fun x => announce x = true) (lines l TUp) /\
  Forall (fun x => announce x = negb (withdraw_on_down l)) (lines l TDown) /\
  Forall (fun x => announce x = negb (withdraw_on_down l)) (lines l TDisabled).
Proof.
  intros l. repeat split; apply Forall_forall; intros x Hx; unfold lines in Hx;
    apply in_map_iff in Hx; destruct Hx as [i [<- _]]; reflexivity.
Qed.
