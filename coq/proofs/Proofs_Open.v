(* C07 - lemmas: the modelled negotiation is the RFC function; refusals; OPEN framing round trip. *)
From Coq Require Import ZArith Bool List Lia.
From ExaV Require Import gen.Gen_Registry model.Model_Open spec.Spec_Open.
Import ListNotations.
Open Scope Z_scope.

(* ------------------------------------------------------------------ the RFC view of a modelled OPEN *)

Definition mp_of (l : list cap) : list fam := flat_map (fun c => match c with CapMP f => [f] | _ => [] end) l.
Definition as4_of (l : list cap) : list Z := flat_map (fun c => match c with CapASN4 a => [a] | _ => [] end) l.
Definition ap_of (l : list cap) : list (fam * Z) := flat_map (fun c => match c with CapAddPath e => e | _ => [] end) l.
Definition nh_of (l : list cap) : list nhop := flat_map (fun c => match c with CapNextHop e => e | _ => [] end) l.
Definition pl_of (l : list cap) : list (fam * Z) := flat_map (fun c => match c with CapPathsLimit e => e | _ => [] end) l.
Definition is_ms (c : cap) : bool := match c with CapOther code _ => code =? CAP_MULTISESSION | _ => false end.
Definition is_ext (c : cap) : bool := match c with CapExtMsg => true | _ => false end.
Definition is_rr (c : cap) : bool := match c with CapRefresh => true | _ => false end.
Definition is_err (c : cap) : bool := match c with CapEnhRefresh => true | _ => false end.

Definition view (o : open) : adv :=
  {| a_version := o_version o; a_as2 := o_asn o; a_hold := o_hold o; a_id := o_rid o;
     a_mp := mp_of (o_caps o); a_as4 := as4_of (o_caps o); a_addpath := ap_of (o_caps o);
     a_nexthop := nh_of (o_caps o); a_extmsg := existsb is_ext (o_caps o);
     a_refresh := existsb is_rr (o_caps o); a_enhanced := existsb is_err (o_caps o);
     a_paths_limit := pl_of (o_caps o); a_multisession := existsb is_ms (o_caps o);
     a_ms_ids := ms_ids_of_caps (o_caps o) |}.

Definition refresh_code (k : refresh_kind) : Z :=
  match k with RefreshAbsent => REFRESH_ABSENT | RefreshNormal => REFRESH_NORMAL | RefreshEnhanced => REFRESH_ENHANCED end.

(* field by field agreement of the modelled Negotiated with the RFC parameters *)
Definition agrees (n : negotiated) (p : params) : Prop :=
  n_families n = p_families p /\ n_asn4 n = p_asn4 p /\ n_local_as n = p_local_as p /\ n_peer_as n = p_peer_as p
  /\ (forall f, ap_lookup (n_ap_send n) f = p_send p f) /\ (forall f, ap_lookup (n_ap_recv n) f = p_recv p f)
  /\ n_nexthop n = p_nexthop p /\ n_refresh n = refresh_code (p_refresh p)
  /\ n_msg_size n = p_msg_size p /\ n_holdtime n = p_hold p
  /\ (forall f, pl_lookup (n_paths_limit n) f = p_paths_limit p f)
  /\ (forall f, pl_lookup (n_adv_paths_limit n) f = p_adv_paths_limit p f).

(* well-formedness *)
Definition sr_ok (l : list (fam * Z)) : Prop := Forall (fun e => 0 <= snd e <= 3) l.
Definition wf_peer (r : open) : Prop := sr_ok (ap_of (o_caps r)) /\ as_consistent (view r) /\ 0 <= o_hold r.
(* a local AS is configured (not "auto"), is not the reserved AS_TRANS, and a 4-octet one comes with the capability *)
Definition wf_cfg (c : cfg) : Prop :=
  0 < c_local_as c /\ c_local_as c <> AS_TRANS /\ 0 <= c_addpath c <= 3
  /\ (c_asn4 c = true \/ c_local_as c <= 65535)
  /\ NoDup (c_families c) /\ (c_multisession c = true -> c_families c <> []).

(* ------------------------------------------------------------------ equality tests *)

Lemma fam_eqb_eq a b : fam_eqb a b = true <-> a = b.
Proof.
  destruct a as [a1 a2], b as [b1 b2]; unfold fam_eqb; cbn [fst snd].
  rewrite andb_true_iff, !Z.eqb_eq. split; [intros [-> ->]; reflexivity | intros H; inversion H; auto].
Qed.
Lemma fam_eqb_refl a : fam_eqb a a = true.
Proof. apply fam_eqb_eq; reflexivity. Qed.
Lemma fam_eqb_sym a b : fam_eqb a b = fam_eqb b a.
Proof. unfold fam_eqb. now rewrite (Z.eqb_sym (fst a)), (Z.eqb_sym (snd a)). Qed.
Lemma fam_eqb_neq a b : fam_eqb a b = false <-> a <> b.
Proof. rewrite <- fam_eqb_eq. destruct (fam_eqb a b); split; congruence. Qed.

Lemma nh_eqb_eq a b : nh_eqb a b = true <-> a = b.
Proof.
  destruct a as [[a1 a2] a3], b as [[b1 b2] b3]; unfold nh_eqb.
  rewrite !andb_true_iff, !Z.eqb_eq. split; [intros [[-> ->] ->]; reflexivity | intros H; inversion H; auto].
Qed.

Lemma same_family_is a b : same_family a b = fam_eqb a b.
Proof. reflexivity. Qed.
Lemma same_nexthop_is a b : same_nexthop a b = nh_eqb a b.
Proof. destruct a as [[a1 a2] a3], b as [[b1 b2] b3]. reflexivity. Qed.

Lemma memf_In f l : memf f l = true <-> In f l.
Proof.
  unfold memf. rewrite existsb_exists. split.
  - intros [x [Hin He]]. apply fam_eqb_eq in He. now subst.
  - intros Hin. exists f. split; [assumption | apply fam_eqb_refl].
Qed.
Lemma memn_In n l : memn n l = true <-> In n l.
Proof.
  unfold memn. rewrite existsb_exists. split.
  - intros [x [Hin He]]. apply nh_eqb_eq in He. now subst.
  - intros Hin. exists n. split; [assumption | now apply nh_eqb_eq].
Qed.

(* ------------------------------------------------------------------ the dictionary after all TLVs *)

Definition as4_step (acc : option Z) (a : Z) : option Z := Some a.

Lemma fold_caps_gen l : forall cs,
  let cs' := fold_left add_cap l cs in
  odflt (cs_mp cs') = fold_left mp_add (mp_of l) (odflt (cs_mp cs))
  /\ cs_asn4 cs' = fold_left as4_step (as4_of l) (cs_asn4 cs)
  /\ odflt (cs_ap cs') = fold_left ap_set (ap_of l) (odflt (cs_ap cs))
  /\ odflt (cs_nh cs') = fold_left nh_add (nh_of l) (odflt (cs_nh cs))
  /\ cs_ext cs' = cs_ext cs || existsb is_ext l
  /\ cs_rr cs' = cs_rr cs || existsb is_rr l
  /\ cs_err cs' = cs_err cs || existsb is_err l
  /\ odflt (cs_pl cs') = fold_left pl_add (pl_of l) (odflt (cs_pl cs))
  /\ cs_ms cs' = cs_ms cs || existsb is_ms l.
Proof.
  induction l as [|c l IH]; intros cs; cbn [fold_left].
  - cbn. rewrite !orb_false_r. repeat split; reflexivity.
  - specialize (IH (add_cap cs c)). cbv zeta in IH |- *.
    destruct IH as (H1 & H2 & H3 & H4 & H5 & H6 & H7 & H8 & H9).
    rewrite H1, H2, H3, H4, H5, H6, H7, H8, H9.
    unfold mp_of, as4_of, ap_of, nh_of, pl_of. cbn [flat_map existsb].
    destruct c as [f|a|e|e| | | |fl t e|h d|v|e|code data];
      cbn [add_cap is_ext is_rr is_err is_ms];
      try (destruct (code =? CAP_MULTISESSION));
      cbn [set_mp set_asn4 set_ap set_nh set_pl set_ext set_rr set_err set_ms
           cs_mp cs_asn4 cs_ap cs_nh cs_pl cs_ext cs_rr cs_err cs_ms odflt app fold_left orb];
      rewrite ?fold_left_app, ?orb_true_r, ?orb_false_r; cbn [orb]; repeat split; try reflexivity;
      rewrite ?orb_true_r; reflexivity.
Qed.

Lemma as4_step_last l : forall o d,
  fold_left as4_step l o = match l with [] => o | _ => Some (last l d) end.
Proof.
  induction l as [|a l IH]; intros o d; [reflexivity|].
  cbn [fold_left]. rewrite (IH _ d). destruct l; reflexivity.
Qed.

(* ------------------------------------------------------------------ families / next hops: intersection in the peer's order *)

Lemma memf_mp_add f l acc : memf f (fold_left mp_add l acc) = memf f acc || memf f l.
Proof.
  revert acc; induction l as [|x l IH]; intros acc; cbn [fold_left].
  - cbn. now rewrite orb_false_r.
  - rewrite IH. unfold mp_add. destruct (memf x acc) eqn:Hx.
    + cbn [memf existsb]. fold (memf f l).
      destruct (fam_eqb f x) eqn:Hfx; [|reflexivity].
      apply fam_eqb_eq in Hfx; subst. rewrite Hx. reflexivity.
    + unfold memf. rewrite existsb_app. cbn [existsb]. rewrite orb_false_r, orb_assoc. reflexivity.
Qed.

Lemma memn_nh_add n l acc : memn n (fold_left nh_add l acc) = memn n acc || memn n l.
Proof.
  revert acc; induction l as [|x l IH]; intros acc; cbn [fold_left].
  - cbn. now rewrite orb_false_r.
  - rewrite IH. unfold nh_add. destruct (memn x acc) eqn:Hx.
    + cbn [memn existsb]. fold (memn n l).
      destruct (nh_eqb n x) eqn:Hfx; [|reflexivity].
      apply nh_eqb_eq in Hfx; subst. rewrite Hx. reflexivity.
    + unfold memn. rewrite existsb_app. cbn [existsb]. rewrite orb_false_r, orb_assoc. reflexivity.
Qed.

Lemma filter_ext_bool {A} (p q : A -> bool) l : (forall x, p x = q x) -> filter p l = filter q l.
Proof. intros H. induction l as [|x l IH]; cbn; [reflexivity|]. now rewrite H, IH. Qed.

Lemma existsb_ext_eq {A} (p q : A -> bool) l : (forall x, p x = q x) -> existsb p l = existsb q l.
Proof. intros H. induction l as [|x l IH]; cbn; [reflexivity|]. now rewrite H, IH. Qed.

Lemma common_fam ours l : forall acc,
  filter (fun f => existsb (same_family f) ours) (fold_left mp_add l acc)
  = filter (fun f => existsb (same_family f) ours) acc ++ common same_family acc ours l.
Proof.
  induction l as [|x l IH]; intros acc; cbn [fold_left common].
  - now rewrite app_nil_r.
  - rewrite IH. unfold mp_add. change (existsb (same_family x) acc) with (memf x acc).
    destruct (memf x acc); [reflexivity|].
    rewrite filter_app. cbn [filter]. destruct (existsb (same_family x) ours).
    + now rewrite <- app_assoc.
    + now rewrite app_nil_r.
Qed.

Lemma common_nh ours l : forall acc,
  filter (fun f => existsb (same_nexthop f) ours) (fold_left nh_add l acc)
  = filter (fun f => existsb (same_nexthop f) ours) acc ++ common same_nexthop acc ours l.
Proof.
  induction l as [|x l IH]; intros acc; cbn [fold_left common].
  - now rewrite app_nil_r.
  - rewrite IH. unfold nh_add.
    replace (existsb (same_nexthop x) acc) with (memn x acc)
      by (unfold memn; apply existsb_ext_eq; intros; now rewrite same_nexthop_is).
    destruct (memn x acc); [reflexivity|].
    rewrite filter_app. cbn [filter]. destruct (existsb (same_nexthop x) ours).
    + now rewrite <- app_assoc.
    + now rewrite app_nil_r.
Qed.

(* what _negotiate computes for the families, whatever keys are present *)
Lemma families_shape (orc osc : option (list fam)) :
  (match orc, osc with Some rl, Some sl => filter (fun f => memf f sl) rl | _, _ => [] end)
  = filter (fun f => memf f (odflt osc)) (odflt orc).
Proof.
  destruct orc as [rl|], osc as [sl|]; cbn [odflt filter]; try reflexivity.
  induction rl as [|x rl IH]; cbn; [reflexivity | assumption].
Qed.
Lemma nexthop_shape (orc osc : option (list nhop)) :
  (match orc, osc with Some rl, Some sl => filter (fun f => memn f sl) rl | _, _ => [] end)
  = filter (fun f => memn f (odflt osc)) (odflt orc).
Proof.
  destruct orc as [rl|], osc as [sl|]; cbn [odflt filter]; try reflexivity.
  induction rl as [|x rl IH]; cbn; [reflexivity | assumption].
Qed.

(* ------------------------------------------------------------------ ADD-PATH *)

Lemma ap_get_set d e k : ap_get (ap_set d e) k = if fam_eqb k (fst e) then snd e else ap_get d k.
Proof.
  induction d as [|x d IH]; cbn [ap_set].
  - unfold ap_get. cbn [find]. destruct (fam_eqb k (fst e)); reflexivity.
  - destruct (fam_eqb (fst e) (fst x)) eqn:Hex.
    + apply fam_eqb_eq in Hex. unfold ap_get. cbn [find fst snd]. rewrite <- Hex.
      destruct (fam_eqb k (fst e)); reflexivity.
    + unfold ap_get in *. cbn [find]. destruct (fam_eqb k (fst x)) eqn:Hkx.
      * apply fam_eqb_eq in Hkx. subst k. rewrite fam_eqb_sym, Hex. reflexivity.
      * exact IH.
Qed.

Lemma ap_get_fold l : forall d k,
  ap_get (fold_left ap_set l d) k
  = fold_left (fun acc e => if same_family k (fst e) then snd e else acc) l (ap_get d k).
Proof.
  induction l as [|e l IH]; intros d k; cbn [fold_left]; [reflexivity|].
  rewrite IH, ap_get_set. reflexivity.
Qed.

Lemma ap_get_absent d k : memf k (map fst d) = false -> ap_get d k = 0.
Proof.
  unfold ap_get. induction d as [|x d IH]; cbn [map memf existsb find]; [reflexivity|].
  intros H. apply orb_false_iff in H. destruct H as [H1 H2]. rewrite H1. apply IH. exact H2.
Qed.

Lemma lookup_map (g : fam -> bool) l k :
  ap_lookup (map (fun x => (x, g x)) l) k = if memf k l then g k else false.
Proof.
  unfold ap_lookup. induction l as [|x l IH]; cbn [map find memf existsb fst snd]; [reflexivity|].
  destruct (fam_eqb k x) eqn:Hkx.
  - apply fam_eqb_eq in Hkx. subst. reflexivity.
  - cbn [orb]. exact IH.
Qed.

Lemma memf_union s r k : memf k (ap_union s r) = memf k (map fst s) || memf k (map fst r).
Proof.
  unfold ap_union, memf at 1. rewrite existsb_app. fold (memf k (map fst s)).
  destruct (memf k (map fst s)) eqn:Hs; [reflexivity|]. cbn [orb].
  induction (map fst r) as [|x l IH]; cbn [filter existsb memf]; [reflexivity|].
  fold (memf k l).
  destruct (memf x (map fst s)) eqn:Hx; cbn [negb existsb].
  - destruct (fam_eqb k x) eqn:Hkx.
    + apply fam_eqb_eq in Hkx. subst. congruence.
    + cbn [orb]. exact IH.
  - now rewrite IH.
Qed.

Lemma bit_send_0 : bit_send 0 = false. Proof. reflexivity. Qed.
Lemma bit_recv_0 : bit_recv 0 = false. Proof. reflexivity. Qed.

Lemma ap_send_lookup s r k :
  ap_lookup (ap_setup_send s r) k = bit_send (ap_get s k) && bit_recv (ap_get r k).
Proof.
  unfold ap_setup_send. rewrite lookup_map, memf_union.
  destruct (memf k (map fst s)) eqn:Hs; [reflexivity|].
  destruct (memf k (map fst r)) eqn:Hr; [reflexivity|].
  rewrite (ap_get_absent _ _ Hs). reflexivity.
Qed.
Lemma ap_recv_lookup s r k :
  ap_lookup (ap_setup_recv s r) k = bit_recv (ap_get s k) && bit_send (ap_get r k).
Proof.
  unfold ap_setup_recv. rewrite lookup_map, memf_union.
  destruct (memf k (map fst s)) eqn:Hs; [reflexivity|].
  destruct (memf k (map fst r)) eqn:Hr; [reflexivity|].
  rewrite (ap_get_absent _ _ Hs). reflexivity.
Qed.

Lemma bits_are_rfc x : 0 <= x <= 3 -> bit_send x = can_send x /\ bit_recv x = can_receive x.
Proof.
  intros H. assert (x = 0 \/ x = 1 \/ x = 2 \/ x = 3) as [-> | [-> | [-> | ->]]] by lia; split; reflexivity.
Qed.

Lemma sr_fold_range k l : forall a, 0 <= a <= 3 -> sr_ok l ->
  0 <= fold_left (fun acc e => if same_family k (fst e) then snd e else acc) l a <= 3.
Proof.
  induction l as [|e l IH]; intros a Ha Hl; cbn [fold_left]; [exact Ha|].
  unfold sr_ok in Hl. apply Forall_cons_iff in Hl. destruct Hl as [He Hl].
  apply IH; [|exact Hl]. cbv beta. destruct (same_family _ _); [exact He | exact Ha].
Qed.

(* ------------------------------------------------------------------ PATHS-LIMIT *)

Lemma pl_lookup_none d k : pl_lookup d k = None <-> memf k (map fst d) = false.
Proof.
  unfold pl_lookup. induction d as [|x d IH]; cbn [find map memf existsb]; [tauto|].
  destruct (fam_eqb k (fst x)); cbn [orb]; [split; discriminate | exact IH].
Qed.

Lemma pl_lookup_snoc d e k :
  pl_lookup (d ++ [e]) k = match pl_lookup d k with Some v => Some v | None => if fam_eqb k (fst e) then Some (snd e) else None end.
Proof.
  unfold pl_lookup. induction d as [|x d IH]; cbn [app find].
  - destruct (fam_eqb k (fst e)); reflexivity.
  - destruct (fam_eqb k (fst x)); [reflexivity | exact IH].
Qed.

Lemma pl_lookup_fold l : forall d k,
  pl_lookup (fold_left pl_add l d) k = match pl_lookup d k with Some v => Some v | None => first_limit l k end.
Proof.
  induction l as [|e l IH]; intros d k; cbn [fold_left first_limit].
  - destruct (pl_lookup d k); reflexivity.
  - rewrite IH. unfold pl_add. rewrite same_family_is. unfold family, fam in *.
    destruct (snd e =? 0) eqn:Hz; cbn [negb].
    + rewrite andb_false_r. reflexivity.
    + rewrite andb_true_r. destruct (memf (fst e) (map fst d)) eqn:Hm.
      * destruct (pl_lookup d k) eqn:Hk; [reflexivity|].
        destruct (fam_eqb k (fst e)) eqn:Hke; [|reflexivity].
        apply fam_eqb_eq in Hke. subst k. apply pl_lookup_none in Hk. unfold family, fam in *. congruence.
      * rewrite pl_lookup_snoc. unfold family, fam in *. destruct (pl_lookup d k); [reflexivity|].
        destruct (fam_eqb k (fst e)); reflexivity.
Qed.

Lemma pl_lookup_filter (g : fam -> bool) d k :
  pl_lookup (filter (fun e => g (fst e)) d) k = if g k then pl_lookup d k else None.
Proof.
  unfold pl_lookup. induction d as [|x d IH]; cbn [filter find]; [destruct (g k); reflexivity|].
  destruct (fam_eqb k (fst x)) eqn:Hkx.
  - assert (Hk : fst x = k) by (symmetry; apply fam_eqb_eq; exact Hkx).
    replace (g (fst x)) with (g k) by (now rewrite Hk).
    destruct (g k) eqn:Hg.
    + cbn [find]. rewrite Hkx. reflexivity.
    + exact IH.
  - destruct (g (fst x)); [cbn [find]; rewrite Hkx|]; exact IH.
Qed.

Lemma pl_shape_send (orap osap orpl : option (list (fam * Z))) k :
  pl_lookup (match orap, osap, orpl with
             | Some rap, Some sap, Some rpl =>
                 filter (fun e => memf (fst e) (map fst rap) && ap_lookup (ap_setup_send sap rap) (fst e)) rpl
             | _, _, _ => [] end) k
  = if ap_lookup (ap_setup_send (odflt osap) (odflt orap)) k then pl_lookup (odflt orpl) k else None.
Proof.
  rewrite ap_send_lookup.
  destruct orap as [rap|], osap as [sap|], orpl as [rpl|]; cbn [odflt];
    try (change (ap_get [] k) with 0; rewrite ?bit_send_0, ?bit_recv_0, ?andb_false_r; cbn [andb];
         try reflexivity; destruct (_ && _); reflexivity).
  rewrite (pl_lookup_filter (fun f => memf f (map fst rap) && ap_lookup (ap_setup_send sap rap) f)), ap_send_lookup.
  destruct (memf k (map fst rap)) eqn:Hm; [reflexivity|].
  rewrite (ap_get_absent _ _ Hm), bit_recv_0, andb_false_r. reflexivity.
Qed.

Lemma pl_shape_recv (orap osap ospl : option (list (fam * Z))) k :
  pl_lookup (match orap, osap, ospl with
             | Some rap, Some sap, Some spl =>
                 filter (fun e => memf (fst e) (map fst sap) && ap_lookup (ap_setup_recv sap rap) (fst e)) spl
             | _, _, _ => [] end) k
  = if ap_lookup (ap_setup_recv (odflt osap) (odflt orap)) k then pl_lookup (odflt ospl) k else None.
Proof.
  rewrite ap_recv_lookup.
  destruct orap as [rap|], osap as [sap|], ospl as [spl|]; cbn [odflt];
    try (change (ap_get [] k) with 0; rewrite ?bit_send_0, ?bit_recv_0, ?andb_false_r; cbn [andb];
         try reflexivity; destruct (_ && _); reflexivity).
  rewrite (pl_lookup_filter (fun f => memf f (map fst sap) && ap_lookup (ap_setup_recv sap rap) f)), ap_recv_lookup.
  destruct (memf k (map fst sap)) eqn:Hm; [reflexivity|].
  rewrite (ap_get_absent _ _ Hm), bit_recv_0. reflexivity.
Qed.

(* ------------------------------------------------------------------ the main theorem, for two arbitrary OPENs *)

Definition local_as_ok (fx : bool) (s : open) : Prop :=
  a_as4 (view s) = [] \/ o_asn s = true_as (view s) \/ (fx = true /\ o_asn s = AS_TRANS).

Lemma true_as_last o : true_as (view o) = last (as4_of (o_caps o)) (o_asn o).
Proof. reflexivity. Qed.

Lemma pick_last (l : list Z) (f : Z) (b : bool) :
  match (match l with [] => None | _ :: _ => Some (last l f) end) with
  | Some a => if b then a else f | None => f end
  = if b then last l f else f.
Proof. destruct l; destruct b; reflexivity. Qed.

Theorem negotiate_g_rfc fx s r :
  sr_ok (ap_of (o_caps s)) -> sr_ok (ap_of (o_caps r)) ->
  as_consistent (view r) -> local_as_ok fx s ->
  agrees (negotiate_g fx s r) (rfc_negotiate (view s) (view r)).
Proof.
  intros Hs Hr Hcons Hloc.
  destruct (fold_caps_gen (o_caps s) cs_empty) as (S1 & S2 & S3 & S4 & S5 & S6 & S7 & S8 & S9).
  destruct (fold_caps_gen (o_caps r) cs_empty) as (R1 & R2 & R3 & R4 & R5 & R6 & R7 & R8 & R9).
  cbv zeta in *. fold (fold_caps (o_caps s)) in *. fold (fold_caps (o_caps r)) in *.
  cbn [cs_empty cs_mp cs_asn4 cs_ap cs_nh cs_pl cs_ext cs_rr cs_err cs_ms odflt orb] in *.
  assert (Hsome : forall o, is_some (cs_asn4 (fold_caps (o_caps o))) = speaks_as4 (view o)).
  { intros o. destruct (fold_caps_gen (o_caps o) cs_empty) as (_ & X & _). cbv zeta in X.
    fold (fold_caps (o_caps o)) in X. rewrite X. cbn [cs_empty cs_asn4].
    rewrite (as4_step_last _ _ 0). unfold speaks_as4. cbn [view a_as4].
    destruct (as4_of (o_caps o)); reflexivity. }
  unfold agrees, negotiate_g, rfc_negotiate.
  cbn [n_families n_asn4 n_local_as n_peer_as n_ap_send n_ap_recv n_nexthop n_refresh n_msg_size n_holdtime
       n_paths_limit n_adv_paths_limit
       p_families p_asn4 p_local_as p_peer_as p_send p_recv p_nexthop p_refresh p_msg_size p_hold
       p_paths_limit p_adv_paths_limit].
  repeat split.
  - (* families *)
    rewrite families_shape, R1, S1. cbn [view a_mp].
    rewrite (filter_ext_bool _ (fun f => existsb (same_family f) (mp_of (o_caps s)))).
    + rewrite common_fam. reflexivity.
    + intros x. rewrite memf_mp_add. reflexivity.
  - (* asn4 *) now rewrite !Hsome.
  - (* local AS *)
    rewrite S2, (as4_step_last _ _ (o_asn s)), pick_last, true_as_last.
    destruct Hloc as [H|[H|[H1 H2]]].
    + cbn [view a_as4] in H. rewrite H. cbn [last]. destruct (fx && _); reflexivity.
    + rewrite true_as_last in H. destruct (fx && _); [reflexivity | exact H].
    + subst fx. rewrite H2 at 1. rewrite Z.eqb_refl. reflexivity.
  - (* peer AS *)
    rewrite !Hsome, R2, (as4_step_last _ _ (o_asn r)), pick_last.
    change (a_as2 (view r)) with (o_asn r). rewrite true_as_last.
    destruct (as4_of (o_caps r)) as [|a l] eqn:E.
    + cbn [last]. destruct (speaks_as4 (view s)); destruct (_ && _); reflexivity.
    + rewrite <- E.
      assert (Hr4 : speaks_as4 (view r) = true) by (unfold speaks_as4; cbn [view a_as4]; rewrite E; reflexivity).
      rewrite Hr4, andb_true_r.
      destruct (speaks_as4 (view s)); [|rewrite andb_false_r; reflexivity].
      rewrite andb_true_r.
      destruct Hcons as [Hc|Hc]; [cbn [view a_as4] in Hc; congruence|].
      rewrite true_as_last in Hc. change (a_as2 (view r)) with (o_asn r) in Hc.
      destruct (o_asn r =? AS_TRANS) eqn:Ht; [reflexivity|].
      apply Z.eqb_neq in Ht.
      destruct (last (as4_of (o_caps r)) (o_asn r) <=? 65535); [congruence|].
      exfalso. apply Ht. rewrite Hc. reflexivity.
  - (* add-path send *)
    intros f. rewrite ap_send_lookup, S3, R3, !ap_get_fold.
    change (ap_get [] f) with 0. unfold send_receive. cbn [view a_addpath].
    pose proof (sr_fold_range f _ 0 ltac:(lia) Hs) as B1.
    pose proof (sr_fold_range f _ 0 ltac:(lia) Hr) as B2.
    destruct (bits_are_rfc _ B1) as [-> _]. destruct (bits_are_rfc _ B2) as [_ ->]. reflexivity.
  - (* add-path receive *)
    intros f. rewrite ap_recv_lookup, S3, R3, !ap_get_fold.
    change (ap_get [] f) with 0. unfold send_receive. cbn [view a_addpath].
    pose proof (sr_fold_range f _ 0 ltac:(lia) Hs) as B1.
    pose proof (sr_fold_range f _ 0 ltac:(lia) Hr) as B2.
    destruct (bits_are_rfc _ B1) as [_ ->]. destruct (bits_are_rfc _ B2) as [-> _]. reflexivity.
  - (* next hop *)
    rewrite nexthop_shape, R4, S4. cbn [view a_nexthop].
    rewrite (filter_ext_bool _ (fun f => existsb (same_nexthop f) (nh_of (o_caps s)))).
    + rewrite common_nh. reflexivity.
    + intros x. rewrite memn_nh_add. cbn [memn existsb orb]. unfold memn.
      apply existsb_ext_eq. intros y. now rewrite same_nexthop_is.
  - (* refresh *)
    rewrite R7, S7, R6, S6. cbn [view a_enhanced a_refresh].
    rewrite (andb_comm (existsb is_err (o_caps r))), (andb_comm (existsb is_rr (o_caps r))).
    destruct (existsb is_err (o_caps s) && existsb is_err (o_caps r)); [reflexivity|].
    destruct (existsb is_rr (o_caps s) && existsb is_rr (o_caps r)); reflexivity.
  - (* message size *)
    rewrite R5, S5. cbn [view a_extmsg]. rewrite andb_comm.
    destruct (existsb is_ext (o_caps s) && existsb is_ext (o_caps r)); reflexivity.
  - (* paths limit that binds us *)
    intros f. rewrite pl_shape_send, ap_send_lookup, S3, R3, R8, !ap_get_fold, pl_lookup_fold.
    change (ap_get [] f) with 0. change (pl_lookup [] f) with (@None Z).
    unfold send_receive. cbn [view a_addpath a_paths_limit].
    pose proof (sr_fold_range f _ 0 ltac:(lia) Hs) as B1.
    pose proof (sr_fold_range f _ 0 ltac:(lia) Hr) as B2.
    destruct (bits_are_rfc _ B1) as [-> _]. destruct (bits_are_rfc _ B2) as [_ ->]. reflexivity.
  - (* paths limit we advertised *)
    intros f. rewrite pl_shape_recv, ap_recv_lookup, S3, R3, S8, !ap_get_fold, pl_lookup_fold.
    change (ap_get [] f) with 0. change (pl_lookup [] f) with (@None Z).
    unfold send_receive. cbn [view a_addpath a_paths_limit].
    pose proof (sr_fold_range f _ 0 ltac:(lia) Hs) as B1.
    pose proof (sr_fold_range f _ 0 ltac:(lia) Hr) as B2.
    destruct (bits_are_rfc _ B1) as [_ ->]. destruct (bits_are_rfc _ B2) as [-> _]. reflexivity.
Qed.

(* ------------------------------------------------------------------ what our OPEN advertises *)

Definition our_adv (c : cfg) : adv :=
  {| a_version := 4; a_as2 := (if c_local_as c <=? 65535 then c_local_as c else 23456); a_hold := c_hold c; a_id := c_rid c;
     a_mp := c_families c;
     a_as4 := (if c_asn4 c then [c_local_as c] else []);
     a_addpath := (if c_addpath c =? 0 then []
                   else map (fun f => (f, c_addpath c)) (filter (fun f => memf f (c_addpaths c)) ADD_PATH_TABLE));
     a_nexthop := (if c_nexthop c then filter (fun n => memn n (c_nexthops c)) NEXTHOP_TABLE else []);
     a_extmsg := c_extmsg c; a_refresh := c_refresh c; a_enhanced := c_refresh c;
     a_paths_limit := (if c_addpath c =? 0 then [] else our_paths_limit c);
     a_multisession := c_multisession c;
     a_ms_ids := (if c_multisession c then our_ms_ids else []) |}.

Lemma flat_map_opt {B} (g : cap -> list B) b l : flat_map g (opt b l) = if b then flat_map g l else [].
Proof. destruct b; reflexivity. Qed.
Lemma existsb_opt (g : cap -> bool) b l : existsb g (opt b l) = b && existsb g l.
Proof. destruct b; reflexivity. Qed.
Lemma if_same {A} (b : bool) (x : A) : (if b then x else x) = x.
Proof. destruct b; reflexivity. Qed.
Lemma mp_of_map l : flat_map (fun c => match c with CapMP f => [f] | _ => [] end) (map CapMP l) = l.
Proof. induction l as [|x l IH]; cbn; [reflexivity | now rewrite IH]. Qed.
Lemma flat_map_mp_nil {B} (g : cap -> list B) l : (forall f, g (CapMP f) = []) -> flat_map g (map CapMP l) = [].
Proof. intros H. induction l as [|x l IH]; cbn; [reflexivity | now rewrite H, IH]. Qed.
Lemma existsb_mp_false (g : cap -> bool) l : (forall f, g (CapMP f) = false) -> existsb g (map CapMP l) = false.
Proof. intros H. induction l as [|x l IH]; cbn; [reflexivity | now rewrite H, IH]. Qed.

Theorem view_open_of c : view (open_of c) = our_adv c.
Proof.
  unfold view, open_of, our_adv, caps_of_config, mp_of, as4_of, ap_of, nh_of, pl_of, ms_ids_of_caps, ms_tlvs, our_ms_ids, ms_ids.
  destruct MS_VALUE_PARSED.
  all: cbn [o_version o_asn o_hold o_rid o_caps].
  all: rewrite !flat_map_app, !existsb_app, !flat_map_opt, !existsb_opt, mp_of_map.
  all: rewrite !(flat_map_mp_nil _ _ (fun _ => eq_refl)), !(existsb_mp_false _ _ (fun _ => eq_refl)).
  all: cbn [flat_map existsb is_ext is_rr is_err is_ms app orb andb].
  all: change (CAP_OPERATIONAL =? CAP_MULTISESSION) with false; change (CAP_LINK_LOCAL_NEXTHOP =? CAP_MULTISESSION) with false.
  all: change (CAP_MULTISESSION =? CAP_MULTISESSION) with true; cbn [orb skipn app].
  all: rewrite !if_same, !andb_false_r, !andb_true_r, !app_nil_r; cbn [app orb].
  all: rewrite ?orb_false_r.
  all: f_equal;
    try (unfold trans, ASN_MAX_2BYTE, AS_TRANS;
         destruct (Z.gtb_spec (c_local_as c) 65535), (Z.leb_spec (c_local_as c) 65535); (reflexivity || lia));
    try (destruct (c_addpath c =? 0); cbn [negb andb]; try destruct (our_paths_limit c); cbn [length Nat.eqb negb]);
    repeat match goal with |- context [if ?b then _ else _] => destruct b end; reflexivity.
Qed.


(* ------------------------------------------------------------------ configuration level statements *)

Lemma ap_of_ours c : ap_of (o_caps (open_of c)) = a_addpath (our_adv c).
Proof. change (ap_of (o_caps (open_of c))) with (a_addpath (view (open_of c))). now rewrite view_open_of. Qed.
Lemma as4_of_ours c : as4_of (o_caps (open_of c)) = a_as4 (our_adv c).
Proof. change (as4_of (o_caps (open_of c))) with (a_as4 (view (open_of c))). now rewrite view_open_of. Qed.

Lemma sr_ok_ours c : wf_cfg c -> sr_ok (ap_of (o_caps (open_of c))).
Proof.
  intros (_ & _ & Hap & _). rewrite ap_of_ours. cbn [our_adv a_addpath].
  destruct (c_addpath c =? 0); [constructor|].
  unfold sr_ok. apply Forall_forall. intros e He. apply in_map_iff in He. destruct He as [f [<- _]]. exact Hap.
Qed.

Lemma true_as_ours c : wf_cfg c -> true_as (our_adv c) = c_local_as c.
Proof.
  intros (_ & _ & _ & H & _). unfold true_as. cbn [our_adv a_as4 a_as2].
  destruct (c_asn4 c); [reflexivity|]. destruct H as [H|H]; [discriminate|].
  cbn [last]. apply Z.leb_le in H. now rewrite H.
Qed.

Lemma local_as_ok_ours fx c : wf_cfg c -> fx = true \/ c_local_as c <= 65535 -> local_as_ok fx (open_of c).
Proof.
  intros Hwf Hfx. unfold local_as_ok. rewrite view_open_of, (true_as_ours _ Hwf).
  cbn [open_of o_asn]. unfold trans, ASN_MAX_2BYTE.
  destruct (Z.gtb_spec (c_local_as c) 65535) as [Hgt|Hle].
  - destruct Hfx as [->|H]; [right; right; split; reflexivity | lia].
  - right; left; reflexivity.
Qed.

Theorem negotiate_is_rfc fx c r :
  wf_cfg c -> wf_peer r -> fx = true \/ c_local_as c <= 65535 ->
  agrees (negotiate_g fx (open_of c) r) (rfc_negotiate (our_adv c) (view r)).
Proof.
  intros Hc (Hr1 & Hr2 & _) Hfx. rewrite <- view_open_of.
  apply negotiate_g_rfc; [apply sr_ok_ours; exact Hc | exact Hr1 | exact Hr2 | apply local_as_ok_ours; assumption].
Qed.

(* the defect of the unrepaired behaviour (fx = false): a 4-octet local AS is negotiated as AS_TRANS *)
Definition cfg_70000 : cfg :=
  {| c_local_as := 70000; c_peer_as := 65001; c_rid := 16909060; c_hold := 180; c_families := [(1, 1)]; c_asn4 := true;
     c_nexthop := false; c_nexthops := []; c_addpath := 0; c_addpaths := []; c_gr := false; c_gr_time := 0;
     c_restarted := false; c_refresh := false; c_operational := false; c_extmsg := false; c_host := []; c_domain := [];
     c_software := []; c_linklocal := false; c_paths_limit := []; c_multisession := false |}.
Definition peer_65001 : open :=
  {| o_version := 4; o_asn := 65001; o_hold := 90; o_rid := 16909061; o_caps := [CapMP (1, 1); CapASN4 65001] |}.

Lemma wf_cfg_70000 : wf_cfg cfg_70000.
Proof. unfold wf_cfg, cfg_70000, AS_TRANS; cbn. repeat split; try lia; try discriminate. repeat constructor; intros []. Qed.
Lemma wf_peer_65001 : wf_peer peer_65001.
Proof.
  unfold wf_peer, peer_65001. cbn. repeat split; try lia.
  - constructor.
  - right. reflexivity.
Qed.

Theorem local_as_refuted :
  exists c r, wf_cfg c /\ wf_peer r /\
    n_local_as (negotiate_g false (open_of c) r) = 23456 /\ p_local_as (rfc_negotiate (our_adv c) (view r)) = 70000.
Proof. exists cfg_70000, peer_65001. split; [exact wf_cfg_70000|]. split; [exact wf_peer_65001|]. split; reflexivity. Qed.

(* hold time, message size, ADD-PATH direction, families: direct readings *)
Theorem holdtime_min fx c r :
  n_holdtime (negotiate_g fx (open_of c) r) = Z.min (c_hold c) (o_hold r).
Proof. reflexivity. Qed.

Theorem msg_size_both fx c r :
  n_msg_size (negotiate_g fx (open_of c) r)
  = if c_extmsg c && existsb is_ext (o_caps r) then 65535 else 4096.
Proof.
  destruct (fold_caps_gen (o_caps (open_of c)) cs_empty) as (_ & _ & _ & _ & S5 & _).
  destruct (fold_caps_gen (o_caps r) cs_empty) as (_ & _ & _ & _ & R5 & _).
  cbv zeta in *. cbn [negotiate_g n_msg_size]. fold (fold_caps (o_caps (open_of c))) in *. fold (fold_caps (o_caps r)) in *.
  rewrite R5, S5. cbn [cs_empty cs_ext orb].
  change (existsb is_ext (o_caps (open_of c))) with (a_extmsg (view (open_of c))). rewrite view_open_of.
  cbn [our_adv a_extmsg]. rewrite andb_comm. reflexivity.
Qed.

Theorem addpath_direction fx c r f :
  wf_cfg c -> sr_ok (ap_of (o_caps r)) ->
  let n := negotiate_g fx (open_of c) r in
  ap_lookup (n_ap_send n) f = can_send (send_receive (our_adv c) f) && can_receive (send_receive (view r) f)
  /\ ap_lookup (n_ap_recv n) f = can_receive (send_receive (our_adv c) f) && can_send (send_receive (view r) f).
Proof.
  intros Hc Hr n. subst n.
  destruct (fold_caps_gen (o_caps (open_of c)) cs_empty) as (_ & _ & S3 & _).
  destruct (fold_caps_gen (o_caps r) cs_empty) as (_ & _ & R3 & _).
  cbv zeta in *. cbn [negotiate_g n_ap_send n_ap_recv].
  fold (fold_caps (o_caps (open_of c))) in *. fold (fold_caps (o_caps r)) in *.
  rewrite ap_send_lookup, ap_recv_lookup, S3, R3, !ap_get_fold. cbn [cs_empty cs_ap odflt].
  change (ap_get [] f) with 0.
  pose proof (sr_fold_range f _ 0 ltac:(lia) (sr_ok_ours _ Hc)) as B1.
  pose proof (sr_fold_range f _ 0 ltac:(lia) Hr) as B2.
  destruct (bits_are_rfc _ B1) as [-> ->]. destruct (bits_are_rfc _ B2) as [-> ->].
  unfold send_receive. rewrite <- ap_of_ours. split; reflexivity.
Qed.

Lemma NoDup_snoc {A} (l : list A) x : NoDup l -> ~ In x l -> NoDup (l ++ [x]).
Proof.
  induction l as [|y l IH]; intros Hn Hx; cbn.
  - constructor; [intros []|constructor].
  - apply NoDup_cons_iff in Hn. destruct Hn as [Hy Hn]. constructor.
    + rewrite in_app_iff. intros [H|[H|[]]]; [tauto | subst; apply Hx; left; reflexivity].
    + apply IH; [exact Hn | intros H; apply Hx; right; exact H].
Qed.

Lemma NoDup_mp_add l : forall acc, NoDup acc -> NoDup (fold_left mp_add l acc).
Proof.
  induction l as [|x l IH]; intros acc H; cbn [fold_left]; [exact H|].
  apply IH. unfold mp_add. destruct (memf x acc) eqn:Hx; [exact H|].
  apply NoDup_snoc; [exact H | intros Hin; apply memf_In in Hin; congruence].
Qed.

Lemma In_mp_add f l acc : In f (fold_left mp_add l acc) <-> In f acc \/ In f l.
Proof. rewrite <- !memf_In, memf_mp_add, orb_true_iff. reflexivity. Qed.

Theorem families_intersection fx c r f :
  let n := negotiate_g fx (open_of c) r in
  (In f (n_families n) <-> In f (c_families c) /\ In f (mp_of (o_caps r))) /\ NoDup (n_families n).
Proof.
  intros n. subst n.
  destruct (fold_caps_gen (o_caps (open_of c)) cs_empty) as (S1 & _).
  destruct (fold_caps_gen (o_caps r) cs_empty) as (R1 & _).
  cbv zeta in *. cbn [negotiate_g n_families].
  fold (fold_caps (o_caps (open_of c))) in *. fold (fold_caps (o_caps r)) in *.
  rewrite families_shape, R1, S1. cbn [cs_empty cs_mp odflt].
  change (mp_of (o_caps (open_of c))) with (a_mp (view (open_of c))). rewrite view_open_of. cbn [our_adv a_mp].
  split.
  - rewrite filter_In, memf_In, !In_mp_add. cbn [In]. tauto.
  - apply NoDup_filter, NoDup_mp_add. constructor.
Qed.

(* ------------------------------------------------------------------ refusals *)

Lemma peer_as_cases fx s r :
  let n := negotiate_g fx s r in
  n_peer_as n = o_asn r \/
  (o_asn r = AS_TRANS /\ as4_of (o_caps r) <> [] /\ n_peer_as n = last (as4_of (o_caps r)) (o_asn r)).
Proof.
  intros n. subst n.
  destruct (fold_caps_gen (o_caps r) cs_empty) as (_ & R2 & _). cbv zeta in R2.
  cbn [negotiate_g n_peer_as]. fold (fold_caps (o_caps r)) in *.
  rewrite R2, (as4_step_last _ _ (o_asn r)). cbn [cs_empty cs_asn4].
  destruct (as4_of (o_caps r)) as [|a l] eqn:E; [left; reflexivity|].
  rewrite <- E. destruct (o_asn r =? AS_TRANS) eqn:Ht; cbn [andb]; [|left; reflexivity].
  destruct (is_some _ && is_some _); [|left; reflexivity].
  right. apply Z.eqb_eq in Ht. repeat split; [exact Ht | congruence].
Qed.

Lemma fams_eqb_is a : forall b, fams_eqb a b = same_families a b.
Proof. intros b. reflexivity. Qed.

Lemma mp_add_nodup l : forall acc, NoDup (acc ++ l) -> fold_left mp_add l acc = acc ++ l.
Proof.
  induction l as [|x l IH]; intros acc H; cbn [fold_left]; [now rewrite app_nil_r|].
  unfold mp_add. destruct (memf x acc) eqn:Hx.
  - apply memf_In in Hx. apply NoDup_remove_2 in H. exfalso. apply H. apply in_or_app. left. exact Hx.
  - rewrite IH; rewrite <- app_assoc; [reflexivity | exact H].
Qed.

Lemma filter_all {A} (p : A -> bool) l : (forall x, In x l -> p x = true) -> filter p l = l.
Proof.
  induction l as [|x l IH]; intros H; cbn; [reflexivity|].
  rewrite (H x (or_introl eq_refl)), IH; [reflexivity | intros y Hy; apply H; right; exact Hy].
Qed.

Lemma dedup_is_common l : fold_left mp_add l [] = common same_family [] l l.
Proof.
  pose proof (common_fam l l []) as H. cbn [filter app] in H. etransitivity; [|exact H].
  symmetry. apply filter_all. intros x Hx. apply In_mp_add in Hx. destruct Hx as [[]|Hx].
  change (existsb (same_family x) l) with (memf x l). apply memf_In. exact Hx.
Qed.

Lemma ms_agrees fx c r : wf_cfg c ->
  match n_ms (negotiate_g fx (open_of c) r) with
  | MsRefuse a b => ms_faults (our_adv c) (view r) = [(a, b)]
  | _ => ms_faults (our_adv c) (view r) = []
  end.
Proof.
  intros (_ & _ & _ & _ & Hnd & Hne).
  destruct (fold_caps_gen (o_caps (open_of c)) cs_empty) as (S1 & _ & _ & _ & _ & _ & _ & _ & S9).
  destruct (fold_caps_gen (o_caps r) cs_empty) as (R1 & _ & _ & _ & _ & _ & _ & _ & R9).
  cbv zeta in *. fold (fold_caps (o_caps (open_of c))) in *. fold (fold_caps (o_caps r)) in *.
  cbn [cs_empty cs_mp cs_ms odflt orb] in *.
  change (existsb is_ms (o_caps (open_of c))) with (a_multisession (view (open_of c))) in S9.
  change (mp_of (o_caps (open_of c))) with (a_mp (view (open_of c))) in S1.
  rewrite view_open_of in S1, S9. cbn [our_adv a_multisession a_mp] in S1, S9.
  rewrite (mp_add_nodup _ [] Hnd) in S1. cbn [app] in S1.
  cbn [negotiate_g n_ms]. unfold ms_faults.
  change (ms_ids_of_caps (o_caps (open_of c))) with (a_ms_ids (view (open_of c))). rewrite view_open_of.
  change (set_eqb (ids_default (a_ms_ids (our_adv c))) (ids_default (ms_ids_of_caps (o_caps r))))
    with (same_set (session_ids (our_adv c)) (session_ids (view r))).
  cbn [our_adv a_multisession a_mp view].
  rewrite S9, R9, S1.
  destruct (c_multisession c) eqn:Hms; cbn [andb]; [|reflexivity].
  destruct (existsb is_ms (o_caps r)); [|reflexivity].
  destruct (same_set _ _); cbn [negb andb]; [|reflexivity].
  rewrite <- dedup_is_common, <- R1, <- fams_eqb_is.
  destruct (cs_mp (fold_caps (o_caps r))) as [rl|]; cbn [odflt].
  - destruct (fams_eqb (c_families c) rl); reflexivity.
  - destruct (c_families c) as [|x l]; [exfalso; apply (Hne eq_refl); reflexivity | reflexivity].
Qed.

Theorem refusals fx fy c r :
  wf_cfg c -> wf_peer r -> o_version r = 4 ->
  fx = true \/ c_local_as c <= 65535 -> fy = true \/ c_local_as c <= 65535 ->
  let v := validate_g fy c r (negotiate_g fx (open_of c) r) in
  let F := rfc_faults (c_peer_as c) (c_rid c) (our_adv c) (view r) in
  (forall x, v = Some x -> In x F) /\ (v = None -> F = []).
Proof.
  intros Hc Hr Hv Hfx Hfy v F. subst v F.
  pose proof (ms_agrees fx c r Hc) as Hms.
  destruct (negotiate_is_rfc fx c r Hc Hr Hfx) as (_ & _ & Hla & Hpa & _).
  pose proof (peer_as_cases fx (open_of c) r) as Hcases. cbv zeta in Hcases.
  destruct Hr as (_ & Hcons & Hhold).
  unfold validate_g, rfc_faults.
  assert (Hz : c_local_as c =? 0 = false) by (apply Z.eqb_neq; destruct Hc as (Hpos & _); lia).
  rewrite Hz.
  change (a_version (view r)) with (o_version r). change (a_id (view r)) with (o_rid r).
  change (a_hold (view r)) with (o_hold r).
  rewrite Hv, <- Hpa. cbn [Z.eqb Pos.eqb app].
  replace (p_local_as (rfc_negotiate (our_adv c) (view r))) with (c_local_as c)
    by (cbn [rfc_negotiate p_local_as]; now rewrite (true_as_ours _ Hc)).
  set (n := negotiate_g fx (open_of c) r) in *.
  assert (Hcol : ((if fy then n_peer_as n else o_asn r) =? c_local_as c) = (n_peer_as n =? c_local_as c)).
  { destruct fy; [reflexivity|]. destruct Hfy as [Hfy|Hle]; [discriminate|].
    destruct Hcases as [->|(Ht & Hne & Hlast)]; [reflexivity|].
    destruct Hc as (Hpos & Hnt & _).
    assert (o_asn r =? c_local_as c = false) as -> by (apply Z.eqb_neq; congruence).
    symmetry. apply Z.eqb_neq. rewrite Hlast.
    destruct Hcons as [Hc0|Hc0]; [cbn [view a_as4] in Hc0; congruence|].
    rewrite true_as_last in Hc0. change (a_as2 (view r)) with (o_asn r) in Hc0.
    destruct (Z.leb_spec (last (as4_of (o_caps r)) (o_asn r)) 65535) as [H1|H1]; [|lia].
    rewrite <- Hc0, Ht. exact (fun e => Hnt (eq_sym e)). }
  rewrite Hcol.
  assert (Hh : (negb (o_hold r =? 0) && (o_hold r <? HOLD_MIN)) = ((0 <? o_hold r) && (o_hold r <? 3))).
  { unfold HOLD_MIN. f_equal. destruct (Z.eqb_spec (o_hold r) 0), (Z.ltb_spec 0 (o_hold r)); cbn; lia || reflexivity. }
  rewrite Hh.
  destruct (negb (c_peer_as c =? 0) && negb (n_peer_as n =? c_peer_as c));
    destruct (o_rid r =? 0);
    destruct ((n_peer_as n =? c_local_as c) && (o_rid r =? c_rid c));
    destruct ((0 <? o_hold r) && (o_hold r <? 3)); cbn [app];
    destruct (n_ms n) as [| |ma mb]; rewrite Hms; cbn [app];
    (split; [intros x Hx; inversion Hx; subst; cbn; tauto | intros Hx; (discriminate || reflexivity)]).
Qed.

(* the unrepaired collision test (fy = false) misses an internal peer with a 4-octet AS *)
Definition peer_70000_same_id : open :=
  {| o_version := 4; o_asn := 23456; o_hold := 90; o_rid := 16909060; o_caps := [CapMP (1, 1); CapASN4 70000] |}.
Definition cfg_ibgp_70000 : cfg :=
  {| c_local_as := 70000; c_peer_as := 70000; c_rid := 16909060; c_hold := 180; c_families := [(1, 1)]; c_asn4 := true;
     c_nexthop := false; c_nexthops := []; c_addpath := 0; c_addpaths := []; c_gr := false; c_gr_time := 0;
     c_restarted := false; c_refresh := false; c_operational := false; c_extmsg := false; c_host := []; c_domain := [];
     c_software := []; c_linklocal := false; c_paths_limit := []; c_multisession := false |}.

Theorem collision_refuted :
  exists c r, wf_cfg c /\ wf_peer r /\ o_version r = 4 /\
    validate_g false c r (negotiate_g true (open_of c) r) = None /\
    rfc_faults (c_peer_as c) (c_rid c) (our_adv c) (view r) = [(2, 3)].
Proof.
  exists cfg_ibgp_70000, peer_70000_same_id.
  split. { unfold wf_cfg, cfg_ibgp_70000, AS_TRANS; cbn. repeat split; try lia; try discriminate. repeat constructor; intros []. }
  split. { unfold wf_peer, peer_70000_same_id. cbn. split; [constructor|]. split; [right; reflexivity | lia]. }
  split; [reflexivity|]. split; reflexivity.
Qed.

(* decoding refusals *)
Theorem short_open_refused b : len b < OPEN_MINIMUM_BODY_SIZE -> dec_open b = Notify 1 2.
Proof. intros H. unfold dec_open. apply Z.ltb_lt in H. now rewrite H. Qed.

Theorem bad_version_refused b :
  OPEN_MINIMUM_BODY_SIZE <= len b -> nth 0 b 0 <> BGP_VERSION -> dec_open b = Notify 2 1.
Proof.
  intros H1 H2. unfold dec_open.
  assert (len b <? OPEN_MINIMUM_BODY_SIZE = false) as -> by (apply Z.ltb_ge; exact H1).
  apply Z.eqb_neq in H2. now rewrite H2.
Qed.

(* ------------------------------------------------------------------ OPEN encode / decode round trip *)

Lemma len_app (a b : list Z) : len (a ++ b) = len a + len b.
Proof. unfold len. rewrite app_length. lia. Qed.
Lemma len_cons (x : Z) (a : list Z) : len (x :: a) = len a + 1.
Proof. unfold len. cbn [length]. lia. Qed.
Lemma len_nonneg (a : list Z) : 0 <= len a.
Proof. unfold len. lia. Qed.
Lemma to_nat_len (a : list Z) : Z.to_nat (len a) = length a.
Proof. unfold len. apply Nat2Z.id. Qed.
Lemma firstn_len_app (a b : list Z) : firstn (Z.to_nat (len a)) (a ++ b) = a.
Proof. rewrite to_nat_len, firstn_app, Nat.sub_diag, firstn_all. cbn. apply app_nil_r. Qed.
Lemma skipn_len_app (a b : list Z) : skipn (Z.to_nat (len a)) (a ++ b) = b.
Proof. rewrite to_nat_len, skipn_app, Nat.sub_diag, skipn_all. reflexivity. Qed.

Lemma firstn_len_self (a : list Z) : firstn (Z.to_nat (len a)) a = a.
Proof. rewrite to_nat_len. apply firstn_all. Qed.

Lemma be16_value x : (x / 256) * 256 + x mod 256 = x.
Proof. pose proof (Z_div_mod_eq_full x 256). lia. Qed.

Lemma kv1_enc k v rest : kv1 (k :: len v :: v ++ rest) = Some (k, v, rest).
Proof.
  unfold kv1. assert (len (v ++ rest) <? len v = false) as ->.
  { apply Z.ltb_ge. rewrite len_app. pose proof (len_nonneg rest). lia. }
  now rewrite firstn_len_app, skipn_len_app.
Qed.

Lemma kv2_enc k v rest : kv2 (k :: len v / 256 :: len v mod 256 :: v ++ rest) = Some (k, v, rest).
Proof.
  unfold kv2. rewrite be16_value. assert (len (v ++ rest) <? len v = false) as ->.
  { apply Z.ltb_ge. rewrite len_app. pose proof (len_nonneg rest). lia. }
  now rewrite firstn_len_app, skipn_len_app.
Qed.

(* values a capability can hold on the wire *)
Definition wf_cap (c : cap) : Prop :=
  match c with
  | CapMP f => 0 <= snd f < 256
  | CapAddPath l => Forall (fun e => snd e <> 0) l
  | CapPathsLimit l => Forall (fun e => 0 < snd e) l
  | CapGraceful flag time l => 0 <= time < 4096
  | CapOther code data => parse_cap code data = Ok (CapOther code data)
  | _ => True
  end.

Lemma parse_ap_enc l : parse_ap (flat_map enc_ap_entry l) = Ok l.
Proof.
  induction l as [|[[a s] sr] l IH]; [reflexivity|].
  cbn [flat_map enc_ap_entry be16 fst snd app parse_ap]. rewrite IH, be16_value. reflexivity.
Qed.

Lemma parse_pl_enc l : parse_pl (flat_map enc_pl_entry l) = Ok l.
Proof.
  induction l as [|[[a s] v] l IH]; [reflexivity|].
  cbn [flat_map enc_pl_entry be16 fst snd app parse_pl]. rewrite IH, !be16_value. reflexivity.
Qed.

Lemma parse_nh_enc l : parse_nh (flat_map enc_nh_entry l) = Ok l.
Proof.
  induction l as [|[[a s] h] l IH]; [reflexivity|].
  cbn [flat_map enc_nh_entry be16 fst snd app parse_nh]. rewrite IH, !be16_value. reflexivity.
Qed.

Lemma filter_nonzero l : Forall (fun e : fam * Z => snd e <> 0) l -> filter (fun e => negb (snd e =? 0)) l = l.
Proof.
  induction 1 as [|e l He _ IH]; [reflexivity|]. cbn [filter].
  apply Z.eqb_neq in He. rewrite He. cbn [negb]. now rewrite IH.
Qed.
Lemma filter_positive l : Forall (fun e : fam * Z => 0 < snd e) l -> filter (fun e => 0 <? snd e) l = l.
Proof.
  induction 1 as [|e l He _ IH]; [reflexivity|]. cbn [filter].
  apply Z.ltb_lt in He. rewrite He. now rewrite IH.
Qed.

Lemma rd32_be32 a : rd32 (be32 a) = a.
Proof.
  unfold rd32, be32. cbn [nth].
  pose proof (Z_div_mod_eq_full a 256). pose proof (Z_div_mod_eq_full (a / 256) 256).
  pose proof (Z_div_mod_eq_full (a / 65536) 256).
  assert (a / 256 / 256 = a / 65536) by (rewrite Z.div_div by lia; reflexivity).
  assert (a / 65536 / 256 = a / 16777216) by (rewrite Z.div_div by lia; reflexivity).
  lia.
Qed.

(* decide the tests between capability code constants *)
Ltac code_tests :=
  repeat match goal with
  | |- context [?a =? ?b] =>
      let v := eval vm_compute in (a =? b) in
      match v with true => idtac | false => idtac end; change (a =? b) with v
  end; cbv iota.

Lemma parse_hostname_enc h d :
  parse_cap CAP_HOSTNAME (len h :: h ++ len d :: d) = Ok (CapHostName h d).
Proof.
  unfold parse_cap. code_tests.
  assert (Hl : len (len h :: h ++ len d :: d) = len h + 2 + len d) by (rewrite len_cons, len_app, len_cons; lia).
  rewrite Hl.
  assert (len h + 2 + len d <? len h + 2 = false) as -> by (apply Z.ltb_ge; pose proof (len_nonneg d); lia).
  assert (Hn : nth (Z.to_nat (len h)) (h ++ len d :: d) 0 = len d).
  { rewrite to_nat_len, app_nth2 by lia. rewrite Nat.sub_diag. reflexivity. }
  cbv zeta. rewrite Hn, Z.ltb_irrefl, firstn_len_app.
  replace (S (Z.to_nat (len h))) with (length h + 1)%nat by (rewrite to_nat_len; lia).
  rewrite skipn_app, skipn_all2 by lia. replace (length h + 1 - length h)%nat with 1%nat by lia.
  cbn [app skipn]. rewrite firstn_len_self. reflexivity.
Qed.

Lemma parse_software_enc v : parse_cap CAP_SOFTWARE_VERSION (len v :: v) = Ok (CapSoftware v).
Proof.
  unfold parse_cap. code_tests. rewrite len_cons, Z.ltb_irrefl, firstn_len_self. reflexivity.
Qed.

Lemma parse_enc_cap c : wf_cap c -> parse_cap (fst (enc_cap c)) (snd (enc_cap c)) = Ok c.
Proof.
  destruct c as [[a s]|a|l|l| | | |flag time l|h d|v|l|code data]; cbn [wf_cap enc_cap fst snd]; intros H.
  - unfold parse_cap. code_tests. cbn [be16 app fst snd]. rewrite be16_value. rewrite Z.mod_small by exact H. reflexivity.
  - unfold parse_cap. code_tests.
    change (match be32 a with [x0; x1] => Ok (CapASN4 (x0 * 256 + x1)) | [x0; x1; x2; x3] => Ok (CapASN4 (rd32 (be32 a))) | _ => n20 end)
      with (Ok (A := cap) (CapASN4 (rd32 (be32 a)))). now rewrite rd32_be32.
  - unfold parse_cap. code_tests. rewrite (filter_nonzero _ H), parse_ap_enc. reflexivity.
  - unfold parse_cap. code_tests. rewrite parse_nh_enc. reflexivity.
  - reflexivity.
  - reflexivity.
  - reflexivity.
  - unfold parse_cap. code_tests.
    change (GR_TIME_MASK + 1) with 4096. cbn [be16 app]. rewrite parse_ap_enc, be16_value.
    rewrite (Z.mod_small time 4096) by exact H.
    replace ((flag * 4096 + time) / 4096) with flag by (rewrite Z.div_add_l by lia; rewrite Z.div_small by exact H; lia).
    replace ((flag * 4096 + time) mod 4096) with time
      by (rewrite Z.add_comm, Z.mod_add by lia; rewrite Z.mod_small by exact H; reflexivity).
    reflexivity.
  - apply parse_hostname_enc.
  - apply parse_software_enc.
  - unfold parse_cap. code_tests. rewrite (filter_positive _ H), parse_pl_enc. reflexivity.
  - exact H.
Qed.

Lemma dec_capvals_one c fuel : wf_cap c ->
  dec_capvals (S fuel) (fst (enc_cap c) :: len (snd (enc_cap c)) :: snd (enc_cap c)) = Ok [c].
Proof.
  intros H. cbn [dec_capvals].
  rewrite <- (app_nil_r (snd (enc_cap c))) at 2. rewrite kv1_enc, (parse_enc_cap _ H).
  destruct fuel; reflexivity.
Qed.

Lemma dec_params1_enc caps : forall fuel, (length caps <= fuel)%nat -> Forall wf_cap caps ->
  dec_params false fuel (flat_map enc_param1 (map enc_cap caps)) = Ok caps.
Proof.
  induction caps as [|c caps IH]; intros fuel Hf Hwf.
  - destruct fuel; reflexivity.
  - destruct fuel as [|k]; [cbn in Hf; lia|].
    apply Forall_cons_iff in Hwf. destruct Hwf as [Hc Hwf].
    cbn [map flat_map]. unfold enc_param1 at 1. cbn [app dec_params].
    set (v := fst (enc_cap c) :: len (snd (enc_cap c)) :: snd (enc_cap c)).
    replace (len (snd (enc_cap c)) + 2) with (len v) by (unfold v; rewrite !len_cons; lia).
    change (PARAM_CAPABILITIES :: len v :: fst (enc_cap c) :: len (snd (enc_cap c)) :: snd (enc_cap c) ++ flat_map enc_param1 (map enc_cap caps))
      with (PARAM_CAPABILITIES :: len v :: v ++ flat_map enc_param1 (map enc_cap caps)).
    rewrite kv1_enc. change (PARAM_CAPABILITIES =? PARAM_AUTH) with false.
    change (PARAM_CAPABILITIES =? PARAM_CAPABILITIES) with true. cbv iota.
    unfold v at 1 2. cbn [length]. rewrite (dec_capvals_one _ _ Hc).
    rewrite IH; [reflexivity | cbn in Hf; lia | exact Hwf].
Qed.

Lemma dec_params2_enc caps : forall fuel, (length caps <= fuel)%nat -> Forall wf_cap caps ->
  dec_params true fuel (flat_map enc_param2 (map enc_cap caps)) = Ok caps.
Proof.
  induction caps as [|c caps IH]; intros fuel Hf Hwf.
  - destruct fuel; reflexivity.
  - destruct fuel as [|k]; [cbn in Hf; lia|].
    apply Forall_cons_iff in Hwf. destruct Hwf as [Hc Hwf].
    cbn [map flat_map]. unfold enc_param2 at 1. cbn [app be16 dec_params].
    set (v := fst (enc_cap c) :: len (snd (enc_cap c)) :: snd (enc_cap c)).
    replace (len (snd (enc_cap c)) + 2) with (len v) by (unfold v; rewrite !len_cons; lia).
    change (PARAM_CAPABILITIES :: len v / 256 :: len v mod 256 :: fst (enc_cap c) :: len (snd (enc_cap c)) :: snd (enc_cap c) ++ flat_map enc_param2 (map enc_cap caps))
      with (PARAM_CAPABILITIES :: len v / 256 :: len v mod 256 :: v ++ flat_map enc_param2 (map enc_cap caps)).
    rewrite kv2_enc. change (PARAM_CAPABILITIES =? PARAM_AUTH) with false.
    change (PARAM_CAPABILITIES =? PARAM_CAPABILITIES) with true. cbv iota.
    unfold v at 1 2. cbn [length]. rewrite (dec_capvals_one _ _ Hc).
    rewrite IH; [reflexivity | cbn in Hf; lia | exact Hwf].
Qed.

Lemma params_fuel (g : Z * list Z -> list Z) raws :
  (forall r, (1 <= length (g r))%nat) -> (length raws <= length (flat_map g raws))%nat.
Proof.
  intros H. induction raws as [|r raws IH]; cbn [flat_map length]; [lia|].
  rewrite app_length. specialize (H r). lia.
Qed.

(* the choice of the encoding *)
Lemma ext_sel_false d : nth 1 d 0 <> EXTENDED_LENGTH -> ext_selected d = false.
Proof. intros H. unfold ext_selected. apply Z.eqb_neq in H. rewrite H. apply andb_false_r. Qed.

Lemma ext_sel_marker d : 4 <= len d -> nth 0 d 0 = EXTENDED_LENGTH -> nth 1 d 0 = EXTENDED_LENGTH -> ext_selected d = true.
Proof.
  intros Hl H0 H1. unfold ext_selected. rewrite H0, H1.
  assert (len d <? 4 = false) as -> by (apply Z.ltb_ge; exact Hl).
  destruct EXT_BY_TYPE_OCTET; reflexivity.
Qed.

Lemma ext_sel_rfc d : EXT_BY_TYPE_OCTET = true -> ext_selected d = rfc9072_extended d && negb (len d <? 4).
Proof.
  intros H. unfold ext_selected, rfc9072_extended. rewrite H.
  change EXTENDED_LENGTH with 255. destruct (negb (nth 0 d 0 =? 0)), (negb (len d <? 4)), (nth 1 d 0 =? 255); reflexivity.
Qed.

Lemma params1_head raws : nth 0 (flat_map enc_param1 raws) 0 <> EXTENDED_LENGTH.
Proof. destruct raws as [|r raws]; cbn; unfold EXTENDED_LENGTH, PARAM_CAPABILITIES; lia. Qed.

Theorem optparams_roundtrip caps : Forall wf_cap caps ->
  dec_optparams (enc_optparams (map enc_cap caps)) = Ok caps.
Proof.
  intros Hwf. unfold enc_optparams.
  set (p := flat_map enc_param1 (map enc_cap caps)). set (q := flat_map enc_param2 (map enc_cap caps)).
  destruct (len p <? OPEN_PARAM_LEN_MAX) eqn:Hlt.
  - (* RFC 4271 encoding *)
    apply Z.ltb_lt in Hlt. unfold OPEN_PARAM_LEN_MAX in Hlt. unfold dec_optparams.
    rewrite (ext_sel_false (len p :: p)) by (cbn [nth]; apply params1_head).
    rewrite len_cons.
    assert (len p + 1 <? len p + 1 = false) as -> by (apply Z.ltb_irrefl).
    cbv zeta. rewrite !firstn_len_self.
    apply dec_params1_enc; [|exact Hwf].
    unfold p. rewrite <- (map_length enc_cap caps). apply params_fuel. intros r. cbn. lia.
  - (* RFC 9072 encoding *)
    unfold dec_optparams. cbn [app be16].
    rewrite ext_sel_marker; [| rewrite !len_cons; pose proof (len_nonneg q); lia | reflexivity | reflexivity].
    rewrite !len_cons.
    cbn [skipn]. unfold rd16. cbn [nth]. rewrite be16_value.
    assert (len q + 1 + 1 + 1 + 1 <? len q + 4 = false) as -> by (apply Z.ltb_ge; lia).
    cbv zeta. rewrite !firstn_len_self.
    apply dec_params2_enc; [|exact Hwf].
    unfold q. rewrite <- (map_length enc_cap caps). apply params_fuel. intros r. cbn. lia.
Qed.

Definition wf_open (o : open) : Prop :=
  o_version o = BGP_VERSION /\ Forall wf_cap (o_caps o).

Lemma enc_optparams_nonempty raws : (1 <= length (enc_optparams raws))%nat.
Proof. unfold enc_optparams. destruct (_ <? _); cbn; lia. Qed.

Theorem open_roundtrip o : wf_open o -> dec_open (enc_open o) = Ok o.
Proof.
  intros [Hv Hc]. unfold enc_open, dec_open. cbn [app be16 be32].
  pose proof (enc_optparams_nonempty (map enc_cap (o_caps o))) as Hne.
  assert (len (o_version o :: o_asn o / 256 :: o_asn o mod 256 :: o_hold o / 256 :: o_hold o mod 256
               :: o_rid o / 16777216 :: (o_rid o / 65536) mod 256 :: (o_rid o / 256) mod 256 :: o_rid o mod 256
               :: enc_optparams (map enc_cap (o_caps o))) <? OPEN_MINIMUM_BODY_SIZE = false) as ->.
  { apply Z.ltb_ge. unfold OPEN_MINIMUM_BODY_SIZE, len. cbn [length]. lia. }
  cbn [nth]. rewrite Hv. change (BGP_VERSION =? BGP_VERSION) with true. cbn [negb].
  change (Z.to_nat OPEN_HEADER_SIZE) with 9%nat. cbn [skipn].
  rewrite (optparams_roundtrip _ Hc).
  unfold rd16. cbn [nth]. rewrite !be16_value.
  change (rd32 (o_rid o / 16777216 :: (o_rid o / 65536) mod 256 :: (o_rid o / 256) mod 256 :: o_rid o mod 256 :: enc_optparams (map enc_cap (o_caps o))))
    with (rd32 (be32 (o_rid o))). rewrite rd32_be32.
  destruct o; cbn in *; subst; reflexivity.
Qed.

(* our OPEN is such an OPEN: every capability Capabilities.new emits is accepted by its own decoder *)
Lemma Forall_opt (P : cap -> Prop) b l : (b = true -> Forall P l) -> Forall P (opt b l).
Proof. destruct b; intros H; [apply H; reflexivity | constructor]. Qed.

Theorem our_open_wf c : Forall (fun f : fam => 0 <= snd f < 256) (c_families c) -> wf_open (open_of c).
Proof.
  intros Hf. split; [reflexivity|]. cbn [open_of o_caps]. unfold caps_of_config.
  repeat (apply Forall_app; split); try (apply Forall_opt; intros Hb); repeat apply Forall_cons; try apply Forall_nil;
    cbn [wf_cap]; try exact I; try reflexivity.
  - apply Forall_map. cbn [wf_cap]. exact Hf.
  - apply Forall_map. cbn [snd]. apply Forall_forall. intros x _. apply negb_true_iff, Z.eqb_neq in Hb. exact Hb.
  - apply Forall_forall. intros e He. unfold our_paths_limit in He. apply filter_In in He.
    destruct He as [_ He]. apply andb_true_iff in He. destruct He as [_ He]. apply Z.ltb_lt. exact He.
  - apply Z.mod_pos_bound. reflexivity.
Qed.

Theorem our_open_roundtrip c :
  Forall (fun f : fam => 0 <= snd f < 256) (c_families c) -> dec_open (enc_open (open_of c)) = Ok (open_of c).
Proof. intros H. apply open_roundtrip, our_open_wf, H. Qed.

(* ------------------------------------------------------------------ total decoder: any byte string *)

Definition byte (x : Z) : Prop := 0 <= x < 256.
Definition bytes (l : list Z) : Prop := Forall byte l.

Definition only_n20 {A} (r : res A) : Prop := match r with Ok _ => True | Notify a b => a = 2 /\ b = 0 end.

Lemma parse_ap_err : forall n d, (length d <= n)%nat -> only_n20 (parse_ap d).
Proof.
  induction n as [|n IH]; intros d Hn.
  - destruct d; [exact I | cbn in Hn; lia].
  - destruct d as [|a1 [|a2 [|s [|sr rest]]]]; cbn [parse_ap]; try exact I; try (split; reflexivity).
    specialize (IH rest ltac:(cbn in Hn; lia)). destruct (parse_ap rest); [exact I | exact IH].
Qed.
Lemma parse_nh_err : forall n d, (length d <= n)%nat -> only_n20 (parse_nh d).
Proof.
  induction n as [|n IH]; intros d Hn.
  - destruct d; [exact I | cbn in Hn; lia].
  - destruct d as [|a1 [|a2 [|x [|s [|h1 [|h2 rest]]]]]]; cbn [parse_nh]; try exact I; try (split; reflexivity).
    specialize (IH rest ltac:(cbn in Hn; lia)). destruct (parse_nh rest); [exact I | exact IH].
Qed.
Lemma parse_pl_ok : forall n d, (length d <= n)%nat -> bytes d ->
  match parse_pl d with Ok l => Forall (fun e : fam * Z => 0 <= snd e) l | Notify a b => a = 2 /\ b = 0 end.
Proof.
  induction n as [|n IH]; intros d Hn Hb.
  - destruct d; [constructor | cbn in Hn; lia].
  - destruct d as [|a1 [|a2 [|s [|l1 [|l2 rest]]]]]; cbn [parse_pl]; try constructor; try (split; reflexivity).
    unfold bytes in Hb. repeat (apply Forall_cons_iff in Hb; let H := fresh "B" in destruct Hb as [H Hb]).
    specialize (IH rest ltac:(cbn in Hn; lia) Hb). destruct (parse_pl rest); [|exact IH].
    constructor; [cbn [snd]; unfold byte in *; lia | exact IH].
Qed.

(* what the decoder guarantees about a capability it returns *)
Definition dwf (c : cap) : Prop :=
  match c with
  | CapMP f => 0 <= snd f < 256
  | CapGraceful _ t _ => 0 <= t < 4096
  | CapPathsLimit l => Forall (fun e => 0 <= snd e) l
  | CapOther code d => parse_cap code d = Ok (CapOther code d)
  | _ => True
  end.

Lemma parse_cap_total code d : bytes d ->
  match parse_cap code d with Ok c => dwf c | Notify a b => a = 2 /\ b = 0 end.
Proof.
  intros Hb. unfold parse_cap.
  repeat match goal with |- context [if ?c =? ?k then _ else _] => destruct (c =? k) eqn:? end.
  - destruct d as [|a1 [|a2 [|x [|s rest]]]]; try (split; reflexivity). cbn [dwf snd].
    unfold bytes in Hb. repeat (apply Forall_cons_iff in Hb; let H := fresh "B" in destruct Hb as [H Hb]). exact B2.
  - destruct d as [|a [|b [|c [|e [|? ?]]]]]; try (split; reflexivity); exact I.
  - pose proof (parse_ap_err _ d (le_n _)) as H. destruct (parse_ap d); [exact I | exact H].
  - pose proof (parse_nh_err _ d (le_n _)) as H. destruct (parse_nh d); [exact I | exact H].
  - exact I.
  - exact I.
  - exact I.
  - destruct d as [|r1 [|r2 rest]]; try (split; reflexivity).
    pose proof (parse_ap_err _ rest (le_n _)) as H. destruct (parse_ap rest); [|exact H].
    cbn [dwf]. change (GR_TIME_MASK + 1) with 4096. apply Z.mod_pos_bound. reflexivity.
  - destruct d as [|l1 rest]; [split; reflexivity|].
    destruct (_ <? _); [split; reflexivity|]. cbv zeta. destruct (_ <? _); [split; reflexivity | exact I].
  - destruct d as [|l1 rest]; [split; reflexivity|]. destruct (_ <? _); [split; reflexivity | exact I].
  - pose proof (parse_pl_ok _ d (le_n _) Hb) as H. destruct (parse_pl d); exact H.
  - cbn [dwf]. unfold parse_cap.
    repeat match goal with H : (_ =? _) = false |- _ => rewrite H; clear H end. reflexivity.
Qed.

(* normal form: tuples the encoder leaves out (ADD-PATH Send/Receive 0, paths-limit 0) removed *)
Definition norm_cap (c : cap) : cap :=
  match c with
  | CapAddPath l => CapAddPath (filter (fun e => negb (snd e =? 0)) l)
  | CapPathsLimit l => CapPathsLimit (filter (fun e => 0 <? snd e) l)
  | _ => c
  end.
Definition norm_open (o : open) : open :=
  {| o_version := o_version o; o_asn := o_asn o; o_hold := o_hold o; o_rid := o_rid o; o_caps := map norm_cap (o_caps o) |}.

Lemma filter_idem {A} (p : A -> bool) l : filter p (filter p l) = filter p l.
Proof.
  induction l as [|x l IH]; cbn; [reflexivity|]. destruct (p x) eqn:H; cbn; [rewrite H, IH|]; auto.
Qed.

Lemma enc_norm_cap c : enc_cap (norm_cap c) = enc_cap c.
Proof. destruct c; cbn [norm_cap enc_cap]; try reflexivity; now rewrite filter_idem. Qed.

Lemma wf_norm_cap c : dwf c -> wf_cap (norm_cap c).
Proof.
  destruct c; cbn [dwf norm_cap wf_cap]; intros H; try exact H; try exact I.
  - apply Forall_forall. intros e He. apply filter_In in He. destruct He as [_ He].
    apply negb_true_iff, Z.eqb_neq in He. exact He.
  - apply Forall_forall. intros e He. apply filter_In in He. destruct He as [_ He]. apply Z.ltb_lt. exact He.
Qed.

Lemma enc_norm_open o : enc_open (norm_open o) = enc_open o.
Proof.
  unfold enc_open, norm_open. cbn [o_version o_asn o_hold o_rid o_caps]. rewrite map_map.
  do 5 f_equal. apply map_ext. intros c. apply enc_norm_cap.
Qed.

Definition allowed_refusal {A} (r : res A) : Prop :=
  match r with Ok _ => True | Notify a b => In (a, b) [(1, 2); (2, 0); (2, 1); (2, 5)] end.

Lemma bytes_firstn n l : bytes l -> bytes (firstn n l).
Proof. unfold bytes. revert l. induction n; intros [|x l] H; cbn; try constructor; inversion H; subst; auto. Qed.
Lemma bytes_skipn n l : bytes l -> bytes (skipn n l).
Proof. unfold bytes. revert l. induction n; intros [|x l] H; cbn; try constructor; inversion H; subst; auto. Qed.

Lemma kv1_props d k v rest : kv1 d = Some (k, v, rest) -> bytes d ->
  (length rest < length d)%nat /\ bytes v /\ bytes rest.
Proof.
  unfold kv1. destruct d as [|k0 [|l r]]; try discriminate. destruct (_ <? _); [discriminate|].
  intros H Hb. inversion H; subst. unfold bytes in Hb.
  apply Forall_cons_iff in Hb. destruct Hb as [_ Hb]. apply Forall_cons_iff in Hb. destruct Hb as [_ Hb].
  repeat split; [rewrite skipn_length; cbn [length]; lia | apply bytes_firstn; exact Hb | apply bytes_skipn; exact Hb].
Qed.
Lemma kv2_props d k v rest : kv2 d = Some (k, v, rest) -> bytes d ->
  (length rest < length d)%nat /\ bytes v /\ bytes rest.
Proof.
  unfold kv2. destruct d as [|k0 [|h [|l r]]]; try discriminate. destruct (_ <? _); [discriminate|].
  intros H Hb. inversion H; subst. unfold bytes in Hb.
  do 3 (apply Forall_cons_iff in Hb; destruct Hb as [_ Hb]).
  repeat split; [rewrite skipn_length; cbn [length]; lia | apply bytes_firstn; exact Hb | apply bytes_skipn; exact Hb].
Qed.

Lemma dec_capvals_total : forall fuel v, (length v <= fuel)%nat -> bytes v ->
  match dec_capvals fuel v with Ok l => Forall dwf l | Notify a b => a = 2 /\ b = 0 end.
Proof.
  induction fuel as [|fuel IH]; intros v Hf Hb.
  - destruct v; [constructor | cbn in Hf; lia].
  - destruct v as [|x v']; [constructor|]. set (v := x :: v') in *. cbn [dec_capvals]. unfold v at 1.
    destruct (kv1 v) as [[[code cv] rest]|] eqn:Hk; [|split; reflexivity].
    destruct (kv1_props _ _ _ _ Hk Hb) as (Hlen & Hcv & Hrest).
    pose proof (parse_cap_total code cv Hcv) as Hp. destruct (parse_cap code cv) as [c|a b]; [|exact Hp].
    specialize (IH rest ltac:(lia) Hrest). destruct (dec_capvals fuel rest); [constructor; assumption | exact IH].
Qed.

Lemma unknown_param_allowed : In (2, UNKNOWN_PARAM_SUBCODE) [(2, 0); (2, 5); (2, 4)].
Proof. vm_compute. repeat (first [left; reflexivity | right]). Qed.

Lemma dec_params_total ext : forall fuel d, (length d <= fuel)%nat -> bytes d ->
  match dec_params ext fuel d with Ok l => Forall dwf l | Notify a b => In (a, b) [(2, 0); (2, 5); (2, 4)] end.
Proof.
  induction fuel as [|fuel IH]; intros d Hf Hb.
  - destruct d; [constructor | cbn in Hf; lia].
  - destruct d as [|x d']; [constructor|]. set (d := x :: d') in *. cbn [dec_params]. unfold d at 1.
    assert (Hkv : forall k v rest, (if ext then kv2 d else kv1 d) = Some (k, v, rest) ->
                  (length rest < length d)%nat /\ bytes v /\ bytes rest).
    { intros k v rest H. destruct ext; [eapply kv2_props | eapply kv1_props]; eassumption. }
    destruct (if ext then kv2 d else kv1 d) as [[[key v] rest]|]; [|left; reflexivity].
    destruct (Hkv _ _ _ eq_refl) as (Hlen & Hv & Hrest).
    destruct (key =? PARAM_AUTH); [right; left; reflexivity|].
    destruct (key =? PARAM_CAPABILITIES); [|exact unknown_param_allowed].
    pose proof (dec_capvals_total (length v) v (le_n _) Hv) as Hc.
    destruct (dec_capvals (length v) v) as [l1|a b]; [|destruct Hc as [-> ->]; left; reflexivity].
    specialize (IH rest ltac:(lia) Hrest). destruct (dec_params ext fuel rest); [apply Forall_app; split; assumption | exact IH].
Qed.

Lemma dec_optparams_total d : bytes d ->
  match dec_optparams d with Ok l => Forall dwf l | Notify a b => In (a, b) [(2, 0); (2, 5); (2, 4)] end.
Proof.
  intros Hb. unfold dec_optparams. destruct d as [|ol t]; [constructor|].
  destruct (ext_selected _).
  - destruct (_ <? _); [left; reflexivity|]. cbv zeta.
    apply dec_params_total; [apply le_n | apply bytes_firstn, bytes_skipn; exact Hb].
  - destruct (_ <? _); [left; reflexivity|]. cbv zeta.
    apply dec_params_total; [apply le_n|]. apply bytes_firstn.
    unfold bytes in *. apply Forall_cons_iff in Hb. tauto.
Qed.

(* Any byte string is either refused with a defined error (Bad Message Length 1/2, OPEN error 2/0, 2/1, 2/4, 2/5)
   or decoded into an OPEN whose encoding decodes to its normal form, a fixed point of encode-decode. *)
Theorem dec_open_total b : bytes b ->
  match dec_open b with
  | Notify a c => In (a, c) [(1, 2); (2, 0); (2, 1); (2, 4); (2, 5)]
  | Ok o => dec_open (enc_open o) = Ok (norm_open o)
            /\ dec_open (enc_open (norm_open o)) = Ok (norm_open o)
  end.
Proof.
  intros Hb. unfold dec_open.
  destruct (_ <? _); [left; reflexivity|].
  destruct (nth 0 b 0 =? BGP_VERSION) eqn:Hv; cbn [negb]; [|right; right; left; reflexivity].
  pose proof (dec_optparams_total (skipn (Z.to_nat OPEN_HEADER_SIZE) b) (bytes_skipn _ _ Hb)) as Hp.
  destruct (dec_optparams (skipn (Z.to_nat OPEN_HEADER_SIZE) b)) as [caps|a c].
  - set (o := {| o_version := nth 0 b 0; o_asn := rd16 (skipn 1 b); o_hold := rd16 (skipn 3 b);
                 o_rid := rd32 (skipn 5 b); o_caps := caps |}).
    assert (Hwf : wf_open (norm_open o)).
    { split; [cbn; apply Z.eqb_eq; exact Hv|]. cbn [norm_open o_caps o]. apply Forall_map.
      eapply Forall_impl; [|exact Hp]. intros c. apply wf_norm_cap. }
    split; [rewrite <- enc_norm_open|]; apply open_roundtrip; exact Hwf.
  - destruct Hp as [H|[H|[H|[]]]]; inversion H; subst; cbn; tauto.
Qed.

(* ------------------------------------------------------------------ the encoding is a byte string *)

Ltac bl := unfold bytes; repeat (first [apply Forall_nil | apply Forall_cons]); fold bytes.
Lemma byte_const x : (0 <=? x) && (x <? 256) = true -> byte x.
Proof. intros H. apply andb_true_iff in H. destruct H as [H1 H2]. apply Z.leb_le in H1. apply Z.ltb_lt in H2. split; assumption. Qed.

Lemma byte_div x : 0 <= x < 65536 -> byte (x / 256).
Proof. intros H. unfold byte. split; [apply Z.div_pos; lia | apply Z.div_lt_upper_bound; lia]. Qed.
Lemma byte_mod x : byte (x mod 256).
Proof. unfold byte. apply Z.mod_pos_bound. reflexivity. Qed.
Lemma bytes_be16 x : 0 <= x < 65536 -> bytes (be16 x).
Proof. intros H. unfold be16. bl; [apply byte_div; exact H | apply byte_mod]. Qed.
Lemma bytes_be32 x : 0 <= x < 4294967296 -> bytes (be32 x).
Proof.
  intros H. unfold be32. bl; try apply byte_mod.
  unfold byte. split; [apply Z.div_pos; lia | apply Z.div_lt_upper_bound; lia].
Qed.
Lemma bytes_app a b : bytes a -> bytes b -> bytes (a ++ b).
Proof. intros Ha Hb. apply Forall_app. split; assumption. Qed.
Lemma bytes_flat_map {A} (g : A -> list Z) l : Forall (fun x => bytes (g x)) l -> bytes (flat_map g l).
Proof. induction 1; cbn [flat_map]; [constructor | apply bytes_app; assumption]. Qed.

Definition u16 (x : Z) : Prop := 0 <= x < 65536.
(* values that fit their wire fields *)
Definition fits (c : cap) : Prop :=
  match c with
  | CapMP f => u16 (fst f) /\ byte (snd f)
  | CapASN4 a => 0 <= a < 4294967296
  | CapAddPath l => Forall (fun e => u16 (fst (fst e)) /\ byte (snd (fst e)) /\ byte (snd e)) l
  | CapNextHop l => Forall (fun n => u16 (fst (fst n)) /\ byte (snd (fst n)) /\ u16 (snd n)) l
  | CapGraceful flag time l =>
      0 <= flag < 16 /\ 0 <= time < 4096 /\ Forall (fun e => u16 (fst (fst e)) /\ byte (snd (fst e)) /\ byte (snd e)) l
  | CapHostName h d => bytes h /\ bytes d /\ len h < 256 /\ len d < 256
  | CapSoftware v => bytes v /\ len v < 256
  | CapPathsLimit l => Forall (fun e => u16 (fst (fst e)) /\ byte (snd (fst e)) /\ u16 (snd e)) l
  | CapOther code d => byte code /\ bytes d
  | _ => True
  end.

Lemma len_byte_nonneg l : 0 <= len l. Proof. apply len_nonneg. Qed.

Lemma fits_bytes c : fits c -> byte (fst (enc_cap c)) /\ bytes (snd (enc_cap c)).
Proof.
  destruct c as [[a s]|a|l|l| | | |flag time l|h d|v|l|code data]; cbn [fits enc_cap fst snd]; intros H;
    (split; [try (apply byte_const; reflexivity)|]); try apply Forall_nil.
  - destruct H as [H1 H2]. cbn [fst snd] in *. apply bytes_app; [apply bytes_be16; exact H1|].
    unfold be16. bl; [|apply byte_mod]. unfold byte in *. rewrite Z.div_small by lia. lia.
  - apply bytes_be32; exact H.
  - apply bytes_flat_map. apply Forall_forall. intros e He. apply filter_In in He. destruct He as [He _].
    rewrite Forall_forall in H. destruct (H e He) as (H1 & H2 & H3). unfold enc_ap_entry.
    apply bytes_app; [apply bytes_be16; exact H1 | bl; assumption].
  - apply bytes_flat_map. eapply Forall_impl; [|exact H]. intros [[a s] h] (H1 & H2 & H3). cbn [fst snd] in *.
    unfold enc_nh_entry. apply bytes_app; [apply bytes_be16; exact H1|].
    apply bytes_app; [bl; [unfold byte; lia | exact H2] | apply bytes_be16; exact H3].
  - destruct H as (H1 & H2 & H3). change (GR_TIME_MASK + 1) with 4096. apply bytes_app.
    + apply bytes_be16. rewrite Z.mod_small by exact H2. unfold u16. lia.
    + apply bytes_flat_map. eapply Forall_impl; [|exact H3]. intros e (E1 & E2 & E3). unfold enc_ap_entry.
      apply bytes_app; [apply bytes_be16; exact E1 | bl; assumption].
  - destruct H as (H1 & H2 & H3 & H4).
    apply Forall_cons; [unfold byte; pose proof (len_nonneg h); lia|]. apply bytes_app; [exact H1|].
    apply Forall_cons; [unfold byte; pose proof (len_nonneg d); lia | exact H2].
  - destruct H as (H1 & H2). apply Forall_cons; [unfold byte; pose proof (len_nonneg v); lia | exact H1].
  - apply bytes_flat_map. apply Forall_forall. intros e He. apply filter_In in He. destruct He as [He _].
    rewrite Forall_forall in H. destruct (H e He) as (H1 & H2 & H3). unfold enc_pl_entry.
    apply bytes_app; [apply bytes_be16; exact H1|]. apply bytes_app; [bl; exact H2 | apply bytes_be16; exact H3].
  - exact (proj1 H).
  - exact (proj2 H).
Qed.

(* an OPEN that fits the wire: fields in range, every capability value at most 255 octets, and the optional
   parameters at most 65535 octets in the RFC 9072 encoding *)
Definition fits_open (o : open) : Prop :=
  byte (o_version o) /\ u16 (o_asn o) /\ u16 (o_hold o) /\ 0 <= o_rid o < 4294967296
  /\ Forall (fun c => fits c /\ len (snd (enc_cap c)) <= 253) (o_caps o)
  /\ len (flat_map enc_param2 (map enc_cap (o_caps o))) <= 65535.

Lemma bytes_params1 raws :
  Forall (fun r => byte (fst r) /\ bytes (snd r) /\ len (snd r) <= 253) raws -> bytes (flat_map enc_param1 raws).
Proof.
  intros H. apply bytes_flat_map. eapply Forall_impl; [|exact H]. intros r (H1 & H2 & H3).
  unfold enc_param1. pose proof (len_nonneg (snd r)).
  apply bytes_app; [|exact H2]. bl; try (apply byte_const; reflexivity); unfold byte in *; lia.
Qed.
Lemma bytes_params2 raws :
  Forall (fun r => byte (fst r) /\ bytes (snd r) /\ len (snd r) <= 253) raws -> bytes (flat_map enc_param2 raws).
Proof.
  intros H. apply bytes_flat_map. eapply Forall_impl; [|exact H]. intros r (H1 & H2 & H3).
  unfold enc_param2. pose proof (len_nonneg (snd r)).
  apply bytes_app; [bl; apply byte_const; reflexivity|].
  apply bytes_app; [apply bytes_be16; unfold u16; lia|].
  apply bytes_app; [|exact H2]. bl; unfold byte in *; lia.
Qed.

Theorem enc_open_bytes o : fits_open o -> bytes (enc_open o).
Proof.
  intros (Hv & Ha & Hh & Hr & Hc & Hl). unfold enc_open.
  assert (Hraws : Forall (fun r => byte (fst r) /\ bytes (snd r) /\ len (snd r) <= 253) (map enc_cap (o_caps o))).
  { apply Forall_map. eapply Forall_impl; [|exact Hc]. intros c [Hf Hlen].
    destruct (fits_bytes c Hf) as [H1 H2]. split; [exact H1 | split; [exact H2 | exact Hlen]]. }
  apply bytes_app; [bl; exact Hv|].
  apply bytes_app; [apply bytes_be16; exact Ha|]. apply bytes_app; [apply bytes_be16; exact Hh|].
  apply bytes_app; [apply bytes_be32; exact Hr|].
  unfold enc_optparams. pose proof (len_nonneg (flat_map enc_param1 (map enc_cap (o_caps o)))) as Hn.
  destruct (_ <? _) eqn:Hlt.
  - apply Z.ltb_lt in Hlt. unfold OPEN_PARAM_LEN_MAX in Hlt. apply Forall_cons; [unfold byte; lia | apply bytes_params1; exact Hraws].
  - apply bytes_app; [bl; apply byte_const; reflexivity|].
    pose proof (len_nonneg (flat_map enc_param2 (map enc_cap (o_caps o)))).
    apply bytes_app; [apply bytes_be16; unfold u16; lia | apply bytes_params2; exact Hraws].
Qed.

(* an optional parameter that is neither Capabilities nor the deprecated Authentication is answered with
   the subcode the tree uses (Gen_Registry.UNKNOWN_PARAM_SUBCODE; RFC 4271 6.2 requires 4) *)
Theorem unknown_param_refused fixed key v rest :
  length fixed = 9%nat -> nth 0 fixed 0 = BGP_VERSION -> key <> PARAM_AUTH -> key <> PARAM_CAPABILITIES ->
  key <> EXTENDED_LENGTH -> len (key :: len v :: v ++ rest) < 255 ->
  dec_open (fixed ++ len (key :: len v :: v ++ rest) :: key :: len v :: v ++ rest) = Notify 2 UNKNOWN_PARAM_SUBCODE.
Proof.
  intros Hf Hv Hk1 Hk2 Hk3 Hl. unfold dec_open.
  set (p := key :: len v :: v ++ rest) in *.
  assert (len (fixed ++ len p :: p) <? OPEN_MINIMUM_BODY_SIZE = false) as ->.
  { apply Z.ltb_ge. rewrite len_app, len_cons. unfold len at 1. rewrite Hf. pose proof (len_nonneg p). unfold OPEN_MINIMUM_BODY_SIZE. lia. }
  assert (nth 0 (fixed ++ len p :: p) 0 = BGP_VERSION) as -> by (rewrite app_nth1 by lia; exact Hv).
  rewrite Z.eqb_refl. cbn [negb]. change (Z.to_nat OPEN_HEADER_SIZE) with 9%nat.
  rewrite <- Hf, skipn_app, skipn_all, Nat.sub_diag. cbn [app skipn]. unfold dec_optparams.
  rewrite (ext_sel_false (len p :: p)) by (unfold p; cbn [nth]; exact Hk3).
  rewrite len_cons, Z.ltb_irrefl. cbv zeta. rewrite firstn_len_self.
  unfold p. cbn [length dec_params]. rewrite kv1_enc.
  apply Z.eqb_neq in Hk1. apply Z.eqb_neq in Hk2. rewrite Hk1, Hk2. reflexivity.
Qed.

(* ------------------------------------------------------------------ local-as auto *)

Lemma our_open_configured c r : wf_cfg c -> our_open c r = open_of c.
Proof.
  intros (Hpos & _). unfold our_open.
  assert (c_local_as c =? 0 = false) as -> by (apply Z.eqb_neq; lia). reflexivity.
Qed.

Theorem negotiate_this_tree c r :
  wf_cfg c -> wf_peer r -> LOCAL_AS_FROM_CAP = true \/ c_local_as c <= 65535 ->
  agrees (negotiate c r) (rfc_negotiate (our_adv c) (view r)).
Proof. intros Hc Hr Hfx. unfold negotiate. rewrite (our_open_configured _ _ Hc). apply negotiate_is_rfc; assumption. Qed.

Lemma peer_true_as_is r : peer_true_as r = true_as (view r).
Proof.
  unfold peer_true_as. destruct (fold_caps_gen (o_caps r) cs_empty) as (_ & R2 & _). cbv zeta in R2.
  fold (fold_caps (o_caps r)) in R2. rewrite R2, (as4_step_last _ _ (o_asn r)), true_as_last. cbn [cs_empty cs_asn4].
  destruct (as4_of (o_caps r)); reflexivity.
Qed.

(* with the repaired new_open, `local-as auto` is the configuration whose local AS is the peer's true AS *)
Theorem auto_open c r :
  c_local_as c = 0 -> AUTO_AS_FROM_PEER_CAP = true -> our_open c r = open_of (with_local_as c (true_as (view r))).
Proof. intros H0 Hf. unfold our_open. rewrite H0, Hf, peer_true_as_is. reflexivity. Qed.

(* ... and the session is internal: both negotiated AS numbers are the peer's true AS *)
Theorem auto_is_ibgp c r :
  c_local_as c = 0 -> AUTO_AS_FROM_PEER_CAP = true -> c_asn4 c = true ->
  wf_cfg (with_local_as c (true_as (view r))) -> wf_peer r ->
  let n := negotiate_g true (our_open c r) r in
  n_local_as n = true_as (view r) /\ n_peer_as n = true_as (view r)
  /\ agrees n (rfc_negotiate (our_adv (with_local_as c (true_as (view r)))) (view r)).
Proof.
  intros H0 Hf H4 Hc Hr n. subst n. rewrite (auto_open _ _ H0 Hf).
  pose proof (negotiate_is_rfc true _ r Hc Hr (or_introl eq_refl)) as Hag.
  destruct Hag as (A1 & A2 & Hla & Hpa & Hrest).
  split; [|split; [|repeat split; try assumption; apply Hrest]].
  - rewrite Hla. cbn [rfc_negotiate p_local_as]. rewrite (true_as_ours _ Hc). reflexivity.
  - rewrite Hpa. cbn [rfc_negotiate p_peer_as]. unfold speaks_as4. cbn [our_adv a_as4 with_local_as c_asn4].
    rewrite H4. reflexivity.
Qed.

(* ------------------------------------------------------------------ RFC 9072: any non-zero length octet *)

(* with the repaired selection the decoder chooses the extended encoding exactly as RFC 9072 s.2 says ... *)
Theorem ext_selection_is_rfc d :
  EXT_BY_TYPE_OCTET = true -> 4 <= len d -> ext_selected d = rfc9072_extended d.
Proof.
  intros H Hl. rewrite (ext_sel_rfc _ H).
  assert (len d <? 4 = false) as -> by (apply Z.ltb_ge; exact Hl). apply andb_true_r.
Qed.

(* ... so the capabilities are read whatever the (non-zero) Non-Ext OP Len octet the peer wrote *)
Theorem ext_any_length_octet caps L :
  EXT_BY_TYPE_OCTET = true -> L <> 0 -> Forall wf_cap caps ->
  let q := flat_map enc_param2 (map enc_cap caps) in
  dec_optparams (L :: OPEN_EXTENDED_MARKER :: be16 (len q) ++ q) = Ok caps.
Proof.
  intros H HL Hwf q. unfold dec_optparams. cbn [app be16].
  assert (Hsel : ext_selected (L :: OPEN_EXTENDED_MARKER :: len q / 256 :: len q mod 256 :: q) = true).
  { unfold ext_selected. rewrite H. cbn [nth]. apply Z.eqb_neq in HL. rewrite HL. cbn [negb andb].
    rewrite !len_cons.
    assert (len q + 1 + 1 + 1 + 1 <? 4 = false) as -> by (apply Z.ltb_ge; pose proof (len_nonneg q); lia).
    reflexivity. }
  rewrite Hsel, !len_cons. cbn [skipn]. unfold rd16. cbn [nth]. rewrite be16_value.
  assert (len q + 1 + 1 + 1 + 1 <? len q + 4 = false) as -> by (apply Z.ltb_ge; lia).
  cbv zeta. rewrite !firstn_len_self.
  apply dec_params2_enc; [|exact Hwf].
  unfold q. rewrite <- (map_length enc_cap caps). apply params_fuel. intros r. cbn. lia.
Qed.

(* the unrepaired selection refuses such an OPEN: length octet 4, one route-refresh capability *)
Theorem ext_length_octet_refuted :
  ext_selected [4; 255; 0; 5; 2; 0; 2; 2; 0] = EXT_BY_TYPE_OCTET /\ rfc9072_extended [4; 255; 0; 5; 2; 0; 2; 2; 0] = true.
Proof. split; vm_compute; reflexivity. Qed.
