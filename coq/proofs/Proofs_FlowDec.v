(* C16 - completeness of the decoder against the RFC reference (decode_agrees), the refusal of
   named faults stated on the input (never_broader), and encode-then-decode. *)
From Coq Require Import ZArith List Bool Lia Arith.
From ExaV Require Import lib.ListX gen.Gen_Flow spec.Spec_Flow model.Model_Flow proofs.Proofs_Flow.
Import ListNotations.
Open Scope Z_scope.

(* no IPv6 prefix with a non-zero offset among the components (the known finding's input class) *)
Definition comp_off0 (c : comp) : bool := match c with CPfx _ _ o _ => o =? 0 | COps _ _ => true end.
Definition offsets0 (cs : list comp) : bool := forallb comp_off0 cs.

Lemma defined_kind : forall v6 t, defined_type v6 t = true ->
  kind v6 t <> 0 /\ (kind v6 t =? 1) = (t <=? 2).
Proof.
  intros v6 t H. unfold defined_type in H. apply andb_true_iff in H. destruct H as [H1 H2].
  apply Z.leb_le in H1. apply Z.leb_le in H2.
  assert (C : t = 1 \/ t = 2 \/ t = 3 \/ t = 4 \/ t = 5 \/ t = 6 \/ t = 7 \/ t = 8 \/ t = 9 \/ t = 10 \/
              t = 11 \/ t = 12 \/ (t = 13 /\ v6 = true)) by (destruct v6; lia).
  destruct v6;
    repeat (destruct C as [C|C]; [subst t; split; [vm_compute; discriminate|reflexivity]|]);
    destruct C as [C1 C2]; try discriminate; subst t; split; [vm_compute; discriminate|reflexivity].
Qed.

Lemma undefined_kind : forall v6 t, defined_type v6 t = false -> kind v6 t = 0.
Proof.
  intros v6 t H. destruct (Z.eq_dec (kind v6 t) 0) as [E|E]; [exact E|].
  destruct (kind_defined v6 t E) as [D _]. congruence.
Qed.

Lemma ltake_ltake : forall n (l : list Z), ltake n (ltake n l) = ltake n l.
Proof.
  intros n l. unfold ltake. rewrite firstn_firstn. rewrite Nat.min_id. reflexivity.
Qed.

Lemma take_some : forall n l a b, take n l = Some (a, b) ->
  0 <= n <= llen l /\ a = ltake n l /\ b = ldrop n l.
Proof.
  intros n l a b H. unfold take in H.
  destruct ((0 <=? n) && (n <=? Z.of_nat (length l))) eqn:E; [|discriminate].
  apply andb_true_iff in E. destruct E as [E1 E2]. apply Z.leb_le in E1. apply Z.leb_le in E2.
  inversion H; subst. unfold llen, ltake, ldrop. auto.
Qed.

Lemma take_none : forall n l, 0 <= n -> take n l = None -> llen l < n.
Proof.
  intros n l Hn H. unfold take in H.
  replace (0 <=? n) with true in H by (symmetry; apply Z.leb_le; lia). cbn [andb] in H.
  destruct (n <=? Z.of_nat (length l)) eqn:E; [discriminate|]. apply Z.leb_gt in E. exact E.
Qed.

(* ---------------------------------------------------------------- prefixes *)

Lemma ref_parse_prefix : forall v6 t l c l2, bytes_ok l ->
  ref_prefix v6 t l = inl (c, l2) -> comp_off0 c = true ->
  exists mc, parse_prefix v6 t l = Some (mc, l2) /\ abs_comp mc = c.
Proof.
  intros v6 t l c l2 Hb H Hz. destruct v6.
  - destruct l as [|m [|off l3]]; try discriminate. cbn [ref_prefix] in H.
    inversion Hb as [|? ? Hm Hb1]; subst. inversion Hb1 as [|? ? Ho Hb2]; subst.
    destruct (((m =? 0) && (off =? 0)) || ((off <? m) && (m <=? 128))) eqn:C; [|discriminate].
    destruct (take ((m - off + 7) / 8) l3) as [[pb l4]|] eqn:T; [|discriminate].
    inversion H; subst c l2; clear H. cbn [comp_off0] in Hz. apply Z.eqb_eq in Hz. subst off.
    assert (Hm128 : m <= 128).
    { apply orb_true_iff in C. destruct C as [C|C]; apply andb_true_iff in C; destruct C as [C1 C2].
      - apply Z.eqb_eq in C1. lia.
      - apply Z.leb_le in C2. lia. }
    destruct (size_eq m ltac:(lia)) as [Hs Hs0].
    replace (m - 0 + 7) with (m + 7) in T by lia. rewrite <- Hs in T.
    apply take_some in T. destruct T as (Hr & -> & ->).
    unfold parse_prefix.
    replace (128 <? m) with false by (symmetry; apply Z.ltb_ge; lia).
    replace (llen l3 + 1 <? size m + 1) with false by (symmetry; apply Z.ltb_ge; lia).
    eexists; split; [reflexivity|]. cbn [abs_comp]. unfold pattern. cbn [Z.eqb].
    rewrite ltake_ltake. replace (m - 0 + 7) with (m + 7) by lia. rewrite <- Hs.
    replace (m - 0) with m by lia. reflexivity.
  - destruct l as [|m l1]; try discriminate. cbn [ref_prefix] in H.
    inversion Hb as [|? ? Hm Hb1]; subst.
    destruct (m <=? 32) eqn:C; [|discriminate]. apply Z.leb_le in C.
    destruct (take ((m + 7) / 8) l1) as [[pb l4]|] eqn:T; [|discriminate].
    inversion H; subst c l2; clear H.
    destruct (size_eq m ltac:(lia)) as [Hs Hs0]. rewrite <- Hs in T.
    apply take_some in T. destruct T as (Hr & -> & ->).
    unfold parse_prefix.
    replace (32 <? m) with false by (symmetry; apply Z.ltb_ge; lia).
    replace (llen (m :: l1) <? size m + 1) with false
      by (symmetry; apply Z.ltb_ge; unfold llen in *; cbn [length]; lia).
    eexists; split; [reflexivity|]. cbn [abs_comp]. unfold pattern. cbn [Z.eqb].
    rewrite ltake_ltake. rewrite <- Hs. reflexivity.
Qed.

(* a prefix the reference finds truncated is refused by the decoder too (whatever its offset) *)
Lemma ref_prefix_truncated : forall v6 t l, bytes_ok l ->
  ref_prefix v6 t l = inr ETruncated -> parse_prefix v6 t l = None.
Proof.
  intros v6 t l Hb H. destruct v6.
  - destruct l as [|m [|off l3]]; try reflexivity. cbn [ref_prefix] in H.
    inversion Hb as [|? ? Hm Hb1]; subst. inversion Hb1 as [|? ? Ho Hb2]; subst.
    destruct (((m =? 0) && (off =? 0)) || ((off <? m) && (m <=? 128))) eqn:C; [|discriminate].
    destruct (take ((m - off + 7) / 8) l3) as [[pb l4]|] eqn:T; [discriminate|].
    assert (Hm128 : m <= 128 /\ off <= m).
    { apply orb_true_iff in C. destruct C as [C|C]; apply andb_true_iff in C; destruct C as [C1 C2].
      - apply Z.eqb_eq in C1. apply Z.eqb_eq in C2. lia.
      - apply Z.leb_le in C2. apply Z.ltb_lt in C1. lia. }
    destruct (size_eq m ltac:(lia)) as [Hs Hs0].
    apply take_none in T; [|apply Z.div_pos; lia].
    assert ((m - off + 7) / 8 <= size m) by (rewrite Hs; apply Z.div_le_mono; lia).
    unfold parse_prefix. destruct (128 <? m); [reflexivity|].
    replace (llen l3 + 1 <? size m + 1) with true by (symmetry; apply Z.ltb_lt; lia). reflexivity.
  - destruct l as [|m l1]; try reflexivity. cbn [ref_prefix] in H.
    inversion Hb as [|? ? Hm Hb1]; subst.
    destruct (m <=? 32) eqn:C; [|discriminate]. apply Z.leb_le in C.
    destruct (take ((m + 7) / 8) l1) as [[pb l4]|] eqn:T; [discriminate|].
    destruct (size_eq m ltac:(lia)) as [Hs Hs0]. rewrite <- Hs in T. apply take_none in T; [|lia].
    unfold parse_prefix. destruct (32 <? m); [reflexivity|].
    replace (llen (m :: l1) <? size m + 1) with true
      by (symmetry; apply Z.ltb_lt; unfold llen in *; cbn [length]; lia). reflexivity.
Qed.

Lemma ref_prefix_rest : forall v6 t l c l2, ref_prefix v6 t l = inl (c, l2) -> exists k, l2 = skipn k l.
Proof.
  intros v6 t l c l2 H. destruct v6.
  - destruct l as [|m [|off l3]]; try discriminate. cbn [ref_prefix] in H.
    destruct (((m =? 0) && (off =? 0)) || ((off <? m) && (m <=? 128))); [|discriminate].
    destruct (take ((m - off + 7) / 8) l3) as [[pb l4]|] eqn:T; [|discriminate].
    inversion H; subst. apply take_some in T. destruct T as (_ & _ & ->).
    exists (S (S (Z.to_nat ((m - off + 7) / 8)))). reflexivity.
  - destruct l as [|m l1]; try discriminate. cbn [ref_prefix] in H.
    destruct (m <=? 32); [|discriminate].
    destruct (take ((m + 7) / 8) l1) as [[pb l4]|] eqn:T; [|discriminate].
    inversion H; subst. apply take_some in T. destruct T as (_ & _ & ->).
    exists (S (Z.to_nat ((m + 7) / 8))). reflexivity.
Qed.

(* ---------------------------------------------------------------- component walk *)

(* completeness: what the reference reads (no IPv6 offset), the decoder reads, with the same meaning *)
Lemma ref_parse_comps : forall fuel ordered v6 last l cs, bytes_ok l ->
  ref_comps fuel ordered v6 last l = COk cs -> offsets0 cs = true ->
  exists mcs, parse_comps fuel v6 l = Some mcs /\ map abs_comp mcs = cs.
Proof.
  induction fuel as [|f IH]; intros ordered v6 last l cs Hb H Hz.
  - destruct l; [|discriminate]. inversion H; subst. exists []. split; reflexivity.
  - destruct l as [|t l1]; [inversion H; subst; exists []; split; reflexivity|].
    cbn [ref_comps] in H. cbn [parse_comps].
    destruct (defined_type v6 t) eqn:D; cbn [negb] in H; [|discriminate].
    destruct (defined_kind v6 t D) as [K0 K1].
    replace (kind v6 t =? 0) with false by (symmetry; apply Z.eqb_neq; exact K0). rewrite K1.
    destruct (ordered && (t <=? last)); [discriminate|].
    inversion Hb as [|? ? Ht Hb1]; subst.
    destruct (t <=? 2).
    + destruct (ref_prefix v6 t l1) as [[c l2]|e] eqn:RP; [|discriminate].
      destruct (ref_comps f ordered v6 t l2) as [cs0|e b0] eqn:RC; cbn [ccons] in H; [|discriminate].
      inversion H; subst cs; clear H. unfold offsets0 in Hz. cbn [forallb] in Hz.
      apply andb_true_iff in Hz. destruct Hz as [Hz1 Hz2].
      destruct (ref_parse_prefix v6 t l1 c l2 Hb1 RP Hz1) as (mc & PP & A). rewrite PP.
      destruct (ref_prefix_rest _ _ _ _ _ RP) as [k Hk].
      destruct (IH ordered v6 t l2 cs0 ltac:(subst l2; apply bytes_ok_skipn; assumption) RC Hz2) as (mcs & PC & M).
      rewrite PC. cbn [option_map]. eexists; split; [reflexivity|]. cbn [map]. congruence.
    + destruct (ref_ops (length l1) l1) as [[os l2]|e] eqn:RO; [|discriminate].
      destruct (ref_comps f ordered v6 t l2) as [cs0|e b0] eqn:RC; cbn [ccons] in H; [|discriminate].
      inversion H; subst cs; clear H. unfold offsets0 in Hz. cbn [forallb comp_off0 andb] in Hz.
      rewrite ops_agree, RO.
      destruct (ref_ops_rest _ _ _ _ RO) as [k Hk].
      destruct (IH ordered v6 t l2 cs0 ltac:(subst l2; apply bytes_ok_skipn; assumption) RC Hz) as (mcs & PC & M).
      rewrite PC. cbn [option_map]. eexists; split; [reflexivity|]. cbn [map abs_comp]. congruence.
Qed.

(* a named fault met by the framing walk before any IPv6 offset: the decoder refuses the whole NLRI *)
Lemma ref_err_parse : forall fuel v6 last l e before, bytes_ok l ->
  ref_comps fuel false v6 last l = CErr e before -> named_fault e = true -> offsets0 before = true ->
  parse_comps fuel v6 l = None.
Proof.
  induction fuel as [|f IH]; intros v6 last l e before Hb H Hn Hz.
  - destruct l; [discriminate|reflexivity].
  - destruct l as [|t l1]; [discriminate|].
    cbn [ref_comps] in H. cbn [parse_comps].
    destruct (defined_type v6 t) eqn:D; cbn [negb andb] in H.
    2:{ rewrite (undefined_kind v6 t D). reflexivity. }
    destruct (defined_kind v6 t D) as [K0 K1].
    replace (kind v6 t =? 0) with false by (symmetry; apply Z.eqb_neq; exact K0). rewrite K1.
    inversion Hb as [|? ? Ht Hb1]; subst.
    destruct (t <=? 2).
    + destruct (ref_prefix v6 t l1) as [[c l2]|e'] eqn:RP.
      * destruct (ref_comps f false v6 t l2) as [cs0|e0 b0] eqn:RC; cbn [ccons] in H; [discriminate|].
        inversion H; subst e0 before; clear H. unfold offsets0 in Hz. cbn [forallb] in Hz.
        apply andb_true_iff in Hz. destruct Hz as [Hz1 Hz2].
        destruct (ref_parse_prefix v6 t l1 c l2 Hb1 RP Hz1) as (mc & PP & A). rewrite PP.
        destruct (ref_prefix_rest _ _ _ _ _ RP) as [k Hk].
        rewrite (IH v6 t l2 e b0 ltac:(subst l2; apply bytes_ok_skipn; assumption) RC Hn Hz2). reflexivity.
      * inversion H; subst e' before; clear H.
        destruct e; try discriminate.
        -- (* EUndefined cannot come out of ref_prefix *)
           exfalso. clear -RP. destruct v6.
           ++ destruct l1 as [|m [|off l3]]; try discriminate. cbn [ref_prefix] in RP.
              destruct (((m =? 0) && (off =? 0)) || ((off <? m) && (m <=? 128))); [|discriminate].
              destruct (take ((m - off + 7) / 8) l3) as [[? ?]|]; discriminate.
           ++ destruct l1 as [|m l3]; try discriminate. cbn [ref_prefix] in RP.
              destruct (m <=? 32); [|discriminate]. destruct (take ((m + 7) / 8) l3) as [[? ?]|]; discriminate.
        -- rewrite (ref_prefix_truncated v6 t l1 Hb1 RP). reflexivity.
        -- exfalso. clear -RP. destruct v6.
           ++ destruct l1 as [|m [|off l3]]; try discriminate. cbn [ref_prefix] in RP.
              destruct (((m =? 0) && (off =? 0)) || ((off <? m) && (m <=? 128))); [|discriminate].
              destruct (take ((m - off + 7) / 8) l3) as [[? ?]|]; discriminate.
           ++ destruct l1 as [|m l3]; try discriminate. cbn [ref_prefix] in RP.
              destruct (m <=? 32); [|discriminate]. destruct (take ((m + 7) / 8) l3) as [[? ?]|]; discriminate.
    + rewrite ops_agree.
      destruct (ref_ops (length l1) l1) as [[os l2]|e'] eqn:RO; [|reflexivity].
      destruct (ref_comps f false v6 t l2) as [cs0|e0 b0] eqn:RC; cbn [ccons] in H; [discriminate|].
      inversion H; subst e0 before; clear H. unfold offsets0 in Hz. cbn [forallb comp_off0 andb] in Hz.
      destruct (ref_ops_rest _ _ _ _ RO) as [k Hk].
      rewrite (IH v6 t l2 e b0 ltac:(subst l2; apply bytes_ok_skipn; assumption) RC Hn Hz). reflexivity.
Qed.

(* ---------------------------------------------------------------- length, RD, whole NLRI *)

Lemma dec_flow_unfold : forall v6 vpn l0 d1, 0 <= l0 < 256 ->
  dec_flow v6 vpn (l0 :: d1) =
  match (if l0 <? 240 then Some (l0, d1)
         else match d1 with [] => None | l1 :: d2 => Some ((l0 - 240) * 256 + l1, d2) end) with
  | None => DRaise
  | Some (len, d) => dec_body v6 vpn len d
  end.
Proof.
  intros v6 vpn l0 d1 H. cbn [dec_flow]. unfold LEN_EXT_VALUE, LEN_EXT_SHIFT. change (2 ^ 8) with 256.
  destruct (l0 <? 240) eqn:E.
  - apply Z.ltb_lt in E.
    replace (l0 / 16 * 16 =? 240) with false by (symmetry; apply Z.eqb_neq; Z.div_mod_to_equations; lia).
    reflexivity.
  - apply Z.ltb_ge in E.
    replace (l0 / 16 * 16 =? 240) with true by (symmetry; apply Z.eqb_eq; Z.div_mod_to_equations; lia).
    destruct d1 as [|e d2]; [reflexivity|].
    replace (l0 mod 16) with (l0 - 240) by (Z.div_mod_to_equations; lia). reflexivity.
Qed.

Lemma dec_body_complete : forall ordered v6 vpn len d r over,
  0 <= len -> bytes_ok d ->
  ref_tail ordered v6 vpn len d = ROk r over -> offsets0 (r_comps r) = true ->
  exists mr, dec_body v6 vpn len d = DOk mr over /\ abs_rule mr = r.
Proof.
  intros ordered v6 vpn len d r over Hlen Hb H Hz. unfold ref_tail in H.
  destruct (take len d) as [[body ov]|] eqn:T; [|discriminate].
  apply take_some in T. destruct T as (Hr & -> & ->).
  unfold dec_body. replace (llen d <? len) with false by (symmetry; apply Z.ltb_ge; lia).
  unfold RD_LEN. destruct vpn; cbn [andb].
  - destruct (take 8 (ltake len d)) as [[rd cs]|] eqn:T8; [|discriminate].
    apply take_some in T8. destruct T8 as (Hr8 & -> & ->).
    replace (8 <=? llen (ltake len d)) with true by (symmetry; apply Z.leb_le; lia).
    destruct (ref_comps (length (ldrop 8 (ltake len d))) ordered v6 0 (ldrop 8 (ltake len d))) as [comps|e b] eqn:RC; [|discriminate].
    inversion H; subst r over; clear H. cbn [r_comps] in Hz.
    assert (Hbc : bytes_ok (ldrop 8 (ltake len d))) by (unfold ldrop, ltake; apply bytes_ok_skipn, bytes_ok_firstn; exact Hb).
    destruct (ref_parse_comps _ ordered v6 0 _ comps Hbc RC Hz) as (mcs & PC & M).
    rewrite PC. eexists; split; [reflexivity|]. unfold abs_rule. cbn [m_rd m_comps]. rewrite M. reflexivity.
  - destruct (ref_comps (length (ltake len d)) ordered v6 0 (ltake len d)) as [comps|e b] eqn:RC; [|discriminate].
    inversion H; subst r over; clear H. cbn [r_comps] in Hz.
    assert (Hbc : bytes_ok (ltake len d)) by (unfold ltake; apply bytes_ok_firstn; exact Hb).
    destruct (ref_parse_comps _ ordered v6 0 _ comps Hbc RC Hz) as (mcs & PC & M).
    rewrite PC. eexists; split; [reflexivity|]. unfold abs_rule. cbn [m_rd m_comps]. rewrite M. reflexivity.
Qed.

Lemma dec_body_refuses : forall v6 vpn len d e before mr over,
  0 <= len -> bytes_ok d ->
  ref_tail false v6 vpn len d = RErr e before -> named_fault e = true -> offsets0 before = true ->
  dec_body v6 vpn len d <> DOk mr over.
Proof.
  intros v6 vpn len d e before mr over Hlen Hb H Hn Hz Hd. unfold ref_tail in H.
  destruct (take len d) as [[body ov]|] eqn:T; [|inversion H; subst; discriminate].
  apply take_some in T. destruct T as (Hr & -> & ->).
  unfold dec_body in Hd. replace (llen d <? len) with false in Hd by (symmetry; apply Z.ltb_ge; lia).
  unfold RD_LEN in Hd. destruct vpn; cbn [andb] in Hd.
  - destruct (take 8 (ltake len d)) as [[rd cs]|] eqn:T8; [|inversion H; subst; discriminate].
    apply take_some in T8. destruct T8 as (Hr8 & -> & ->).
    replace (8 <=? llen (ltake len d)) with true in Hd by (symmetry; apply Z.leb_le; lia).
    destruct (ref_comps (length (ldrop 8 (ltake len d))) false v6 0 (ldrop 8 (ltake len d))) as [comps|e' b] eqn:RC; [discriminate|].
    inversion H; subst e' b; clear H.
    assert (Hbc : bytes_ok (ldrop 8 (ltake len d))) by (unfold ldrop, ltake; apply bytes_ok_skipn, bytes_ok_firstn; exact Hb).
    rewrite (ref_err_parse _ v6 0 _ e before Hbc RC Hn Hz) in Hd. discriminate.
  - destruct (ref_comps (length (ltake len d)) false v6 0 (ltake len d)) as [comps|e' b] eqn:RC; [discriminate|].
    inversion H; subst e' b; clear H.
    assert (Hbc : bytes_ok (ltake len d)) by (unfold ltake; apply bytes_ok_firstn; exact Hb).
    rewrite (ref_err_parse _ v6 0 _ e before Hbc RC Hn Hz) in Hd. discriminate.
Qed.

Lemma hdr_len_nonneg : forall l0 d1 len d, 0 <= l0 < 256 -> bytes_ok d1 ->
  (if l0 <? 240 then Some (l0, d1)
   else match d1 with [] => None | l1 :: d2 => Some ((l0 - 240) * 256 + l1, d2) end) = Some (len, d) ->
  0 <= len /\ bytes_ok d.
Proof.
  intros l0 d1 len d H0 Hb H. destruct (l0 <? 240) eqn:E.
  - inversion H; subst. split; [lia|exact Hb].
  - apply Z.ltb_ge in E. destruct d1 as [|l1 d2]; [discriminate|]. inversion H; subst.
    inversion Hb; subst. split; [lia|assumption].
Qed.

(* C16_decode_agrees: every NLRI the RFC reference decoder accepts (IPv6 prefixes without offset) is
   decoded, to a rule with the same meaning and the same left-over octets - both families, with and
   without route distinguisher, every length *)
Lemma decode_agrees : forall v6 vpn b r over,
  bytes_ok b -> ref_flow v6 vpn b = ROk r over -> offsets0 (r_comps r) = true ->
  exists mr, dec_flow v6 vpn b = DOk mr over /\ abs_rule mr = r.
Proof.
  intros v6 vpn b r over Hb H Hz. destruct b as [|l0 d1]; [discriminate|].
  inversion Hb as [|? ? H0 Hb1]; subst.
  unfold ref_flow in H. rewrite ref_flow_gen_unfold in H. rewrite dec_flow_unfold by assumption.
  destruct (if l0 <? 240 then Some (l0, d1)
            else match d1 with [] => None | l1 :: d2 => Some ((l0 - 240) * 256 + l1, d2) end) as [[len d]|] eqn:Hh; [|discriminate].
  destruct (hdr_len_nonneg _ _ _ _ H0 Hb1 Hh) as [Hl Hbd].
  apply (dec_body_complete true v6 vpn len d r over Hl Hbd H Hz).
Qed.

(* for IPv4 the side condition is void: the reference never reports an offset there *)
Lemma ref_v4_offsets0 : forall fuel ordered last l cs,
  ref_comps fuel ordered false last l = COk cs -> offsets0 cs = true.
Proof.
  induction fuel as [|f IH]; intros ordered last l cs H.
  - destruct l; [|discriminate]. inversion H. reflexivity.
  - destruct l as [|t l1]; [inversion H; reflexivity|]. cbn [ref_comps] in H.
    destruct (negb (defined_type false t)); [discriminate|].
    destruct (ordered && (t <=? last)); [discriminate|].
    destruct (t <=? 2).
    + destruct (ref_prefix false t l1) as [[c l2]|e] eqn:RP; [|discriminate].
      destruct (ref_comps f ordered false t l2) as [cs0|e b0] eqn:RC; cbn [ccons] in H; [|discriminate].
      inversion H; subst. unfold offsets0. cbn [forallb]. fold (offsets0 cs0). rewrite (IH _ _ _ _ RC).
      destruct l1 as [|m l3]; [discriminate|]. cbn [ref_prefix] in RP.
      destruct (m <=? 32); [|discriminate]. destruct (take ((m + 7) / 8) l3) as [[? ?]|]; [|discriminate].
      inversion RP; subst. reflexivity.
    + destruct (ref_ops (length l1) l1) as [[os l2]|e]; [|discriminate].
      destruct (ref_comps f ordered false t l2) as [cs0|e b0] eqn:RC; cbn [ccons] in H; [|discriminate].
      inversion H; subst. unfold offsets0. cbn [forallb comp_off0 andb]. apply (IH _ _ _ _ RC).
Qed.

Lemma decode_agrees_v4 : forall vpn b r over,
  bytes_ok b -> ref_flow false vpn b = ROk r over ->
  exists mr, dec_flow false vpn b = DOk mr over /\ abs_rule mr = r.
Proof.
  intros vpn b r over Hb H. apply decode_agrees; auto.
  destruct b as [|l0 d1]; [discriminate|]. unfold ref_flow in H. rewrite ref_flow_gen_unfold in H.
  destruct (if l0 <? 240 then Some (l0, d1)
            else match d1 with [] => None | l1 :: d2 => Some ((l0 - 240) * 256 + l1, d2) end) as [[len d]|]; [|discriminate].
  unfold ref_tail in H. destruct (take len d) as [[body ov]|]; [|discriminate].
  destruct (if vpn then take 8 body else Some ([], body)) as [[rd cs]|]; [|discriminate].
  destruct (ref_comps (length cs) true false 0 cs) as [comps|e bb] eqn:RC; [|discriminate].
  inversion H; subst. cbn [r_comps]. apply (ref_v4_offsets0 _ _ _ _ _ RC).
Qed.

(* C16_never_broader stated on the input: an NLRI in which the RFC framing walk meets an undefined
   component, a truncated value or an operator list without its end - before any IPv6 prefix with a
   non-zero offset (the known finding) - is never delivered as a rule *)
Lemma never_broader_input : forall v6 vpn b e before mr over,
  bytes_ok b -> ref_scan v6 vpn b = RErr e before -> named_fault e = true -> offsets0 before = true ->
  dec_flow v6 vpn b <> DOk mr over.
Proof.
  intros v6 vpn b e before mr over Hb H Hn Hz. destruct b as [|l0 d1]; [discriminate|].
  inversion Hb as [|? ? H0 Hb1]; subst.
  unfold ref_scan in H. rewrite ref_flow_gen_unfold in H. rewrite dec_flow_unfold by assumption.
  destruct (if l0 <? 240 then Some (l0, d1)
            else match d1 with [] => None | l1 :: d2 => Some ((l0 - 240) * 256 + l1, d2) end) as [[len d]|] eqn:Hh; [|discriminate].
  destruct (hdr_len_nonneg _ _ _ _ H0 Hb1 Hh) as [Hl Hbd].
  apply (dec_body_refuses v6 vpn len d e before mr over Hl Hbd H Hn Hz).
Qed.

(* ---------------------------------------------------------------- encode then decode *)

Definition byte_b (b : Z) : bool := (0 <=? b) && (b <? 256).
Definition addr_ok (c : mcomp) : bool :=
  match c with MPfx _ _ _ a => forallb byte_b a | MOps _ _ => true end.

Lemma bytes_b_ok : forall l, forallb byte_b l = true -> bytes_ok l.
Proof.
  induction l as [|x l IH]; intros H; [constructor|]. cbn [forallb] in H. apply andb_true_iff in H.
  destruct H as [H1 H2]. unfold byte_b in H1. apply andb_true_iff in H1. destruct H1 as [A B].
  apply Z.leb_le in A. apply Z.ltb_lt in B. constructor; [lia|apply IH; exact H2].
Qed.

Lemma bytes_ok_app : forall l1 l2, bytes_ok l1 -> bytes_ok l2 -> bytes_ok (l1 ++ l2).
Proof. intros. unfold bytes_ok in *. apply Forall_app. split; assumption. Qed.

Lemma enc_op_bytes : forall eol w a nb v, valid_op w (a, nb, v) = true -> bytes_ok (enc_op eol w (a, nb, v)).
Proof.
  intros eol w a nb v Hv. apply valid_op_spec in Hv. destruct Hv as (Ha & Hn & Hvv).
  destruct (lenbits_width w v) as [_ Hlb].
  rewrite enc_op_shape.
  destruct (op_byte_fields eol a (lenbits (width w v)) nb Ha ltac:(lia) Hn) as (_ & _ & _ & _ & F5).
  constructor; [exact F5|]. apply be_bytes. lia.
Qed.

Lemma enc_ops_bytes : forall w ops, forallb (valid_op w) ops = true -> bytes_ok (enc_ops w ops).
Proof.
  induction ops as [|[[a nb] v] ops IH]; intros Hv; [constructor|].
  cbn [forallb] in Hv. apply andb_true_iff in Hv. destruct Hv as [Hv1 Hv2].
  destruct ops as [|o2 ops'].
  - cbn [enc_ops]. apply enc_op_bytes. exact Hv1.
  - change (enc_ops w ((a, nb, v) :: o2 :: ops')) with (enc_op false w (a, nb, v) ++ enc_ops w (o2 :: ops')).
    apply bytes_ok_app; [apply enc_op_bytes; exact Hv1|apply IH; exact Hv2].
Qed.

Lemma enc_comp_bytes : forall v6 c, rt_ok v6 c = true -> addr_ok c = true -> bytes_ok (enc_comp v6 c).
Proof.
  intros v6 c Hc Ha. destruct c as [t m off addr|t ops]; cbn [rt_ok addr_ok enc_comp] in *.
  - repeat (apply andb_true_iff in Hc; destruct Hc as [Hc ?]).
    repeat match goal with
           | H : (_ <=? _) = true |- _ => apply Z.leb_le in H
           | H : (_ =? _) = true |- _ => apply Z.eqb_eq in H end.
    subst off.
    assert (Ht : t = 1 \/ t = 2) by (apply orb_true_iff in Hc; destruct Hc as [Hc|Hc]; apply Z.eqb_eq in Hc; auto).
    assert (Hm : m <= 128) by (destruct v6; lia).
    assert (Hf : bytes_ok (firstn (Z.to_nat (size m)) addr)) by (apply bytes_ok_firstn, bytes_b_ok; exact Ha).
    destruct v6; repeat (constructor; [lia|]); exact Hf.
  - repeat (apply andb_true_iff in Hc; destruct Hc as [Hc ?]).
    repeat match goal with H : (_ <=? _) = true |- _ => apply Z.leb_le in H end.
    constructor; [destruct v6; lia|]. apply enc_ops_bytes. assumption.
Qed.

Lemma flat_enc_bytes : forall v6 cs, forallb (rt_ok v6) cs = true -> forallb addr_ok cs = true ->
  bytes_ok (flat_map (enc_comp v6) cs).
Proof.
  induction cs as [|c cs IH]; intros H1 H2; [constructor|].
  cbn [forallb] in *. apply andb_true_iff in H1. apply andb_true_iff in H2.
  destruct H1 as [A1 A2]. destruct H2 as [B1 B2]. cbn [flat_map].
  apply bytes_ok_app; [apply enc_comp_bytes; assumption|apply IH; assumption].
Qed.

Lemma enc_flow_bytes : forall v6 r b,
  forallb (rt_ok v6) (canon v6 (m_comps r)) = true -> forallb addr_ok (canon v6 (m_comps r)) = true ->
  bytes_ok (m_rd r) -> enc_flow v6 r = Some b -> bytes_ok b.
Proof.
  intros v6 r b H1 H2 Hrd He. unfold enc_flow in He. destruct (valid_rule v6 r); [|discriminate].
  assert (Hbody : bytes_ok (enc_body v6 r)) by (unfold enc_body; apply bytes_ok_app; [exact Hrd|apply flat_enc_bytes; assumption]).
  unfold enc_len in He. rewrite len_compact_spec in He.
  set (n := Z.of_nat (length (enc_body v6 r))) in *. assert (0 <= n) by (subst n; lia).
  destruct (n <? 240) eqn:E1.
  - apply Z.ltb_lt in E1. assert (b = n :: enc_body v6 r) by congruence. subst b. constructor; [lia|exact Hbody].
  - apply Z.ltb_ge in E1. destruct (len_extended n) eqn:E2; [|discriminate].
    apply (proj1 (len_extended_spec _)) in E2. unfold LEN_EXT_VALUE in He.
    assert (b = (240 + n / 256) :: n mod 256 :: enc_body v6 r) by congruence. subst b.
    constructor; [Z.div_mod_to_equations; lia|]. constructor; [Z.div_mod_to_equations; lia|exact Hbody].
Qed.

Lemma normal_offsets0 : forall v6 cs, forallb (rt_ok v6) cs = true -> offsets0 (map abs_comp cs) = true.
Proof.
  induction cs as [|c cs IH]; intros H; [reflexivity|]. cbn [forallb] in H. apply andb_true_iff in H.
  destruct H as [H1 H2]. unfold offsets0. cbn [map forallb]. fold (offsets0 (map abs_comp cs)). rewrite (IH H2).
  destruct c as [t m off addr|t ops]; cbn [abs_comp comp_off0 rt_ok] in *; [|reflexivity].
  repeat (apply andb_true_iff in H1; destruct H1 as [H1 ?]). rewrite andb_true_r. assumption.
Qed.

(* C16_roundtrip through ExaBGP's own decoder: what is sent is read back with the written meaning *)
Lemma encode_decode : forall v6 r b,
  forallb (rt_ok v6) (canon v6 (m_comps r)) = true ->
  forallb addr_ok (canon v6 (m_comps r)) = true ->
  strict_asc 0 (map mty (canon v6 (m_comps r))) = true ->
  (m_rd r = [] \/ (length (m_rd r) = 8%nat /\ bytes_ok (m_rd r))) ->
  enc_flow v6 r = Some b ->
  exists mr, dec_flow v6 (negb (match m_rd r with [] => true | _ => false end)) b = DOk mr [] /\
             abs_rule mr = normal v6 r.
Proof.
  intros v6 r b Hok Ha Hasc Hrd He.
  assert (Hrd1 : m_rd r = [] \/ length (m_rd r) = 8%nat) by (destruct Hrd as [H|[H _]]; auto).
  assert (Hrd2 : bytes_ok (m_rd r)) by (destruct Hrd as [H|[_ H]]; [rewrite H; constructor|exact H]).
  pose proof (roundtrip_partial v6 r b Hok Hasc Hrd1 He) as R.
  apply decode_agrees; [apply (enc_flow_bytes v6 r b Hok Ha Hrd2 He)|exact R|].
  unfold normal, abs_rule, view. cbn [r_comps m_comps]. apply (normal_offsets0 v6). exact Hok.
Qed.
