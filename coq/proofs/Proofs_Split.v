(* C09 - lemmas about Model_Split (the patched code: fixed = true), and witnesses about the
   pinned code (fixed = false). *)
From Coq Require Import ZArith List Bool Lia Permutation.
From ExaV Require Import spec.Spec_Split model.Model_Split.
Import ListNotations.
Open Scope Z_scope.

Section P.
  Context {A NH F : Type}.
  Variable sz : A -> Z.
  Variable nhlen : NH -> Z.
  Variable nheqb : NH -> NH -> bool.
  Variable alen : Z.

  Notation msg := (Spec_Split.msg A NH F).
  Notation lsum := (Spec_Split.lsum sz).
  Notation ws := (Spec_Split.wire_size (F := F) sz nhlen alen).
  Notation rwire := (Spec_Split.reach_wire (F := F) sz nhlen).
  Notation uwire := (Spec_Split.unreach_wire (F := F) sz).
  Notation ann_loop := (Model_Split.ann_loop (NH := NH) (F := F) sz true).
  Notation wd_loop := (Model_Split.wd_loop (NH := NH) (F := F) sz true).
  Notation frag_loop := (Model_Split.frag_loop sz true).
  Notation reach_frags := (Model_Split.reach_frags sz nhlen true).
  Notation unreach_frags := (Model_Split.unreach_frags sz true).
  Notation reach_msgs := (Model_Split.reach_msgs (A := A) (NH := NH) (F := F)).
  Notation unreach_msgs := (Model_Split.unreach_msgs (F := F) sz nhlen true).
  Notation mp_family := (Model_Split.mp_family (F := F) sz nhlen nheqb true).
  Notation mp_loop := (Model_Split.mp_loop (F := F) sz nhlen nheqb true).
  Notation group := (Model_Split.group nheqb).
  Notation mk_v4 := (Model_Split.mk_v4 (A := A) (NH := NH) (F := F)).

  (* ------------------------------------------------------------------ sums *)

  Lemma lsum_nil : lsum [] = 0.
  Proof. reflexivity. Qed.

  Lemma lsum_cons x (a : list A) : lsum (x :: a) = sz x + lsum a.
  Proof. reflexivity. Qed.

  Lemma lsum_app (a b : list A) : lsum (a ++ b) = lsum a + lsum b.
  Proof.
    induction a as [|x a IH]; cbn [app]; rewrite ?lsum_cons, ?lsum_nil; lia.
  Qed.

  Lemma lsum_rev (a : list A) : lsum (rev a) = lsum a.
  Proof.
    induction a as [|x a IH]; [reflexivity|].
    cbn [rev]. rewrite lsum_app, IH, !lsum_cons, lsum_nil. lia.
  Qed.

  Lemma ws_mk_v4 rw ra b :
    ws (mk_v4 rw ra b) = 23 + lsum rw + (if b then alen else 0) + lsum ra.
  Proof.
    unfold Spec_Split.wire_size, Spec_Split.attrs_wire, Model_Split.mk_v4.
    cbn [m_wd m_unreach m_attr m_reach m_ann Spec_Split.unreach_wire Spec_Split.reach_wire].
    rewrite !lsum_rev. lia.
  Qed.

  Lemma ws_mp pu pr :
    ws (Msg [] pu true pr []) = 23 + uwire pu + alen + rwire pr.
  Proof.
    unfold Spec_Split.wire_size, Spec_Split.attrs_wire.
    cbn [m_wd m_unreach m_attr m_reach m_ann]. rewrite ?lsum_nil. lia.
  Qed.

  (* ------------------------------------------------------------------ fits: IPv4 loops *)

  Section Fits.
  Variables M B : Z.
  Hypothesis Hctx : 0 <= alen /\ B + alen = M - 19 - 2 - 2 /\ 0 <= B.
  Ltac ctx := pose proof Hctx as (alen_nonneg & HB & Bpos).

  Lemma ann_loop_fits : forall l ra sa ms f,
    sa = lsum ra -> sa <= B ->
    ann_loop B l ra sa = (ms, f) ->
    Forall (fun m => ws m <= M) ms /\
    match f with Some (ra', sa') => sa' = lsum ra' /\ sa' <= B | None => True end.
  Proof.
    ctx.
    induction l as [|x r IH]; intros ra sa ms f Hsa Hle H; cbn [Model_Split.ann_loop] in H.
    - inversion H; subst. split; [constructor|]. split; [reflexivity|assumption].
    - destruct (sa + 0 + sz x <=? B) eqn:E1.
      + apply (IH (x :: ra) (sa + sz x)); [rewrite lsum_cons; lia | lia | exact H].
      + destruct (sa =? 0) eqn:E2.
        * inversion H; subst. split; [constructor|exact I].
        * cbn [andb] in H. destruct (B <? sz x) eqn:E3.
          -- inversion H; subst. split; [|exact I].
             constructor; [|constructor]. rewrite ws_mk_v4, ?lsum_nil. lia.
          -- destruct (ann_loop B r [x] (sz x)) as [ms' f'] eqn:E4. inversion H; subst.
             destruct (IH [x] (sz x) ms' f) as [H1 H2];
               [rewrite lsum_cons, lsum_nil; lia | lia | exact E4 |].
             split; [|exact H2].
             constructor; [|exact H1]. rewrite ws_mk_v4, ?lsum_nil. lia.
  Qed.

  Lemma wd_loop_fits : forall l rw sw ra sa ms f,
    sa = lsum ra -> sw = lsum rw -> sa + sw <= B ->
    wd_loop B l rw sw ra sa = (ms, f) ->
    Forall (fun m => ws m <= M) ms /\
    match f with
    | Some (rw', sw', ra', sa') => sa' = lsum ra' /\ sw' = lsum rw' /\ sa' + sw' <= B
    | None => True end.
  Proof.
    ctx.
    induction l as [|x r IH]; intros rw sw ra sa ms f Hsa Hsw Hle H; cbn [Model_Split.wd_loop] in H.
    - inversion H; subst. split; [constructor|]. repeat split; try reflexivity; assumption.
    - destruct (sa + sw + sz x <=? B) eqn:E1.
      + apply (IH (x :: rw) (sw + sz x) ra sa); [assumption | rewrite lsum_cons; lia | lia | exact H].
      + destruct ((sw =? 0) && (sa =? 0)) eqn:E2.
        * inversion H; subst. split; [constructor|exact I].
        * cbn [andb] in H.
          assert (Hm : ws (mk_v4 rw ra (negb (sa =? 0))) <= M).
          { rewrite ws_mk_v4. destruct (negb (sa =? 0)); lia. }
          destruct (B <? sz x) eqn:E3.
          -- inversion H; subst. split; [|exact I]. constructor; [exact Hm|constructor].
          -- destruct (wd_loop B r [x] (sz x) [] 0) as [ms' f'] eqn:E4. inversion H; subst.
             destruct (IH [x] (sz x) [] 0 ms' f) as [H1 H2];
               [reflexivity | rewrite lsum_cons, lsum_nil; lia | lia | exact E4 |].
             split; [|exact H2]. constructor; [exact Hm|exact H1].
  Qed.

  (* ------------------------------------------------------------------ fits: MP generators *)

  Lemma frag_loop_fits : forall hdr mx l rp plen fs s,
    plen = hdr + lsum rp -> (hdr < plen -> attr_len plen <= mx) ->
    frag_loop hdr mx l rp plen = (fs, s) ->
    Forall (fun fr => attr_len (hdr + lsum fr) <= mx) fs /\ s <> GRaise.
  Proof.
    induction l as [|x r IH]; intros rp plen fs s Hp Hfit H; cbn [Model_Split.frag_loop] in H.
    - inversion H; subst. split; [|discriminate].
      destruct (hdr <? hdr + lsum rp) eqn:E; [|constructor].
      constructor; [|constructor]. rewrite lsum_rev. apply Hfit. lia.
    - destruct (mx <? attr_len (plen + sz x)) eqn:E1.
      + assert (Hpre : Forall (fun fr => attr_len (hdr + lsum fr) <= mx)
                              (if hdr <? plen then [rev rp] else [])).
        { destruct (hdr <? plen) eqn:E; [|constructor].
          constructor; [|constructor]. rewrite lsum_rev, <- Hp. apply Hfit. lia. }
        destruct (mx <? attr_len (hdr + sz x)) eqn:E2.
        * inversion H; subst. split; [exact Hpre|discriminate].
        * destruct (frag_loop hdr mx r [x] (hdr + sz x)) as [fs' s'] eqn:E3. inversion H; subst.
          destruct (IH [x] (hdr + sz x) fs' s) as [H1 H2];
            [rewrite lsum_cons, lsum_nil; lia | intros _; lia | exact E3 |].
          split; [|exact H2]. apply Forall_app. split; assumption.
      + apply (IH (x :: rp) (plen + sz x)); [rewrite lsum_cons; lia | intros _; lia | exact H].
  Qed.

  Lemma reach_frags_fits : forall mx g frs s,
    reach_frags mx g = (frs, s) ->
    Forall (fun nf => attr_len (5 + nhlen (fst nf) + lsum (snd nf)) <= mx) frs /\ s <> GRaise.
  Proof.
    induction g as [|[nh l] r IH]; intros frs s H; cbn [Model_Split.reach_frags] in H.
    - inversion H; subst. split; [constructor|discriminate].
    - destruct (frag_loop (5 + nhlen nh) mx l [] (5 + nhlen nh)) as [fs st] eqn:E1.
      destruct (frag_loop_fits (5 + nhlen nh) mx l [] (5 + nhlen nh) fs st) as [H1 H2];
        [rewrite lsum_nil; lia | intros; lia | exact E1 |].
      assert (Ht : Forall (fun nf => attr_len (5 + nhlen (fst nf) + lsum (snd nf)) <= mx)
                          (map (fun fr => (nh, fr)) fs)).
      { apply Forall_map. cbn [fst snd]. exact H1. }
      destruct st.
      + destruct (reach_frags mx r) as [fs' s'] eqn:E2. inversion H; subst.
        destruct (IH fs' s eq_refl) as [H3 H4].
        split; [apply Forall_app; split; assumption | exact H4].
      + inversion H; subst. split; [exact Ht|discriminate].
      + exfalso. apply H2. reflexivity.
  Qed.

  Lemma unreach_frags_fits : forall mx wds fs s,
    unreach_frags mx wds = (fs, s) ->
    Forall (fun fr => attr_len (3 + lsum fr) <= mx) fs /\ s <> GRaise.
  Proof.
    intros mx wds fs s H. unfold Model_Split.unreach_frags in H. destruct wds as [|x r].
    - inversion H; subst. split; [constructor|discriminate].
    - apply (frag_loop_fits 3 mx (x :: r) [] 3);
        [rewrite ?lsum_cons, ?lsum_nil; lia | intros; lia | exact H].
  Qed.

  (* ------------------------------------------------------------------ fits: MP messages *)

  Lemma reach_msgs_fits : forall f frs pend ms p lw' la',
    Forall (fun nf => attr_len (5 + nhlen (fst nf) + lsum (snd nf)) <= B) frs ->
    rwire pend <= B ->
    reach_msgs f frs pend [] [] = (ms, p, lw', la') ->
    Forall (fun m => ws m <= M) ms /\ rwire p <= B /\ lw' = [] /\ la' = [].
  Proof.
    ctx.
    induction frs as [|[nh fr] r IH]; intros pend ms p lw' la' Hf Hp H; cbn [Model_Split.reach_msgs] in H.
    - inversion H; subst. repeat split; try assumption. constructor.
    - inversion Hf as [|? ? Hf1 Hf2]; subst. cbn [fst snd] in Hf1.
      destruct pend as [pd|].
      + destruct (reach_msgs f r (Some (f, nh, fr)) [] []) as [[[ms' p'] lw2] la2] eqn:E.
        inversion H; subst.
        destruct (IH (Some (f, nh, fr)) ms' p lw' la' Hf2) as [H1 H2]; [exact Hf1 | exact E |].
        split; [|exact H2]. constructor; [|exact H1]. rewrite ws_mp.
        cbn [Spec_Split.unreach_wire]. lia.
      + apply (IH (Some (f, nh, fr))); [exact Hf2 | exact Hf1 | exact H].
  Qed.

  Lemma unreach_msgs_fits : forall f frs pu pr ms pu' pr' lw' la',
    Forall (fun fr => attr_len (3 + lsum fr) <= B) frs ->
    uwire pu + rwire pr <= B ->
    unreach_msgs B f frs pu pr [] [] = (ms, pu', pr', lw', la') ->
    Forall (fun m => ws m <= M) ms /\ uwire pu' + rwire pr' <= B /\ lw' = [] /\ la' = [].
  Proof.
    ctx.
    induction frs as [|fr r IH]; intros pu pr ms pu' pr' lw' la' Hf Hinv H;
      cbn [Model_Split.unreach_msgs] in H.
    - inversion H; subst. repeat split; try assumption. constructor.
    - inversion Hf as [|? ? Hf1 Hf2]; subst.
      match type of H with (if ?c then _ else _) = _ => destruct c eqn:Ec end.
      + destruct (unreach_msgs B f r (Some (f, fr)) None [] []) as [[[[ms' a] b] c] d] eqn:E.
        inversion H; subst.
        destruct (IH (Some (f, fr)) None ms' pu' pr' lw' la' Hf2) as [H1 H2];
          [cbn [Spec_Split.unreach_wire Spec_Split.reach_wire]; lia | exact E |].
        split; [|exact H2]. constructor; [|exact H1]. rewrite ws_mp. lia.
      + apply (IH (Some (f, fr)) pr); [exact Hf2 | | exact H].
        destruct pu as [pu0|]; [discriminate|].
        cbn [andb] in Ec. cbn [Spec_Split.unreach_wire].
        destruct pr as [pr0|].
        * cbn [andb] in Ec. apply Z.ltb_ge in Ec. cbn [Spec_Split.unreach_wire] in Ec. lia.
        * cbn [Spec_Split.reach_wire]. lia.
  Qed.

  Lemma mp_family_fits : forall fam ms raised,
    mp_family B fam [] [] = (ms, raised) ->
    Forall (fun m => ws m <= M) ms /\ raised = false.
  Proof.
    ctx.
    intros [[f routed] wds] ms raised H. unfold Model_Split.mp_family in H.
    rewrite ?lsum_nil in H. replace (B - (0 + 0)) with B in H by lia.
    destruct (reach_frags B (group routed)) as [rfr rst] eqn:E1.
    destruct (reach_frags_fits _ _ _ _ E1) as [Hr1 Hr2].
    destruct (reach_msgs f rfr None [] []) as [[[msr pr] lw1] la1] eqn:E2.
    destruct (reach_msgs_fits f rfr None msr pr lw1 la1 Hr1) as (Hm1 & Hpr & -> & ->);
      [cbn [Spec_Split.reach_wire]; lia | exact E2 |].
    destruct (unreach_frags B wds) as [ufr ust] eqn:E3.
    destruct (unreach_frags_fits _ _ _ _ E3) as [Hu1 Hu2].
    destruct (unreach_msgs B f ufr None pr [] []) as [[[[msu pu] pr2] lw2] la2] eqn:E4.
    destruct (unreach_msgs_fits f ufr None pr msu pu pr2 lw2 la2 Hu1) as (Hm2 & Hinv & -> & ->);
      [cbn [Spec_Split.unreach_wire]; lia | exact E4 |].
    assert (Hfin : Forall (fun m => ws m <= M)
                     (if true && Model_Split.is_none pu && Model_Split.is_none pr2 then []
                      else [Msg [] pu true pr2 []])).
    { destruct (true && Model_Split.is_none pu && Model_Split.is_none pr2); [constructor|].
      constructor; [|constructor]. rewrite ws_mp. lia. }
    destruct rst; [| |exfalso; apply Hr2; reflexivity];
      (destruct ust; [| |exfalso; apply Hu2; reflexivity]);
      inversion H; subst; (split; [|reflexivity]);
      repeat (apply Forall_app; split); assumption.
  Qed.

  Lemma mp_loop_fits : forall fams ms o,
    mp_loop B fams [] [] = (ms, o) ->
    Forall (fun m => ws m <= M) ms /\ o = Done.
  Proof.
    ctx.
    induction fams as [|fam r IH]; intros ms o H; cbn [Model_Split.mp_loop] in H.
    - inversion H; subst. split; [constructor|reflexivity].
    - destruct (mp_family B fam [] []) as [ms1 raised] eqn:E1.
      destruct (mp_family_fits _ _ _ E1) as [H1 ->].
      destruct (mp_loop B r [] []) as [ms2 o2] eqn:E2. inversion H; subst.
      destruct (IH ms2 o eq_refl) as [H2 H3].
      split; [apply Forall_app; split; assumption | exact H3].
  Qed.
  End Fits.

  (* ------------------------------------------------------------------ fits: messages() *)

  Notation messages := (Model_Split.messages (F := F) sz nhlen nheqb true).

  Lemma messages_fits : forall M v4a v4w fams,
    0 <= alen -> fits sz nhlen alen M (fst (messages M alen v4a v4w fams)).
  Proof.
    intros M v4a v4w fams Ha. unfold Model_Split.messages, fits.
    destruct (Model_Split.nothing_to_send v4a v4w fams); [constructor|].
    set (B := M - 19 - 2 - 2 - alen).
    destruct (B <? 0) eqn:E0; [constructor|].
    destruct (B =? 0) eqn:E00; [constructor|].
    assert (Hctx : 0 <= alen /\ B + alen = M - 19 - 2 - 2 /\ 0 <= B) by (unfold B; lia).
    destruct (ann_loop B v4a [] 0) as [ms1 f1] eqn:E1.
    destruct (ann_loop_fits M B Hctx v4a [] 0 ms1 f1) as [H1 H1'];
      [rewrite lsum_nil; reflexivity | lia | exact E1 |].
    destruct f1 as [[ra sa]|]; [|exact H1]. destruct H1' as [Hsa Hle].
    destruct (wd_loop B v4w [] 0 ra sa) as [ms2 f2] eqn:E2.
    destruct (wd_loop_fits M B Hctx v4w [] 0 ra sa ms2 f2) as [H2 H2'];
      [exact Hsa | rewrite lsum_nil; reflexivity | lia | exact E2 |].
    destruct f2 as [[[[rw sw] ra'] sa']|]; [|cbn [fst]; apply Forall_app; split; assumption].
    destruct H2' as (Hsa' & Hsw & Hle').
    destruct (mp_loop B fams [] []) as [ms3 o] eqn:E3.
    destruct (mp_loop_fits M B Hctx fams ms3 o E3) as [H3 _].
    cbn [fst]. repeat (apply Forall_app; split); try assumption.
    destruct ((sa' =? 0) && (sw =? 0)); [constructor|].
    constructor; [|constructor]. rewrite ws_mk_v4. destruct (negb (sa' =? 0)); lia.
  Qed.

  Lemma messages_never_raise : forall M v4a v4w fams,
    snd (messages M alen v4a v4w fams) <> Raised.
  Proof.
    intros M v4a v4w fams. unfold Model_Split.messages.
    destruct (Model_Split.nothing_to_send v4a v4w fams); [discriminate|].
    set (B := M - 19 - 2 - 2 - alen).
    destruct (B <? 0) eqn:E0; [discriminate|].
    destruct (B =? 0) eqn:E00; [discriminate|].
    destruct (ann_loop B v4a [] 0) as [ms1 [[ra sa]|]]; [|discriminate].
    destruct (wd_loop B v4w [] 0 ra sa) as [ms2 [[[[rw sw] ra'] sa']|]]; [|discriminate].
    destruct (mp_loop B fams [] []) as [ms3 o] eqn:E3.
    cbn [snd]. intros ->.
    (* mp_loop never raises: its fits lemma does not use the size hypotheses for that part *)
    assert (H : forall fams ms o, mp_loop B fams [] [] = (ms, o) -> o = Done).
    { clear. induction fams as [|fam r IH]; intros ms o H; cbn [Model_Split.mp_loop] in H.
      - inversion H; reflexivity.
      - destruct (mp_family B fam [] []) as [ms1 raised] eqn:E1.
        assert (raised = false).
        { clear - E1. destruct fam as [[f routed] wds]. unfold Model_Split.mp_family in E1.
          destruct (reach_frags (B - (lsum [] + lsum [])) (group routed)) as [rfr rst] eqn:F1.
          destruct (reach_frags_fits _ _ _ _ F1) as [_ Hr].
          destruct (reach_msgs f rfr None [] []) as [[[msr pr] lw1] la1].
          destruct (unreach_frags B wds) as [ufr ust] eqn:F2.
          destruct (unreach_frags_fits _ _ _ _ F2) as [_ Hu].
          destruct (unreach_msgs B f ufr None pr lw1 la1) as [[[[msu pu] pr2] lw2] la2].
          destruct rst; [| |exfalso; apply Hr; reflexivity];
            (destruct ust; [| |exfalso; apply Hu; reflexivity]); inversion E1; reflexivity. }
        subst raised. destruct (mp_loop B r [] []) as [ms2 o2] eqn:E2. inversion H; subst.
        apply (IH ms2 o eq_refl). }
    specialize (H fams ms3 Raised E3). discriminate.
  Qed.

  (* ------------------------------------------------------------------ observations *)

  Notation ann4 := (Spec_Split.announced_v4 (A := A) (NH := NH) (F := F)).
  Notation wd4 := (Spec_Split.withdrawn_v4 (A := A) (NH := NH) (F := F)).
  Notation annmp := (Spec_Split.announced_mp (A := A) (NH := NH) (F := F)).
  Notation wdmp := (Spec_Split.withdrawn_mp (A := A) (NH := NH) (F := F)).
  Notation awn := (Spec_Split.attrs_where_needed (A := A) (NH := NH) (F := F)).

  Definition otriples (p : option (F * NH * list A)) : list (F * NH * A) :=
    match p with Some (f, nh, l) => map (fun x => (f, nh, x)) l | None => [] end.
  Definition opairs (p : option (F * list A)) : list (F * A) :=
    match p with Some (f, l) => map (fun x => (f, x)) l | None => [] end.

  Lemma ann4_cons m ms : ann4 (m :: ms) = m_ann m ++ ann4 ms.
  Proof. reflexivity. Qed.
  Lemma wd4_cons m ms : wd4 (m :: ms) = m_wd m ++ wd4 ms.
  Proof. reflexivity. Qed.
  Lemma annmp_cons m ms : annmp (m :: ms) = otriples (m_reach m) ++ annmp ms.
  Proof. reflexivity. Qed.
  Lemma wdmp_cons m ms : wdmp (m :: ms) = opairs (m_unreach m) ++ wdmp ms.
  Proof. reflexivity. Qed.
  Lemma ann4_app a b : ann4 (a ++ b) = ann4 a ++ ann4 b.
  Proof. apply flat_map_app. Qed.
  Lemma wd4_app a b : wd4 (a ++ b) = wd4 a ++ wd4 b.
  Proof. apply flat_map_app. Qed.
  Lemma annmp_app a b : annmp (a ++ b) = annmp a ++ annmp b.
  Proof. apply flat_map_app. Qed.
  Lemma wdmp_app a b : wdmp (a ++ b) = wdmp a ++ wdmp b.
  Proof. apply flat_map_app. Qed.
  Lemma awn_app a b : awn a -> awn b -> awn (a ++ b).
  Proof. intros Ha Hb. apply Forall_app. split; assumption. Qed.

  (* accumulated size 0 means nothing accumulated (NLRIs are not empty) *)
  Definition inv (s : Z) (r : list A) : Prop := 0 <= s /\ (s = 0 -> r = []).

  Lemma rev_nonnil (r : list A) : rev r <> [] -> r <> [].
  Proof. intros H ->. apply H. reflexivity. Qed.

  Section Complete.
  Variable B : Z.

  Lemma ann_loop_complete : forall l ra sa ms f,
    (forall x, In x l -> 0 < sz x <= B) -> inv sa ra ->
    ann_loop B l ra sa = (ms, f) ->
    exists ra' sa', f = Some (ra', sa') /\ inv sa' ra' /\
      ann4 ms ++ rev ra' = rev ra ++ l /\ wd4 ms = [] /\ annmp ms = [] /\ wdmp ms = [] /\ awn ms.
  Proof.
    induction l as [|x r IH]; intros ra sa ms f Hfit [Hs0 Hs1] H; cbn [Model_Split.ann_loop] in H.
    - inversion H; subst. exists ra, sa.
      split; [reflexivity|]. split; [split; assumption|].
      split; [cbn; rewrite app_nil_r; reflexivity|].
      repeat (split; [reflexivity|]). constructor.
    - assert (Hx : 0 < sz x <= B) by (apply Hfit; left; reflexivity).
      assert (Hr : forall y, In y r -> 0 < sz y <= B) by (intros y Hy; apply Hfit; right; exact Hy).
      destruct (sa + 0 + sz x <=? B) eqn:E1.
      + destruct (IH (x :: ra) (sa + sz x) ms f Hr) as (ra' & sa' & Hf & Hi & Ha & Hrest);
          [split; [lia | intros; lia] | exact H |].
        exists ra', sa'. split; [exact Hf|]. split; [exact Hi|]. split; [|exact Hrest].
        rewrite Ha. cbn [rev]. rewrite <- app_assoc. reflexivity.
      + destruct (sa =? 0) eqn:E2; [lia|].
        cbn [andb] in H. destruct (B <? sz x) eqn:E3; [lia|].
        destruct (ann_loop B r [x] (sz x)) as [ms' f'] eqn:E4. inversion H; subst.
        destruct (IH [x] (sz x) ms' f Hr) as (ra' & sa' & Hf & Hi & Ha & Hw & Hm1 & Hm2 & Hat);
          [split; [lia | intros; lia] | exact E4 |].
        exists ra', sa'. split; [exact Hf|]. split; [exact Hi|].
        split; [rewrite ann4_cons, <- app_assoc, Ha; reflexivity|].
        split; [rewrite wd4_cons, Hw; reflexivity|].
        split; [rewrite annmp_cons, Hm1; reflexivity|].
        split; [rewrite wdmp_cons, Hm2; reflexivity|].
        constructor; [intros _; reflexivity | exact Hat].
  Qed.

  Lemma wd_loop_complete : forall l rw sw ra sa ms f,
    (forall x, In x l -> 0 < sz x <= B) -> inv sa ra -> inv sw rw ->
    wd_loop B l rw sw ra sa = (ms, f) ->
    exists rw' sw' ra' sa', f = Some (rw', sw', ra', sa') /\ inv sa' ra' /\ inv sw' rw' /\
      wd4 ms ++ rev rw' = rev rw ++ l /\ ann4 ms ++ rev ra' = rev ra /\
      annmp ms = [] /\ wdmp ms = [] /\ awn ms.
  Proof.
    induction l as [|x r IH]; intros rw sw ra sa ms f Hfit Hia Hiw H; cbn [Model_Split.wd_loop] in H.
    - inversion H; subst. exists rw, sw, ra, sa.
      split; [reflexivity|]. split; [exact Hia|]. split; [exact Hiw|].
      split; [cbn; rewrite app_nil_r; reflexivity|].
      repeat (split; [reflexivity|]). constructor.
    - assert (Hx : 0 < sz x <= B) by (apply Hfit; left; reflexivity).
      assert (Hr : forall y, In y r -> 0 < sz y <= B) by (intros y Hy; apply Hfit; right; exact Hy).
      destruct Hia as [Ha0 Ha1]. destruct Hiw as [Hw0 Hw1].
      destruct (sa + sw + sz x <=? B) eqn:E1.
      + destruct (IH (x :: rw) (sw + sz x) ra sa ms f Hr) as (rw' & sw' & ra' & sa' & Hf & Hi1 & Hi2 & Hw & Hrest);
          [split; assumption | split; [lia | intros; lia] | exact H |].
        exists rw', sw', ra', sa'. split; [exact Hf|]. split; [exact Hi1|]. split; [exact Hi2|].
        split; [|exact Hrest].
        rewrite Hw. cbn [rev]. rewrite <- app_assoc. reflexivity.
      + destruct ((sw =? 0) && (sa =? 0)) eqn:E2; [lia|].
        cbn [andb] in H. destruct (B <? sz x) eqn:E3; [lia|].
        destruct (wd_loop B r [x] (sz x) [] 0) as [ms' f'] eqn:E4. inversion H; subst.
        destruct (IH [x] (sz x) [] 0 ms' f Hr) as (rw' & sw' & ra' & sa' & Hf & Hi1 & Hi2 & Hw & Ha & Hm1 & Hm2 & Hat);
          [split; [lia | reflexivity] | split; [lia | intros; lia] | exact E4 |].
        exists rw', sw', ra', sa'. split; [exact Hf|]. split; [exact Hi1|]. split; [exact Hi2|].
        split; [rewrite wd4_cons, <- app_assoc, Hw; reflexivity|].
        split; [rewrite ann4_cons, <- app_assoc, Ha; cbn; rewrite app_nil_r; reflexivity|].
        split; [rewrite annmp_cons, Hm1; reflexivity|].
        split; [rewrite wdmp_cons, Hm2; reflexivity|].
        constructor; [|exact Hat]. cbn [Model_Split.mk_v4 m_ann m_reach m_attr].
        intros [Hn|Hn]; [|congruence].
        apply rev_nonnil in Hn. destruct (sa =? 0) eqn:E5; [|reflexivity].
        exfalso. apply Hn. apply Ha1. lia.
  Qed.

  Lemma frag_loop_complete : forall hdr mx l rp plen fs s,
    (forall x, In x l -> 0 < sz x /\ attr_len (hdr + sz x) <= mx) ->
    hdr <= plen -> (rp <> [] -> hdr < plen) ->
    frag_loop hdr mx l rp plen = (fs, s) ->
    s = GDone /\ concat fs = rev rp ++ l.
  Proof.
    induction l as [|x r IH]; intros rp plen fs s Hfit Hle Hne H; cbn [Model_Split.frag_loop] in H.
    - inversion H; subst. split; [reflexivity|]. rewrite app_nil_r.
      destruct (hdr <? plen) eqn:E; [cbn; apply app_nil_r|].
      destruct rp as [|y rp]; [reflexivity|]. exfalso. assert (hdr < plen) by (apply Hne; discriminate). lia.
    - assert (Hx : 0 < sz x /\ attr_len (hdr + sz x) <= mx) by (apply Hfit; left; reflexivity).
      assert (Hr : forall y, In y r -> 0 < sz y /\ attr_len (hdr + sz y) <= mx)
        by (intros y Hy; apply Hfit; right; exact Hy).
      destruct (mx <? attr_len (plen + sz x)) eqn:E1.
      + destruct (mx <? attr_len (hdr + sz x)) eqn:E2; [lia|].
        destruct (frag_loop hdr mx r [x] (hdr + sz x)) as [fs' s'] eqn:E3. inversion H; subst.
        destruct (IH [x] (hdr + sz x) fs' s Hr) as [H1 H2]; [lia | intros; lia | exact E3 |].
        split; [exact H1|]. rewrite concat_app, H2. cbn [rev app]. f_equal.
        destruct (hdr <? plen) eqn:E; [cbn; apply app_nil_r|].
        destruct rp as [|y rp]; [reflexivity|]. exfalso. assert (hdr < plen) by (apply Hne; discriminate). lia.
      + destruct (IH (x :: rp) (plen + sz x) fs s Hr) as [H1 H2]; [lia | intros; lia | exact H |].
        split; [exact H1|]. rewrite H2. cbn [rev]. rewrite <- app_assoc. reflexivity.
  Qed.

  Definition flatg (g : list (NH * list A)) : list (NH * A) :=
    flat_map (fun kl => map (fun x => (fst kl, x)) (snd kl)) g.

  Lemma flatg_tagged nh (fs : list (list A)) :
    flatg (map (fun fr => (nh, fr)) fs) = map (fun x => (nh, x)) (concat fs).
  Proof.
    induction fs as [|fr fs IH]; [reflexivity|].
    cbn [map flatg flat_map concat fst snd] in *. rewrite map_app. f_equal. exact IH.
  Qed.

  Lemma reach_frags_complete : forall mx g frs s,
    (forall nh l x, In (nh, l) g -> In x l -> 0 < sz x /\ attr_len (5 + nhlen nh + sz x) <= mx) ->
    reach_frags mx g = (frs, s) -> s = GDone /\ flatg frs = flatg g.
  Proof.
    induction g as [|[nh l] r IH]; intros frs s Hfit H; cbn [Model_Split.reach_frags] in H.
    - inversion H; subst. split; reflexivity.
    - destruct (frag_loop (5 + nhlen nh) mx l [] (5 + nhlen nh)) as [fs st] eqn:E1.
      destruct (frag_loop_complete (5 + nhlen nh) mx l [] (5 + nhlen nh) fs st) as [-> Hc];
        [intros x Hx; apply (Hfit nh l x); [left; reflexivity | exact Hx] | lia | congruence | exact E1 |].
      destruct (reach_frags mx r) as [fs' s'] eqn:E2. inversion H; subst.
      destruct (IH fs' s) as [H1 H2];
        [intros nh' l' x Hin Hx; apply (Hfit nh' l' x); [right; exact Hin | exact Hx] | reflexivity |].
      split; [exact H1|]. unfold flatg at 1. rewrite flat_map_app. fold (flatg fs'). rewrite H2.
      fold (flatg (map (fun fr => (nh, fr)) fs)). rewrite flatg_tagged, Hc. reflexivity.
  Qed.

  Lemma unreach_frags_complete : forall mx wds fs s,
    (forall x, In x wds -> 0 < sz x /\ attr_len (3 + sz x) <= mx) ->
    unreach_frags mx wds = (fs, s) -> s = GDone /\ concat fs = wds.
  Proof.
    intros mx wds fs s Hfit H. unfold Model_Split.unreach_frags in H. destruct wds as [|x r].
    - inversion H; subst. split; reflexivity.
    - apply (frag_loop_complete 3 mx (x :: r) [] 3 fs s Hfit); [lia | congruence | exact H].
  Qed.

  Definition triples (f : F) (l : list (NH * A)) : list (F * NH * A) :=
    map (fun p => (f, fst p, snd p)) l.

  Lemma triples_cons f nh fr (r : list (NH * list A)) :
    triples f (flatg ((nh, fr) :: r)) = map (fun x => (f, nh, x)) fr ++ triples f (flatg r).
  Proof.
    unfold triples. cbn [flatg flat_map fst snd]. rewrite map_app, map_map. reflexivity.
  Qed.

  Lemma reach_msgs_complete : forall f frs pend ms p lw' la',
    reach_msgs f frs pend [] [] = (ms, p, lw', la') ->
    annmp ms ++ otriples p = otriples pend ++ triples f (flatg frs) /\
    wdmp ms = [] /\ ann4 ms = [] /\ wd4 ms = [] /\ awn ms /\ lw' = [] /\ la' = [].
  Proof.
    induction frs as [|[nh fr] r IH]; intros pend ms p lw' la' H; cbn [Model_Split.reach_msgs] in H.
    - inversion H; subst. split; [cbn; rewrite app_nil_r; reflexivity|].
      repeat (split; [reflexivity|]). split; [constructor|]. split; reflexivity.
    - rewrite triples_cons. destruct pend as [pd|].
      + destruct (reach_msgs f r (Some (f, nh, fr)) [] []) as [[[ms' p'] lw2] la2] eqn:E.
        inversion H; subst.
        destruct (IH (Some (f, nh, fr)) ms' p lw' la' E) as (H1 & H2 & H3 & H4 & H5 & H6 & H7).
        split; [rewrite annmp_cons, <- app_assoc, H1; reflexivity|].
        split; [rewrite wdmp_cons, H2; reflexivity|].
        split; [rewrite ann4_cons, H3; reflexivity|].
        split; [rewrite wd4_cons, H4; reflexivity|].
        split; [constructor; [intros _; reflexivity | exact H5]|].
        split; assumption.
      + destruct (IH (Some (f, nh, fr)) ms p lw' la' H) as (H1 & Hrest).
        split; [exact H1 | exact Hrest].
  Qed.

  Lemma unreach_msgs_complete : forall f frs pu pr ms pu' pr' lw' la',
    unreach_msgs B f frs pu pr [] [] = (ms, pu', pr', lw', la') ->
    wdmp ms ++ opairs pu' = opairs pu ++ map (fun x => (f, x)) (concat frs) /\
    annmp ms ++ otriples pr' = otriples pr /\
    ann4 ms = [] /\ wd4 ms = [] /\ awn ms /\ lw' = [] /\ la' = [].
  Proof.
    induction frs as [|fr r IH]; intros pu pr ms pu' pr' lw' la' H; cbn [Model_Split.unreach_msgs] in H.
    - inversion H; subst. split; [cbn; rewrite !app_nil_r; reflexivity|].
      split; [cbn; reflexivity|].
      repeat (split; [reflexivity|]). split; [constructor|]. split; reflexivity.
    - cbn [concat]. rewrite map_app.
      match type of H with (if ?c then _ else _) = _ => destruct c eqn:Ec end.
      + destruct (unreach_msgs B f r (Some (f, fr)) None [] []) as [[[[ms' a] b] c] d] eqn:E.
        inversion H; subst.
        destruct (IH (Some (f, fr)) None ms' pu' pr' lw' la' E) as (H1 & H2 & H3 & H4 & H5 & H6 & H7).
        split; [rewrite wdmp_cons, <- !app_assoc, H1; reflexivity|].
        split; [rewrite annmp_cons, <- app_assoc, H2; cbn; rewrite app_nil_r; reflexivity|].
        split; [rewrite ann4_cons, H3; reflexivity|].
        split; [rewrite wd4_cons, H4; reflexivity|].
        split; [constructor; [intros _; reflexivity | exact H5]|].
        split; assumption.
      + destruct pu as [pu0|]; [discriminate|].
        destruct (IH (Some (f, fr)) pr ms pu' pr' lw' la' H) as (H1 & Hrest).
        split; [exact H1 | exact Hrest].
  Qed.

  (* ------------------------------------------------------------------ grouping by next hop *)

  Hypothesis nheqb_sound : forall a b, nheqb a b = true -> a = b.

  Lemma group_add_perm : forall nh x g,
    Permutation (flatg (Model_Split.group_add nheqb nh x g)) ((nh, x) :: flatg g).
  Proof.
    induction g as [|[k l] r IH]; cbn [Model_Split.group_add].
    - cbn. apply Permutation_refl.
    - destruct (nheqb k nh) eqn:E.
      + apply nheqb_sound in E. subst k. cbn [flatg flat_map fst snd map]. apply Permutation_refl.
      + cbn [flatg flat_map fst snd]. fold (flatg (Model_Split.group_add nheqb nh x r)). fold (flatg r).
        eapply Permutation_trans; [apply Permutation_app_head; exact IH|].
        apply Permutation_sym. apply Permutation_middle.
  Qed.

  Lemma group_fold_perm : forall routed g,
    Permutation (flatg (fold_left (fun g r => Model_Split.group_add nheqb (fst r) (snd r) g) routed g))
                (flatg g ++ routed).
  Proof.
    induction routed as [|[nh x] r IH]; intros g; cbn [fold_left fst snd].
    - rewrite app_nil_r. apply Permutation_refl.
    - eapply Permutation_trans; [apply IH|].
      eapply Permutation_trans; [apply Permutation_app_tail; apply group_add_perm|].
      cbn [app]. apply Permutation_middle.
  Qed.

  Lemma flatg_rev_perm : forall g,
    Permutation (flatg (map (fun kl => (fst kl, rev (snd kl))) g)) (flatg g).
  Proof.
    induction g as [|[k l] r IH]; [apply Permutation_refl|].
    cbn [map flatg flat_map fst snd]. apply Permutation_app; [|exact IH].
    apply Permutation_map. apply Permutation_sym. apply Permutation_rev.
  Qed.

  Lemma group_perm : forall routed, Permutation (flatg (group routed)) routed.
  Proof.
    intros routed. unfold Model_Split.group.
    eapply Permutation_trans; [apply flatg_rev_perm|].
    apply (group_fold_perm routed []).
  Qed.

  Lemma in_flatg : forall nh l x g, In (nh, l) g -> In x l -> In (nh, x) (flatg g).
  Proof.
    intros nh l x g Hg Hx. unfold flatg. apply in_flat_map. exists (nh, l). split; [exact Hg|].
    cbn [fst snd]. apply in_map. exact Hx.
  Qed.

  (* ------------------------------------------------------------------ one family, all families *)

  Definition fam_ok (fam : F * list (NH * A) * list A) : Prop :=
    match fam with (f, routed, wds) =>
      (forall nh x, In (nh, x) routed -> 0 < sz x /\ attr_len (5 + nhlen nh + sz x) <= B) /\
      (forall x, In x wds -> 0 < sz x /\ attr_len (3 + sz x) <= B)
    end.

  Lemma mp_family_complete : forall f routed wds ms raised,
    fam_ok (f, routed, wds) ->
    mp_family B (f, routed, wds) [] [] = (ms, raised) ->
    raised = false /\ Permutation (annmp ms) (triples f routed) /\
    wdmp ms = map (fun x => (f, x)) wds /\ ann4 ms = [] /\ wd4 ms = [] /\ awn ms.
  Proof.
    intros f routed wds ms raised [Hok1 Hok2] H. unfold Model_Split.mp_family in H.
    rewrite ?lsum_nil in H. replace (B - (0 + 0)) with B in H by lia.
    destruct (reach_frags B (group routed)) as [rfr rst] eqn:E1.
    destruct (reach_frags_complete B (group routed) rfr rst) as [-> Hfl]; [|exact E1|].
    { intros nh l x Hg Hx. apply Hok1. eapply Permutation_in; [apply group_perm|].
      eapply in_flatg; eassumption. }
    destruct (reach_msgs f rfr None [] []) as [[[msr pr] lw1] la1] eqn:E2.
    destruct (reach_msgs_complete f rfr None msr pr lw1 la1 E2) as (R1 & R2 & R3 & R4 & R5 & -> & ->).
    destruct (unreach_frags B wds) as [ufr ust] eqn:E3.
    destruct (unreach_frags_complete B wds ufr ust Hok2 E3) as [-> Hcu].
    destruct (unreach_msgs B f ufr None pr [] []) as [[[[msu pu] pr2] lw2] la2] eqn:E4.
    destruct (unreach_msgs_complete f ufr None pr msu pu pr2 lw2 la2 E4) as (U1 & U2 & U3 & U4 & U5 & -> & ->).
    set (final := if true && Model_Split.is_none pu && Model_Split.is_none pr2 then []
                  else [Msg [] pu true pr2 []]) in H.
    injection H as Hms Hraised. rewrite <- Hms, <- Hraised. clear Hms Hraised.
    split; [reflexivity|].
    assert (Hf1 : annmp final = otriples pr2).
    { unfold final. destruct pu, pr2; cbn [andb Model_Split.is_none]; try reflexivity;
        rewrite annmp_cons; cbn [m_reach]; apply app_nil_r. }
    assert (Hf2 : wdmp final = opairs pu).
    { unfold final. destruct pu, pr2; cbn [andb Model_Split.is_none]; try reflexivity;
        rewrite wdmp_cons; cbn [m_unreach]; apply app_nil_r. }
    assert (Hf3 : ann4 final = [] /\ wd4 final = [] /\ awn final).
    { unfold final. destruct (true && Model_Split.is_none pu && Model_Split.is_none pr2).
      - split; [reflexivity|]. split; [reflexivity|constructor].
      - split; [reflexivity|]. split; [reflexivity|].
        constructor; [intros _; reflexivity | constructor]. }
    destruct Hf3 as (Hf3 & Hf4 & Hf5).
    split; [|split; [|split; [|split]]].
    - rewrite !annmp_app, Hf1.
      cbn [otriples app] in R1.
      assert (Heq : annmp msr ++ annmp msu ++ otriples pr2 = triples f (flatg rfr)).
      { rewrite U2. exact R1. }
      rewrite Heq, Hfl. unfold triples. apply Permutation_map. apply group_perm.
    - rewrite !wdmp_app, Hf2, R2, U1, Hcu. reflexivity.
    - rewrite !ann4_app, R3, U3, Hf3. reflexivity.
    - rewrite !wd4_app, R4, U4, Hf4. reflexivity.
    - repeat apply awn_app; assumption.
  Qed.

  Lemma mp_loop_complete : forall fams ms o,
    Forall fam_ok fams ->
    mp_loop B fams [] [] = (ms, o) ->
    o = Done /\ Permutation (annmp ms) (requested_mp fams) /\
    wdmp ms = requested_mp_wd fams /\ ann4 ms = [] /\ wd4 ms = [] /\ awn ms.
  Proof.
    induction fams as [|[[f routed] wds] r IH]; intros ms o Hok H; cbn [Model_Split.mp_loop] in H.
    - inversion H; subst. split; [reflexivity|]. split; [constructor|].
      repeat (split; [reflexivity|]). constructor.
    - inversion Hok as [|? ? Hok1 Hok2]; subst.
      destruct (mp_family B (f, routed, wds) [] []) as [ms1 raised] eqn:E1.
      destruct (mp_family_complete f routed wds ms1 raised Hok1 E1) as (-> & P1 & P2 & P3 & P4 & P5).
      destruct (mp_loop B r [] []) as [ms2 o2] eqn:E2. inversion H; subst.
      destruct (IH ms2 o Hok2 eq_refl) as (Q0 & Q1 & Q2 & Q3 & Q4 & Q5).
      split; [exact Q0|]. split; [|split; [|split; [|split]]].
      + rewrite annmp_app. unfold requested_mp. cbn [flat_map]. apply Permutation_app; assumption.
      + rewrite wdmp_app, P2, Q2. reflexivity.
      + rewrite ann4_app, P3, Q3. reflexivity.
      + rewrite wd4_app, P4, Q4. reflexivity.
      + apply awn_app; assumption.
  Qed.
  End Complete.

  (* ------------------------------------------------------------------ complete: messages() *)

  Lemma nothing_to_send_true : forall (v4a v4w : list A) (fams : list (F * list (NH * A) * list A)),
    Model_Split.nothing_to_send v4a v4w fams = true -> v4a = [] /\ v4w = [] /\ fams = [].
  Proof.
    intros [|? ?] [|? ?] [|? ?]; cbn; intros H; try discriminate. repeat split.
  Qed.

  Lemma messages_complete : forall M v4a v4w fams,
    (forall a b, nheqb a b = true -> a = b) ->
    0 < M - 19 - 2 - 2 - alen ->
    (forall x, In x (v4a ++ v4w) -> 0 < sz x <= M - 19 - 2 - 2 - alen) ->
    Forall (fam_ok (M - 19 - 2 - 2 - alen)) fams ->
    snd (messages M alen v4a v4w fams) = Done /\
    ann4 (fst (messages M alen v4a v4w fams)) = v4a /\
    wd4 (fst (messages M alen v4a v4w fams)) = v4w /\
    Permutation (annmp (fst (messages M alen v4a v4w fams))) (requested_mp fams) /\
    wdmp (fst (messages M alen v4a v4w fams)) = requested_mp_wd fams /\
    awn (fst (messages M alen v4a v4w fams)).
  Proof.
    intros M v4a v4w fams Hnh HB Hv4 Hfams. unfold Model_Split.messages.
    destruct (Model_Split.nothing_to_send v4a v4w fams) eqn:En.
    { apply nothing_to_send_true in En. destruct En as (-> & -> & ->). cbn.
      split; [reflexivity|]. split; [reflexivity|]. split; [reflexivity|].
      split; [constructor|]. split; [reflexivity|constructor]. }
    set (B := M - 19 - 2 - 2 - alen) in *.
    destruct (B <? 0) eqn:E0; [lia|]. destruct (B =? 0) eqn:E00; [lia|].
    destruct (ann_loop B v4a [] 0) as [ms1 f1] eqn:E1.
    destruct (ann_loop_complete B v4a [] 0 ms1 f1) as (ra & sa & -> & Hi & A1 & A2 & A3 & A4 & A5);
      [intros x Hx; apply Hv4; apply in_or_app; left; exact Hx | split; [lia|reflexivity] | exact E1 |].
    destruct (wd_loop B v4w [] 0 ra sa) as [ms2 f2] eqn:E2.
    destruct (wd_loop_complete B v4w [] 0 ra sa ms2 f2)
      as (rw' & sw' & ra' & sa' & -> & Hia & Hiw & W1 & W2 & W3 & W4 & W5);
      [intros x Hx; apply Hv4; apply in_or_app; right; exact Hx | exact Hi
      | split; [lia|reflexivity] | exact E2 |].
    destruct (mp_loop B fams [] []) as [ms3 o] eqn:E3.
    destruct (mp_loop_complete B Hnh fams ms3 o Hfams E3) as (-> & P1 & P2 & P3 & P4 & P5).
    set (last := if (sa' =? 0) && (sw' =? 0) then [] else [mk_v4 rw' ra' (negb (sa' =? 0))]).
    assert (L1 : ann4 last = rev ra' /\ wd4 last = rev rw' /\ annmp last = [] /\ wdmp last = [] /\ awn last).
    { unfold last. destruct Hia as [Ha0 Ha1]. destruct Hiw as [Hw0 Hw1].
      destruct ((sa' =? 0) && (sw' =? 0)) eqn:El.
      - rewrite Ha1, Hw1 by lia. repeat (split; [reflexivity|]). constructor.
      - split; [cbn; apply app_nil_r|]. split; [cbn; apply app_nil_r|].
        split; [reflexivity|]. split; [reflexivity|].
        constructor; [|constructor]. cbn [Model_Split.mk_v4 m_ann m_reach m_attr].
        intros [Hn|Hn]; [|congruence].
        apply rev_nonnil in Hn. destruct (sa' =? 0) eqn:E5; [|reflexivity].
        exfalso. apply Hn. apply Ha1. lia. }
    destruct L1 as (L1 & L2 & L3 & L4 & L5).
    cbn [fst snd]. split; [reflexivity|].
    split; [rewrite !ann4_app, L1, P3, app_nil_r, W2; cbn [rev app] in A1; exact A1|].
    split; [rewrite !wd4_app, A2, L2, P4, app_nil_r; cbn [rev app] in W1; exact W1|].
    split; [rewrite !annmp_app, A3, W3, L3; exact P1|].
    split; [rewrite !wdmp_app, A4, W4, L4; exact P2|].
    repeat apply awn_app; assumption.
  Qed.

  (* ------------------------------------------------------------------ no room, no message *)

  Definition fam_noroom (B : Z) (fam : F * list (NH * A) * list A) : Prop :=
    match fam with (f, routed, wds) =>
      (forall nh x, In (nh, x) routed -> B < attr_len (5 + nhlen nh + sz x)) /\
      (forall x, In x wds -> B < attr_len (3 + sz x))
    end.

  Lemma frag_loop_noroom : forall hdr mx l,
    (forall x, In x l -> mx < attr_len (hdr + sz x)) ->
    fst (frag_loop hdr mx l [] hdr) = [].
  Proof.
    intros hdr mx [|x r] H; cbn [Model_Split.frag_loop].
    - rewrite Z.ltb_irrefl. reflexivity.
    - assert (Hx : mx < attr_len (hdr + sz x)) by (apply H; left; reflexivity).
      apply Z.ltb_lt in Hx. rewrite Hx, Z.ltb_irrefl. reflexivity.
  Qed.

  Lemma reach_frags_noroom : forall mx g,
    (forall nh l x, In (nh, l) g -> In x l -> mx < attr_len (5 + nhlen nh + sz x)) ->
    fst (reach_frags mx g) = [].
  Proof.
    induction g as [|[nh l] r IH]; intros H; cbn [Model_Split.reach_frags]; [reflexivity|].
    pose proof (frag_loop_noroom (5 + nhlen nh) mx l
                  (fun x Hx => H nh l x (or_introl eq_refl) Hx)) as Hf.
    destruct (frag_loop (5 + nhlen nh) mx l [] (5 + nhlen nh)) as [fs st]. cbn [fst] in Hf. subst fs.
    assert (Hr : fst (reach_frags mx r) = [])
      by (apply IH; intros nh' l' x Hin Hx; apply (H nh' l' x); [right; exact Hin | exact Hx]).
    destruct (reach_frags mx r) as [fs' s']. cbn [fst] in Hr. subst fs'.
    destruct st; reflexivity.
  Qed.

  Lemma mp_loop_noroom : forall B fams,
    (forall a b, nheqb a b = true -> a = b) ->
    Forall (fam_noroom B) fams -> fst (mp_loop B fams [] []) = [].
  Proof.
    intros B fams Hnh. induction fams as [|[[f routed] wds] r IH]; intros H; cbn [Model_Split.mp_loop]; [reflexivity|].
    inversion H as [|? ? Hn H3]; subst. unfold fam_noroom in Hn. destruct Hn as [H1 H2].
    assert (Hfam : mp_family B (f, routed, wds) [] [] = ([], false)).
    { unfold Model_Split.mp_family. rewrite ?lsum_nil. replace (B - (0 + 0)) with B by lia.
      assert (Hr : fst (reach_frags B (group routed)) = []).
      { apply reach_frags_noroom. intros nh l x Hg Hx. apply H1.
        eapply Permutation_in; [apply (group_perm Hnh)|]. eapply in_flatg; eassumption. }
      destruct (reach_frags B (group routed)) as [rfr rst] eqn:E1.
      destruct (reach_frags_fits _ _ _ _ E1) as [_ Hr2].
      cbn [fst] in Hr. subst rfr. cbn [Model_Split.reach_msgs].
      assert (Hu : fst (unreach_frags B wds) = []).
      { unfold Model_Split.unreach_frags. destruct wds as [|x w]; [reflexivity|].
        apply frag_loop_noroom. exact H2. }
      destruct (unreach_frags B wds) as [ufr ust] eqn:E2.
      destruct (unreach_frags_fits _ _ _ _ E2) as [_ Hu2].
      cbn [fst] in Hu. subst ufr.
      cbn [Model_Split.unreach_msgs Model_Split.is_none andb app].
      destruct rst; [| |exfalso; apply Hr2; reflexivity];
        (destruct ust; [| |exfalso; apply Hu2; reflexivity]); reflexivity. }
    rewrite Hfam. specialize (IH H3). destruct (mp_loop B r [] []) as [ms o]. cbn [fst] in IH. subst ms.
    reflexivity.
  Qed.

  Lemma messages_no_room : forall M v4a v4w fams,
    (forall a b, nheqb a b = true -> a = b) ->
    (forall x, In x (v4a ++ v4w) -> M - 19 - 2 - 2 - alen < sz x) ->
    Forall (fam_noroom (M - 19 - 2 - 2 - alen)) fams ->
    fst (messages M alen v4a v4w fams) = [] /\ snd (messages M alen v4a v4w fams) <> Raised.
  Proof.
    intros M v4a v4w fams Hnh Hv4 Hfams. split; [|apply messages_never_raise].
    unfold Model_Split.messages.
    destruct (Model_Split.nothing_to_send v4a v4w fams); [reflexivity|].
    set (B := M - 19 - 2 - 2 - alen) in *.
    destruct (B <? 0) eqn:E0; [reflexivity|]. destruct (B =? 0) eqn:E00; [reflexivity|].
    destruct v4a as [|x v4a].
    - cbn [Model_Split.ann_loop]. destruct v4w as [|y v4w].
      + cbn [Model_Split.wd_loop]. cbn [Z.eqb andb app].
        pose proof (mp_loop_noroom B fams Hnh Hfams) as Hm.
        destruct (mp_loop B fams [] []) as [ms3 o]. cbn [fst] in *. exact Hm.
      + cbn [Model_Split.wd_loop].
        assert (Hy : B < sz y) by (apply Hv4; left; reflexivity).
        replace (0 + 0 + sz y <=? B) with false by (symmetry; apply Z.leb_gt; lia).
        reflexivity.
    - cbn [Model_Split.ann_loop].
      assert (Hx : B < sz x) by (apply Hv4; left; reflexivity).
      replace (0 + 0 + sz x <=? B) with false by (symmetry; apply Z.leb_gt; lia).
      reflexivity.
  Qed.
End P.

(* ---------------------------------------------------------------------- byte-string instance *)

Lemma bytes_eqb_sound : forall a b, bytes_eqb a b = true -> a = b.
Proof.
  induction a as [|x a IH]; intros [|y b] H; cbn in H; try discriminate; [reflexivity|].
  apply andb_prop in H. destruct H as [H1 H2]. apply Z.eqb_eq in H1. subst y.
  f_equal. apply IH. exact H2.
Qed.

Lemma zlen_nonneg (l : list Z) : 0 <= zlen l.
Proof. unfold zlen. lia. Qed.

Lemma fits_alone_fam_ok {A NH F} (sz : A -> Z) (nhlen : NH -> Z) room v4a v4w
      (fams : list (F * list (NH * A) * list A)) :
  fits_alone sz nhlen room v4a v4w fams -> Forall (fam_ok sz nhlen room) fams.
Proof.
  intros (_ & H2 & H3). apply Forall_forall. intros [[f routed] wds] Hin. split.
  - intros nh x Hx. apply (H2 f routed wds nh x Hin Hx).
  - intros x Hx. apply (H3 f routed wds x Hin Hx).
Qed.

Lemma none_fits_fam_noroom {A NH F} (sz : A -> Z) (nhlen : NH -> Z) room v4a v4w
      (fams : list (F * list (NH * A) * list A)) :
  none_fits sz nhlen room v4a v4w fams -> Forall (fam_noroom sz nhlen room) fams.
Proof.
  intros (_ & H2 & H3). apply Forall_forall. intros [[f routed] wds] Hin. split.
  - intros nh x Hx. apply (H2 f routed wds nh x Hin Hx).
  - intros x Hx. apply (H3 f routed wds x Hin Hx).
Qed.

Definition room (M : Z) (attr : list Z) : Z := M - 19 - 2 - 2 - zlen attr.

Lemma bytes_fits : forall M attr v4a v4w fams,
  fits zlen zlen (zlen attr) M (fst (split_bytes M attr v4a v4w fams)).
Proof. intros. apply messages_fits. apply zlen_nonneg. Qed.

Lemma bytes_never_raise : forall M attr v4a v4w fams,
  snd (split_bytes M attr v4a v4w fams) <> Raised.
Proof. intros. apply messages_never_raise. Qed.

Lemma bytes_complete : forall M attr v4a v4w fams,
  0 < room M attr ->
  fits_alone zlen zlen (room M attr) v4a v4w fams ->
  let r := split_bytes M attr v4a v4w fams in
  snd r = Done /\
  announced_v4 (fst r) = v4a /\
  withdrawn_v4 (fst r) = v4w /\
  Permutation (announced_mp (fst r)) (requested_mp fams) /\
  withdrawn_mp (fst r) = requested_mp_wd fams /\
  attrs_where_needed (fst r).
Proof.
  intros M attr v4a v4w fams Hroom Hfit r. unfold r, split_bytes, split.
  apply messages_complete.
  - exact bytes_eqb_sound.
  - exact Hroom.
  - apply Hfit.
  - apply fits_alone_fam_ok with (v4a := v4a) (v4w := v4w). exact Hfit.
Qed.

Lemma bytes_no_room : forall M attr v4a v4w fams,
  none_fits zlen zlen (room M attr) v4a v4w fams ->
  fst (split_bytes M attr v4a v4w fams) = [] /\ snd (split_bytes M attr v4a v4w fams) <> Raised.
Proof.
  intros M attr v4a v4w fams Hn. unfold split_bytes, split. apply messages_no_room.
  - exact bytes_eqb_sound.
  - apply Hn.
  - apply none_fits_fam_noroom with (v4a := v4a) (v4w := v4w). exact Hn.
Qed.

(* ---------------------------------------------------------------------- the pinned code (D12) *)

Definition sizes (attr : list Z) (r : list (msg (list Z) (list Z) Z) * outcome) : list Z * outcome :=
  (map (wire_size zlen zlen (zlen attr)) (fst r), snd r).

Definition blob (n : Z) : list Z := repeat 0 (Z.to_nat n).
Definition nlri_of (n : Z) : list Z := n :: repeat 1 (Z.to_nat (n - 1)).   (* n bytes *)
Definition nh16 : list Z := repeat 32 16%nat.

(* IPv4: room 4; a 4-byte NLRI then a 5-byte one: the second message is 4097 bytes long *)
Lemma pinned_v4_oversize :
  sizes (blob 4069) (split_bytes_pinned 4096 (blob 4069) [nlri_of 4; nlri_of 5] [] []) = ([4096; 4097], Done).
Proof. vm_compute. reflexivity. Qed.

Lemma pinned_v4_withdraw_unchecked :
  sizes (blob 4069) (split_bytes_pinned 4096 (blob 4069) [nlri_of 4] [nlri_of 5] []) = ([4096; 28], Done).
Proof. vm_compute. reflexivity. Qed.

(* MP_REACH: room 26, next hop 16 bytes; a 2-byte NLRI (3+21+2 = 26) then a 17-byte one *)
Lemma pinned_reach_oversize :
  sizes (blob 4047) (split_bytes_pinned 4096 (blob 4047) [] [] [(2, [(nh16, nlri_of 2); (nh16, nlri_of 17)], [])])
  = ([4096; 4111], Done).
Proof. vm_compute. reflexivity. Qed.

(* MP_UNREACH: room 8; a 2-byte NLRI (3+3+2 = 8) then a 17-byte one *)
Lemma pinned_unreach_oversize :
  sizes (blob 4065) (split_bytes_pinned 4096 (blob 4065) [] [] [(2, [], [nlri_of 2; nlri_of 17])])
  = ([4096; 4111], Done).
Proof. vm_compute. reflexivity. Qed.

(* no room for the only MP NLRI: RuntimeError instead of no message *)
Lemma pinned_no_room_raises :
  sizes (blob 4047) (split_bytes_pinned 4096 (blob 4047) [] [] [(2, [(nh16, nlri_of 17)], [])]) = ([], Raised).
Proof. vm_compute. reflexivity. Qed.

(* plenty of room (room 100), every NLRI fits alone, and still RuntimeError: the pending MP_REACH
   (3+21+70 = 94 bytes) leaves 6 bytes, the first withdraw needs 3+3+2 = 8 *)
Lemma pinned_raises_with_room :
  sizes (blob 3973) (split_bytes_pinned 4096 (blob 3973) [] [] [(2, [(nh16, nlri_of 70)], [nlri_of 2])])
  = ([], Raised).
Proof. vm_compute. reflexivity. Qed.

(* mixed collection: the last IPv4 message is repeated inside the first MP message *)
Lemma pinned_repeats_v4 :
  announced_v4 (fst (split_bytes_pinned 4096 (blob 30) [nlri_of 4] [] [(2, [(nh16, nlri_of 17)], [])]))
  = [nlri_of 4; nlri_of 4].
Proof. vm_compute. reflexivity. Qed.

(* the same inputs on the patched code *)
Lemma patched_witnesses :
  sizes (blob 4069) (split_bytes 4096 (blob 4069) [nlri_of 4; nlri_of 5] [] []) = ([4096], Stopped) /\
  sizes (blob 4047) (split_bytes 4096 (blob 4047) [] [] [(2, [(nh16, nlri_of 2); (nh16, nlri_of 17)], [])]) = ([4096], Done) /\
  sizes (blob 4047) (split_bytes 4096 (blob 4047) [] [] [(2, [(nh16, nlri_of 17)], [])]) = ([], Done) /\
  sizes (blob 3973) (split_bytes 4096 (blob 3973) [] [] [(2, [(nh16, nlri_of 70)], [nlri_of 2])]) = ([4090; 4004], Done).
Proof. vm_compute. repeat split; reflexivity. Qed.

Lemma exists_oversize : forall attr r z M,
  In z (fst (sizes attr r)) -> M < z ->
  exists m, In m (fst r) /\ M < wire_size zlen zlen (zlen attr) m.
Proof.
  intros attr r z M H Hz. unfold sizes in H. cbn [fst] in H. apply in_map_iff in H.
  destruct H as (m & <- & Hin). exists m. split; assumption.
Qed.

(* ---------------------------------------------------------------------- the attribute block *)

Lemma include_defaults_when_announcing {A NH F} (simple : F -> bool) (v4a : list A)
      (fams : list (F * list (NH * A) * list A)) :
  v4a <> [] \/ requested_mp fams <> [] -> include_defaults simple v4a fams = true.
Proof.
  intros H. unfold include_defaults.
  destruct (negb (is_nil (filter fam_withdraws fams))); [|reflexivity]. cbn [andb].
  assert (Hf : is_nil v4a && negb (existsb fam_announces fams) = false).
  { destruct H as [H|H].
    - destruct v4a; [exfalso; apply H; reflexivity|reflexivity].
    - destruct (is_nil v4a); [|reflexivity]. cbn [andb].
      assert (He : existsb fam_announces fams = true); [|rewrite He; reflexivity].
      induction fams as [|[[f routed] wds] r IH]; [exfalso; apply H; reflexivity|].
      cbn [existsb fam_announces]. destruct routed as [|x routed]; [|reflexivity].
      cbn [is_nil negb orb]. apply IH. exact H. }
  rewrite Hf. reflexivity.
Qed.

Definition split_bytes_top (simple : Z -> bool) (M : Z) (attr_full attr_min : list Z) :=
  @messages_top (list Z) (list Z) Z zlen zlen bytes_eqb true simple M (zlen attr_full) (zlen attr_min).

Lemma bytes_top_is_split : forall simple M af am v4a v4w fams,
  fst (split_bytes_top simple M af am v4a v4w fams) =
  split_bytes M (if snd (split_bytes_top simple M af am v4a v4w fams) then af else am) v4a v4w fams.
Proof.
  intros. unfold split_bytes_top, messages_top, split_bytes, split. cbn [fst snd].
  destruct (include_defaults simple v4a fams); reflexivity.
Qed.
