(* C15 - lemmas about Model_Nlri. *)
From Coq Require Import ZArith List Bool Lia Arith.
From ExaV Require Import lib.ListX gen.Gen_NlriRegistry model.Model_Nlri.
Import ListNotations.
Open Scope Z_scope.

Definition byte (b : Z) : Prop := 0 <= b < 256.
Definition wfb (l : list Z) : Prop := Forall byte l.

(* ------------------------------------------------------------------ small list facts *)

Lemma zlen_nil : zlen [] = 0.
Proof. reflexivity. Qed.

Lemma zlen_cons x l : zlen (x :: l) = 1 + zlen l.
Proof. unfold zlen. cbn [length]. rewrite Nat2Z.inj_succ. lia. Qed.

Lemma zlen_app a b : zlen (a ++ b) = zlen a + zlen b.
Proof. unfold zlen. rewrite app_length, Nat2Z.inj_add. reflexivity. Qed.

Lemma zlen_nonneg l : 0 <= zlen l.
Proof. unfold zlen. lia. Qed.

Lemma zlen_zero l : zlen l = 0 -> l = [].
Proof. destruct l; [reflexivity|]. rewrite zlen_cons. pose proof (zlen_nonneg l). lia. Qed.

Lemma firstn_app_exact {A} (a b : list A) n : n = length a -> firstn n (a ++ b) = a.
Proof.
  intros ->. rewrite firstn_app, Nat.sub_diag, firstn_all. cbn [firstn]. apply app_nil_r.
Qed.

Lemma skipn_app_exact {A} (a b : list A) n : n = length a -> skipn n (a ++ b) = b.
Proof.
  intros ->. rewrite skipn_app, Nat.sub_diag, skipn_all. reflexivity.
Qed.

Lemma app_eq_len {A} (a1 a2 b1 b2 : list A) :
  length a1 = length a2 -> a1 ++ b1 = a2 ++ b2 -> a1 = a2 /\ b1 = b2.
Proof.
  revert a2. induction a1 as [|x a1 IH]; intros [|y a2] Hl H; cbn in *; try discriminate.
  - split; [reflexivity|assumption].
  - injection H as -> H. injection Hl as Hl. destruct (IH _ Hl H) as [-> ->]. split; reflexivity.
Qed.

Lemma cons_inj {A} (x y : A) a b : x :: a = y :: b -> x = y /\ a = b.
Proof. intro H. injection H as H1 H2. split; assumption. Qed.

Lemma list_eqb_eq a b : list_eqb a b = true <-> a = b.
Proof.
  revert b. induction a as [|x a IH]; intros [|y b]; cbn [list_eqb]; split; intro H; try reflexivity; try discriminate.
  - apply andb_true_iff in H as [H1 H2]. apply Z.eqb_eq in H1. apply IH in H2. subst. reflexivity.
  - injection H as -> ->. rewrite Z.eqb_refl. cbn. apply IH. reflexivity.
Qed.

Lemma list_eqb_refl a : list_eqb a a = true.
Proof. apply list_eqb_eq. reflexivity. Qed.

Lemma wfb_app a b : wfb (a ++ b) <-> wfb a /\ wfb b.
Proof. unfold wfb. apply Forall_app. Qed.

Lemma wfb_firstn n l : wfb l -> wfb (firstn n l).
Proof.
  unfold wfb. intro H. rewrite <- (firstn_skipn n l) in H. apply Forall_app in H. tauto.
Qed.

Lemma wfb_skipn n l : wfb l -> wfb (skipn n l).
Proof.
  unfold wfb. intro H. rewrite <- (firstn_skipn n l) in H. apply Forall_app in H. tauto.
Qed.

(* ------------------------------------------------------------------ 24-bit big endian *)

Lemma rd24_be24 v t : 0 <= v < 16777216 -> rd24 (be24 v ++ t) = v.
Proof.
  intro H. unfold rd24, be24. cbn [app nth].
  assert (E1 : v = 65536 * (v / 65536) + v mod 65536) by (apply Z.div_mod; lia).
  assert (E2 : v mod 65536 = 256 * ((v mod 65536) / 256) + (v mod 65536) mod 256) by (apply Z.div_mod; lia).
  assert (H1 : (v / 65536) mod 256 = v / 65536).
  { apply Z.mod_small. split; [apply Z.div_pos; lia|]. apply Z.div_lt_upper_bound; lia. }
  assert (H2 : (v / 256) mod 256 = (v mod 65536) / 256).
  { replace 65536 with (256 * 256) by reflexivity. rewrite Z.rem_mul_r by lia.
    rewrite (Z.mul_comm 256 ((v / 256) mod 256)), Z.div_add by lia.
    rewrite (Z.div_small (v mod 256) 256) by (apply Z.mod_pos_bound; lia). lia. }
  assert (H3 : v mod 256 = (v mod 65536) mod 256).
  { replace 65536 with (256 * 256) by reflexivity. rewrite Z.rem_mul_r by lia.
    rewrite (Z.mul_comm 256 ((v / 256) mod 256)), Z.mod_add by lia. rewrite Z.mod_mod by lia. reflexivity. }
  rewrite H1, H2, H3. lia.
Qed.

Lemma be24_rd24 a b c t : byte a -> byte b -> byte c -> be24 (rd24 (a :: b :: c :: t)) = [a; b; c].
Proof.
  unfold byte. intros Ha Hb Hc. unfold rd24, be24. cbn [nth].
  assert (E1 : (a * 65536 + b * 256 + c) / 65536 = a).
  { replace (a * 65536 + b * 256 + c) with ((b * 256 + c) + a * 65536) by lia.
    rewrite Z.div_add by lia. rewrite Z.div_small by lia. lia. }
  assert (E2 : (a * 65536 + b * 256 + c) / 256 = a * 256 + b).
  { replace (a * 65536 + b * 256 + c) with (c + (a * 256 + b) * 256) by lia.
    rewrite Z.div_add by lia. rewrite Z.div_small by lia. lia. }
  assert (E3 : (a * 65536 + b * 256 + c) mod 256 = c).
  { replace (a * 65536 + b * 256 + c) with (c + (a * 256 + b) * 256) by lia.
    rewrite Z.mod_add by lia. apply Z.mod_small. lia. }
  rewrite E1, E2, E3.
  rewrite (Z.mod_small a) by lia.
  replace (a * 256 + b) with (b + a * 256) by lia. rewrite Z.mod_add by lia. rewrite (Z.mod_small b) by lia.
  reflexivity.
Qed.

Lemma rd24_range d : wfb d -> (3 <= length d)%nat -> 0 <= rd24 d < 16777216.
Proof.
  intros H L. destruct d as [|a [|b [|c t]]]; cbn [length] in L; try lia.
  inversion H as [|? ? Ha H1]; subst. inversion H1 as [|? ? Hb H2]; subst. inversion H2 as [|? ? Hc H3]; subst.
  unfold rd24, byte in *. cbn [nth]. lia.
Qed.

Lemma be24_length v : length (be24 v) = 3%nat.
Proof. reflexivity. Qed.

Lemma lbl_bytes_length ls : length (lbl_bytes ls) = (3 * length ls)%nat.
Proof. unfold lbl_bytes. induction ls as [|l ls IH]; cbn [flat_map length]; [reflexivity|]. rewrite app_length, IH, be24_length. lia. Qed.

Lemma lbl_bytes_app a b : lbl_bytes (a ++ b) = lbl_bytes a ++ lbl_bytes b.
Proof. unfold lbl_bytes. apply flat_map_app. Qed.

(* ------------------------------------------------------------------ CIDR size *)

Lemma csize_range m : 0 <= m <= 128 -> csize m = (m + 7) / 8.
Proof.
  intro H. unfold csize. destruct (0 <=? m) eqn:E1; destruct (m <=? 128) eqn:E2; cbn [andb]; try reflexivity; lia.
Qed.

Lemma csize_nonneg m : 0 <= csize m.
Proof.
  unfold csize. destruct ((0 <=? m) && (m <=? 128)) eqn:E; [|lia].
  apply andb_true_iff in E as [E1 E2]. apply Z.div_pos; lia.
Qed.

Lemma csize_zero m : 0 <= m <= 128 -> csize m = 0 -> m = 0.
Proof.
  intros H E. rewrite csize_range in E by assumption.
  assert (m + 7 < 8). { apply Z.div_small_iff in E; lia. } lia.
Qed.

Lemma ip_length_cases afi : ip_length afi = 4 \/ ip_length afi = 16.
Proof. unfold ip_length. destruct (afi =? 1); [left|right]; reflexivity. Qed.

Lemma pack_ip_exact m pfx : zlen pfx = csize m -> pack_ip m pfx = pfx.
Proof.
  intro H. unfold pack_ip. rewrite <- H. unfold zlen. rewrite Nat2Z.id. apply firstn_all.
Qed.

(* ------------------------------------------------------------------ label stack: encode -> decode *)

(* what a label stack must look like for the decoder to read it back:
   24-bit words, bottom-of-stack bit on the last word only, and - because the decoder honours the
   two RFC 3107 sentinels on the first word - a first word that is followed by more labels may be
   neither 0x000000 nor (on a withdraw) 0x800000 *)
Fixpoint stack_ok (first withdraw : bool) (ls : list Z) : Prop :=
  match ls with
  | [] => False
  | l :: rest =>
    0 <= l < 16777216 /\
    match rest with
    | [] => Z.odd l = true
    | _ :: _ => Z.odd l = false /\ (first = true -> l <> 0 /\ (withdraw = true -> l <> 8388608))
                /\ stack_ok false withdraw rest
    end
  end.

Ltac tup := repeat first [reflexivity | lia | f_equal].

Lemma ltb_1_snoc {A} (acc : list A) x : (1 <? length (acc ++ [x]))%nat = negb (is_nil acc).
Proof.
  rewrite app_length. cbn [length]. destruct acc as [|y acc]; cbn [length is_nil negb Nat.add].
  - reflexivity.
  - apply Nat.ltb_lt. lia.
Qed.

Lemma loop_enc : forall ls acc fuel w rdm mask tail,
  stack_ok (is_nil acc) w ls -> (length ls <= fuel)%nat -> 24 * zlen ls <= mask - rdm ->
  labels_loop fuel w rdm mask (lbl_bytes ls ++ tail) acc = Some (acc ++ ls, mask - 24 * zlen ls, tail, true).
Proof.
  induction ls as [|l rest IH]; intros acc fuel w rdm mask tail Hok Hf Hm.
  - destruct Hok.
  - destruct fuel as [|f]; [cbn [length] in Hf; lia|].
    cbn [stack_ok] in Hok. destruct Hok as [Hr Hok].
    rewrite zlen_cons in Hm. pose proof (zlen_nonneg rest) as Hz.
    cbn [labels_loop].
    destruct (24 <=? mask - rdm) eqn:E; [|lia].
    unfold lbl_bytes. cbn [flat_map]. fold (lbl_bytes rest). rewrite <- app_assoc.
    assert (L : (length (be24 l ++ lbl_bytes rest ++ tail) <? 3)%nat = false).
    { apply Nat.ltb_ge. rewrite app_length, be24_length. lia. }
    rewrite L. rewrite rd24_be24 by assumption.
    replace (skipn 3 (be24 l ++ lbl_bytes rest ++ tail)) with (lbl_bytes rest ++ tail) by reflexivity.
    rewrite ltb_1_snoc.
    destruct rest as [|l2 rest'].
    + rewrite Hok. cbn [lbl_bytes flat_map app]. rewrite zlen_cons, zlen_nil.
      tup.
    + destruct Hok as [Hodd [Hs Hrest]]. rewrite Hodd.
      assert (Rec : labels_loop f w rdm (mask - 24) (lbl_bytes (l2 :: rest') ++ tail) (acc ++ [l]) =
                    Some (acc ++ l :: l2 :: rest', mask - 24 * zlen (l :: l2 :: rest'), tail, true)).
      { rewrite IH.
        - rewrite <- app_assoc. cbn [app]. rewrite (zlen_cons l). tup.
        - destruct acc; cbn [app is_nil]; exact Hrest.
        - cbn [length] in *. lia.
        - lia. }
      destruct (is_nil acc) eqn:En; cbn [negb].
      * destruct (Hs eq_refl) as [H0 Hw].
        assert (E0 : (l =? 0) = false) by (apply Z.eqb_neq; exact H0). rewrite E0.
        destruct w; cbn [andb].
        -- assert (E8 : (l =? 8388608) = false) by (apply Z.eqb_neq; apply Hw; reflexivity).
           rewrite E8. cbn [andb]. exact Rec.
        -- rewrite andb_false_r. exact Rec.
      * exact Rec.
Qed.

Lemma loop_stop : forall fuel w rdm mask data acc,
  mask - rdm < 24 -> labels_loop fuel w rdm mask data acc = Some (acc, mask, data, false).
Proof.
  intros fuel w rdm mask data acc H.
  destruct fuel; cbn [labels_loop]; destruct (24 <=? mask - rdm) eqn:E; try reflexivity; lia.
Qed.

(* ------------------------------------------------------------------ well-formed values *)

Record wf (withdraw : bool) (n : nlri) : Prop := mkWf {
  wf_mask : 0 <= n_mask n <= ip_length (n_afi n) * 8;
  wf_pfx : zlen (n_pfx n) = csize (n_mask n);
  wf_pid : match n_pid n with Some b => length b = 4%nat | None => True end;
  wf_rd : zlen (n_rd n) = rd_size (n_afi n) (n_safi n);
  wf_lab : if safi_has_label (n_safi n)
           then (n_labels n = [] /\ n_mask n < 24) \/ stack_ok true withdraw (n_labels n)
           else n_labels n = []
}.

(* the path-id the decoder reports for what pack_nlri wrote *)
Definition pid_seen (addpath : bool) (p : option (list Z)) : option (list Z) :=
  if addpath then Some (match p with Some b => b | None => [0;0;0;0] end) else None.

Lemma mask_le_128 afi m : 0 <= m <= ip_length afi * 8 -> 0 <= m <= 128.
Proof. destruct (ip_length_cases afi) as [E|E]; rewrite E; lia. Qed.

Lemma rd_size_cases afi safi : rd_size afi safi = 0 \/ rd_size afi safi = 8.
Proof.
  unfold rd_size.
  repeat match goal with |- context [if ?c then _ else _] => destruct c end; auto.
Qed.

Theorem core_roundtrip : forall w addpath n rest,
  wf w n ->
  unpack_core w addpath (n_afi n) (n_safi n) (pack_nlri addpath n ++ rest)
  = Some (pid_seen addpath (n_pid n), n_labels n, n_rd n, n_mask n, n_pfx n, rest).
Proof.
  intros w addpath n rest [Hmask Hpfx Hpid Hrd Hlab].
  pose proof (mask_le_128 _ _ Hmask) as Hm128.
  pose proof (zlen_nonneg (n_labels n)) as Hzl.
  pose proof (zlen_nonneg (n_rd n)) as Hzr.
  unfold unpack_core.
  (* path id *)
  assert (S1 : (if addpath
                then (if (length (pack_nlri addpath n ++ rest) <=? 4)%nat then None
                      else Some (Some (firstn 4 (pack_nlri addpath n ++ rest)), skipn 4 (pack_nlri addpath n ++ rest)))
                else Some (None, pack_nlri addpath n ++ rest))
               = Some (pid_seen addpath (n_pid n), body n ++ rest)).
  { unfold pack_nlri, pid_seen. destruct addpath; [|reflexivity].
    set (p := match n_pid n with Some b => b | None => [0;0;0;0] end).
    assert (Lp : length p = 4%nat). { unfold p. destruct (n_pid n); [exact Hpid|reflexivity]. }
    assert (L : (length ((p ++ body n) ++ rest) <=? 4)%nat = false).
    { apply Nat.leb_gt. rewrite !app_length, Lp. unfold body. cbn [length]. lia. }
    rewrite L. rewrite <- app_assoc.
    rewrite firstn_app_exact by (symmetry; exact Lp). rewrite skipn_app_exact by (symmetry; exact Lp). reflexivity. }
  rewrite S1. clear S1.
  unfold body. cbn [app].
  rewrite pack_ip_exact by exact Hpfx.
  set (rdsz := rd_size (n_afi n) (n_safi n)) in *.
  (* labels *)
  assert (S2 : (if safi_has_label (n_safi n)
                then labels_loop (length ((lbl_bytes (n_labels n) ++ n_rd n ++ n_pfx n) ++ rest)) w (rdsz * 8) (cmask n)
                       ((lbl_bytes (n_labels n) ++ n_rd n ++ n_pfx n) ++ rest) []
                else Some ([], cmask n, (lbl_bytes (n_labels n) ++ n_rd n ++ n_pfx n) ++ rest, false))
               = Some (n_labels n, 8 * zlen (n_rd n) + n_mask n, (n_rd n ++ n_pfx n) ++ rest,
                       negb (is_nil (n_labels n)))).
  { unfold cmask. destruct (safi_has_label (n_safi n)).
    - destruct Hlab as [[E Hlt]|Hok].
      + rewrite E. cbn [lbl_bytes flat_map app length is_nil negb]. rewrite zlen_nil.
        rewrite loop_stop by lia. tup.
      + rewrite <- !app_assoc. rewrite loop_enc.
        * cbn [app]. destruct (n_labels n); [destruct Hok|]. cbn [is_nil negb].
          tup.
        * exact Hok.
        * rewrite app_length, lbl_bytes_length. lia.
        * lia.
    - rewrite Hlab. cbn [lbl_bytes flat_map app is_nil negb]. rewrite zlen_nil. tup. }
  rewrite S2. clear S2.
  assert (S3 : negb (is_nil (n_labels n)) && negb (negb (is_nil (n_labels n))) = false)
    by (destruct (is_nil (n_labels n)); reflexivity).
  rewrite S3. clear S3.
  (* route distinguisher *)
  assert (S4 : (if rdsz =? 0 then Some ([], 8 * zlen (n_rd n) + n_mask n, (n_rd n ++ n_pfx n) ++ rest)
                else if zlen ((n_rd n ++ n_pfx n) ++ rest) <? rdsz then None
                     else Some (firstn (Z.to_nat rdsz) ((n_rd n ++ n_pfx n) ++ rest),
                                8 * zlen (n_rd n) + n_mask n - rdsz * 8,
                                skipn (Z.to_nat rdsz) ((n_rd n ++ n_pfx n) ++ rest)))
               = Some (n_rd n, n_mask n, n_pfx n ++ rest)).
  { destruct (rdsz =? 0) eqn:E0.
    - apply Z.eqb_eq in E0. rewrite E0 in Hrd. apply zlen_zero in Hrd. rewrite Hrd.
      cbn [app]. rewrite zlen_nil. tup.
    - assert (L : (zlen ((n_rd n ++ n_pfx n) ++ rest) <? rdsz) = false).
      { apply Z.ltb_ge. rewrite !zlen_app. pose proof (zlen_nonneg (n_pfx n)). pose proof (zlen_nonneg rest). lia. }
      rewrite L. rewrite <- app_assoc.
      assert (Ln : Z.to_nat rdsz = length (n_rd n)). { rewrite <- Hrd. unfold zlen. apply Nat2Z.id. }
      rewrite firstn_app_exact by exact Ln. rewrite skipn_app_exact by exact Ln.
      tup. }
  rewrite S4. clear S4.
  assert (C1 : (n_mask n <? 0) = false) by (apply Z.ltb_ge; lia). rewrite C1.
  assert (C2 : (ip_length (n_afi n) * 8 <? n_mask n) = false) by (apply Z.ltb_ge; lia). rewrite C2.
  assert (C3 : is_nil (n_pfx n ++ rest) && negb (n_mask n =? 0) = false).
  { destruct (n_pfx n) as [|x p] eqn:Ep.
    - rewrite zlen_nil in Hpfx. symmetry in Hpfx. apply csize_zero in Hpfx; [|exact Hm128].
      rewrite Hpfx. cbn. apply andb_false_r.
    - reflexivity. }
  rewrite C3.
  assert (C4 : (zlen (n_pfx n ++ rest) <? csize (n_mask n)) = false).
  { apply Z.ltb_ge. rewrite zlen_app. pose proof (zlen_nonneg rest). lia. }
  rewrite C4.
  assert (Ln : Z.to_nat (csize (n_mask n)) = length (n_pfx n)). { rewrite <- Hpfx. unfold zlen. apply Nat2Z.id. }
  rewrite firstn_app_exact by exact Ln. rewrite skipn_app_exact by exact Ln.
  reflexivity.
Qed.

(* ------------------------------------------------------------------ decode -> encode *)

Lemma loop_dec : forall fuel w rdm mask data acc ls mask' data' e,
  wfb data ->
  labels_loop fuel w rdm mask data acc = Some (ls, mask', data', e) ->
  exists new, ls = acc ++ new /\ data = lbl_bytes new ++ data' /\ mask = mask' + 24 * zlen new.
Proof.
  induction fuel as [|f IH]; intros w rdm mask data acc ls mask' data' e Hb H; cbn [labels_loop] in H.
  - destruct (24 <=? mask - rdm); [discriminate|]. injection H as <- <- <- <-.
    exists []. rewrite app_nil_r, zlen_nil. cbn. repeat split; lia.
  - destruct (24 <=? mask - rdm); cycle 1.
    { injection H as <- <- <- <-. exists []. rewrite app_nil_r, zlen_nil. cbn. repeat split; lia. }
    destruct (length data <? 3)%nat eqn:L; [discriminate|]. apply Nat.ltb_ge in L.
    destruct data as [|a [|b [|c t]]]; cbn [length] in L; try lia.
    inversion Hb as [|? ? Ha H1]; subst. inversion H1 as [|? ? Hb' H2]; subst. inversion H2 as [|? ? Hc Ht]; subst.
    pose proof (be24_rd24 a b c t Ha Hb' Hc) as Eb.
    set (label := rd24 (a :: b :: c :: t)) in *.
    replace (skipn 3 (a :: b :: c :: t)) with t in H by reflexivity.
    assert (Stop : forall m, Some (acc ++ [label], mask - 24, t, m) = Some (ls, mask', data', e) ->
                   exists new, ls = acc ++ new /\ a :: b :: c :: t = lbl_bytes new ++ data' /\ mask = mask' + 24 * zlen new).
    { intros m E. injection E as <- <- <- <-. exists [label]. split; [reflexivity|]. split.
      - unfold lbl_bytes. cbn [flat_map]. rewrite app_nil_r, Eb. reflexivity.
      - rewrite zlen_cons, zlen_nil. lia. }
    assert (Rec : labels_loop f w rdm (mask - 24) t (acc ++ [label]) = Some (ls, mask', data', e) ->
                  exists new, ls = acc ++ new /\ a :: b :: c :: t = lbl_bytes new ++ data' /\ mask = mask' + 24 * zlen new).
    { intro E. destruct (IH _ _ _ _ _ _ _ _ _ Ht E) as [new [E1 [E2 E3]]].
      exists (label :: new). split; [rewrite E1, <- app_assoc; reflexivity|]. split.
      - unfold lbl_bytes. cbn [flat_map]. fold (lbl_bytes new). rewrite Eb, E2. reflexivity.
      - rewrite zlen_cons. lia. }
    destruct (Z.odd label); [exact (Stop _ H)|].
    destruct (1 <? length (acc ++ [label]))%nat; [exact (Rec H)|].
    destruct ((label =? 8388608) && w); [exact (Stop _ H)|].
    destruct (label =? 0); [exact (Stop _ H)|exact (Rec H)].
Qed.

(* whenever the decoder accepts, re-encoding its result gives back the bytes it consumed, and the
   decoded fields have the shape `wf` asks for *)
Theorem core_canonical : forall w addpath afi safi data pid ls rd m pfx rest,
  wfb data ->
  unpack_core w addpath afi safi data = Some (pid, ls, rd, m, pfx, rest) ->
  pid_bytes pid ++ (24 * zlen ls + 8 * zlen rd + m) :: lbl_bytes ls ++ rd ++ pfx ++ rest = data
  /\ (pid = None <-> addpath = false)
  /\ match pid with Some b => length b = 4%nat | None => True end
  /\ zlen rd = rd_size afi safi /\ 0 <= m <= ip_length afi * 8 /\ zlen pfx = csize m
  /\ (safi_has_label safi = false -> ls = []).
Proof.
  intros w addpath afi safi data pid ls rd m pfx rest Hb H. unfold unpack_core in H.
  (* path id *)
  destruct (if addpath
            then (if (length data <=? 4)%nat then None else Some (Some (firstn 4 data), skipn 4 data))
            else Some (None, data)) as [[pid0 data1]|] eqn:S1; [|discriminate].
  assert (P1 : data = pid_bytes pid0 ++ data1 /\ (pid0 = None <-> addpath = false)
               /\ match pid0 with Some b => length b = 4%nat | None => True end).
  { destruct addpath.
    - destruct (length data <=? 4)%nat eqn:L; [discriminate|]. apply Nat.leb_gt in L.
      assert (E : Some (firstn 4 data) = pid0 /\ skipn 4 data = data1) by (split; congruence).
      clear S1. destruct E as [<- <-]. cbn [pid_bytes]. rewrite firstn_skipn. split; [reflexivity|]. split.
      + split; discriminate.
      + apply firstn_length_le. lia.
    - injection S1 as <- <-. split; [reflexivity|]. split; [tauto|exact I]. }
  destruct P1 as [P1 [P1b P1c]].
  assert (Hb1 : wfb data1). { rewrite P1 in Hb. apply wfb_app in Hb. tauto. }
  destruct data1 as [|mask0 data2]; [discriminate|].
  assert (Hb2 : wfb data2) by (inversion Hb1; assumption).
  set (rdsz := rd_size afi safi) in *.
  (* labels *)
  destruct (if safi_has_label safi then labels_loop (length data2) w (rdsz * 8) mask0 data2 []
            else Some ([], mask0, data2, false)) as [[[[labels mask1] data3] ended]|] eqn:S2; [|discriminate].
  assert (P2 : data2 = lbl_bytes labels ++ data3 /\ mask0 = mask1 + 24 * zlen labels
               /\ (safi_has_label safi = false -> labels = [])).
  { destruct (safi_has_label safi).
    - destruct (loop_dec _ _ _ _ _ _ _ _ _ _ Hb2 S2) as [new [E1 [E2 E3]]]. cbn [app] in E1. subst new.
      split; [exact E2|]. split; [exact E3|discriminate].
    - injection S2 as <- <- <- <-. cbn [lbl_bytes flat_map app]. rewrite zlen_nil. repeat split; lia. }
  destruct P2 as [P2 [P2b P2c]].
  assert (Hb3 : wfb data3). { rewrite P2 in Hb2. apply wfb_app in Hb2. tauto. }
  destruct (negb (is_nil labels) && negb ended); [discriminate|].
  (* rd *)
  destruct (if rdsz =? 0 then Some ([], mask1, data3)
            else if zlen data3 <? rdsz then None
                 else Some (firstn (Z.to_nat rdsz) data3, mask1 - rdsz * 8, skipn (Z.to_nat rdsz) data3))
    as [[[rd0 mask2] data4]|] eqn:S3; [|discriminate].
  assert (P3 : data3 = rd0 ++ data4 /\ mask1 = mask2 + 8 * zlen rd0 /\ zlen rd0 = rdsz).
  { destruct (rdsz =? 0) eqn:E0.
    - apply Z.eqb_eq in E0. injection S3 as <- <- <-. rewrite zlen_nil. cbn. repeat split; lia.
    - destruct (zlen data3 <? rdsz) eqn:L; [discriminate|]. apply Z.ltb_ge in L.
      injection S3 as <- <- <-. rewrite firstn_skipn.
      assert (Lr : zlen (firstn (Z.to_nat rdsz) data3) = rdsz).
      { unfold zlen in *. rewrite firstn_length_le by lia.
        apply Z2Nat.id. destruct (rd_size_cases afi safi) as [E|E]; fold rdsz in E; lia. }
      rewrite Lr. repeat split; lia. }
  destruct P3 as [P3 [P3b P3c]].
  destruct (mask2 <? 0) eqn:C1; [discriminate|]. apply Z.ltb_ge in C1.
  destruct (ip_length afi * 8 <? mask2) eqn:C2; [discriminate|]. apply Z.ltb_ge in C2.
  destruct (is_nil data4 && negb (mask2 =? 0)); [discriminate|].
  destruct (zlen data4 <? csize mask2) eqn:C4; [discriminate|]. apply Z.ltb_ge in C4.
  injection H as <- <- <- <- <- <-.
  split.
  { rewrite P1. f_equal. rewrite firstn_skipn. rewrite P2, P3. f_equal. lia. }
  split; [exact P1b|]. split; [exact P1c|]. split; [exact P3c|]. split; [lia|]. split.
  - unfold zlen in *. rewrite firstn_length_le by (pose proof (csize_nonneg mask2); lia).
    apply Z2Nat.id. apply csize_nonneg.
  - exact P2c.
Qed.

(* ------------------------------------------------------------------ registry facts (regenerated table) *)

Ltac class_cases H :=
  unfold nlri_class in H;
  repeat match type of H with
  | context [if ?c then _ else _] =>
    let E := fresh "E" in destruct c eqn:E;
    [ try discriminate H;
      try (apply andb_true_iff in E; destruct E as [Ea Es]; apply Z.eqb_eq in Ea; apply Z.eqb_eq in Es; subst;
           vm_compute; repeat split; congruence) | ]
  end;
  try discriminate H.

Lemma class_inet afi safi : nlri_class afi safi = Some KInet ->
  safi_has_label safi = false /\ rd_size afi safi = 0 /\ (0 <= afi < 256) /\ (0 <= safi < 256).
Proof. intro H. class_cases H. Qed.

Lemma class_label afi safi : nlri_class afi safi = Some KLabel ->
  safi_has_label safi = true /\ rd_size afi safi = 0 /\ (0 <= afi < 256) /\ (0 <= safi < 256).
Proof. intro H. class_cases H. Qed.

Lemma class_ipvpn afi safi : nlri_class afi safi = Some KIpvpn ->
  safi_has_label safi = true /\ rd_size afi safi = 8 /\ (0 <= afi < 256) /\ (0 <= safi < 256).
Proof. intro H. class_cases H. Qed.

(* the model of Family.index reproduces the bytes the code computes for every registered family *)
Lemma fam_index_matches_code :
  forallb (fun e => match e with (a, s, idx) => list_eqb (fam_index a s) idx end) family_index_table = true
  /\ map (fun e => match e with (a, s, _) => (a, s) end) family_index_table = registered_families.
Proof. split; vm_compute; reflexivity. Qed.

(* ------------------------------------------------------------------ class-level round trips *)

Lemma pid_seen_consistent addpath p : (p = None <-> addpath = false) -> pid_seen addpath p = p.
Proof.
  intros [H1 H2]. unfold pid_seen. destruct addpath, p; try reflexivity.
  - discriminate (H1 eq_refl).
  - discriminate (H2 eq_refl).
Qed.

(* Labels.make_labels on 20-bit label values *)
Definition make_labels (vs : list Z) : list Z :=
  match vs with
  | [] => []
  | _ => map (fun v => v * 16) (removelast vs) ++ [last vs 0 * 16 + 1]
  end.

Lemma norm_make_labels vs : norm_labels (make_labels vs) = make_labels vs.
Proof.
  unfold make_labels. destruct vs as [|v vs]; [reflexivity|].
  set (l := map (fun v => v * 16) (removelast (v :: vs))). set (x := last (v :: vs) 0 * 16 + 1).
  unfold norm_labels. destruct (l ++ [x]) eqn:E; [destruct l; discriminate|]. rewrite <- E.
  rewrite removelast_last, last_last. f_equal.
  - unfold l. rewrite map_map. apply map_ext. intro a. rewrite Z.div_mul by lia. reflexivity.
  - unfold x. set (L := last (v :: vs) 0).
    assert (Ex : (L * 16 + 1) / 16 = L).
    { rewrite Z.add_comm, Z.div_add by lia. rewrite Z.div_small by lia. lia. }
    rewrite Ex. reflexivity.
Qed.

Theorem inet_roundtrip : forall w addpath n rest,
  nlri_class (n_afi n) (n_safi n) = Some KInet -> wf w n -> (n_pid n = None <-> addpath = false) ->
  unpack_nlri w addpath (n_afi n) (n_safi n) (pack_inet addpath n ++ rest) = Some (n, rest).
Proof.
  intros w addpath n rest Hc Hwf Hp. unfold unpack_nlri, pack_inet. rewrite Hc. unfold unpack_inet.
  rewrite core_roundtrip by exact Hwf. rewrite pid_seen_consistent by exact Hp.
  destruct (class_inet _ _ Hc) as [Hl _]. destruct Hwf as [_ _ _ _ Hlab]. rewrite Hl in Hlab. rewrite Hlab.
  destruct n; cbn in *. subst. reflexivity.
Qed.

Theorem label_roundtrip : forall w addpath n rest,
  nlri_class (n_afi n) (n_safi n) = Some KLabel -> wf w n -> (n_pid n = None <-> addpath = false) ->
  norm_labels (n_labels n) = n_labels n ->
  unpack_nlri w addpath (n_afi n) (n_safi n) (pack_label addpath n ++ rest) = Some (n, rest).
Proof.
  intros w addpath n rest Hc Hwf Hp Hn. unfold unpack_nlri, pack_label. rewrite Hc. unfold unpack_label, unpack_inet.
  rewrite core_roundtrip by exact Hwf. rewrite pid_seen_consistent by exact Hp. rewrite Hn.
  destruct n; reflexivity.
Qed.

Theorem ipvpn_roundtrip : forall w addpath n rest,
  nlri_class (n_afi n) (n_safi n) = Some KIpvpn -> wf w n -> (n_pid n = None <-> addpath = false) ->
  unpack_nlri w addpath (n_afi n) (n_safi n) (pack_ipvpn addpath n ++ rest) = Some (n, rest).
Proof.
  intros w addpath n rest Hc Hwf Hp. unfold unpack_nlri, pack_ipvpn. rewrite Hc. unfold unpack_ipvpn.
  rewrite core_roundtrip by exact Hwf. rewrite pid_seen_consistent by exact Hp.
  destruct n; reflexivity.
Qed.

(* what ADD-PATH does to an object whose stored path-id does not match the session *)
Theorem roundtrip_any_session : forall w addpath n rest,
  wf w n ->
  unpack_core w addpath (n_afi n) (n_safi n) (pack_nlri addpath n ++ rest)
  = Some (pid_seen addpath (n_pid n), n_labels n, n_rd n, n_mask n, n_pfx n, rest).
Proof. exact core_roundtrip. Qed.

Lemma pack_of_core addpath pid ls rd m pfx afi safi :
  (pid = None <-> addpath = false) -> zlen pfx = csize m ->
  pack_nlri addpath (mkN afi safi pid ls rd m pfx)
  = pid_bytes pid ++ (24 * zlen ls + 8 * zlen rd + m) :: lbl_bytes ls ++ rd ++ pfx.
Proof.
  intros [H1 H2] Hp. unfold pack_nlri, body, cmask. cbn [n_pid n_labels n_rd n_mask n_pfx].
  rewrite pack_ip_exact by exact Hp.
  destruct addpath, pid; cbn [pid_bytes app]; try reflexivity.
  - discriminate (H1 eq_refl).
  - discriminate (H2 eq_refl).
Qed.

(* decode then encode: every byte string a decoder accepts is reproduced by the encoder
   (for Label under the hypothesis that the label stack is the normalised one) *)
Theorem canonical_bytes : forall w addpath afi safi data n rest,
  wfb data ->
  unpack_nlri w addpath afi safi data = Some (n, rest) ->
  (nlri_class afi safi = Some KLabel -> forall pid ls rd m pfx r,
     unpack_core w addpath afi safi data = Some (pid, ls, rd, m, pfx, r) -> norm_labels ls = ls) ->
  pack_nlri addpath n ++ rest = data.
Proof.
  intros w addpath afi safi data n rest Hb H Hcanon. unfold unpack_nlri in H.
  destruct (nlri_class afi safi) as [[| | |c]|] eqn:Hc; try discriminate.
  - unfold unpack_inet in H.
    destruct (unpack_core w addpath afi safi data) as [[[[[[pid ls] rd] m] pfx] r]|] eqn:Hu; [|discriminate].
    injection H as <- <-.
    destruct (core_canonical _ _ _ _ _ _ _ _ _ _ _ Hb Hu) as [E [Hp [_ [_ [_ [Hx Hl]]]]]].
    destruct (class_inet _ _ Hc) as [Hl' _]. rewrite (Hl Hl') in *. cbn [norm_labels].
    rewrite pack_of_core by assumption. rewrite <- E. rewrite <- !app_assoc. cbn [app]. rewrite <- !app_assoc. reflexivity.
  - unfold unpack_label, unpack_inet in H.
    destruct (unpack_core w addpath afi safi data) as [[[[[[pid ls] rd] m] pfx] r]|] eqn:Hu; [|discriminate].
    injection H as <- <-.
    destruct (core_canonical _ _ _ _ _ _ _ _ _ _ _ Hb Hu) as [E [Hp [_ [_ [_ [Hx Hl]]]]]].
    rewrite (Hcanon eq_refl _ _ _ _ _ _ eq_refl).
    rewrite pack_of_core by assumption. rewrite <- E. rewrite <- !app_assoc. cbn [app]. rewrite <- !app_assoc. reflexivity.
  - unfold unpack_ipvpn in H.
    destruct (unpack_core w addpath afi safi data) as [[[[[[pid ls] rd] m] pfx] r]|] eqn:Hu; [|discriminate].
    injection H as <- <-.
    destruct (core_canonical _ _ _ _ _ _ _ _ _ _ _ Hb Hu) as [E [Hp [_ [_ [_ [Hx Hl]]]]]].
    rewrite pack_of_core by assumption. rewrite <- E. rewrite <- !app_assoc. cbn [app]. rewrite <- !app_assoc. reflexivity.
Qed.

(* a decoded object is well formed in the sense the round trip theorems ask for (shape part) *)
Theorem decoded_shape : forall w addpath afi safi data n rest,
  wfb data -> unpack_nlri w addpath afi safi data = Some (n, rest) ->
  n_afi n = afi /\ n_safi n = safi /\ (n_pid n = None <-> addpath = false)
  /\ match n_pid n with Some b => length b = 4%nat | None => True end
  /\ zlen (n_rd n) = rd_size afi safi /\ 0 <= n_mask n <= ip_length afi * 8 /\ zlen (n_pfx n) = csize (n_mask n).
Proof.
  intros w addpath afi safi data n rest Hb H. unfold unpack_nlri in H.
  destruct (nlri_class afi safi) as [[| | |c]|]; try discriminate;
  unfold unpack_label, unpack_inet, unpack_ipvpn in H;
  (destruct (unpack_core w addpath afi safi data) as [[[[[[pid ls] rd] m] pfx] r]|] eqn:Hu; [|discriminate]);
  injection H as <- <-;
  destruct (core_canonical _ _ _ _ _ _ _ _ _ _ _ Hb Hu) as [_ [Hp [H4 [Hr [Hm [Hx _]]]]]];
  cbn [n_afi n_safi n_pid n_rd n_mask n_pfx]; repeat split; try tauto; try lia; try apply Hp.
Qed.

(* ------------------------------------------------------------------ Family.index is a prefix code *)

Lemma hexd_inj a b : 0 <= a < 16 -> 0 <= b < 16 -> hexd a = hexd b -> a = b.
Proof.
  unfold hexd. intros Ha Hb. destruct (a <? 10) eqn:E1; destruct (b <? 10) eqn:E2; lia.
Qed.

Lemma hexs_small n : 0 <= n < 256 -> hexs n = [hexd (n / 16); hexd (n mod 16)].
Proof. intro H. unfold hexs. destruct (n <? 256) eqn:E; [reflexivity|lia]. Qed.

Lemma hexs_small_inj a b : 0 <= a < 256 -> 0 <= b < 256 -> hexs a = hexs b -> a = b.
Proof.
  intros Ha Hb H. rewrite !hexs_small in H by assumption. injection H as H1 H2.
  apply hexd_inj in H1; [|split; [apply Z.div_pos; lia|apply Z.div_lt_upper_bound; lia] ..].
  apply hexd_inj in H2; [|apply Z.mod_pos_bound; lia ..].
  rewrite (Z.div_mod a 16), (Z.div_mod b 16) by lia. lia.
Qed.

Lemma fam_index_inj_app a s a' s' x y :
  0 <= a < 256 -> 0 <= s < 256 -> 0 <= a' < 256 -> 0 <= s' < 256 ->
  fam_index a s ++ x = fam_index a' s' ++ y -> a = a' /\ s = s' /\ x = y.
Proof.
  intros Ha Hs Ha' Hs' H. unfold fam_index in H. rewrite <- !app_assoc in H.
  apply app_eq_len in H; [|rewrite !hexs_small by assumption; reflexivity].
  destruct H as [H1 H]. apply app_eq_len in H; [|rewrite !hexs_small by assumption; reflexivity].
  destruct H as [H2 H]. apply hexs_small_inj in H1; [|assumption..]. apply hexs_small_inj in H2; [|assumption..].
  tauto.
Qed.

Lemma ltag_inj_app t1 t2 x y : ltag t1 ++ x = ltag t2 ++ y -> t1 = t2 /\ x = y.
Proof.
  unfold ltag. cbn [app]. intro H. injection H as Hl H. apply app_eq_len in H; [exact H|].
  unfold zlen in Hl. lia.
Qed.

Lemma tag_inet_inj p1 p2 :
  match p1 with Some b => length b = 4%nat | None => True end ->
  match p2 with Some b => length b = 4%nat | None => True end ->
  tag_inet p1 = tag_inet p2 -> p1 = p2.
Proof.
  intros H1 H2 H. destruct p1 as [b1|], p2 as [b2|]; cbn [tag_inet] in H.
  - subst. reflexivity.
  - rewrite H in H1. discriminate.
  - rewrite <- H in H2. discriminate.
  - reflexivity.
Qed.

Lemma tag_label_length p :
  match p with Some b => length b = 4%nat | None => True end ->
  match p with
  | None => length (tag_label p) = 8%nat
  | Some b => if list_eqb b [0;0;0;0] then length (tag_label p) = 5%nat else length (tag_label p) = 4%nat
  end.
Proof.
  intro H. destruct p as [b|]; cbn [tag_label]; [|reflexivity].
  destruct (list_eqb b [0;0;0;0]); [reflexivity|exact H].
Qed.

Lemma tag_label_inj p1 p2 :
  match p1 with Some b => length b = 4%nat | None => True end ->
  match p2 with Some b => length b = 4%nat | None => True end ->
  tag_label p1 = tag_label p2 -> p1 = p2.
Proof.
  intros H1 H2 H. pose proof (tag_label_length p1 H1) as L1. pose proof (tag_label_length p2 H2) as L2.
  rewrite H in L1.
  destruct p1 as [b1|], p2 as [b2|]; cbn [tag_label] in H.
  - destruct (list_eqb b1 [0;0;0;0]) eqn:E1; destruct (list_eqb b2 [0;0;0;0]) eqn:E2.
    + apply list_eqb_eq in E1, E2. subst. reflexivity.
    + rewrite L1 in L2. discriminate.
    + rewrite L1 in L2. discriminate.
    + subst. reflexivity.
  - destruct (list_eqb b1 [0;0;0;0]); rewrite L1 in L2; discriminate.
  - destruct (list_eqb b2 [0;0;0;0]); rewrite L1 in L2; discriminate.
  - reflexivity.
Qed.

(* ------------------------------------------------------------------ index injectivity (repaired index) *)

(* the shape every constructed or decoded prefix NLRI has *)
Record wfx (n : nlri) : Prop := mkWfx {
  wx_afi : 0 <= n_afi n < 256;
  wx_safi : 0 <= n_safi n < 256;
  wx_pid : match n_pid n with Some b => length b = 4%nat | None => True end;
  wx_pfx : zlen (n_pfx n) = csize (n_mask n)
}.

Theorem index_inet_injective : forall n1 n2,
  wfx n1 -> wfx n2 -> n_labels n1 = [] -> n_rd n1 = [] -> n_labels n2 = [] -> n_rd n2 = [] ->
  index_inet n1 = index_inet n2 -> n1 = n2.
Proof.
  intros n1 n2 [A1 S1 P1 X1] [A2 S2 P2 X2] L1 R1 L2 R2 H. unfold index_inet in H.
  apply fam_index_inj_app in H; try assumption. destruct H as [Ea [Es H]].
  apply ltag_inj_app in H. destruct H as [Et H]. apply tag_inet_inj in Et; try assumption.
  unfold body, cmask in H. rewrite L1, R1, L2, R2 in H. cbn [lbl_bytes flat_map app] in H.
  rewrite !pack_ip_exact in H by assumption. rewrite zlen_nil in H. injection H as Hm Hp.
  destruct n1, n2; cbn in *. subst. f_equal; lia.
Qed.

Theorem index_label_injective : forall n1 n2,
  wfx n1 -> wfx n2 -> index_label n1 = index_label n2 ->
  n_afi n1 = n_afi n2 /\ n_safi n1 = n_safi n2 /\ n_pid n1 = n_pid n2 /\ n_mask n1 = n_mask n2 /\ n_pfx n1 = n_pfx n2.
Proof.
  intros n1 n2 [A1 S1 P1 X1] [A2 S2 P2 X2] H. unfold index_label in H.
  apply fam_index_inj_app in H; try assumption. destruct H as [Ea [Es H]].
  apply ltag_inj_app in H. destruct H as [Et H]. apply tag_label_inj in Et; try assumption.
  rewrite !pack_ip_exact in H by assumption. injection H as Hm Hp. tauto.
Qed.

Theorem index_ipvpn_injective : forall n1 n2,
  wfx n1 -> wfx n2 -> zlen (n_rd n1) = 8 -> zlen (n_rd n2) = 8 -> index_ipvpn n1 = index_ipvpn n2 ->
  n_afi n1 = n_afi n2 /\ n_safi n1 = n_safi n2 /\ n_pid n1 = n_pid n2 /\ n_rd n1 = n_rd n2
  /\ n_mask n1 = n_mask n2 /\ n_pfx n1 = n_pfx n2.
Proof.
  intros n1 n2 [A1 S1 P1 X1] [A2 S2 P2 X2] R1 R2 H. unfold index_ipvpn in H.
  apply fam_index_inj_app in H; try assumption. destruct H as [Ea [Es H]].
  apply ltag_inj_app in H. destruct H as [Et H]. apply tag_label_inj in Et; try assumption.
  rewrite !pack_ip_exact in H by assumption. rewrite R1, R2 in H. apply cons_inj in H. destruct H as [Hm Hp].
  apply app_eq_len in Hp; [|unfold zlen in *; lia]. destruct Hp as [Hr Hp].
  repeat split; try assumption. lia.
Qed.

(* __eq__ is index equality; equal objects have equal hash inputs *)
Theorem eq_implies_hash : forall k n1 n2,
  0 <= n_afi n1 < 256 -> 0 <= n_safi n1 < 256 -> 0 <= n_afi n2 < 256 -> 0 <= n_safi n2 < 256 ->
  nlri_eqb k n1 n2 = true -> hash_key k n1 = hash_key k n2.
Proof.
  intros k n1 n2 A1 S1 A2 S2 H. unfold nlri_eqb in H. apply list_eqb_eq in H.
  destruct k; try exact H.
  cbn [index_of index_inet] in H. unfold index_inet in H. cbn [hash_key]. unfold hash_key_pinned.
  apply fam_index_inj_app in H; try assumption. destruct H as [_ [_ H]].
  apply ltag_inj_app in H. destruct H as [-> ->]. reflexivity.
Qed.

(* Route.index = family prefix + NLRI index: nothing is lost *)
Theorem route_index_injective : forall k n1 n2,
  0 <= n_afi n1 < 256 -> 0 <= n_safi n1 < 256 -> 0 <= n_afi n2 < 256 -> 0 <= n_safi n2 < 256 ->
  route_index k n1 = route_index k n2 -> index_of k n1 = index_of k n2.
Proof.
  intros k n1 n2 A1 S1 A2 S2 H. unfold route_index in H.
  apply fam_index_inj_app in H; try assumption. tauto.
Qed.

(* ------------------------------------------------------------------ the pinned tree: refutations *)

(* D15, LabelBase.index: ipv6 nlri-mpls, path-id 6e6f2d70 ("no-p") + 6401:0203:...:0c00::/105
   and path-id 0.0.0.0 (NOPATH, tag "no-pi") + 0102:0304:...:0c00::/100 *)
Definition d15_label_a : nlri := mkN 2 4 (Some [110;111;45;112]) [1601] [] 105 [100;1;2;3;4;5;6;7;8;9;10;11;12;0].
Definition d15_label_b : nlri := mkN 2 4 (Some [0;0;0;0]) [1601] [] 100 [1;2;3;4;5;6;7;8;9;10;11;12;0].

(* D15, INETBase.index: ipv6 unicast, path-id 64697361 ("disa") + 6c65:6448:0102:...:0800::/98
   and no path-id (tag "disabled") + 0102:0304:0506:0708::/72 *)
Definition d15_inet_a : nlri := mkN 2 1 (Some [100;105;115;97]) [] [] 98 [108;101;100;72;1;2;3;4;5;6;7;8;0].
Definition d15_inet_b : nlri := mkN 2 1 None [] [] 72 [1;2;3;4;5;6;7;8;0].

(* D15, IPVPNBase.index: ipv6 mpls-vpn, "no-p" + rd 6800000000000001 + 0a00:0000:0100::/41
   and NOPATH + rd 000000000000010a + 0000:0001::/40 *)
Definition d15_vpn_a : nlri := mkN 2 128 (Some [110;111;45;112]) [1601] [104;0;0;0;0;0;0;1] 41 [10;0;0;0;1;0].
Definition d15_vpn_b : nlri := mkN 2 128 (Some [0;0;0;0]) [1601] [0;0;0;0;0;0;1;10] 40 [0;0;0;1;0].

(* D14: 10.0.0.0/24 label 100 and 10.0.0.0/24 label 200 *)
Definition d14_a : nlri := mkN 1 4 None [1601] [] 24 [10;0;0].
Definition d14_b : nlri := mkN 1 4 None [3201] [] 24 [10;0;0].

Ltac wf_witness :=
  constructor; vm_compute;
  first [ solve [repeat split; try discriminate; try reflexivity; auto]
        | solve [right; repeat split; try discriminate; reflexivity]
        | solve [left; repeat split; reflexivity] ].

Lemma wf_d15_label_a : wf false d15_label_a. Proof. wf_witness. Qed.
Lemma wf_d15_label_b : wf false d15_label_b. Proof. wf_witness. Qed.
Lemma wf_d15_inet_a : wf false d15_inet_a. Proof. wf_witness. Qed.
Lemma wf_d15_inet_b : wf false d15_inet_b. Proof. wf_witness. Qed.
Lemma wf_d15_vpn_a : wf false d15_vpn_a. Proof. wf_witness. Qed.
Lemma wf_d15_vpn_b : wf false d15_vpn_b. Proof. wf_witness. Qed.
Lemma wf_d14_a : wf false d14_a. Proof. wf_witness. Qed.
Lemma wf_d14_b : wf false d14_b. Proof. wf_witness. Qed.

Theorem index_pinned_not_injective :
  (exists a b, wf false a /\ wf false b /\ nlri_class (n_afi a) (n_safi a) = Some KLabel
     /\ index_label_pinned a = index_label_pinned b /\ n_pid a <> n_pid b /\ n_mask a <> n_mask b /\ n_pfx a <> n_pfx b)
  /\ (exists a b, wf false a /\ wf false b /\ nlri_class (n_afi a) (n_safi a) = Some KInet
     /\ index_inet_pinned a = index_inet_pinned b /\ n_pid a <> n_pid b /\ n_mask a <> n_mask b /\ n_pfx a <> n_pfx b)
  /\ (exists a b, wf false a /\ wf false b /\ nlri_class (n_afi a) (n_safi a) = Some KIpvpn
     /\ index_ipvpn_pinned a = index_ipvpn_pinned b /\ n_pid a <> n_pid b /\ n_rd a <> n_rd b /\ n_mask a <> n_mask b).
Proof.
  split; [|split].
  - exists d15_label_a, d15_label_b. split; [exact wf_d15_label_a|]. split; [exact wf_d15_label_b|].
    vm_compute. repeat split; try reflexivity; discriminate.
  - exists d15_inet_a, d15_inet_b. split; [exact wf_d15_inet_a|]. split; [exact wf_d15_inet_b|].
    vm_compute. repeat split; try reflexivity; discriminate.
  - exists d15_vpn_a, d15_vpn_b. split; [exact wf_d15_vpn_a|]. split; [exact wf_d15_vpn_b|].
    vm_compute. repeat split; try reflexivity; discriminate.
Qed.

(* the same pairs are told apart by the repaired index *)
Lemma repaired_index_separates :
  index_label d15_label_a <> index_label d15_label_b /\ index_inet d15_inet_a <> index_inet d15_inet_b
  /\ index_ipvpn d15_vpn_a <> index_ipvpn d15_vpn_b.
Proof. vm_compute. repeat split; discriminate. Qed.

Theorem eq_hash_pinned_refuted :
  exists a b, wf false a /\ wf false b /\ nlri_eqb_pinned KLabel a b = true /\ hash_key_pinned a <> hash_key_pinned b.
Proof.
  exists d14_a, d14_b. split; [exact wf_d14_a|]. split; [exact wf_d14_b|].
  vm_compute. split; [reflexivity|discriminate].
Qed.

(* ------------------------------------------------------------------ packed-bytes-first classes *)

Lemma app_prefix_or : forall a b x y : list Z, a ++ x = b ++ y -> is_prefix_of a b = true \/ is_prefix_of b a = true.
Proof.
  unfold is_prefix_of. induction a as [|u a IH]; intros b x y H.
  - left. reflexivity.
  - destruct b as [|v b]; [right; reflexivity|].
    cbn [app] in H. injection H as -> H. destruct (IH _ _ _ H) as [E|E]; [left|right];
    cbn [length firstn list_eqb]; rewrite Z.eqb_refl; exact E.
Qed.

Definition fam_eqb (f g : Z * Z) : bool := (fst f =? fst g) && (snd f =? snd g).

Lemma registered_prefix_free :
  forallb (fun f => forallb (fun g =>
     fam_eqb f g || negb (is_prefix_of (fam_index (fst f) (snd f)) (fam_index (fst g) (snd g))
                          || is_prefix_of (fam_index (fst g) (snd g)) (fam_index (fst f) (snd f))))
    registered_families) registered_families = true.
Proof. vm_compute. reflexivity. Qed.

(* index = Family.index + stored bytes is injective over the registered families *)
Theorem opaque_index_injective : forall f g b1 b2,
  In f registered_families -> In g registered_families ->
  opaque_index (fst f) (snd f) b1 = opaque_index (fst g) (snd g) b2 -> f = g /\ b1 = b2.
Proof.
  intros f g b1 b2 Hf Hg H. unfold opaque_index in H.
  pose proof registered_prefix_free as T. rewrite forallb_forall in T. specialize (T f Hf).
  rewrite forallb_forall in T. specialize (T g Hg).
  apply orb_true_iff in T. destruct T as [T|T].
  - unfold fam_eqb in T. apply andb_true_iff in T as [T1 T2]. apply Z.eqb_eq in T1, T2.
    assert (E : f = g) by (destruct f, g; cbn in *; subst; reflexivity).
    subst g. apply app_inv_head in H. tauto.
  - apply app_prefix_or in H. apply negb_true_iff in T. apply orb_false_iff in T as [T1 T2].
    destruct H as [H|H]; congruence.
Qed.

(* pack returns the stored bytes: both round trips are identities on (family, bytes) *)
Theorem opaque_eq_hash : forall afi safi b1 b2,
  opaque_index afi safi b1 = opaque_index afi safi b2 -> b1 = b2.
Proof. intros afi safi b1 b2 H. unfold opaque_index in H. apply app_inv_head in H. exact H. Qed.

(* ------------------------------------------------------------------ non-vacuity *)

Definition ex_vpn : nlri := mkN 1 128 (Some [0;0;0;5]) [1601] [0;0;253;232;0;0;0;1] 24 [10;0;0].

Lemma ex_vpn_ok :
  wf false ex_vpn /\ wfx ex_vpn
  /\ pack_ipvpn true ex_vpn = [0;0;0;5;112;0;6;65;0;0;253;232;0;0;0;1;10;0;0]
  /\ unpack_nlri false true 1 128 (pack_ipvpn true ex_vpn ++ [24;10;1;1]) = Some (ex_vpn, [24;10;1;1])
  /\ index_ipvpn ex_vpn = [48;49;56;48; 4;0;0;0;5; 88; 0;0;253;232;0;0;0;1; 10;0;0].
Proof.
  split; [wf_witness|].
  split; [constructor; vm_compute; repeat split; try discriminate; auto|].
  vm_compute. repeat split.
Qed.
