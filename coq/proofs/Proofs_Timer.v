(* C12 lemmas: the generated timer functions characterised, then invariants of the loop model
   by induction over the schedule. *)
From Coq Require Import ZArith Bool List Lia.
From ExaV Require Import gen.Gen_Timer spec.Spec_Timer model.Model_Timer.
Import ListNotations.
Open Scope Z_scope.

(* ------------------------------------------------------------------ generated functions *)

Lemma keepalive_is_div3 : forall H, holdtime_keepalive H = H / 3.
Proof. reflexivity. Qed.

Lemma keepalive_pos : forall H, 3 <= H -> 1 <= holdtime_keepalive H.
Proof.
  intros H HH. rewrite keepalive_is_div3.
  apply Z.div_le_lower_bound; lia.
Qed.

Lemma keepalive_third : forall H, 0 <= H -> 3 * holdtime_keepalive H <= H.
Proof. intros H HH. rewrite keepalive_is_div3. apply Z.mul_div_le. lia. Qed.

Lemma check_ka_timer_pos : forall h lp lr cd sb sg now ty sc,
  h <> 0 ->
  check_ka_timer (Build_rtimer h lp lr cd sb sg) now ty sc =
  let lr' := if sc =? 0 then now else lr in
  if now - lr' >? h
  then (Build_rtimer h lp lr' cd sb sg, Raise cd sb)
  else (Build_rtimer h (if lp =? now then lp else now) lr' cd sb sg, Ret true).
Proof.
  intros h lp lr cd sb sg now ty sc Hh.
  unfold check_ka_timer. cbn [r_holdtime r_last_print r_last_read r_code r_subcode r_single].
  destruct (h =? 0) eqn:E0; [apply Z.eqb_eq in E0; contradiction|].
  destruct (sc =? 0); cbn [negb]; destruct (_ >? h); try reflexivity;
    destruct (lp =? now); reflexivity.
Qed.

Lemma check_ka_pos : forall h lp lr cd sb sg now ty sc,
  h <> 0 ->
  check_ka (Build_rtimer h lp lr cd sb sg) now ty sc =
  let lr' := if sc =? 0 then now else lr in
  if now - lr' >? h
  then (Build_rtimer h lp lr' cd sb sg, Raise cd sb)
  else (Build_rtimer h (if lp =? now then lp else now) lr' cd sb sg, Ret tt).
Proof.
  intros h lp lr cd sb sg now ty sc Hh.
  unfold check_ka. rewrite check_ka_timer_pos by assumption. cbv zeta.
  destruct (_ >? h); reflexivity.
Qed.

Lemma check_ka_zero : forall lp lr cd sb sg now ty sc,
  check_ka (Build_rtimer 0 lp lr cd sb sg) now ty sc =
  if ty =? KeepAlive_TYPE
  then (if sg then (Build_rtimer 0 lp lr cd sb sg, Raise 2 6)
        else (Build_rtimer 0 lp lr cd sb true, Ret tt))
  else (Build_rtimer 0 lp lr cd sb sg, Ret tt).
Proof.
  intros. unfold check_ka, check_ka_timer.
  cbn [r_holdtime r_last_print r_last_read r_code r_subcode r_single].
  change (0 =? 0) with true. cbv iota.
  destruct (ty =? KeepAlive_TYPE); cbn [negb]; [destruct sg|]; reflexivity.
Qed.

Lemma need_ka_spec : forall k lp ls now,
  need_ka (Build_stimer k lp ls) now =
  if k =? 0 then (Build_stimer k lp ls, false)
  else if now - ls >=? k
       then (Build_stimer k (if now =? lp then lp else now) now, true)
       else (Build_stimer k (if now =? lp then lp else now) ls, false).
Proof.
  intros. unfold need_ka. cbn [s_keepalive s_last_print s_last_sent].
  destruct (k =? 0); cbn [negb]; [reflexivity|].
  replace (now - ls >=? k) with (ls + k - now <=? 0).
  - destruct (_ <=? 0); destruct (now =? lp); reflexivity.
  - rewrite Z.geb_leb. destruct (Z.leb_spec (ls + k - now) 0); destruct (Z.leb_spec k (now - ls)); try reflexivity; lia.
Qed.

(* ------------------------------------------------------------------ one iteration *)

Definition static_eq (s s' : sess) : Prop :=
  r_holdtime (rt s') = r_holdtime (rt s) /\ r_code (rt s') = r_code (rt s) /\
  r_subcode (rt s') = r_subcode (rt s) /\ s_keepalive (stt s') = s_keepalive (stt s).

Lemma static_refl : forall s, static_eq s s.
Proof. intros; repeat split. Qed.

Lemma static_trans : forall a b c, static_eq a b -> static_eq b c -> static_eq a c.
Proof. unfold static_eq; intros a b c H1 H2. intuition congruence. Qed.

Lemma msg_sched_real : forall i, (snd (msg_fields i) =? 0) = real i.
Proof. intros [|t]; reflexivity. Qed.

Lemma need_ka_fields : forall t now,
  s_keepalive (fst (need_ka t now)) = s_keepalive t /\
  (snd (need_ka t now) = true -> s_last_sent (fst (need_ka t now)) = now /\ now - s_last_sent t >= s_keepalive t /\ s_keepalive t <> 0) /\
  (snd (need_ka t now) = false -> s_last_sent (fst (need_ka t now)) = s_last_sent t /\ (s_keepalive t = 0 \/ now - s_last_sent t < s_keepalive t)).
Proof.
  intros [k lp ls] now. rewrite need_ka_spec. cbn [s_keepalive s_last_sent].
  destruct (Z.eqb_spec k 0) as [E|E]; cbn [fst snd s_keepalive s_last_sent].
  - repeat split; try discriminate; auto.
  - rewrite Z.geb_leb. destruct (Z.leb_spec k (now - ls)); cbn [fst snd s_keepalive s_last_sent];
      repeat split; try discriminate; auto; lia.
Qed.

(* holdtime <> 0: the iteration ends the loop exactly when the silence exceeds the hold time *)
Lemma main_iter_pos : forall s x,
  r_holdtime (rt s) <> 0 ->
  let c := clock s + dt x in
  let lr := if real (inb x) then c else r_last_read (rt s) in
  (c - lr > r_holdtime (rt s) ->
     main_iter s x = (None, Notified c (r_code (rt s)) (r_subcode (rt s)))) /\
  (c - lr <= r_holdtime (rt s) ->
     exists s', main_iter s x =
                (Some s', if snd (need_ka (stt s) (c + dk x)) then KaSent (c + dk x) else Quiet (c + dk x)) /\
       clock s' = c + dk x /\ r_last_read (rt s') = lr /\ static_eq s s' /\
       stt s' = fst (need_ka (stt s) (c + dk x))).
Proof.
  intros [[h lp lr0 cd sb sg] t clk] x Hh. cbv zeta.
  cbn [rt stt clock r_holdtime r_last_read r_code r_subcode] in *.
  set (c := clk + dt x). set (lr := if real (inb x) then c else lr0).
  unfold main_iter. cbn [rt stt clock]. fold c.
  rewrite check_ka_pos by assumption. cbv zeta. rewrite msg_sched_real. fold lr.
  rewrite Z.gtb_ltb. destruct (Z.ltb_spec h (c - lr)) as [L|L]; split; intros G; try lia.
  - reflexivity.
  - destruct (need_ka t (c + dk x)) as [t' b] eqn:En.
    eexists; split; [reflexivity|]. cbn [clock rt stt r_last_read fst snd].
    repeat split; try reflexivity.
    cbn [s_keepalive]. pose proof (need_ka_fields t (c + dk x)) as [K _]. rewrite En in K. exact K.
Qed.

(* holdtime = 0 *)
Lemma main_iter_zero : forall s x,
  r_holdtime (rt s) = 0 -> s_keepalive (stt s) = 0 ->
  let c := clock s + dt x in
  (is_ka (inb x) = true /\ r_single (rt s) = true /\ main_iter s x = (None, Notified c 2 6)) \/
  (exists s', main_iter s x = (Some s', Quiet (c + dk x)) /\ clock s' = c + dk x /\
     r_holdtime (rt s') = 0 /\ s_keepalive (stt s') = 0 /\
     r_single (rt s') = (r_single (rt s) || is_ka (inb x)) /\
     (is_ka (inb x) = true -> r_single (rt s) = false)).
Proof.
  intros [[h lp lr0 cd sb sg] [k slp sls] clk] x Hh Hk.
  cbv zeta. cbn [rt stt clock r_holdtime r_single s_keepalive] in *. subst h k.
  set (c := clk + dt x).
  unfold main_iter. cbn [rt stt clock]. fold c. rewrite check_ka_zero, need_ka_spec.
  change (0 =? 0) with true. cbv iota.
  assert (Eka : (fst (msg_fields (inb x)) =? KeepAlive_TYPE) = is_ka (inb x)).
  { destruct (inb x) as [|ty]; reflexivity. }
  rewrite Eka. destruct (is_ka (inb x)) eqn:K.
  - destruct sg.
    + left. repeat split.
    + right. eexists; split; [reflexivity|]. cbn. repeat split; auto.
  - right. eexists; split; [reflexivity|]. cbn. rewrite orb_false_r. repeat split; auto. discriminate.
Qed.

(* ------------------------------------------------------------------ whole schedules *)

Lemma run_main_app : forall pre s s' l,
  exec s pre = Some s' -> run_main s (pre ++ l) = run_main s pre ++ run_main s' l.
Proof.
  induction pre as [|x pre IH]; intros s s' l E; cbn [exec] in E.
  - inversion E; subst. reflexivity.
  - cbn [app run_main]. destruct (main_iter s x) as [[s1|] o] eqn:M; cbn [fst] in E; [|discriminate].
    cbn [app]. f_equal. eapply IH; eassumption.
Qed.

Lemma exec_app : forall pre s s' l,
  exec s pre = Some s' -> exec s (pre ++ l) = exec s' l.
Proof.
  induction pre as [|x pre IH]; intros s s' l E; cbn [exec] in E.
  - inversion E; subst. reflexivity.
  - cbn [app exec]. destruct (fst (main_iter s x)) as [s1|]; [|discriminate]. eapply IH; eassumption.
Qed.

Lemma exec_pos_inv : forall pre s s',
  r_holdtime (rt s) <> 0 -> exec s pre = Some s' ->
  static_eq s s' /\ clock s' = t_after (clock s) pre /\
  r_last_read (rt s') = heard_after (r_last_read (rt s)) (clock s) pre.
Proof.
  induction pre as [|x pre IH]; intros s s' Hh E; cbn [exec] in E.
  - inversion E; subst. repeat split.
  - pose proof (main_iter_pos s x Hh) as [Hfire Hgo]. cbv zeta in *.
    destruct (Z_lt_le_dec (r_holdtime (rt s))
                (clock s + dt x - (if real (inb x) then clock s + dt x else r_last_read (rt s)))) as [L|L].
    + rewrite Hfire in E by lia. discriminate.
    + destruct (Hgo L) as (s1 & M & C1 & R1 & S1 & _). rewrite M in E. cbn [fst] in E.
      assert (Hh1 : r_holdtime (rt s1) <> 0) by (destruct S1 as [S1 _]; congruence).
      destruct (IH s1 s' Hh1 E) as (S2 & C2 & R2).
      split; [eapply static_trans; eassumption|].
      cbn [t_after heard_after]. rewrite C2, R2, C1, R1. split; reflexivity.
Qed.

(* C12_hold_fires *)
Lemma hold_fires : forall H s pre x post s',
  0 < H -> r_holdtime (rt s) = H -> exec s pre = Some s' ->
  silence (r_last_read (rt s)) (clock s) pre x > H ->
  run_main s (pre ++ x :: post) =
  run_main s pre ++ [Notified (t_after (clock s) pre + dt x) (r_code (rt s)) (r_subcode (rt s))].
Proof.
  intros H s pre x post s' HH Hh E Sil.
  assert (Hn : r_holdtime (rt s) <> 0) by lia.
  destruct (exec_pos_inv pre s s' Hn E) as ((S1 & S2 & S3 & _) & C & R).
  rewrite (run_main_app pre s s' _ E). f_equal. cbn [run_main].
  assert (Hn' : r_holdtime (rt s') <> 0) by congruence.
  pose proof (main_iter_pos s' x Hn') as [Hfire _]. cbv zeta in Hfire.
  unfold silence in Sil. rewrite Hfire.
  - rewrite C, S2, S3. reflexivity.
  - rewrite S1, C, R, Hh. destruct (real (inb x)); lia.
Qed.

(* C12_hold_not_early: any Notify the loop produces while the hold time is positive is the hold
   timer's, at an iteration whose silence exceeds H *)
Lemma hold_not_early : forall sched H s t c sb,
  0 < H -> r_holdtime (rt s) = H ->
  In (Notified t c sb) (run_main s sched) ->
  exists pre x post, sched = pre ++ x :: post /\
    silence (r_last_read (rt s)) (clock s) pre x > H /\
    t = t_after (clock s) pre + dt x /\ c = r_code (rt s) /\ sb = r_subcode (rt s).
Proof.
  induction sched as [|x r IH]; intros H s t c sb HH Hh I; cbn [run_main] in I; [contradiction|].
  assert (Hn : r_holdtime (rt s) <> 0) by lia.
  pose proof (main_iter_pos s x Hn) as [Hfire Hgo]. cbv zeta in *.
  destruct (Z_lt_le_dec (r_holdtime (rt s))
              (clock s + dt x - (if real (inb x) then clock s + dt x else r_last_read (rt s)))) as [L|L].
  - rewrite Hfire in I by lia. destruct I as [I|[]]. inversion I; subst.
    exists [], x, r. cbn [app t_after]. unfold silence. cbn [t_after heard_after].
    repeat split; auto. destruct (real (inb x)); lia.
  - destruct (Hgo L) as (s1 & M & C1 & R1 & (S1 & S2 & S3 & S4) & _). rewrite M in I.
    destruct I as [I|I].
    + destruct (snd (need_ka _ _)); discriminate.
    + assert (Hh1 : r_holdtime (rt s1) = H) by congruence.
      destruct (IH H s1 t c sb HH Hh1 I) as (pre & y & post & E & Sil & Et & Ec & Es).
      exists (x :: pre), y, post. subst r. split; [reflexivity|].
      unfold silence in *. cbn [t_after heard_after]. rewrite <- C1, <- R1.
      repeat split; auto; congruence.
Qed.

(* silence <= H: the loop goes on *)
Lemma hold_goes_on : forall H s pre x s',
  0 < H -> r_holdtime (rt s) = H -> exec s pre = Some s' ->
  silence (r_last_read (rt s)) (clock s) pre x <= H ->
  exists s'', exec s (pre ++ [x]) = Some s''.
Proof.
  intros H s pre x s' HH Hh E Sil.
  assert (Hn : r_holdtime (rt s) <> 0) by lia.
  destruct (exec_pos_inv pre s s' Hn E) as ((S1 & _) & C & R).
  rewrite (exec_app pre s s' _ E). cbn [exec].
  assert (Hn' : r_holdtime (rt s') <> 0) by congruence.
  pose proof (main_iter_pos s' x Hn') as [_ Hgo]. cbv zeta in Hgo.
  unfold silence in Sil.
  destruct Hgo as (s1 & M & _).
  - rewrite S1, C, R, Hh. destruct (real (inb x)); lia.
  - rewrite M. cbn [fst]. eauto.
Qed.

(* C12_hold_fires_within: with consultations at most delta apart, a silent session is closed
   no later than H + delta after the last message *)
Lemma hold_fires_within : forall rest H delta s prev,
  0 < H -> r_holdtime (rt s) = H -> 0 <= prev <= delta ->
  clock s - prev - r_last_read (rt s) <= H ->
  Forall silent rest -> Forall wf_step rest -> paced delta prev rest ->
  match exec s rest with
  | Some s' => clock s' - r_last_read (rt s) <= H + delta /\ r_last_read (rt s') = r_last_read (rt s)
  | None => exists o t, run_main s rest = o ++ [Notified t (r_code (rt s)) (r_subcode (rt s))] /\
                        H < t - r_last_read (rt s) <= H + delta /\
                        (forall u c sb, ~ In (Notified u c sb) o)
  end.
Proof.
  induction rest as [|x r IH]; intros H delta s prev HH Hh Hp Alive Sil Wf Pc.
  - cbn [exec]. split; [lia|reflexivity].
  - pose proof (Forall_inv Sil) as Sx. pose proof (Forall_inv_tail Sil) as Sr.
    pose proof (Forall_inv Wf) as Wx. pose proof (Forall_inv_tail Wf) as Wr.
    destruct Wx as [Wd Wk]. cbn [paced] in Pc. destruct Pc as (P1 & P2 & P3).
    assert (Hn : r_holdtime (rt s) <> 0) by lia.
    pose proof (main_iter_pos s x Hn) as [Hfire Hgo]. cbv zeta in *.
    unfold silent in Sx. rewrite Sx in Hfire, Hgo. cbn [real] in Hfire, Hgo.
    cbn [exec run_main].
    destruct (Z_lt_le_dec (r_holdtime (rt s)) (clock s + dt x - r_last_read (rt s))) as [L|L].
    + rewrite Hfire by lia. cbn [fst].
      exists [], (clock s + dt x). split; [reflexivity|]. split; [lia|]. intros u c sb [].
    + destruct (Hgo L) as (s1 & M & C1 & R1 & (S1 & S2 & S3 & S4) & _). rewrite M. cbn [fst].
      assert (Hh1 : r_holdtime (rt s1) = H) by congruence.
      assert (Hp1 : 0 <= dk x <= delta) by lia.
      assert (A1 : clock s1 - dk x - r_last_read (rt s1) <= H) by (rewrite C1, R1; lia).
      specialize (IH H delta s1 (dk x) HH Hh1 Hp1 A1 Sr Wr P3).
      destruct (exec s1 r) as [s2|].
      * rewrite <- R1. exact IH.
      * destruct IH as (o & t & Er & Bt & No). rewrite S2, S3, R1 in *.
        eexists (_ :: o), t. split; [rewrite Er; reflexivity|]. split; [exact Bt|].
        intros u c sb [I|I]; [destruct (snd (need_ka _ _)); discriminate|]. eapply No; eassumption.
Qed.

(* C12_keepalive_interval *)
Definition ka_gap (K delta : Z) (a b : Z) : Prop := K <= b - a <= K - 1 + delta.

Lemma keepalive_interval : forall sched K delta s,
  1 <= K -> s_keepalive (stt s) = K -> r_holdtime (rt s) <> 0 ->
  0 <= clock s - s_last_sent (stt s) < K ->
  Forall wf_step sched -> Forall (fun x => dt x + dk x <= delta) sched ->
  chain (ka_gap K delta) (s_last_sent (stt s)) (ka_times (run_main s sched)) /\
  (forall s', exec s sched = Some s' -> 0 <= clock s' - s_last_sent (stt s') < K).
Proof.
  induction sched as [|x r IH]; intros K delta s HK Hk Hn Fresh Wf Gap.
  - cbn. split; [exact I|]. intros s' E; inversion E; subst; exact Fresh.
  - pose proof (Forall_inv Wf) as [Wd Wk]. pose proof (Forall_inv_tail Wf) as Wr.
    pose proof (Forall_inv Gap) as Gx. pose proof (Forall_inv_tail Gap) as Gr. cbv beta in Gx.
    pose proof (main_iter_pos s x Hn) as [Hfire Hgo]. cbv zeta in *.
    cbn [run_main exec].
    destruct (Z_lt_le_dec (r_holdtime (rt s))
                (clock s + dt x - (if real (inb x) then clock s + dt x else r_last_read (rt s)))) as [L|L].
    + rewrite Hfire by lia. cbn. split; [exact I|]. intros s' E; discriminate.
    + destruct (Hgo L) as (s1 & M & C1 & R1 & (S1 & S2 & S3 & S4) & T1). rewrite M. cbn [fst].
      pose proof (need_ka_fields (stt s) (clock s + dt x + dk x)) as (_ & Ft & Ff).
      assert (Hn1 : r_holdtime (rt s1) <> 0) by congruence.
      assert (Hk1 : s_keepalive (stt s1) = K) by congruence.
      destruct (snd (need_ka (stt s) (clock s + dt x + dk x))) eqn:B.
      * destruct (Ft eq_refl) as (Ls & Ge & _).
        assert (Fresh1 : 0 <= clock s1 - s_last_sent (stt s1) < K) by (rewrite T1, Ls, C1; lia).
        destruct (IH K delta s1 HK Hk1 Hn1 Fresh1 Wr Gr) as [Ch Fr].
        cbn [ka_times chain]. split; [|exact Fr].
        split; [unfold ka_gap; lia|]. rewrite T1, Ls in Ch. exact Ch.
      * destruct (Ff eq_refl) as (Ls & Lt).
        assert (Fresh1 : 0 <= clock s1 - s_last_sent (stt s1) < K) by (rewrite T1, Ls, C1; lia).
        destruct (IH K delta s1 HK Hk1 Hn1 Fresh1 Wr Gr) as [Ch Fr].
        cbn [ka_times]. rewrite T1, Ls in Ch. split; assumption.
Qed.

(* need_ka, stated alone: true exactly when keepalive seconds have passed on the integer clock *)
Lemma need_ka_exact : forall t now,
  s_keepalive t <> 0 -> (snd (need_ka t now) = true <-> now - s_last_sent t >= s_keepalive t).
Proof.
  intros [k lp ls] now Hk. cbn [s_keepalive s_last_sent] in *. rewrite need_ka_spec.
  destruct (Z.eqb_spec k 0); [contradiction|]. rewrite Z.geb_leb.
  destruct (Z.leb_spec k (now - ls)); cbn [snd]; split; intros; try lia; try discriminate; reflexivity.
Qed.

Lemma need_ka_zero : forall t now, s_keepalive t = 0 -> need_ka t now = (t, false).
Proof. intros [k lp ls] now Hk. cbn in Hk. subst. rewrite need_ka_spec. reflexivity. Qed.

(* ------------------------------------------------------------------ hold time zero *)

Definition quiet_or_26 (o : obs) : Prop := (exists t, o = Quiet t) \/ (exists t, o = Notified t 2 6).

Lemma zero_obs : forall sched s,
  r_holdtime (rt s) = 0 -> s_keepalive (stt s) = 0 -> Forall quiet_or_26 (run_main s sched).
Proof.
  induction sched as [|x r IH]; intros s Hh Hk; cbn [run_main]; [constructor|].
  destruct (main_iter_zero s x Hh Hk) as [(_ & _ & M)|(s1 & M & _ & H1 & K1 & _)]; rewrite M.
  - constructor; [right; eauto|constructor].
  - constructor; [left; eauto|]. apply IH; assumption.
Qed.

(* a loop that is still running has seen at most one KEEPALIVE *)
Lemma zero_exec_some : forall sched s s',
  r_holdtime (rt s) = 0 -> s_keepalive (stt s) = 0 -> exec s sched = Some s' ->
  (count_ka sched + (if r_single (rt s) then 1 else 0) <= 1)%nat.
Proof.
  induction sched as [|x r IH]; intros s s' Hh Hk E.
  - cbn. destruct (r_single (rt s)); lia.
  - cbn [exec] in E. unfold count_ka in *. cbn [filter].
    destruct (main_iter_zero s x Hh Hk) as [(_ & _ & M)|(s1 & M & _ & H1 & K1 & Sg1 & Kf)];
      rewrite M in E; cbn [fst] in E; [discriminate|].
    specialize (IH s1 s' H1 K1 E). rewrite Sg1 in IH.
    destruct (is_ka (inb x)) eqn:Ka; cbn [length].
    + rewrite (Kf eq_refl) in *. cbn [orb] in IH. lia.
    + rewrite orb_false_r in IH. exact IH.
Qed.

(* while at most one KEEPALIVE has been seen the loop goes on, silently *)
Lemma zero_prefix : forall pre s,
  r_holdtime (rt s) = 0 -> s_keepalive (stt s) = 0 ->
  (count_ka pre + (if r_single (rt s) then 1 else 0) <= 1)%nat ->
  exists s', exec s pre = Some s' /\ clock s' = t_after (clock s) pre /\
    r_holdtime (rt s') = 0 /\ s_keepalive (stt s') = 0 /\
    r_single (rt s') = (r_single (rt s) || (0 <? count_ka pre)%nat) /\
    Forall (fun o => exists t, o = Quiet t) (run_main s pre).
Proof.
  induction pre as [|y pre IH]; intros s Hh Hk Cnt.
  - exists s. cbn. rewrite orb_false_r. repeat split; auto.
  - unfold count_ka in *. cbn [filter] in Cnt. cbn [exec run_main t_after filter].
    destruct (main_iter_zero s y Hh Hk) as [(Ka & Sg & _)|(s1 & M & C1 & H1 & K1 & Sg1 & Kf)].
    + rewrite Ka, Sg in Cnt. cbn [length] in Cnt. lia.
    + rewrite M. cbn [fst].
      destruct (IH s1 H1 K1) as (s' & E & C & H' & K' & Sg' & Q).
      { rewrite Sg1. destruct (is_ka (inb y)) eqn:Ky; cbn [length] in Cnt.
        - rewrite (Kf eq_refl) in *. cbn [orb]. lia.
        - rewrite orb_false_r. exact Cnt. }
      exists s'. rewrite E, C, C1. repeat split; auto.
      * rewrite Sg', Sg1. destruct (is_ka (inb y)) eqn:Ky; cbn [length].
        -- destruct (r_single (rt s)); reflexivity.
        -- rewrite orb_false_r. reflexivity.
      * constructor; [eauto|exact Q].
Qed.

(* C12_zero, third part: the second KEEPALIVE is answered 2/6, exactly there *)
Lemma zero_second_keepalive : forall pre x post s,
  r_holdtime (rt s) = 0 -> s_keepalive (stt s) = 0 -> r_single (rt s) = false ->
  count_ka pre = 1%nat -> is_ka (inb x) = true ->
  run_main s (pre ++ x :: post) = run_main s pre ++ [Notified (t_after (clock s) pre + dt x) 2 6] /\
  Forall (fun o => exists t, o = Quiet t) (run_main s pre).
Proof.
  intros pre x post s Hh Hk Sg Cnt Ka.
  destruct (zero_prefix pre s Hh Hk) as (s' & E & C & H' & K' & Sg' & Q).
  { rewrite Cnt, Sg. lia. }
  split; [|exact Q].
  rewrite (run_main_app pre s s' _ E). f_equal. cbn [run_main].
  rewrite Cnt, Sg in Sg'. cbn in Sg'.
  destruct (main_iter_zero s' x H' K') as [(_ & _ & M)|(s2 & _ & _ & _ & _ & _ & Kf)].
  - rewrite M, C. reflexivity.
  - rewrite (Kf Ka) in Sg'. discriminate.
Qed.

(* ------------------------------------------------------------------ session start *)

Lemma session_init_fields : forall H t_rt t_ka t_main,
  0 <= H ->
  let s := session_init H t_rt t_ka t_main in
  r_holdtime (rt s) = H /\ r_code (rt s) = 4 /\ r_subcode (rt s) = 0 /\ r_single (rt s) = false /\
  s_keepalive (stt s) = H / 3 /\ s_last_sent (stt s) = t_main /\ clock s = t_main /\
  (H <> 0 -> r_last_read (rt s) = t_ka) /\
  (forall c sb, snd (check_ka_timer (rtimer_init H established_code established_subcode t_rt) t_ka KeepAlive_TYPE MESSAGE_SCHEDULING) <> Raise c sb).
Proof.
  intros H t_rt t_ka t_main HH. unfold session_init, rtimer_init, stimer_init. cbv zeta.
  destruct (Z.eq_dec H 0) as [E|E].
  - subst H. unfold check_ka_timer. cbn.
    split; [reflexivity|]. split; [reflexivity|]. split; [reflexivity|]. split; [reflexivity|].
    split; [reflexivity|]. split; [reflexivity|]. split; [reflexivity|].
    split; [intros N; contradiction|intros c sb; discriminate].
  - rewrite check_ka_timer_pos by assumption. cbv zeta. change (MESSAGE_SCHEDULING =? 0) with true. cbv iota.
    replace (t_ka - t_ka) with 0 by lia.
    rewrite Z.gtb_ltb. destruct (Z.ltb_spec H 0); [lia|]. cbn.
    (split; [reflexivity|]; split; [reflexivity|]; split; [reflexivity|]; split; [reflexivity|];
     split; [reflexivity|]; split; [reflexivity|]; split; [reflexivity|];
     split; [intros _; reflexivity|intros c sb; try discriminate]).
Qed.

(* ------------------------------------------------------------------ open wait *)

Lemma first_msg_time : forall l e e1 i, Forall (fun p => 0 <= fst p) l -> first_msg e l = Some (e1, i) -> e <= e1.
Proof.
  induction l as [|[d j] r IH]; intros e e1 i Nn F; cbn [first_msg] in F; [discriminate|].
  inversion Nn as [|? ? Hd Hr]; subst. cbn [fst] in Hd.
  destruct j; try (inversion F; subst; lia).
  specialize (IH _ _ _ Hr F). lia.
Qed.

Lemma total_ge : forall l e, Forall (fun p => 0 <= fst p) l -> e <= total e l.
Proof.
  induction l as [|[d j] r IH]; intros e Nn; cbn [total]; [lia|].
  inversion Nn as [|? ? Hd Hr]; subst. cbn [fst] in Hd. specialize (IH (e + d) Hr). lia.
Qed.

Lemma open_wait_gen : forall l wait e,
  Forall (fun p => 0 <= fst p) l -> e < wait ->
  read_open_wait wait e l =
  match first_msg e l with
  | Some (e1, OpOpen) => if e1 <? wait then OpenGot e1 else OpenNotify wait 5 1
  | Some (e1, _) => if e1 <? wait then OpenNotify e1 5 1 else OpenNotify wait 5 1
  | None => if wait <=? total e l then OpenNotify wait 5 1 else OpenPending (total e l)
  end.
Proof.
  induction l as [|[d j] r IH]; intros wait e Nn Lt; cbn [read_open_wait first_msg total].
  - destruct (Z.leb_spec wait e); [lia|reflexivity].
  - inversion Nn as [|? ? Hd Hr]; subst. cbn [fst] in Hd.
    destruct (Z.leb_spec wait (e + d)) as [L|L].
    + (* the wait elapses at or before this event *)
      change openwait_code with 5. change openwait_subcode with 1.
      destruct j.
      * destruct (first_msg (e + d) r) as [[e1 i]|] eqn:F.
        -- pose proof (first_msg_time r _ _ _ Hr F).
           destruct i; destruct (Z.ltb_spec e1 wait); try lia; reflexivity.
        -- pose proof (total_ge r (e + d) Hr). destruct (Z.leb_spec wait (total (e + d) r)); [reflexivity|lia].
      * destruct (Z.ltb_spec (e + d) wait); [lia|reflexivity].
      * destruct (Z.ltb_spec (e + d) wait); [lia|reflexivity].
    + destruct j.
      * apply IH; assumption.
      * destruct (Z.ltb_spec (e + d) wait); [reflexivity|lia].
      * change read_open_not_open_code with 5. change read_open_not_open_subcode with 1.
        destruct (Z.ltb_spec (e + d) wait); [reflexivity|lia].
Qed.

Lemma open_wait : forall l wait,
  0 < wait -> Forall (fun p => 0 <= fst p) l -> read_open_wait wait 0 l = open_expected wait l.
Proof. intros l wait W Nn. unfold open_expected. apply open_wait_gen; assumption. Qed.

(* ------------------------------------------------------------------ integer clock vs finer clock *)

(* tau, tau0 : readings of a clock with u ticks per second; int(time.time()) = tau / u *)
Lemma int_clock_not_early : forall u tau0 tau H,
  0 < u -> tau / u - tau0 / u > H -> tau - tau0 > H * u.
Proof.
  intros u tau0 tau H Hu G.
  pose proof (Z.div_mod tau u ltac:(lia)). pose proof (Z.mod_pos_bound tau u Hu).
  pose proof (Z.div_mod tau0 u ltac:(lia)). pose proof (Z.mod_pos_bound tau0 u Hu).
  nia.
Qed.

Lemma int_clock_fires : forall u tau0 tau H,
  0 < u -> tau - tau0 >= (H + 1) * u -> tau / u - tau0 / u > H.
Proof.
  intros u tau0 tau H Hu G.
  pose proof (Z.div_mod tau u ltac:(lia)). pose proof (Z.mod_pos_bound tau u Hu).
  pose proof (Z.div_mod tau0 u ltac:(lia)). pose proof (Z.mod_pos_bound tau0 u Hu).
  nia.
Qed.

Lemma int_clock_gap : forall u tau0 tau B,
  0 < u -> tau / u - tau0 / u <= B -> tau - tau0 < (B + 1) * u.
Proof.
  intros u tau0 tau B Hu G.
  pose proof (Z.div_mod tau u ltac:(lia)). pose proof (Z.mod_pos_bound tau u Hu).
  pose proof (Z.div_mod tau0 u ltac:(lia)). pose proof (Z.mod_pos_bound tau0 u Hu).
  nia.
Qed.

(* ------------------------------------------------------------------ statements in the property's domain *)

Lemma paced_gap : forall l delta prev, paced delta prev l -> Forall (fun x => dt x + dk x <= delta) l.
Proof.
  induction l as [|x r IH]; intros delta prev P; [constructor|].
  cbn [paced] in P. destruct P as (_ & G & P). constructor; [exact G|eapply IH; exact P].
Qed.

Lemma keepalive_interval_dom : forall H delta prev s sched,
  3 <= H <= 65535 -> r_holdtime (rt s) = H -> s_keepalive (stt s) = holdtime_keepalive H ->
  0 <= clock s - s_last_sent (stt s) < H / 3 ->
  Forall wf_step sched -> paced delta prev sched ->
  chain (ka_gap (H / 3) delta) (s_last_sent (stt s)) (ka_times (run_main s sched)) /\
  (forall s', exec s sched = Some s' -> 0 <= clock s' - s_last_sent (stt s') < H / 3).
Proof.
  intros H delta prev s sched HH Hh Hk Fresh Wf Pc.
  apply keepalive_interval; auto.
  - rewrite <- keepalive_is_div3. apply keepalive_pos. lia.
  - lia.
  - eapply paced_gap; eassumption.
Qed.

Lemma zero_all : forall s sched,
  r_holdtime (rt s) = 0 -> s_keepalive (stt s) = 0 -> r_single (rt s) = false ->
  (* no periodic KEEPALIVE, no hold-timer NOTIFICATION: only 2/6 can end the loop *)
  Forall quiet_or_26 (run_main s sched) /\
  (* it ends iff the peer sent two KEEPALIVEs *)
  ((exists s', exec s sched = Some s') <-> (count_ka sched <= 1)%nat) /\
  (* and it ends at the second one *)
  (forall pre x post, sched = pre ++ x :: post -> count_ka pre = 1%nat -> is_ka (inb x) = true ->
     run_main s sched = run_main s pre ++ [Notified (t_after (clock s) pre + dt x) 2 6]).
Proof.
  intros s sched Hh Hk Sg. split; [apply zero_obs; assumption|]. split.
  - split.
    + intros (s' & E). pose proof (zero_exec_some sched s s' Hh Hk E) as L. rewrite Sg in L. lia.
    + intros L. destruct (zero_prefix sched s Hh Hk) as (s' & E & _); [rewrite Sg; lia|]. eauto.
  - intros pre x post E Cnt Ka. subst sched.
    exact (proj1 (zero_second_keepalive pre x post s Hh Hk Sg Cnt Ka)).
Qed.
