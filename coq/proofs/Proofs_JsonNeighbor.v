(* C13 - lemmas about JSON._neighbor of Model_JsonEvent (raw strings, padded members, the neighbor object). *)

From Coq Require Import ZArith List Bool Lia.
From ExaV Require Import model.Model_Json proofs.Proofs_Json.
From ExaV Require Import model.Model_JsonEvent proofs.Proofs_JsonEvent.
Import ListNotations.
Open Scope Z_scope.

(* ------------------------------------------------------------------ raw strings between quotes, padded members *)

Lemma run_safe_str : forall s k stk r, safe_key s = true ->
  run (stk, MStr k) (s ++ r) = run (stk, MStr k) r.
Proof.
  induction s as [|c s IH]; intros k stk r H.
  - reflexivity.
  - unfold safe_key in H. cbn [forallb] in H. apply andb_true_iff in H. destruct H as [Hc Hk].
    apply andb_true_iff in Hc. destruct Hc as [Hc H92].
    apply andb_true_iff in Hc. destruct Hc as [Hp H34].
    unfold printable_ascii in Hp. apply andb_true_iff in Hp. destruct Hp as [P1 P2].
    apply Z.leb_le in P1. apply negb_true_iff in H34. apply negb_true_iff in H92.
    apply Z.eqb_neq in H34. apply Z.eqb_neq in H92.
    cbn [app]. rewrite (run_cons_some (stk, MStr k) c (stk, MStr k)) by (apply step_str_plain; assumption).
    apply IH. exact Hk.
Qed.

Lemma quoted_ok : forall s, safe_key s = true -> frag_ok (quoted s).
Proof.
  intros s H. split.
  - unfold wf_json, quoted. cbn [app].
    rewrite (run_cons_some ([], MVal) 34 ([], MStr false)) by reflexivity.
    rewrite run_safe_str by exact H. reflexivity.
  - unfold quoted. rewrite !single_line_app, (safe_key_single_line s H). reflexivity.
Qed.

Lemma json_string_ok : forall s, frag_ok (json_string s).
Proof. intros s. destruct (escaped_string_full s) as [A [B _]]. split; assumption. Qed.

Lemma json_int_plain : forall n, Forall plain (json_int n).
Proof.
  intros n. unfold json_int.
  assert (Hd : forall ds, Forall digit ds -> Forall plain ds).
  { intros ds H. eapply Forall_impl; [| exact H]. intros a Ha. unfold digit in Ha. unfold plain. lia. }
  destruct (n <? 0) eqn:E.
  - apply Z.ltb_lt in E. destruct (dec_nat_shape (- n) ltac:(lia)) as [d [ds [Heq [Hdd Hds]]]].
    rewrite Heq. constructor; [unfold plain; lia |]. constructor; [unfold plain; lia | apply Hd; exact Hds].
  - apply Z.ltb_ge in E. destruct (Z.eq_dec n 0) as [-> | Hn].
    + repeat constructor; unfold plain; lia.
    + destruct (dec_nat_shape n ltac:(lia)) as [d [ds [Heq [Hdd Hds]]]].
      rewrite Heq. constructor; [unfold plain; lia | apply Hd; exact Hds].
Qed.

Lemma json_int_ok : forall n, frag_ok (json_int n).
Proof. intros n. split; [apply json_int_wf | apply plain_single_line, json_int_plain]. Qed.

Lemma member_nonempty : forall m, wf_member m = true -> m <> [].
Proof. intros m H E. subst m. discriminate H. Qed.

Lemma member_pad_r : forall m, member_ok m -> member_ok (m ++ [32]).
Proof.
  intros m [Hw Hs]. split.
  - destruct (wf_member_run m Hw) as [q [Hq Hr]]. unfold wf_member.
    rewrite (run_app_some _ _ _ _ (Hr [])).
    rewrite (run_cons_some ([true], q) 32 ([true], MAfter))
      by (rewrite step_after by (auto; unfold delim; auto); reflexivity).
    reflexivity.
  - rewrite single_line_app, Hs. reflexivity.
Qed.

Lemma upto_quote_app : forall s t k, upto_quote s = Some k -> upto_quote (s ++ t) = Some k.
Proof.
  induction s as [|c s IH]; intros t k H; [discriminate |].
  cbn [app upto_quote] in *. destruct (c =? 34); [exact H |].
  destruct (upto_quote s) as [k'|] eqn:E; [| discriminate].
  rewrite (IH t k' eq_refl). exact H.
Qed.

Lemma member_key_app : forall m t k, member_key m = Some k -> member_key (m ++ t) = Some k.
Proof.
  intros m t k H. destruct m as [|c m]; [discriminate |].
  cbn [app]. unfold member_key in *.
  destruct c; try discriminate. repeat (destruct p; try discriminate).
  apply upto_quote_app. exact H.
Qed.

(* `"key" : value` (white space before the colon, as _header writes host, pid and ppid) *)
Definition kv_pair_sp (k v : list Z) : list Z := quoted k ++ [32; 58; 32] ++ v.

Lemma kv_pair_sp_ok : forall k v, safe_key k = true -> frag_ok v -> member_ok (kv_pair_sp k v).
Proof.
  intros k v Hk [Hv Hs]. split.
  - destruct (wf_json_run v Hv) as [q [Hq Hrun]].
    unfold wf_member, kv_pair_sp, quoted. rewrite <- !app_assoc. cbn [app].
    rewrite (run_cons_some ([true], MKey) 34 ([true], MStr true)) by reflexivity.
    rewrite run_safe_str by assumption. cbn [app].
    rewrite (run_cons_some ([true], MStr true) 34 ([true], MColon)) by reflexivity.
    rewrite (run_cons_some ([true], MColon) 32 ([true], MColon)) by reflexivity.
    rewrite (run_cons_some ([true], MColon) 58 ([true], MVal)) by reflexivity.
    rewrite (run_cons_some ([true], MVal) 32 ([true], MVal)) by reflexivity.
    rewrite Hrun. exact Hq.
  - unfold kv_pair_sp, quoted. rewrite !single_line_app, (safe_key_single_line k Hk), Hs. reflexivity.
Qed.

Lemma member_key_kv_pair_sp : forall k v, safe_key k = true -> member_key (kv_pair_sp k v) = Some k.
Proof.
  intros k v H. unfold kv_pair_sp, quoted, member_key. rewrite <- !app_assoc. cbn [app].
  apply upto_quote_safe. exact H.
Qed.

(* ------------------------------------------------------------------ JSON._neighbor *)

Definition addr_member (p : peer) : list Z :=
  kv_pair k_address (obj_of_members [kv_pair k_local (quoted (p_local p)); kv_pair k_peer (quoted (p_peer p))]).
Definition asn_member (p : peer) : list Z :=
  kv_pair k_asn (obj_of_members [kv_pair k_local (json_int (p_las p)); kv_pair k_peer (json_int (p_pas p))]).
Definition rid_member (r : list Z) : list Z := kv_pair k_router_id (quoted r).
Definition dir_member (d : list Z) : list Z := kv_pair k_direction (quoted d).

(* the members of the neighbor object; the odd white space the code leaves before some commas and before the
   closing brace is attached to the member it follows *)
Definition neighbor_members (p : peer) (direction : option (list Z)) (cms : list (list Z)) : list (list Z) :=
  match p_rid p, direction, cms with
  | Some r, Some d, [] => [addr_member p; asn_member p; rid_member r ++ [32]; dir_member d ++ [32]]
  | Some r, Some d, _ => [addr_member p; asn_member p; rid_member r ++ [32]; dir_member d] ++ cms
  | Some r, None, [] => [addr_member p; asn_member p; (rid_member r ++ [32]) ++ [32]]
  | Some r, None, _ => [addr_member p; asn_member p; rid_member r ++ [32]] ++ cms
  | None, Some d, [] => [addr_member p; asn_member p ++ [32]; dir_member d ++ [32]]
  | None, Some d, _ => [addr_member p; asn_member p ++ [32]; dir_member d] ++ cms
  | None, None, [] => [addr_member p; (asn_member p ++ [32]) ++ [32]]
  | None, None, _ => [addr_member p; asn_member p ++ [32]] ++ cms
  end.

Definition neighbor_keys (p : peer) (direction : option (list Z)) : list (list Z) :=
  [k_address; k_asn] ++ match p_rid p with Some _ => [k_router_id] | None => [] end
  ++ match direction with Some _ => [k_direction] | None => [] end.

Ltac shape_tac :=
  unfold neighbor_member, neighbor_members, addr_member, asn_member, rid_member, dir_member,
         kv_pair, quoted, obj_of_members, members_join;
  cbn [is_nil join app]; repeat (rewrite <- app_assoc; cbn [app]); reflexivity.

Lemma neighbor_shape : forall p direction cms, Forall member_ok cms ->
  neighbor_member p direction (members_join cms) = kv_pair k_neighbor (obj_of_members (neighbor_members p direction cms)).
Proof.
  intros p direction cms H.
  destruct cms as [|c0 cr].
  - destruct direction as [d|]; unfold neighbor_member, neighbor_members; destruct (p_rid p) as [r|]; shape_tac.
  - inversion H as [|? ? [Hc0 _] _]; subst.
    destruct c0 as [|z c0]; [discriminate Hc0 |].
    destruct cr as [|c1 cr];
      destruct direction as [d|]; unfold neighbor_member, neighbor_members; destruct (p_rid p) as [r|]; shape_tac.
Qed.

Definition peer_ok (p : peer) : Prop :=
  safe_key (p_local p) = true /\ safe_key (p_peer p) = true
  /\ match p_rid p with Some r => safe_key r = true | None => True end.

Definition opt_safe (o : option (list Z)) : Prop := match o with Some s => safe_key s = true | None => True end.

Lemma addr_member_ok : forall p, peer_ok p -> member_ok (addr_member p).
Proof.
  intros p [A [B _]]. apply kv_member_ok; [reflexivity |]. apply obj_ok.
  constructor; [apply kv_member_ok; [reflexivity | apply quoted_ok; exact A] |].
  constructor; [apply kv_member_ok; [reflexivity | apply quoted_ok; exact B] | constructor].
Qed.

Lemma asn_member_ok : forall p, member_ok (asn_member p).
Proof.
  intros p. apply kv_member_ok; [reflexivity |]. apply obj_ok.
  constructor; [apply kv_member_ok; [reflexivity | apply json_int_ok] |].
  constructor; [apply kv_member_ok; [reflexivity | apply json_int_ok] | constructor].
Qed.

Lemma neighbor_members_ok : forall p direction cms,
  peer_ok p -> opt_safe direction -> Forall member_ok cms ->
  Forall member_ok (neighbor_members p direction cms)
  /\ map member_key (neighbor_members p direction cms) = map Some (neighbor_keys p direction) ++ map member_key cms.
Proof.
  intros p direction cms Hp Hd Hc.
  pose proof (addr_member_ok p Hp) as HA. pose proof (asn_member_ok p) as HB.
  assert (KA : member_key (addr_member p) = Some k_address) by (apply member_key_kv_pair; reflexivity).
  assert (KB : member_key (asn_member p) = Some k_asn) by (apply member_key_kv_pair; reflexivity).
  destruct Hp as [_ [_ Hr]].
  unfold neighbor_members, neighbor_keys.
  destruct (p_rid p) as [r|]; destruct direction as [d|]; cbn [opt_safe] in Hd;
    try (assert (HR : member_ok (rid_member r)) by (apply kv_member_ok; [reflexivity | apply quoted_ok; exact Hr]);
         assert (KR : member_key (rid_member r) = Some k_router_id) by (apply member_key_kv_pair; reflexivity));
    try (assert (HD : member_ok (dir_member d)) by (apply kv_member_ok; [reflexivity | apply quoted_ok; exact Hd]);
         assert (KD : member_key (dir_member d) = Some k_direction) by (apply member_key_kv_pair; reflexivity));
    destruct cms as [|c0 cr]; cbn [app map];
    rewrite ?(member_key_app _ _ _ KA), ?(member_key_app _ _ _ KB);
    try rewrite ?(member_key_app _ _ _ (member_key_app _ [32] _ KR));
    try rewrite ?(member_key_app _ _ _ (member_key_app _ [32] _ KB));
    try rewrite ?(member_key_app _ _ _ KR); try rewrite ?(member_key_app _ _ _ KD);
    rewrite ?KA, ?KB; try rewrite ?KR; try rewrite ?KD;
    (split; [repeat (first [apply member_pad_r | assumption | constructor]) | reflexivity]).
Qed.

