(* C14 - lemmas about Model_Api (reassembly, FIFO queue, execution, selectors). *)
From Coq Require Import ZArith Bool List Lia Arith.
From ExaV Require Import gen.Gen_Limit model.Model_Api spec.Spec_Api.
Import ListNotations.
Open Scope Z_scope.

(* ------------------------------------------------------------------ splitting *)

Lemma lines_from_app : forall a cur b,
  lines_from cur (a ++ b) = lines_from cur a ++ lines_from (tail_from cur a) b.
Proof.
  induction a as [|c a IH]; intros cur b; cbn [app lines_from tail_from].
  - reflexivity.
  - destruct (c =? NL).
    + rewrite IH. reflexivity.
    + apply IH.
Qed.

Lemma tail_from_app : forall a cur b,
  tail_from cur (a ++ b) = tail_from (tail_from cur a) b.
Proof.
  induction a as [|c a IH]; intros cur b; cbn [app tail_from].
  - reflexivity.
  - destruct (c =? NL); apply IH.
Qed.

Lemma has_nl_app : forall a b, has_nl (a ++ b) = has_nl a || has_nl b.
Proof. intros a b. unfold has_nl. apply existsb_app. Qed.

Lemma no_nl_from : forall b cur, has_nl b = false ->
  lines_from cur b = [] /\ tail_from cur b = cur ++ b.
Proof.
  induction b as [|c b IH]; intros cur H.
  - cbn. split; [reflexivity | now rewrite app_nil_r].
  - cbn [has_nl existsb] in H. apply orb_false_iff in H. destruct H as [Hc Hb].
    cbn [lines_from tail_from]. rewrite Hc.
    destruct (IH (cur ++ [c]) Hb) as [H1 H2]. split; [exact H1|].
    rewrite H2. rewrite <- app_assoc. reflexivity.
Qed.

Lemma has_nl_tail : forall s cur, has_nl cur = false -> has_nl (tail_from cur s) = false.
Proof.
  induction s as [|c s IH]; intros cur H; cbn [tail_from].
  - exact H.
  - destruct (c =? NL) eqn:E.
    + apply IH. reflexivity.
    + apply IH. rewrite has_nl_app, H. cbn. rewrite E. reflexivity.
Qed.

Lemma from_nil : forall buf s, has_nl buf = false ->
  lines_from [] (buf ++ s) = lines_from buf s /\ tail_from [] (buf ++ s) = tail_from buf s.
Proof.
  intros buf s H. rewrite lines_from_app, tail_from_app.
  destruct (no_nl_from buf [] H) as [H1 H2]. rewrite H1, H2. cbn. split; reflexivity.
Qed.

(* the model's split is Python's split *)
Lemma from_pieces : forall s cur,
  lines_from cur s = removelast ((cur ++ fst (pieces s)) :: snd (pieces s)) /\
  tail_from cur s = last ((cur ++ fst (pieces s)) :: snd (pieces s)) [].
Proof.
  induction s as [|c s IH]; intros cur.
  - cbn. rewrite app_nil_r. split; reflexivity.
  - cbn [lines_from tail_from pieces]. destruct (pieces s) as [p ps] eqn:E.
    destruct (c =? 10) eqn:C; unfold NL; rewrite C; cbn [fst snd].
    + destruct (IH []) as [H1 H2]. cbn [fst snd app] in H1, H2. rewrite H1, H2.
      rewrite app_nil_r. split; reflexivity.
    + destruct (IH (cur ++ [c])) as [H1 H2]. cbn [fst snd] in H1, H2. rewrite H1, H2.
      rewrite <- app_assoc. split; reflexivity.
Qed.

Lemma lines_from_spec : forall s, lines_from [] s = complete_lines s.
Proof. intros s. destruct (from_pieces s []) as [H _]. exact H. Qed.

Lemma tail_from_spec : forall s, tail_from [] s = pending_tail s.
Proof. intros s. destruct (from_pieces s []) as [_ H]. exact H. Qed.

(* ------------------------------------------------------------------ the size rule *)

Fixpoint within (max : Z) (cur : nat) (s : list Z) : Prop :=
  match s with
  | [] => Z.of_nat cur <= max
  | c :: r => if c =? NL then Z.of_nat cur <= max /\ within max 0 r else within max (S cur) r
  end.

Lemma within_le : forall max s n, within max n s -> Z.of_nat n <= max.
Proof.
  induction s as [|c s IH]; intros n H; cbn [within] in H.
  - exact H.
  - destruct (c =? NL).
    + apply H.
    + apply IH in H. lia.
Qed.

Lemma within_chunk : forall max c n rest, has_nl c = false ->
  within max n (c ++ rest) -> Z.of_nat (n + length c) <= max.
Proof.
  induction c as [|x c IH]; intros n rest Hn H.
  - cbn in *. apply within_le in H. rewrite Nat.add_0_r. exact H.
  - cbn [has_nl existsb] in Hn. apply orb_false_iff in Hn. destruct Hn as [Hx Hc].
    cbn [app within] in H. rewrite Hx in H. apply IH in H; [|exact Hc].
    cbn [length]. lia.
Qed.

Lemma within_step : forall max c buf rest,
  within max (length buf) (c ++ rest) -> within max (length (tail_from buf c)) rest.
Proof.
  induction c as [|x c IH]; intros buf rest H; cbn [app tail_from] in *.
  - exact H.
  - cbn [within] in H. destruct (x =? NL).
    + destruct H as [_ H]. apply (IH [] rest H).
    + apply IH. rewrite app_length. cbn [length]. rewrite Nat.add_1_r. exact H.
Qed.

Lemma within_pieces : forall max s n,
  within max n s <->
  (Z.of_nat (n + length (fst (pieces s))) <= max /\
   Forall (fun l => Z.of_nat (length l) <= max) (snd (pieces s))).
Proof.
  induction s as [|c s IH]; intros n.
  - cbn. rewrite Nat.add_0_r. split; [intros H; split; [exact H | constructor] | intros [H _]; exact H].
  - cbn [within pieces]. destruct (pieces s) as [p ps] eqn:E. unfold NL.
    destruct (c =? 10); cbn [fst snd length].
    + rewrite (IH 0%nat). cbn [fst snd]. rewrite Nat.add_0_r. cbn [Nat.add].
      split.
      * intros [H1 [H2 H3]]. split; [exact H1 | constructor; assumption].
      * intros [H1 H2]. inversion H2; subst. repeat split; assumption.
    + rewrite (IH (S n)). cbn [fst snd].
      replace (S n + length p)%nat with (n + S (length p))%nat by lia. reflexivity.
Qed.

Lemma lines_within_within : forall max s, lines_within max s <-> within max 0 s.
Proof.
  intros max s. unfold lines_within, py_split. rewrite within_pieces. cbn [Nat.add].
  split.
  - intros H. inversion H; subst. split; assumption.
  - intros [H1 H2]. constructor; assumption.
Qed.

Lemma ascii_non_ascii : forall s, ascii s -> non_ascii s = false.
Proof.
  induction s as [|c s IH]; intros H.
  - reflexivity.
  - inversion H; subst. cbn [non_ascii existsb]. fold (non_ascii s). rewrite (IH H3).
    destruct (c <? 0) eqn:A; [apply Z.ltb_lt in A; lia|].
    destruct (128 <=? c) eqn:B; [apply Z.leb_le in B; lia|]. reflexivity.
Qed.

Lemma non_ascii_app : forall a b, non_ascii (a ++ b) = non_ascii a || non_ascii b.
Proof. intros. unfold non_ascii. apply existsb_app. Qed.

(* ------------------------------------------------------------------ chunking independence *)

Lemma feed_ok : forall max chunks buf,
  has_nl buf = false ->
  non_ascii (concat chunks) = false ->
  within max (length buf) (concat chunks) ->
  feed max (Alive buf) chunks =
    (Alive (tail_from buf (concat chunks)), lines_from buf (concat chunks)).
Proof.
  induction chunks as [|c r IH]; intros buf Hb Ha Hw.
  - reflexivity.
  - cbn [concat] in *. rewrite non_ascii_app in Ha. apply orb_false_iff in Ha. destruct Ha as [Hac Har].
    cbn [feed reassemble]. rewrite Hac.
    assert (Hov : negb (has_nl (buf ++ c)) && (max <? Z.of_nat (length (buf ++ c))) = false).
    { destruct (has_nl (buf ++ c)) eqn:Hn; [reflexivity|]. cbn [negb andb].
      rewrite has_nl_app in Hn. apply orb_false_iff in Hn. destruct Hn as [_ Hn].
      apply (within_chunk max c (length buf) (concat r) Hn) in Hw.
      rewrite app_length. apply Z.ltb_ge. exact Hw. }
    rewrite Hov. destruct (from_nil buf c Hb) as [H1 H2]. rewrite H1, H2.
    rewrite (IH (tail_from buf c)).
    + rewrite lines_from_app, tail_from_app. reflexivity.
    + apply has_nl_tail. exact Hb.
    + exact Har.
    + apply within_step. exact Hw.
Qed.

Theorem chunking_independent : forall max chunks,
  ascii (concat chunks) -> lines_within max (concat chunks) ->
  feed max (Alive []) chunks =
    (Alive (pending_tail (concat chunks)), complete_lines (concat chunks)).
Proof.
  intros max chunks Ha Hw.
  rewrite (feed_ok max chunks []); [| reflexivity | apply ascii_non_ascii; exact Ha
                                    | apply lines_within_within; exact Hw].
  rewrite lines_from_spec, tail_from_spec. reflexivity.
Qed.

Corollary chunking_same : forall max chunks1 chunks2,
  concat chunks1 = concat chunks2 ->
  ascii (concat chunks1) -> lines_within max (concat chunks1) ->
  feed max (Alive []) chunks1 = feed max (Alive []) chunks2.
Proof.
  intros max c1 c2 E Ha Hw.
  rewrite (chunking_independent max c1 Ha Hw).
  rewrite E in Ha, Hw. rewrite (chunking_independent max c2 Ha Hw). rewrite E. reflexivity.
Qed.

(* the size rule is really needed: one character over the limit, two deliveries, two results *)
Lemma oversize_depends_on_chunking :
  feed 3 (Alive []) [[97; 97; 97; 97; 10]] <> feed 3 (Alive []) [[97; 97; 97; 97]; [10]].
Proof. vm_compute. discriminate. Qed.

(* ------------------------------------------------------------------ FIFO queue *)

Lemma run_fifo : forall max evs st,
  snd (run max st evs) ++ queue (fst (run max st evs)) = queue st ++ arrivals max (bufs st) evs.
Proof.
  induction evs as [|e r IH]; intros st.
  - cbn. now rewrite app_nil_r.
  - cbn [run arrivals]. destruct e as [s c|].
    + cbn [step]. destruct (reassemble max (bufs st s) c) as [b ls] eqn:E.
      specialize (IH (mkSys (upd (bufs st) s b) (queue st ++ tag s (commands ls)))).
      destruct (run max (mkSys (upd (bufs st) s b) (queue st ++ tag s (commands ls))) r) as [st2 x2] eqn:R.
      cbn [fst snd bufs queue app] in *. rewrite IH. rewrite <- app_assoc. reflexivity.
    + cbn [step]. destruct (queue st) as [|x q] eqn:Q.
      * specialize (IH st). destruct (run max st r) as [st2 x2] eqn:R.
        cbn [fst snd app] in *. rewrite IH, Q. reflexivity.
      * specialize (IH (mkSys (bufs st) q)). destruct (run max (mkSys (bufs st) q) r) as [st2 x2] eqn:R.
        cbn [fst snd bufs queue app] in *. rewrite IH. reflexivity.
Qed.

Lemma of_svc_app : forall s a b, of_svc s (a ++ b) = of_svc s a ++ of_svc s b.
Proof. intros. unfold of_svc. apply filter_app. Qed.

Lemma of_svc_tag_same : forall s l, of_svc s (tag s l) = tag s l.
Proof.
  intros s l. unfold of_svc, tag. induction l as [|x l IH]; cbn [map filter fst].
  - reflexivity.
  - rewrite Z.eqb_refl. rewrite IH. reflexivity.
Qed.

Lemma of_svc_tag_other : forall s s' l, (s' =? s) = false -> of_svc s (tag s' l) = [].
Proof.
  intros s s' l H. unfold of_svc, tag. induction l as [|x l IH]; cbn [map filter fst].
  - reflexivity.
  - rewrite H. exact IH.
Qed.

Lemma commands_app : forall a b, commands (a ++ b) = commands a ++ commands b.
Proof. intros. unfold commands. apply flat_map_app. Qed.

Lemma tag_app : forall s a b, tag s (a ++ b) = tag s a ++ tag s b.
Proof. intros. unfold tag. apply map_app. Qed.

Lemma arrivals_svc : forall max evs b s,
  of_svc s (arrivals max b evs) = tag s (commands (snd (feed max (b s) (chunks_of s evs)))).
Proof.
  induction evs as [|e r IH]; intros b s.
  - reflexivity.
  - destruct e as [s' c|]; cbn [arrivals chunks_of flat_map].
    + destruct (reassemble max (b s') c) as [b1 ls] eqn:E. rewrite of_svc_app.
      destruct (s' =? s) eqn:S.
      * apply Z.eqb_eq in S. subst s'. rewrite of_svc_tag_same. cbn [app feed]. rewrite E.
        fold (chunks_of s r). rewrite (IH (upd b s b1) s). unfold upd at 1. rewrite Z.eqb_refl.
        destruct (feed max b1 (chunks_of s r)) as [st2 l2]. cbn [snd].
        rewrite commands_app, tag_app. reflexivity.
      * rewrite (of_svc_tag_other s s' _ S). cbn [app]. fold (chunks_of s r).
        rewrite (IH (upd b s' b1) s). unfold upd at 1.
        rewrite Z.eqb_sym in S. rewrite S. reflexivity.
    + fold (chunks_of s r). apply IH.
Qed.

(* commands reach API.process in line order, per process, whatever the read and pop schedule *)
Theorem order_fifo : forall max evs s,
  ascii (concat (chunks_of s evs)) -> lines_within max (concat (chunks_of s evs)) ->
  of_svc s (snd (run max init_sys evs) ++ queue (fst (run max init_sys evs)))
  = tag s (commands (complete_lines (concat (chunks_of s evs)))).
Proof.
  intros max evs s Ha Hw. rewrite run_fifo. cbn [queue bufs init_sys app].
  rewrite arrivals_svc. rewrite (chunking_independent max _ Ha Hw). reflexivity.
Qed.

(* what has been executed so far is a prefix of what arrived *)
Theorem executed_prefix : forall max evs,
  arrivals max (fun _ => Alive []) evs
  = snd (run max init_sys evs) ++ queue (fst (run max init_sys evs)).
Proof. intros. rewrite run_fifo. reflexivity. Qed.

(* ------------------------------------------------------------------ execution *)

Lemma no_effect_on_error : forall st o, is_error_class o = true -> fst (exec st o) = st.
Proof. intros st o H. destruct o; try discriminate; reflexivity. Qed.

Lemma at_most_one_reply : forall st o, (length (snd (exec st o)) <= 1)%nat.
Proof.
  intros st o. destruct o as [ | | | sel ops | a]; [ | | | | destruct a];
    cbn [exec snd]; unfold answer; destruct (x_ack st); cbn [length]; lia.
Qed.

Lemma one_reply : forall st o, x_ack st = true -> o <> Session AckSilence ->
  snd (exec st o) = [terminal o].
Proof.
  intros st o H Hs. destruct o as [ | | | sel ops | a]; cbn; unfold answer; rewrite ?H; try reflexivity.
  destruct a; try reflexivity. congruence.
Qed.

Lemma ack_kept : forall st o, is_session o = false -> x_ack (fst (exec st o)) = x_ack st.
Proof. intros st o H. destruct o; try discriminate; reflexivity. Qed.

Lemma one_ack_each : forall os st, x_ack st = true ->
  (forall o, In o os -> is_session o = false) ->
  snd (exec_all st os) = map (fun o => [terminal o]) os /\ x_ack (fst (exec_all st os)) = true.
Proof.
  induction os as [|o r IH]; intros st Ha Hs.
  - split; [reflexivity | exact Ha].
  - cbn [exec_all map].
    assert (Ho : is_session o = false) by (apply Hs; left; reflexivity).
    pose proof (one_reply st o Ha) as H1. pose proof (ack_kept st o Ho) as H2.
    destruct (exec st o) as [st1 a] eqn:E. cbn [fst snd] in H1, H2.
    destruct (IH st1) as [I1 I2]; [congruence | intros o' Hin; apply Hs; right; exact Hin |].
    destruct (exec_all st1 r) as [st2 l] eqn:E2. cbn [fst snd] in *.
    split; [| exact I2]. rewrite H1, I1; [reflexivity|]. intro X. rewrite X in Ho. discriminate.
Qed.

Lemma rib_of_apply_sel : forall sel ops r n,
  rib_of (apply_sel sel ops r) n =
  if memz n sel then option_map (apply_ops ops) (rib_of r n) else rib_of r n.
Proof.
  intros sel ops r n. unfold rib_of, apply_sel.
  induction r as [|[m c] r IH]; cbn [map filter fst snd].
  - destruct (memz n sel); reflexivity.
  - destruct (memz m sel) eqn:M; cbn [fst snd].
    + destruct (m =? n) eqn:E.
      * apply Z.eqb_eq in E. subst m. rewrite M. reflexivity.
      * exact IH.
    + destruct (m =? n) eqn:E.
      * apply Z.eqb_eq in E. subst m. rewrite M. reflexivity.
      * exact IH.
Qed.

(* a table changes only for a member of the selected set *)
Lemma changed_selected : forall st o n,
  rib_of (x_ribs (fst (exec st o))) n <> rib_of (x_ribs st) n ->
  exists sel ops, o = Ok sel ops /\ memz n sel = true.
Proof.
  intros st o n H. destruct o as [ | | | sel ops | a]; cbn in H; try (exfalso; apply H; reflexivity).
  - exists sel, ops. split; [reflexivity|]. rewrite rib_of_apply_sel in H.
    destruct (memz n sel); [reflexivity | exfalso; apply H; reflexivity].
  - destruct a; exfalso; apply H; reflexivity.
Qed.

Lemma memz_in : forall x l, memz x l = true <-> In x l.
Proof.
  intros x l. unfold memz. rewrite existsb_exists. split.
  - intros [y [Hy E]]. apply Z.eqb_eq in E. subst. exact Hy.
  - intros H. exists x. split; [exact H | apply Z.eqb_refl].
Qed.

Lemma select_sound : forall sel ns n, memz n (select sel ns) = true ->
  exists nb, In nb ns /\ n_id nb = n /\ sel_match sel nb = true.
Proof.
  intros sel ns n H. apply memz_in in H. unfold select in H. apply in_map_iff in H.
  destruct H as [nb [E Hin]]. apply filter_In in Hin. destruct Hin as [Hin Hm].
  exists nb. repeat split; assumption.
Qed.

Lemma sel_match_terms : forall sel nb, sel <> [] -> sel_match sel nb = true ->
  exists d, In d sel /\ forall t, In t d -> term_match nb t = true.
Proof.
  intros sel nb Hne H. destruct sel as [|d0 sel]; [congruence|]. cbn [sel_match] in H.
  apply existsb_exists in H. destruct H as [d [Hin Hd]]. exists d. split; [exact Hin|].
  unfold def_match in Hd. rewrite forallb_forall in Hd. exact Hd.
Qed.

(* a selector-carrying command, whatever its handler does with the peers it is given *)
Lemma dispatch_selector : forall ns sel ops st n,
  rib_of (x_ribs (fst (exec st (dispatch ns sel (fun peers => Ok peers ops))))) n <> rib_of (x_ribs st) n ->
  exists nb, In nb ns /\ n_id nb = n /\ sel_match sel nb = true.
Proof.
  intros ns sel ops st n H. apply changed_selected in H. destruct H as [s' [ops' [E M]]].
  unfold dispatch in E. destruct (select sel ns) as [|p ps] eqn:S; [discriminate|].
  inversion E; subst. rewrite <- S in M. apply select_sound in M. exact M.
Qed.

Lemma dispatch_no_match : forall ns sel handler, select sel ns = [] ->
  dispatch ns sel handler = NoMatchingPeers.
Proof. intros ns sel handler H. unfold dispatch. rewrite H. reflexivity. Qed.

(* the translated key table is the one the term kinds were written for *)
Lemma selector_keys_known :
  (* family-allowed, local-as, local-ip, peer-as, router-id *)
  SELECTOR_KEYS =
  [[102;97;109;105;108;121;45;97;108;108;111;119;101;100];
   [108;111;99;97;108;45;97;115];
   [108;111;99;97;108;45;105;112];
   [112;101;101;114;45;97;115];
   [114;111;117;116;101;114;45;105;100]].
Proof. vm_compute. reflexivity. Qed.
