(* C14 - lemmas about Model_Api (reassembly, FIFO queue, execution, selectors). *)
From Coq Require Import ZArith Bool List Lia Arith.
From ExaV Require Import gen.Gen_Limit model.Model_Api spec.Spec_Api.
Import ListNotations.
Open Scope Z_scope.

(* ------------------------------------------------------------------ splitting *)

Lemma lines_from_app : forall a cur b,
  lines_from cur (a ++ b) = lines_from cur a ++ lines_from (tail_from cur a) b.
Proof.
  induction a as [|c a IH]; intros cur b; cbn [app lines_from tail_from].
  - reflexivity.
  - destruct (c =? NL).
    + rewrite IH. reflexivity.
    + apply IH.
Qed.

Lemma tail_from_app : forall a cur b,
  tail_from cur (a ++ b) = tail_from (tail_from cur a) b.
Proof.
  induction a as [|c a IH]; intros cur b; cbn [app tail_from].
  - reflexivity.
  - destruct (c =? NL); apply IH.
Qed.

Lemma has_nl_app : forall a b, has_nl (a ++ b) = has_nl a || has_nl b.
Proof. intros a b. unfold has_nl. apply existsb_app. Qed.

Lemma no_nl_from : forall b cur, has_nl b = false ->
  lines_from cur b = [] /\ tail_from cur b = cur ++ b.
Proof.
  induction b as [|c b IH]; intros cur H.
  - cbn. split; [reflexivity | now rewrite app_nil_r].
  - cbn [has_nl existsb] in H. apply orb_false_iff in H. destruct H as [Hc Hb].
    cbn [lines_from tail_from]. rewrite Hc.
    destruct (IH (cur ++ [c]) Hb) as [H1 H2]. split; [exact H1|].
    rewrite H2. rewrite <- app_assoc. reflexivity.
Qed.

Lemma has_nl_tail : forall s cur, has_nl cur = false -> has_nl (tail_from cur s) = false.
Proof.
  induction s as [|c s IH]; intros cur H; cbn [tail_from].
  - exact H.
  - destruct (c =? NL) eqn:E.
    + apply IH. reflexivity.
    + apply IH. rewrite has_nl_app, H. cbn. rewrite E. reflexivity.
Qed.

Lemma from_nil : forall buf s, has_nl buf = false ->
  lines_from [] (buf ++ s) = lines_from buf s /\ tail_from [] (buf ++ s) = tail_from buf s.
Proof.
  intros buf s H. rewrite lines_from_app, tail_from_app.
  destruct (no_nl_from buf [] H) as [H1 H2]. rewrite H1, H2. cbn. split; reflexivity.
Qed.

(* the model's split is Python's split *)
Lemma from_pieces : forall s cur,
  lines_from cur s = removelast ((cur ++ fst (pieces s)) :: snd (pieces s)) /\
  tail_from cur s = last ((cur ++ fst (pieces s)) :: snd (pieces s)) [].
Proof.
  induction s as [|c s IH]; intros cur.
  - cbn. rewrite app_nil_r. split; reflexivity.
  - cbn [lines_from tail_from pieces]. destruct (pieces s) as [p ps] eqn:E.
    destruct (c =? 10) eqn:C; unfold NL; rewrite C; cbn [fst snd].
    + destruct (IH []) as [H1 H2]. cbn [fst snd app] in H1, H2. rewrite H1, H2.
      rewrite app_nil_r. split; reflexivity.
    + destruct (IH (cur ++ [c])) as [H1 H2]. cbn [fst snd] in H1, H2. rewrite H1, H2.
      rewrite <- app_assoc. split; reflexivity.
Qed.

Lemma lines_from_spec : forall s, lines_from [] s = complete_lines s.
Proof. intros s. destruct (from_pieces s []) as [H _]. exact H. Qed.

Lemma tail_from_spec : forall s, tail_from [] s = pending_tail s.
Proof. intros s. destruct (from_pieces s []) as [_ H]. exact H. Qed.

(* ------------------------------------------------------------------ the size rule *)

Fixpoint within (max : Z) (cur : nat) (s : list Z) : Prop :=
  match s with
  | [] => Z.of_nat cur <= max
  | c :: r => if c =? NL then Z.of_nat cur <= max /\ within max 0 r else within max (S cur) r
  end.

Lemma within_le : forall max s n, within max n s -> Z.of_nat n <= max.
Proof.
  induction s as [|c s IH]; intros n H; cbn [within] in H.
  - exact H.
  - destruct (c =? NL).
    + apply H.
    + apply IH in H. lia.
Qed.

Lemma within_chunk : forall max c n rest, has_nl c = false ->
  within max n (c ++ rest) -> Z.of_nat (n + length c) <= max.
Proof.
  induction c as [|x c IH]; intros n rest Hn H.
  - cbn in *. apply within_le in H. rewrite Nat.add_0_r. exact H.
  - cbn [has_nl existsb] in Hn. apply orb_false_iff in Hn. destruct Hn as [Hx Hc].
    cbn [app within] in H. rewrite Hx in H. apply IH in H; [|exact Hc].
    cbn [length]. lia.
Qed.

Lemma within_step : forall max c buf rest,
  within max (length buf) (c ++ rest) -> within max (length (tail_from buf c)) rest.
Proof.
  induction c as [|x c IH]; intros buf rest H; cbn [app tail_from] in *.
  - exact H.
  - cbn [within] in H. destruct (x =? NL).
    + destruct H as [_ H]. apply (IH [] rest H).
    + apply IH. rewrite app_length. cbn [length]. rewrite Nat.add_1_r. exact H.
Qed.

Lemma within_pieces : forall max s n,
  within max n s <->
  (Z.of_nat (n + length (fst (pieces s))) <= max /\
   Forall (fun l => Z.of_nat (length l) <= max) (snd (pieces s))).
Proof.
  induction s as [|c s IH]; intros n.
  - cbn. rewrite Nat.add_0_r. split; [intros H; split; [exact H | constructor] | intros [H _]; exact H].
  - cbn [within pieces]. destruct (pieces s) as [p ps] eqn:E. unfold NL.
    destruct (c =? 10); cbn [fst snd length].
    + rewrite (IH 0%nat). cbn [fst snd]. rewrite Nat.add_0_r. cbn [Nat.add].
      split.
      * intros [H1 [H2 H3]]. split; [exact H1 | constructor; assumption].
      * intros [H1 H2]. inversion H2; subst. repeat split; assumption.
    + rewrite (IH (S n)). cbn [fst snd].
      replace (S n + length p)%nat with (n + S (length p))%nat by lia. reflexivity.
Qed.

Lemma lines_within_within : forall max s, lines_within max s <-> within max 0 s.
Proof.
  intros max s. unfold lines_within, py_split. rewrite within_pieces. cbn [Nat.add].
  split.
  - intros H. inversion H; subst. split; assumption.
  - intros [H1 H2]. constructor; assumption.
Qed.

Lemma ascii_non_ascii : forall s, ascii s -> non_ascii s = false.
Proof.
  induction s as [|c s IH]; intros H.
  - reflexivity.
  - inversion H; subst. cbn [non_ascii existsb]. fold (non_ascii s). rewrite (IH H3).
    destruct (c <? 0) eqn:A; [apply Z.ltb_lt in A; lia|].
    destruct (128 <=? c) eqn:B; [apply Z.leb_le in B; lia|]. reflexivity.
Qed.

Lemma non_ascii_app : forall a b, non_ascii (a ++ b) = non_ascii a || non_ascii b.
Proof. intros. unfold non_ascii. apply existsb_app. Qed.

(* ------------------------------------------------------------------ chunking independence *)

Lemma feed_ok : forall max chunks buf,
  has_nl buf = false ->
  non_ascii (concat chunks) = false ->
  within max (length buf) (concat chunks) ->
  feed max (Alive buf) chunks =
    (Alive (tail_from buf (concat chunks)), lines_from buf (concat chunks)).
Proof.
  induction chunks as [|c r IH]; intros buf Hb Ha Hw.
  - reflexivity.
  - cbn [concat] in *. rewrite non_ascii_app in Ha. apply orb_false_iff in Ha. destruct Ha as [Hac Har].
    cbn [feed reassemble]. rewrite Hac.
    assert (Hov : negb (has_nl (buf ++ c)) && (max <? Z.of_nat (length (buf ++ c))) = false).
    { destruct (has_nl (buf ++ c)) eqn:Hn; [reflexivity|]. cbn [negb andb].
      rewrite has_nl_app in Hn. apply orb_false_iff in Hn. destruct Hn as [_ Hn].
      apply (within_chunk max c (length buf) (concat r) Hn) in Hw.
      rewrite app_length. apply Z.ltb_ge. exact Hw. }
    rewrite Hov. destruct (from_nil buf c Hb) as [H1 H2]. rewrite H1, H2.
    rewrite (IH (tail_from buf c)).
    + rewrite lines_from_app, tail_from_app. reflexivity.
    + apply has_nl_tail. exact Hb.
    + exact Har.
    + apply within_step. exact Hw.
Qed.

Theorem chunking_independent : forall max chunks,
  ascii (concat chunks) -> lines_within max (concat chunks) ->
  feed max (Alive []) chunks =
    (Alive (pending_tail (concat chunks)), complete_lines (concat chunks)).
Proof.
  intros max chunks Ha Hw.
  rewrite (feed_ok max chunks []); [| reflexivity | apply ascii_non_ascii; exact Ha
                                    | apply lines_within_within; exact Hw].
  rewrite lines_from_spec, tail_from_spec. reflexivity.
Qed.

Corollary chunking_same : forall max chunks1 chunks2,
  concat chunks1 = concat chunks2 ->
  ascii (concat chunks1) -> lines_within max (concat chunks1) ->
  feed max (Alive []) chunks1 = feed max (Alive []) chunks2.
Proof.
  intros max c1 c2 E Ha Hw.
  rewrite (chunking_independent max c1 Ha Hw).
  rewrite E in Ha, Hw. rewrite (chunking_independent max c2 Ha Hw). rewrite E. reflexivity.
Qed.

(* the size rule is really needed: one character over the limit, two deliveries, two results *)
Lemma oversize_depends_on_chunking :
  feed 3 (Alive []) [[97; 97; 97; 97; 10]] <> feed 3 (Alive []) [[97; 97; 97; 97]; [10]].
Proof. vm_compute. discriminate. Qed.

(* ------------------------------------------------------------------ FIFO queue *)

Lemma run_fifo : forall max evs st,
  snd (run max st evs) ++ queue (fst (run max st evs)) = queue st ++ arrivals max (bufs st) evs.
Proof.
  induction evs as [|e r IH]; intros st.
  - cbn. now rewrite app_nil_r.
  - cbn [run arrivals]. destruct e as [s c|].
    + cbn [step]. destruct (reassemble max (bufs st s) c) as [b ls] eqn:E.
      specialize (IH (mkSys (upd (bufs st) s b) (queue st ++ tag s (commands ls)))).
      destruct (run max (mkSys (upd (bufs st) s b) (queue st ++ tag s (commands ls))) r) as [st2 x2] eqn:R.
      cbn [fst snd bufs queue app] in *. rewrite IH. rewrite <- app_assoc. reflexivity.
    + cbn [step]. destruct (queue st) as [|x q] eqn:Q.
      * specialize (IH st). destruct (run max st r) as [st2 x2] eqn:R.
        cbn [fst snd app] in *. rewrite IH, Q. reflexivity.
      * specialize (IH (mkSys (bufs st) q)). destruct (run max (mkSys (bufs st) q) r) as [st2 x2] eqn:R.
        cbn [fst snd bufs queue app] in *. rewrite IH. reflexivity.
Qed.

Lemma of_svc_app : forall s a b, of_svc s (a ++ b) = of_svc s a ++ of_svc s b.
Proof. intros. unfold of_svc. apply filter_app. Qed.

Lemma of_svc_tag_same : forall s l, of_svc s (tag s l) = tag s l.
Proof.
  intros s l. unfold of_svc, tag. induction l as [|x l IH]; cbn [map filter fst].
  - reflexivity.
  - rewrite Z.eqb_refl. rewrite IH. reflexivity.
Qed.

Lemma of_svc_tag_other : forall s s' l, (s' =? s) = false -> of_svc s (tag s' l) = [].
Proof.
  intros s s' l H. unfold of_svc, tag. induction l as [|x l IH]; cbn [map filter fst].
  - reflexivity.
  - rewrite H. exact IH.
Qed.

Lemma commands_app : forall a b, commands (a ++ b) = commands a ++ commands b.
Proof. intros. unfold commands. apply flat_map_app. Qed.

Lemma tag_app : forall s a b, tag s (a ++ b) = tag s a ++ tag s b.
Proof. intros. unfold tag. apply map_app. Qed.

Lemma arrivals_svc : forall max evs b s,
  of_svc s (arrivals max b evs) = tag s (commands (snd (feed max (b s) (chunks_of s evs)))).
Proof.
  induction evs as [|e r IH]; intros b s.
  - reflexivity.
  - destruct e as [s' c|]; cbn [arrivals chunks_of flat_map].
    + destruct (reassemble max (b s') c) as [b1 ls] eqn:E. rewrite of_svc_app.
      destruct (s' =? s) eqn:S.
      * apply Z.eqb_eq in S. subst s'. rewrite of_svc_tag_same. cbn [app feed]. rewrite E.
        fold (chunks_of s r). rewrite (IH (upd b s b1) s). unfold upd at 1. rewrite Z.eqb_refl.
        destruct (feed max b1 (chunks_of s r)) as [st2 l2]. cbn [snd].
        rewrite commands_app, tag_app. reflexivity.
      * rewrite (of_svc_tag_other s s' _ S). cbn [app]. fold (chunks_of s r).
        rewrite (IH (upd b s' b1) s). unfold upd at 1.
        rewrite Z.eqb_sym in S. rewrite S. reflexivity.
    + fold (chunks_of s r). apply IH.
Qed.

(* commands reach API.process in line order, per process, whatever the read and pop schedule *)
Theorem order_fifo : forall max evs s,
  ascii (concat (chunks_of s evs)) -> lines_within max (concat (chunks_of s evs)) ->
  of_svc s (snd (run max init_sys evs) ++ queue (fst (run max init_sys evs)))
  = tag s (commands (complete_lines (concat (chunks_of s evs)))).
Proof.
  intros max evs s Ha Hw. rewrite run_fifo. cbn [queue bufs init_sys app].
  rewrite arrivals_svc. rewrite (chunking_independent max _ Ha Hw). reflexivity.
Qed.

(* what has been executed so far is a prefix of what arrived *)
Theorem executed_prefix : forall max evs,
  arrivals max (fun _ => Alive []) evs
  = snd (run max init_sys evs) ++ queue (fst (run max init_sys evs)).
Proof. intros. rewrite run_fifo. reflexivity. Qed.

(* ------------------------------------------------------------------ execution *)

Lemma no_effect_on_error : forall st o, is_error_class o = true -> fst (exec st o) = st.
Proof. intros st o H. destruct o; try discriminate; reflexivity. Qed.

Lemma at_most_one_reply : forall st o, (length (snd (exec st o)) <= 1)%nat.
Proof.
  intros st o. destruct o as [ | | | sel ops | a]; [ | | | | destruct a];
    cbn [exec snd]; unfold answer; destruct (x_ack st); cbn [length]; lia.
Qed.

Lemma one_reply : forall st o, x_ack st = true -> o <> Session AckSilence ->
  snd (exec st o) = [terminal o].
Proof.
  intros st o H Hs. destruct o as [ | | | sel ops | a]; cbn; unfold answer; rewrite ?H; try reflexivity.
  destruct a; try reflexivity. congruence.
Qed.

Lemma ack_kept : forall st o, is_session o = false -> x_ack (fst (exec st o)) = x_ack st.
Proof. intros st o H. destruct o; try discriminate; reflexivity. Qed.

Lemma one_ack_each : forall os st, x_ack st = true ->
  (forall o, In o os -> is_session o = false) ->
  snd (exec_all st os) = map (fun o => [terminal o]) os /\ x_ack (fst (exec_all st os)) = true.
Proof.
  induction os as [|o r IH]; intros st Ha Hs.
  - split; [reflexivity | exact Ha].
  - cbn [exec_all map].
    assert (Ho : is_session o = false) by (apply Hs; left; reflexivity).
    pose proof (one_reply st o Ha) as H1. pose proof (ack_kept st o Ho) as H2.
    destruct (exec st o) as [st1 a] eqn:E. cbn [fst snd] in H1, H2.
    destruct (IH st1) as [I1 I2]; [congruence | intros o' Hin; apply Hs; right; exact Hin |].
    destruct (exec_all st1 r) as [st2 l] eqn:E2. cbn [fst snd] in *.
    split; [| exact I2]. rewrite H1, I1; [reflexivity|]. intro X. rewrite X in Ho. discriminate.
Qed.

Lemma rib_of_apply_sel : forall sel ops r n,
  rib_of (apply_sel sel ops r) n =
  if memz n sel then option_map (apply_ops ops) (rib_of r n) else rib_of r n.
Proof.
  intros sel ops r n. unfold rib_of, apply_sel.
  induction r as [|[m c] r IH]; cbn [map filter fst snd].
  - destruct (memz n sel); reflexivity.
  - destruct (memz m sel) eqn:M; cbn [fst snd].
    + destruct (m =? n) eqn:E.
      * apply Z.eqb_eq in E. subst m. rewrite M. reflexivity.
      * exact IH.
    + destruct (m =? n) eqn:E.
      * apply Z.eqb_eq in E. subst m. rewrite M. reflexivity.
      * exact IH.
Qed.

(* a table changes only for a member of the selected set *)
Lemma changed_selected : forall st o n,
  rib_of (x_ribs (fst (exec st o))) n <> rib_of (x_ribs st) n ->
  exists sel ops, o = Ok sel ops /\ memz n sel = true.
Proof.
  intros st o n H. destruct o as [ | | | sel ops | a]; cbn in H; try (exfalso; apply H; reflexivity).
  - exists sel, ops. split; [reflexivity|]. rewrite rib_of_apply_sel in H.
    destruct (memz n sel); [reflexivity | exfalso; apply H; reflexivity].
  - destruct a; exfalso; apply H; reflexivity.
Qed.

Lemma memz_in : forall x l, memz x l = true <-> In x l.
Proof.
  intros x l. unfold memz. rewrite existsb_exists. split.
  - intros [y [Hy E]]. apply Z.eqb_eq in E. subst. exact Hy.
  - intros H. exists x. split; [exact H | apply Z.eqb_refl].
Qed.

Lemma select_sound : forall sel ns n, memz n (select sel ns) = true ->
  exists nb, In nb ns /\ n_id nb = n /\ sel_match sel nb = true.
Proof.
  intros sel ns n H. apply memz_in in H. unfold select in H. apply in_map_iff in H.
  destruct H as [nb [E Hin]]. apply filter_In in Hin. destruct Hin as [Hin Hm].
  exists nb. repeat split; assumption.
Qed.

Lemma sel_match_terms : forall sel nb, sel <> [] -> sel_match sel nb = true ->
  exists d, In d sel /\ forall t, In t d -> term_match nb t = true.
Proof.
  intros sel nb Hne H. destruct sel as [|d0 sel]; [congruence|]. cbn [sel_match] in H.
  apply existsb_exists in H. destruct H as [d [Hin Hd]]. exists d. split; [exact Hin|].
  unfold def_match in Hd. rewrite forallb_forall in Hd. exact Hd.
Qed.

(* a selector-carrying command, whatever its handler does with the peers it is given *)
Lemma dispatch_selector : forall ns sel ops st n,
  rib_of (x_ribs (fst (exec st (dispatch ns sel (fun peers => Ok peers ops))))) n <> rib_of (x_ribs st) n ->
  exists nb, In nb ns /\ n_id nb = n /\ sel_match sel nb = true.
Proof.
  intros ns sel ops st n H. apply changed_selected in H. destruct H as [s' [ops' [E M]]].
  unfold dispatch in E. destruct (select sel ns) as [|p ps] eqn:S; [discriminate|].
  inversion E; subst. rewrite <- S in M. apply select_sound in M. exact M.
Qed.

Lemma dispatch_no_match : forall ns sel handler, select sel ns = [] ->
  dispatch ns sel handler = NoMatchingPeers.
Proof. intros ns sel handler H. unfold dispatch. rewrite H. reflexivity. Qed.

(* the translated key table is the one the term kinds were written for *)
Lemma selector_keys_known :
  (* family-allowed, local-as, local-ip, peer-as, router-id *)
  SELECTOR_KEYS =
  [[102;97;109;105;108;121;45;97;108;108;111;119;101;100];
   [108;111;99;97;108;45;97;115];
   [108;111;99;97;108;45;105;112];
   [112;101;101;114;45;97;115];
   [114;111;117;116;101;114;45;105;100]].
Proof. vm_compute. reflexivity. Qed.

(* ------------------------------------------------------------------ selectors as text *)
Definition clean_char (c : Z) : bool := negb (is_space c) && negb (c =? COMMA).
Definition word (w : list Z) : Prop := w <> [] /\ forallb clean_char w = true.

Fixpoint pair_in (k v : list Z) (ws : list (list Z)) : bool :=
  match ws with
  | w1 :: r => match r with
               | w2 :: _ => (zeqb k w1 && zeqb v w2) || pair_in k v r
               | [] => false
               end
  | [] => false
  end.

Definition sep (rest : list Z) : Prop := rest = [] \/ exists r, rest = SP :: r.

Lemma clean_not_space : forall c, clean_char c = true -> is_space c = false /\ (c =? COMMA) = false.
Proof.
  intros c H. unfold clean_char in H. apply andb_true_iff in H. destruct H as [A B].
  apply negb_true_iff in A. apply negb_true_iff in B. split; assumption.
Qed.

Lemma clean_not_sp : forall c, clean_char c = true -> (c =? SP) = false /\ (SP =? c) = false.
Proof.
  intros c H. apply clean_not_space in H. destruct H as [H _].
  assert (c <> SP). { intro E. subst c. vm_compute in H. discriminate. }
  split; apply Z.eqb_neq; auto.
Qed.

Lemma skip_word : forall t w rest b, w <> [] -> forallb clean_char w = true ->
  re_search_from b t (w ++ rest) = (b && match_at t (w ++ rest)) || re_search_from false t rest.
Proof.
  intros t w. induction w as [|c w IH]; intros rest b Hne Hc; [congruence|].
  cbn [forallb] in Hc. apply andb_true_iff in Hc. destruct Hc as [Hc Hw].
  destruct (clean_not_space c Hc) as [Hs _].
  destruct w as [|c' w'].
  - cbn [app re_search_from]. rewrite Hs. reflexivity.
  - change ((c :: c' :: w') ++ rest) with (c :: ((c' :: w') ++ rest)).
    cbn [re_search_from]. rewrite Hs. rewrite IH; [|discriminate|exact Hw].
    cbn [andb orb]. reflexivity.
Qed.

Lemma search_false_sep : forall t rest, sep rest ->
  re_search_from false t rest = match rest with [] => false | _ :: r => re_search_from true t r end.
Proof.
  intros t rest [E|[r E]]; subst rest; cbn [re_search_from andb orb]; reflexivity.
Qed.

Definition after_sp (v rest : list Z) : bool :=
  match rest with [] => false | c :: r => (SP =? c) && match_at v r end.

Lemma match_key : forall k w v rest, forallb clean_char k = true -> forallb clean_char w = true -> sep rest ->
  match_at (k ++ SP :: v) (w ++ rest) = zeqb k w && after_sp v rest.
Proof.
  induction k as [|a k IH]; intros w v rest Hk Hw Hs.
  - destruct w as [|c w].
    + cbn [app match_at zeqb andb after_sp]. destruct rest; reflexivity.
    + cbn [forallb] in Hw. apply andb_true_iff in Hw. destruct Hw as [Hc _].
      destruct (clean_not_sp c Hc) as [_ H2]. cbn [app match_at zeqb]. rewrite H2. reflexivity.
  - cbn [forallb] in Hk. apply andb_true_iff in Hk. destruct Hk as [Ha Hk].
    destruct w as [|c w].
    + cbn [app zeqb andb]. destruct Hs as [E|[r E]]; subst rest; cbn [match_at].
      * reflexivity.
      * destruct (clean_not_sp a Ha) as [H1 _]. rewrite H1. reflexivity.
    + cbn [forallb] in Hw. apply andb_true_iff in Hw. destruct Hw as [Hc Hw].
      change ((a :: k) ++ SP :: v) with (a :: (k ++ SP :: v)).
      change ((c :: w) ++ rest) with (c :: (w ++ rest)).
      cbn [match_at zeqb]. rewrite (IH w v rest Hk Hw Hs). rewrite andb_assoc. reflexivity.
Qed.

Lemma match_value : forall v w rest, forallb clean_char v = true -> forallb clean_char w = true -> sep rest ->
  match_at v (w ++ rest) = zeqb v w.
Proof.
  induction v as [|a v IH]; intros w rest Hv Hw Hs.
  - destruct w as [|c w].
    + cbn [app match_at zeqb]. destruct Hs as [E|[r E]]; subst rest; reflexivity.
    + cbn [forallb] in Hw. apply andb_true_iff in Hw. destruct Hw as [Hc _].
      destruct (clean_not_space c Hc) as [H1 H2]. cbn [app match_at zeqb]. rewrite H1, H2. reflexivity.
  - cbn [forallb] in Hv. apply andb_true_iff in Hv. destruct Hv as [Ha Hv].
    destruct w as [|c w].
    + cbn [app zeqb]. destruct Hs as [E|[r E]]; subst rest; cbn [match_at].
      * reflexivity.
      * destruct (clean_not_sp a Ha) as [H1 _]. rewrite H1. reflexivity.
    + cbn [forallb] in Hw. apply andb_true_iff in Hw. destruct Hw as [Hc Hw].
      change ((c :: w) ++ rest) with (c :: (w ++ rest)). cbn [match_at zeqb].
      rewrite (IH w rest Hv Hw Hs). reflexivity.
Qed.

Lemma join_cons : forall w ws, exists rest, join (w :: ws) = w ++ rest /\ sep rest.
Proof.
  intros w ws. destruct ws as [|w2 ws'].
  - exists []. cbn [join]. rewrite app_nil_r. split; [reflexivity | left; reflexivity].
  - exists (SP :: join (w2 :: ws')). split; [reflexivity | right; eexists; reflexivity].
Qed.

Lemma search_tokens : forall k v ws,
  k <> [] -> forallb clean_char k = true -> forallb clean_char v = true ->
  Forall word ws ->
  re_search_from true (k ++ SP :: v) (join ws) = pair_in k v ws.
Proof.
  intros k v ws Hkne Hk Hv. induction ws as [|w ws IH]; intros Hws.
  - cbn [join re_search_from pair_in]. destruct k; [congruence|]. reflexivity.
  - inversion Hws as [|w' ws' [Hwne Hwc] Hrest]; subst.
    destruct ws as [|w2 ws2].
    + cbn [join pair_in]. rewrite <- (app_nil_r w) at 1.
      rewrite skip_word; [|exact Hwne|exact Hwc].
      rewrite match_key; [|exact Hk|exact Hwc|left; reflexivity].
      cbn [after_sp re_search_from]. rewrite andb_false_r. destruct k; [congruence|]. reflexivity.
    + change (join (w :: w2 :: ws2)) with (w ++ SP :: join (w2 :: ws2)).
      rewrite skip_word; [|exact Hwne|exact Hwc].
      rewrite match_key; [|exact Hk|exact Hwc|right; eexists; reflexivity].
      rewrite search_false_sep; [|right; eexists; reflexivity].
      cbn [after_sp andb]. rewrite Z.eqb_refl. cbn [andb].
      rewrite (IH Hrest).
      inversion Hrest as [|w2' ws2' [Hw2ne Hw2c] _]; subst.
      destruct (join_cons w2 ws2) as [rest [E Hs]]. rewrite E.
      rewrite match_value; [|exact Hv|exact Hw2c|exact Hs].
      cbn [pair_in]. reflexivity.
Qed.

Lemma zeqb_eq : forall a b, zeqb a b = true <-> a = b.
Proof.
  induction a as [|x a IH]; intros b; destruct b as [|y b]; cbn [zeqb]; split; intros H; try reflexivity; try discriminate.
  - apply andb_true_iff in H. destruct H as [H1 H2]. apply Z.eqb_eq in H1. apply IH in H2. subst. reflexivity.
  - inversion H; subst. rewrite Z.eqb_refl. cbn. apply IH. reflexivity.
Qed.

Lemma clean_char_spec : forall c, clean_char c = true <-> (~ white c /\ c <> 44).
Proof.
  intros c. unfold clean_char, is_space, white, COMMA. split.
  - intros H. apply andb_true_iff in H. destruct H as [A B]. apply negb_true_iff in A. apply negb_true_iff in B.
    apply Z.eqb_neq in B. split; [|exact B]. intros W. apply orb_false_iff in A. destruct A as [A1 A2].
    apply andb_false_iff in A1. apply andb_false_iff in A2.
    destruct A1 as [A1|A1]; destruct A2 as [A2|A2];
      try apply Z.leb_gt in A1; try apply Z.leb_gt in A2; lia.
  - intros [W N]. apply andb_true_iff. split; apply negb_true_iff.
    + apply orb_false_iff. split; apply andb_false_iff.
      * destruct (9 <=? c) eqn:E1; [|left; reflexivity]. right. apply Z.leb_gt. apply Z.leb_le in E1.
        destruct (Z_le_gt_dec c 13); [exfalso; apply W; left; lia | lia].
      * destruct (28 <=? c) eqn:E1; [|left; reflexivity]. right. apply Z.leb_gt. apply Z.leb_le in E1.
        destruct (Z_le_gt_dec c 32); [exfalso; apply W; right; lia | lia].
    + apply Z.eqb_neq. exact N.
Qed.

Lemma token_word : forall w, token w -> word w.
Proof.
  intros w [Hne Hf]. split; [exact Hne|]. apply forallb_forall. intros c Hc.
  rewrite Forall_forall in Hf. apply clean_char_spec. apply Hf. exact Hc.
Qed.

Lemma pair_in_occurs : forall k v ws, pair_in k v ws = true <-> pair_occurs k v ws.
Proof.
  intros k v ws. unfold pair_occurs. induction ws as [|w1 r IH].
  - cbn. split; [discriminate|]. intros [b [a E]]. destruct b; discriminate.
  - destruct r as [|w2 r'].
    + cbn. split; [discriminate|]. intros [b [a E]]. destruct b as [|x b]; [discriminate|].
      destruct b; discriminate.
    + cbn [pair_in]. rewrite orb_true_iff, andb_true_iff, !zeqb_eq, IH. split.
      * intros [[E1 E2]|[b [a E]]].
        -- subst. exists [], r'. reflexivity.
        -- exists (w1 :: b), a. rewrite E. reflexivity.
      * intros [b [a E]]. destruct b as [|x b].
        -- cbn [app] in E. injection E as E1 E2 E3. subst. left. split; reflexivity.
        -- cbn [app] in E. injection E as E1 E2. right. exists b, a. exact E2.
Qed.

Theorem match_is_token_equality : forall k v ws,
  token k -> token v -> Forall token ws ->
  (re_search (k ++ 32 :: v) (join ws) = true <-> pair_occurs k v ws).
Proof.
  intros k v ws Hk Hv Hws. rewrite <- pair_in_occurs. unfold re_search.
  destruct (token_word k Hk) as [Hkne Hkc]. destruct (token_word v Hv) as [_ Hvc].
  change 32 with SP. rewrite search_tokens; [reflexivity | exact Hkne | exact Hkc | exact Hvc |].
  rewrite Forall_forall in *. intros w Hw. apply token_word. apply Hws. exact Hw.
Qed.

(* a key is never a value: the pair can only sit on a field *)
Lemma pair_in_fields : forall k v fields,
  (forall p, In p fields -> zeqb k (snd p) = false) ->
  pair_in k v (name_tokens fields) = existsb (fun p => zeqb k (fst p) && zeqb v (snd p)) fields.
Proof.
  intros k v fields. induction fields as [|[k1 v1] ps IH]; intros H.
  - reflexivity.
  - cbn [name_tokens flat_map app fst snd existsb]. fold (name_tokens ps). cbn [pair_in].
    rewrite <- IH; [|intros p Hp; apply H; right; exact Hp].
    assert (Hk : zeqb k v1 = false) by (apply (H (k1, v1)); left; reflexivity).
    destruct (name_tokens ps) as [|w2 r]; cbn [pair_in]; [reflexivity|].
    rewrite Hk. cbn [andb orb]. reflexivity.
Qed.

Theorem match_is_field_equality : forall k v fields,
  token k -> token v ->
  (forall p, In p fields -> token (fst p) /\ token (snd p) /\ k <> snd p) ->
  (re_search (k ++ 32 :: v) (join (name_tokens fields)) = true <-> In (k, v) fields).
Proof.
  intros k v fields Hk Hv Hf.
  rewrite match_is_token_equality; [| exact Hk | exact Hv |].
  - rewrite <- pair_in_occurs. rewrite pair_in_fields.
    + rewrite existsb_exists. split.
      * intros [[k1 v1] [Hin E]]. apply andb_true_iff in E. destruct E as [E1 E2].
        apply zeqb_eq in E1. apply zeqb_eq in E2. cbn in E1, E2. subst. exact Hin.
      * intros Hin. exists (k, v). split; [exact Hin|]. cbn. apply andb_true_iff. split; apply zeqb_eq; reflexivity.
    + intros p Hp. destruct (zeqb k (snd p)) eqn:E; [|reflexivity]. apply zeqb_eq in E.
      destruct (Hf p Hp) as [_ [_ N]]. congruence.
  - unfold name_tokens. rewrite Forall_forall. intros w Hw. apply in_flat_map in Hw.
    destruct Hw as [p [Hp Hw]]. destruct (Hf p Hp) as [T1 [T2 _]].
    destruct Hw as [E|[E|[]]]; subst; assumption.
Qed.

(* a value that is only the beginning of the peer's value selects nothing (and likewise an end) *)
Corollary prefix_never_selects : forall k v extra fields,
  token k -> token v -> extra <> [] ->
  (forall p, In p fields -> token (fst p) /\ token (snd p) /\ k <> snd p) ->
  (forall v', In (k, v') fields -> v' = v ++ extra) ->
  re_search (k ++ 32 :: v) (join (name_tokens fields)) = false.
Proof.
  intros k v extra fields Hk Hv Hne Hf Hu.
  destruct (re_search (k ++ 32 :: v) (join (name_tokens fields))) eqn:E; [|reflexivity].
  apply (match_is_field_equality k v fields Hk Hv Hf) in E. apply Hu in E.
  exfalso. apply Hne. apply (f_equal (@length Z)) in E. rewrite app_length in E.
  destruct extra; [reflexivity|]. cbn in E. lia.
Qed.

(* ------------------------------------------------------------------ groups, main loop *)
Lemma inline_atomic : forall all st sel subs,
  match all_parsed subs with
  | None => fst (gexec all st (GInline sel subs)) = st /\ snd (gexec all st (GInline sel subs)) = greply st Error
  | Some ops => subs <> [] ->
      g_ribs (fst (gexec all st (GInline sel subs))) = apply_sel sel ops (g_ribs st) /\
      snd (gexec all st (GInline sel subs)) = greply st Done
  end.
Proof.
  intros all st sel subs. destruct (all_parsed subs) as [ops|] eqn:E.
  - intros Hne. destruct subs as [|s subs]; [congruence|]. cbn [gexec]. rewrite E. split; reflexivity.
  - destruct subs as [|s subs]; [discriminate|]. cbn [gexec]. rewrite E. split; reflexivity.
Qed.

Lemma end_atomic : forall all st b, g_buf st = Some b ->
  g_buf (fst (gexec all st GEnd)) = None /\
  match all_parsed b with
  | None => g_ribs (fst (gexec all st GEnd)) = g_ribs st /\ snd (gexec all st GEnd) = greply st Error
  | Some ops => g_ribs (fst (gexec all st GEnd)) = apply_sel all ops (g_ribs st) /\ snd (gexec all st GEnd) = greply st Done
  end.
Proof.
  intros all st b Hb. cbn [gexec]. rewrite Hb. destruct b as [|s b].
  - cbn. split; [reflexivity|]. split; [|reflexivity]. unfold g_ribs, apply_sel. cbn.
    induction (x_ribs (g_x st)) as [|nc r IH]; [reflexivity|]. cbn [map]. rewrite <- IH.
    destruct (memz (fst nc) all); [destruct nc|]; reflexivity.
  - destruct (all_parsed (s :: b)) as [ops|]; cbn; repeat split; reflexivity.
Qed.

Lemma lines_buffered : forall all subs st b outs, g_buf st = Some b -> length outs = length subs ->
  fst (grun all st (map (fun p => GLine (fst p) (snd p)) (combine subs outs))) = mkG (g_x st) (Some (b ++ subs)) /\
  snd (grun all st (map (fun p => GLine (fst p) (snd p)) (combine subs outs))) = map (fun _ => greply st Done) subs.
Proof.
  intros all subs. induction subs as [|s subs IH]; intros st b outs Hb Hl.
  - destruct outs; [|discriminate]. cbn. rewrite app_nil_r. destruct st as [x bb]. cbn in Hb. subst bb. split; reflexivity.
  - destruct outs as [|o outs]; [discriminate|]. cbn [combine map grun gexec fst snd]. rewrite Hb.
    specialize (IH (mkG (g_x st) (Some (b ++ [s]))) (b ++ [s]) outs eq_refl). cbn [length] in Hl.
    assert (Hl' : length outs = length subs) by lia. specialize (IH Hl'). destruct IH as [I1 I2].
    destruct (grun all (mkG (g_x st) (Some (b ++ [s]))) (map (fun p => GLine (fst p) (snd p)) (combine subs outs))) as [st2 l] eqn:R.
    cbn [fst snd g_x] in *. rewrite I1, I2. rewrite <- app_assoc. split; reflexivity.
Qed.

Lemma iterate_one : forall st, l_async st = [] ->
  l_async (iterate 1 st) = [] /\
  l_written (iterate 1 st) ++ map snd (l_wait (iterate 1 st)) = l_written st ++ map snd (l_wait st).
Proof.
  intros st Ha. unfold iterate. destruct (l_wait st) as [|[k id] w] eqn:W.
  - cbn. rewrite Ha, app_nil_r. split; reflexivity.
  - cbn [firstn skipn fold_left]. unfold process1. cbn [fst snd]. destruct k; cbn; rewrite Ha; cbn;
      rewrite ?app_nil_r, <- ?app_assoc; split; reflexivity.
Qed.

Lemma lrun_order : forall evs st, l_async st = [] ->
  l_async (lrun 1 st evs) = [] /\
  l_written (lrun 1 st evs) ++ map snd (l_wait (lrun 1 st evs)) = l_written st ++ map snd (l_wait st) ++ arrived evs.
Proof.
  induction evs as [|e evs IH]; intros st Ha.
  - cbn. rewrite app_nil_r. split; [exact Ha | reflexivity].
  - cbn [lrun fold_left]. fold (lrun 1 (lstep 1 st e) evs). destruct e as [k id|].
    + destruct (IH (lstep 1 st (Arrive k id)) Ha) as [I1 I2]. split; [exact I1|]. rewrite I2. cbn.
      rewrite map_app. cbn. rewrite <- !app_assoc. reflexivity.
    + destruct (iterate_one st Ha) as [J1 J2]. destruct (IH (iterate 1 st) J1) as [I1 I2].
      split; [exact I1|]. cbn [lstep arrived flat_map app]. rewrite I2. rewrite app_assoc, J2, <- app_assoc. reflexivity.
Qed.

Lemma batching_reorders :
  l_written (lrun 2 linit [Arrive Scheduled 1; Arrive Immediate 2; Iterate]) = [2; 1].
Proof. reflexivity. Qed.

Lemma inline_refused : forall all st sel subs, all_parsed subs = None ->
  gexec all st (GInline sel subs) = (st, greply st Error).
Proof.
  intros all st sel subs E. pose proof (inline_atomic all st sel subs) as H. rewrite E in H.
  destruct H as [H1 H2]. destruct (gexec all st (GInline sel subs)) as [s r]. cbn in *. subst. reflexivity.
Qed.

Lemma inline_applied : forall all st sel subs ops, all_parsed subs = Some ops -> subs <> [] ->
  g_ribs (fst (gexec all st (GInline sel subs))) = apply_sel sel ops (g_ribs st) /\
  snd (gexec all st (GInline sel subs)) = greply st Done.
Proof.
  intros all st sel subs ops E Hne. pose proof (inline_atomic all st sel subs) as H. rewrite E in H. exact (H Hne).
Qed.

Lemma end_refused : forall all st b, g_buf st = Some b -> all_parsed b = None ->
  gexec all st GEnd = (mkG (g_x st) None, greply st Error).
Proof.
  intros all st b Hb E. cbn [gexec]. rewrite Hb. destruct b as [|s b]; [discriminate|]. rewrite E. reflexivity.
Qed.

Lemma end_applied : forall all st b ops, g_buf st = Some b -> all_parsed b = Some ops ->
  g_buf (fst (gexec all st GEnd)) = None /\
  g_ribs (fst (gexec all st GEnd)) = apply_sel all ops (g_ribs st) /\
  snd (gexec all st GEnd) = greply st Done.
Proof.
  intros all st b ops Hb E. destruct (end_atomic all st b Hb) as [H1 H2]. rewrite E in H2.
  destruct H2 as [H2 H3]. repeat split; assumption.
Qed.

Lemma scheduler_order : forall evs,
  l_async (lrun 1 linit evs) = [] /\
  l_written (lrun 1 linit evs) ++ map snd (l_wait (lrun 1 linit evs)) = arrived evs.
Proof. intros evs. destruct (lrun_order evs linit eq_refl) as [H1 H2]. split; [exact H1 | exact H2]. Qed.
