(* C16 - end to end: a rule whose every value is one the text parser accepts (T9 predicates) is sent,
   and the RFC reference decoder reads the sent octets back as the rule that was written. *)
From Coq Require Import ZArith List Bool Lia.
From ExaV Require Import gen.Gen_Flow gen.Gen_TextDomains spec.Spec_Flow model.Model_Flow
  proofs.Proofs_Flow proofs.Proofs_FlowDec proofs.Proofs_FlowCanon proofs.Proofs_FlowText proofs.Proofs_FlowMore.
Import ListNotations.
Open Scope Z_scope.

(* keyword -> (family, component type, accept predicate of its values); tcp-flags and fragment take
   named bits, not numbers, and are not in T9's domain table *)
Inductive field_of : bool -> Z -> (Z -> bool) -> Prop :=
| F_protocol : field_of false 3 accept_flow_protocol
| F_next_header : field_of true 3 accept_flow_next_header
| F_port : forall v6 t, (t = 4 \/ t = 5 \/ t = 6) -> field_of v6 t accept_flow_port
| F_icmp_type : forall v6, field_of v6 7 accept_flow_icmp_type
| F_icmp_code : forall v6, field_of v6 8 accept_flow_icmp_code
| F_packet_length : forall v6, field_of v6 10 accept_flow_packet_length
| F_dscp : field_of false 11 accept_flow_dscp
| F_traffic_class : field_of true 11 accept_flow_traffic_class
| F_flow_label : field_of true 13 accept_flow_flow_label.

Lemma field_fits : forall v6 t acc, field_of v6 t acc -> text_value_ok acc v6 t /\ 3 <= t <= (if v6 then 13 else 12).
Proof.
  intros v6 t acc H. destruct H.
  - split; [apply text_protocol|lia].
  - split; [apply text_next_header|lia].
  - split; [apply text_port; assumption|destruct v6; lia].
  - split; [apply text_icmp_type|destruct v6; lia].
  - split; [apply text_icmp_code|destruct v6; lia].
  - split; [apply text_packet_length|destruct v6; lia].
  - split; [apply text_dscp|lia].
  - split; [apply text_traffic_class|lia].
  - split; [apply text_flow_label|lia].
Qed.

Definition op_written (acc : Z -> bool) (o : op) : Prop :=
  let '(a, nb, v) := o in acc v = true /\ 0 <= a <= 1 /\ 0 <= nb < 16.

(* one `match` line as the parser builds it from accepted text *)
Definition line_ok (v6 : bool) (c : mcomp) : Prop :=
  match c with
  | MPfx t m off a =>
    (t = 1 \/ t = 2) /\ off = 0 /\
    (if v6 then accept_flow_mask_ipv6 m else accept_flow_mask_ipv4 m) = true /\
    llen a = (if v6 then 16 else 4)
  | MOps t ops => ops <> [] /\ exists acc, field_of v6 t acc /\ Forall (op_written acc) ops
  end.

Lemma line_ok_rt : forall v6 c, line_ok v6 c -> rt_ok v6 c = true /\ addr_len v6 c = true.
Proof.
  intros v6 c H. destruct c as [t m off a|t ops]; cbn [line_ok rt_ok addr_len] in *.
  - destruct H as (Ht & -> & Hm & Hl).
    destruct (text_mask m) as [M4 M6].
    assert (Hmr : 0 <= m <= (if v6 then 128 else 32)) by (destruct v6; auto).
    assert (Hs : size m <= (if v6 then 16 else 4)).
    { destruct (size_eq m ltac:(destruct v6; lia)) as [-> _]. destruct v6; Z.div_mod_to_equations; lia. }
    split; [|apply Z.eqb_eq; exact Hl].
    repeat (apply andb_true_iff; split); try (apply Z.leb_le; lia); try reflexivity.
    destruct Ht as [-> | ->]; reflexivity.
  - destruct H as (Hne & acc & Hf & Hops). destruct (field_fits v6 t acc Hf) as [Hfit Hr].
    split; [|reflexivity].
    repeat (apply andb_true_iff; split); try (apply Z.leb_le; lia).
    + destruct ops; [congruence|reflexivity].
    + apply forallb_forall. intros [[a nb] v] Hin. rewrite Forall_forall in Hops.
      specialize (Hops _ Hin). cbn [op_written] in Hops. destruct Hops as (A & B & C). apply Hfit; assumption.
Qed.

Lemma lines_ok_rt : forall v6 cs, Forall (line_ok v6) cs ->
  forallb (rt_ok v6) cs = true /\ forallb (addr_len v6) cs = true.
Proof.
  induction cs as [|c cs IH]; intros H; [split; reflexivity|].
  inversion H; subst. destruct (line_ok_rt v6 c H2) as [A B]. destruct (IH H3) as [C D].
  cbn [forallb]. rewrite A, B, C, D. split; reflexivity.
Qed.

(* FIRST SENTENCE OF C16, end to end on the model: every rule made of text-accepted numeric values and
   legal prefixes (IPv6 offset 0, no prefix keyword twice) whose body fits 4095 octets is sent, with the
   RFC length in front, and the RFC reference decoder extracts from the sent octets exactly the rule that
   was written (grouped by type) - components ascending, EOL on the last operator, AND bits, shortest
   widths, RD first are all implied by that equality *)
Lemma text_to_wire : forall v6 r,
  Forall (line_ok v6) (m_comps r) -> one_prefix_per_type (m_comps r) ->
  (m_rd r = [] \/ length (m_rd r) = 8%nat) ->
  llen (enc_body v6 r) <= 4095 ->
  exists h, ref_length (llen (enc_body v6 r)) = Some h /\
            enc_flow v6 r = Some (h ++ enc_body v6 r) /\
            ref_flow v6 (negb (match m_rd r with [] => true | _ => false end)) (h ++ enc_body v6 r)
              = ROk (normal v6 r) [].
Proof.
  intros v6 r Hl H1 Hrd Hn. destruct (lines_ok_rt v6 _ Hl) as [A B].
  destruct (encodable v6 r A B Hn) as (h & Hh & He). exists h. split; [exact Hh|]. split; [exact He|].
  apply roundtrip_written; assumption.
Qed.

(* non-vacuity: `destination 2001:db8::/32; flow-label [ >=256&<=70000 ]; destination-port =443;` with RD *)
Definition rule_text_ex : mrule :=
  mkMRule [0; 0; 255; 255; 0; 1; 0; 0]
    [MPfx 1 32 0 [32; 1; 13; 184; 0; 0; 0; 0; 0; 0; 0; 0; 0; 0; 0; 0];
     MOps 13 [(0, 3, 256); (1, 5, 70000)]; MOps 5 [(0, 1, 443)]].
Lemma text_to_wire_example :
  Forall (line_ok true) (m_comps rule_text_ex) /\ one_prefix_per_type (m_comps rule_text_ex) /\
  llen (enc_body true rule_text_ex) <= 4095 /\
  enc_flow true rule_text_ex =
    Some [28; 0; 0; 255; 255; 0; 1; 0; 0; 1; 32; 0; 32; 1; 13; 184; 5; 145; 1; 187; 13; 19; 1; 0; 229; 0; 1; 17; 112].
Proof.
  split; [|split; [|split]].
  - cbn [m_comps rule_text_ex]. apply Forall_cons; [|apply Forall_cons; [|apply Forall_cons; [|apply Forall_nil]]].
    + cbn [line_ok]. repeat split; auto.
    + cbn [line_ok]. split; [discriminate|]. exists accept_flow_flow_label. split; [constructor|].
      apply Forall_cons; [|apply Forall_cons; [|apply Forall_nil]]; cbn [op_written]; repeat split; (reflexivity || lia).
    + cbn [line_ok]. split; [discriminate|]. exists accept_flow_port. split; [constructor; auto|].
      apply Forall_cons; [|apply Forall_nil]; cbn [op_written]; repeat split; (reflexivity || lia).
  - intros t. cbn [m_comps rule_text_ex]. unfold pick_pfx. cbn [filter]. destruct (1 =? t); cbn [length]; lia.
  - vm_compute. discriminate.
  - vm_compute. reflexivity.
Qed.
