(* Proofs_Cache - C19: invariants of the decoder caches, by induction over histories. *)
From Coq Require Import ZArith List Bool Lia Arith.
From ExaV Require Import model.Model_Cache.
Import ListNotations.
Open Scope Z_scope.

(* ------------------------------------------------------------------------------------------------ lists *)

Lemma bytes_eqb_spec : forall a b, bytes_eqb a b = true <-> a = b.
Proof.
  induction a as [|x a IH]; destruct b as [|y b]; simpl; split; intro H; try reflexivity; try discriminate.
  - apply andb_true_iff in H. destruct H as [H1 H2]. apply Z.eqb_eq in H1. apply IH in H2. now subst.
  - inversion H; subst. apply andb_true_iff. split; [apply Z.eqb_refl | now apply IH].
Qed.

Lemma bytes_eqb_refl : forall a, bytes_eqb a a = true.
Proof. intro a. now apply bytes_eqb_spec. Qed.

Lemma params_eqb_spec : forall p q, params_eqb p q = true <-> p = q.
Proof.
  intros [a1 g1 o1] [a2 g2 o2]; unfold params_eqb; simpl; split; intro H.
  - apply andb_true_iff in H. destruct H as [H H3]. apply andb_true_iff in H. destruct H as [H1 H2].
    apply eqb_prop in H1. apply eqb_prop in H2. apply bytes_eqb_spec in H3. now subst.
  - inversion H; subst. rewrite !eqb_reflx, bytes_eqb_refl. reflexivity.
Qed.

Lemma upd_nth_length {A} : forall (l : list A) i x, length (upd_nth l i x) = length l.
Proof. induction l as [|h t IH]; intros [|i] x; simpl; auto. Qed.

Lemma nth_upd_nth_eq {A} : forall (l : list A) i x d, (i < length l)%nat -> nth i (upd_nth l i x) d = x.
Proof.
  induction l as [|h t IH]; intros [|i] x d Hi; simpl in *; try lia; auto.
  apply IH. lia.
Qed.

Lemma nth_upd_nth_neq {A} : forall (l : list A) i j x d, i <> j -> nth j (upd_nth l i x) d = nth j l d.
Proof.
  induction l as [|h t IH]; intros [|i] [|j] x d Hij; simpl; auto; try congruence.
Qed.

Lemma upd_nth_same {A} : forall (l : list A) i d, (i < length l)%nat -> upd_nth l i (nth i l d) = l.
Proof.
  induction l as [|h t IH]; intros [|i] d Hi; simpl in *; try lia; auto.
  f_equal. apply IH. lia.
Qed.

Lemma nth_snoc_last {A} : forall (l : list A) x d, nth (length l) (l ++ [x]) d = x.
Proof. intros. rewrite app_nth2 by lia. now rewrite Nat.sub_diag. Qed.

(* ------------------------------------------------------------------------------------------------ zget/zset *)

Lemma zget_zset_eq : forall k v l d, zget k (zset k v l) d = v.
Proof. intros. unfold zget, zset. simpl. now rewrite Z.eqb_refl. Qed.

Lemma zget_zset_neq : forall k k' v l d, k <> k' -> zget k (zset k' v l) d = zget k l d.
Proof.
  intros. unfold zget, zset. simpl. destruct (k' =? k) eqn:Ek; [apply Z.eqb_eq in Ek; congruence | reflexivity].
Qed.

(* ------------------------------------------------------------------------------------------------ the model *)

Section Proofs.
  Variables V E S N F K : Type.
  Variable proj : params -> K.
  Variable keqb : K -> K -> bool.
  Variable dec_attrs : params -> bytes -> E + list (Z * V).
  Variable render : list (Z * V) -> S.
  Variable attr_block : bytes -> option bytes.
  Variable nlri_part : params -> bytes -> list (Z * V) -> N.
  Variable is_empty_update : N -> bool.
  Variable dec_other : Z -> bytes -> S.
  Variable open_fixed : bytes -> option F.
  Variable open_caps : bytes -> list (Z * bytes).
  Variable cap_class : Z -> option Z.
  Variable class_default : Z -> Z.
  Variable render_cap : option Z -> Z -> bytes -> S.

  (* about the KEY TYPE only: its comparison is equality *)
  Hypothesis keqb_spec : forall x y, keqb x y = true <-> x = y.

  Notation St := (cstate V S K).
  Notation unpack_ := (unpack V E S K proj keqb dec_attrs).
  Notation json_ := (json V S K render).
  Notation view_ := (view V S K render).
  Notation upd_step_ := (upd_step V E S N F K proj keqb dec_attrs render attr_block nlri_part is_empty_update).
  Notation open_step_ := (open_step V E S N F K open_fixed open_caps cap_class class_default render_cap).
  Notation step_ := (step V E S N F K proj keqb dec_attrs render attr_block nlri_part is_empty_update dec_other
                          open_fixed open_caps cap_class class_default render_cap).
  Notation run_from_ := (run_from V E S N F K proj keqb dec_attrs render attr_block nlri_part is_empty_update dec_other
                          open_fixed open_caps cap_class class_default render_cap).
  Notation run_ := (run V E S N F K proj keqb dec_attrs render attr_block nlri_part is_empty_update dec_other
                          open_fixed open_caps cap_class class_default render_cap).
  Notation dec_fresh_ := (dec_fresh V E S N F dec_attrs render attr_block nlri_part is_empty_update dec_other
                          open_fixed open_caps cap_class class_default render_cap).
  Notation obs_ := (obs V E S N F).

  (* p0 and p decode every CACHEABLE block alike *)
  Definition agree (p0 p : params) : Prop :=
    forall a c, dec_attrs p0 a = inr c -> nomp V c = true -> has V TAW c = false -> dec_attrs p a = inr c.

  (* "dec does not depend on the parameters omitted from the key" - exactly what a repair must establish *)
  Definition KeySufficient : Prop := forall p1 p2, proj p1 = proj p2 -> agree p1 p2.

  Section Inv.
    Variable P : params -> Prop.   (* the sessions seen so far *)

    Definition wf_last (st : St) : Prop :=
      match last V S K st with
      | Some (k, prev, id) =>
          (id < length (heap V S K st))%nat /\
          nomp V (content_at V S K st id) = true /\ has V TAW (content_at V S K st id) = false /\
          exists p0, P p0 /\ proj p0 = k /\ dec_attrs p0 prev = inr (content_at V S K st id)
      | None => True
      end.

    Definition wf_memo (st : St) : Prop :=
      forall id s, (id < length (heap V S K st))%nat ->
                   memo V S (obj_at V S K st id) = Some s -> s = render (content_at V S K st id).

    Definition Inv (st : St) : Prop := wf_last st /\ wf_memo st.

    Lemma Inv_init : Inv (init V S K).
    Proof. split; [exact I | intros id s Hid; simpl in Hid; lia]. Qed.

    Lemma pop_mp_nomp : forall c, nomp V c = true -> pop_mp V c = c.
    Proof.
      induction c as [|[k v] c IH]; intro H; [reflexivity|].
      unfold nomp, has in H. simpl in H.
      apply andb_true_iff in H. destruct H as [H1 H2].
      apply negb_true_iff in H1. apply negb_true_iff in H2.
      apply orb_false_iff in H1. apply orb_false_iff in H2.
      destruct H1 as [H1a H1b]. destruct H2 as [H2a H2b].
      unfold pop_mp. simpl. fold (pop_mp V c).
      unfold MP_REACH, MP_UNREACH in *. rewrite H1a, H2a. simpl. f_equal.
      apply IH. unfold nomp, has, MP_REACH, MP_UNREACH. rewrite H1b, H2b. reflexivity.
    Qed.

    Lemma kind_cacheable : forall c, (kind_of V c = KPlain \/ kind_of V c = KEmpty) ->
                                     nomp V c = true /\ has V TAW c = false.
    Proof.
      intros c H. unfold kind_of in H.
      destruct (has V TAW c); [destruct H; discriminate|].
      destruct (nomp V c); [auto | destruct H; discriminate].
    Qed.

    (* ---- AttributeCollection.unpack ---- *)
    Definition Agrees (p : params) : Prop := forall p0, P p0 -> proj p0 = proj p -> agree p0 p.

    Lemma unpack_cases : forall st p a,
      Inv st ->
      (exists e, dec_attrs p a = inl e /\ unpack_ st p a = (st, inl e)) \/
      (exists c id st1,
          (Agrees p -> dec_attrs p a = inr c) /\ unpack_ st p a = (st1, inr id) /\ content_at V S K st1 id = c /\
          capid V S K st1 = capid V S K st /\
          ((st1 = st /\ (id < length (heap V S K st))%nat /\ nomp V c = true /\ has V TAW c = false /\
            exists k prev, last V S K st = Some (k, prev, id))
           \/
           (dec_attrs p a = inr c /\
            id = length (heap V S K st) /\ heap V S K st1 = heap V S K st ++ [mkObj V S c None] /\
            last V S K st1 = match kind_of V c with
                             | KWithdraw => last V S K st
                             | KMp => None
                             | _ => Some (proj p, a, id)
                             end))).
    Proof.
      intros st p a [HL HM].
      unfold unpack. destruct (hit V S K proj keqb st p a) as [id|] eqn:Hhit.
      - (* hit *)
        unfold hit in Hhit. unfold wf_last in HL.
        destruct (last V S K st) as [[[k prev] id0]|] eqn:Hl; [|discriminate].
        destruct (negb (is_nil V (content_at V S K st id0)) && keqb (proj p) k && bytes_eqb a prev) eqn:Hc; [|discriminate].
        inversion Hhit; subst id0. clear Hhit.
        apply andb_true_iff in Hc. destruct Hc as [Hc Hb]. apply andb_true_iff in Hc. destruct Hc as [_ Hk].
        apply bytes_eqb_spec in Hb. apply keqb_spec in Hk. subst prev.
        destruct HL as (Hid & Hn & Ht & p0 & HP & Hp0 & Hd).
        assert (Hda : Agrees p -> dec_attrs p a = inr (content_at V S K st id)).
        { intro Hag. apply (Hag p0 HP); [congruence | exact Hd | exact Hn | exact Ht]. }
        right. exists (content_at V S K st id), id, st.
        split; [exact Hda|]. split; [reflexivity|]. split; [reflexivity|]. split; [reflexivity|].
        left. repeat split; auto. now exists k, a.
      - (* miss *)
        destruct (dec_attrs p a) as [e|c] eqn:Hd.
        + left. exists e. split; reflexivity.
        + right. exists c, (length (heap V S K st)).
          destruct (kind_of V c) eqn:Hk; eexists; (split; [intros _; reflexivity|]); (split; [reflexivity|]);
            (split; [unfold content_at, obj_at; simpl; now rewrite nth_snoc_last|]);
            (split; [reflexivity|]); right; simpl; auto.
    Qed.

    (* the state after unpack *)
    Lemma unpack_inv : forall st p a,
      Inv st -> P p -> Inv (fst (unpack_ st p a)).
    Proof.
      intros st p a HI HP.
      destruct (unpack_cases st p a HI) as [(e & _ & Hu') | (c & id & st1 & Hd & Hu' & Hc & _ & Hcase)];
        rewrite Hu'; simpl; [exact HI|].
      destruct Hcase as [(-> & _) | (Hdu & Hid & Hh & Hl)]; [exact HI|].
      destruct HI as [HL HM]. split.
      - unfold wf_last. rewrite Hl.
        assert (Hkeep : wf_last st -> match last V S K st with
                                      | Some (k, prev, id0) =>
                                          (id0 < length (heap V S K st1))%nat /\
                                          nomp V (content_at V S K st1 id0) = true /\ has V TAW (content_at V S K st1 id0) = false /\
                                          exists p0, P p0 /\ proj p0 = k /\ dec_attrs p0 prev = inr (content_at V S K st1 id0)
                                      | None => True end).
        { unfold wf_last. destruct (last V S K st) as [[[k prev] id0]|]; [|auto].
          intros (Hlt & Hn & Ht & Hex).
          assert (Hsame : content_at V S K st1 id0 = content_at V S K st id0).
          { unfold content_at, obj_at. rewrite Hh. now rewrite app_nth1 by lia. }
          rewrite Hsame, Hh, app_length. simpl. repeat split; auto; lia. }
        destruct (kind_of V c) eqn:Hk.
        + apply Hkeep, HL.
        + exact I.
        + destruct (kind_cacheable c (or_introl Hk)) as [Hn Ht].
          rewrite Hh, app_length; simpl. rewrite Hc. repeat split; auto; try lia.
          now exists p.
        + destruct (kind_cacheable c (or_intror Hk)) as [Hn Ht].
          rewrite Hh, app_length; simpl. rewrite Hc. repeat split; auto; try lia. now exists p.
      - unfold wf_memo. intros j s Hj Hm.
        rewrite Hh, app_length in Hj. simpl in Hj.
        unfold content_at, obj_at in *. rewrite Hh in *.
        destruct (Nat.eq_dec j (length (heap V S K st))) as [->|Hne].
        + rewrite nth_snoc_last in Hm. discriminate.
        + rewrite app_nth1 in * by lia. apply HM; [lia | exact Hm].
    Qed.

    Lemma unpack_old_objects : forall st p a st1 r j,
      unpack_ st p a = (st1, r) -> (j < length (heap V S K st))%nat ->
      obj_at V S K st1 j = obj_at V S K st j /\ (length (heap V S K st) <= length (heap V S K st1))%nat.
    Proof.
      intros st p a st1 r j Hu Hj. unfold unpack in Hu.
      destruct (hit V S K proj keqb st p a); [inversion Hu; subst; auto|].
      destruct (dec_attrs p a) as [e|c]; [inversion Hu; subst; auto|].
      destruct (kind_of V c); inversion Hu; subst; unfold obj_at; simpl; rewrite app_length; simpl;
        (split; [now rewrite app_nth1 by lia | lia]).
    Qed.

    (* ---- set_content / json ---- *)
    Lemma set_content_same : forall st id, (id < length (heap V S K st))%nat ->
      set_content V S K st id (content_at V S K st id) = st.
    Proof.
      intros [h l c] id Hid. unfold set_content, content_at, obj_at. simpl in *.
      f_equal. destruct (nth id h (mkObj V S [] None)) as [cc mm] eqn:Ho. simpl.
      rewrite <- Ho. now apply upd_nth_same.
    Qed.

    Lemma set_content_fresh_inv : forall st id c,
      Inv st -> (id < length (heap V S K st))%nat -> memo V S (obj_at V S K st id) = None ->
      (forall k prev id0, last V S K st = Some (k, prev, id0) -> id0 <> id) ->
      Inv (set_content V S K st id c).
    Proof.
      intros st id c [HL HM] Hid Hmemo Hnot. split.
      - unfold wf_last in *. unfold set_content; simpl.
        destruct (last V S K st) as [[[k prev] id0]|] eqn:Hl; [|exact I].
        assert (Hne : id <> id0) by (intro; subst; now apply (Hnot k prev id0)).
        unfold content_at, obj_at in *. simpl. rewrite upd_nth_length.
        rewrite nth_upd_nth_neq by exact Hne. exact HL.
      - unfold wf_memo in *. intros j s Hj Hm.
        unfold set_content, content_at, obj_at in *; simpl in *. rewrite upd_nth_length in Hj.
        destruct (Nat.eq_dec id j) as [<-|Hne].
        + rewrite nth_upd_nth_eq in * by lia. simpl in *. rewrite Hmemo in Hm. discriminate.
        + rewrite nth_upd_nth_neq in * by exact Hne. now apply HM.
    Qed.

    Lemma json_spec : forall st id st' s,
      Inv st -> (id < length (heap V S K st))%nat -> json_ st id = (st', s) ->
      s = render (content_at V S K st id) /\ Inv st' /\
      length (heap V S K st') = length (heap V S K st) /\ capid V S K st' = capid V S K st /\
      (forall j, view_ st' j = view_ st j).
    Proof.
      intros st id st' s [HL HM] Hid Hj. unfold json in Hj.
      destruct (memo V S (obj_at V S K st id)) as [s0|] eqn:Hm.
      - inversion Hj; subst. split; [now apply HM|]. repeat split; auto.
      - inversion Hj; subst. clear Hj. split; [reflexivity|].
        assert (Hcont : forall j, content_at V S K
                  (mkSt V S K (upd_nth (heap V S K st) id (mkObj V S (content_at V S K st id) (Some (render (content_at V S K st id)))))
                        (last V S K st) (capid V S K st)) j = content_at V S K st j).
        { intro j. unfold content_at, obj_at. simpl.
          destruct (Nat.eq_dec id j) as [<-|Hne]; [now rewrite nth_upd_nth_eq by lia | now rewrite nth_upd_nth_neq by exact Hne]. }
        split; [split|].
        + unfold wf_last in *. simpl.
          destruct (last V S K st) as [[[k prev] id0]|]; [|exact I].
          rewrite upd_nth_length, Hcont. exact HL.
        + unfold wf_memo in *. intros j s Hjl Hms. rewrite Hcont. simpl in Hjl. rewrite upd_nth_length in Hjl.
          unfold obj_at in Hms. simpl in Hms.
          destruct (Nat.eq_dec id j) as [<-|Hne].
          * rewrite nth_upd_nth_eq in Hms by lia. simpl in Hms. now inversion Hms.
          * rewrite nth_upd_nth_neq in Hms by exact Hne. now apply HM.
        + simpl. rewrite upd_nth_length. repeat split; auto.
          intro j. unfold view. rewrite Hcont. f_equal.
          unfold obj_at. simpl.
          destruct (Nat.eq_dec id j) as [<-|Hne].
          * rewrite nth_upd_nth_eq by lia. simpl. unfold obj_at in Hm. rewrite Hm. reflexivity.
          * now rewrite nth_upd_nth_neq by exact Hne.
    Qed.

    (* ---- one UPDATE ---- *)
    Lemma unpack_capid : forall st p a, capid V S K (fst (unpack_ st p a)) = capid V S K st.
    Proof.
      intros st p a. unfold unpack. destruct (hit V S K proj keqb st p a); [reflexivity|].
      destruct (dec_attrs p a) as [e|c]; [reflexivity|]. destruct (kind_of V c); reflexivity.
    Qed.

    Lemma upd_step_spec : forall st p body st' o,
      Inv st -> P p ->
      upd_step_ st p body = (st', o) ->
      (Agrees p -> obs_ o = dec_fresh_ (EUpdate p body)) /\ Inv st' /\ capid V S K st' = capid V S K st /\
      (length (heap V S K st) <= length (heap V S K st'))%nat /\
      (forall j, (j < length (heap V S K st))%nat -> view_ st' j = view_ st j).
    Proof.
      intros st p body st' o HI HP Hs. unfold upd_step in Hs. simpl.
      destruct (attr_block body) as [a|]; [|inversion Hs; subst; repeat split; auto; apply HI].
      pose proof (unpack_inv st p a HI HP) as HI1.
      destruct (unpack_cases st p a HI) as [(e & Hd & Hu) | (c0 & id & st1 & Hd & Hu & Hc & Hcap & Hcase)];
        rewrite Hu in Hs, HI1; simpl in HI1.
      { inversion Hs; subst st' o. rewrite Hd. repeat split; auto; apply HI. }
      subst c0. set (c := content_at V S K st1 id) in *.
      (* the state after the pops *)
      assert (H2 : exists st2,
                 st2 = set_content V S K st1 id (pop_mp V c) /\ Inv st2 /\ capid V S K st2 = capid V S K st /\
                 (id < length (heap V S K st2))%nat /\ content_at V S K st2 id = pop_mp V c /\
                 (length (heap V S K st) <= length (heap V S K st2))%nat /\
                 (forall j, (j < length (heap V S K st))%nat -> view_ st2 j = view_ st j)).
      { eexists. split; [reflexivity|].
        destruct Hcase as [(-> & Hid & Hn & Ht & _) | (Hdu & Hid & Hh & Hl)].
        - rewrite (pop_mp_nomp c Hn). unfold c. rewrite set_content_same by exact Hid.
          repeat split; auto; apply HI1.
        - assert (Hlen : length (heap V S K st1) = Datatypes.S (length (heap V S K st))) by (rewrite Hh, app_length; simpl; lia).
          assert (Hobj : obj_at V S K st1 id = mkObj V S c None).
          { unfold c, content_at, obj_at. rewrite Hh, Hid. now rewrite nth_snoc_last. }
          assert (Hnew : forall c', Inv st1 ->
                     (forall k prev id0, last V S K st1 = Some (k, prev, id0) -> id0 <> id) ->
                     Inv (set_content V S K st1 id c') /\ capid V S K (set_content V S K st1 id c') = capid V S K st /\
                     (id < length (heap V S K (set_content V S K st1 id c')))%nat /\
                     content_at V S K (set_content V S K st1 id c') id = c' /\
                     (length (heap V S K st) <= length (heap V S K (set_content V S K st1 id c')))%nat /\
                     (forall j, (j < length (heap V S K st))%nat -> view_ (set_content V S K st1 id c') j = view_ st j)).
          { intros c' HIx Hnot.
            split; [apply set_content_fresh_inv; auto; [lia | now rewrite Hobj]|].
            unfold set_content, content_at, obj_at; simpl. rewrite upd_nth_length.
            repeat split; auto; try lia. { now rewrite nth_upd_nth_eq by lia. }
            intros j Hj. unfold view, content_at, obj_at. simpl. rewrite nth_upd_nth_neq by lia.
            rewrite Hh. now rewrite app_nth1 by lia. }
          assert (Hsame : nomp V c = true ->
                     Inv (set_content V S K st1 id (pop_mp V c)) /\ capid V S K (set_content V S K st1 id (pop_mp V c)) = capid V S K st /\
                     (id < length (heap V S K (set_content V S K st1 id (pop_mp V c))))%nat /\
                     content_at V S K (set_content V S K st1 id (pop_mp V c)) id = pop_mp V c /\
                     (length (heap V S K st) <= length (heap V S K (set_content V S K st1 id (pop_mp V c))))%nat /\
                     (forall j, (j < length (heap V S K st))%nat -> view_ (set_content V S K st1 id (pop_mp V c)) j = view_ st j)).
          { intro Hn. rewrite (pop_mp_nomp c Hn). unfold c. rewrite set_content_same by lia.
            split; [exact HI1|]. repeat split; auto; try lia.
            intros j Hj. unfold view, content_at, obj_at. rewrite Hh. now rewrite app_nth1 by lia. }
          destruct (kind_of V c) eqn:Hk.
          + apply Hnew; [exact HI1|].
            intros k prev id0 Hl0. rewrite Hl in Hl0. destruct HI as [HL _]. unfold wf_last in HL. rewrite Hl0 in HL. lia.
          + apply Hnew; [exact HI1|]. intros k prev id0 Hl0. rewrite Hl in Hl0. discriminate.
          + apply Hsame. apply (kind_cacheable c (or_introl Hk)).
          + apply Hsame. apply (kind_cacheable c (or_intror Hk)). }
      destruct H2 as (st2 & Hst2 & HI2 & Hcap2 & Hid2 & Hc2 & Hlen2 & Hview2).
      rewrite <- Hst2 in Hs.
      destruct (is_nil V (pop_mp V c) && is_empty_update (nlri_part p body c)) eqn:Heor.
      - (* decoded to nothing: second unpack *)
        pose proof (unpack_inv st2 p a HI2 HP) as HI3.
        pose proof (unpack_capid st2 p a) as Hcap3.
        assert (Hold : forall j, (j < length (heap V S K st2))%nat ->
                   obj_at V S K (fst (unpack_ st2 p a)) j = obj_at V S K st2 j /\
                   (length (heap V S K st2) <= length (heap V S K (fst (unpack_ st2 p a))))%nat).
        { intros j Hj. destruct (unpack_ st2 p a) as [sx rx] eqn:Hux. simpl. eapply unpack_old_objects; eauto. }
        assert (Hstruct : Inv (fst (unpack_ st2 p a)) /\ capid V S K (fst (unpack_ st2 p a)) = capid V S K st /\
                          (length (heap V S K st) <= length (heap V S K (fst (unpack_ st2 p a))))%nat /\
                          (forall j, (j < length (heap V S K st))%nat -> view_ (fst (unpack_ st2 p a)) j = view_ st j)).
        { repeat split; try apply HI3; try congruence.
          - destruct (Hold id Hid2). lia.
          - intros j Hj. rewrite <- (Hview2 j Hj). unfold view, content_at.
            destruct (Hold j) as [Ho _]; [lia|]. now rewrite Ho. }
        split.
        + intro Hag. specialize (Hd Hag). rewrite Hd. cbv zeta. rewrite Heor.
          destruct (unpack_cases st2 p a HI2) as [(e & Hd2 & Hu2) | (c2 & id2 & st3 & Hd2 & Hu2 & Hc3 & _)];
            rewrite Hu2 in Hs; inversion Hs; subst st' o.
          * congruence.
          * simpl. specialize (Hd2 Hag). rewrite Hd in Hd2. rewrite Hc3. congruence.
        + destruct (unpack_ st2 p a) as [st3 r2]. simpl in Hstruct.
          destruct r2; inversion Hs; subst st' o; exact Hstruct.
      - destruct (json_ st2 id) as [st3 js] eqn:Hj.
        destruct (json_spec st2 id st3 js HI2 Hid2 Hj) as (Hjs & HI3 & Hlen3 & Hcap3 & Hview3).
        inversion Hs; subst st' o. split.
        + intro Hag. specialize (Hd Hag). rewrite Hd. cbv zeta. rewrite Heor. simpl. now rewrite Hjs, Hc2.
        + repeat split; try apply HI3; try congruence; try lia.
          intros j Hjl. rewrite Hview3. now apply Hview2.
    Qed.

    (* ---- one OPEN ---- *)
    Fixpoint writes_class (k : Z) (caps : list (Z * bytes)) : bool :=
      match caps with
      | [] => false
      | (c, _) :: t => (match cap_class c with Some k' => k' =? k | None => false end) || writes_class k t
      end.

    Lemma apply_caps_untouched : forall caps ids k d,
      writes_class k caps = false -> zget k (apply_caps cap_class ids caps) d = zget k ids d.
    Proof.
      induction caps as [|[c v] t IH]; intros ids k d H; [reflexivity|].
      simpl in *. apply orb_false_iff in H. destruct H as [H1 H2].
      rewrite (IH _ k d H2). destruct (cap_class c) as [k'|]; [|reflexivity].
      apply zget_zset_neq. apply Z.eqb_neq in H1. congruence.
    Qed.

    Lemma apply_caps_written : forall caps ids1 ids2 k d,
      writes_class k caps = true ->
      zget k (apply_caps cap_class ids1 caps) d = zget k (apply_caps cap_class ids2 caps) d.
    Proof.
      induction caps as [|[c v] t IH]; intros ids1 ids2 k d H; [discriminate|].
      simpl in *. destruct (writes_class k t) eqn:Ht.
      - apply IH. exact Ht.
      - rewrite orb_false_r in H. rewrite !(apply_caps_untouched t _ k d Ht).
        destruct (cap_class c) as [k'|]; [|discriminate].
        apply Z.eqb_eq in H. subst k'. now rewrite !zget_zset_eq.
    Qed.

    Lemma render_caps_history_free : forall caps ids1 ids2,
      render_caps S cap_class class_default render_cap (apply_caps cap_class ids1 caps) caps =
      render_caps S cap_class class_default render_cap (apply_caps cap_class ids2 caps) caps.
    Proof.
      intros caps ids1 ids2. unfold render_caps.
      apply map_ext_in. intros [c v] Hin. simpl. f_equal. unfold class_id.
      destruct (cap_class c) as [k|] eqn:Hk; [|reflexivity]. f_equal.
      apply apply_caps_written.
      clear ids1 ids2. induction caps as [|[c' v'] t IH]; [destruct Hin|].
      simpl. destruct Hin as [Heq|Hin].
      - inversion Heq; subst. rewrite Hk, Z.eqb_refl. reflexivity.
      - rewrite (IH Hin). apply orb_true_r.
    Qed.

    Lemma open_step_spec : forall st body,
      snd (open_step_ st body) = dec_fresh_ (EOpen body) /\
      heap V S K (fst (open_step_ st body)) = heap V S K st /\
      last V S K (fst (open_step_ st body)) = last V S K st.
    Proof.
      intros st body. unfold open_step, dec_fresh. destruct (open_fixed body); simpl; repeat split; auto.
      f_equal. apply render_caps_history_free.
    Qed.

    (* ---- one event ---- *)
    Definition ev_P (ev : event) : Prop := forall p b, ev = EUpdate p b -> P p.
    Definition ev_agrees (ev : event) : Prop := forall p b, ev = EUpdate p b -> Agrees p.

    Lemma step_spec : forall st ev,
      Inv st -> ev_P ev ->
      (ev_agrees ev -> is_render ev = false -> obs_ (snd (step_ st ev)) = dec_fresh_ ev) /\
      Inv (fst (step_ st ev)) /\
      (length (heap V S K st) <= length (heap V S K (fst (step_ st ev))))%nat /\
      (forall j, (j < length (heap V S K st))%nat -> view_ (fst (step_ st ev)) j = view_ st j).
    Proof.
      intros st ev HI Hev. destruct ev as [p body | body | ty body | id].
      - pose proof (Hev p body eq_refl) as HP. simpl.
        destruct (upd_step_ st p body) as [st' o] eqn:Hs.
        destruct (upd_step_spec st p body st' o HI HP Hs) as (Ho & HI' & _ & Hlen & Hview).
        simpl. repeat split; auto; try apply HI'.
        intros Hag _. apply Ho. apply (Hag p body eq_refl).
      - simpl. destruct (open_step_spec st body) as (Ho & Hh & Hl).
        split; [intros _ _; rewrite Ho; simpl; destruct (open_fixed body); reflexivity|].
        assert (Hst : forall j, content_at V S K (fst (open_step_ st body)) j = content_at V S K st j /\
                                obj_at V S K (fst (open_step_ st body)) j = obj_at V S K st j).
        { intro j. unfold content_at, obj_at. now rewrite Hh. }
        split; [|split].
        + destruct HI as [HL HM]. split.
          * unfold wf_last in *. rewrite Hl, Hh. destruct (last V S K st) as [[[k prev] id0]|]; [|exact I].
            destruct (Hst id0) as [-> _]. exact HL.
          * unfold wf_memo in *. intros j s Hj Hm. rewrite Hh in Hj. destruct (Hst j) as [-> Ho']. rewrite Ho' in Hm. now apply HM.
        + rewrite Hh. lia.
        + intros j _. unfold view. destruct (Hst j) as [-> ->]. reflexivity.
      - simpl. repeat split; auto; apply HI.
      - simpl. split; [discriminate|].
        destruct (Nat.ltb id (length (heap V S K st))) eqn:Hlt.
        + apply Nat.ltb_lt in Hlt. destruct (json_ st id) as [st' s] eqn:Hj.
          destruct (json_spec st id st' s HI Hlt Hj) as (_ & HI' & Hlen & _ & Hview). simpl.
          repeat split; auto; try apply HI'; try lia.
        + simpl. repeat split; auto; apply HI.
    Qed.

    Definition hist_P (hist : list event) : Prop := forall ev, In ev hist -> ev_P ev.

    Lemma run_from_inv : forall hist st, Inv st -> hist_P hist -> Inv (run_from_ st hist).
    Proof.
      induction hist as [|ev t IH]; intros st HI Hok; [exact HI|].
      simpl. apply IH.
      - apply step_spec; [exact HI|]. apply Hok. now left.
      - intros ev' Hin. apply Hok. now right.
    Qed.

    Lemma run_from_views : forall hist st j,
      Inv st -> hist_P hist -> (j < length (heap V S K st))%nat ->
      view_ (run_from_ st hist) j = view_ st j /\ (j < length (heap V S K (run_from_ st hist)))%nat.
    Proof.
      induction hist as [|ev t IH]; intros st j HI Hok Hj; [auto|].
      simpl.
      destruct (step_spec st ev HI (Hok ev (or_introl eq_refl))) as (_ & HI' & Hlen & Hview).
      destruct (IH (fst (step_ st ev)) j HI') as [Hv Hl].
      - intros ev' Hin. apply Hok. now right.
      - lia.
      - split; [rewrite Hv; now apply Hview | exact Hl].
    Qed.
  End Inv.

  Lemma run_from_app : forall h1 h2 st, run_from_ st (h1 ++ h2) = run_from_ (run_from_ st h1) h2.
  Proof. induction h1 as [|ev t IH]; intros h2 st; simpl; auto. Qed.

  Lemma agree_refl : forall p, agree p p.
  Proof. intros p a c H _ _. exact H. Qed.

  (* ---------------------------------------------------------------------------------------- theorems *)

  (* what a fresh process answers is dec_fresh: the stateless decoder (no hypothesis) *)
  Theorem fresh_is_dec_fresh : forall ev,
    is_render ev = false -> obs_ (snd (step_ (init V S K) ev)) = dec_fresh_ ev.
  Proof.
    intros ev Hr.
    destruct ev as [p body | body | ty body | id]; try discriminate.
    - destruct (step_spec (eq p) (init V S K) (EUpdate p body) (Inv_init _)) as (Ho & _).
      + intros q b Heq. now inversion Heq.
      + apply Ho; [|reflexivity]. intros q b Heq p0 <- _. inversion Heq; subst. apply agree_refl.
    - destruct (step_spec (fun _ => True) (init V S K) (EOpen body) (Inv_init _)) as (Ho & _).
      + intros q b Heq. discriminate.
      + apply Ho; [|reflexivity]. intros q b Heq. discriminate.
    - reflexivity.
  Qed.

  (* every history reaches a state satisfying the invariant (all sessions allowed) *)
  Lemma run_inv_all : forall hist, Inv (fun _ => True) (run_ hist).
  Proof.
    intro hist. unfold run. apply run_from_inv; [apply Inv_init|]. intros ev _ p b _. exact I.
  Qed.

  (* PARTIAL: under the key condition every message decodes as in a fresh process *)
  Theorem history_independent_partial : KeySufficient ->
    forall hist ev, is_render ev = false -> obs_ (snd (step_ (run_ hist) ev)) = dec_fresh_ ev.
  Proof.
    intros HK hist ev Hr.
    destruct (step_spec (fun _ => True) (run_ hist) ev (run_inv_all hist)) as (Ho & _).
    - intros p b _. exact I.
    - apply Ho; [|exact Hr]. intros p b _ p0 _ Hp. now apply HK.
  Qed.

  (* one session (or several with the same negotiated parameters): no hypothesis on the decoder *)
  Theorem history_independent_one_session : forall q hist,
    (forall ev p b, In ev hist -> ev = EUpdate p b -> p = q) ->
    forall ev, (forall p b, ev = EUpdate p b -> p = q) -> is_render ev = false ->
    obs_ (snd (step_ (run_ hist) ev)) = dec_fresh_ ev.
  Proof.
    intros q hist Hh ev Hq Hr.
    assert (HI : Inv (eq q) (run_ hist)).
    { unfold run. apply run_from_inv; [apply Inv_init|]. intros e Hin p b He. symmetry. now apply (Hh e p b). }
    destruct (step_spec (eq q) (run_ hist) ev HI) as (Ho & _).
    - intros p b He. symmetry. now apply (Hq p b).
    - apply Ho; [|exact Hr]. intros p b He p0 <- _. rewrite (Hq p b He). apply agree_refl.
  Qed.

  (* objects handed out are never altered by later processing (content and rendering), any decoder *)
  Theorem shared_not_mutated : forall hist more id,
    (id < length (heap V S K (run_ hist)))%nat ->
    view_ (run_ (hist ++ more)) id = view_ (run_ hist) id.
  Proof.
    intros hist more id Hid. unfold run. rewrite run_from_app.
    apply (run_from_views (fun _ => True)); [apply run_inv_all | | exact Hid].
    intros ev _ p b _. exact I.
  Qed.

  (* the class-level ID: the rendering of an OPEN right after its decoding is history independent
     (contained in history_independent_partial / fresh_is_dec_fresh through render_caps_history_free),
     but the rendering of an OPEN object kept from earlier follows the class attribute *)
  Lemma view_open_now : forall st body,
    view_open V S K cap_class class_default render_cap (fst (open_step_ st body)) (open_caps body) =
    render_caps S cap_class class_default render_cap (apply_caps cap_class [] (open_caps body)) (open_caps body).
  Proof.
    intros st body. unfold view_open, open_step.
    destruct (open_fixed body); simpl; apply render_caps_history_free.
  Qed.
End Proofs.

(* ------------------------------------------------------------------------------------------------
   instances of the key *)

Lemma keqb_unit_spec : forall x y : unit, keqb_unit x y = true <-> x = y.
Proof. intros [] []. split; reflexivity. Qed.

Lemma keqb_bb_spec : forall x y : bool * bool, keqb_bb x y = true <-> x = y.
Proof.
  intros [a b] [c d]. unfold keqb_bb. simpl. split; intro H.
  - apply andb_true_iff in H. destruct H as [H1 H2]. apply eqb_prop in H1. apply eqb_prop in H2. now subst.
  - inversion H; subst. now rewrite !eqb_reflx.
Qed.

Section Instances.
  Variables V E S N F : Type.
  Variable dec_attrs : params -> bytes -> E + list (Z * V).
  Variable render : list (Z * V) -> S.
  Variable attr_block : bytes -> option bytes.
  Variable nlri_part : params -> bytes -> list (Z * V) -> N.
  Variable is_empty_update : N -> bool.
  Variable dec_other : Z -> bytes -> S.
  Variable open_fixed : bytes -> option F.
  Variable open_caps : bytes -> list (Z * bytes).
  Variable cap_class : Z -> option Z.
  Variable class_default : Z -> Z.
  Variable render_cap : option Z -> Z -> bytes -> S.

  Definition step_k (K : Type) (proj : params -> K) (keqb : K -> K -> bool) :=
    step V E S N F K proj keqb dec_attrs render attr_block nlri_part is_empty_update dec_other
         open_fixed open_caps cap_class class_default render_cap.
  Definition run_k (K : Type) (proj : params -> K) (keqb : K -> K -> bool) :=
    run V E S N F K proj keqb dec_attrs render attr_block nlri_part is_empty_update dec_other
        open_fixed open_caps cap_class class_default render_cap.
  Definition fresh :=
    dec_fresh V E S N F dec_attrs render attr_block nlri_part is_empty_update dec_other
              open_fixed open_caps cap_class class_default render_cap.

  (* the pinned code: key = raw bytes only *)
  Definition step_pinned := step_k unit proj_pinned keqb_unit.
  Definition run_pinned := run_k unit proj_pinned keqb_unit.
  (* key = (asn4, aigp, raw bytes) *)
  Definition step_fixed := step_k (bool * bool) proj_fix keqb_bb.
  Definition run_fixed := run_k (bool * bool) proj_fix keqb_bb.
  (* key = (every negotiated parameter, raw bytes) *)
  Definition step_full := step_k params (fun p => p) params_eqb.
  Definition run_full := run_k params (fun p => p) params_eqb.

  (* the condition a repair must establish, for the pinned key: no cacheable block decodes differently under
     two sessions *)
  Definition params_irrelevant : Prop :=
    forall p1 p2 a c, dec_attrs p1 a = inr c -> nomp V c = true -> has V TAW c = false -> dec_attrs p2 a = inr c.
  (* ... for the (asn4, aigp) key: cacheable blocks depend on the session through asn4 and aigp only *)
  Definition only_asn4_aigp : Prop :=
    forall p1 p2 a c, p_asn4 p1 = p_asn4 p2 -> p_aigp p1 = p_aigp p2 ->
                      dec_attrs p1 a = inr c -> nomp V c = true -> has V TAW c = false -> dec_attrs p2 a = inr c.

  Theorem pinned_partial : params_irrelevant ->
    forall hist ev, is_render ev = false -> obs V E S N F (snd (step_pinned (run_pinned hist) ev)) = fresh ev.
  Proof.
    intros H. apply history_independent_partial; [exact keqb_unit_spec|].
    intros p1 p2 _ a c. apply H.
  Qed.

  Theorem pinned_fresh : forall ev, is_render ev = false ->
    obs V E S N F (snd (step_pinned (init V S unit) ev)) = fresh ev.
  Proof. apply fresh_is_dec_fresh. exact keqb_unit_spec. Qed.

  Theorem pinned_one_session : forall q hist,
    (forall ev p b, In ev hist -> ev = EUpdate p b -> p = q) ->
    forall ev, (forall p b, ev = EUpdate p b -> p = q) -> is_render ev = false ->
    obs V E S N F (snd (step_pinned (run_pinned hist) ev)) = fresh ev.
  Proof. apply history_independent_one_session. exact keqb_unit_spec. Qed.

  Theorem pinned_shared_not_mutated : forall hist more id,
    (id < length (heap V S unit (run_pinned hist)))%nat ->
    view V S unit render (run_pinned (hist ++ more)) id = view V S unit render (run_pinned hist) id.
  Proof. apply shared_not_mutated. exact keqb_unit_spec. Qed.

  Theorem fixed_partial : only_asn4_aigp ->
    forall hist ev, is_render ev = false -> obs V E S N F (snd (step_fixed (run_fixed hist) ev)) = fresh ev.
  Proof.
    intros H. apply history_independent_partial; [exact keqb_bb_spec|].
    intros p1 p2 Hp a c. unfold proj_fix in Hp. inversion Hp. now apply H.
  Qed.

  Theorem full_key_history_independent :
    forall hist ev, is_render ev = false -> obs V E S N F (snd (step_full (run_full hist) ev)) = fresh ev.
  Proof.
    apply history_independent_partial; [exact params_eqb_spec|].
    intros p1 p2 Hp. subst p2. intros a c H _ _. exact H.
  Qed.

  Theorem full_key_shared_not_mutated : forall hist more id,
    (id < length (heap V S params (run_full hist)))%nat ->
    view V S params render (run_full (hist ++ more)) id = view V S params render (run_full hist) id.
  Proof. apply shared_not_mutated. exact params_eqb_spec. Qed.
End Instances.

(* ------------------------------------------------------------------------------------------------
   the witnesses: a concrete decoder that reads the parameter the pinned key omits *)

(* attribute block = AS_PATH, flag 0x40, one AS_SEQUENCE segment of length 1, bytes 00 01 00 02 *)
Definition W_block : bytes := [64; 2; 6; 2; 1; 0; 1; 0; 2].

(* 4-byte session: AS_PATH ( 65538 ); 2-byte session: the segment is cut short -> treat-as-withdraw (aid 2) *)
Definition dec_demo (p : params) (a : bytes) : unit + list (Z * Z) :=
  if bytes_eqb a W_block then (if p_asn4 p then inr [(2, 65538)] else inr [(TAW, 2)]) else inr [].

(* RouteRefresh is registered under 0x02 and 0x80, MultiSession under 0x44 and 0x83 *)
Definition cap_class_demo (c : Z) : option Z :=
  if (c =? 2) || (c =? 128) then Some 2 else if (c =? 68) || (c =? 131) then Some 68 else None.

Definition render_cap_demo (cid : option Z) (c : Z) (v : bytes) : list (Z * Z) :=
  [(c, match cid with Some i => i | None => -1 end)].

Definition demo_step := step_pinned Z unit (list (Z * Z)) unit unit dec_demo (fun c => c) (fun b => Some b)
                                    (fun _ _ _ => tt) (fun _ => false) (fun _ _ => [])
                                    (fun _ => Some tt) (fun b => map (fun c => (c, [])) b) cap_class_demo (fun k => k) render_cap_demo.
Definition demo_run := run_pinned Z unit (list (Z * Z)) unit unit dec_demo (fun c => c) (fun b => Some b)
                                  (fun _ _ _ => tt) (fun _ => false) (fun _ _ => [])
                                  (fun _ => Some tt) (fun b => map (fun c => (c, [])) b) cap_class_demo (fun k => k) render_cap_demo.
Definition demo_fresh := fresh Z unit (list (Z * Z)) unit unit dec_demo (fun c => c) (fun b => Some b)
                               (fun _ _ _ => tt) (fun _ => false) (fun _ _ => [])
                               (fun _ => Some tt) (fun b => map (fun c => (c, [])) b) cap_class_demo (fun k => k) render_cap_demo.
Definition demo_view_open (st : cstate Z (list (Z * Z)) unit) (caps : list (Z * bytes)) :=
  view_open Z (list (Z * Z)) unit cap_class_demo (fun k => k) render_cap_demo st caps.

Definition P4 : params := mkP true false [0].
Definition P2 : params := mkP false false [1].

Lemma pinned_refuted :
  exists hist p b,
    obs Z unit (list (Z * Z)) unit unit (snd (demo_step (demo_run hist) (EUpdate p b))) <> demo_fresh (EUpdate p b).
Proof. exists [EUpdate P4 W_block], P2, W_block. vm_compute. discriminate. Qed.

(* the same two messages under the repaired keys answer as a fresh process does *)
Lemma fixed_on_witness :
  let st := run_fixed Z unit (list (Z * Z)) unit unit dec_demo (fun c => c) (fun b => Some b)
                      (fun _ _ _ => tt) (fun _ => false) (fun _ _ => [])
                      (fun _ => Some tt) (fun b => map (fun c => (c, [])) b) cap_class_demo (fun k => k) render_cap_demo
                      [EUpdate P4 W_block] in
  obs Z unit (list (Z * Z)) unit unit
      (snd (step_fixed Z unit (list (Z * Z)) unit unit dec_demo (fun c => c) (fun b => Some b)
                       (fun _ _ _ => tt) (fun _ => false) (fun _ _ => [])
                       (fun _ => Some tt) (fun b => map (fun c => (c, [])) b) cap_class_demo (fun k => k) render_cap_demo
                       st (EUpdate P2 W_block)))
  = demo_fresh (EUpdate P2 W_block).
Proof. vm_compute. reflexivity. Qed.

(* an OPEN carrying the Cisco route-refresh code, then an OPEN carrying the RFC one: the first object's rendering moves *)
Lemma open_objects_refuted :
  exists b1 b2,
    let caps1 := map (fun c => (c, @nil Z)) b1 in
    demo_view_open (demo_run [EOpen b1; EOpen b2]) caps1 <> demo_view_open (demo_run [EOpen b1]) caps1.
Proof. exists [128], [2]. vm_compute. discriminate. Qed.

(* ------------------------------------------------------------------------------------------------
   L5: the per-attribute cache *)

Lemma attr_cache_dead : forall A (dec_attr : params -> Z -> Z -> bytes -> A) caching cls_id drop c p code flag data,
  attr_unpack A dec_attr caching false cls_id drop c p code flag data = (c, dec_attr p code flag data).
Proof. intros. unfold attr_unpack. now rewrite andb_false_r. Qed.

(* were it enabled, its key (cls.ID, data) would confuse two attribute codes carrying the same bytes *)
Lemma attr_cache_enabled_refuted :
  exists c p code flag data,
    let dec_attr := fun (_ : params) (code _ : Z) (_ : bytes) => code in
    snd (attr_unpack Z dec_attr true true 0 (fun _ => false) c p code flag data) <> dec_attr p code flag data.
Proof. exists [((0, [7]), 4)], P4, 5, 128, [7]. vm_compute. discriminate. Qed.
