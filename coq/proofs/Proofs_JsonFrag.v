(* C13 - lemmas about Model_JsonFrag. *)

From Coq Require Import ZArith List Bool Lia.
From ExaV Require Import gen.Gen_JsonKeys model.Model_Json proofs.Proofs_Json model.Model_JsonEvent proofs.Proofs_JsonEvent proofs.Proofs_JsonNeighbor.
From ExaV Require Import model.Model_JsonFrag.
Import ListNotations.
Open Scope Z_scope.

Lemma inet_json_ok : forall prefix pathinfo compact,
  safe_key prefix = true -> opt_safe pathinfo ->
  frag_ok (inet_json prefix pathinfo compact)
  /\ match pathinfo, compact with
     | Some pi, _ => map member_key [kv_pair k_nlri (quoted prefix); kv_pair k_path_information (quoted pi)]
                     = [Some k_nlri; Some k_path_information]
     | None, false => map member_key [kv_pair k_nlri (quoted prefix)] = [Some k_nlri]
     | None, true => True
     end.
Proof.
  intros prefix pathinfo compact Hp Hpi. unfold inet_json.
  destruct pathinfo as [pi|]; [| destruct compact].
  - split; [| reflexivity]. apply obj_ok.
    constructor; [apply kv_member_ok; [reflexivity | apply quoted_ok; exact Hp] |].
    constructor; [apply kv_member_ok; [reflexivity | apply quoted_ok; exact Hpi] | constructor].
  - split; [apply quoted_ok; exact Hp | exact I].
  - split; [| reflexivity]. apply obj_ok.
    constructor; [apply kv_member_ok; [reflexivity | apply quoted_ok; exact Hp] | constructor].
Qed.

Definition attr_ok (a : attrv) : Prop :=
  match a with AClusterList ids => Forall (fun i => safe_key i = true) ids | _ => True end.

Lemma json_bool_ok : forall b, frag_ok (json_bool b).
Proof. intros [|]; split; reflexivity. Qed.

Lemma attr_value_ok : forall a, attr_ok a -> frag_ok (attr_value a).
Proof.
  intros a H. destruct a; cbn [attr_value attr_ok] in *;
    try apply json_string_ok; try apply json_int_ok; try apply json_bool_ok.
  - apply arr_ok. apply Forall_forall. intros v Hv. apply in_map_iff in Hv. destruct Hv as [c [<- _]].
    apply arr_ok. constructor; [apply json_int_ok | constructor; [apply json_int_ok | constructor]].
  - apply arr_ok. apply Forall_forall. intros v Hv. apply in_map_iff in Hv. destruct Hv as [i [<- Hi]].
    apply quoted_ok. rewrite Forall_forall in H. exact (H i Hi).
Qed.

Lemma attr_name_safe : forall a, safe_key (attr_name a) = true.
Proof. intros a. destruct a; reflexivity. Qed.

Lemma attr_name_code : forall a b, attr_name a = attr_name b -> attr_code a = attr_code b.
Proof. intros a b H. destruct a; destruct b; cbn [attr_name] in H; try discriminate H; reflexivity. Qed.

Lemma NoDup_map_transfer : forall (A B C : Type) (f : A -> B) (g : A -> C) (l : list A),
  (forall a b, g a = g b -> f a = f b) -> NoDup (map f l) -> NoDup (map g l).
Proof.
  intros A B C f g l Hfg. induction l as [|x l IH]; intros H; cbn [map] in *; [constructor |].
  inversion H as [|? ? Hx Hl]; subst. constructor; [| apply IH; exact Hl].
  intros Hin. apply in_map_iff in Hin. destruct Hin as [y [Hy Hyl]].
  apply Hx. apply in_map_iff. exists y. split; [apply Hfg; exact Hy | exact Hyl].
Qed.

(* the names are the ones of the regenerated table *)
Lemma attr_names_regenerated :
  forallb (fun a => opt_eqb (key_name (attr_code a) attr_key_table) (Some (attr_name a))) attr_representatives = true.
Proof. vm_compute. reflexivity. Qed.

Lemma attr_content_ok : forall l,
  NoDup (map attr_code l) -> Forall attr_ok l ->
  frag_ok (braces (attr_content l))
  /\ map member_key (map attr_member l) = map Some (map attr_name l)
  /\ NoDup (map attr_name l).
Proof.
  intros l Hnd Hok. split; [| split].
  - unfold attr_content. change (braces (members_join ?ms)) with (obj_of_members ms). apply obj_ok.
    apply Forall_forall. intros m Hm. apply in_map_iff in Hm. destruct Hm as [a [<- Ha]].
    apply kv_member_ok; [apply attr_name_safe | apply attr_value_ok]. rewrite Forall_forall in Hok. exact (Hok a Ha).
  - rewrite !map_map. apply map_ext. intros a. apply member_key_kv_pair. apply attr_name_safe.
  - apply (NoDup_map_transfer _ _ _ attr_code attr_name l attr_name_code Hnd).
Qed.
