(* C15 - what is rendered / indexed / packed from a set-like attribute is a function of the multiset of
   its values, not of the order in which they were written or received.
   Model_Attr.csort is the sort that Communities.add / the text rendering of a community list apply;
   AttributeCollection.sameValuesAs compares `sorted(...) == sorted(...)`, modelled as set_eqb. *)
From Coq Require Import ZArith List Bool Lia Arith Permutation Sorted.
From ExaV Require Import model.Model_Nlri model.Model_Attr proofs.Proofs_Nlri.
Import ListNotations.
Open Scope Z_scope.

Lemma ins_perm x l : Permutation (ins x l) (x :: l).
Proof.
  induction l as [|y l IH]; cbn [ins]; [apply Permutation_refl|].
  destruct (x <? y); [apply Permutation_refl|].
  apply perm_trans with (y :: x :: l); [apply perm_skip; exact IH|apply perm_swap].
Qed.

Lemma fold_ins_perm l acc : Permutation (fold_left (fun a x => ins x a) l acc) (l ++ acc).
Proof.
  revert acc. induction l as [|x l IH]; intro acc; cbn [fold_left app]; [apply Permutation_refl|].
  apply perm_trans with (l ++ ins x acc); [apply IH|].
  apply perm_trans with (l ++ x :: acc); [apply Permutation_app_head; apply ins_perm|].
  apply Permutation_sym. apply Permutation_middle.
Qed.

Lemma csort_perm l : Permutation (csort l) l.
Proof. unfold csort. pose proof (fold_ins_perm l []) as H. rewrite app_nil_r in H. exact H. Qed.

Lemma ins_sorted x l : StronglySorted Z.le l -> StronglySorted Z.le (ins x l).
Proof.
  induction l as [|y l IH]; intro H; cbn [ins].
  - constructor; constructor.
  - destruct (x <? y) eqn:E.
    + apply Z.ltb_lt in E. constructor; [exact H|].
      inversion H as [|? ? Hs Hf]; subst. constructor; [lia|].
      eapply Forall_impl; [|exact Hf]. intros a Ha. cbn in Ha. lia.
    + apply Z.ltb_ge in E. inversion H as [|? ? Hs Hf]; subst. constructor; [apply IH; exact Hs|].
      assert (P : Permutation (ins x l) (x :: l)) by apply ins_perm.
      apply Permutation_sym in P. eapply Permutation_Forall; [exact P|]. constructor; [exact E|exact Hf].
Qed.

Lemma fold_ins_sorted l acc : StronglySorted Z.le acc -> StronglySorted Z.le (fold_left (fun a x => ins x a) l acc).
Proof.
  revert acc. induction l as [|x l IH]; intros acc H; cbn [fold_left]; [exact H|]. apply IH. apply ins_sorted. exact H.
Qed.

Lemma csort_sorted l : StronglySorted Z.le (csort l).
Proof. unfold csort. apply fold_ins_sorted. constructor. Qed.

Lemma sorted_perm_eq : forall l1 l2,
  StronglySorted Z.le l1 -> StronglySorted Z.le l2 -> Permutation l1 l2 -> l1 = l2.
Proof.
  induction l1 as [|a l1 IH]; intros l2 S1 S2 P.
  - apply Permutation_nil in P. subst. reflexivity.
  - destruct l2 as [|b l2]; [apply Permutation_sym, Permutation_nil in P; discriminate|].
    inversion S1 as [|? ? S1' F1]; subst. inversion S2 as [|? ? S2' F2]; subst.
    assert (Hab : a = b).
    { assert (Ia : In a (b :: l2)) by (eapply Permutation_in; [exact P|left; reflexivity]).
      assert (Ib : In b (a :: l1)) by (eapply Permutation_in; [apply Permutation_sym; exact P|left; reflexivity]).
      rewrite Forall_forall in F1, F2.
      destruct Ia as [Ea|Ia]; [congruence|]. destruct Ib as [Eb|Ib]; [congruence|].
      specialize (F2 _ Ia). specialize (F1 _ Ib). lia. }
    subst b. f_equal. apply IH; [exact S1'|exact S2'|]. eapply Permutation_cons_inv. exact P.
Qed.

(* the sorted form is a function of the multiset *)
Theorem csort_of_multiset : forall l1 l2, Permutation l1 l2 -> csort l1 = csort l2.
Proof.
  intros l1 l2 P. apply sorted_perm_eq; [apply csort_sorted|apply csort_sorted|].
  apply perm_trans with l1; [apply csort_perm|]. apply perm_trans with l2; [exact P|apply Permutation_sym, csort_perm].
Qed.

(* sorting again changes nothing: what a decoder would store after Communities.add re-encodes to the same bytes *)
Theorem csort_idempotent : forall l, csort (csort l) = csort l.
Proof.
  intro l. apply sorted_perm_eq; [apply csort_sorted|apply csort_sorted|apply csort_perm].
Qed.

(* sameValuesAs on a community list: sorted(a) == sorted(b) *)
Definition set_eqb (a b : list Z) : bool := list_eqb (csort a) (csort b).

(* whatever the comparison identifies is packed (and hence rendered, indexed, hashed: all are computed from
   the sorted list) identically, and the comparison identifies exactly the reorderings *)
Theorem set_eq_same_encoding : forall s a b,
  set_eqb a b = true ->
  pack_item s (ICommunity a) = pack_item s (ICommunity b) /\ pack_item s (IExtended a) = pack_item s (IExtended b).
Proof.
  intros s a b H. unfold set_eqb in H. apply list_eqb_eq in H. cbn [pack_item]. rewrite H. split; reflexivity.
Qed.

Theorem set_eq_iff_permutation : forall a b, set_eqb a b = true <-> Permutation a b.
Proof.
  intros a b. unfold set_eqb. rewrite list_eqb_eq. split.
  - intro H. apply perm_trans with (csort a); [apply Permutation_sym, csort_perm|]. rewrite H. apply csort_perm.
  - apply csort_of_multiset.
Qed.
